// h5make <out.h5> <kind> <n>: start-distribution files with unusual (but legal HDF5) contents, for C17/C11.
//   empty3 / empty4 : /PhaseSpace/data of rank 3 / 4 with ZERO records
//   scalar          : /PhaseSpace/data is a scalar data set
//   rank2 / rank5   : /PhaseSpace/data of rank 2 / 5 holding data
//   nodata          : a valid HDF5 file without /PhaseSpace/data
//   multibunch      : rank 4, one record of two bunches
//   double          : rank 3, one record stored as IEEE_F64LE (HDF5 converts on read)
//   ok              : rank 3, one record of n x n (a Gaussian-like bump), like a results file
#include <hdf5.h>
#include <cmath>
#include <cstdio>
#include <cstdlib>
#include <cstring>
#include <string>
#include <vector>
int main(int argc, char** argv) {
    if (argc < 4) { std::fprintf(stderr, "usage: h5make out kind n\n"); return 2; }
    std::string kind = argv[2];
    hsize_t n = std::strtoull(argv[3], nullptr, 10);
    hid_t f = H5Fcreate(argv[1], H5F_ACC_TRUNC, H5P_DEFAULT, H5P_DEFAULT);
    if (f < 0) return 1;
    hid_t g = H5Gcreate2(f, "/PhaseSpace", H5P_DEFAULT, H5P_DEFAULT, H5P_DEFAULT);
    if (kind == "nodata") { H5Gclose(g); H5Fclose(f); return 0; }
    int rank = 3; hsize_t dims[5] = {1, n, n, n, n};
    hid_t ftype = H5T_IEEE_F32LE;
    if (kind == "empty3") { dims[0] = 0; }
    else if (kind == "empty4") { rank = 4; dims[0] = 0; dims[1] = 1; }
    else if (kind == "rank2") { rank = 2; }
    else if (kind == "rank5") { rank = 5; dims[1] = 1; dims[2] = 1; }
    else if (kind == "multibunch") { rank = 4; dims[1] = 2; }
    else if (kind == "double") { ftype = H5T_IEEE_F64LE; }
    else if (kind == "scalar") { rank = 0; }
    else if (kind != "ok") { std::fprintf(stderr, "unknown kind\n"); return 2; }
    hid_t sp;
    hid_t pl = H5Pcreate(H5P_DATASET_CREATE);
    if (rank == 0) sp = H5Screate(H5S_SCALAR);
    else if (dims[0] == 0) {
        hsize_t maxd[5]; hsize_t chunk[5];
        for (int i = 0; i < rank; i++) { maxd[i] = dims[i]; chunk[i] = dims[i]; }
        maxd[0] = H5S_UNLIMITED; chunk[0] = 1;
        sp = H5Screate_simple(rank, dims, maxd);
        H5Pset_chunk(pl, rank, chunk);
    } else sp = H5Screate_simple(rank, dims, nullptr);
    hid_t ds = H5Dcreate2(f, "/PhaseSpace/data", ftype, sp, H5P_DEFAULT, pl, H5P_DEFAULT);
    if (ds < 0) return 1;
    size_t total = 1; for (int i = 0; i < rank; i++) total *= dims[i];
    if (total > 0) {
        std::vector<float> v(total);
        for (size_t i = 0; i < total; i++) {
            double x = (double)((i / n) % n) - 0.5 * (n - 1), y = (double)(i % n) - 0.5 * (n - 1), s = n / 12.0;
            v[i] = (float)(std::exp(-0.5 * (x * x + y * y) / (s * s)) / (6.2831853 * s * s) * (n - 1) * (n - 1) / 144.0);
        }
        H5Dwrite(ds, H5T_NATIVE_FLOAT, H5S_ALL, H5S_ALL, H5P_DEFAULT, v.data());
    }
    H5Dclose(ds); H5Sclose(sp); H5Pclose(pl); H5Gclose(g); H5Fclose(f);
    return 0;
}
