// further case kinds of the correspondence harness (included by ivharness.cpp)
static bool dispatch_more(const Case& c) {
    (void)c;
    return false;
}
