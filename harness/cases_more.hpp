// further case kinds of the correspondence harness (included by ivharness.cpp)

// fp <id> <n> <nb> <dt> <fptype> <fptrack> ; extra = e1 qmin qmax pmin pmax ; data
static void run_fp(const Case& c) {
    uint32_t n = std::stoul(c.head[2]), nb = std::stoul(c.head[3]);
    uint32_t dt = std::stoul(c.head[4]), fpt = std::stoul(c.head[5]), fptr = std::stoul(c.head[6]);
    float e1 = c.extra[0];
    PhaseSpace::resetSize(n, nb);
    auto in = mkps(n, nb, c.data.data(), c.extra[1], c.extra[2], c.extra[3], c.extra[4]);
    auto out = mkps(n, nb, nullptr, c.extra[1], c.extra[2], c.extra[3], c.extra[4]);
    ProbeFP fp(in, out, n, n, static_cast<FokkerPlanckMap::FPType>(fpt),
               static_cast<FokkerPlanckMap::FPTracking>(fptr), e1,
               static_cast<FokkerPlanckMap::DerivationType>(dt), nullptr);
    std::cout << "case " << c.id << '\n';
    std::cout << "ruler " << hx(in->getDelta(1)) << ' ' << hx(in->getAxis(1)->zerobin());
    for (uint32_t j = 0; j < n; j++) std::cout << ' ' << hx(in->p(j));
    std::cout << '\n';
    print_table(fp.table(), n, fp.ip());
    fp.apply();
    print_data("out", out->getData(), static_cast<size_t>(n) * n * nb);
    if (!c.parts.empty()) {
        std::cout << "parts";
        for (auto p : c.parts) {
            PhaseSpace::Position pos{p.first, p.second};
            fp.applyTo(pos);
            std::cout << ' ' << hx(pos.x) << ' ' << hx(pos.y);
        }
        std::cout << '\n';
    }
}

// ident <id> <n> <nb> ; data
static void run_ident(const Case& c) {
    uint32_t n = std::stoul(c.head[2]), nb = std::stoul(c.head[3]);
    PhaseSpace::resetSize(n, nb);
    auto in = mkps(n, nb, c.data.data());
    auto out = mkps(n, nb, nullptr);
    Identity id(in, out, nullptr);
    id.apply();
    std::cout << "case " << c.id << '\n';
    print_data("out", out->getData(), static_cast<size_t>(n) * n * nb);
}

// rf <id> <n> <it> <nb> <lin|sin> ; extra = qmin qmax pmin pmax qscale pscale angle f_RF [revpart V_RF V0] ; data
// prints: aux (tan(angle) syncphase), off (all n*nb), tab, out
static void run_rf(const Case& c) {
    uint32_t n = std::stoul(c.head[2]), it = std::stoul(c.head[3]), nb = std::stoul(c.head[4]);
    bool lin = c.head[5] == "lin";
    const auto& e = c.extra;
    PhaseSpace::resetSize(n, nb);
    auto in = mkps(n, nb, c.data.data(), e[0], e[1], e[2], e[3], e[4], e[5]);
    auto out = mkps(n, nb, nullptr, e[0], e[1], e[2], e[3], e[4], e[5]);
    std::unique_ptr<ProbeRF> rf;
    if (lin) rf.reset(new ProbeRF(in, out, e[6], e[7], static_cast<SourceMap::InterpolationType>(it), false, nullptr));
    else rf.reset(new ProbeRF(in, out, e[8], e[9], e[7], e[10], static_cast<SourceMap::InterpolationType>(it), false, nullptr));
    std::cout << "case " << c.id << '\n';
    std::cout << "ints " << rf->lastbunch() << ' ' << rf->rows() << '\n';
    // library values for the model (not compared): tan(angle), bl2phase, syncphase; sine table
    std::cout << "aux " << hx(std::tan(rf->angle())) << ' ' << hx(rf->bl2phase()) << ' ' << hx(rf->syncphase()) << '\n';
    if (!lin) {
        std::cout << "aux2";
        for (uint32_t x = 0; x < n; x++) {
            float arg = in->getAxis(0)->at(x) * rf->bl2phase() + rf->syncphase();
            std::cout << ' ' << hx(arg) << ' ' << hx(std::sin(arg));
        }
        std::cout << '\n';
    }
    print_data("off", rf->offsets().data(), rf->offsets().size());
    print_table(rf->table(), rf->rows(), rf->ip());
    rf->apply();
    print_data("out", out->getData(), static_cast<size_t>(n) * n * nb);
}

// drift <id> <n> <it> <nb> ; extra = qmin qmax pmin pmax qscale pscale slip0 slip1 slip2 E0 ; data
static void run_drift(const Case& c) {
    uint32_t n = std::stoul(c.head[2]), it = std::stoul(c.head[3]), nb = std::stoul(c.head[4]);
    const auto& e = c.extra;
    PhaseSpace::resetSize(n, nb);
    auto in = mkps(n, nb, c.data.data(), e[0], e[1], e[2], e[3], e[4], e[5]);
    auto out = mkps(n, nb, nullptr, e[0], e[1], e[2], e[3], e[4], e[5]);
    std::vector<meshaxis_t> slip{e[6], e[7], e[8]};
    ProbeDrift dm(in, out, slip, e[9], static_cast<SourceMap::InterpolationType>(it),
                  c.head.size() > 5 && c.head[5] == "1", nullptr);   // optional 6th token: interpolation-clamp switch
    std::cout << "case " << c.id << '\n';
    std::cout << "aux2";
    for (uint32_t y = 0; y < n; y++) {
        float base = in->getAxis(1)->at(y) * in->getAxis(1)->scale("ElectronVolt") / e[9];
        std::cout << ' ' << hx(base);
        for (int i = 0; i < 3; i++) std::cout << ' ' << hx(std::pow(base, static_cast<meshaxis_t>(i)));
    }
    std::cout << '\n';
    print_data("off", dm.offsets().data(), dm.offsets().size());
    print_table(dm.table(), dm.rows(), dm.ip());
    dm.apply();
    print_data("out", out->getData(), static_cast<size_t>(n) * n * nb);
    if (!c.parts.empty()) {
        // tracked particles moved by the drift map
        std::cout << "parts";
        for (auto p : c.parts) {
            PhaseSpace::Position pos{p.first, p.second};
            dm.applyTo(pos);
            std::cout << ' ' << hx(pos.x) << ' ' << hx(pos.y);
        }
        std::cout << '\n';
    }
}

// coeffsweep <id> <it> <lo> <hi> <stride> : all binary32 f with bit patterns lo..hi (step stride),
// checks |sum w - 1| <= 4u*sum|w| in double and unit vector at f == 0; prints counts
#include <thread>
#include <atomic>
struct ProbeCoeff : public KickMap { using KickMap::KickMap; static void c(float* ic, float f, uint_fast8_t it) { calcCoefficiants(ic, f, it); } };
static void run_coeffsweep(const Case& c) {
    uint32_t it = std::stoul(c.head[2]);
    uint64_t lo = std::stoull(c.head[3]), hi = std::stoull(c.head[4]), stride = std::stoull(c.head[5]);
    const int T = 16;
    std::vector<uint64_t> bad(T, 0), cnt(T, 0), firstbad(T, UINT64_MAX);
    std::vector<double> worst(T, 0);
    std::vector<std::thread> th;
    for (int t = 0; t < T; t++) th.emplace_back([&, t]() {
        for (uint64_t b = lo + static_cast<uint64_t>(t) * stride; b <= hi; b += stride * T) {
            float f = u2f(static_cast<uint32_t>(b));
            float ic[4] = {0, 0, 0, 0};
            ProbeCoeff::c(ic, f, static_cast<uint_fast8_t>(it));
            double s = 0, a = 0;
            for (uint32_t k = 0; k < it; k++) { s += ic[k]; a += std::fabs(ic[k]); }
            double dev = std::fabs(s - 1.0) / (a * 5.9604644775390625e-08);
            if (dev > worst[t]) worst[t] = dev;
            cnt[t]++;
            if (!(dev <= 4.0)) { bad[t]++; if (b < firstbad[t]) firstbad[t] = b; }
        }
    });
    for (auto& x : th) x.join();
    uint64_t B = 0, N = 0, F = UINT64_MAX; double W = 0;
    for (int t = 0; t < T; t++) { B += bad[t]; N += cnt[t]; F = std::min(F, firstbad[t]); W = std::max(W, worst[t]); }
    std::cout << "case " << c.id << "\n" << "ints " << N << ' ' << B << ' ' << (B ? F : 0) << ' ' << static_cast<uint64_t>(W * 1000) << '\n';
}

// ps <id> <n> <nb> ; extra = qmin qmax pmin pmax ; off = filling_set (nb) ; data ; ops = x y i n a0 a1 v0 v1 c p ...
// psg <id> <n> <nb> ; extra = qmin qmax pmin pmax zoom ; no data: the constructor builds the Gaussian start
//     distribution of width `zoom` itself (gaus, createFromProjections); same ops
static void ps_print(const PhaseSpace& ps, uint32_t n, uint32_t nb) {
    print_data("out", ps.getData(), static_cast<size_t>(n) * n * nb);
    std::cout << "vals";
    auto p0 = ps.getProjection(0); auto p1 = ps.getProjection(1);
    for (uint32_t b = 0; b < nb; b++) for (uint32_t x = 0; x < n; x++) std::cout << ' ' << hx(p0[b][x]);
    for (uint32_t b = 0; b < nb; b++) for (uint32_t y = 0; y < n; y++) std::cout << ' ' << hx(p1[b][y]);
    for (float f : ps.getBunchPopulation()) std::cout << ' ' << hx(f);
    std::cout << ' ' << hx(ps.getIntegral());
    for (int ax = 0; ax < 2; ax++) { auto m = ps.getMoment(ax, 0); for (uint32_t b = 0; b < nb; b++) std::cout << ' ' << hx(m[b]); }
    for (int ax = 0; ax < 2; ax++) { auto m = ps.getMoment(ax, 1); for (uint32_t b = 0; b < nb; b++) std::cout << ' ' << hx(m[b]); }
    { auto m = ps.getBunchLength(); for (uint32_t b = 0; b < nb; b++) std::cout << ' ' << hx(m[b]); }
    { auto m = ps.getEnergySpread(); for (uint32_t b = 0; b < nb; b++) std::cout << ' ' << hx(m[b]); }
    std::cout << '\n';
}
static void run_ps(const Case& c) {
    uint32_t n = std::stoul(c.head[2]), nb = std::stoul(c.head[3]);
    PhaseSpace::resetSize(n, nb);
    std::vector<integral_t> filling(c.off.begin(), c.off.end());
    std::cout << "case " << c.id << '\n';
    std::unique_ptr<PhaseSpace> ps;
    try {
        if (c.kind == "psg")
            ps.reset(new PhaseSpace(c.extra[0], c.extra[1], 1e-3, c.extra[2], c.extra[3], 6.11e5, nullptr, 1.0, 1.0,
                                    filling, static_cast<double>(c.extra[4]), nullptr));
        else
        ps.reset(new PhaseSpace(c.extra[0], c.extra[1], 1e-3, c.extra[2], c.extra[3], 6.11e5, nullptr, 1.0, 1.0,
                                filling, 1, c.data.data()));
    } catch (std::exception& e) { std::cout << "error ctor\n"; return; }
    for (const auto& op : c.words) {
        if (op == "x") ps->updateXProjection();
        else if (op == "y") ps->updateYProjection();
        else if (op == "i") ps->integrate();
        else if (op == "n") ps->normalize();
        else if (op == "N") ps->integrateAndNormalize();
        else if (op == "a0") ps->average(0);
        else if (op == "a1") ps->average(1);
        else if (op == "v0") ps->variance(0);
        else if (op == "v1") ps->variance(1);
        else if (op == "c") { std::unique_ptr<PhaseSpace> cp(new PhaseSpace(*ps)); ps = std::move(cp); }
        else if (op == "D") {
            // the grid is written from outside (as every source map does through getData()): every bunch moves by one
            // column, data'[b][x][y] = data[b][(x+1)%n][y]; no cached member is refreshed
            float* d = ps->getData();
            std::vector<float> old(d, d + static_cast<size_t>(n) * n * nb);
            for (uint32_t b = 0; b < nb; b++) for (uint32_t x = 0; x < n; x++) for (uint32_t y = 0; y < n; y++)
                d[(static_cast<size_t>(b) * n + x) * n + y] = old[(static_cast<size_t>(b) * n + (x + 1) % n) * n + y];
        }
        else if (op == "p") ps_print(*ps, n, nb);
    }
}

// ef <id> <n> <nb> <nmax> <spacing> ; off = bucket numbers ; parts = impedance (re,im)*nmax ;
// extra = f_rev revpart Ib E0 sigma_delta dt fcut ; data = profile sets (k-th set: nb*n floats) ;
// ops = P<k> (load profile set k), w (wakePotential), p (padBunchProfiles), c (updateCSR(fcut)), C (updateCSR(0)),
//       k<it> (WakePotentialMap on this field with <it> interpolation points: update(), apply(); compared in-process with a
//              plain y-KickMap whose offsets are the field's wake potentials: "ints" = number of differing offsets, table
//              entries, output cells, then rows and interpolation points)
struct ProbeWake : public WakePotentialMap {
    using WakePotentialMap::WakePotentialMap;
    const hi* table() const { return _hinfo; }
    size_t ip() const { return _ip; }
    size_t rows() const { return _offset.size(); }
};
static void run_ef(const Case& c) {
    uint32_t n = std::stoul(c.head[2]), nb = std::stoul(c.head[3]);
    size_t nmax = std::stoul(c.head[4]); uint32_t spacing = std::stoul(c.head[5]);
    PhaseSpace::resetSize(n, nb);
    // optional extra[7..10] = qmin qmax pmin pmax (different cell sizes along position and energy)
    auto ps = c.extra.size() >= 11 ? mkps(n, nb, nullptr, c.extra[7], c.extra[8], c.extra[9], c.extra[10])
                                   : mkps(n, nb, nullptr);
    std::vector<impedance_t> z; for (auto p : c.parts) z.push_back(impedance_t(p.first, p.second));
    z.resize(nmax, impedance_t(0, 0));
    const auto& e = c.extra;
    auto imp = std::make_shared<Impedance>(z, 1e12f);
    std::vector<uint32_t> buckets; for (float f : c.off) buckets.push_back(static_cast<uint32_t>(f));
    std::cout << "case " << c.id << '\n';
    ElectricField ef(ps, imp, buckets, spacing, nullptr, e[0], e[1], e[2], e[3], e[4], e[5]);
    std::cout << "vals " << hx(ef.getWakeScaling()) << ' ' << hx(static_cast<float>(ef.volts)) << ' '
              << hx(static_cast<float>(ef.factor4WattPerHertz)) << ' ' << hx(static_cast<float>(ef.factor4Watts)) << '\n';
    for (const auto& op : c.words) {
        if (op[0] == 'P') {
            size_t k = std::stoul(op.substr(1));
            for (uint32_t b = 0; b < nb; b++) {
                boost::multi_array<projection_t, 1> pr(boost::extents[n]);
                for (uint32_t x = 0; x < n; x++) pr[x] = c.data[k * nb * n + b * n + x];
                ps->setProjection(0, b, pr);
            }
            continue;
        }
        if (op[0] == 'k') {
            const auto it = static_cast<SourceMap::InterpolationType>(op[1] - '0');
            auto out1 = mkps(n, nb, nullptr), out2 = mkps(n, nb, nullptr);
            ProbeWake wm(ps, out1, &ef, it, false, nullptr);
            wm.update();
            const float* w = ef.getWakePotentials().data();
            ProbeKick km(ps, out2, it, false, KickMap::Axis::y, nullptr);
            std::vector<meshaxis_t> off(w, w + static_cast<size_t>(nb) * n);
            km.swapOffset(off);
            size_t doff = 0, dtab = 0, dout = 0;
            for (size_t i = 0; i < static_cast<size_t>(nb) * n; i++) if (f2u(wm.getForce()[i]) != f2u(w[i])) doff++;
            if (wm.rows() != km.rows() || wm.ip() != km.ip()) dtab = 1u << 30;
            else for (size_t i = 0; i < km.rows() * km.ip(); i++)
                if (wm.table()[i].index != km.table()[i].index || f2u(wm.table()[i].weight) != f2u(km.table()[i].weight)) dtab++;
            wm.apply(); km.apply();
            for (size_t i = 0; i < static_cast<size_t>(n) * n * nb; i++) if (f2u(out1->getData()[i]) != f2u(out2->getData()[i])) dout++;
            std::cout << "ops " << op << '\n' << "ints " << doff << ' ' << dtab << ' ' << dout << ' ' << wm.rows() << ' ' << wm.ip() << '\n';
            continue;
        }
        if (op == "w") { ef.wakePotential(); }
        else if (op == "p") { ef.padBunchProfiles(); }
        else if (op == "c") { ef.updateCSR(e[6]); }
        else if (op == "C") { ef.updateCSR(0); }
        std::cout << "ops " << op << '\n';
        print_data("pad", ef.getPaddedBunchProfiles(), nmax);
        if (op == "w") {
            print_data("wake", ef.getWakePotentials().data(), static_cast<size_t>(nb) * n);
            print_data("wpad", ef.getPaddedWakePotential(), nmax);
        }
        if (op == "c" || op == "C") {
            print_data("spec", ef.getCSRSpectrum(), nb * nmax);
            print_data("pow", ef.getCSRPower(), nb);
        }
    }
}

// opts <id> [save] ; argv tokens ; cfg lines (tokens key=value) ; the config file is written to
// $XDG_DATA_HOME/ivh_<id>.cfg and referenced from argv by the placeholder @CFG@
static std::string dhex(double d) { uint64_t u; std::memcpy(&u, &d, 8); char b[24]; snprintf(b, sizeof b, "%016llx", (unsigned long long)u); return b; }
static std::string sq(const std::string& s) { std::string r = "\""; for (char ch : s) { if (ch == ' ') r += "\\s"; else r += ch; } return r + "\""; }
static void print_getters(const ProgramOptions& o) {
    std::cout << "get"
      << " CLDevice=" << o.getCLDevice() << " ImpedanceFile=" << sq(o.getImpedanceFile()) << " OutFile=" << sq(o.getOutFile())
      << " SavePhaseSpace=" << o.getSavePhaseSpace()
      << " StartDistFile=" << sq(o.getStartDistFile()) << " StartDistStep=" << o.getStartDistStep()
      << " ParticleTracking=" << sq(o.getParticleTracking()) << " Verbosity=" << o.getVerbosity() << " ForceRun=" << o.getForceRun()
      << " GridSize=" << o.getGridSize() << " OutSteps=" << o.getOutSteps() << " Padding=" << dhex(o.getPadding())
      << " RoundPadding=" << o.getRoundPadding() << " StepsPerTsync=" << o.getStepsPerTsync() << " StepsPerTrev=" << dhex(o.getStepsPerTrev())
      << " NRotations=" << dhex(o.getNRotations()) << " PhaseSpaceSize=" << hx(o.getPhaseSpaceSize()) << " PSShiftX=" << hx(o.getPSShiftX())
      << " PSShiftY=" << hx(o.getPSShiftY()) << " RenormalizeCharge=" << o.getRenormalizeCharge() << " FPTrack=" << o.getFPTrack()
      << " FPType=" << o.getFPType() << " DerivationType=" << o.getDerivationType() << " InterpolationPoints=" << o.getInterpolationPoints()
      << " InterpolationClamped=" << o.getInterpolationClamped() << " Alpha0=" << hx(o.getAlpha0()) << " Alpha1=" << hx(o.getAlpha1())
      << " Alpha2=" << hx(o.getAlpha2()) << " RFAmplitudeSpread=" << dhex(o.getRFAmplitudeSpread()) << " RFPhaseSpread=" << dhex(o.getRFPhaseSpread())
      << " RFPhaseModAmplitude=" << dhex(o.getRFPhaseModAmplitude()) << " RFPhaseModFrequency=" << dhex(o.getRFPhaseModFrequency())
      << " BeamEnergy=" << dhex(o.getBeamEnergy()) << " BendingRadius=" << dhex(o.getBendingRadius()) << " CutoffFrequency=" << hx(o.getCutoffFrequency())
      << " EnergySpread=" << dhex(o.getEnergySpread())
      << " HarmonicNumber=" << hx(o.getHarmonicNumber()) << " RevolutionFrequency=" << hx(o.getRevolutionFrequency())
      << " RFVoltage=" << dhex(o.getRFVoltage()) << " StartDistZoom=" << dhex(o.getStartDistZoom()) << " SyncFreq=" << hx(o.getSyncFreq())
      << " DampingTime=" << dhex(o.getDampingTime()) << " VacuumChamberGap=" << dhex(o.getVacuumChamberGap()) << " UseCSR=" << o.getUseCSR()
      << " LinearRF=" << o.getLinearRF() << " CollimatorRadius=" << dhex(o.getCollimatorRadius()) << " WallConductivity=" << dhex(o.getWallConductivity())
      << " WallSusceptibility=" << dhex(o.getWallSusceptibility()) << " BunchCurrents=";
    bool first = true; for (float f : o.getBunchCurrents()) { std::cout << (first ? "" : ",") << hx(f); first = false; }
    std::cout << '\n';
}
static bool parse_with(ProgramOptions& o, std::vector<std::string> args, std::string& status) {
    std::vector<char*> av; for (auto& a : args) av.push_back(const_cast<char*>(a.c_str()));
    std::stringstream sink; auto* old = std::cout.rdbuf(sink.rdbuf()); auto* olde = std::cerr.rdbuf(sink.rdbuf());
    bool rv = false; status = "ok";
    try { rv = o.parse(static_cast<int>(av.size()), av.data()); status = rv ? "run" : "norun"; }
    catch (std::exception& e) { status = "error"; }
    catch (...) { status = "error-unknown"; }
    std::cout.rdbuf(old); std::cerr.rdbuf(olde);
    return rv;
}
static void run_opts(const Case& c) {
    bool dosave = c.head.size() > 2 && c.head[2] == "save";
    std::string dir = std::getenv("XDG_DATA_HOME") ? std::getenv("XDG_DATA_HOME") : "/tmp";
    std::string cfgpath = dir + "/ivh_" + c.id + ".cfg";
    bool hascfg = false;
    std::vector<std::string> args{"inovesa"};
    for (auto a : c.argv) { if (a == "@CFG@") { a = cfgpath; hascfg = true; } else if (a == "@NOFILE@") a = dir + "/does_not_exist.cfg"; args.push_back(a); }
    if (hascfg) { std::ofstream f(cfgpath); for (auto& l : c.cfg) f << l << "\n"; }
    std::cout << "case " << c.id << '\n';
    std::string st;
    ProgramOptions o;
    parse_with(o, args, st);
    std::cout << "txt " << st << '\n';
    if (st == "run") print_getters(o);
    if (dosave && st == "run") {
        std::string saved = dir + "/ivh_" + c.id + ".saved.cfg";
        { std::stringstream sink; auto* old = std::cout.rdbuf(sink.rdbuf()); o.save(saved); std::cout.rdbuf(old); }
        std::ifstream f(saved); std::string l; std::cout << "txt saved";
        while (std::getline(f, l)) { if (l.empty() || l[0] == '#') continue; std::string t; for (char ch : l) t += (ch == ' ' ? '~' : ch); std::cout << ' ' << t; }
        std::cout << '\n';
        ProgramOptions o2; std::string st2;
        parse_with(o2, {"inovesa", "--config", saved}, st2);
        std::cout << "txt re" << st2 << '\n';
        if (st2 == "run") print_getters(o2);
        std::remove(saved.c_str());
    }
    if (hascfg) std::remove(cfgpath.c_str());
}

// fpiter <id> <n> <dt> <fptype> <steps> <every> ; extra = e1 qmin qmax pmin pmax ; data (1 bunch)
// iterates FokkerPlanckMap::apply (A: g1->g2, B: g2->g1) and prints the energy moments of the grid
static void fp_moments(const PhaseSpace& ps, uint32_t n, uint32_t step, uint32_t nb = 1) {
    const float* d = ps.getData();
    for (uint32_t b = 0; b < nb; b++) {
        double m0 = 0, m1 = 0, m2 = 0;
        for (uint32_t x = 0; x < n; x++) for (uint32_t y = 0; y < n; y++) {
            double p = ps.p(y), v = d[(static_cast<size_t>(b) * n + x) * n + y];
            m0 += v; m1 += v * p; m2 += v * p * p;
        }
        std::cout << "vals " << hx(static_cast<float>(step)) << ' ' << hx(static_cast<float>(m0)) << ' '
                  << hx(static_cast<float>(m1)) << ' ' << hx(static_cast<float>(m2)) << '\n';
    }
}
static void run_fpiter(const Case& c) {
    uint32_t n = std::stoul(c.head[2]), dt = std::stoul(c.head[3]), fpt = std::stoul(c.head[4]);
    uint32_t steps = std::stoul(c.head[5]), every = std::stoul(c.head[6]);
    uint32_t nb = c.head.size() > 7 ? std::stoul(c.head[7]) : 1;   // one `vals` line per bunch at every printed step
    float e1 = c.extra[0];
    PhaseSpace::resetSize(n, nb);
    auto g1 = mkps(n, nb, c.data.data(), c.extra[1], c.extra[2], c.extra[3], c.extra[4]);
    auto g2 = mkps(n, nb, nullptr, c.extra[1], c.extra[2], c.extra[3], c.extra[4]);
    FokkerPlanckMap A(g1, g2, n, n, static_cast<FokkerPlanckMap::FPType>(fpt), FokkerPlanckMap::FPTracking::none, e1,
                      static_cast<FokkerPlanckMap::DerivationType>(dt), nullptr);
    FokkerPlanckMap B(g2, g1, n, n, static_cast<FokkerPlanckMap::FPType>(fpt), FokkerPlanckMap::FPTracking::none, e1,
                      static_cast<FokkerPlanckMap::DerivationType>(dt), nullptr);
    std::cout << "case " << c.id << '\n';
    fp_moments(*g1, n, 0, nb);
    for (uint32_t k = 1; k <= steps; k++) {
        if (k % 2 == 1) A.apply(); else B.apply();
        if (k % every == 0 || k == steps) fp_moments((k % 2 == 1) ? *g2 : *g1, n, k, nb);
    }
    print_data("out", ((steps % 2 == 1) ? g2 : g1)->getData(), static_cast<size_t>(nb) * n * n);
}

// dynrf <id> <n> <it> <nb> <lin|sin> <steps> ; extra = qmin qmax pmin pmax qscale pscale angle f_RF revpart V_RF V0
//   phasespread amplspread modampl modtimeincr ; data ; ops = a (apply) f (flush getPastModulation) s (static reference apply)
static void run_dynrf(const Case& c) {
    uint32_t n = std::stoul(c.head[2]), it = std::stoul(c.head[3]), nb = std::stoul(c.head[4]);
    bool lin = c.head[5] == "lin";
    uint32_t steps = std::stoul(c.head[6]);
    const auto& e = c.extra;
    PhaseSpace::resetSize(n, nb);
    auto in = mkps(n, nb, c.data.data(), e[0], e[1], e[2], e[3], e[4], e[5]);
    auto out = mkps(n, nb, nullptr, e[0], e[1], e[2], e[3], e[4], e[5]);
    auto out2 = mkps(n, nb, nullptr, e[0], e[1], e[2], e[3], e[4], e[5]);
    auto itp = static_cast<SourceMap::InterpolationType>(it);
    std::unique_ptr<ProbeDyn> d;
    std::unique_ptr<ProbeRF> st;
    if (lin) {
        d.reset(new ProbeDyn(in, out, n, n, e[6], static_cast<double>(e[8]), static_cast<double>(e[7]), e[11], e[12], e[13],
                             static_cast<double>(e[14]), steps, itp, false, nullptr));
        st.reset(new ProbeRF(in, out2, e[6], e[7], itp, false, nullptr));
    } else {
        d.reset(new ProbeDyn(in, out, n, n, static_cast<double>(e[8]), static_cast<double>(e[9]), static_cast<double>(e[7]),
                             static_cast<double>(e[10]), e[11], e[12], e[13], static_cast<double>(e[14]), steps, itp, false, nullptr));
        st.reset(new ProbeRF(in, out2, e[8], e[9], e[7], e[10], itp, false, nullptr));
    }
    std::cout << "case " << c.id << '\n';
    float modtimedelta = static_cast<float>(6.283185307179586476925286766559 * static_cast<double>(e[14]));
    std::cout << "aux " << hx(std::tan(d->angle())) << ' ' << hx(d->bl2phase()) << ' ' << hx(d->syncphase()) << ' ' << hx(modtimedelta) << '\n';
    std::cout << "aux2";
    for (uint32_t i = 0; i < steps; i++) std::cout << ' ' << hx(std::sin(modtimedelta * (i)));
    std::cout << '\n';
    std::cout << "ints " << d->lastbunch() << '\n';
    std::vector<std::array<meshaxis_t, 2>> all;
    uint32_t applied = 0;
    for (const auto& op : c.words) {
        if (op == "a") {
            if (applied >= steps) { std::cout << "error queue-exhausted\n"; break; }
            d->apply(); applied++;
            std::cout << "ops a\n";
            print_data("off", d->offsets().data(), n);
            print_data("out", out->getData(), static_cast<size_t>(n) * n * nb);
            if (!c.parts.empty()) {
                // tracked particles, moved as main() does it: applyToAll right after apply (every step from the same start)
                std::vector<PhaseSpace::Position> tp;
                for (auto p : c.parts) tp.push_back({p.first, p.second});
                d->applyToAll(tp);
                std::cout << "parts";
                for (auto& p : tp) std::cout << ' ' << hx(p.x) << ' ' << hx(p.y);
                std::cout << '\n';
            }
        } else if (op.size() > 1 && op[0] == 'A') {
            // A<k>: k applications without printing (long histories of the modulation queue)
            uint32_t kk = std::stoul(op.substr(1));
            for (uint32_t q = 0; q < kk && applied < steps; q++) { d->apply(); applied++; }
            std::cout << "ops " << op << '\n';
        } else if (op == "s") {
            st->apply();
            std::cout << "ops s\n";
            print_data("off", st->offsets().data(), n);
            print_data("out", out2->getData(), static_cast<size_t>(n) * n * nb);
        } else if (op == "f") {
            auto past = d->getPastModulation();
            std::cout << "ops f\n" << "vals";
            for (auto& p : past) { std::cout << ' ' << hx(p[0]) << ' ' << hx(p[1]); all.push_back(p); }
            std::cout << '\n';
        }
    }
    auto past = d->getPastModulation();
    std::cout << "ops f\n" << "vals";
    for (auto& p : past) { std::cout << ' ' << hx(p[0]) << ' ' << hx(p[1]); all.push_back(p); }
    std::cout << '\n';
    // all entries in order of use, for the model (not compared)
    std::cout << "aux3";
    for (auto& p : all) std::cout << ' ' << hx(p[0]) << ' ' << hx(p[1]);
    std::cout << '\n';
}

// fptrack <id> <n> <dt> <fptrack> <npart> <steps> <every> ; extra = e1 qmin qmax pmin pmax ystart(cells) ; data (1 bunch)
// iterates FokkerPlanckMap::applyTo on an ensemble; prints mean/std of y (cells) and the range seen
static void run_fptrack(const Case& c) {
    uint32_t n = std::stoul(c.head[2]), dt = std::stoul(c.head[3]), fptr = std::stoul(c.head[4]);
    uint32_t np = std::stoul(c.head[5]), steps = std::stoul(c.head[6]), every = std::stoul(c.head[7]);
    float e1 = c.extra[0];
    PhaseSpace::resetSize(n, 1);
    auto g1 = mkps(n, 1, c.data.data(), c.extra[1], c.extra[2], c.extra[3], c.extra[4]);
    auto g2 = mkps(n, 1, nullptr, c.extra[1], c.extra[2], c.extra[3], c.extra[4]);
    // optional 9th token: the Fokker-Planck variant of the MAP (0 none, 1 damping only, 2 diffusion only, 3 full = default)
    const auto fptype = static_cast<FokkerPlanckMap::FPType>(c.head.size() > 8 ? std::stoul(c.head[8]) : 3);
    FokkerPlanckMap fp(g1, g2, n, n, fptype, static_cast<FokkerPlanckMap::FPTracking>(fptr), e1,
                       static_cast<FokkerPlanckMap::DerivationType>(dt), nullptr);
    std::vector<PhaseSpace::Position> parts(np);
    for (uint32_t i = 0; i < np; i++) { parts[i].x = 1.0f + static_cast<float>(i % (n - 2)); parts[i].y = c.extra[5]; }
    double ymin = 1e30, ymax = -1e30; uint64_t nonfinite = 0;
    std::cout << "case " << c.id << '\n';
    std::cout << "vals " << hx(g1->getAxis(1)->zerobin()) << ' ' << hx(g1->getDelta(1)) << '\n';
    for (uint32_t k = 1; k <= steps; k++) {
        fp.applyToAll(parts);
        double m = 0, v = 0;
        for (auto& p : parts) { if (!std::isfinite(p.y)) nonfinite++; ymin = std::min<double>(ymin, p.y); ymax = std::max<double>(ymax, p.y); m += p.y; }
        m /= np;
        for (auto& p : parts) v += (p.y - m) * (p.y - m);
        v /= np;
        if (k % every == 0 || k == steps)
            std::cout << "vals " << hx(static_cast<float>(k)) << ' ' << hx(static_cast<float>(m)) << ' ' << hx(static_cast<float>(std::sqrt(v))) << '\n';
    }
    std::cout << "vals " << hx(static_cast<float>(ymin)) << ' ' << hx(static_cast<float>(ymax)) << ' ' << hx(static_cast<float>(nonfinite)) << '\n';
}

// rot <id> <n> <it> <nb> <K> <every> <lin|sin> ; extra = qmin qmax pmin pmax qscale pscale angle f_RF slip1 slip2 E0
//   [revpart V_RF V0] ; data ; iterates RF kick (g1->g2) and drift (g2->g1), prints the centroid of bunch 0
static void centroid_line(const PhaseSpace& ps, uint32_t n, uint32_t k, uint32_t nb = 1) {
    // one line per bunch
    const float* d0 = ps.getData();
    for (uint32_t b = 0; b < nb; b++) {
        double m0 = 0, mq = 0, mp = 0;
        const float* d = d0 + static_cast<size_t>(b) * n * n;
        for (uint32_t x = 0; x < n; x++) for (uint32_t y = 0; y < n; y++) {
            double v = d[x * n + y]; m0 += v; mq += v * ps.q(x); mp += v * ps.p(y);
        }
        std::cout << "vals " << hx(static_cast<float>(k)) << ' ' << hx(static_cast<float>(mq / m0)) << ' '
                  << hx(static_cast<float>(mp / m0)) << ' ' << hx(static_cast<float>(m0)) << '\n';
    }
}
static void run_rot(const Case& c) {
    uint32_t n = std::stoul(c.head[2]), it = std::stoul(c.head[3]), nb = std::stoul(c.head[4]);
    uint32_t K = std::stoul(c.head[5]), every = std::stoul(c.head[6]);
    bool lin = c.head[7] == "lin";
    const auto& e = c.extra;
    PhaseSpace::resetSize(n, nb);
    auto g1 = mkps(n, nb, c.data.data(), e[0], e[1], e[2], e[3], e[4], e[5]);
    auto g2 = mkps(n, nb, nullptr, e[0], e[1], e[2], e[3], e[4], e[5]);
    auto itp = static_cast<SourceMap::InterpolationType>(it);
    std::unique_ptr<ProbeRF> rf;
    if (lin) rf.reset(new ProbeRF(g1, g2, e[6], e[7], itp, false, nullptr));
    else rf.reset(new ProbeRF(g1, g2, e[11], e[12], e[7], e[13], itp, false, nullptr));
    std::vector<meshaxis_t> slip{e[6], e[8], e[9]};
    ProbeDrift dm(g2, g1, slip, e[10], itp, false, nullptr);
    std::cout << "case " << c.id << '\n';
    std::cout << "aux " << hx(std::tan(rf->angle())) << ' ' << hx(rf->bl2phase()) << ' ' << hx(rf->syncphase()) << '\n';
    std::cout << "aux2";
    for (uint32_t x = 0; x < n; x++) {
        float arg = g1->getAxis(0)->at(x) * rf->bl2phase() + rf->syncphase();
        std::cout << ' ' << hx(arg) << ' ' << hx(std::sin(arg));
    }
    std::cout << '\n' << "aux3";
    for (uint32_t y = 0; y < n; y++) {
        float base = g2->getAxis(1)->at(y) * g2->getAxis(1)->scale("ElectronVolt") / e[10];
        std::cout << ' ' << hx(base);
        for (int i = 0; i < 3; i++) std::cout << ' ' << hx(std::pow(base, static_cast<meshaxis_t>(i)));
    }
    std::cout << '\n';
    print_data("off", rf->offsets().data(), n);
    print_data("off", dm.offsets().data(), n);
    centroid_line(*g1, n, 0, nb);
    for (uint32_t k = 1; k <= K; k++) {
        rf->apply();
        dm.apply();
        if (k % every == 0 || k == K) centroid_line(*g1, n, k, nb);
    }
    print_data("out", g1->getData(), static_cast<size_t>(n) * n * nb);
}

// imp <id> <model> <n> ; extra = model parameters (see below) ; prints the table and library values used
static void print_imp(const Impedance& z) {
    std::cout << "ints " << z.nFreqs() << ' ' << z.size() << '\n' << "vals";
    for (size_t i = 0; i < z.size(); i++) std::cout << ' ' << hx(z[i].real()) << ' ' << hx(z[i].imag());
    std::cout << '\n';
}
static void run_imp(const Case& c) {
    const std::string model = c.head[2];
    size_t n = std::stoul(c.head[3]);
    const auto& e = c.extra;
    std::cout << "case " << c.id << '\n';
    if (model == "const") { ConstImpedance z(n, e[0], impedance_t(e[1], e[2])); print_imp(z); }
    else if (model == "free") {
        float delta = e[1] / e[0] / (n - 1);       // f_max/f_rev/(n-1)
        std::cout << "aux";
        for (size_t i = 0; i <= n / 2; i++) std::cout << ' ' << hx(std::pow(i * delta, csrpower_t(1.0 / 3.0)));
        std::cout << '\n';
        FreeSpaceCSR z(n, e[0], e[1]); print_imp(z);
    } else if (model == "wall") {
        ResistiveWall z(n, e[0], e[1], e[2], e[3], e[4], e[5]); print_imp(z);
    } else if (model == "pp") {
        ParallelPlatesCSR z(n, e[0], e[1], e[2]); print_imp(z);
    } else if (model == "coll") {
        std::cout << "aux " << hx(static_cast<float>(Impedance::Z0 / 3.14159265358979323846 * std::log(static_cast<double>(e[1]) / static_cast<double>(e[2])))) << '\n';
        CollimatorImpedance z(n, e[0], e[1], e[2]); print_imp(z);
    } else if (model == "sum") {
        // imp <id> sum <n1> <n2> ; extra = fmax re1 im1 re2 im2 : tables of unequal length added (operator+=)
        size_t n2 = std::stoul(c.head[4]);
        ConstImpedance a(n, e[0], impedance_t(e[1], e[2]));
        ConstImpedance b(n2, e[0], impedance_t(e[3], e[4]));
        a += b;
        print_imp(a);
    } else if (model == "file") {
        // imp <id> file 0 ; extra = fmax ; ops = whitespace-separated tokens of the impedance file ("~" = line break)
        // scratch file next to the FFT wisdom (XDG_DATA_HOME is set to /verif/.cache/xdg by the check)
        const char* base = std::getenv("XDG_DATA_HOME");
        std::string tmpl = std::string(base ? base : "/tmp") + "/ivh_impXXXXXX";
        std::vector<char> namebuf(tmpl.begin(), tmpl.end()); namebuf.push_back('\0');
        char* name = namebuf.data();
        int fd = mkstemp(name);
        std::string txt;
        for (const auto& w : c.words) { if (w == "~") txt += "\n"; else { txt += w; txt += ' '; } }
        if (fd < 0 || write(fd, txt.data(), txt.size()) != static_cast<ssize_t>(txt.size())) { std::cout << "error tmpfile\n"; return; }
        close(fd);
        try {
            Impedance z(std::string(name), static_cast<double>(e[0]));
            print_imp(z);
        } catch (std::exception& ex) {
            std::cout << "txt exception\n";
        }
        unlink(name);
    } else if (model == "pow2") {
        // imp <id> pow2 0 ; ops = decimal arguments of upper_power_of_two
        std::cout << "ints";
        for (const auto& w : c.words) std::cout << ' ' << upper_power_of_two(std::stoull(w));
        std::cout << '\n';
    } else if (model == "factory") {
        // extra = fmax R_bend frev gap use_csr s xi coll_radius [rows of an impedance file, 0 = none]
        // (the file holds the rows "i  1+i/4  -i/2", exactly representable)
        std::string zfile;
        if (e.size() > 8 && e[8] > 0) {
            std::string dir = std::getenv("XDG_DATA_HOME") ? std::getenv("XDG_DATA_HOME") : "/tmp";
            zfile = dir + "/ivh_" + c.id + "_" + std::to_string(getpid()) + ".dat";
            std::ofstream f(zfile);
            for (size_t i = 0; i < static_cast<size_t>(e[8]); i++) f << i << ' ' << (1.0 + 0.25 * i) << ' ' << (-0.5 * i) << '\n';
        }
        std::stringstream sink; auto* old = std::cout.rdbuf(sink.rdbuf());
        auto z = makeImpedance(n, nullptr, e[0], e[1], e[2], e[3], e[4] != 0, e[5], e[6], e[7], zfile);
        std::cout.rdbuf(old);
        if (!zfile.empty()) unlink(zfile.c_str());
        if (z == nullptr) std::cout << "txt none\n"; else print_imp(*z);
    }
}

// h5read <id> <rank> <nrec> <nb> <n> <step(+ or -)> : writes $XDG_DATA_HOME/ivh_<id>.h5 with /PhaseSpace/data of the
// given rank (3: [nrec][n][n], 4: [nrec][nb][n][n], 2: [nrec][n], 5: [nrec][1][nb][n][n], 0: scalar) whose record r is
// filled with the value r+1, then calls the real HDF5File::readPhaseSpace(file, ..., step):
//   "txt refused" if it throws, else "ints <grid size> <record loaded>" and "vals <every distinct value of the data>"
#include <hdf5.h>
#include "IO/HDF5File.hpp"
static void run_h5read(const Case& c) {
    int rank = std::stoi(c.head[2]);
    hsize_t nrec = std::stoull(c.head[3]), nb = std::stoull(c.head[4]), n = std::stoull(c.head[5]);
    int64_t step = std::stoll(c.head[6]);
    std::string dir = std::getenv("XDG_DATA_HOME") ? std::getenv("XDG_DATA_HOME") : "/tmp";
    std::string fn = dir + "/ivh_" + c.id + "_" + std::to_string(getpid()) + ".h5";
    {
        hid_t f = H5Fcreate(fn.c_str(), H5F_ACC_TRUNC, H5P_DEFAULT, H5P_DEFAULT);
        hid_t g = H5Gcreate2(f, "/PhaseSpace", H5P_DEFAULT, H5P_DEFAULT, H5P_DEFAULT);
        hsize_t dims[5] = {nrec, n, n, n, n};
        if (rank == 4) { dims[1] = nb; }
        if (rank == 5) { dims[1] = 1; dims[2] = nb; }
        hid_t pl = H5Pcreate(H5P_DATASET_CREATE);
        hid_t sp;
        if (rank == 0) sp = H5Screate(H5S_SCALAR);
        else if (nrec == 0) {
            hsize_t maxd[5], chunk[5];
            for (int i = 0; i < rank; i++) { maxd[i] = dims[i]; chunk[i] = dims[i] ? dims[i] : 1; }
            maxd[0] = H5S_UNLIMITED; chunk[0] = 1;
            sp = H5Screate_simple(rank, dims, maxd);
            H5Pset_chunk(pl, rank, chunk);
        } else sp = H5Screate_simple(rank, dims, nullptr);
        hid_t ds = H5Dcreate2(f, "/PhaseSpace/data", H5T_IEEE_F32LE, sp, H5P_DEFAULT, pl, H5P_DEFAULT);
        size_t per = 1; for (int i = 1; i < rank; i++) per *= dims[i];
        size_t total = rank == 0 ? 1 : per * nrec;
        if (total > 0) {
            std::vector<float> v(total);
            for (size_t i = 0; i < total; i++) v[i] = static_cast<float>(i / per + 1);
            H5Dwrite(ds, H5T_NATIVE_FLOAT, H5S_ALL, H5S_ALL, H5P_DEFAULT, v.data());
        }
        H5Dclose(ds); H5Sclose(sp); H5Pclose(pl); H5Gclose(g); H5Fclose(f);
    }
    std::cout << "case " << c.id << '\n';
    PhaseSpace::resetSize();
    H5::Exception::dontPrint();
    try {
        auto ps = HDF5File::readPhaseSpace(fn, -6, 6, -6, 6, nullptr, 1.0, 1.0, 1e-3, 6.11e5, step);
        const float* d = ps->getData();
        float lo = d[0], hi = d[0];
        for (size_t i = 0; i < static_cast<size_t>(PhaseSpace::nxyb); i++) { lo = std::min(lo, d[i]); hi = std::max(hi, d[i]); }
        std::cout << "ints " << PhaseSpace::nx << ' ' << static_cast<long>(lo) - 1 << ' ' << static_cast<long>(hi) - 1 << '\n';
    } catch (...) {
        std::cout << "txt refused\n";
    }
    unlink(fn.c_str());
}

static bool dispatch_more(const Case& c) {
    if (c.kind == "imp") { run_imp(c); return true; }
    if (c.kind == "rot") { run_rot(c); return true; }
    if (c.kind == "fptrack") { run_fptrack(c); return true; }
    if (c.kind == "dynrf") { run_dynrf(c); return true; }
    if (c.kind == "fpiter") { run_fpiter(c); return true; }
    if (c.kind == "opts") { run_opts(c); return true; }
    if (c.kind == "ef") { run_ef(c); return true; }
    if (c.kind == "ps" || c.kind == "psg") { run_ps(c); return true; }
    if (c.kind == "h5read") { run_h5read(c); return true; }
    if (c.kind == "coeffsweep") { run_coeffsweep(c); return true; }
    if (c.kind == "rf") { run_rf(c); return true; }
    if (c.kind == "drift") { run_drift(c); return true; }
    if (c.kind == "ident") { run_ident(c); return true; }
    if (c.kind == "fp") { run_fp(c); return true; }
    return false;
}
