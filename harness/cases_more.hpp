// further case kinds of the correspondence harness (included by ivharness.cpp)

// fp <id> <n> <nb> <dt> <fptype> <fptrack> ; extra = e1 qmin qmax pmin pmax ; data
static void run_fp(const Case& c) {
    uint32_t n = std::stoul(c.head[2]), nb = std::stoul(c.head[3]);
    uint32_t dt = std::stoul(c.head[4]), fpt = std::stoul(c.head[5]), fptr = std::stoul(c.head[6]);
    float e1 = c.extra[0];
    PhaseSpace::resetSize(n, nb);
    auto in = mkps(n, nb, c.data.data(), c.extra[1], c.extra[2], c.extra[3], c.extra[4]);
    auto out = mkps(n, nb, nullptr, c.extra[1], c.extra[2], c.extra[3], c.extra[4]);
    ProbeFP fp(in, out, n, n, static_cast<FokkerPlanckMap::FPType>(fpt),
               static_cast<FokkerPlanckMap::FPTracking>(fptr), e1,
               static_cast<FokkerPlanckMap::DerivationType>(dt), nullptr);
    std::cout << "case " << c.id << '\n';
    std::cout << "ruler " << hx(in->getDelta(1)) << ' ' << hx(in->getAxis(1)->zerobin());
    for (uint32_t j = 0; j < n; j++) std::cout << ' ' << hx(in->p(j));
    std::cout << '\n';
    print_table(fp.table(), n, fp.ip());
    fp.apply();
    print_data("out", out->getData(), static_cast<size_t>(n) * n * nb);
    if (!c.parts.empty()) {
        std::cout << "parts";
        for (auto p : c.parts) {
            PhaseSpace::Position pos{p.first, p.second};
            fp.applyTo(pos);
            std::cout << ' ' << hx(pos.x) << ' ' << hx(pos.y);
        }
        std::cout << '\n';
    }
}

static bool dispatch_more(const Case& c) {
    if (c.kind == "fp") { run_fp(c); return true; }
    return false;
}
