// Correspondence harness (DESIGN.md §4.2): calls the real Inovesa classes in-process on
// the cases of an op file and prints canonical observation lines.  Floats travel as
// 8-digit hex bit patterns.  Built by check/lib.py from /repo's working tree.
#include <algorithm>
#include <cmath>
#include <cstdint>
#include <cstring>
#include <fstream>
#include <iostream>
#include <memory>
#include <sstream>
#include <string>
#include <vector>
#include <unistd.h>
#include "HelperFunctions.hpp"

#include "defines.hpp"
#include "PS/PhaseSpace.hpp"
#include "PS/ElectricField.hpp"
#include "SM/KickMap.hpp"
#include "SM/RFKickMap.hpp"
#include "SM/DynamicRFKickMap.hpp"
#include "SM/DriftMap.hpp"
#include "SM/FokkerPlanckMap.hpp"
#include "SM/Identity.hpp"
#include "SM/RotationMap.hpp"
#include "SM/WakePotentialMap.hpp"
#include "Z/Impedance.hpp"
#include "Z/ConstImpedance.hpp"
#include "Z/ImpedanceFactory.hpp"
#include "Z/FreeSpaceCSR.hpp"
#include "Z/ParallelPlatesCSR.hpp"
#include "Z/ResistiveWall.hpp"
#include "Z/CollimatorImpedance.hpp"
#include "IO/ProgramOptions.hpp"

using namespace vfps;

static uint32_t f2u(float f) { uint32_t u; std::memcpy(&u, &f, 4); return u; }
static float u2f(uint32_t u) { float f; std::memcpy(&f, &u, 4); return f; }
static std::string hx(float f) { char b[16]; snprintf(b, sizeof b, "%08x", f2u(f)); return b; }
static float parsehx(const std::string& s) { return u2f(static_cast<uint32_t>(std::stoul(s, nullptr, 16))); }

static std::vector<std::string> toks(const std::string& line) {
    std::istringstream is(line); std::vector<std::string> v; std::string t;
    while (is >> t) v.push_back(t);
    return v;
}
static std::vector<float> floats(const std::vector<std::string>& t, size_t from) {
    std::vector<float> v; v.reserve(t.size() - from);
    for (size_t i = from; i < t.size(); i++) v.push_back(parsehx(t[i]));
    return v;
}

// ---------------------------------------------------------------- probes (no repo hooks needed)
struct ProbeKick : public KickMap {
    using KickMap::KickMap;
    const hi* table() const { return _hinfo; }
    size_t ip() const { return _ip; }
    size_t rows() const { return _offset.size(); }
    uint32_t lastbunch() const { return _lastbunch; }
    void setLastBunch(uint32_t l) { _lastbunch = l; }
    static void coeff(float* ic, float f, uint_fast8_t it) { calcCoefficiants(ic, f, it); }
};
struct ProbeRF : public RFKickMap {
    using RFKickMap::RFKickMap;
    const hi* table() const { return _hinfo; }
    size_t ip() const { return _ip; }
    size_t rows() const { return _offset.size(); }
    uint32_t lastbunch() const { return _lastbunch; }
    const std::vector<meshaxis_t>& offsets() const { return _offset; }
    float syncphase() const { return _syncphase; }
    float bl2phase() const { return _bl2phase; }
    float angle() const { return _angle; }
    void recalc(float phase, float ampl) { _calcKick(phase, ampl); }
};
struct ProbeDyn : public DynamicRFKickMap {
    using DynamicRFKickMap::DynamicRFKickMap;
    const hi* table() const { return _hinfo; }
    size_t ip() const { return _ip; }
    size_t rows() const { return _offset.size(); }
    uint32_t lastbunch() const { return _lastbunch; }
    const std::vector<meshaxis_t>& offsets() const { return _offset; }
    float syncphase() const { return _syncphase; }
    float bl2phase() const { return _bl2phase; }
    float angle() const { return _angle; }
};
struct ProbeDrift : public DriftMap {
    using DriftMap::DriftMap;
    const hi* table() const { return _hinfo; }
    size_t ip() const { return _ip; }
    size_t rows() const { return _offset.size(); }
    const std::vector<meshaxis_t>& offsets() const { return _offset; }
};
struct ProbeFP : public FokkerPlanckMap {
    using FokkerPlanckMap::FokkerPlanckMap;
    const hi* table() const { return _hinfo; }
    size_t ip() const { return _ip; }
};
struct ProbeRot : public RotationMap {
    using RotationMap::RotationMap;
    const hi* table() const { return _hinfo; }
    size_t ip() const { return _ip; }
};

static std::shared_ptr<PhaseSpace> mkps(uint32_t n, uint32_t nb, const float* data,
                                        float qmin = -6, float qmax = 6, float pmin = -6, float pmax = 6,
                                        double qscale = 1e-3, double pscale = 6.11e5) {
    std::vector<integral_t> filling(nb, 1.0f / nb);
    // exact normalisation for the constructor's check
    return std::make_shared<PhaseSpace>(qmin, qmax, qscale, pmin, pmax, pscale, nullptr, 1.0, 1.0,
                                        filling, 1, data);
}

template <class H> static void print_table(const H* t, size_t rows, size_t ip) {
    std::cout << "tab";
    for (size_t i = 0; i < rows * ip; i++) std::cout << ' ' << t[i].index << ' ' << hx(t[i].weight);
    std::cout << '\n';
}
static void print_data(const char* tag, const float* d, size_t n) {
    std::cout << tag;
    for (size_t i = 0; i < n; i++) std::cout << ' ' << hx(d[i]);
    std::cout << '\n';
}

struct Case {
    std::string kind, id;
    std::vector<std::string> head;
    std::vector<float> off, off0, data, extra;
    std::vector<std::pair<float, float>> parts;
    std::vector<std::string> words;
    std::vector<std::string> argv, cfg;
};

// kick <id> <x|y> <n> <it> <nb> <lastbunch|-1>
static void run_kick(const Case& c) {
    const std::string axis = c.head[2];
    uint32_t n = std::stoul(c.head[3]), it = std::stoul(c.head[4]), nb = std::stoul(c.head[5]);
    long lb = std::stol(c.head[6]);
    PhaseSpace::resetSize(n, nb);
    auto in = mkps(n, nb, c.data.data());
    auto out = mkps(n, nb, nullptr);
    // optional 8th token: the interpolation-clamp switch (ignored by the CPU path of the unchanged code)
    const bool clamp = c.head.size() > 7 && c.head[7] == "1";
    ProbeKick km(in, out, static_cast<SourceMap::InterpolationType>(it), clamp,
                 axis == "x" ? KickMap::Axis::x : KickMap::Axis::y, nullptr);
    if (lb >= 0) km.setLastBunch(static_cast<uint32_t>(lb));
    if (!c.off0.empty()) {
        // a map with a past: an earlier displacement field was installed and applied before the one of this case
        std::vector<meshaxis_t> o0(c.off0);
        km.swapOffset(o0);
        km.apply();
    }
    std::vector<meshaxis_t> off(c.off);
    km.swapOffset(off);
    std::cout << "case " << c.id << '\n';
    print_table(km.table(), km.rows(), km.ip());
    km.apply();
    print_data("out", out->getData(), static_cast<size_t>(n) * n * nb);
    if (!c.parts.empty()) {
        std::cout << "parts";
        for (auto p : c.parts) {
            PhaseSpace::Position pos{p.first, p.second};
            km.applyTo(pos);
            std::cout << ' ' << hx(pos.x) << ' ' << hx(pos.y);
        }
        std::cout << '\n';
    }
}

// coeff <id> <it> : extra = list of f
static void run_coeff(const Case& c) {
    uint32_t it = std::stoul(c.head[2]);
    std::cout << "case " << c.id << '\n';
    std::cout << "coeff";
    for (float f : c.extra) {
        float ic[8] = {0, 0, 0, 0, 0, 0, 0, 0};
        ProbeKick::coeff(ic, f, static_cast<uint_fast8_t>(it));
        for (uint32_t k = 0; k < it; k++) std::cout << ' ' << hx(ic[k]);
    }
    std::cout << '\n';
}

#include "cases_more.hpp"

static void dispatch(const Case& c) {
    if (c.kind == "kick") run_kick(c);
    else if (c.kind == "coeff") run_coeff(c);
    else if (!dispatch_more(c)) { std::cout << "case " << c.id << "\nerror unknown-kind " << c.kind << '\n'; }
}

int main(int argc, char** argv) {
    if (argc < 2) { std::cerr << "usage: ivharness <opfile>\n"; return 2; }
    std::ifstream f(argv[1]);
    if (!f) { std::cerr << "cannot open " << argv[1] << "\n"; return 2; }
    std::string line;
    Case cur; bool open = false;
    while (std::getline(f, line)) {
        auto t = toks(line);
        if (t.empty() || t[0][0] == '#') continue;
        if (t[0] == "off") cur.off = floats(t, 1);
        else if (t[0] == "off0") cur.off0 = floats(t, 1);
        else if (t[0] == "data") cur.data = floats(t, 1);
        else if (t[0] == "extra") cur.extra = floats(t, 1);
        else if (t[0] == "parts") { auto v = floats(t, 1); for (size_t i = 0; i + 1 < v.size(); i += 2) cur.parts.push_back({v[i], v[i + 1]}); }
        else if (t[0] == "ops") cur.words.assign(t.begin() + 1, t.end());
        else if (t[0] == "argv") cur.argv.assign(t.begin() + 1, t.end());
        else if (t[0] == "cfg") cur.cfg.assign(t.begin() + 1, t.end());
        else if (t[0].rfind("aux", 0) == 0) { /* library values for the model only */ }
        else if (t[0] == "run") { if (open) { dispatch(cur); std::cout.flush(); } open = false; }
        else { cur = Case(); cur.kind = t[0]; cur.id = t.size() > 1 ? t[1] : "?"; cur.head = t; open = true; }
    }
    return 0;
}
