// Canonical dump of an HDF5 results file: every dataset (name, class, dims, values) and every
// attribute, floats as bit patterns.  There is no h5dump/h5py in the sandbox.
#include <hdf5.h>
#include <cstdint>
#include <cstdio>
#include <cstring>
#include <string>
#include <vector>

static void print_values(hid_t type, const std::vector<char>& buf, size_t count) {
    H5T_class_t cls = H5Tget_class(type);
    size_t sz = H5Tget_size(type);
    for (size_t i = 0; i < count; i++) {
        const char* p = buf.data() + i * sz;
        if (cls == H5T_FLOAT && sz == 4) { uint32_t u; std::memcpy(&u, p, 4); printf(" %08x", u); }
        else if (cls == H5T_FLOAT && sz == 8) { uint64_t u; std::memcpy(&u, p, 8); printf(" %016llx", (unsigned long long)u); }
        else if (cls == H5T_INTEGER && sz == 4) {
            if (H5Tget_sign(type) == H5T_SGN_NONE) { uint32_t u; std::memcpy(&u, p, 4); printf(" %u", u); }
            else { int32_t u; std::memcpy(&u, p, 4); printf(" %d", u); }
        }
        else if (cls == H5T_INTEGER && sz == 8) { int64_t u; std::memcpy(&u, p, 8); printf(" %lld", (long long)u); }
        else if (cls == H5T_INTEGER && sz == 1) { printf(" %d", (int)(unsigned char)*p); }
        else if (cls == H5T_STRING) { printf(" %c", (*p == ' ' || *p == '\n') ? '_' : *p); }
        else printf(" ?");
    }
}

static herr_t attr_cb(hid_t loc, const char* name, const H5A_info_t*, void* data) {
    const char* oname = static_cast<const char*>(data);
    hid_t a = H5Aopen(loc, name, H5P_DEFAULT);
    hid_t t = H5Aget_type(a);
    hid_t nt = H5Tget_native_type(t, H5T_DIR_ASCEND);
    hid_t sp = H5Aget_space(a);
    hssize_t npts = H5Sget_simple_extent_npoints(sp);
    size_t sz = H5Tget_size(nt);
    std::vector<char> buf(static_cast<size_t>(npts > 0 ? npts : 1) * sz);
    H5Aread(a, nt, buf.data());
    printf("attr %s@%s %d %zu :", oname, name, (int)H5Tget_class(nt), sz);
    print_values(nt, buf, static_cast<size_t>(npts));
    printf("\n");
    H5Sclose(sp); H5Tclose(nt); H5Tclose(t); H5Aclose(a);
    return 0;
}

static herr_t obj_cb(hid_t root, const char* name, const H5O_info_t* info, void*) {
    std::string full = std::string("/") + (std::strcmp(name, ".") == 0 ? "" : name);
    hid_t obj = H5Oopen(root, name, H5P_DEFAULT);
    if (info->type == H5O_TYPE_DATASET) {
        hid_t t = H5Dget_type(obj);
        hid_t nt = H5Tget_native_type(t, H5T_DIR_ASCEND);
        hid_t sp = H5Dget_space(obj);
        int rank = H5Sget_simple_extent_ndims(sp);
        std::vector<hsize_t> dims(rank > 0 ? rank : 1, 0);
        if (rank > 0) H5Sget_simple_extent_dims(sp, dims.data(), nullptr);
        hssize_t npts = H5Sget_simple_extent_npoints(sp);
        size_t sz = H5Tget_size(nt);
        printf("dset %s %d %zu dims", full.c_str(), (int)H5Tget_class(nt), sz);
        for (int i = 0; i < rank; i++) printf(" %llu", (unsigned long long)dims[i]);
        printf(" :");
        if (npts > 0) {
            std::vector<char> buf(static_cast<size_t>(npts) * sz);
            H5Dread(obj, nt, H5S_ALL, H5S_ALL, H5P_DEFAULT, buf.data());
            print_values(nt, buf, static_cast<size_t>(npts));
        }
        printf("\n");
        H5Sclose(sp); H5Tclose(nt); H5Tclose(t);
    } else if (info->type == H5O_TYPE_GROUP) {
        printf("group %s\n", full.c_str());
    }
    hsize_t idx = 0;
    H5Aiterate2(obj, H5_INDEX_NAME, H5_ITER_INC, &idx, attr_cb, const_cast<char*>(full.c_str()));
    H5Oclose(obj);
    return 0;
}

int main(int argc, char** argv) {
    if (argc < 2) { fprintf(stderr, "usage: h5dump <file>\n"); return 2; }
    H5Eset_auto2(H5E_DEFAULT, nullptr, nullptr);
    hid_t f = H5Fopen(argv[1], H5F_ACC_RDONLY, H5P_DEFAULT);
    if (f < 0) { printf("error cannot-open\n"); return 1; }
    H5Ovisit(f, H5_INDEX_NAME, H5_ITER_INC, obj_cb, nullptr);
    H5Fclose(f);
    return 0;
}
