-- This module serves as the root of the `InovesaModel` library.
-- Import modules here that should be built as part of the library.
import InovesaModel.Basic
