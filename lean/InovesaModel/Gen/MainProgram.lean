/- GENERATION FAILED (fail-closed): simulation loop `while (simulationstep<laststep && !Display::abort)` not found uniquely -/
#eval (translator_failed_for_fragment_MainProgram : Nat)
