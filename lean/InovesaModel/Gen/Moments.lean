/- GENERATION FAILED (fail-closed): operator call in average: ['_filling_set'] -/
#eval (translator_failed_for_fragment_Moments : Nat)
