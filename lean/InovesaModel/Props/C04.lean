/-
  C04 — without impedance every start relaxes to the unit-width natural Gaussian.
  Moment calculus of the generated Fokker–Planck stencil (energy direction) and the
  closed form / convergence of the second-moment recurrence it implies.
-/
import InovesaModel.Props.C01FP
import Mathlib.Algebra.Order.Field.Basic
import Mathlib.Analysis.SpecificLimits.Basic
namespace Inovesa.Props.C04
open Inovesa Inovesa.Gen Inovesa.Props.C01FP

section moments
variable {α : Type} [Field α] [CharZero α]

/-- energy coordinate of row j -/
def pOf (pmin delta : α) (j : Nat) : α := pmin + (j : α) * delta

/-- k-th energy moment of a line -/
def mom (n : Nat) (pmin delta : α) (k : Nat) (f : Nat → α) : α :=
  ((List.range n).map fun y => pOf pmin delta y ^ k * f y).sum

/-- 3-point stencil, column moments of an interior column `s` (2 ≤ s ≤ n−3), full
    Fokker–Planck term: `Σ_y p_y^k A[y][s]` for k = 0,1,2. -/
theorem fp3_full_col_moments (n jc : Nat) (ltyc : Nat → Bool) (hn' : n < 2 ^ 31)
    (e1 delta pmin : α) (hd : delta ≠ 0) (s : Nat) (hs : 2 ≤ s) (hs' : s + 3 ≤ n) :
    let A := fpRowAt 3 3 n jc ltyc e1 delta (pOf pmin delta)
    let ps := pOf pmin delta s
    colMoment n A (fun _ => 1) s = 1 ∧
    colMoment n A (fun y => pOf pmin delta y) s = (1 - e1) * ps ∧
    colMoment n A (fun y => pOf pmin delta y ^ 2) s
      = (1 - 2 * e1) * ps ^ 2 + e1 * (2 - delta ^ 2) := by
  obtain ⟨t, rfl⟩ : ∃ t, s = t + 2 := ⟨s - 2, by omega⟩
  intro A ps
  refine ⟨?_, ?_, ?_⟩ <;>
    refine (colMoment3 3 n jc ltyc (by simp) hn' e1 delta _ _ t (by omega)).trans ?_ <;>
    simp [w3, pOf, ps] <;> field_simp <;> ring

/-- damping only -/
theorem fp3_damping_col_moments (n jc : Nat) (ltyc : Nat → Bool) (hn' : n < 2 ^ 31)
    (e1 delta pmin : α) (hd : delta ≠ 0) (s : Nat) (hs : 2 ≤ s) (hs' : s + 3 ≤ n) :
    let A := fpRowAt 3 1 n jc ltyc e1 delta (pOf pmin delta)
    let ps := pOf pmin delta s
    colMoment n A (fun _ => 1) s = 1 ∧
    colMoment n A (fun y => pOf pmin delta y) s = (1 - e1) * ps ∧
    colMoment n A (fun y => pOf pmin delta y ^ 2) s
      = (1 - 2 * e1) * ps ^ 2 - e1 * delta ^ 2 := by
  obtain ⟨t, rfl⟩ : ∃ t, s = t + 2 := ⟨s - 2, by omega⟩
  intro A ps
  refine ⟨?_, ?_, ?_⟩ <;>
    refine (colMoment3 1 n jc ltyc (by simp) hn' e1 delta _ _ t (by omega)).trans ?_ <;>
    simp [w3, pOf, ps] <;> field_simp <;> ring

/-- diffusion only -/
theorem fp3_diffusion_col_moments (n jc : Nat) (ltyc : Nat → Bool) (hn' : n < 2 ^ 31)
    (e1 delta pmin : α) (hd : delta ≠ 0) (s : Nat) (hs : 2 ≤ s) (hs' : s + 3 ≤ n) :
    let A := fpRowAt 3 2 n jc ltyc e1 delta (pOf pmin delta)
    let ps := pOf pmin delta s
    colMoment n A (fun _ => 1) s = 1 ∧
    colMoment n A (fun y => pOf pmin delta y) s = ps ∧
    colMoment n A (fun y => pOf pmin delta y ^ 2) s = ps ^ 2 + 2 * e1 := by
  obtain ⟨t, rfl⟩ : ∃ t, s = t + 2 := ⟨s - 2, by omega⟩
  intro A ps
  refine ⟨?_, ?_, ?_⟩ <;>
    refine (colMoment3 2 n jc ltyc (by simp) hn' e1 delta _ _ t (by omega)).trans ?_ <;>
    simp [w3, pOf, ps] <;> field_simp <;> ring

/-- neither: the map is the identity on interior columns -/
theorem fp3_none_col_moments (n jc : Nat) (ltyc : Nat → Bool) (hn' : n < 2 ^ 31)
    (e1 delta pmin : α) (hd : delta ≠ 0) (s : Nat) (hs : 2 ≤ s) (hs' : s + 3 ≤ n)
    (g : Nat → α) :
    colMoment n (fpRowAt 3 0 n jc ltyc e1 delta (pOf pmin delta)) g s = g s := by
  obtain ⟨t, rfl⟩ : ∃ t, s = t + 2 := ⟨s - 2, by omega⟩
  refine (colMoment3 0 n jc ltyc (by simp) hn' e1 delta _ _ t (by omega)).trans ?_
  simp [w3]

/-- 4-point stencil, full term, columns away from the switch row and the border:
    same zeroth and first moments, second moment without the `δ²` discretisation term. -/
theorem fp4_full_col_moments (n jc : Nat) (ltyc : Nat → Bool) (hn' : n < 2 ^ 31)
    (hsplit : ∀ j, j < jc → ltyc j = true)
    (e1 delta pmin : α) (hd : delta ≠ 0) (s : Nat)
    (hs : (3 ≤ s ∧ s + 2 < jc ∧ s + 5 ≤ n) ∨ (jc + 2 ≤ s ∧ 4 ≤ s ∧ s + 4 ≤ n)) :
    let A := fpRowAt 4 3 n jc ltyc e1 delta (pOf pmin delta)
    let ps := pOf pmin delta s
    colMoment n A (fun _ => 1) s = 1 ∧
    colMoment n A (fun y => pOf pmin delta y) s = (1 - e1) * ps ∧
    colMoment n A (fun y => pOf pmin delta y ^ 2) s = (1 - 2 * e1) * ps ^ 2 + 2 * e1 := by
  intro A ps
  rcases hs with ⟨h1, h2, h3⟩ | ⟨h1, h2, h3⟩
  · obtain ⟨t, rfl⟩ : ∃ t, s = t + 3 := ⟨s - 3, by omega⟩
    refine ⟨?_, ?_, ?_⟩ <;>
      refine (colMoment4_lo 3 n jc ltyc (by simp) hn' hsplit e1 delta _ _ t (by omega)
        (by omega)).trans ?_ <;>
      simp [w4lo, pOf, ps] <;> field_simp <;> ring
  · obtain ⟨t, rfl⟩ : ∃ t, s = t + 4 := ⟨s - 4, by omega⟩
    refine ⟨?_, ?_, ?_⟩ <;>
      refine (colMoment4_hi 3 n jc ltyc (by simp) hn' hsplit e1 delta _ _ t (by omega)
        (by omega)).trans ?_ <;>
      simp [w4hi, pOf, ps] <;> field_simp <;> ring

/-- One Fokker–Planck step (3-point, full) on a line supported on 2 ≤ s ≤ n−3 maps the
    energy moments by  m0' = m0,  m1' = (1−e1)·m1,  m2' = (1−2e1)·m2 + e1(2−δ²)·m0. -/
theorem fp3_full_moment_step (n jc : Nat) (ltyc : Nat → Bool) (hn : 3 ≤ n) (hn' : n < 2 ^ 31)
    (e1 delta pmin : α) (hd : delta ≠ 0) (rd : Nat → α)
    (hsupp : ∀ s, s < n → rd s ≠ 0 → 2 ≤ s ∧ s + 3 ≤ n) :
    let out : Nat → α := fun y => fpCell (fpRowAt 3 3 n jc ltyc e1 delta (pOf pmin delta) y) rd
    mom n pmin delta 0 out = mom n pmin delta 0 rd ∧
    mom n pmin delta 1 out = (1 - e1) * mom n pmin delta 1 rd ∧
    mom n pmin delta 2 out
      = (1 - 2 * e1) * mom n pmin delta 2 rd + e1 * (2 - delta ^ 2) * mom n pmin delta 0 rd := by
  intro out
  have hidx := fun y hy => fp3_indices_in_range 3 n jc ltyc hn hn' e1 delta (pOf pmin delta) y hy
  have hcm := fun s (hs : s < n) (h0 : rd s ≠ 0) =>
    fp3_full_col_moments n jc ltyc hn' e1 delta pmin hd s (hsupp s hs h0).1 (hsupp s hs h0).2
  refine ⟨?_, ?_, ?_⟩
  · refine (moment_step n _ rd (fun y => pOf pmin delta y ^ 0) (fun s => pOf pmin delta s ^ 0)
      hidx ?_).trans ?_
    · intro s hs h0
      simp only [pow_zero]
      exact (hcm s hs h0).1
    · simp only [mom, mul_comm]
  · refine (moment_step n _ rd (fun y => pOf pmin delta y ^ 1)
      (fun s => (1 - e1) * pOf pmin delta s ^ 1) hidx ?_).trans ?_
    · intro s hs h0
      simp only [pow_one]
      exact (hcm s hs h0).2.1
    · simp only [mom]
      rw [list_range_sum, list_range_sum, Finset.mul_sum]
      exact Finset.sum_congr rfl fun s _ => by ring
  · refine (moment_step n _ rd (fun y => pOf pmin delta y ^ 2)
      (fun s => (1 - 2 * e1) * pOf pmin delta s ^ 2 + e1 * (2 - delta ^ 2)) hidx ?_).trans ?_
    · intro s hs h0
      exact (hcm s hs h0).2.2
    · simp only [mom]
      rw [list_range_sum, list_range_sum, list_range_sum, Finset.mul_sum, Finset.mul_sum,
        ← Finset.sum_add_distrib]
      exact Finset.sum_congr rfl fun s _ => by ring

/-- The same step for arbitrary data, with the boundary leakage as an explicit remainder:
    the defect of each moment recurrence is carried by the four outermost columns only. -/
theorem fp3_full_moment_step_remainder (n jc : Nat) (ltyc : Nat → Bool) (hn : 4 ≤ n) (hn' : n < 2 ^ 31)
    (e1 delta pmin : α) (hd : delta ≠ 0) (rd : Nat → α) :
    let A := fpRowAt 3 3 n jc ltyc e1 delta (pOf pmin delta)
    let out : Nat → α := fun y => fpCell (A y) rd
    let B : List Nat := [0, 1, n - 2, n - 1]
    mom n pmin delta 2 out
      - ((1 - 2 * e1) * mom n pmin delta 2 rd + e1 * (2 - delta ^ 2) * mom n pmin delta 0 rd)
      = (B.map fun s => rd s *
          (colMoment n A (fun y => pOf pmin delta y ^ 2) s
            - ((1 - 2 * e1) * pOf pmin delta s ^ 2 + e1 * (2 - delta ^ 2)))).sum := by
  intro A out B
  have hidx := fun y hy =>
    fp3_indices_in_range 3 n jc ltyc (by omega) hn' e1 delta (pOf pmin delta) y hy
  have key := range_sum_eq_list n (fun s => rd s *
          (colMoment n A (fun y => pOf pmin delta y ^ 2) s
            - ((1 - 2 * e1) * pOf pmin delta s ^ 2 + e1 * (2 - delta ^ 2)))) B
    (by simp [B]; omega) (by simp [B]; omega) (by
      intro s hs hB
      simp only [B, List.mem_cons, List.not_mem_nil, or_false, not_or] at hB
      have := (fp3_full_col_moments n jc ltyc hn' e1 delta pmin hd s (by omega) (by omega)).2.2
      simp only [A]
      rw [this, sub_self, mul_zero])
  rw [← key]
  have tr := fp_transport n A rd (fun y => pOf pmin delta y ^ 2) hidx
  simp only [mom, out]
  rw [tr, list_range_sum, list_range_sum, list_range_sum, list_range_sum, Finset.mul_sum,
    Finset.mul_sum, ← Finset.sum_add_distrib, ← Finset.sum_sub_distrib]
  exact Finset.sum_congr rfl fun s _ => by ring

end moments

section recurrence
/-! The scalar recurrences the moment steps induce, iterated over any number of steps. -/
variable {α : Type} [Field α] [LinearOrder α] [IsStrictOrderedRing α]

/-- closed form of `x_{k+1} = (1−2e1)·x_k + c` (c = e1·(2−δ²)·m0): the distance to the
    fixed point `x* = c/(2e1)` shrinks by the factor `(1−2e1)` per step -/
theorem second_moment_closed_form (e1 c : α) (he : e1 ≠ 0) (x : Nat → α)
    (hrec : ∀ k, x (k + 1) = (1 - 2 * e1) * x k + c) (k : Nat) :
    x k - c / (2 * e1) = (1 - 2 * e1) ^ k * (x 0 - c / (2 * e1)) := by
  induction k with
  | zero => simp
  | succ k ih =>
    rw [pow_succ', mul_assoc, ← ih, hrec]
    field_simp
    ring

/-- fixed point of the full 3-point step for a normalised line (m0 = 1):
    `σ*² = 1 − δ²/2`, independent of the start -/
theorem fixed_point_value (e1 delta : α) (he : e1 ≠ 0) :
    e1 * (2 - delta ^ 2) * 1 / (2 * e1) = 1 - delta ^ 2 / 2 := by
  field_simp

/-- within the stable range `0 < e1 < 1/2` the distance to the fixed point decreases
    monotonically -/
theorem second_moment_monotone (e1 c : α) (he : 0 < e1) (he' : e1 < 1 / 2) (x : Nat → α)
    (hrec : ∀ k, x (k + 1) = (1 - 2 * e1) * x k + c) (k : Nat) :
    |x (k + 1) - c / (2 * e1)| ≤ |x k - c / (2 * e1)| := by
  rw [hrec, step_dist e1 c two_ne_zero he.ne', abs_mul]
  have h1 : 0 ≤ 1 - 2 * e1 := by linarith
  rw [abs_of_nonneg h1]
  have : 0 ≤ |x k - c / (2 * e1)| := abs_nonneg _
  nlinarith

/-- perturbed recurrence (boundary leakage `r k`, `|r k| ≤ ρ`): the iterate stays within
    `(1−2e1)^k·|x0 − x*| + ρ/(2e1)` of the fixed point -/
theorem second_moment_with_leakage (e1 c ρ : α) (he : 0 < e1) (he' : e1 < 1 / 2)
    (x r : Nat → α) (hr : ∀ k, |r k| ≤ ρ)
    (hrec : ∀ k, x (k + 1) = (1 - 2 * e1) * x k + c + r k) (k : Nat) :
    |x k - c / (2 * e1)| ≤ (1 - 2 * e1) ^ k * |x 0 - c / (2 * e1)| + ρ / (2 * e1) := by
  have hq : 0 ≤ 1 - 2 * e1 := by linarith
  have hρ : 0 ≤ ρ := le_trans (abs_nonneg _) (hr 0)
  induction k with
  | zero =>
    have : 0 ≤ ρ / (2 * e1) := by positivity
    simpa using this
  | succ k ih =>
    have e : x (k + 1) - c / (2 * e1) = (1 - 2 * e1) * (x k - c / (2 * e1)) + r k := by
      rw [hrec, ← step_dist e1 c two_ne_zero he.ne']; ring
    rw [e]
    calc |(1 - 2 * e1) * (x k - c / (2 * e1)) + r k|
        ≤ |(1 - 2 * e1) * (x k - c / (2 * e1))| + |r k| := abs_add_le _ _
      _ = (1 - 2 * e1) * |x k - c / (2 * e1)| + |r k| := by rw [abs_mul, abs_of_nonneg hq]
      _ ≤ (1 - 2 * e1) * ((1 - 2 * e1) ^ k * |x 0 - c / (2 * e1)| + ρ / (2 * e1)) + ρ := by
          have := mul_le_mul_of_nonneg_left ih hq
          linarith [hr k]
      _ = (1 - 2 * e1) ^ (k + 1) * |x 0 - c / (2 * e1)| + ρ / (2 * e1) := by
          field_simp
          ring

/-- damping only: the second moment shrinks monotonically towards `−δ²/2·m0 ≤ 0`, i.e. a
    positive second moment decreases strictly (x_{k+1} < x_k when x_k > 0, m0 ≥ 0) -/
theorem damping_only_shrinks (e1 delta m0 : α) (he : 0 < e1) (he' : e1 < 1 / 2) (hm : 0 ≤ m0)
    (x : Nat → α) (hrec : ∀ k, x (k + 1) = (1 - 2 * e1) * x k - e1 * delta ^ 2 * m0)
    (k : Nat) (hx : 0 < x k) : x (k + 1) < x k := by
  rw [hrec]
  have h1 : 0 ≤ e1 * delta ^ 2 * m0 := by positivity
  have h2 : 0 < e1 * x k := mul_pos he hx
  linarith

/-- diffusion only: the second moment grows monotonically (m0 > 0) -/
theorem diffusion_only_grows (e1 m0 : α) (he : 0 < e1) (hm : 0 < m0)
    (x : Nat → α) (hrec : ∀ k, x (k + 1) = x k + 2 * e1 * m0) (k : Nat) : x k < x (k + 1) := by
  rw [hrec]
  have : 0 < e1 * m0 := mul_pos he hm
  linarith

end recurrence

/-- convergence over the reals: for `0 < e1 < 1/2` the second moment converges to the fixed
    point from any start -/
theorem second_moment_converges (e1 c : ℝ) (he : 0 < e1) (he' : e1 < 1 / 2) (x : ℕ → ℝ)
    (hrec : ∀ k, x (k + 1) = (1 - 2 * e1) * x k + c) :
    Filter.Tendsto x Filter.atTop (nhds (c / (2 * e1))) := by
  have hx : x = fun k => (1 - 2 * e1) ^ k * (x 0 - c / (2 * e1)) + c / (2 * e1) := by
    funext k
    have := second_moment_closed_form e1 c he.ne' x hrec k
    linarith
  rw [hx]
  have h := (tendsto_pow_atTop_nhds_zero_of_lt_one (r := 1 - 2 * e1) (by linarith) (by linarith))
  have h2 := (h.mul_const (x 0 - c / (2 * e1))).add_const (c / (2 * e1))
  simpa using h2

/-- non-vacuity: the recurrence hypotheses are met by an explicit sequence -/
example : ∃ x : ℕ → ℚ, (∀ k, x (k + 1) = (1 - 2 * (1/10 : ℚ)) * x k + 1/5) ∧ x 0 = 4 := by
  refine ⟨fun k => Nat.rec 4 (fun _ v => (1 - 2 * (1/10 : ℚ)) * v + 1/5) k, fun k => rfl, rfl⟩

end Inovesa.Props.C04
