/-
  C01 — every transport step conserves the charge of a distribution inside the grid.
  Kick part (wake kick, RF kick, drift = `KickMap::apply` with different offset fields)
  and identity.  The Fokker–Planck part is in Props/C01FP.lean.
-/
import InovesaModel.Lemmas.Kick
import InovesaModel.Props.C02
namespace Inovesa.Props.C01
open Inovesa Inovesa.Gen Inovesa.Props.C02

variable {α : Type} [Field α] [CharZero α]

/-- Interior support of a line w.r.t. the stencil of table row `(jd, it)`: every non-zero
    source cell `s` has all its `it` destination cells `s − D − j + (it−1)/2` inside the
    grid (`D = jd − n/2`), and the row is not zeroed (`jd < n`). -/
def InteriorLine (n it jd : Nat) (rd : Nat → α) : Prop :=
  jd < n ∧ ∀ j : Nat, j < it → ∀ s : Nat, s < n → rd s ≠ 0 →
    (0 : Int) ≤ (s : Int) - (((jd : Int) - ((n / 2 : Nat) : Int)) + (j : Int) - (((it - 1) / 2 : Nat) : Int)) ∧
    (s : Int) - (((jd : Int) - ((n / 2 : Nat) : Int)) + (j : Int) - (((it - 1) / 2 : Nat) : Int)) < n

/-- FULL-STRENGTH statement (as the property reads): one line of a kick conserves its sum
    whenever the support stays inside the grid before and after the displacement.
    This is FALSE of the code (`kick_line_conserves_full_false`): `updateSM` drops every
    weight whose *table index* `jd + j − (it−1)/2` is not `< n`, so rows displaced by about
    half the grid (`jd < (it−1)/2` or `jd + (it−1) − (it−1)/2 ≥ n`) lose charge although nothing
    leaves the grid.  Recorded as known finding `kick-table-edge` (replayed on the
    implementation by the check).  Proved part: `kick_line_conserves_partial`. -/
def KickLineConservesFull : Prop :=
  ∀ (β : Type) [Field β] [CharZero β] (n it jd : Nat), ValidIt it → n < 2 ^ 31 →
    ∀ (xip : β) (rd : Nat → β),
    InteriorLine n it jd rd →
    (applyLine n (smRowOf n it jd xip) rd).sum = ((List.range n).map rd).sum

/-- One line of a kick conserves its sum, for every order, mesh size, integer part,
    fractional part and (signed) data with interior support — provided the stencil of the row
    lies in the table (`StencilIn`: the displacement is less than about half the grid). -/
theorem kick_line_conserves_partial (n it jd : Nat) (hit : ValidIt it) (hn : n < 2 ^ 31)
    (xip : α) (rd : Nat → α) (hint : InteriorLine n it jd rd) (hst : StencilIn n it jd) :
    (applyLine n (smRowOf n it jd xip) rd).sum = ((List.range n).map rd).sum :=
  kick_line_conserves' n it jd hit hn xip rd hint.1 hst hint.2

omit [CharZero α] in
/-- the hypotheses of `KickLineConservesFull` hold in the counterexample -/
theorem interior_counterexample :
    InteriorLine 4 2 3 (fun s => if s = 2 then (1 : α) else 0) := by
  refine ⟨by norm_num, ?_⟩
  intro j hj s hs hne
  have hs2 : s = 2 := by
    by_contra h
    exact hne (if_neg h)
  subst hs2
  omega

/-- witness: n = 4, linear interpolation, jd = 3, xip = 1/2, unit impulse at cell 2:
    the line ends with sum 1/2 -/
theorem kick_line_conserves_full_false : ¬ KickLineConservesFull := by
  intro H
  have h := H ℚ 4 2 3 (Or.inr (Or.inl rfl)) (by norm_num) (1 / 2)
    (fun s => if s = 2 then 1 else 0) interior_counterexample
  rw [edge_row_loses_charge] at h
  simp [List.range_succ] at h

/-- Whole train, y-direction kick (RF kick, wake kick): if every line of every bunch is
    interior for the row it is transported with (and the row's stencil lies in the table),
    the plain sum over all cells of all bunches is unchanged.  `rows r = (jd, xip)` is the
    split of `n/2 + offset[r]`. -/
theorem applyY_conserves_partial (n nb lb it : Nat) (hit : ValidIt it) (hn : n < 2 ^ 31)
    (rows : Nat → Nat × α) (data : Nat → α)
    (hint : ∀ b, b < nb → ∀ x, x < n →
      InteriorLine n it (rows (min b lb * n + x)).1 (fun s => data (b * n * n + x * n + s)))
    (hst : ∀ b, b < nb → ∀ x, x < n → StencilIn n it (rows (min b lb * n + x)).1) :
    (applyY n nb lb (fun r => smRowOf n it (rows r).1 (rows r).2) data).sum
      = ((List.range (nb * n * n)).map data).sum :=
  applyY_conserves' n nb lb it hit hn rows data
    (fun b hb x hx => ⟨(hint b hb x hx).1, hst b hb x hx, (hint b hb x hx).2⟩)

/-- Whole train, x-direction kick (drift), same hypotheses. -/
theorem applyX_conserves_partial (n nb it : Nat) (hit : ValidIt it) (hn : n < 2 ^ 31)
    (rows : Nat → Nat × α) (data : Nat → α)
    (hint : ∀ b, b < nb → ∀ y, y < n →
      InteriorLine n it (rows y).1 (fun s => data (b * n * n + s * n + y)))
    (hst : ∀ y, y < n → StencilIn n it (rows y).1) :
    (applyX n nb (fun r => smRowOf n it (rows r).1 (rows r).2) data).sum
      = ((List.range (nb * n * n)).map data).sum :=
  applyX_conserves' n nb it hit hn rows data
    (fun b hb y hy => ⟨(hint b hb y hy).1, hst y hy, (hint b hb y hy).2⟩)

/-- non-vacuity: an impulse in the middle of a 16-cell line is interior for a cubic
    stencil displaced by one cell -/
example : InteriorLine 16 4 9 (fun s => if s = 8 then (1 : ℚ) else 0) := by
  refine ⟨by norm_num, ?_⟩
  intro j hj s hs hne
  have hs8 : s = 8 := by
    by_contra h
    exact hne (if_neg h)
  subst hs8
  omega

/-- non-vacuity of the added hypothesis in the same case -/
example : StencilIn 16 4 9 := by unfold StencilIn; omega

end Inovesa.Props.C01
