/-
  Tie theorems for the impedance table builders (Gen/ImpTables.lean, regenerated from src/Z/FreeSpaceCSR.cpp and
  src/Z/ResistiveWall.cpp on every run): which samples are filled, which are zero, and with what.
-/
import InovesaModel.Model.Impedance
import InovesaModel.Gen.ImpTables
namespace Inovesa.Props.TieImpedance
open Inovesa

variable {α : Type} [Arith α]

/-- `FreeSpaceCSR`: samples `0 … n/2` are `Z0·pow(i·Δ, 1/3)` with the generated constant `Z0`, the rest is zero -/
theorem free_space_is_code (n : Nat) (pw : Nat → α) :
    freeSpaceCSR n pw
      = impTable n Gen.freeFirst (Gen.freeLast n)
          (fun i => ((Gen.freeZ0 (α := α)).1 * pw i, (Gen.freeZ0 (α := α)).2 * pw i)) := rfl

/-- `ResistiveWall`: samples `0 … n/2` are `r·(1, −1)·sqrt(i·Δ)`, the rest is zero -/
theorem resistive_wall_is_code (n : Nat) (r : α) (sq : Nat → α) :
    resistiveWall n r sq
      = impTable n Gen.wallFirst (Gen.wallLast n) (fun i => ((Gen.wallZ1 r).1 * sq i, (Gen.wallZ1 r).2 * sq i)) := rfl

/-- the two loops of each builder together produce exactly `n` samples: the zero loop starts right after the
    last filled sample and ends at `n` -/
theorem tables_complete_are_code (n : Nat) :
    Gen.freeZeroFirst n = Gen.freeLast n + 1 ∧ Gen.freeZeroBound n = n ∧
    Gen.wallZeroFirst n = Gen.wallLast n + 1 ∧ Gen.wallZeroBound n = n := ⟨rfl, rfl, rfl, rfl⟩

end Inovesa.Props.TieImpedance
