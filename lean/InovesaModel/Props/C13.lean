/-
  C13 — the configuration file saved next to the results reproduces the run.
  Model: `saveLines` (Model/Options.lean) with the GENERATED rules of `save(std::string)`
  (skip list, special cases, per-type branches, precision) and the generated option table.
  Values are tokens; that printing a number and reading it back is the identity
  (`std::setprecision(max_digits10)`, `boost::lexical_cast`) is a library fact, recorded by
  `save_full_precision` and tested on the implementation by the check's oracle.
-/
import InovesaModel.Lemmas.Opt
import InovesaModel.Props.C20
namespace Inovesa.Props.C13
open Inovesa Inovesa.Gen Inovesa.Props.C20

/-- the config-file lines `save` writes for a variables map -/
def savedLines (vm : VM) (fsZero : Bool) : List String :=
  ((saveLines optionDecls saveSkip saveSpecials saveTypes vm fsZero).filter
      (fun kv => !(saveCommentsConfig && kv.1 == "config"))).map (fun kv => kv.1 ++ "=" ++ kv.2)

/-! ### decidable facts about the generated `save` rules (each is falsified by one of the
    historic defects: inverted alpha0 test, missing vector branch, 6-digit precision,
    `run_anyway` in the skip list) -/

/-- only compatibility names (ignored options and legacy aliases) are skipped -/
theorem skip_only_compat :
    ∀ k ∈ saveSkip, ∃ o ∈ optionDecls, o.name = k ∧
      (o.group = "_compatopts_ignore" ∨ o.group = "_compatopts_alias") := by
  decide +kernel

/-- `alpha0` is replaced by 0 only when the synchrotron frequency is set (`f_s != 0`) -/
theorem alpha0_rule : saveSpecials = [("alpha0", "f_s!=0", "alpha0=0")] := by
  decide +kernel

/-- every value type of a config-file option bound to a variable has a branch in `save`,
    except the 8-bit OpenGL version (not observable in this build) -/
theorem saved_types_cover :
    ∀ o ∈ described optionDecls cfgGroups, o.var ≠ "" → o.ty ≠ .u8 → o.ty ∈ saveTypes := by
  decide +kernel

theorem save_full_precision : saveFullPrecision = true := by
  rfl

/-- every command-line option that carries a value can also be given in a config file under
    the same name, with the same type and variable (so that a saved value is accepted back);
    exceptions: `config` itself -/
theorem cli_options_have_cfg_twin :
    ∀ o ∈ described optionDecls cliGroups, o.ty ≠ .flag → o.name ≠ "config" →
      ∃ o' ∈ described optionDecls cfgGroups, o'.name = o.name ∧ o'.ty = o.ty ∧ o'.var = o.var := by
  decide +kernel

/-- what `save` writes for a scalar key: exactly its token in the variables map -/
theorem saved_scalar (vm : VM) (fsZero : Bool) (k : String) (o : OptSpec) (e : VMEntry)
    (hsorted : (vm.map (·.1)).Pairwise (· < ·))
    (ho : optionDecls.find? (·.name = k) = some o) (hty : o.ty ∈ saveTypes) (hflag : o.ty ≠ .flag)
    (hvec : o.ty ≠ .vecf32) (hskip : k ∉ saveSkip) (halpha : k ≠ "alpha0" ∨ fsZero = true)
    (he : vmFind vm k = some e) :
    (saveLines optionDecls saveSkip saveSpecials saveTypes vm fsZero).filter (·.1 = k)
      = [(k, stripKind (e.toks.headD ""))] := by
  rw [saveLines_filter_present _ _ _ _ _ k vm e hsorted he]
  exact saveEntry_scalar fsZero k o e ho hty hflag hvec hskip halpha

/-- … and for the vector key (`BunchCurrent`): one line per current, in order -/
theorem saved_vector (vm : VM) (fsZero : Bool) (k : String) (o : OptSpec) (e : VMEntry)
    (hsorted : (vm.map (·.1)).Pairwise (· < ·))
    (ho : optionDecls.find? (·.name = k) = some o) (hvec : o.ty = .vecf32) (hskip : k ∉ saveSkip)
    (he : vmFind vm k = some e) :
    (saveLines optionDecls saveSkip saveSpecials saveTypes vm fsZero).filter (·.1 = k)
      = e.toks.map (fun t => (k, stripKind t)) := by
  rw [saveLines_filter_present _ _ _ _ _ k vm e hsorted he]
  exact saveEntry_vector fsZero k o e ho hvec hskip

/-- keys absent from the variables map are not written -/
theorem saved_absent (vm : VM) (fsZero : Bool) (k : String) (he : vmFind vm k = none) :
    (saveLines optionDecls saveSkip saveSpecials saveTypes vm fsZero).filter (·.1 = k) = [] := by
  exact saveLines_filter_absent _ _ _ _ _ k vm he

/-- ROUND TRIP (scalar options).  If the original invocation ran with variables map `vm`, and
    re-parsing the saved file (as the only source) runs with `vm2`, then every scalar option
    `k` that `save` handles (not skipped, not `config`, and not `alpha0` while `f_s` overrides
    it) that had a value in `vm` has the same value token in `vm2`.
    (`hidem`: the token does not itself start with one of the model's literal-kind markers
    `f:`/`s:` after stripping — these markers only tag *default* tokens of the generated table; a
    user string such as `s:s:x` would be stripped twice by the model, see
    `cfg_roundtrip_needs_idem`.  This is an artefact of the model's token encoding, not of the C++.) -/
theorem cfg_roundtrip_scalar (vm vm2 : VM) (vars2 : Vars) (fsZero : Bool)
    (hsorted : (vm.map (·.1)).Pairwise (· < ·))
    (hre : parseOptions optionDecls cliGroups cfgGroups optionAliases ["--config", "@SAVED@"]
            (fun p => if p = "@SAVED@" then some (savedLines vm fsZero) else none) = .run vm2 vars2)
    (k : String) (o : OptSpec) (e : VMEntry)
    (ho : (described optionDecls cfgGroups).find? (·.name = k) = some o)
    (hty : o.ty ∈ saveTypes) (hflag : o.ty ≠ .flag) (hvec : o.ty ≠ .vecf32)
    (hskip : k ∉ saveSkip) (halias : ∀ ab ∈ optionAliases, ab.1 ≠ k ∧ ab.2 ≠ k)
    (halpha : k ≠ "alpha0" ∨ fsZero = true)
    (hnoeq : ∀ e', vmFind vm k = some e' → ¬ (stripKind (e'.toks.headD "")).contains '=')
    (he : vmFind vm k = some e)
    (hidem : stripKind (stripKind (e.toks.headD "")) = stripKind (e.toks.headD "")) :
    (vmFind vm2 k).map (fun e2 => e2.toks.map stripKind) = some [stripKind (e.toks.headD "")] := by
  rw [roundtrip' vm vm2 vars2 fsZero hsorted hre k o e ho hty hflag hvec hskip halias halpha
    (hnoeq e he) he]
  simp only [Option.map_some, List.map_cons, List.map_nil, hidem]

/-- `hidem` cannot be dropped: a `str` option whose token carries two kind prefixes (model artefact) -/
theorem cfg_roundtrip_needs_idem :
    ∃ (vm vm2 : VM) (vars2 : Vars) (fsZero : Bool) (k : String) (o : OptSpec) (e : VMEntry),
      (vm.map (·.1)).Pairwise (· < ·) ∧
      parseOptions optionDecls cliGroups cfgGroups optionAliases ["--config", "@SAVED@"]
        (fun p => if p = "@SAVED@" then some (savedLines vm fsZero) else none) = .run vm2 vars2 ∧
      (described optionDecls cfgGroups).find? (·.name = k) = some o ∧
      o.ty ∈ saveTypes ∧ o.ty ≠ .flag ∧ o.ty ≠ .vecf32 ∧ k ∉ saveSkip ∧
      (∀ ab ∈ optionAliases, ab.1 ≠ k ∧ ab.2 ≠ k) ∧ (k ≠ "alpha0" ∨ fsZero = true) ∧
      (∀ e', vmFind vm k = some e' → ¬ (stripKind (e'.toks.headD "")).contains '=') ∧
      vmFind vm k = some e ∧
      (vmFind vm2 k).map (fun e2 => e2.toks.map stripKind) ≠ some [stripKind (e.toks.headD "")] := by
  have h := exists_run_of_check (parseOptions optionDecls cliGroups cfgGroups optionAliases
      ["--config", "@SAVED@"]
      (fun p => if p = "@SAVED@" then some (savedLines [("output", ⟨["s:s:x"], false⟩)] true) else none))
    (fun vm2 => decide ((vmFind vm2 "output").map (fun e2 => e2.toks.map stripKind) = some ["x"])) (by
      rw [parseOptions_eq]
      simp only [parseRest, parseCLI, parseCLIAux_eqK, parseCfg_eqK, storeParsed, wellFormed_eqK]
      decide +kernel)
  obtain ⟨vm2, vars2, h1, h2⟩ := h
  have hs : stripKind "s:s:x" = "s:x" := by decide +kernel
  refine ⟨[("output", ⟨["s:s:x"], false⟩)], vm2, vars2, true, "output",
    { name := "output", short := "o", ty := .str, var := "_outfile", default := none,
      implicit := none, multitoken := false, group := "_programopts_file" }, ⟨["s:s:x"], false⟩,
    by simp, h1, by decide +kernel, by decide, by decide, by decide, by decide +kernel,
    by decide +kernel, .inr rfl, ?_, rfl, ?_⟩
  · intro e' he'
    have : e' = ⟨["s:s:x"], false⟩ := by
      simp only [vmFind, List.find?_cons, decide_true, Option.map_some, Option.some.injEq] at he'
      exact he'.symm
    subst this
    simp only [List.headD_cons, hs, String.contains_char_eq]
    decide +kernel
  · simp only [decide_eq_true_eq] at h2
    rw [h2]
    simp only [List.headD_cons, hs]
    decide +kernel

/-- non-vacuity: default invocation with two bunch currents; the saved file contains both -/
example : ∃ vm vars, parseOptions optionDecls cliGroups cfgGroups optionAliases
      ["-I", "0.001", "0.002", "--config", "/dev/null"] (fun _ => none) = .run vm vars ∧
    (savedLines vm true).filter (fun l => l.startsWith "BunchCurrent=")
      = ["BunchCurrent=0.001", "BunchCurrent=0.002"] ∧
    "alpha0=4e-3" ∈ savedLines vm true := by
  have h := exists_run_of_check (parseOptions optionDecls cliGroups cfgGroups optionAliases
      ["-I", "0.001", "0.002", "--config", "/dev/null"] (fun _ => none))
    (fun vm => decide ((savedLines vm true).filter (fun l => l.startsWith "BunchCurrent=")
      = ["BunchCurrent=0.001", "BunchCurrent=0.002"] ∧ "alpha0=4e-3" ∈ savedLines vm true)) (by
      rw [parseOptions_eq]
      simp only [parseRest, parseCLI, parseCLIAux_eqK, storeParsed, wellFormed_eqK]
      decide +kernel)
  obtain ⟨vm, vars, h1, h2⟩ := h
  exact ⟨vm, vars, h1, by simpa using h2⟩

end Inovesa.Props.C13
