/-
  C03, program level: what main() hands to the RF maps (generated from the clang AST of main.cpp,
  translator fragment G8).  The orbit theorems of Props/C03.lean are about a map with amplitude
  `V_RF` and energy loss `V0`; the small-amplitude tune is right only if main() passes exactly these.
-/
import InovesaModel.Gen.Ctors
namespace Inovesa.Props.C03Main
open Inovesa.Gen

/-- both sinusoidal RF maps (static and dynamic) receive `V_RF` as amplitude and `V0` as energy loss,
    the linear ones the per-step `angle` (historic defect K: `V_eff` was passed as amplitude, which
    lowers the small-amplitude tune by `√(1 − V0²/V_eff²)`) -/
theorem main_passes_rf_amplitude :
    (∀ c ∈ ctorCalls, c.site ∈ ["main.new.DynamicRFKickMap.sin", "main.new.RFKickMap.sin"] →
      ("V_RF", "V_RF") ∈ c.pairs ∧ ("V0", "V0") ∈ c.pairs ∧ ("revolutionpart", "revolutionpart") ∈ c.pairs) ∧
    (∀ c ∈ ctorCalls, c.site ∈ ["main.new.DynamicRFKickMap.lin", "main.new.RFKickMap.lin"] →
      ("angle", "angle") ∈ c.pairs) := by
  decide

/-- non-vacuity: the four constructions exist -/
example : (ctorCalls.filter fun c => c.site ∈ ["main.new.DynamicRFKickMap.sin", "main.new.RFKickMap.sin",
    "main.new.DynamicRFKickMap.lin", "main.new.RFKickMap.lin"]).length = 4 := by decide

end Inovesa.Props.C03Main
