/-
  Tie theorems for the impedance factory (Gen/Factory.lean, regenerated from src/Z/ImpedanceFactory.cpp on every
  run): the hand model `factoryContributions` (Model/Impedance.lean, used by the C16 theorems `factory_none_iff`,
  `factory_selection`) selects exactly the additions the code performs, for all 64 settings of the six switches,
  and every contribution is constructed from the arguments the model's builders and the correspondence cases assume.
-/
import InovesaModel.Model.Impedance
import InovesaModel.Gen.Factory
namespace Inovesa.Props.TieFactory
open Inovesa Inovesa.Gen

/-- truth value of a condition of makeImpedance (canonical text of the AST) under the switches of the model -/
def condVal (c : FactoryCfg) : String → Option Bool
  | "(gap != 0)" => some c.gapNonzero
  | "use_csr" => some c.useCSR
  | "(gap > 0)" => some c.gapPositive
  | "((s > 0) && (xi >= -1))" => some c.wall
  | "((0 < inner_coll_radius) && (inner_coll_radius < radius))" => some c.collimator
  | "(impedance_file != \"\")" => some c.file
  | _ => none

/-- model name of the contribution a class stands for -/
def clsName : String → String
  | "ParallelPlatesCSR" => "parallel-plates"
  | "FreeSpaceCSR" => "free-space"
  | "ResistiveWall" => "resistive-wall"
  | "CollimatorImpedance" => "collimator"
  | "Impedance" => "file"
  | s => s

/-- the additions of the GENERATED list whose path conditions all hold -/
def selected (c : FactoryCfg) : List String :=
  (factoryAdds.filter fun a => a.conds.all fun tb => condVal c tb.1 == some tb.2).map fun a => clsName a.cls

def bools : List Bool := [false, true]

def allCfgs : List FactoryCfg :=
  bools.flatMap fun a => bools.flatMap fun b => bools.flatMap fun c => bools.flatMap fun d =>
    bools.flatMap fun e => bools.map fun f =>
      { gapNonzero := a, gapPositive := b, useCSR := c, wall := d, collimator := e, file := f }

theorem allCfgs_complete (c : FactoryCfg) : c ∈ allCfgs := by
  rcases c with ⟨a, b, c, d, e, f⟩
  cases a <;> cases b <;> cases c <;> cases d <;> cases e <;> cases f <;> decide

/-- SELECTION: for every setting of the switches the model adds exactly what the code adds, in the same order,
    and returns nothing exactly when the code returns the null pointer -/
theorem factory_selection_is_code (c : FactoryCfg) :
    factoryContributions c = (if (selected c).isEmpty then none else some (selected c)) := by
  have h : ∀ c ∈ allCfgs, factoryContributions c = (if (selected c).isEmpty then none else some (selected c)) := by
    decide
  exact h c (allCfgs_complete c)

/-- every condition text of the generated list is one the model knows -/
theorem factory_conditions_known :
    ∀ a ∈ factoryAdds, ∀ tb ∈ a.conds, ∀ c ∈ allCfgs, (condVal c tb.1).isSome = true := by
  decide

/-- ARGUMENTS: how each contribution is constructed — in particular the resistive wall from the REVOLUTION
    frequency and the circumference `c/frev`, with the pipe radius `|gap/2|`; the CSR terms from
    `f0 = c/(2π R_bend)`; the table read from the file is ADDED to the zero table of `nfreqs` samples -/
theorem factory_arguments_are_code :
    factoryAdds.map (fun a => (a.cls, a.args)) =
      [("ParallelPlatesCSR", ["nfreqs", "f0", "fmax", "gap"]),
       ("FreeSpaceCSR", ["nfreqs", "f0", "fmax"]),
       ("ResistiveWall", ["nfreqs", "frev", "fmax", "(physcons::c / frev)", "s", "xi", "radius"]),
       ("CollimatorImpedance", ["nfreqs", "fmax", "radius", "inner_coll_radius"]),
       ("Impedance", ["impedance_file", "fmax"])] ∧
    factoryLocals = [("f0", "(physcons::c / (two_pi() * R_bend))"), ("rv", "Impedance(nfreqs, fmax, oclh)"),
                     ("radius", "abs((gap / 2))")] := by
  decide

/-- every addition marks the impedance as changed; only an unchanged one is replaced by the null pointer -/
theorem factory_null_is_code :
    factoryEveryAddMarked = true ∧ factoryNullGuard = [("!impedance_changed", true)] := by
  decide

/-- non-vacuity: the default configuration (gap 0.03, CSR on) selects parallel plates only -/
example : selected { gapNonzero := true, gapPositive := true, useCSR := true, wall := false, collimator := false,
                     file := false } = ["parallel-plates"] := by decide

end Inovesa.Props.TieFactory
