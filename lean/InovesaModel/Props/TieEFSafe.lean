/-
  The window of every bunch in the padded buffers, on the GENERATED pieces of both ends: the lengths main() computes
  (Gen/Sizes.lean) and the offsets `ElectricField` uses (Gen/EFIndex.lean).  `padBunchProfiles` copies `nx` cells to
  `bucket*spacing`, `wakePotential` reads `bucket*spacing + x`; both stay below the buffer length = number of
  impedance samples, for every filling pattern, spacing, padding and rounding option.
-/
import InovesaModel.Props.C17
import InovesaModel.Gen.EFIndex
namespace Inovesa.Props.TieEFSafe
open Inovesa Inovesa.Gen Inovesa.Props.C17

/-- multi-bucket runs: the copy window `[dest, dest + count)` ends inside the buffer, and every read-back index is
    inside it -/
theorem pad_and_read_in_buffer (i : SizeIn) (up2 : Nat → Nat) (hup : ∀ v, v ≤ up2 v)
    (hnb : 1 < i.nbuckets) (k x : Nat) (hk : k < i.nbuckets) (hx : x < i.psBins) :
    efPadDest (bucketNumber i k) (sizes i up2).wakeSpacing + efPadCount i.psBins ≤ (sizes i up2).wakeLength ∧
    efWakeRead (bucketNumber i k) (sizes i up2).wakeSpacing x < (sizes i up2).wakeLength := by
  have h := pad_fits_multi i up2 hup hnb k hk
  simp only [efPadDest, efPadCount, efWakeRead]
  omega

/-- single-bucket runs -/
theorem pad_and_read_in_buffer_single (i : SizeIn) (up2 : Nat → Nat) (hup : ∀ v, v ≤ up2 v)
    (hnb : i.nbuckets = 1) (k x : Nat) (hk : k < i.nbuckets) (hx : x < i.psBins) :
    efPadDest (bucketNumber i k) (sizes i up2).wakeSpacing + efPadCount i.psBins ≤ (sizes i up2).wakeLength ∧
    efWakeRead (bucketNumber i k) (sizes i up2).wakeSpacing x < (sizes i up2).wakeLength := by
  have h := pad_fits_single i up2 hup hnb k hk
  simp only [efPadDest, efPadCount, efWakeRead]
  omega

/-- the impedance is read below the loss-loop bound only, which is inside a table of `nmax` samples -/
theorem loss_loop_in_table (nmax k : Nat) (hk : k < efLossBound nmax) : k < nmax := by
  simp only [efLossBound] at hk
  omega

end Inovesa.Props.TieEFSafe
