/-
  C11 — continuing from a results file equals never having stopped (state-machine part:
  what the program state relevant to the future is, and that the last record of a first leg
  is that state).  Reading the record back bit-exactly is the HDF5 assumption of the trusted
  base, tested by the check's oracle.
-/
import InovesaModel.Lemmas.Main
import InovesaModel.Props.C14
import InovesaModel.Props.C12
namespace Inovesa.Props.C11
open Inovesa Inovesa.Gen Inovesa.Props.C14

variable {V : Type}

/-- the last phase-space record of a run is its final grid, labelled with the number of steps -/
theorem last_record_is_final_state (sem : Sem V) (c : MCfg) (hf : c.hasFile = true) (k : Nat)
    (s0 : MState V) :
    (runFor sem c k s0).file.ps.getLast? = some (k, (runFor sem c k s0).grid) := by
  exact runFor_last_ps sem c hf k s0

/-- SPLIT RUN (no renormalisation: `RenormalizeCharge < 0`; static RF): running `a` steps, storing
    the final grid, and running `b` more steps from a fresh program start on the stored grid ends
    in the same grid as running `a+b` steps in one go — whatever the output settings of the legs. -/
theorem split_run (sem : Sem V) (c c1 c2 : MCfg) (hr : c.renormalize < 0)
    (h1 : Inovesa.Props.C12.SamePhysics c c1) (h2 : Inovesa.Props.C12.SamePhysics c c2)
    (hd : c.hasDrfm = false) (a b : Nat) (s0 : MState V) (dflt tr : V) :
    (runFor sem c2 b (startState (runFor sem c1 a s0).grid dflt [] tr)).grid
      = (runFor sem c (a + b) s0).grid := by
  exact runFor_split sem c c1 c2 hr h1 h2 hd a b s0 dflt tr

/-- FULL-STRENGTH statement for every renormalisation setting.  FALSE of the code
    (`split_run_full_false`): with `RenormalizeCharge > 0` a leg boundary at a renormalisation step
    makes the second leg compute the first wake from the *renormalised* grid's projection, the
    uninterrupted run from the projection taken *before* `normalize()` -/
def SplitRunFull : Prop :=
  ∀ (W : Type) (sem : Sem W) (c : MCfg) (a b : Nat) (s0 : MState W) (dflt tr : W),
    c.hasDrfm = false →
    (runFor sem c b (startState (runFor sem c a s0).grid dflt [] tr)).grid
      = (runFor sem c (a + b) s0).grid

theorem split_run_full_false : ¬ SplitRunFull := by
  intro h
  have e := h Nat cexSem cexCfg 0 1 (startState 15 0 [] 0) 0 0 rfl
  rw [cex_split.1, cex_split.2] at e
  exact absurd e (by decide)

end Inovesa.Props.C11
