/-
  C05 — the stationary bunch satisfies the Haissinski equation with its own wake.   (PARTIAL)

  What is proved:
   A. on the GENERATED main loop (uninterpreted physics): one iteration transports the grid by
      wake kick, RF kick, drift, Fokker–Planck in this order, the wake kick uses the wake potential
      of the grid's CURRENT bunch profile, and the wake potential written with a record is the one
      applied in the step that follows the record;
   B. on the centroid/moment map of one step (exact, any field): at a stationary state the mean
      energy after the kicks vanishes and   tan θ · ⟨q⟩ = ⟨W⟩   (the collective force is balanced
      by the RF focusing: sign and strength), for every damping decrement;
   C. for the continuous Vlasov–Fokker–Planck equation with the code's sign conventions
      (dq/dθ = −p, dp/dθ = q − F(q), F = W/dθ): ψ = ρ(q)·exp(−p²/2) is stationary iff
      ρ' = −(q − F)ρ, and then ln ρ + q²/2 − ∫F is constant — the Haissinski relation of the
      property statement, with the unit Gaussian in energy.
  What is NOT proved: that the discrete iteration converges to a stationary state, and the size of the
  discretisation error of that state; both are measured by the check's oracle on long runs.
-/
import InovesaModel.Lemmas.Main
import InovesaModel.Lemmas.Haissinski
import InovesaModel.Props.C03
import Mathlib.Analysis.SpecialFunctions.ExpDeriv
import Mathlib.Analysis.SpecialFunctions.Log.Deriv
import Mathlib.Analysis.Calculus.MeanValue
namespace Inovesa.Props.C05
open Inovesa Inovesa.Gen

/-! ### A. the generated main loop -/
section loop
variable {V : Type}

/-- One loop iteration with an impedance, static RF and no renormalisation in this step: the grid
    is mapped by the wake kick (with the wake potential of the current profile), the RF kick, the
    drift and the Fokker–Planck map, in this order — whatever is observed or written. -/
theorem step_is_wake_rf_drift_fp (sem : Sem V) (c : MCfg) (s : MState V)
    (hw : c.hasWake = true) (hd : c.hasDrfm = false) (hr : condHolds c s .renormNow = false) :
    (execBlock sem c loopBody s).grid
      = sem.fp (sem.drift (sem.rfStatic (sem.kick s.grid (sem.wake s.xp)))) := by
  rw [body_grid_static sem c s hd hr]; simp [hw]

/-- without impedance the first map is the identity map -/
theorem step_without_wake (sem : Sem V) (c : MCfg) (s : MState V)
    (hw : c.hasWake = false) (hd : c.hasDrfm = false) (hr : condHolds c s .renormNow = false) :
    (execBlock sem c loopBody s).grid = sem.fp (sem.drift (sem.rfStatic (sem.ident s.grid))) := by
  rw [body_grid_static sem c s hd hr]; simp [hw]

/-- the profile from which the wake is computed is the x-projection of the grid being kicked:
    the loop re-projects after the last map of every iteration -/
theorem profile_is_current (sem : Sem V) (c : MCfg) (s : MState V) :
    (execBlock sem c loopBody s).xp = sem.xproj (execBlock sem c loopBody s).grid := by
  exact body_xp_grid sem c s

/-- when a record is written, the wake potential stored with it is the one the following wake kick
    applies (same iteration, same profile) -/
theorem recorded_wake_is_applied (sem : Sem V) (c : MCfg) (s : MState V)
    (hw : c.hasWake = true) (hf : c.hasFile = true) (ho : condHolds c s .outNow = true) :
    (execBlock sem c loopBody s).file.wake = s.file.wake ++ [sem.wake s.xp] := by
  exact body_wake_written sem c s hw hf ho

end loop

/-! ### B. moment balance of one step (exact) -/
section moments
variable {α : Type} [Field α]

/-- first moments `(⟨q⟩, ⟨p⟩)` under one step, in the conventions of `C03.stepMap`: wake and RF kick
    `p' = p + t·q − w` (`w` = mean wake kick), drift `q' = q − θ·p'`, damping `p'' = (1−e1)·p'`
    (C04: first energy moment under the Fokker–Planck map) -/
def momentStep (θ t e1 w : α) (m : α × α) : α × α :=
  let p' := m.2 + t * m.1 - w
  (m.1 - θ * p', (1 - e1) * p')

/-- without wake and damping this is the orbit map of C03 -/
theorem momentStep_is_stepMap (θ t : α) (m : α × α) :
    momentStep θ t 0 0 m = C03.stepMap θ t m := by
  simp [momentStep, C03.stepMap]

/-- STATIONARY FIRST MOMENTS: the mean energy vanishes and the RF focusing balances the mean wake
    kick exactly, `t·⟨q⟩ = ⟨w⟩`, for every damping decrement and step size -/
theorem stationary_moments (θ t e1 w : α) (hθ : θ ≠ 0) (m : α × α)
    (h : momentStep θ t e1 w m = m) : m.2 = 0 ∧ t * m.1 = w := by
  simp only [momentStep, Prod.ext_iff] at h
  obtain ⟨h1, h2⟩ := h
  have hp : m.2 + t * m.1 - w = 0 := by
    have : θ * (m.2 + t * m.1 - w) = 0 := by linear_combination -h1
    exact (mul_eq_zero.mp this).resolve_left hθ
  have hm : m.2 = 0 := by rw [hp, mul_zero] at h2; exact h2.symm
  refine ⟨hm, ?_⟩
  rw [hm] at hp
  linear_combination hp

/-- conversely that point is stationary -/
theorem balanced_is_stationary (θ t e1 w q : α) (h : t * q = w) :
    momentStep θ t e1 w (q, 0) = (q, 0) := by
  simp only [momentStep, Prod.ext_iff]
  constructor
  · linear_combination (-θ) * h
  · linear_combination (1 - e1) * h

example : momentStep (1 / 10 : ℚ) (1 / 10) (1 / 100) (1 / 50) (1 / 5, 0) = (1 / 5, 0) := by
  exact balanced_is_stationary _ _ _ _ _ (by norm_num)

end moments

/-! ### C. the continuous equation -/
section continuous
open Real

/-- unit Gaussian in energy -/
noncomputable def g (p : ℝ) : ℝ := exp (-(p ^ 2) / 2)

theorem g_deriv (p : ℝ) : HasDerivAt g (-p * g p) p := by
  exact hasDerivAt_unitGauss p

/-- the energy part: `p·ψ + ∂ψ/∂p` vanishes identically for the unit Gaussian, hence the
    Fokker–Planck term `∂/∂p (p ψ + ∂ψ/∂p)` is zero: the energy distribution stays the unit Gaussian -/
theorem fokker_planck_flux_zero (a p : ℝ) : p * (a * g p) + a * (-p * g p) = 0 := by
  ring

/-- the Liouville part for `dq/dθ = −p`, `dp/dθ = q − F q`:
    `∂ψ/∂θ = p·∂ψ/∂q − (q − F q)·∂ψ/∂p` vanishes for `ψ = ρ(q)·g(p)` when `ρ' = −(q − F)ρ` … -/
theorem haissinski_is_stationary (ρ F : ℝ → ℝ)
    (hρ : ∀ q, HasDerivAt ρ (-(q - F q) * ρ q) q) (q p : ℝ) :
    ∃ dq dp : ℝ, HasDerivAt (fun q' => ρ q' * g p) dq q ∧ HasDerivAt (fun p' => ρ q * g p') dp p ∧
      p * dq - (q - F q) * dp = 0 := by
  refine ⟨-(q - F q) * ρ q * g p, ρ q * (-p * g p), (hρ q).mul_const (g p),
    (g_deriv p).const_mul (ρ q), ?_⟩
  ring

/-- … and only then: if the product is stationary for all `(q, p)` then `ρ' = −(q − F)ρ` -/
theorem stationary_only_haissinski (ρ ρ' F : ℝ → ℝ) (hρ : ∀ q, HasDerivAt ρ (ρ' q) q)
    (h : ∀ q p, p * (ρ' q * g p) - (q - F q) * (ρ q * (-p * g p)) = 0) (q : ℝ) :
    ρ' q = -(q - F q) * ρ q := by
  have h1 := h q 1
  have hg : g 1 ≠ 0 := (Real.exp_pos _).ne'
  have : (ρ' q + (q - F q) * ρ q) * g 1 = 0 := by linear_combination h1
  have h2 := (mul_eq_zero.mp this).resolve_right hg
  linear_combination h2

/-- THE HAISSINSKI RELATION: with `G' = F = W/dθ` (the integral of the wake in natural units per
    step over dθ), `ln ρ + q²/2 − G` is the same at any two points -/
theorem haissinski_relation (ρ F G : ℝ → ℝ) (hpos : ∀ q, 0 < ρ q)
    (hρ : ∀ q, HasDerivAt ρ (-(q - F q) * ρ q) q) (hG : ∀ q, HasDerivAt G (F q) q) (a b : ℝ) :
    log (ρ a) + a ^ 2 / 2 - G a = log (ρ b) + b ^ 2 / 2 - G b := by
  exact eq_of_hasDerivAt_zero (fun q => log (ρ q) + q ^ 2 / 2 - G q)
    (fun q => hasDerivAt_haissinski ρ F G q (hpos q).ne' (hρ q) (hG q)) a b

/-- non-vacuity: without wake the unit Gaussian satisfies the hypotheses -/
example : ∀ q : ℝ, HasDerivAt g (-(q - (fun _ => (0 : ℝ)) q) * g q) q := by
  intro q
  have h := g_deriv q
  simpa using h

end continuous

end Inovesa.Props.C05
