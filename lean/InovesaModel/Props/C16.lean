/-
  C16 — impedance models are well-formed, passive, correctly scaled and causal
  (structure, passivity, scaling and the factory; asymptotics of the parallel-plates model and
  the one-sidedness of the truncated spectra are measured by the check, not proved).
-/
import InovesaModel.Model.Impedance
import InovesaModel.Lemmas.Field
import Mathlib.Algebra.Order.Field.Basic
import Mathlib.Tactic.Linarith
import Mathlib.Tactic.Positivity
namespace Inovesa.Props.C16
open Inovesa

section shape
variable {α : Type} [Field α]

/-- every builder returns exactly the requested number of samples -/
theorem impTable_length (n first last : Nat) (elem : Nat → Cx α) :
    (impTable n first last elem).length = n := by
  simp [impTable]

theorem const_length (n : Nat) (z : Cx α) : (constImpedance n z).length = n := by
  simp [constImpedance]

/-- samples above `last` (= n/2: the negative-frequency half) are identically zero -/
theorem impTable_zero_above (n first last : Nat) (elem : Nat → Cx α) (i : Nat) (hi : i < n) (h : last < i) :
    (impTable n first last elem)[i]? = some ((0 : α), (0 : α)) := by
  simp [impTable, hi, Cx.czero, zero]
  omega

theorem free_zero_upper_half (n : Nat) (pw : Nat → α) (i : Nat) (hi : i < n) (h : n / 2 < i) :
    (freeSpaceCSR n pw)[i]? = some ((0 : α), (0 : α)) :=
  impTable_zero_above n 0 (n / 2) _ i hi h

theorem wall_zero_upper_half (n : Nat) (r : α) (sq : Nat → α) (i : Nat) (hi : i < n) (h : n / 2 < i) :
    (resistiveWall n r sq)[i]? = some ((0 : α), (0 : α)) :=
  impTable_zero_above n 0 (n / 2) _ i hi h

theorem pp_zero_upper_half (n : Nat) (pref : Nat → α) (terms : Nat → List (α × α × α × α × α))
    (i : Nat) (hi : i < n) (h : n / 2 < i) :
    (parallelPlates n pref terms)[i]? = some ((0 : α), (0 : α)) :=
  impTable_zero_above n 1 (n / 2) _ i hi h

theorem const_zero_upper_half (n : Nat) (z : Cx α) (i : Nat) (hi : i < n) (h : n / 2 ≤ i) :
    (constImpedance n z)[i]? = some ((0 : α), (0 : α)) := by
  simp [constImpedance, hi, Cx.czero, zero]
  omega

/-- resistive wall: real and imaginary part are opposite for every sample (phase −π/4) -/
theorem wall_phase (n : Nat) (r : α) (sq : Nat → α) (i : Nat) (hi : i < n) :
    ∃ z, (resistiveWall n r sq)[i]? = some z ∧ z.2 = -z.1 := by
  by_cases h : i ≤ n / 2
  · refine ⟨(r * sq i, -r * sq i), ?_, by ring⟩
    simp [resistiveWall, impTable, hi, h]
  · refine ⟨((0 : α), (0 : α)), ?_, by simp⟩
    simp [resistiveWall, impTable, hi, h, Cx.czero, zero]

/-- free space: sample `i ≤ n/2` is `Z0·pw(i)`: growth like the library power of `i·Δ` -/
theorem free_scaling (n : Nat) (pw : Nat → α) (i : Nat) (hi : i < n) (h : i ≤ n / 2) :
    (freeSpaceCSR n pw)[i]? = some ((3063 / 10 : α) * pw i, (1769 / 10 : α) * pw i) := by
  simp [freeSpaceCSR, impTable, hi, h]

end shape

section passive
variable {α : Type} [Field α] [LinearOrder α] [IsStrictOrderedRing α]

/-- free space: non-negative real part whenever the power is non-negative -/
theorem free_re_nonneg (n : Nat) (pw : Nat → α) (hp : ∀ i, 0 ≤ pw i) :
    ∀ z ∈ freeSpaceCSR n pw, 0 ≤ z.1 := by
  intro z hz
  simp only [freeSpaceCSR, impTable, List.mem_map, List.mem_range] at hz
  obtain ⟨i, _, rfl⟩ := hz
  split
  · simp only [lit_field]
    have := hp i
    positivity
  · simp [Cx.czero, zero]

/-- resistive wall: non-negative real part for `r ≥ 0` and non-negative square roots -/
theorem wall_re_nonneg (n : Nat) (r : α) (sq : Nat → α) (hr : 0 ≤ r) (hs : ∀ i, 0 ≤ sq i) :
    ∀ z ∈ resistiveWall n r sq, 0 ≤ z.1 := by
  intro z hz
  simp only [resistiveWall, impTable, List.mem_map, List.mem_range] at hz
  obtain ⟨i, _, rfl⟩ := hz
  split
  · exact mul_nonneg hr (hs i)
  · simp [Cx.czero, zero]

/-- one plate mode contributes `Ai'(u)² + u·Ai(u)²` to the real part: non-negative for `u ≥ 0` -/
theorem pp_mode_nonneg (u ai aip : α) (hu : 0 ≤ u) : 0 ≤ aip * aip + u * (ai * ai) := by
  have h1 : 0 ≤ aip * aip := mul_self_nonneg aip
  have h2 : 0 ≤ u * (ai * ai) := mul_nonneg hu (mul_self_nonneg ai)
  linarith

/-- parallel plates: non-negative real part when the prefactor is non-negative and every mode
    argument `u` is non-negative (it is `π² p² / 2^{2/3} · m^{-4/3} > 0`) -/
theorem pp_re_nonneg (n : Nat) (pref : Nat → α) (terms : Nat → List (α × α × α × α × α))
    (hp : ∀ i, 0 ≤ pref i) (hu : ∀ i, ∀ t ∈ terms i, 0 ≤ t.1) :
    ∀ z ∈ parallelPlates n pref terms, 0 ≤ z.1 := by
  intro z hz
  simp only [parallelPlates, impTable, List.mem_map, List.mem_range] at hz
  obtain ⟨i, _, rfl⟩ := hz
  split
  · apply mul_nonneg (hp i)
    -- the fold keeps the real part non-negative
    have key : ∀ (l : List (α × α × α × α × α)) (acc : Cx α), 0 ≤ acc.1 → (∀ t ∈ l, 0 ≤ t.1) →
        0 ≤ (l.foldl (fun (acc : Cx α) t =>
          (acc.1 + (t.2.2.1 * t.2.2.1 + t.1 * (t.2.1 * t.2.1)),
           acc.2 + (-(t.2.2.1 * t.2.2.2.2) - t.1 * (t.2.1 * t.2.2.2.1)))) acc).1 := by
      intro l
      induction l with
      | nil => intro acc h _; simpa using h
      | cons t l ih =>
        intro acc h hl
        simp only [List.foldl_cons]
        apply ih
        · have := pp_mode_nonneg t.1 t.2.1 t.2.2.1 (hl t (by simp))
          simp only
          linarith
        · intro t' ht'; exact hl t' (by simp [ht'])
    have := key (terms i) Cx.czero (by simp [Cx.czero, zero]) (hu i)
    simpa using this
  · simp [Cx.czero, zero]

/-- collimator: `Z0/π·log(outer/inner)` is a positive constant resistance for `outer > inner > 0`
    given `log` positive on arguments above one -/
theorem collimator_positive (z0pi lg : α) (hz : 0 < z0pi) (hl : 0 < lg) : 0 < z0pi * lg :=
  mul_pos hz hl

/-- free-space phase: `Z0 = 306.3 + 176.9 i` has `tan(arg) = 176.9/306.3`, within 0.1 % of
    `tan(π/6) = 1/√3` (`3·176.9² ≈ 306.3²`) — the phase of a one-sided `f^{1/3}` impedance -/
theorem free_phase_is_pi_over_six :
    |(3 : ℚ) * (1769 / 10) ^ 2 - (3063 / 10) ^ 2| < (1 / 1000) * (3063 / 10) ^ 2 := by
  norm_num [abs_lt]

end passive

/-! ### the factory: which contributions are summed, for every combination of switches -/

/-- nothing selected ⇔ no impedance is returned -/
theorem factory_none_iff (c : FactoryCfg) :
    factoryContributions c = none ↔
      (c.gapNonzero = false ∨ (c.useCSR = false ∧ c.wall = false ∧ c.collimator = false)) ∧ c.file = false := by
  cases c with
  | mk g p u w co f => cases g <;> cases p <;> cases u <;> cases w <;> cases co <;> cases f <;> decide

/-- with a non-zero gap and CSR on, exactly one of the two CSR models is used, chosen by the sign
    of the gap; wall and collimator are added iff selected; a file is always added when given -/
theorem factory_selection (c : FactoryCfg) (l : List String) (h : factoryContributions c = some l) :
    ("parallel-plates" ∈ l ↔ (c.gapNonzero ∧ c.useCSR ∧ c.gapPositive)) ∧
    ("free-space" ∈ l ↔ (c.gapNonzero ∧ c.useCSR ∧ c.gapPositive = false)) ∧
    ("resistive-wall" ∈ l ↔ (c.gapNonzero ∧ c.wall)) ∧
    ("collimator" ∈ l ↔ (c.gapNonzero ∧ c.collimator)) ∧
    ("file" ∈ l ↔ c.file = true) := by
  cases c with
  | mk g p u w co f =>
    cases g <;> cases p <;> cases u <;> cases w <;> cases co <;> cases f <;>
      simp [factoryContributions] at h <;> subst h <;> decide

/-- the sum of tables with non-negative real parts has non-negative real parts -/
theorem add_re_nonneg {α : Type} [Field α] [LinearOrder α] [IsStrictOrderedRing α]
    (a b : List (Cx α)) (ha : ∀ z ∈ a, 0 ≤ z.1) (hb : ∀ z ∈ b, 0 ≤ z.1) :
    ∀ z ∈ addTables a b, 0 ≤ z.1 := by
  intro z hz
  simp only [addTables, List.mem_iff_getElem?] at hz
  obtain ⟨i, hi⟩ := hz
  rw [List.getElem?_zipWith] at hi
  cases ha' : a[i]? with
  | none => simp [ha'] at hi
  | some x =>
    cases hb' : b[i]? with
    | none => simp [ha', hb'] at hi
    | some y =>
      simp [ha', hb', Cx.add] at hi
      subst hi
      have h1 := ha x (List.mem_of_getElem? ha')
      have h2 := hb y (List.mem_of_getElem? hb')
      simp only
      linarith

/-- non-vacuity: a configuration selecting three contributions -/
example : factoryContributions ⟨true, true, true, true, false, true⟩
    = some ["parallel-plates", "resistive-wall", "file"] := by decide

end Inovesa.Props.C16
