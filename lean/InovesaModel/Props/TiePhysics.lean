/-
  The physical parameter chain of main() (translator fragment G4c, Gen/Physics.lean, regenerated from src/main.cpp on
  every run): theorems proved FROM THE GENERATED EXPRESSIONS, in any field of characteristic 0, for every value of the
  options.  `Chain E` says that each local variable of main() holds the expression the source gives it; the library
  functions `sqrt`, `pow`, `sign` are parameters of the environment and enter through exactly the hypotheses named in
  each theorem.

  What the properties rest on:
    * C03 / C05 / C11: the phase-space box is square, `pqsize` wide on both axes, and the origin lies exactly
      `PhaseSpaceShift` cells off the grid centre (`box_*`, `origin_on_grid`); the first slippage coefficient is the
      rotation angle itself and the higher orders are scaled by the SAME `alpha0` that defines the synchrotron
      frequency (`slip_is_angle`, `slip_higher_orders`, `alpha0_is_chain_value`);
    * C05 / C06: synchrotron frequency and momentum compaction are two descriptions of one machine
      (`fs_alpha0_duality`), the natural bunch length is `sigma_delta·alpha0·c/(2π f_s)` in either description
      (`bunch_length_relation`), bunch spacing and highest frequency are measured in units of that length
      (`spacing_relation`, `fmax_relation`);
    * C04: the damping time computed from the radiated energy is `E0/(V0·f_rev)` (`damping_time_relation`);
    * C11: a run continued from a results file gets the same box and the same scales as a fresh one
      (`same_box_for_both_starts`).
-/
import InovesaModel.Gen.Physics
import InovesaModel.Gen.StepParams
import InovesaModel.Lemmas.Field
import InovesaModel.Lemmas.PS
import Mathlib.Tactic.LinearCombination
namespace Inovesa.Props.TiePhysics
open Inovesa Inovesa.Gen.Phys

variable {α : Type} [Field α] [CharZero α]

/-- both axes of the box are `pqsize` wide: the grid is square in physical units too -/
theorem box_width (E : PhysEnv α) (h : Chain E) :
    E.v_qmax - E.v_qmin = E.v_pqsize ∧ E.v_pmax - E.v_pmin = E.v_pqsize := by
  rw [h.h_qmax, h.h_qmin, h.h_pmax, h.h_pmin]
  simp only [p_qmax, p_qmin, p_pmax, p_pmin]
  rw [h.h_pqhalf]
  simp only [p_pqhalf, lit_field]
  constructor <;> ring

theorem box_centre (E : PhysEnv α) (h : Chain E) :
    E.v_qmax + E.v_qmin = 2 * E.v_qcenter ∧ E.v_pmax + E.v_pmin = 2 * E.v_pcenter := by
  rw [h.h_qmax, h.h_qmin, h.h_pmax, h.h_pmin]
  simp only [p_qmax, p_qmin, p_pmax, p_pmin]
  constructor <;> ring

/-- equal cell size on both axes (what the single Simpson weight vector and the wake scaling assume) -/
theorem box_square_cells (E : PhysEnv α) (h : Chain E) :
    (E.v_qmax - E.v_qmin) / (E.v_ps_bins - 1) = (E.v_pmax - E.v_pmin) / (E.v_ps_bins - 1) := by
  rw [(box_width E h).1, (box_width E h).2]

/-- the physical origin lies on the grid, `PhaseSpaceShiftX` (resp. `…Y`) cells off the centre cell `(n−1)/2`:
    `qmin + ((n−1)/2 + shift)·delta = 0` with `delta = (qmax−qmin)/(n−1)` -/
theorem origin_on_grid (E : PhysEnv α) (h : Chain E) (hn : E.v_ps_bins - 1 ≠ 0) :
    E.v_qmin + ((E.v_ps_bins - 1) / 2 + E.o_getPSShiftX) * ((E.v_qmax - E.v_qmin) / (E.v_ps_bins - 1)) = 0
    ∧ E.v_pmin + ((E.v_ps_bins - 1) / 2 + E.o_getPSShiftY) * ((E.v_pmax - E.v_pmin) / (E.v_ps_bins - 1)) = 0 := by
  rw [(box_width E h).1, (box_width E h).2, h.h_qmin, h.h_pmin]
  simp only [p_qmin, p_pmin]
  rw [h.h_qcenter, h.h_pcenter, h.h_pqhalf]
  simp only [p_qcenter, p_pcenter, p_pqhalf, lit_field]
  have h1 : ((1 : ℤ) : α) / ((1 : ℕ) : α) = 1 := by norm_num
  have h2 : ((2 : ℤ) : α) / ((1 : ℕ) : α) = 2 := by norm_num
  rw [h1, h2]
  generalize E.v_ps_bins - 1 = d at hn ⊢
  constructor <;> field_simp <;> ring

/-- `V_eff² + V0² = V_RF²` (the hypothesis is the defining property of the square root at the one argument used) -/
theorem effective_voltage (E : PhysEnv α) (h : Chain E)
    (hs : E.sqrtf (E.v_V_RF * E.v_V_RF - E.v_V0 * E.v_V0) * E.sqrtf (E.v_V_RF * E.v_V_RF - E.v_V0 * E.v_V0)
            = E.v_V_RF * E.v_V_RF - E.v_V0 * E.v_V0) :
    E.v_V_eff * E.v_V_eff + E.v_V0 * E.v_V0 = E.v_V_RF * E.v_V_RF := by
  rw [h.h_V_eff]
  simp only [p_V_eff]
  rw [hs]; ring

/-- the relation between synchrotron frequency and momentum compaction that BOTH branches of main() establish:
    `f_s² · 2π·E0 = f_rev² · alpha0 · h · V_eff` -/
def Machine (E : PhysEnv α) : Prop :=
  E.v_fs * E.v_fs * (E.twoPi * E.v_E0) = E.v_f_rev * E.v_f_rev * (E.v_alpha0_tmp * E.v_harmonic_number * E.v_V_eff)

/-- synchrotron frequency given (non-zero, positive): the derived `alpha0` satisfies the machine relation -/
theorem fs_alpha0_duality_given_fs (E : PhysEnv α) (h : Chain E) (hz : E.flag_fs_is_zero = false)
    (hsign : E.signf E.v_fs = 1) (hpow : ∀ x : α, E.powf x 2 = x * x)
    (hfrev : E.v_f_rev ≠ 0) (hhv : E.v_harmonic_number * E.v_V_eff ≠ 0) : Machine E := by
  unfold Machine
  have ha := h.h_alpha0_tmp
  rw [hz] at ha
  simp only [Bool.false_eq_true, if_false, p_alpha0_derived, lit_field] at ha
  have h2 : ((2 : ℤ) : α) / ((1 : ℕ) : α) = 2 := by norm_num
  rw [h2, hpow, hsign] at ha
  rw [ha]
  have hh : E.v_harmonic_number ≠ 0 := left_ne_zero_of_mul hhv
  have hv : E.v_V_eff ≠ 0 := right_ne_zero_of_mul hhv
  field_simp

/-- synchrotron frequency not given: the derived `f_s` satisfies the same relation (square-root hypothesis at the
    one argument used) -/
theorem fs_alpha0_duality_given_alpha0 (E : PhysEnv α) (h : Chain E) (hz : E.flag_fs_is_zero = true)
    (hs : ∀ x : α, E.sqrtf x * E.sqrtf x = x) (h2pe : E.twoPi * E.v_E0 ≠ 0) : Machine E := by
  unfold Machine
  have hf := h.h_fs
  rw [hz] at hf
  simp only [if_true, p_fs_derived] at hf
  rw [hf]
  have := hs (E.v_alpha0_tmp * E.v_harmonic_number * E.v_V_eff / (E.twoPi * E.v_E0))
  calc E.v_f_rev * E.sqrtf _ * (E.v_f_rev * E.sqrtf _) * (E.twoPi * E.v_E0)
      = E.v_f_rev * E.v_f_rev * (E.sqrtf (E.v_alpha0_tmp * E.v_harmonic_number * E.v_V_eff / (E.twoPi * E.v_E0))
          * E.sqrtf (E.v_alpha0_tmp * E.v_harmonic_number * E.v_V_eff / (E.twoPi * E.v_E0))) * (E.twoPi * E.v_E0) := by ring
    _ = _ := by
      rw [this]
      have h2p : E.twoPi ≠ 0 := left_ne_zero_of_mul h2pe
      have hE : E.v_E0 ≠ 0 := right_ne_zero_of_mul h2pe
      field_simp

/-- natural bunch length: `bl · 2π · f_s = c · sigma_delta · alpha0`, in either description of the machine -/
theorem bunch_length_relation (E : PhysEnv α) (h : Chain E) (hm : Machine E)
    (hpow : ∀ x : α, E.powf x 2 = x * x) (hE0 : E.v_E0 ≠ 0) (h2p : E.twoPi ≠ 0)
    (hden : E.v_harmonic_number ≠ 0 ∧ E.v_f_rev ≠ 0 ∧ E.v_V_eff ≠ 0) :
    E.v_bl * (E.twoPi * E.v_fs) = E.k_c * E.v_sE * E.v_alpha0_tmp := by
  obtain ⟨hh, hf, hv⟩ := hden
  unfold Machine at hm
  rw [h.h_bl]
  simp only [p_bl, lit_field]
  have h2 : ((2 : ℤ) : α) / ((1 : ℕ) : α) = 2 := by norm_num
  rw [h2, hpow, h.h_dE]
  simp only [p_dE]
  field_simp
  have : E.v_fs * E.v_fs * E.twoPi * E.v_E0 = E.v_f_rev * E.v_f_rev * E.v_alpha0_tmp * E.v_harmonic_number * E.v_V_eff := by
    linear_combination hm
  linear_combination (E.k_c * E.v_sE) * this

/-- the drift's first-order coefficient is the rotation angle of the RF kick; higher orders are scaled by the
    ratio to the `alpha0` OF THE CHAIN (derived from `f_s` when that is given) -/
theorem slip_is_angle (E : PhysEnv α) (h : Chain E) : E.v_slip 0 = E.v_angle := by
  have := h.h_slip 0 (by norm_num)
  simpa [p_slip] using this.symm

/-- together with the generated `angle = 2π/steps` (Gen/StepParams): the first-order drift per step, summed over one
    synchrotron period, is `2π` — the drift turns the bunch at the same rate as the RF kick (C03) -/
theorem slip_times_steps (E : PhysEnv α) (h : Chain E) (steps : α) (hs : steps ≠ 0)
    (ha : E.v_angle = Gen.pAngle E.twoPi steps) : E.v_slip 0 * steps = E.twoPi := by
  rw [slip_is_angle E h, ha, Gen.pAngle]
  field_simp

theorem slip_higher_orders (E : PhysEnv α) (h : Chain E) (ha : E.v_alpha 0 ≠ 0) :
    E.v_slip 1 * E.v_alpha 0 = E.v_alpha 1 * E.v_angle ∧ E.v_slip 2 * E.v_alpha 0 = E.v_alpha 2 * E.v_angle := by
  have h1 := h.h_slip 1 (by norm_num)
  have h2 := h.h_slip 2 (by norm_num)
  simp [p_slip] at h1 h2
  rw [← h1, ← h2]
  constructor <;> field_simp

theorem alpha0_is_chain_value (E : PhysEnv α) (h : Chain E) :
    E.v_alpha 0 = E.v_alpha0_tmp ∧ E.v_alpha 1 = E.o_getAlpha1 ∧ E.v_alpha 2 = E.o_getAlpha2 := by
  have h0 := h.h_alpha 0 (by norm_num)
  have h1 := h.h_alpha 1 (by norm_num)
  have h2 := h.h_alpha 2 (by norm_num)
  simp [p_alpha] at h0 h1 h2
  exact ⟨h0.symm, h1.symm, h2.symm⟩

/-- damping time from the radiated energy per turn: `t_d · V0 · f_rev = E0` -/
theorem damping_time_relation (E : PhysEnv α) (h : Chain E) (he : E.k_e ≠ 0) (hV : E.v_V0 ≠ 0) (hf : E.v_f_rev ≠ 0) :
    E.v_calc_damp * E.v_V0 * E.v_f_rev = E.v_E0 := by
  rw [h.h_calc_damp]
  simp only [p_calc_damp]
  rw [h.h_W0]
  simp only [p_W0]
  field_simp

/-- bunch charge, RF frequency, bucket spacing and highest frequency of the grid -/
theorem charge_and_spacing (E : PhysEnv α) (h : Chain E) (hf : E.v_f_rev ≠ 0) (hrf : E.v_f_RF ≠ 0) :
    E.v_Qb * E.v_f_rev = E.v_Ib ∧ E.v_f_RF = E.v_f_rev * E.v_harmonic_number ∧ E.v_bunchspacing * E.v_f_RF = 1 := by
  refine ⟨?_, h.h_f_RF, ?_⟩
  · rw [h.h_Qb]; simp only [p_Qb]; field_simp
  · rw [h.h_bunchspacing]; simp only [p_bunchspacing, lit_field]; field_simp; simp

theorem spacing_relation (E : PhysEnv α) (h : Chain E) (hb : E.v_bl ≠ 0) (hp : E.v_pqsize ≠ 0) :
    E.v_spacing_ps * (E.v_pqsize * E.v_bl) = E.v_bunchspacing * E.k_c := by
  rw [h.h_spacing_ps]; simp only [p_spacing_ps]; field_simp

theorem fmax_relation (E : PhysEnv α) (h : Chain E) (hb : E.v_bl ≠ 0) (hp : E.v_pqsize ≠ 0) :
    E.v_fmax * (E.v_pqsize * E.v_bl) = E.v_ps_bins * E.k_c := by
  rw [h.h_fmax]; simp only [p_fmax]; field_simp

/-- the phase space is created with the box of the chain, length scale `bl`, energy scale `dE`, and the same box and
    scales go to a run that starts from a results file; the static sizes are (GridSize, number of filled buckets) -/
theorem same_box_for_both_starts :
    gridCtorArgs = ["qmin", "qmax", "bl", "pmin", "pmax", "dE", "oclh", "Qb", "Ib", "bunches", "zoom"]
    ∧ h5StartArgs = ["startdistfile", "opts.getStartDistStep()", "qmin", "qmax", "pmin", "pmax", "oclh", "Qb", "Ib", "bl", "dE"]
    ∧ setSizeArgs = ["ps_bins", "nbunches"] := ⟨rfl, rfl, rfl⟩

/-- the results file is created for the simulated grid, with the RADIATION field as the source of the CSR records, the
    BEAM-DYNAMICS impedance as the stored impedance (and the length of the padded records), and one particle record per
    tracked particle -/
theorem results_file_arguments :
    h5FileCtorArgs = ["ofname", "grid_t1", "&rdtn_field", "wake_impedance", "trackme.size()", "t_sync", "f_rev"] := rfl

/-! non-vacuity: a concrete environment over ℚ satisfying `Chain` for the box part is exhibited by evaluation of the
    generated expressions: GridSize 5, PhaseSpaceSize 12, shift 1 ⇒ box [−9, 3], origin at cell 3 -/
def exEnv : PhysEnv ℚ :=
  { flag_fs_is_zero := true, flag_use_set_bend := false, k_c := 1, k_e := 1, k_epsilon0 := 1,
      k_me := 1, o_getAlpha0 := 1, o_getAlpha1 := 0, o_getAlpha2 := 0, o_getBeamEnergy := 1, o_getBendingRadius := 0,
      o_getEnergySpread := 1, o_getGridSize := 5, o_getHarmonicNumber := 1, o_getPSShiftX := 1, o_getPSShiftY := 0,
      o_getPhaseSpaceSize := 12, o_getRFVoltage := 1, o_getRevolutionFrequency := 1, o_getSyncFreq := 0,
      powf := fun x _ => x * x, signf := fun _ => 1, sqrtf := id, twoPi := 6, v_E0 := 1, v_Ib := 1, v_Qb := 1, v_R_bend := 1,
      v_V0 := 0, v_V_RF := 1, v_V_eff := 1, v_W0 := 0, v_alpha := fun _ => 1, v_alpha0_tmp := 1, v_angle := 1, v_bl := 1,
      v_bunchspacing := 1, v_calc_damp := 1, v_dE := 1, v_f_RF := 1, v_f_rev := 1, v_fmax := 1, v_fs := 1,
      v_harmonic_number := 1, v_lorentzgamma := 1, v_pcenter := 0, v_pmax := 6, v_pmin := -6, v_pqhalf := 6,
      v_pqsize := 12, v_ps_bins := 5, v_qcenter := -3, v_qmax := 3, v_qmin := -9, v_sE := 1, v_slip := fun _ => 1,
      v_spacing_ps := 1 }

example : p_qcenter exEnv = -3 ∧ p_qmin exEnv = -9 ∧ p_qmax exEnv = 3
    ∧ exEnv.v_qmin + ((exEnv.v_ps_bins - 1) / 2 + exEnv.o_getPSShiftX) * 3 = 0 := by
  rw [ratLit_eq_fieldLit]
  refine ⟨?_, ?_, ?_, ?_⟩ <;> simp [exEnv, p_qcenter, p_qmin, p_qmax] <;> norm_num

end Inovesa.Props.TiePhysics
