/-
  Tie theorems (the loops of PhaseSpace: Simpson weights, projections, integral, normalisation, construction):
  hand-written model definitions proved EQUAL to definitions regenerated from the C++ source on every run
  (Gen/PSLoops.lean, translator fragment G10).  The hand definitions are what the lemmas and the theorems of C09
  unfold; the generated ones are what the code says now.  A change of a loop bound, of an index, of the weight
  vector, of the fold's start value, of the guard or of the factor of `normalize` makes a proof here fail.
-/
import InovesaModel.Model.PhaseSpace
import InovesaModel.Gen.PSLoops
import InovesaModel.Lemmas.Field
namespace Inovesa.Props.TiePS
open Inovesa

/-- flattened layout of `_data` (`boost::multi_array`, C order, extents from the constructor) -/
def flat3 (nx ny : Nat) (data : Nat → Nat → Nat → α) : Nat → α := fun i => data (i / (nx * ny)) (i / ny % nx) (i % ny)

section rfl_ties
variable {α : Type} [Arith α]

/-- `setSize(x, b)`: the grid is square, `nx = ny = x`, `nb = b`, and the two cell counts are `x²`, `x²·b` -/
theorem setSize_is_code (x b : Nat) :
    Gen.PS.setSizeNx x b = x ∧ Gen.PS.setSizeNy x b = x ∧ Gen.PS.setSizeNb x b = b
    ∧ Gen.PS.setSizeCells x b = Gen.PS.setSizeNx x b * Gen.PS.setSizeNy x b
    ∧ Gen.PS.setSizeTotal x b = Gen.PS.setSizeNx x b * Gen.PS.setSizeNy x b * Gen.PS.setSizeNb x b :=
  ⟨rfl, rfl, rfl, rfl, rfl⟩

/-- extents of the member arrays as allocated by the constructor -/
theorem extents_are_code (nb nx ny : Nat) :
    Gen.PS.dataExtents nb nx ny = [nb, nx, ny] ∧ Gen.PS.projectionExtents nb nx ny = [2, nb, nx]
    ∧ Gen.PS.fillingExtents nb nx ny = [nb] := ⟨rfl, rfl, rfl⟩

/-- what the constructor (and with it the copy constructor) refreshes once the data are in place -/
theorem ctor_refreshes_are_code :
    Gen.PS.ctorRefreshes = ["updateXProjection", "updateYProjection", "integrate"] := rfl

/-- loops and targets of the five loop nests -/
theorem loops_are_code :
    Gen.PS.xprojLoops = [("n", "0", "nb"), ("x", "0", "nx")] ∧ Gen.PS.xprojTarget = ("_projection", ["0", "n", "x"])
    ∧ Gen.PS.yprojLoops = [("n", "0", "nb"), ("y", "0", "ny")] ∧ Gen.PS.yprojTarget = ("_projection", ["1", "n", "y"])
    ∧ Gen.PS.yprojInner = ("x", "0", "nx")
    ∧ Gen.PS.integrateLoops = [("n", "0", "nb")] ∧ Gen.PS.integrateTarget = ("_filling", ["n"])
    ∧ Gen.PS.normalizeOuter = [("n", "0", "nb")] ∧ Gen.PS.normalizeGuard = ("_filling_set", ["n"])
    ∧ Gen.PS.normalizeThenLoops = [("x", "0", "nx"), ("y", "0", "ny")]
    ∧ Gen.PS.normalizeThenTarget = ("_data", ["n", "x", "y"])
    ∧ Gen.PS.normalizeElseLoops = [("x", "0", "nx"), ("y", "0", "ny")]
    ∧ Gen.PS.normalizeElseTarget = ("_data", ["n", "x", "y"])
    ∧ Gen.PS.createLoops = [("n", "0", "nb"), ("x", "0", "nx"), ("y", "0", "ny")]
    ∧ Gen.PS.createTarget = ("_data", ["n", "x", "y"])
    ∧ Gen.PS.createThen = ["updateXProjection", "integrate", "normalize"] := by
  refine ⟨rfl, rfl, rfl, rfl, rfl, rfl, rfl, rfl, rfl, rfl, rfl, rfl, rfl, rfl, rfl, rfl⟩

/-- `updateXProjection`: `proj0[b][x] = Σ_y data[b][x][y]·ws[y]` over one row of the grid, Simpson weights
    indexed by the ENERGY index, fold started at 0 (the hand model on the flattened square grid) -/
theorem xproj_is_code (n nb : Nat) (ws : Nat → α) (data : Nat → α) (proj : Nat → Nat → Nat → α) (fill fset : Nat → α)
    (b x : Nat) :
    xprojOf n ws data b x
      = Gen.PS.xproj nb n n (fun b x y => data (b * n * n + x * n + y)) proj ws fill fset b x := rfl

/-- `updateYProjection`: `proj1[b][y] = 0; for x: += data[b][x][y]·ws[x]` -/
theorem yproj_is_code (n nb : Nat) (ws : Nat → α) (data : Nat → α) (proj : Nat → Nat → Nat → α) (fill fset : Nat → α)
    (b y : Nat) :
    yprojOf n ws data b y
      = Gen.PS.yproj nb n n (fun b x y => data (b * n * n + x * n + y)) proj ws fill fset b y := rfl

/-- `integrate`: `filling[b] = Σ_x proj0[b][x]·ws[x]` (projection 0, the bunch's own row) and
    `_integral = Σ_b filling[b]` -/
theorem filling_is_code (n nb : Nat) (ws : Nat → α) (data : Nat → Nat → Nat → α) (proj0 : Nat → Nat → α)
    (proj1 : Nat → Nat → α) (fill fset : Nat → α) (b : Nat) :
    fillingOf n ws proj0 b
      = Gen.PS.filling nb n n data (fun k b x => if k = 0 then proj0 b x else proj1 b x) ws fill fset b := rfl

theorem integral_is_code (n nb : Nat) (ws : Nat → α) (data proj : Nat → Nat → Nat → α) (fill fset : Nat → α) :
    integralOf nb fill = Gen.PS.integral nb n n data proj ws fill fset := rfl

/-- `normalize`: buckets with a set share `> 0` are scaled by `filling_set[b]/filling[b]` (the bunch's OWN set
    share over its OWN measured charge), every other bucket is zeroed -/
theorem normalize_is_code (n : Nat) (pos : Nat → Bool) (fset fill : Nat → α) (data : Nat → α)
    (d3 proj : Nat → Nat → Nat → α) (ws : Nat → α) (i x y : Nat) :
    normalizeOf n pos fset fill data i
      = if pos (i / (n * n)) then data i * Gen.PS.normalizeFactor d3 proj ws fill fset (i / (n * n)) x y
        else Gen.PS.normalizeElse := rfl

/-- `createFromProjections`: the outer product of the two projections of the same bunch -/
theorem create_is_code (d3 proj : Nat → Nat → Nat → α) (ws fill fset : Nat → α) (n x y : Nat) :
    Gen.PS.createValue d3 proj ws fill fset n x y = proj 0 n x * proj 1 n y := rfl

/-- `createFromProjections` refreshes the position projection and the integral of the NEW grid before it
    normalises: the model's sequence is the generated call list, in order -/
theorem create_sequence_is_code [NatCast α] (c : PSConst α) (s : PSState α) :
    psCreateFromProjections c s = Gen.PS.createThen.foldl (fun s f => psCall c f s) (psOuter c s) := by
  simp [Gen.PS.createThen, psCall, psCreateFromProjections]

/-- the outer product written by `createFromProjections`, cell by cell -/
theorem create_cells_are_code [NatCast α] (c : PSConst α) (s : PSState α) (ws fill fset : Nat → α) (d3 : Nat → Nat → Nat → α) :
    (psOuter c s).data = ((List.range (c.nb * c.n * c.n)).map fun i =>
      Gen.PS.createValue d3 (fun k b x => (if k = 0 then s.proj0 else s.proj1).getD (b * c.n + x) zero) ws fill fset
        (i / (c.n * c.n)) (i / c.n % c.n) (i % c.n)).toArray := rfl

/-- tail of the constructor (data given, or just created): the generated call list, in order -/
theorem ctor_tail_is_code [NatCast α] (c : PSConst α) (s : PSState α) :
    psIntegrate c (psYProj c (psXProj c s)) = Gen.PS.ctorRefreshes.foldl (fun s f => psCall c f s) s := by
  simp [Gen.PS.ctorRefreshes, psCall]

end rfl_ties

/-! ### Simpson weights: the loop with the alternating `dc` is the parity formula of the hand model -/
section simpson
variable {α : Type} [Field α]

/-- the vector that `simpsonWeights()` returns, read off the generated statements: `rv[first] = …`, then the loop
    `for x in [lo, hi): rv[x] = mid(dc); dc = next(dc)`, then `rv[last] = …` (later writes win) -/
def simpsonOfCode (nx : Nat) (delta0 : α) (x : Nat) : α :=
  let h03 : α := Gen.PS.simpsonH03 delta0
  let ca : α := Gen.PS.simpsonCa
  let dcAt : Nat → α := fun k => (Gen.PS.simpsonDcNext h03 ca)^[k] Gen.PS.simpsonDc0
  if x = Gen.PS.simpsonLastIdx nx then Gen.PS.simpsonLast h03 ca (dcAt (Gen.PS.simpsonLoopHi nx - Gen.PS.simpsonLoopLo nx))
  else if Gen.PS.simpsonLoopLo nx ≤ x ∧ x < Gen.PS.simpsonLoopHi nx then
    Gen.PS.simpsonMid h03 ca (dcAt (x - Gen.PS.simpsonLoopLo nx))
  else if x = Gen.PS.simpsonFirstIdx nx then Gen.PS.simpsonFirst h03 ca Gen.PS.simpsonDc0
  else 0

theorem dc_iterate (h03 ca : α) (k : Nat) :
    (Gen.PS.simpsonDcNext h03 ca)^[k] (Gen.PS.simpsonDc0 : α) = if k % 2 = 0 then 1 else -1 := by
  induction k with
  | zero => simp [Gen.PS.simpsonDc0]
  | succ k ih =>
    rw [Function.iterate_succ_apply', ih]
    unfold Gen.PS.simpsonDcNext
    rcases Nat.mod_two_eq_zero_or_one k with h | h <;> simp [h, Nat.add_mod]

/-- for every grid of at least two cells and every cell `x < nx`, the generated loop writes the value of the
    hand model: `h/3·(1, 4, 2, 4, …, 1)` -/
theorem simpson_is_code (nx : Nat) (hn : 2 ≤ nx) (delta0 : α) (x : Nat) (hx : x < nx) :
    simpsonWeight nx delta0 x = simpsonOfCode nx delta0 x := by
  unfold simpsonWeight simpsonOfCode
  simp only [Gen.PS.simpsonLastIdx, Gen.PS.simpsonLoopLo, Gen.PS.simpsonLoopHi, Gen.PS.simpsonFirstIdx,
    Gen.PS.simpsonLast, Gen.PS.simpsonFirst, Gen.PS.simpsonMid, Gen.PS.simpsonH03, Gen.PS.simpsonCa, dc_iterate]
  by_cases h1 : x = nx - 1
  · have : x = 0 ∨ x + 1 = nx := Or.inr (by omega)
    simp [h1, this]
    intro h; omega
  · by_cases h0 : x = 0
    · have : ¬ (1 ≤ x ∧ x < nx - 1) := by omega
      simp [h0]
    · have hm : 1 ≤ x ∧ x < nx - 1 := by omega
      have hno : ¬ (x = 0 ∨ x + 1 = nx) := by omega
      simp only [if_neg h1, if_pos hm, if_neg hno]
      rcases Nat.mod_two_eq_zero_or_one x with h | h
      · have : (x - 1) % 2 = 1 := by omega
        simp [h, this]
      · have : (x - 1) % 2 = 0 := by omega
        simp [h, this]

end simpson

/-! ### every element the loops touch lies inside its array, for every square grid (`setSize`) -/
section bounds

def within (idx ext : List Nat) : Prop := List.Forall₂ (· < ·) idx ext

theorem xproj_in_bounds (nb x0 n x k : Nat) (hn : n < Gen.PS.setSizeNb x0 nb) (hx : x < Gen.PS.setSizeNx x0 nb)
    (hk : k < Gen.PS.setSizeNy x0 nb) :
    within (Gen.PS.xprojTargetIdx n x)
        (Gen.PS.projectionExtents (Gen.PS.setSizeNb x0 nb) (Gen.PS.setSizeNx x0 nb) (Gen.PS.setSizeNy x0 nb))
    ∧ within (Gen.PS.xprojReads n x k).1
        (Gen.PS.dataExtents (Gen.PS.setSizeNb x0 nb) (Gen.PS.setSizeNx x0 nb) (Gen.PS.setSizeNy x0 nb))
    ∧ within (Gen.PS.xprojReads n x k).2 [Gen.PS.setSizeNx x0 nb] := by
  simp only [Gen.PS.setSizeNb, Gen.PS.setSizeNx, Gen.PS.setSizeNy] at *
  refine ⟨?_, ?_, ?_⟩ <;>
    simp [within, Gen.PS.xprojTargetIdx, Gen.PS.projectionExtents, Gen.PS.xprojReads, Gen.PS.dataExtents, *]

/-- the energy projection is stored in a row of length `nx` but indexed by `y < ny`: in bounds because `setSize`
    makes the grid square -/
theorem yproj_in_bounds (nb x0 n y : Nat) (hn : n < Gen.PS.setSizeNb x0 nb) (hy : y < Gen.PS.setSizeNy x0 nb) :
    within (Gen.PS.yprojTargetIdx n y)
        (Gen.PS.projectionExtents (Gen.PS.setSizeNb x0 nb) (Gen.PS.setSizeNx x0 nb) (Gen.PS.setSizeNy x0 nb)) := by
  simp only [Gen.PS.setSizeNb, Gen.PS.setSizeNx, Gen.PS.setSizeNy] at *
  simp [within, Gen.PS.yprojTargetIdx, Gen.PS.projectionExtents, *]

end bounds

/-- non-vacuity: the weights of a five-cell grid of cell size 3 are 1, 4, 2, 4, 1 -/
example : (List.range 5).map (simpsonWeight 5 (3 : Rat)) = [1, 4, 2, 4, 1] := by decide +kernel

end Inovesa.Props.TiePS
