/-
  C07 — CSR power equals the energy the wake takes from the beam and is never negative.
-/
import InovesaModel.Lemmas.EF
import InovesaModel.Props.C18
namespace Inovesa.Props.C07
open Inovesa Inovesa.Props.C18

section sign
variable {α : Type} [Field α] [LinearOrder α] [IsStrictOrderedRing α]

/-- For a passive impedance (Re Z ≥ 0) and non-negative frequency factor, every entry of
    the spectrum of every bunch is non-negative — for ANY forward transform. -/
theorem spectrum_nonneg (c : EFConst α) (t : Transforms α) (prof : Nat → Nat → α) (s : EFState α)
    (hz : ∀ i, 0 ≤ (c.z i).1) (hr : ∀ i, 0 ≤ c.renorm i) (b : Nat) (hb : b < c.nb) (i : Nat) :
    0 ≤ (efCSR c t prof s).spec b i := by
  rw [efCSR_spec c t prof s b hb]
  exact csrSpec_nonneg c t prof s.ff hz hr b i

/-- … and so is the integrated power -/
theorem power_nonneg (c : EFConst α) (t : Transforms α) (prof : Nat → Nat → α) (s : EFState α)
    (hz : ∀ i, 0 ≤ (c.z i).1) (hr : ∀ i, 0 ≤ c.renorm i) (hd : 0 ≤ c.dfreq)
    (b : Nat) (hb : b < c.nb) :
    0 ≤ (efCSR c t prof s).pow b := by
  rw [efCSR_pow c t prof s b hb]
  exact csrPow_nonneg c t prof s.ff hz hr hd b

/-- a cutoff factor `0 ≤ f_i ≤ 1` per frequency makes the power smaller, never negative -/
theorem cutoff_le (c : EFConst α) (t : Transforms α) (prof : Nat → Nat → α) (s : EFState α)
    (f : Nat → α) (hf0 : ∀ i, 0 ≤ f i) (hf1 : ∀ i, f i ≤ 1)
    (hz : ∀ i, 0 ≤ (c.z i).1) (hr : ∀ i, 0 ≤ c.renorm i) (hd : 0 ≤ c.dfreq)
    (b : Nat) (hb : b < c.nb) :
    (efCSR { c with renorm := fun i => c.renorm i * f i } t prof s).pow b
      ≤ (efCSR c t prof s).pow b ∧
    0 ≤ (efCSR { c with renorm := fun i => c.renorm i * f i } t prof s).pow b := by
  rw [efCSR_pow { c with renorm := fun i => c.renorm i * f i } t prof s b hb,
    efCSR_pow c t prof s b hb]
  exact ⟨csrPow_cutoff_le c t prof s.ff f hf1 hz hr hd b,
    csrPow_nonneg { c with renorm := fun i => c.renorm i * f i } t prof s.ff hz
      (fun i => mul_nonneg (hr i) (hf0 i)) hd b⟩

end sign

section parseval
variable {α : Type} [Field α] [CharZero α]

/-- form factor of a (padded) profile -/
def F (nmax : Nat) (tw : Nat → Cx α) (rho : Nat → α) (k : Nat) : Cx α := dftNaive nmax tw rho k

/-- Parseval pairing: one half of `Σ_x ρ_x·W_x` with `W` the unscaled wake of the same
    profile and impedance equals `½·Re Z₀·|F₀|² + Σ_{0<k<N/2, k ≤ (N-1)/2} Re Z_k·|F_k|²`.
    Needs only `tw 0 = 1`. -/
theorem parseval_pairing (nmax : Nat) (tw : Nat → Cx α) (z : Nat → Cx α) (rho : Nat → α)
    (htw0 : tw 0 = ((1 : α), (0 : α))) (hN : 2 ≤ nmax) :
    (1 / 2 : α) * ((List.range nmax).map fun x => rho x *
        c2rNaive nmax tw 2
          (fun k => if k < nmax / 2 then Cx.mul (z k) (F nmax tw rho k) else ((0 : α), (0 : α))) x).sum
      = (1 / 2 : α) * (z 0).1 * Cx.norm (F nmax tw rho 0)
        + ((List.range ((nmax + 1) / 2 - 1)).map fun k' =>
            (if k' + 1 < nmax / 2 then (z (k' + 1)).1 * Cx.norm (F nmax tw rho (k' + 1)) else 0)).sum := by
  rw [ef_list_range_sum, ef_list_range_sum]
  exact parseval_finsum nmax tw z rho htw0 hN

/-- The CSR power of a single bunch at offset 0 (no cutoff, `renorm` constant `r`) is
    `δf·r·Σ_{i<N} Re Z_i·|F_i|²` from a reachable state (only `i ≤ N/2` can contribute). -/
theorem csr_sum (c : EFConst α) (tw : Nat → Cx α) (prof : Nat → Nat → α) (s : EFState α)
    (h : Inv c s) (r : α) (hr : ∀ i, c.renorm i = r) (hnb : c.nb = 1) :
    (efCSR c (naiveTransforms c.nmax tw 2) prof s).pow 0
      = c.dfreq * r * ((List.range (c.nmax / 2 + 1)).map fun i =>
          (if i < c.nmax then (c.z i).1 * Cx.norm (F c.nmax tw (fun x => if x < c.n then prof 0 x else 0) i)
           else 0)).sum := by
  have hb : 0 < c.nb := by omega
  rw [efCSR_pow c _ prof s 0 hb]
  exact csrPow_naive_sum c tw 2 prof s.ff h.1 r hr 0

end parseval

/-- non-vacuity: a passive impedance and non-negative factors exist -/
example : ∃ z : Nat → Cx ℚ, ∀ i, 0 ≤ (z i).1 := ⟨fun _ => (1, -1), fun _ => by norm_num⟩

end Inovesa.Props.C07
