/-
  C01 (damping/diffusion part) — column sums of the Fokker–Planck operator.
  The operator is the *generated* stencil table (Gen/FPStencil.lean, from the
  FokkerPlanckMap constructor) assembled by Model/FokkerPlanck.lean.
  Energy coordinate of row j: `p j = pmin + j·δ` (Ruler), δ ≠ 0.
-/
import InovesaModel.Lemmas.FP
namespace Inovesa.Props.C01FP
open Inovesa Inovesa.Gen

variable {α : Type} [Field α] [CharZero α]

/-- FPType values of the code: 0 none, 1 damping only, 2 diffusion only, 3 full -/
def ValidFPType (t : Nat) : Prop := t = 0 ∨ t = 1 ∨ t = 2 ∨ t = 3

/-- weight with which source cell `s` enters destination row `y` (sum over the entries of
    the row that point to `s`) -/
def entry (rowAt : Nat → List (Hi α)) (y s : Nat) : α :=
  (((rowAt y).filter fun h => h.1 = s).map fun h => h.2).sum

/-- column moment `Σ_y g(y)·A[y][s]` of the operator (g = 1: column sum) -/
def colMoment (n : Nat) (rowAt : Nat → List (Hi α)) (g : Nat → α) (s : Nat) : α :=
  ((List.range n).map fun y => g y * entry rowAt y s).sum

/-- one line of `FokkerPlanckMap::apply` -/
def fpLine (n : Nat) (rowAt : Nat → List (Hi α)) (rd : Nat → α) : List α :=
  (List.range n).map fun y => fpCell (rowAt y) rd

/-- Transport identity (any table whose indices stay inside the line, any data, any
    weight function g):  `Σ_y g(y)·out[y] = Σ_s in[s]·colMoment g s`. -/
theorem fp_transport (n : Nat) (rowAt : Nat → List (Hi α)) (rd g : Nat → α)
    (hidx : ∀ y, y < n → ∀ h ∈ rowAt y, h.1 < n) :
    ((List.range n).map fun y => g y * fpCell (rowAt y) rd).sum
      = ((List.range n).map fun s => rd s * colMoment n rowAt g s).sum := by
  exact transport n rowAt rd g hidx

/-- all indices written by the constructor are inside the line (needed by `apply`, which
    has no bounds test), for the 3-point stencil and `n ≥ 3` -/
theorem fp3_indices_in_range (fptype n jc : Nat) (ltyc : Nat → Bool) (hn : 3 ≤ n) (hn' : n < 2 ^ 31)
    (e1 delta : α) (p : Nat → α) (y : Nat) (hy : y < n) :
    ∀ h ∈ fpRowAt 3 fptype n jc ltyc e1 delta p y, h.1 < n := by
  rcases valid_or_ge fptype with hft | hft
  · exact fp3_indices fptype n jc ltyc hft hn hn' e1 delta p y hy
  · rw [fpRowAt_invalid 3 fptype n jc ltyc hft]; simp

/-- same for the 4-point stencil, `n ≥ 4`, provided the split row `jc = trunc(ycenter)`
    is at least 1.  (For `jc = 0` the second loop of the constructor starts at row 0 and
    writes the index `j-1 = 2^32-1` there *after* the row was zeroed: `apply` then reads out
    of bounds — this is the C17 finding for grids whose zero-energy bin is below row 1.) -/
theorem fp4_indices_in_range (fptype n jc : Nat) (ltyc : Nat → Bool) (hn : 4 ≤ n) (hn' : n < 2 ^ 31)
    (hjc : 1 ≤ jc) (hsplit : ∀ j, j < jc → ltyc j = true)
    (e1 delta : α) (p : Nat → α) (y : Nat) (hy : y < n) :
    ∀ h ∈ fpRowAt 4 fptype n jc ltyc e1 delta p y, h.1 < n := by
  rcases valid_or_ge fptype with hft | hft
  · exact fp4_indices fptype n jc ltyc hft hn hn' hjc hsplit e1 delta p y hy
  · rw [fpRowAt_invalid 4 fptype n jc ltyc hft]; simp

/-- 3-point stencil: every interior column (2 ≤ s ≤ n−3) sums to one, for all four
    Fokker–Planck variants, every damping decrement, cell size and grid position. -/
theorem fp3_colsum_one (fptype n jc : Nat) (ltyc : Nat → Bool) (hft : ValidFPType fptype)
    (hn' : n < 2 ^ 31) (e1 delta pmin : α) (hd : delta ≠ 0) (s : Nat) (hs : 2 ≤ s) (hs' : s + 3 ≤ n) :
    colMoment n (fpRowAt 3 fptype n jc ltyc e1 delta (fun j => pmin + (j : α) * delta))
      (fun _ => 1) s = 1 := by
  obtain ⟨t, rfl⟩ : ∃ t, s = t + 2 := ⟨s - 2, by omega⟩
  refine (colMoment3 fptype n jc ltyc hft hn' e1 delta _ _ t (by omega)).trans ?_
  rcases hft with rfl | rfl | rfl | rfl <;> simp [w3] <;> field_simp <;> ring

/-- 4-point stencil: columns at least two rows away from the row where the one-sided
    stencil switches sides (`jc`) and from the zeroed border rows sum to one. -/
theorem fp4_colsum_one (fptype n jc : Nat) (ltyc : Nat → Bool) (hft : ValidFPType fptype)
    (hn' : n < 2 ^ 31) (hsplit : ∀ j, j < jc → ltyc j = true)
    (e1 delta pmin : α) (hd : delta ≠ 0) (s : Nat)
    (hs : (3 ≤ s ∧ s + 2 < jc ∧ s + 5 ≤ n) ∨ (jc + 2 ≤ s ∧ 4 ≤ s ∧ s + 4 ≤ n)) :
    colMoment n (fpRowAt 4 fptype n jc ltyc e1 delta (fun j => pmin + (j : α) * delta))
      (fun _ => 1) s = 1 := by
  rcases hs with ⟨h1, h2, h3⟩ | ⟨h1, h2, h3⟩
  · obtain ⟨t, rfl⟩ : ∃ t, s = t + 3 := ⟨s - 3, by omega⟩
    refine (colMoment4_lo fptype n jc ltyc hft hn' hsplit e1 delta _ _ t (by omega)
      (by omega)).trans ?_
    rcases hft with rfl | rfl | rfl | rfl <;> simp [w4lo] <;> field_simp <;> ring
  · obtain ⟨t, rfl⟩ : ∃ t, s = t + 4 := ⟨s - 4, by omega⟩
    refine (colMoment4_hi fptype n jc ltyc hft hn' hsplit e1 delta _ _ t (by omega)
      (by omega)).trans ?_
    rcases hft with rfl | rfl | rfl | rfl <;> simp [w4hi] <;> field_simp <;> ring

/-- 4-point stencil, the columns next to the switch row: the column-sum defect is
    proportional to the damping decrement `e1` (and vanishes for the variants without
    damping).  `κ` is an explicit function of the column; here only its existence and the
    factorisation are claimed. -/
theorem fp4_colsum_defect (fptype n jc : Nat) (ltyc : Nat → Bool) (hft : ValidFPType fptype)
    (hn' : n < 2 ^ 31) (hsplit : ∀ j, j < jc → ltyc j = true) (hjc : 4 ≤ jc) (hjc' : jc + 5 ≤ n)
    (delta pmin : α) (hd : delta ≠ 0) (s : Nat) (hs : jc ≤ s + 2) (hs' : s < jc + 2) :
    ∃ κ : α, ∀ e1 : α,
      colMoment n (fpRowAt 4 fptype n jc ltyc e1 delta (fun j => pmin + (j : α) * delta))
        (fun _ => 1) s - 1 = e1 * κ := by
  exact colsum4_defect fptype n jc ltyc hft (by omega) hn' hsplit delta _ s (by omega) (by omega)

/-- Charge conservation of one line, 3-point stencil: data supported on 2 ≤ s ≤ n−3. -/
theorem fp3_line_conserves (fptype n jc : Nat) (ltyc : Nat → Bool) (hft : ValidFPType fptype)
    (hn : 3 ≤ n) (hn' : n < 2 ^ 31) (e1 delta pmin : α) (hd : delta ≠ 0) (rd : Nat → α)
    (hsupp : ∀ s, s < n → rd s ≠ 0 → 2 ≤ s ∧ s + 3 ≤ n) :
    (fpLine n (fpRowAt 3 fptype n jc ltyc e1 delta (fun j => pmin + (j : α) * delta)) rd).sum
      = ((List.range n).map rd).sum := by
  refine line_conserves n _ rd
    (fun y hy => fp3_indices_in_range fptype n jc ltyc hn hn' e1 delta _ y hy) ?_
  intro s hs h0
  obtain ⟨h2, h3⟩ := hsupp s hs h0
  exact fp3_colsum_one fptype n jc ltyc hft hn' e1 delta pmin hd s h2 h3

/-- Charge conservation of one line, 4-point stencil: data supported away from the border rows
    and from the switch row; split row `jc = trunc(ycenter) ≥ 1` (for `jc = 0` the table holds an
    out-of-range index, see `fp4_jc0_reads_outside`). -/
theorem fp4_line_conserves (fptype n jc : Nat) (ltyc : Nat → Bool)
    (hft : ValidFPType fptype)
    (hn : 4 ≤ n) (hn' : n < 2 ^ 31) (hjc : 1 ≤ jc) (hsplit : ∀ j, j < jc → ltyc j = true)
    (e1 delta pmin : α) (hd : delta ≠ 0) (rd : Nat → α)
    (hsupp : ∀ s, s < n → rd s ≠ 0 →
      (3 ≤ s ∧ s + 2 < jc ∧ s + 5 ≤ n) ∨ (jc + 2 ≤ s ∧ 4 ≤ s ∧ s + 4 ≤ n)) :
    (fpLine n (fpRowAt 4 fptype n jc ltyc e1 delta (fun j => pmin + (j : α) * delta)) rd).sum
      = ((List.range n).map rd).sum := by
  refine line_conserves n _ rd
    (fun y hy => fp4_indices_in_range fptype n jc ltyc hn hn' hjc hsplit e1 delta _ y hy) ?_
  intro s hs h0
  exact fp4_colsum_one fptype n jc ltyc hft hn' hsplit e1 delta pmin hd s (hsupp s hs h0)

/-- without `1 ≤ jc` the statement fails: for `jc = 0` (zero-energy bin below row 1) row 0 of the
    table addresses cell `2^32-1`, so `apply` reads outside the line (instance: n = 8, diffusion
    only, e1 = δ = 1, pmin = 0), in every field.  This is the model-level witness of the C17
    finding `fp-cubic-ycenter-below-1`. -/
theorem fp4_jc0_reads_outside (α : Type) [Field α] [CharZero α] :
    ¬ (∀ rd : ℕ → α,
        (∀ s, s < 8 → rd s ≠ 0 →
          (3 ≤ s ∧ s + 2 < 0 ∧ s + 5 ≤ 8) ∨ (0 + 2 ≤ s ∧ 4 ≤ s ∧ s + 4 ≤ 8)) →
        (fpLine 8 (fpRowAt 4 2 8 0 (fun _ => false) (1 : α) 1 (fun j => 0 + (j : α) * 1)) rd).sum
          = ((List.range 8).map rd).sum) := by
  intro h
  obtain ⟨rd, hr, hsum⟩ := fp4_jc0_leak (α := α)
  have key := h rd (fun s hs h0 => absurd (hr s hs) h0)
  have rhs : ((List.range 8).map rd).sum = 0 := by
    rw [list_range_sum]
    exact Finset.sum_eq_zero fun s hs => hr s (Finset.mem_range.mp hs)
  rw [rhs] at key
  exact one_ne_zero (hsum.symm.trans key)

/-- non-vacuity of the support hypotheses -/
example : (∀ s, s < 16 → (if s = 8 then (1 : ℚ) else 0) ≠ 0 → 2 ≤ s ∧ s + 3 ≤ 16) := by
  intro s _ h; by_cases hs : s = 8 <;> simp_all

end Inovesa.Props.C01FP
