/-
  Tie theorems (ElectricField: placement of profiles, read-back of the wake, point-wise formulas): hand-written model definitions proved EQUAL to definitions regenerated from the C++ source on
  every run (Gen/*.lean).  The hand definitions are what the lemmas and property theorems unfold; the generated ones are
  what the code says now.  A change of the source expression makes the proof fail, and every check that lists this
  module reports its property as no longer shown (and searches for a failing input).  One module per translator
  fragment, so that a fragment that cannot be translated any more only affects the properties that depend on it.
-/
import InovesaModel.Model.ElectricField
import InovesaModel.Gen.EFIndex
namespace Inovesa.Props.TieEF
open Inovesa

variable {α : Type} [Arith α] [NatCast α]

/-! ### `ElectricField`: where profiles are placed, where the wake is read, point-wise formulas -/

/-- `wakePotential()`: the wake of bunch `b` at cell `x` is the wake scaling times the padded wake at the
    GENERATED index `bucket[b]*spacing + x` -/
theorem ef_wake_read_is_code (c : EFConst α) (t : Transforms α) (prof : Nat → Nat → α) (s : EFState α) (b x : Nat) :
    (efWake c t prof s).wake b x
      = c.wakescaling * (efWake c t prof s).wp (Gen.efWakeRead (c.bucket b) c.spacing x) := rfl

/-- the impedance enters for `k < nmax/2` only (bound of the loss loop), all bunches and cells are read back -/
theorem ef_wake_loops_are_code (nmax nb nx : Nat) :
    Gen.efLossBound nmax = nmax / 2 ∧ Gen.efWakeLoops nb nx = [nb, nx] := ⟨rfl, rfl⟩

/-- `padBunchProfiles()`: bunch `b` (cells `b*nx … b*nx+nx-1` of the projection) goes to the window starting at
    `bucket[b]*spacing` — the `o` of the model's `padProfiles` — after the whole buffer was cleared -/
theorem ef_pad_is_code (c : EFConst α) (b : Nat) :
    Gen.efPadDest (c.bucket b) c.spacing = c.bucket b * c.spacing ∧ Gen.efPadCount c.n = c.n ∧
    Gen.efPadSrc b c.n = b * c.n ∧ Gen.efPadLoops c.nb = [c.nb] := ⟨rfl, rfl, rfl, rfl⟩

/-- `updateCSR()`: spectrum `renorm·Re Z·|F|²` of the bunch just transformed -/
theorem ef_spectrum_is_code (c : EFConst α) (t : Transforms α) (prof : Nat → Nat → α) (s : EFState α) (b i : Nat) :
    (efCSRBunch c t prof s b).spec b i
      = Gen.efSpectrum (c.renorm i) (c.z i).1 (Cx.norm ((efCSRBunch c t prof s b).ff i)) := by
  simp [efCSRBunch, Gen.efSpectrum]

/-- … summed with the frequency step over all `nmax` samples; one profile of `n` cells at the buffer start -/
theorem ef_csr_loops_are_code (c : EFConst α) (df sp : α) :
    Gen.efCSRLoops c.nmax = [c.nmax] ∧ Gen.efCSRCount c.n = c.n ∧ Gen.efPowerTerm df sp = df * sp := ⟨rfl, rfl, rfl⟩


/-- buffer plumbing of the two transforms: the forward transform reads the padded profile and writes the form factor,
    the backward transform reads the loss spectrum and writes the padded wake; all four buffers have the transform
    length (the model's `efWake`: pad → r2c → losses on `[0, nmax/2)` → c2r → scale) -/
theorem ef_transforms_are_code :
    Gen.efTransforms = [("_fft_bunchprofile", "_nmax", "_bp_padded", "_formfactor"),
                        ("_fft_wakelosses", "_nmax", "_wakelosses", "_wakepotential_padded")]
    ∧ Gen.efBuffers = [("_bp_padded_fft", "real", "_nmax"), ("_formfactor_fft", "complex", "_nmax"),
                       ("_wakelosses_fft", "complex", "_nmax"), ("_wakepotential_padded", "real", "_nmax")] := ⟨rfl, rfl⟩

/-- `wakePotential()` pads the CURRENT profiles first, transforms forward, multiplies, transforms backward, scales -/
theorem ef_wake_sequence_is_code :
    Gen.efWakeSequence = ["padBunchProfiles", "execute", "losses", "execute", "scale", "return"]
    ∧ Gen.efWakeExecutes = ["_fft_bunchprofile", "_fft_wakelosses"] := ⟨rfl, rfl⟩

/-- `updateCSR()` clears the shared buffer and copies the bunch's profile before every transform (history
    independence, C18), and starts the power of every bunch at zero -/
theorem ef_csr_sequence_is_code :
    Gen.efCSRSequence = ["bunch-loop", "clear", "copy", "execute", "zero-power", "spectrum-loop", "return"] := rfl

/-- `padBunchProfiles()` clears the whole buffer before it copies the bunches -/
theorem ef_pad_sequence_is_code : Gen.efPadSequence = ["clear", "bunch-loop", "copy"] := rfl

end Inovesa.Props.TieEF
