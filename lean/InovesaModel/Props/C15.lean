/-
  C15 — tracked particles follow the flow of the distribution and never leave the grid.
-/
import InovesaModel.Lemmas.Orbit
import InovesaModel.Props.C03
namespace Inovesa.Props.C15
open Inovesa Inovesa.Gen Inovesa.Props.C02

section clamp
variable {α : Type} [Field α] [LinearOrder α] [IsStrictOrderedRing α]

/-- `std::max(1, std::min(x, n-1))` as the code writes it -/
instance : MinMax α := ⟨fun a b => if b < a then b else a, fun a b => if a < b then b else a⟩

/-- After `KickMap::applyTo` the coordinate along the kick lies in `[1, n−1]`, whatever the
    position, the displacement field and the perpendicular coordinate (n ≥ 2). -/
theorem kick_clamps (n : Nat) (hn : 2 ≤ n) (off : Nat → α) (p : α) (i : Nat) (fr : α) :
    (1 : α) ≤ applyToCoord n off p i fr ∧ applyToCoord n off p i fr ≤ ((n - 1 : Nat) : α) := by
  unfold applyToCoord
  simpa [MinMax.max, MinMax.min] using clamp_ite _ _ (one_le_cast_pred (α := α) n hn)

/-- generic clamp used by all Fokker–Planck tracking models (after the fix also by the
    stochastic one): the result is in `[1, n−1]` -/
theorem clamp_bounds (n : Nat) (hn : 2 ≤ n) (x : α) :
    (1 : α) ≤ MinMax.max (1 : α) (MinMax.min x (((n - 1 : Nat) : α))) ∧
    MinMax.max (1 : α) (MinMax.min x (((n - 1 : Nat) : α))) ≤ ((n - 1 : Nat) : α) := by
  simpa [MinMax.max, MinMax.min] using clamp_ite x _ (one_le_cast_pred (α := α) n hn)

/-- a coordinate in `[1, n−1]` truncates to an index `< n`: the array look-ups of
    `appendTracks` and of the next kick are defined -/
theorem lookup_defined (n : Nat) (hn : 2 ≤ n) (x : α) (h1 : 1 ≤ x) (h2 : x ≤ ((n - 1 : Nat) : α))
    (k : Nat) (hk : (k : α) ≤ x) : k < n := by
  have h : (k : α) ≤ ((n - 1 : Nat) : α) := le_trans hk h2
  have := Nat.cast_le.mp h
  omega

/-- when the clamp is not active the particle moves by minus the linearly interpolated
    displacement -/
theorem applyTo_moves (n : Nat) (off : Nat → α) (p : α) (i : Nat) (fr : α) (hi : i + 1 < n)
    (hlo : 1 ≤ p - ((1 - fr) * off i + fr * off (i + 1)))
    (hhi : p - ((1 - fr) * off i + fr * off (i + 1)) ≤ ((n - 1 : Nat) : α)) :
    applyToCoord n off p i fr = p - ((1 - fr) * off i + fr * off (i + 1)) := by
  unfold applyToCoord
  simp only [lit_field, if_pos hi, MinMax.max, MinMax.min]
  simp only [Int.cast_one, Nat.cast_one, div_one]
  exact clamp_ite_id _ _ hlo hhi

end clamp

section blob
variable {α : Type} [Field α] [CharZero α]

/-- PARTICLE = BLOB.  A bilinear blob of unit charge around the particle occupies the lines `i`
    (weight `1−fr`) and `i+1` (weight `fr`) of the perpendicular direction.  If each of the two
    lines is transported exactly (`kick_line_first_moment`), the centroid of the blob along the
    kick moves from `c` to `c − ((1−fr)·d_i + fr·d_{i+1})` where `d_r` is the displacement of
    line `r` — the same expression `applyTo` uses for the particle. -/
theorem blob_centroid (fr c0 c1 d0 d1 m0 m1 : α)
    (h0 : m0 = (1 - fr) * (c0 - d0)) (h1 : m1 = fr * (c1 - d1)) (hc : c0 = c1) :
    m0 + m1 = c0 - ((1 - fr) * d0 + fr * d1) := by
  rw [h0, h1, hc]; ring

end blob

section stochastic
variable {α : Type} [Field α]

/-- ensemble mean under `y' = y − e1·(y − yc) + ξ` with `E ξ = 0`: `m' − yc = (1−e1)(m − yc)`,
    so a mean at `yc` stays there and any other mean relaxes to it -/
theorem stochastic_mean (e1 yc m : α) : (m - e1 * (m - yc) + 0) - yc = (1 - e1) * (m - yc) := by
  ring

/-- ensemble variance: `v' = (1−e1)²·v + s2` (noise independent of the position, variance s2);
    with `s2 = 2·e1/δ²` the stationary value is `1/(δ²·(1 − e1/2))`: the unit natural width up
    to O(e1) -/
theorem stochastic_variance_fixed_point (e1 delta : α) (he : e1 ≠ 0) (he2 : e1 ≠ 2)
    (hd : delta ≠ 0) (h2 : (2 : α) ≠ 0) :
    let vstar := 1 / (delta ^ 2 * (1 - e1 / 2))
    (1 - e1) ^ 2 * vstar + 2 * e1 / delta ^ 2 = vstar := by
  intro vstar
  exact variance_fixed_point' e1 delta he2 hd h2

/-- the hypothesis `2 ≠ 0` cannot be dropped (characteristic 2) -/
theorem stochastic_variance_needs_two_ne_zero : ¬ VarianceFixedPointAnyField :=
  varianceFixedPointAnyField_false

/-- the recurrence the code had before the fix, `y' = y − e1·y + ξ`, drives the mean to row 0
    instead: `m_k = (1−e1)^k·m_0` -/
theorem old_recurrence_mean (e1 m0 : α) (k : Nat) :
    (Nat.rec m0 (fun _ m => m - e1 * m) k : α) = (1 - e1) ^ k * m0 := by
  induction k with
  | zero => simp
  | succ k ih => simp only [ih]; ring

end stochastic

end Inovesa.Props.C15
