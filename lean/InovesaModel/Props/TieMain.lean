/-
  Tie theorems for the time-step family of main() (Gen/StepParams.lean, regenerated from src/main.cpp on every
  run): every quantity that depends on the number of steps per synchrotron period is derived from ONE `steps`.
-/
import InovesaModel.Gen.StepParams
import InovesaModel.Lemmas.Field
import Mathlib.Tactic.FieldSimp
import Mathlib.Tactic.NormNum
namespace Inovesa.Props.TieMain
open Inovesa

variable {β : Type} [Field β]

/-- However the number of steps per synchrotron period is given, the time step, the rotation angle, the
    revolution fraction, the damping decrement and the RF-modulation increment that main() derives belong to
    the same `steps`: `dt·f_s·steps = 1`, `angle·steps = 2π`, `revolutionpart = f_rev·dt`,
    `e1·f_s·t_damp·steps = 2`, `rf_mod_step = f_mod·dt` -/
theorem step_family_is_consistent (fs steps tDamp fRev modFreq twoPi : β)
    (h1 : fs ≠ 0) (h2 : steps ≠ 0) (h3 : tDamp ≠ 0) :
    Gen.pDt fs steps * (fs * steps) = 1 ∧
    Gen.pAngle twoPi steps * steps = twoPi ∧
    Gen.pRevolutionpart fRev (Gen.pDt fs steps) = fRev * Gen.pDt fs steps ∧
    Gen.pE1 true fs tDamp steps * (fs * tDamp * steps) = 2 ∧
    Gen.pE1 false fs tDamp steps = 0 ∧
    Gen.pRfModStep modFreq (Gen.pDt fs steps) = modFreq * Gen.pDt fs steps := by
  refine ⟨?_, ?_, rfl, ?_, ?_, rfl⟩
  · simp only [Gen.pDt, lit_field]; field_simp; norm_num
  · simp only [Gen.pAngle]; field_simp
  · simp only [Gen.pE1, lit_field, if_true]; field_simp; norm_num
  · simp [Gen.pE1]

/-- `StepsPerRevolution > 0` "overwrites StepsPerTs": then `steps·f_s = StepsPerRevolution·f_rev`, i.e. the same
    number of steps per REVOLUTION whatever `StepsPerTs` says; otherwise `steps = max(StepsPerTs, 1)` -/
theorem steps_choice_is_code (spTrev spTsync1 fRev fs : β) (h1 : fs ≠ 0) :
    Gen.pSteps true spTrev spTsync1 fRev fs * fs = spTrev * fRev ∧
    Gen.pSteps false spTrev spTsync1 fRev fs = spTsync1 := by
  refine ⟨?_, by simp [Gen.pSteps]⟩
  simp only [Gen.pSteps, if_true]; field_simp

/-- a set damping time ≥ 0 is used as it is, a negative one means "computed from the ring parameters" -/
theorem damping_time_choice_is_code (setDamp calcDamp : β) :
    Gen.pTDamp true setDamp calcDamp = calcDamp ∧ Gen.pTDamp false setDamp calcDamp = setDamp := by
  simp [Gen.pTDamp]

/-- non-vacuity: 200 steps per period at f_s = 8 kHz, damping time 1 ms: e1 = 2/1600 -/
example {γ : Type} [Field γ] [CharZero γ] : Gen.pE1 true (8000 : γ) (1 / 1000) 200 = 1 / 800 := by
  simp only [Gen.pE1, lit_field, if_true]; norm_num

end Inovesa.Props.TieMain
