/-
  C10 — each record of the results file describes one instant, consistently
  (schedule, lengths, freshness of what is appended).  Unit factors and dataset layouts are
  treated by the file-level oracle of the check; this file is the state-machine part.
-/
import InovesaModel.Lemmas.Main
import InovesaModel.Props.C14
namespace Inovesa.Props.C10
open Inovesa Inovesa.Gen Inovesa.Props.C14

variable {V : Type}

/-- all time-indexed datasets have as many records as the time axis -/
def FileInv (c : MCfg) (f : MFile V) : Prop :=
  f.csr.length = f.recs.length ∧ f.tracks.length = f.recs.length ∧
  (c.hasWake = true → f.wake.length = f.recs.length) ∧ (c.hasWake = false → f.wake = [])

theorem lengths_equal (sem : Sem V) (c : MCfg) (k : Nat) (s0 : MState V)
    (h0 : s0.file.recs = [] ∧ s0.file.csr = [] ∧ s0.file.tracks = [] ∧ s0.file.wake = []) :
    FileInv c (runFor sem c k s0).file := by
  exact runFor_fileLen sem c k s0 h0

/-- the time axis lists exactly the output steps (every outstep-th step from 0) and the final step -/
theorem time_axis (sem : Sem V) (c : MCfg) (hf : c.hasFile = true) (k : Nat) (s0 : MState V)
    (h0 : s0.file.recs = []) :
    (runFor sem c k s0).file.recs.map (·.t)
      = ((List.range k).filter fun i => decide (c.outstep > 0) && decide (i % c.outstep = 0)) ++ [k] := by
  exact runFor_time_axis sem c hf k s0 h0

/-- without a results file nothing is recorded -/
theorem no_file_no_records (sem : Sem V) (c : MCfg) (hf : c.hasFile = false) (k : Nat) (s0 : MState V)
    (h0 : s0.file.recs = [] ∧ s0.file.ps = []) :
    (runFor sem c k s0).file.recs = [] ∧ (runFor sem c k s0).file.ps = [] := by
  exact runFor_no_file sem c hf k s0 h0

/-- a record is consistent when everything in it was computed from the grid it describes -/
def RecFresh (sem : Sem V) (r : MRec V) : Prop :=
  r.profile = sem.xproj r.ghostGrid ∧ r.eprofile = sem.yproj r.ghostGrid ∧
  r.population = sem.integ r.profile ∧ r.moments0 = sem.mom0 r.profile r.population ∧
  r.moments1 = sem.mom1 r.eprofile r.population

/-- FULL-STRENGTH statement: every record of every run is consistent.  FALSE of the code when
    charge renormalisation coincides with an output step (`fresh_full_false`): the bunch profile
    appended is the projection of the grid *before* `normalize()` rescaled it. -/
def FreshFull : Prop :=
  ∀ (W : Type) (sem : Sem W) (c : MCfg) (k : Nat) (s0 : MState W),
    s0.file.recs = [] → ∀ r ∈ (runFor sem c k s0).file.recs, RecFresh sem r

/-- proved part: runs without renormalisation inside the loop (`RenormalizeCharge ≤ 0`, the
    default is 0) -/
theorem fresh_at_append_partial (sem : Sem V) (c : MCfg) (hr : c.renormalize ≤ 0) (k : Nat)
    (s0 : MState V) (h0 : s0.file.recs = []) :
    ∀ r ∈ (runFor sem c k s0).file.recs, RecFresh sem r := by
  exact runFor_fresh sem c hr k s0 h0

/-- witness for the failure with renormalisation: `RenormalizeCharge = 1`, output at every step,
    a semantics in which `normalize` changes the grid -/
theorem fresh_full_false : ¬ FreshFull := by
  intro h
  obtain ⟨r, hr, _, hp, hg⟩ := cex_stale_record
  have hf := (h Nat cexSem cexCfg 1 (startState 15 0 [] 0) rfl r hr).1
  rw [hp, hg] at hf
  exact absurd hf (by decide)

/-- wake and CSR records always belong to the recorded profile (also with renormalisation):
    the i-th wake record is the wake of the i-th recorded bunch profile, the i-th CSR record the
    spectrum of that profile -/
theorem wake_csr_of_profile (sem : Sem V) (c : MCfg) (hw : c.hasWake = true) (k : Nat) (s0 : MState V)
    (h0 : s0.file.recs = [] ∧ s0.file.csr = [] ∧ s0.file.wake = []) :
    (runFor sem c k s0).file.wake = (runFor sem c k s0).file.recs.map (fun r => sem.wake r.profile) ∧
    (runFor sem c k s0).file.csr = (runFor sem c k s0).file.recs.map (fun r => sem.csr r.profile) := by
  exact runFor_wake_csr sem c hw k s0 h0

/-- every stored phase space is the grid of the step it is labelled with: same grid as the
    record of that step -/
theorem ps_matches_record (sem : Sem V) (c : MCfg) (k : Nat) (s0 : MState V)
    (h0 : s0.file.recs = [] ∧ s0.file.ps = []) (t : Nat) (g : V)
    (hps : (t, g) ∈ (runFor sem c k s0).file.ps) (ht : 0 < t ∨ c.h5save ≠ 0) :
    ∃ r ∈ (runFor sem c k s0).file.recs, r.t = t ∧ r.ghostGrid = g := by
  exact runFor_ps_rec sem c k s0 h0 t g hps ht

end Inovesa.Props.C10
