/-
  C14 — Ctrl+C at any moment leaves a complete, consistent results file.
  Model: interpreter (Model/MainProgram.lean) of the GENERATED statement skeleton of main()
  (Gen/MainProgram.lean); a signal raised at ANY interrupt point `p` (hook H1 numbering).
-/
import InovesaModel.Lemmas.Main
namespace Inovesa.Props.C14
open Inovesa Inovesa.Gen

variable {V : Type}

/-- state at the loop head after `k` uninterrupted iterations -/
def atHead (sem : Sem V) (c : MCfg) (k : Nat) (s0 : MState V) : MState V :=
  iterate sem c k (execBlock sem c initialBlock s0)

/-- the initial block resets the step counter; every iteration advances it by one -/
theorem step_counts (sem : Sem V) (c : MCfg) (k : Nat) (s0 : MState V) :
    (atHead sem c k s0).step = k := by
  exact atHead_step sem c k s0

/-- Without a signal the program runs `laststep` iterations. -/
theorem uninterrupted (sem : Sem V) (c : MCfg) (s0 : MState V) :
    runMain sem c none s0 = runFor sem c c.laststep s0 := by
  exact runMain_none sem c s0

/-- A signal at ANY interrupt point `p` (before, inside or after the loop; further signals only
    set the same flag again): the program finishes the iteration in progress, runs the final block
    once, and ends in exactly the state of an uninterrupted run over `k ≤ laststep` steps. -/
theorem interrupt_is_truncation (sem : Sem V) (c : MCfg) (p : Nat) (s0 : MState V) :
    ∃ k, k ≤ c.laststep ∧ runMain sem c (some p) s0 = runFor sem c k s0 := by
  exact runMain_some sem c p s0

/-- a signal during set-up (before the modelled part): no iteration runs, one record for step 0 -/
theorem interrupt_during_setup (sem : Sem V) (c : MCfg) (p : Nat) (hp : p < setupMarkers) (s0 : MState V) :
    runMain sem c (some p) s0 = runFor sem c 0 s0 := by
  exact runMain_setup sem c p hp s0

/-- the datasets written before the final block only grow with the number of iterations:
    what an interrupted run (k iterations) wrote before its final record is a prefix of what
    the uninterrupted run (k' ≥ k iterations) writes -/
theorem records_prefix (sem : Sem V) (c : MCfg) (k k' : Nat) (h : k ≤ k') (s0 : MState V) :
    let a := (atHead sem c k s0).file
    let b := (atHead sem c k' s0).file
    a.recs.map (fun r => (r.t, r.profile, r.moments0, r.eprofile, r.moments1, r.population)) <+:
      b.recs.map (fun r => (r.t, r.profile, r.moments0, r.eprofile, r.moments1, r.population)) ∧
    a.ps <+: b.ps ∧ a.csr <+: b.csr ∧ a.wake <+: b.wake ∧ a.tracks <+: b.tracks ∧ a.rfk <+: b.rfk ∧
    a.padded <+: b.padded := by
  exact records_prefix_main sem c k k' h _

/-- the final block writes exactly one more record to every time-indexed dataset (and one
    phase space), whatever state the loop was left in -/
theorem final_block_one_record (sem : Sem V) (c : MCfg) (hf : c.hasFile = true) (s : MState V) :
    let f := (execBlock sem c finalBlock s).file
    f.recs.length = s.file.recs.length + 1 ∧ f.ps.length = s.file.ps.length + 1 ∧
    f.csr.length = s.file.csr.length + 1 ∧ f.tracks.length = s.file.tracks.length + 1 ∧
    f.wake.length = s.file.wake.length + (if c.hasWake then 1 else 0) ∧
    (f.recs.getLast?).map (·.t) = some s.step := by
  exact final_one_record sem c hf s

/-- the generated program ends with the Aborted/Finished message and a successful return -/
theorem ends_properly : endsWithAbortedOrFinished = true := by
  rfl

/-- non-vacuity: an interrupted run of a concrete configuration -/
example : ∃ k, k ≤ 11 ∧ k < 11 ∧
    (runMain (V := Nat)
      { xproj := id, yproj := id, integ := id, normalize := (fun g _ => g), mom0 := (fun a _ => a),
        mom1 := (fun a _ => a), wake := id, wakepad := id, csr := id, kick := (fun g _ => g + 1),
        ident := (fun g => g + 1), rfStatic := (fun g => g + 1), rfDyn := (fun g _ => g + 1),
        drift := (fun g => g + 1), fp := (fun g => g + 1), track := (fun _ t _ => t) }
      { laststep := 11, outstep := 3, h5save := 2, renormalize := 0, hasWake := true, hasFile := true,
        hasDrfm := false } (some 30) (startState 0 0 [] 0)).step = k := by
  refine ⟨2, by decide, by decide, ?_⟩
  rw [runMain_eq, final_step]
  simp [loopFuel, body_step, body_clock, init_step, init_clock, aborted, wr, isOut, setupMarkers, startState]

end Inovesa.Props.C14
