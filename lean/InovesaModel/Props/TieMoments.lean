/-
  Tie theorems (PhaseSpace::average / variance): hand-written model definitions proved EQUAL to definitions regenerated from the C++ source on
  every run (Gen/*.lean).  The hand definitions are what the lemmas and property theorems unfold; the generated ones are
  what the code says now.  A change of the source expression makes the proof fail, and every check that lists this
  module reports its property as no longer shown (and searches for a failing input).  One module per translator
  fragment, so that a fragment that cannot be translated any more only affects the properties that depend on it.
-/
import InovesaModel.Model.PhaseSpace
import InovesaModel.Gen.Moments
namespace Inovesa.Props.TieMoments
open Inovesa

variable {α : Type} [Arith α] [NatCast α]

/-- `PhaseSpace::average`: plain sum of `projection·coordinate`, scaled by `delta/_filling[n]`
    (the bunch's own measured charge), 0 for an empty bucket -/
theorem average_is_code (n : Nat) (pos : Bool) (proj qp : Nat → α) (delta fill : α) :
    averageOf n pos proj qp delta fill
      = if pos then ((List.range n).foldl (fun acc i => acc + Gen.avgTerm (proj i) (qp i)) Gen.avgInit)
                      * Gen.avgScale delta fill
        else Gen.avgInit := rfl

/-- `PhaseSpace::variance`: sum of `projection·(coordinate − mean)²` about the mean just computed,
    same scale -/
theorem variance_is_code [VarAcc α] (n : Nat) (pos : Bool) (proj qp : Nat → α) (mean delta fill : α) :
    varianceOf n pos proj qp mean delta fill
      = if pos then ((List.range n).foldl (fun acc i => VarAcc.accSq acc (proj i) (Gen.varDev (qp i) mean)) Gen.varInit)
                      * Gen.varScale delta fill
        else Gen.varInit := rfl

end Inovesa.Props.TieMoments
