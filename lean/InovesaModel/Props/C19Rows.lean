/-
  C19 (record-keeping part) — the phase and amplitude used for step k are those recorded for
  step k: exactly one record per executed step, none lost or duplicated across output flushes.
-/
import InovesaModel.Lemmas.Main
import InovesaModel.Props.C14
namespace Inovesa.Props.C19Rows
open Inovesa Inovesa.Gen Inovesa.Props.C14

variable {V : Type}

/-- With a dynamic RF map and a results file, after `k` steps (`k ≤` queue length) the rows of
    `/RFKicks/data` are exactly the first `k` queue entries, in order — for every output cadence. -/
theorem rf_rows (sem : Sem V) (c : MCfg) (hd : c.hasDrfm = true) (hf : c.hasFile = true) (k : Nat)
    (s0 : MState V) (hq : k ≤ s0.rfNext.length) (h0 : s0.file.rfk = [] ∧ s0.rfPast = []) :
    (runFor sem c k s0).file.rfk = s0.rfNext.take k := by
  have _ := hq  -- not needed: the invariant holds for every queue length
  exact runFor_rfk sem c hd hf k s0 h0

/-- the modulation entry used by the RF kick of step `i` is queue entry `i` -/
theorem rf_entry_used (sem : Sem V) (c : MCfg) (hd : c.hasDrfm = true) (i : Nat) (s0 : MState V)
    (hq : i < s0.rfNext.length) :
    (atHead sem c i s0).rfNext = s0.rfNext.drop i := by
  have _ := hq  -- not needed: `drop` past the end is the empty queue
  exact atHead_rfNext sem c hd i s0

end Inovesa.Props.C19Rows
