/-
  C12 — observing the simulation does not change it; equal inputs give equal outputs.
-/
import InovesaModel.Lemmas.Main
import InovesaModel.Props.C14
namespace Inovesa.Props.C12
open Inovesa Inovesa.Gen Inovesa.Props.C14

variable {V : Type}

/-- configurations that differ only in how the run is observed (output cadence, phase-space
    save cadence, whether a file is written at all, number of steps still to come) -/
def SamePhysics (c c' : MCfg) : Prop :=
  c.renormalize = c'.renormalize ∧ c.hasWake = c'.hasWake ∧ c.hasDrfm = c'.hasDrfm

/-- NON-INTERFERENCE: after any number `k` of steps the physical state (step counter, grid,
    its x-projection, remaining RF modulation queue) does not depend on the observation settings
    nor on the initial contents of caches, tracks and file. -/
theorem noninterference (sem : Sem V) (c c' : MCfg) (h : SamePhysics c c') (s0 s0' : MState V)
    (hs : s0.grid = s0'.grid ∧ s0.rfNext = s0'.rfNext) (k : Nat) :
    physOf (atHead sem c k s0) = physOf (atHead sem c' k s0') := by
  exact physOf_atHead_congr sem c c' h s0 s0' hs k

/-- the step function is a function of the physical state: determinism -/
theorem deterministic_step (sem : Sem V) (c c' : MCfg) (h : SamePhysics c c') (s s' : MState V)
    (hp : physOf s = physOf s') :
    physOf (execBlock sem c loopBody s) = physOf (execBlock sem c' loopBody s') := by
  exact physOf_body_congr sem c c' h s s' hp

/-- the final grid (what `/PhaseSpace/data` ends with) is the same for all observation settings -/
theorem final_grid_same (sem : Sem V) (c c' : MCfg) (h : SamePhysics c c') (s0 s0' : MState V)
    (hs : s0.grid = s0'.grid ∧ s0.rfNext = s0'.rfNext) (k : Nat) (hf : c.hasFile = c'.hasFile) :
    (runFor sem c k s0).grid = (runFor sem c' k s0').grid := by
  exact runFor_grid_congr sem c c' h s0 s0' hs k hf

/-- records present in two runs with different cadence are identical -/
theorem common_records_equal (sem : Sem V) (c c' : MCfg) (h : SamePhysics c c') (s0 s0' : MState V)
    (hs : s0.grid = s0'.grid ∧ s0.rfNext = s0'.rfNext)
    (h0 : s0.file.recs = [] ∧ s0'.file.recs = []) (k : Nat)
    (r r' : MRec V) (hr : r ∈ (runFor sem c k s0).file.recs) (hr' : r' ∈ (runFor sem c' k s0').file.recs)
    (ht : r.t = r'.t) :
    r.profile = r'.profile ∧ r.moments0 = r'.moments0 ∧ r.eprofile = r'.eprofile ∧
    r.moments1 = r'.moments1 ∧ r.population = r'.population ∧ r.ghostGrid = r'.ghostGrid := by
  have e := runFor_common_records sem c c' h s0 s0' hs h0 k r r' hr hr' ht
  subst e
  exact ⟨rfl, rfl, rfl, rfl, rfl, rfl⟩

end Inovesa.Props.C12
