/-
  C12 — observing the simulation does not change it; equal inputs give equal outputs.
-/
import InovesaModel.Lemmas.Main
import InovesaModel.Props.C14
namespace Inovesa.Props.C12
open Inovesa Inovesa.Gen Inovesa.Props.C14

variable {V : Type}

/-- configurations that differ only in how the run is observed (output cadence, phase-space
    save cadence, whether a file is written at all, number of steps still to come) -/
def SamePhysics (c c' : MCfg) : Prop :=
  c.renormalize = c'.renormalize ∧ c.hasWake = c'.hasWake ∧ c.hasDrfm = c'.hasDrfm

/-- NON-INTERFERENCE: after any number `k` of steps the physical state (step counter, grid,
    its x-projection, remaining RF modulation queue) does not depend on the observation settings
    nor on the initial contents of caches, tracks and file. -/
theorem noninterference (sem : Sem V) (c c' : MCfg) (h : SamePhysics c c') (s0 s0' : MState V)
    (hs : s0.grid = s0'.grid ∧ s0.rfNext = s0'.rfNext) (k : Nat) :
    physOf (atHead sem c k s0) = physOf (atHead sem c' k s0') := by
  exact physOf_atHead_congr sem c c' h s0 s0' hs k

/-- the step function is a function of the physical state: determinism -/
theorem deterministic_step (sem : Sem V) (c c' : MCfg) (h : SamePhysics c c') (s s' : MState V)
    (hp : physOf s = physOf s') :
    physOf (execBlock sem c loopBody s) = physOf (execBlock sem c' loopBody s') := by
  exact physOf_body_congr sem c c' h s s' hp

/-- the final grid (what `/PhaseSpace/data` ends with) is the same for all observation settings -/
theorem final_grid_same (sem : Sem V) (c c' : MCfg) (h : SamePhysics c c') (s0 s0' : MState V)
    (hs : s0.grid = s0'.grid ∧ s0.rfNext = s0'.rfNext) (k : Nat) (hf : c.hasFile = c'.hasFile) :
    (runFor sem c k s0).grid = (runFor sem c' k s0').grid := by
  exact runFor_grid_congr sem c c' h s0 s0' hs k hf

/-- records present in two runs with different cadence are identical -/
theorem common_records_equal (sem : Sem V) (c c' : MCfg) (h : SamePhysics c c') (s0 s0' : MState V)
    (hs : s0.grid = s0'.grid ∧ s0.rfNext = s0'.rfNext)
    (h0 : s0.file.recs = [] ∧ s0'.file.recs = []) (k : Nat)
    (r r' : MRec V) (hr : r ∈ (runFor sem c k s0).file.recs) (hr' : r' ∈ (runFor sem c' k s0').file.recs)
    (ht : r.t = r'.t) :
    r.profile = r'.profile ∧ r.moments0 = r'.moments0 ∧ r.eprofile = r'.eprofile ∧
    r.moments1 = r'.moments1 ∧ r.population = r'.population ∧ r.ghostGrid = r'.ghostGrid := by
  have e := runFor_common_records sem c c' h s0 s0' hs h0 k r r' hr hr' ht
  subst e
  exact ⟨rfl, rfl, rfl, rfl, rfl, rfl⟩

/-- FULL-STRENGTH statement for the stored phase spaces: two runs that differ only in how they are observed hold the
    same grid under the same time stamp.  FALSE of the code (`common_phase_spaces_full_false`): with
    `SavePhaseSpace = 0` the record of step 0 is written before the loop, i.e. BEFORE the renormalisation of step 0,
    with `SavePhaseSpace > 0` it is written inside the loop, after it. -/
def CommonPhaseSpacesFull : Prop :=
  ∀ (W : Type) (sem : Sem W) (c c' : MCfg), SamePhysics c c' → ∀ (s0 s0' : MState W),
    (s0.grid = s0'.grid ∧ s0.rfNext = s0'.rfNext) →
    (s0.file.recs = [] ∧ s0.file.ps = []) → (s0'.file.recs = [] ∧ s0'.file.ps = []) →
    ∀ (k t : Nat) (g g' : W), (t, g) ∈ (runFor sem c k s0).file.ps → (t, g') ∈ (runFor sem c' k s0').file.ps → g = g'

/-- proved part: every stored phase space with a time stamp after step 0, and the one of step 0 whenever both runs
    save phase spaces inside the loop (`SavePhaseSpace > 0` in both) -/
theorem common_phase_spaces_equal_partial (sem : Sem V) (c c' : MCfg) (h : SamePhysics c c') (s0 s0' : MState V)
    (hs : s0.grid = s0'.grid ∧ s0.rfNext = s0'.rfNext)
    (h0 : s0.file.recs = [] ∧ s0.file.ps = []) (h0' : s0'.file.recs = [] ∧ s0'.file.ps = [])
    (k t : Nat) (g g' : V) (hps : (t, g) ∈ (runFor sem c k s0).file.ps) (hps' : (t, g') ∈ (runFor sem c' k s0').file.ps)
    (ht : 0 < t ∨ (c.h5save ≠ 0 ∧ c'.h5save ≠ 0)) : g = g' := by
  obtain ⟨r, hr, hrt, hrg⟩ := runFor_ps_rec sem c k s0 h0 t g hps (by rcases ht with h | h; exact Or.inl h; exact Or.inr h.1)
  obtain ⟨r', hr', hrt', hrg'⟩ := runFor_ps_rec sem c' k s0' h0' t g' hps' (by rcases ht with h | h; exact Or.inl h; exact Or.inr h.2)
  have e := (common_records_equal sem c c' h s0 s0' hs ⟨h0.1, h0'.1⟩ k r r' hr hr' (hrt.trans hrt'.symm)).2.2.2.2.2
  rw [← hrg, ← hrg', e]

/-- witness: `RenormalizeCharge = 1`, one step, output at every step; `SavePhaseSpace = 0` stores the start grid 15
    under time stamp 0, `SavePhaseSpace = 1` stores the renormalised grid 10 under the same time stamp -/
theorem common_phase_spaces_full_false : ¬ CommonPhaseSpacesFull := by
  intro h
  have h1 : (0, 15) ∈ (runFor cexSem cexCfg 1 (startState 15 0 [] 0)).file.ps := by
    simp [runFor_eq, iterate, final_ps, body_ps, init_ps, init_step, init_grid, init_xp, wr, isOut, isSaveAll,
      cexCfg, startState, cexSem]
  have h2 : (0, 10) ∈ (runFor cexSem { cexCfg with h5save := 1 } 1 (startState 15 0 [] 0)).file.ps := by
    simp [runFor_eq, iterate, final_ps, body_ps, init_ps, init_step, init_grid, init_xp, Nat.mod_one, wr, isOut, isSaveAll,
      gridR, isRenorm, cexCfg, startState, cexSem]
  have := h Nat cexSem cexCfg { cexCfg with h5save := 1 } ⟨rfl, rfl, rfl⟩ (startState 15 0 [] 0) (startState 15 0 [] 0)
    ⟨rfl, rfl⟩ ⟨rfl, rfl⟩ ⟨rfl, rfl⟩ 1 0 15 10 h1 h2
  exact absurd this (by decide)

end Inovesa.Props.C12
