/-
  The start-file reader (C11: "starting from the last (or any chosen) record … loads exactly the stored values; a file
  that cannot be used as a start is refused"): the hand model of Model/H5Read.lean tied to the integer logic regenerated
  from `HDF5File::readPhaseSpace` (translator fragment G11, Gen/H5Read.lean), and what it implies — for every number
  of records, every grid size, every bunch count and every `StartDistStep`.
-/
import InovesaModel.Model.H5Read
import InovesaModel.Gen.H5Read
namespace Inovesa.Props.TieH5Read
open Inovesa

/-- the record arithmetic of the model is the generated expression -/
theorem record_choice_is_code (dims : Nat → Nat) (step : Int) :
    chooseRecord (dims 0) step = Gen.H5Read.chosenRecord dims step := rfl

/-- the refusal test of the model is the generated one (and it comes before the record arithmetic: the translator
    checks the statement order) -/
theorem refusal_is_code (rank : Nat) (dims : Nat → Nat) :
    (decide (rank < 1 ∨ dims 0 = 0)) = Gen.H5Read.refuses rank dims := by
  simp only [Gen.H5Read.refuses]
  by_cases h1 : rank < 1 <;> by_cases h2 : dims 0 = 0 <;> simp [h1, h2] <;> omega

/-- the two ranks the reader knows, with grid size, bunch count, hyperslab offset (the chosen record, then zeros) and
    extent (ONE record); the loaded phase space is created for a single bunch -/
theorem rank_cases_are_code (dims : Nat → Nat) (r : Int) :
    Gen.H5Read.rankCases dims r
      = [(3, (dims 1 : Int), 1, [r, 0, 0], [1, (dims 1 : Int), (dims 1 : Int)]),
         (4, (dims 2 : Int), (dims 1 : Int), [r, 0, 0, 0], [1, (dims 1 : Int), (dims 2 : Int), (dims 2 : Int)])]
    ∧ Gen.H5Read.fillingOfLoaded = ["1"] ∧ Gen.H5Read.sizeTest = "nxyb == selected" := ⟨rfl, rfl, rfl⟩

/-- the loaded phase space gets the box and the length / energy scales the CURRENT run computed (`bl`, `dE` of main()),
    not anything stored in the file: every unit factor of the continued run's results file belongs to its own parameters -/
theorem loaded_grid_uses_current_scales :
    Gen.H5Read.loadedCtorArgs = ["qmin", "qmax", "bl", "pmin", "pmax", "dE", "oclh", "Qb", "Ib_unscaled", "filling", "1"] := rfl

/-! ### which record is loaded -/

/-- a non-negative `StartDistStep` below the number of records selects that record -/
theorem record_nonneg (d : Nat) (s : Int) (hd : (d : Int) < 9223372036854775808) (h0 : 0 ≤ s) (hs : s < d) :
    chooseRecord d s = s := by
  unfold chooseRecord
  have h1 : ((d : Int) % 18446744073709551616 + s % 18446744073709551616) % 18446744073709551616 = d + s := by omega
  have h2 : (d : Int) + s = s + (d : Int) * 1 := by omega
  rw [h1, h2, Int.add_mul_emod_self_left]
  exact Int.emod_eq_of_lt h0 hs

/-- a negative `StartDistStep` counts from the end: `−1` is the last record, `−d` the first -/
theorem record_from_end (d : Nat) (k : Int) (hd : (d : Int) < 9223372036854775808) (h1 : 1 ≤ k) (hk : k ≤ d) :
    chooseRecord d (-k) = d - k := by
  unfold chooseRecord
  have h : ((d : Int) % 18446744073709551616 + (-k) % 18446744073709551616) % 18446744073709551616 = d - k := by omega
  rw [h]
  exact Int.emod_eq_of_lt (by omega) (by omega)

/-- whatever `StartDistStep` is, the record that is read exists -/
theorem record_in_range (d : Nat) (s : Int) (hd : 0 < d) :
    0 ≤ chooseRecord d s ∧ chooseRecord d s < d := by
  unfold chooseRecord
  have hd' : (0 : Int) < d := by exact_mod_cast hd
  exact ⟨Int.emod_nonneg _ (by omega), Int.emod_lt_of_pos _ hd'⟩

/-! ### which files are refused -/

/-- a data set without any record is refused (before the division) -/
theorem no_record_refused (rank : Nat) (dims : Nat → Nat) (s : Int) (h : dims 0 = 0) :
    readStart rank dims s = .refused := by
  simp [readStart, h]

/-- a record holding two or more bunches is refused -/
theorem multi_bunch_refused (dims : Nat → Nat) (s : Int) (hb : 2 ≤ dims 1) (hn : 1 ≤ dims 2) :
    readStart 4 dims s = .refused := by
  unfold readStart
  by_cases h0 : dims 0 = 0
  · simp [h0]
  · have hne : ¬ (dims 2 * dims 2 * 1 = 1 * dims 1 * dims 2 * dims 2) := by
      intro h
      have hpos : 0 < dims 2 * dims 2 := Nat.mul_pos hn hn
      rw [Nat.one_mul, Nat.mul_one, Nat.mul_assoc] at h
      have h2 : 2 * (dims 2 * dims 2) ≤ dims 1 * (dims 2 * dims 2) := Nat.mul_le_mul_right _ hb
      omega
    rw [if_neg (by omega), if_neg (by decide), if_pos rfl, if_neg hne]

/-- a rank the reader does not know is refused -/
theorem other_rank_refused (rank : Nat) (dims : Nat → Nat) (s : Int) (h3 : rank ≠ 3) (h4 : rank ≠ 4) :
    readStart rank dims s = .refused := by
  unfold readStart
  split
  · rfl
  · simp [h3, h4]

/-- a single-bunch results file with at least one record is accepted, with the grid size stored in the file, and the
    record loaded is the chosen one -/
theorem single_bunch_loaded (dims : Nat → Nat) (s : Int) (h0 : dims 0 ≠ 0) :
    readStart 3 dims s = .loaded (dims 1) (chooseRecord (dims 0) s)
    ∧ (dims 1 = 1 → readStart 4 dims s = .loaded (dims 2) (chooseRecord (dims 0) s)) := by
  constructor
  · simp [readStart, h0]
  · intro h1
    simp [readStart, h0, h1]

example : chooseRecord 5 (-1) = 4 ∧ chooseRecord 5 3 = 3 ∧ readStart 3 (fun k => [5, 16, 16].getD k 0) (-1) = .loaded 16 4 := by
  decide

end Inovesa.Props.TieH5Read
