/-
  C03 — the bunch centroid rotates by 2π/steps per step and the orbit closes.
  (1) transport: a kick moves the first moment of every interior line by minus its displacement
      (generated weights, it ≥ 2); (2) the zero bin of a shifted axis is the physical origin;
  (3) algebra of the one-step map RF kick ∘ drift on the centroid: unit determinant, invariant
      quadratic form (the orbit is one ellipse), second-order recurrence; (4) the per-step phase
      advance is θ up to O(θ³) (over ℝ).
-/
import InovesaModel.Lemmas.Orbit
import Mathlib.Analysis.SpecialFunctions.Trigonometric.Bounds
namespace Inovesa.Props.C03
open Inovesa Inovesa.Gen Inovesa.Props.C02

section transport
variable {α : Type} [Field α] [CharZero α]

/-- the weights have first moment `f` about the stencil origin (orders 2,3,4) -/
theorem first_moment_weights (it : Nat) (h : it = 2 ∨ it = 3 ∨ it = 4) (f : α) :
    ((List.range it).map fun j =>
        (coeff it f).getD j 0 * ((j : α) - (((it - 1) / 2 : Nat) : α))).sum = f :=
  first_moment_weights' it h f

/-- Centroid transport of one line: with interior support and the row's stencil inside the
    table, `Σ_y y·out[y] = Σ_s (s − (D + f))·in[s]`, `D = jd − n/2`, for orders 2,3,4: every
    source cell's charge is moved by minus the displacement `D + f` (the fractional part `xip`
    included — linear interpolation of the position, not nearest cell). -/
theorem kick_line_first_moment (n it jd : Nat) (h : it = 2 ∨ it = 3 ∨ it = 4) (hn : n < 2 ^ 31)
    (xip : α) (rd : Nat → α) (hjd : jd < n) (hst : StencilIn n it jd)
    (hint : ∀ j : Nat, j < it → ∀ s : Nat, s < n → rd s ≠ 0 →
      (0 : Int) ≤ (s : Int) - (((jd : Int) - ((n / 2 : Nat) : Int)) + (j : Int) - (((it - 1) / 2 : Nat) : Int)) ∧
      (s : Int) - (((jd : Int) - ((n / 2 : Nat) : Int)) + (j : Int) - (((it - 1) / 2 : Nat) : Int)) < n) :
    ((List.range n).map fun (y : Nat) => (y : α) * applyCell n (smRowOf n it jd xip) rd y).sum
      = ((List.range n).map fun (s : Nat) => ((s : α) - (((jd : α) - ((n / 2 : Nat) : α)) + xip)) * rd s).sum :=
  kick_line_first_moment' n it jd h hn xip rd hjd hst hint

/-- the zero bin of an axis is where the coordinate vanishes, for every (shifted) axis:
    `min + zerobin·delta = 0` -/
theorem zerobin_is_origin (steps : Nat) (mn mx : α) (hs : 2 ≤ steps) (hne : mn ≠ mx) :
    let r : Ruler α := { steps := steps, min := mn, max := mx }
    r.min + r.zerobin * r.delta = 0 := by
  intro r
  exact zerobin_is_origin' steps mn mx hs hne

end transport

section orbit
variable {α : Type} [Field α]

/-- one step on the centroid `(q, p)` (normalised units): RF kick `p' = p + t·q` (t = tan θ),
    then drift `q' = q − θ·p'` -/
def stepMap (θ t : α) (v : α × α) : α × α :=
  let p' := v.2 + t * v.1
  (v.1 - θ * p', p')

def orbit (θ t : α) (v : α × α) : Nat → α × α
  | 0 => v
  | k + 1 => stepMap θ t (orbit θ t v k)

/-- the quadratic form `t·q² + θ·t·q·p + θ·p²` -/
def Q (θ t : α) (v : α × α) : α := t * v.1 ^ 2 + θ * t * v.1 * v.2 + θ * v.2 ^ 2

/-- it is invariant under the step: the whole orbit lies on one conic, for every k -/
theorem invariant_form (θ t : α) (v : α × α) (k : Nat) : Q θ t (orbit θ t v k) = Q θ t v := by
  induction k with
  | zero => rfl
  | succ k ih => rw [← ih]; simp only [orbit, stepMap, Q]; ring

/-- the step is area preserving and linear: second-order recurrence with trace `2 − θ·t`
    (Cayley–Hamilton), for every k -/
theorem centroid_recurrence (θ t : α) (v : α × α) (k : Nat) :
    orbit θ t v (k + 2) = ((2 - θ * t) * (orbit θ t v (k + 1)).1 - (orbit θ t v k).1,
                           (2 - θ * t) * (orbit θ t v (k + 1)).2 - (orbit θ t v k).2) := by
  simp only [orbit, stepMap]
  ext <;> simp <;> ring

/-- the physical origin (zero bin of both axes) is the fixed point -/
theorem origin_fixed (θ t : α) (k : Nat) : orbit θ t (0, 0) k = (0, 0) := by
  induction k with
  | zero => rfl
  | succ k ih => simp [orbit, stepMap, ih]

end orbit

section real

/-- over an ordered field the conic is an ellipse (positive definite form) whenever
    `0 < θ`, `0 < t`, `θ·t < 4`: the orbit is bounded and turns in a fixed sense -/
theorem form_positive_definite {α : Type} [Field α] [LinearOrder α] [IsStrictOrderedRing α]
    (θ t : α) (hθ : 0 < θ) (ht : 0 < t) (h4 : θ * t < 4) (v : α × α) (hv : v ≠ (0, 0)) :
    0 < Q θ t v := by
  unfold Q
  apply form_pos θ t v.1 v.2 hθ ht h4
  by_contra hc
  push Not at hc
  exact hv (Prod.ext hc.1 hc.2)

/-- phase advance: the step matrix has trace `2 − θ·tan θ = 2·cos μ`; it differs from the trace
    `2·cos θ` of the exact rotation by at most `θ⁴` for `0 < θ ≤ 1/2` — the per-step angle is
    `θ·(1 + O(θ²))`, i.e. after `2π/θ` steps the orbit is closed up to the first-order
    splitting error. -/
theorem trace_close_to_rotation (θ : ℝ) (h0 : 0 < θ) (h1 : θ ≤ 1 / 2) :
    |2 - θ * Real.tan θ - 2 * Real.cos θ| ≤ θ ^ 4 :=
  trace_close θ h0 h1

end real

/-- non-vacuity -/
example : StencilIn 16 4 9 := by unfold StencilIn; omega

end Inovesa.Props.C03
