/-
  Record shapes of the results file against the arrays they are written from (translator fragment G6, second part;
  Gen/H5Appends.lean regenerated from src/IO/HDF5File.cpp on every run): one record of every appended data set holds
  exactly — or, for the padded buffers, at most — as many cells as the source array owns, for every grid size, bunch
  count and padded length.  `_appendData` hands HDF5 a pointer and the record shape: a record larger than its source
  would be read past the end of that array (C17), a shape that does not match the source layout stores rows under the
  wrong bunch (C10: historic defect C).
-/
import InovesaModel.Gen.H5Appends
import InovesaModel.Gen.PSLoops
import InovesaModel.Gen.KickApply
namespace Inovesa.Props.TieH5Shapes
open Inovesa

def cellsOf (shape : List (String × List Nat)) (member : String) : Option Nat :=
  (shape.find? (·.1 = member)).map fun p => p.2.foldl (· * ·) 1

/-- the shapes as generated -/
theorem record_shapes_are_code (nb nx ny maxn imp npart : Nat) :
    Gen.h5RecordShape nb nx ny maxn imp npart
      = [("_bunchLength", [nb]), ("_bunchPopulation", [nb]), ("_bunchPosition", [nb]), ("_bunchProfile", [nb, nx]),
         ("_csrIntensity", [nb]), ("_csrSpectrum", [nb, maxn]), ("_dynamicRFKick", [2]), ("_energyAverage", [nb]),
         ("_energyProfile", [nb, nx]), ("_energySpread", [nb]), ("_paddedPotential", [imp]), ("_paddedProfile", [imp]),
         ("_particles", [npart, 2]), ("_phaseSpace", [nb, nx, ny]), ("_timeAxis", []), ("_timeAxisPS", []),
         ("_wakePotential", [nb, nx])] := rfl

/-- a phase-space record is the whole grid (`PhaseSpace::nxyb` cells, as `setSize` defines it) -/
theorem phase_space_record_is_whole_grid (n nb maxn imp npart : Nat) :
    cellsOf (Gen.h5RecordShape nb n n maxn imp npart) "_phaseSpace" = some (Gen.PS.setSizeTotal n nb) := by
  simp [cellsOf, Gen.h5RecordShape, Gen.PS.setSizeTotal, List.find?, Nat.mul_comm, Nat.mul_left_comm]

/-- a bunch-profile / energy-profile record is one axis of the projection array (`[2][nb][nx]`: `nb·nx` cells each) -/
theorem profile_records_are_projections (n nb maxn imp npart : Nat) :
    cellsOf (Gen.h5RecordShape nb n n maxn imp npart) "_bunchProfile" = some ((Gen.PS.projectionExtents nb n n).tail.foldl (· * ·) 1)
    ∧ cellsOf (Gen.h5RecordShape nb n n maxn imp npart) "_energyProfile" = some ((Gen.PS.projectionExtents nb n n).tail.foldl (· * ·) 1) := by
  constructor <;> simp [cellsOf, Gen.h5RecordShape, Gen.PS.projectionExtents, List.find?]

/-- a wake-potential record is the displacement field of the wake kick map (`_offset`, `n·nb` values) -/
theorem wake_record_is_offset_field (n nb maxn imp npart : Nat) :
    cellsOf (Gen.h5RecordShape nb n n maxn imp npart) "_wakePotential" = some (Gen.kickOffsetSize n nb) := by
  simp [cellsOf, Gen.h5RecordShape, Gen.kickOffsetSize, List.find?, Nat.mul_comm]

/-- CSR spectrum: the gather loop reads `_maxn` values of EVERY bunch from that bunch's own row of the `nb × nmax` source,
    never past its end, and collects exactly one record -/
theorem csr_gather_in_bounds (nb nmax b : Nat) (hb : b < Gen.csrGatherBunches nb) :
    Gen.csrGatherStart b nmax + Gen.csrGatherLen (Gen.h5Maxn nmax) ≤ (b + 1) * nmax
    ∧ (b + 1) * nmax ≤ nb * nmax
    ∧ cellsOf (Gen.h5RecordShape nb 0 0 (Gen.h5Maxn nmax) 0 0) "_csrSpectrum"
        = some (Gen.csrGatherBunches nb * Gen.csrGatherLen (Gen.h5Maxn nmax)) := by
  simp only [Gen.csrGatherBunches] at hb
  refine ⟨?_, Nat.mul_le_mul_right nmax hb, ?_⟩
  · simp only [Gen.csrGatherStart, Gen.csrGatherLen, Gen.h5Maxn, Nat.add_mul, Nat.one_mul]
    have : nmax / 2 ≤ nmax := Nat.div_le_self nmax 2
    omega
  · simp [cellsOf, Gen.h5RecordShape, Gen.csrGatherBunches, Gen.csrGatherLen, List.find?]

/-- the padded-profile and padded-wake records hold half the impedance table, which is not more than the padded buffers
    own when the table has the length of the buffers (`TieEFSafe`) -/
theorem padded_records_within_buffers (nfreqs nb nx ny maxn npart : Nat) :
    cellsOf (Gen.h5RecordShape nb nx ny maxn (Gen.h5ImpSize nfreqs) npart) "_paddedProfile" = some (Gen.h5ImpSize nfreqs)
    ∧ cellsOf (Gen.h5RecordShape nb nx ny maxn (Gen.h5ImpSize nfreqs) npart) "_paddedPotential" = some (Gen.h5ImpSize nfreqs)
    ∧ Gen.h5ImpSize nfreqs ≤ nfreqs := by
  refine ⟨?_, ?_, Nat.div_le_self nfreqs 2⟩ <;> simp [cellsOf, Gen.h5RecordShape, List.find?]

/-- per-bunch scalars: one value per bunch -/
theorem scalar_records_per_bunch (nb nx ny maxn imp npart : Nat) :
    ∀ m ∈ ["_bunchLength", "_bunchPopulation", "_bunchPosition", "_csrIntensity", "_energyAverage", "_energySpread"],
      cellsOf (Gen.h5RecordShape nb nx ny maxn imp npart) m = some nb := by
  intro m hm
  simp only [List.mem_cons, List.mem_nil_iff, or_false] at hm
  rcases hm with rfl | rfl | rfl | rfl | rfl | rfl <;> simp [cellsOf, Gen.h5RecordShape, List.find?]

example : cellsOf (Gen.h5RecordShape 2 8 8 16 32 5) "_phaseSpace" = some 128 := by decide

end Inovesa.Props.TieH5Shapes
