/-
  C19 — zero-amplitude RF modulation is the static RF; applied modulation is recorded
  (class level: constructor forwarding, the modulation entries, the queue bookkeeping).
  The record-keeping inside main() is Props/C19Rows.lean.
-/
import InovesaModel.Model.DynamicRF
import InovesaModel.Gen.Ctors
import InovesaModel.Lemmas.Field
namespace Inovesa.Props.C19
open Inovesa Inovesa.Gen

/-! ### constructor forwarding (generated from the clang AST: overload actually selected) -/

/-- every formal parameter of the selected overload receives the like-named actual -/
def ForwardsByName (c : CtorCall) : Bool := c.pairs.all fun p => p.1 == p.2

/-- the linear DynamicRFKickMap constructor selects the linear RFKickMap constructor (the one
    with an `angle` parameter and no `V_RF`) and forwards every argument to the like-named
    formal; the sinusoidal one selects the sinusoidal constructor likewise -/
theorem forwarding_ok :
    (∀ c ∈ ctorCalls, c.site = "DynamicRFKickMap.lin" →
      ForwardsByName c = true ∧ "angle" ∈ c.pairs.map (·.1) ∧ "V_RF" ∉ c.pairs.map (·.1)) ∧
    (∀ c ∈ ctorCalls, c.site = "DynamicRFKickMap.sin" →
      ForwardsByName c = true ∧ "V_RF" ∈ c.pairs.map (·.1) ∧ "V0" ∈ c.pairs.map (·.1)) := by
  decide

/-- main() hands the RF parameters — including the RF amplitude `V_RF` of the sinusoidal maps
    (historic defect K: `V_eff` was passed) — to the like-named formals of all four constructions -/
theorem main_constructs_rf_maps :
    ∀ c ∈ ctorCalls, c.site ∈ ["main.new.DynamicRFKickMap.lin", "main.new.DynamicRFKickMap.sin",
                               "main.new.RFKickMap.lin", "main.new.RFKickMap.sin"] →
      ∀ p ∈ c.pairs, p.1 ∈ ["angle", "revolutionpart", "V_RF", "f_RF", "V0", "interpol_clamp", "oclh"] → p.1 = p.2 := by
  decide

/-- all four constructions are present -/
theorem main_constructs_all_four :
    (ctorCalls.map (·.site)).filter (fun s => s ∈ ["main.new.DynamicRFKickMap.lin",
      "main.new.DynamicRFKickMap.sin", "main.new.RFKickMap.lin", "main.new.RFKickMap.sin"])
      = ["main.new.DynamicRFKickMap.lin", "main.new.DynamicRFKickMap.sin", "main.new.RFKickMap.lin",
         "main.new.RFKickMap.sin"] := by
  decide

/-! ### modulation entries -/

section entries
variable {α : Type} [Field α]

/-- With all amplitudes zero every entry is `(syncphase, 1)`, whatever the draws and sines. -/
theorem zero_mod_entries (sync : α) (sinv : Nat → α) (draw : Nat → α × α) (steps : Nat) :
    calcModulation sync 0 0 0 sinv draw steps = List.replicate steps (sync, 1) := by
  unfold calcModulation
  simp only [mul_zero, zero_mul, add_zero, lit_field]
  rw [List.eq_replicate_iff]
  refine ⟨by simp, ?_⟩
  intro b hb
  simp only [List.mem_map] at hb
  obtain ⟨i, _, rfl⟩ := hb
  simp

/-- … and the kick computed from such an entry is the static kick `tan(angle)·(xcenter − x)`
    (what `_calcKick(_syncphase)` with the default amplitude 1 computes): linear model -/
theorem zero_mod_is_static_linear (tanv xc bl2 d0 sync : α) (x : Nat) :
    rfOffsetLinear tanv xc bl2 d0 sync sync 1 x = tanv * (xc - (x : α)) := by
  unfold rfOffsetLinear
  simp

/-- sinusoidal model: with amplitude 1 the dynamic kick is the static one (same phase ⇒ same
    sine table) -/
theorem zero_mod_is_static_sin (rev vrf v0 d1 ev : α) (sinv : Nat → α) (x : Nat) :
    rfOffsetSin rev vrf v0 d1 ev 1 sinv x = rev * (-vrf * sinv x + v0) / d1 / ev := by
  unfold rfOffsetSin
  simp

/-- pure sinusoidal phase modulation: entry `i` is `syncphase + A·sin(modtimedelta·i)`, amplitude 1 -/
theorem pure_sine (sync a : α) (sinv : Nat → α) (draw : Nat → α × α) (steps i : Nat) (hi : i < steps) :
    (calcModulation sync 0 0 a sinv draw steps)[i]? = some (sync + a * sinv i, 1) := by
  unfold calcModulation
  simp [hi]

end entries

/-! ### queue bookkeeping: any interleaving of apply and flush -/

section queue
variable {α : Type}

/-- number of `apply` operations that find an entry -/
def applies : List DynOp → Nat
  | [] => 0
  | .apply :: r => applies r + 1
  | .flush :: r => applies r

/-- Invariant behind the statement: for any interleaving of `apply`/`flush` that does not
    exhaust the queue, the entries used are the first `k` entries of the queue in order
    (`k` = number of applies), what all flushes handed out plus what is still held in `past`
    is the old `past` followed by exactly those entries — none lost, none duplicated — and the
    rest of the queue is untouched. -/
theorem queue_bookkeeping (ops : List DynOp) (d : DynRF α) (h : applies ops ≤ d.next.length) :
    let r := d.run ops
    r.1 = d.next.take (applies ops) ∧
    r.2.1 ++ r.2.2.past = d.past ++ d.next.take (applies ops) ∧
    r.2.2.next = d.next.drop (applies ops) := by
  induction ops generalizing d with
  | nil => simp [DynRF.run, applies]
  | cons op ops ih =>
    cases op with
    | apply =>
      cases hn : d.next with
      | nil => simp [applies, hn] at h
      | cons e rest =>
        have h' : applies ops ≤ ({ next := rest, past := d.past ++ [e] } : DynRF α).next.length := by
          simp [applies, hn] at h ⊢; omega
        have := ih { next := rest, past := d.past ++ [e] } h'
        simp only [DynRF.run, DynRF.apply, hn, applies]
        obtain ⟨h1, h2, h3⟩ := this
        refine ⟨?_, ?_, ?_⟩
        · simp [h1]
        · simpa [List.append_assoc] using h2
        · simpa using h3
    | flush =>
      have h' : applies ops ≤ ({ d with past := [] } : DynRF α).next.length := by simpa [applies] using h
      have := ih { d with past := [] } h'
      simp only [DynRF.run, DynRF.flush, applies]
      obtain ⟨h1, h2, h3⟩ := this
      refine ⟨by simpa using h1, ?_, by simpa using h3⟩
      simp only [List.append_assoc]
      simpa using congrArg (d.past ++ ·) h2

/-- starting with nothing held back: what all flushes handed out, followed by what a final
    flush hands out, is exactly the list of entries used, in order — one record per kick -/
theorem all_recorded (ops : List DynOp) (q : List (α × α)) (h : applies ops ≤ q.length) :
    let r := ({ next := q, past := [] } : DynRF α).run ops
    r.2.1 ++ (r.2.2.flush).1 = r.1 ∧ r.1 = q.take (applies ops) ∧ (r.2.2.flush).2.past = [] := by
  have := queue_bookkeeping ops ({ next := q, past := [] } : DynRF α) h
  obtain ⟨h1, h2, _⟩ := this
  refine ⟨?_, h1, rfl⟩
  simp only [DynRF.flush]
  rw [h1]
  simpa using h2

/-- non-vacuity -/
example : applies [.apply, .flush, .apply, .apply] ≤ ([(1, 1), (2, 1), (3, 1)] : List (Nat × Nat)).length := by
  decide

end queue

end Inovesa.Props.C19
