/-
  Tie theorems (RF kick offsets: RFKickMap::_calcKick): hand-written model definitions proved EQUAL to definitions regenerated from the C++ source on
  every run (Gen/*.lean).  The hand definitions are what the lemmas and property theorems unfold; the generated ones are
  what the code says now.  A change of the source expression makes the proof fail, and every check that lists this
  module reports its property as no longer shown (and searches for a failing input).  One module per translator
  fragment, so that a fragment that cannot be translated any more only affects the properties that depend on it.
-/
import InovesaModel.Model.RFDrift
import InovesaModel.Gen.RFOffsets
namespace Inovesa.Props.TieRF
open Inovesa

variable {α : Type} [Arith α] [NatCast α]

/-- `RFKickMap::_calcKick`, linear RF: displacement of column `x` -/
theorem rf_linear_is_code (tanv xcenter bl2phase delta0 syncphase phase ampl : α) (x : Nat) :
    rfOffsetLinear tanv xcenter bl2phase delta0 syncphase phase ampl x
      = Gen.rfOffsetLinear tanv xcenter bl2phase delta0 syncphase phase ampl x := rfl

/-- `RFKickMap::_calcKick`, sinusoidal RF -/
theorem rf_sin_is_code (revpart vrf v0 delta1 scaleEV ampl : α) (sinv : Nat → α) (x : Nat) :
    rfOffsetSin revpart vrf v0 delta1 scaleEV ampl sinv x
      = Gen.rfOffsetSin revpart vrf v0 delta1 scaleEV ampl sinv x := rfl

/-- … and the argument of its sine -/
theorem rf_sin_arg_is_code (ax0 : Ruler α) (bl2phase phase : α) (x : Nat) :
    rfSinArg ax0 bl2phase phase x = Gen.rfSinArg ax0.at bl2phase phase x := rfl


end Inovesa.Props.TieRF
