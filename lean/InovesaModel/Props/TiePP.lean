/-
  Tie theorems (ParallelPlatesCSR::__calcImpedance; translator fragment G9j, Gen/PPlates.lean, regenerated from the C++
  on every run).  The driver evaluates these generated definitions in binary64 (the Airy functions are supplied by the
  check) and the result is compared with the real table; here the hand model of Model/Impedance.lean is tied to them
  and the facts the theorems of C16 rest on are proved from the generated expressions.
-/
import InovesaModel.Model.Impedance
import InovesaModel.Gen.PPlates
import InovesaModel.Lemmas.Field
import Mathlib.Tactic.Positivity
import Mathlib.Algebra.Order.Field.Basic
import Mathlib.Algebra.CharZero.Defs
import Mathlib.Data.Nat.Cast.Basic
namespace Inovesa.Props.TiePP
open Inovesa Inovesa.Gen.PP

section ties
variable {α : Type} [Arith α]

/-- the summand of the hand model is the generated one: real part `Ai'² + u·Ai²`, imaginary part `−Ai'·Bi' − u·Ai·Bi` -/
theorem pp_summand_is_code (acc : Cx α) (u ai aip bi bip : α) :
    ((acc.1 + (aip * aip + u * (ai * ai)), acc.2 + (-(aip * bip) - u * (ai * bi))) : Cx α)
      = (acc.1 + zincRe u ai aip bi bip, acc.2 + zincIm u ai aip bi bip) := rfl

/-- samples `1 … nfreqs/2` are filled (every one of them, odd modes `p = 1, 3, …`), sample 0 and the upper half stay 0;
    a library exception ends the mode sum of that sample -/
theorem pp_loops_are_code (n : Nat) :
    iFirst = 1 ∧ iStep = 1 ∧ iLast n = n / 2 ∧ pFirst = 1 ∧ pStep = 2 ∧ catchEndsSum = true :=
  ⟨rfl, rfl, rfl, rfl, rfl, rfl⟩

end ties

section field
variable {α : Type} [Field α]

/-- the locals of one sample hold their defining expressions; `r32` (rounding of a binary32 sub-expression) is the
    identity in exact arithmetic -/
structure Chain (E : PPEnv α) : Prop where
  h_r32 : ∀ x, E.r32 x = x
  h_delta : E.v_delta = p_delta E
  h_r_bend : E.v_r_bend = p_r_bend E
  h_n : E.v_n = p_n E
  h_m : E.v_m = p_m E
  h_b : E.v_b = p_b E
  h_u : E.v_u = p_u E
  h_maxp : E.v_maxp = p_maxp E

/-- frequency of sample `i` in units of the revolution harmonic: `n = i·f_max/(f0·(nfreqs−1))` -/
theorem pp_harmonic (E : PPEnv α) (h : Chain E) :
    E.v_n = E.v_i * (E.o_f_max / E.o_f0 / (E.o_nfreqs - 1)) := by
  rw [h.h_n, p_n, h.h_delta, p_delta, h.h_r32]
  simp [lit_field]

/-- the bound of the mode sum: `maxp = 2·n·f0·g/c`, i.e. `n·g/(π·R)` — the plate modes below cut-off of harmonic `n`
    (hypothesis: the two powers `(g/R)^{3/2}` and `(R/g)^{3/2}` are reciprocal, true of the real power function) -/
theorem pp_mode_bound (E : PPEnv α) (h : Chain E)
    (hp : E.powf (E.o_g / E.v_r_bend) (3 / 2) * E.powf (E.v_r_bend / E.o_g) (3 / 2) = 1) :
    E.v_maxp = 2 * E.v_n * E.o_f0 * E.o_g / E.k_c := by
  rw [h.h_maxp, p_maxp, h.h_m, p_m]
  simp only [lit_field]
  have e3 : ((3 : ℤ) : α) / ((1 : ℕ) : α) = 3 := by norm_num
  have e2 : ((2 : ℤ) : α) / ((1 : ℕ) : α) = 2 := by norm_num
  rw [e3, e2]
  have : 2 * (E.v_n * E.powf (E.o_g / E.v_r_bend) (3 / 2)) * E.powf (E.v_r_bend / E.o_g) (3 / 2)
      = 2 * E.v_n * (E.powf (E.o_g / E.v_r_bend) (3 / 2) * E.powf (E.v_r_bend / E.o_g) (3 / 2)) := by ring
  rw [this, hp]; ring

/-- and with `R = c/(2π f0)` (the generated `r_bend`): `maxp·π·R = n·g` -/
theorem pp_mode_bound_radius [CharZero α] (E : PPEnv α) (h : Chain E)
    (hp : E.powf (E.o_g / E.v_r_bend) (3 / 2) * E.powf (E.v_r_bend / E.o_g) (3 / 2) = 1)
    (hc : E.k_c ≠ 0) (hpi : E.k_pi ≠ 0) (hf : E.o_f0 ≠ 0) :
    E.v_maxp * (E.k_pi * E.v_r_bend) = E.v_n * E.o_g := by
  rw [pp_mode_bound E h hp, h.h_r_bend, p_r_bend]
  simp only [lit_field]
  have e2 : ((2 : ℤ) : α) / ((1 : ℕ) : α) = 2 := by norm_num
  rw [e2]
  have h2 : (2 : α) ≠ 0 := by exact_mod_cast (by norm_num : ((2 : ℕ) : α) ≠ 0)
  field_simp

/-- the factor the mode sum is multiplied with: `4·π²·2^{1/3}·Z0 · (g/R) · n · b` -/
theorem pp_scale_is_code (E : PPEnv α) :
    p_scale E = 4 * E.v_b * E.v_n * E.o_g / E.v_r_bend * E.k_pi_sqr * E.powf 2 (1 / 3) * E.k_Z0 := by
  simp only [p_scale, lit_field]
  norm_num

end field

section ordered
variable {α : Type} [Field α] [LinearOrder α] [IsStrictOrderedRing α]

/-- every mode contributes a non-negative real part for `u ≥ 0` (passivity of the parallel-plates model, C16) -/
theorem pp_summand_passive (u ai aip bi bip : α) (hu : 0 ≤ u) : 0 ≤ zincRe u ai aip bi bip := by
  unfold zincRe
  have h1 : 0 ≤ aip * aip := mul_self_nonneg aip
  have h2 : 0 ≤ u * (ai * ai) := mul_nonneg hu (mul_self_nonneg ai)
  exact add_nonneg h1 h2

end ordered

example : zincRe (1 : ℚ) 2 3 4 5 = 13 ∧ zincIm (1 : ℚ) 2 3 4 5 = -23 := by
  constructor <;> norm_num [zincRe, zincIm]

end Inovesa.Props.TiePP
