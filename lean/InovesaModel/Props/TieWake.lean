/-
  Tie theorems (WakePotentialMap::update and the kick direction of the derived maps; translator fragment G12,
  Gen/WakeMap.lean, regenerated from the C++ on every run).  The model treats the wake kick as `KickMap::apply` along
  the energy axis with the displacement field `wakePotential[b][x]` of EVERY bunch (Props/C06 `wake_is_spec` for the
  values, Props/C08 `applyY_blockwise` for the per-bunch rows); these theorems pin exactly that on the source.
-/
import InovesaModel.Gen.WakeMap
import InovesaModel.Gen.KickApply
namespace Inovesa.Props.TieWake
open Inovesa

/-- `update()` copies the field's freshly computed wake potentials into the displacement field and rebuilds the table -/
theorem wake_update_is_code :
    Gen.wakeUpdateSource = "_field.wakePotential()" ∧ Gen.wakeUpdateDest = "_offset.data()"
    ∧ Gen.wakeUpdateThen = "this.updateSM()" := ⟨rfl, rfl, rfl⟩

/-- the copy covers the rows of every bunch: its length is the size of the displacement field of a y-kick map
    (`pd` = rows per bunch = grid size along x) -/
theorem wake_update_covers_all_rows (nb n : Nat) :
    Gen.wakeUpdateCount nb n n = Gen.kickOffsetSize n nb := by
  simp [Gen.wakeUpdateCount, Gen.kickOffsetSize, Nat.mul_comm]

/-- and it is the whole field, never more: no read past the `nb·n` wake potentials -/
theorem wake_update_within_wake (nb n : Nat) : Gen.wakeUpdateCount nb n n ≤ nb * n := by
  simp [Gen.wakeUpdateCount]

/-- wake and RF kick act along the energy axis, the drift along the position axis (every constructor) -/
theorem kick_directions_are_code :
    Gen.axisOfWakeKickMap = "y" ∧ Gen.axisOfRFKickMap = "y" ∧ Gen.axisOfDriftMap = "x" := ⟨rfl, rfl, rfl⟩

example : Gen.wakeUpdateCount 3 8 8 = 24 := by decide

end Inovesa.Props.TieWake
