/-
  C18 — wake and CSR spectrum depend on the current profile only, not on past calls.
  State machine of Model/ElectricField.lean (buffers of `ElectricField`, code after the
  buffer-clearing fix), arbitrary library transforms `t` (any functions!) under the single
  assumption `ClobOK`: the complex-to-real transform may overwrite entries `k < nmax/2` of
  its input buffer but leaves the entries `k ≥ nmax/2` alone (trusted-base assumption about
  FFTW, validated empirically by the correspondence check).
-/
import InovesaModel.Lemmas.EF
namespace Inovesa.Props.C18
open Inovesa

variable {α : Type} [Field α]

/-- assumption on what c2r does to its input buffer -/
def ClobOK (nmax : Nat) (t : Transforms α) : Prop :=
  ∀ (xs : Nat → Cx α) (k : Nat), nmax / 2 ≤ k → t.clob xs k = xs k

/-- buffer invariant: the parts of the complex work buffers that no call rewrites are
    still the zeros of the allocation -/
def Inv (c : EFConst α) (s : EFState α) : Prop :=
  (∀ k, c.nmax / 2 < k → s.ff k = ((0 : α), (0 : α))) ∧
  (∀ k, c.nmax / 2 ≤ k → s.wl k = ((0 : α), (0 : α)))

theorem fresh_inv (c : EFConst α) : Inv c (EFState.fresh : EFState α) :=
  fresh_tails c

theorem step_preserves_inv (c : EFConst α) (t : Transforms α) (hc : ClobOK c.nmax t)
    (s : EFState α) (op : EFOp α) (h : Inv c s) : Inv c (efStep c t s op) :=
  efStep_tails c t hc s op h.1 h.2

/-- every reachable state satisfies the invariant -/
theorem run_inv (c : EFConst α) (t : Transforms α) (hc : ClobOK c.nmax t)
    (hist : List (EFOp α)) : Inv c (efRun c t hist EFState.fresh) :=
  efRun_tails c t hc hist EFState.fresh (fresh_inv c).1 (fresh_inv c).2

/-- what a caller can observe after an operation: padded profiles; for `wake` also the wake
    potentials and the padded wake; for `csr` the spectra and powers of the `nb` bunches -/
def SameObs (c : EFConst α) (op : EFOp α) (s s' : EFState α) : Prop :=
  s.bp = s'.bp ∧
  (match op with
   | .wake _ => s.wake = s'.wake ∧ s.wp = s'.wp
   | .pad _ => True
   | .csr _ => (∀ b, b < c.nb → ∀ i, s.spec b i = s'.spec b i) ∧ (∀ b, b < c.nb → s.pow b = s'.pow b))

/-- History independence: after ANY sequence of earlier operations on any profiles, the
    results of an operation equal those of a freshly constructed object. -/
theorem history_independent (c : EFConst α) (t : Transforms α) (hc : ClobOK c.nmax t)
    (hnb : 0 < c.nb) (hist : List (EFOp α)) (op : EFOp α) :
    SameObs c op (efStep c t (efRun c t hist EFState.fresh) op)
                 (efStep c t EFState.fresh op) := by
  obtain ⟨hff, hwl⟩ := run_inv c t hc hist
  obtain ⟨hff0, hwl0⟩ := fresh_inv c
  cases op with
  | wake p =>
    exact efWake_obs c t p _ _ (fun k hk => (hwl k hk).trans (hwl0 k hk).symm)
  | pad p => exact ⟨rfl, trivial⟩
  | csr p =>
    exact efCSR_obs c t p _ _ hnb (fun k hk => (hff k hk).trans (hff0 k hk).symm)

/-- non-vacuity: the identity (input-preserving) transform satisfies the assumption -/
example (nmax : Nat) (r : (Nat → α) → Nat → Cx α) (i : (Nat → Cx α) → Nat → α) :
    ClobOK nmax ({ r2c := r, c2r := i, clob := id } : Transforms α) := by
  intro xs k _; rfl

end Inovesa.Props.C18
