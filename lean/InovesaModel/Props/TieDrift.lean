/-
  Tie theorems (DriftMap offsets and the wake scaling of ElectricField): hand-written model definitions proved EQUAL to definitions regenerated from the C++ source on
  every run (Gen/*.lean).  The hand definitions are what the lemmas and property theorems unfold; the generated ones are
  what the code says now.  A change of the source expression makes the proof fail, and every check that lists this
  module reports its property as no longer shown (and searches for a failing input).  One module per translator
  fragment, so that a fragment that cannot be translated any more only affects the properties that depend on it.
-/
import InovesaModel.Model.RFDrift
import InovesaModel.Model.ElectricField
import InovesaModel.Gen.DriftWake
namespace Inovesa.Props.TieDrift
open Inovesa

variable {α : Type} [Arith α] [NatCast α]

/-- `DriftMap::DriftMap`: displacement of row `y` (sum over the slip coefficients, then `/= delta`) -/
theorem drift_is_code (slip : List α) (ax1 : Ruler α) (delta0 : α) (pw : Nat → Nat → α) (y : Nat) :
    driftOffset slip ax1 delta0 pw y
      = Gen.driftFinish ((List.range slip.length).foldl
          (fun v i => v + Gen.driftTerm (slip.getD i zero) (ax1.at y) (pw y i)) Gen.driftInit) delta0 := rfl

/-- … and the base of the power it uses -/
theorem drift_pow_base_is_code (ax1 : Ruler α) (scaleEV e0 : α) (y : Nat) :
    driftPowBase ax1 scaleEV e0 y = Gen.driftPowBase (ax1.at y) scaleEV e0 := rfl

/-- wake scaling argument of the delegating `ElectricField` constructor (uses the ENERGY cell size
    `delta1`; the position cell size `delta0` does not enter) -/
theorem wake_scaling_is_code (ib dt clight qscale delta0 delta1 sdelta e0 : α) :
    wakeScalingArg ib dt clight qscale delta1 sdelta e0
      = Gen.wakeScalingArg ib dt clight qscale delta0 delta1 sdelta e0 := rfl


end Inovesa.Props.TieDrift
