/-
  Tie theorems (axes: Ruler<float>): hand-written model definitions proved EQUAL to definitions regenerated from the C++ source on
  every run (Gen/*.lean).  The hand definitions are what the lemmas and property theorems unfold; the generated ones are
  what the code says now.  A change of the source expression makes the proof fail, and every check that lists this
  module reports its property as no longer shown (and searches for a failing input).  One module per translator
  fragment, so that a fragment that cannot be translated any more only affects the properties that depend on it.
-/
import InovesaModel.Model.Ruler
import InovesaModel.Gen.Ruler
namespace Inovesa.Props.TieRuler
open Inovesa

variable {α : Type} [Arith α] [NatCast α]

/-- `Ruler::_delta` -/
theorem ruler_delta_is_code (r : Ruler α) : r.delta = Gen.rulerDelta r.steps r.min r.max := rfl

/-- `Ruler::_zerobin` -/
theorem ruler_zerobin_is_code (r : Ruler α) : r.zerobin = Gen.rulerZerobin r.steps r.min r.max := rfl

/-- `Ruler::at(i)` (the value the constructor's fill loop stores) -/
theorem ruler_at_is_code (r : Ruler α) (i : Nat) : r.at i = Gen.rulerAt r.min r.delta i := rfl

end Inovesa.Props.TieRuler
