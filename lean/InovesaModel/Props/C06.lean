/-
  C06 — wake potential = discrete convolution of the bunch profiles with the impedance.
  Reference transforms = naive sums with a twiddle table `tw` (`naiveTransforms`); FFTW is
  assumed (and validated numerically by the correspondence check) to compute these sums.
-/
import InovesaModel.Lemmas.EF
import InovesaModel.Props.C18
namespace Inovesa.Props.C06
open Inovesa Inovesa.Props.C18

variable {α : Type} [Field α]

/-- the wake potential as a function of the current profiles only: inverse transform of
    `Z ⊙ DFT(pad prof)` (impedance restricted to `k < N/2`), read back at the bunch position,
    times the scaling -/
def wakeOf (c : EFConst α) (tw : Nat → Cx α) (prof : Nat → Nat → α) (b x : Nat) : α :=
  c.wakescaling *
    c2rNaive c.nmax tw 2
      (fun k => if k < c.nmax / 2 then Cx.mul (c.z k) (dftNaive c.nmax tw (padProfiles c prof) k)
                else ((0 : α), (0 : α)))
      (c.bucket b * c.spacing + x)

/-- the state machine computes `wakeOf`, from any reachable state -/
theorem wake_is_spec (c : EFConst α) (tw : Nat → Cx α) (s : EFState α) (h : Inv c s)
    (prof : Nat → Nat → α) :
    (efWake c (naiveTransforms c.nmax tw 2) prof s).wake = wakeOf c tw prof := by
  rw [efWake_wake_naive c tw 2 s h.2 prof]
  rfl

/-- buckets whose windows `[bucket b·spacing, +n)` are pairwise disjoint: padding places
    every profile at its bucket position and zero everywhere else -/
theorem pad_places (c : EFConst α) (prof : Nat → Nat → α)
    (hdisj : ∀ b b', b < c.nb → b' < c.nb → b ≠ b' →
      c.bucket b * c.spacing + c.n ≤ c.bucket b' * c.spacing ∨
      c.bucket b' * c.spacing + c.n ≤ c.bucket b * c.spacing) :
    (∀ b x, b < c.nb → x < c.n → padProfiles c prof (c.bucket b * c.spacing + x) = prof b x) ∧
    (∀ i, (∀ b, b < c.nb → ¬ (c.bucket b * c.spacing ≤ i ∧ i < c.bucket b * c.spacing + c.n)) →
      padProfiles c prof i = 0) := by
  constructor
  · intro b x hb hx
    exact padFold_inside c prof hdisj c.nb (Nat.le_refl _) b x hb hx
  · intro i h
    exact padFold_outside c prof c.nb i h

/-- padding is linear in the profiles (also with overlapping windows) -/
theorem pad_linear (c : EFConst α) (p q : Nat → Nat → α) (a : α) (i : Nat) :
    padProfiles c (fun b x => a * p b x + q b x) i
      = a * padProfiles c p i + padProfiles c q i :=
  padProfiles_linear c p q a i

/-- the wake potential is linear in the profiles -/
theorem wake_linear (c : EFConst α) (tw : Nat → Cx α) (p q : Nat → Nat → α) (a : α) (b x : Nat) :
    wakeOf c tw (fun b x => a * p b x + q b x) b x = a * wakeOf c tw p b x + wakeOf c tw q b x := by
  unfold wakeOf
  have hp : padProfiles c (fun b x => a * p b x + q b x)
      = fun i => a * padProfiles c p i + padProfiles c q i :=
    funext fun i => padProfiles_linear c p q a i
  rw [hp, wake_half_linear]
  ring

/-- only the impedance samples `k < N/2` (non-negative frequencies below Nyquist) enter -/
theorem half_spectrum (c c' : EFConst α) (tw : Nat → Cx α) (prof : Nat → Nat → α)
    (hsame : c' = { c with z := c'.z }) (hz : ∀ k, k < c.nmax / 2 → c.z k = c'.z k) (b x : Nat) :
    wakeOf c tw prof b x = wakeOf c' tw prof b x := by
  have key : ∀ zz : Nat → Cx α, (∀ k, k < c.nmax / 2 → c.z k = zz k) →
      wakeOf c tw prof b x = wakeOf { c with z := zz } tw prof b x := by
    intro zz hzz
    have hf : (fun k => if k < c.nmax / 2 then
          Cx.mul (c.z k) (dftNaive c.nmax tw (padProfiles c prof) k) else ((0 : α), (0 : α)))
        = (fun k => if k < c.nmax / 2 then
          Cx.mul (zz k) (dftNaive c.nmax tw (padProfiles c prof) k) else ((0 : α), (0 : α))) := by
      funext k
      by_cases hk : k < c.nmax / 2
      · simp only [hk, if_true, hzz k hk]
      · simp only [hk, if_false]
    show c.wakescaling * c2rNaive c.nmax tw 2 _ _ = c.wakescaling * c2rNaive c.nmax tw 2 _ _
    rw [hf]
    rfl
  rw [hsame]
  exact key c'.z hz

/-- scaling: `_wakescaling·N = Ib·dt·c/(σ_z·ΔE_cell)` with `ΔE_cell = δ_p·σ_δ·E0` -/
theorem wake_scale (ib dt cl sz dp sd e0 nmax : α) (h1 : sz ≠ 0) (h2 : dp ≠ 0) (h3 : sd ≠ 0)
    (h4 : e0 ≠ 0) (h5 : nmax ≠ 0) :
    (ib * dt * cl / sz / (dp * sd * e0) / nmax) * nmax = ib * dt * cl / (sz * (dp * sd * e0)) := by
  field_simp

/-- Shift: if the twiddles obey the group law (`tw (a+b mod N) = tw a · tw b`, `tw 0 = 1`),
    cyclically shifting the padded train by `d` cells shifts the inverse transform of
    `Z ⊙ DFT` by `d` cells. -/
theorem wake_shift (nmax : Nat) (hN : 0 < nmax) (tw : Nat → Cx α) (z : Nat → Cx α)
    (htw0 : tw 0 = ((1 : α), (0 : α)))
    (htw : ∀ a b, a < nmax → b < nmax → tw ((a + b) % nmax) = Cx.mul (tw a) (tw b))
    (hunit : ∀ a, a < nmax → Cx.mul (tw a) (Cx.conj (tw a)) = ((1 : α), (0 : α)))
    (rho : Nat → α) (d : Nat) (hd : d < nmax) (x : Nat) (hx : x < nmax) :
    c2rNaive nmax tw 2
        (fun k => if k < nmax / 2 then
            Cx.mul (z k) (dftNaive nmax tw (fun i => rho ((i + nmax - d) % nmax)) k)
          else ((0 : α), (0 : α))) ((x + d) % nmax)
      = c2rNaive nmax tw 2
        (fun k => if k < nmax / 2 then Cx.mul (z k) (dftNaive nmax tw rho k)
          else ((0 : α), (0 : α))) x :=
  wake_shift_naive nmax hN tw z htw0 htw hunit rho d hd x

/-- non-vacuity of the twiddle hypotheses: N = 4 over ℚ with ω = -i -/
example : ∃ tw : Nat → Cx ℚ, tw 0 = (1, 0) ∧
    (∀ a b, a < 4 → b < 4 → tw ((a + b) % 4) = Cx.mul (tw a) (tw b)) := by
  refine ⟨fun n => if n = 0 then (1, 0) else if n = 1 then (0, -1) else if n = 2 then (-1, 0)
    else (0, 1), by simp, ?_⟩
  intro a b ha hb
  interval_cases a <;> interval_cases b <;> simp [Cx.mul]

end Inovesa.Props.C06
