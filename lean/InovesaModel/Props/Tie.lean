/-
  Tie theorems: hand-written model definitions that are proved EQUAL (by `rfl`) to definitions
  regenerated from the C++ source on every run.  The hand definitions are what the lemmas and
  property theorems unfold; the generated ones are what the code says now.  A change of the source
  expression makes the `rfl` fail, and every check that lists this module reports its property as
  no longer shown (and searches for a failing input).
-/
import InovesaModel.Model.Ruler
import InovesaModel.Gen.Ruler
import InovesaModel.Model.RFDrift
import InovesaModel.Gen.RFOffsets
import InovesaModel.Gen.DriftWake
import InovesaModel.Model.KickMap
import InovesaModel.Gen.ApplyTo
import InovesaModel.Gen.KickApply
import InovesaModel.Gen.UpdateSM
import InovesaModel.Gen.EFIndex
import InovesaModel.Model.PhaseSpace
import InovesaModel.Gen.Moments
import InovesaModel.Lemmas.Field
import Mathlib.Tactic.Ring
import InovesaModel.Model.ElectricField
namespace Inovesa.Props.Tie
open Inovesa

variable {α : Type} [Arith α] [NatCast α]

/-- `Ruler::_delta` -/
theorem ruler_delta_is_code (r : Ruler α) : r.delta = Gen.rulerDelta r.steps r.min r.max := rfl

/-- `Ruler::_zerobin` -/
theorem ruler_zerobin_is_code (r : Ruler α) : r.zerobin = Gen.rulerZerobin r.steps r.min r.max := rfl

/-- `Ruler::at(i)` (the value the constructor's fill loop stores) -/
theorem ruler_at_is_code (r : Ruler α) (i : Nat) : r.at i = Gen.rulerAt r.min r.delta i := rfl

/-- `RFKickMap::_calcKick`, linear RF: displacement of column `x` -/
theorem rf_linear_is_code (tanv xcenter bl2phase delta0 syncphase phase ampl : α) (x : Nat) :
    rfOffsetLinear tanv xcenter bl2phase delta0 syncphase phase ampl x
      = Gen.rfOffsetLinear tanv xcenter bl2phase delta0 syncphase phase ampl x := rfl

/-- `RFKickMap::_calcKick`, sinusoidal RF -/
theorem rf_sin_is_code (revpart vrf v0 delta1 scaleEV ampl : α) (sinv : Nat → α) (x : Nat) :
    rfOffsetSin revpart vrf v0 delta1 scaleEV ampl sinv x
      = Gen.rfOffsetSin revpart vrf v0 delta1 scaleEV ampl sinv x := rfl

/-- … and the argument of its sine -/
theorem rf_sin_arg_is_code (ax0 : Ruler α) (bl2phase phase : α) (x : Nat) :
    rfSinArg ax0 bl2phase phase x = Gen.rfSinArg ax0.at bl2phase phase x := rfl

/-- `DriftMap::DriftMap`: displacement of row `y` (sum over the slip coefficients, then `/= delta`) -/
theorem drift_is_code (slip : List α) (ax1 : Ruler α) (delta0 : α) (pw : Nat → Nat → α) (y : Nat) :
    driftOffset slip ax1 delta0 pw y
      = Gen.driftFinish ((List.range slip.length).foldl
          (fun v i => v + Gen.driftTerm (slip.getD i zero) (ax1.at y) (pw y i)) Gen.driftInit) delta0 := rfl

/-- … and the base of the power it uses -/
theorem drift_pow_base_is_code (ax1 : Ruler α) (scaleEV e0 : α) (y : Nat) :
    driftPowBase ax1 scaleEV e0 y = Gen.driftPowBase (ax1.at y) scaleEV e0 := rfl

/-- wake scaling argument of the delegating `ElectricField` constructor (uses the ENERGY cell size
    `delta1`; the position cell size `delta0` does not enter) -/
theorem wake_scaling_is_code (ib dt clight qscale delta0 delta1 sdelta e0 : α) :
    wakeScalingArg ib dt clight qscale delta1 sdelta e0
      = Gen.wakeScalingArg ib dt clight qscale delta0 delta1 sdelta e0 := rfl

/-- `KickMap::applyTo` (both directions): guard, interpolated displacement and clamp -/
theorem applyTo_is_code [MinMax α] (n : Nat) (off : Nat → α) (p : α) (i : Nat) (fr : α) :
    applyToCoord n off p i fr
      = MinMax.max (lit 1 1 0x3f800000)
          (MinMax.min (if i + 1 < n then p - Gen.applyToDisp off i fr else p)
            (((n - Gen.applyToClamp.2 : Nat)) : α)) ∧ Gen.applyToClamp.1 = 1 := ⟨rfl, rfl⟩

/-- `PhaseSpace::average`: plain sum of `projection·coordinate`, scaled by `delta/_filling[n]`
    (the bunch's own measured charge), 0 for an empty bucket -/
theorem average_is_code (n : Nat) (pos : Bool) (proj qp : Nat → α) (delta fill : α) :
    averageOf n pos proj qp delta fill
      = if pos then ((List.range n).foldl (fun acc i => acc + Gen.avgTerm (proj i) (qp i)) Gen.avgInit)
                      * Gen.avgScale delta fill
        else Gen.avgInit := rfl

/-- `PhaseSpace::variance`: sum of `projection·(coordinate − mean)²` about the mean just computed,
    same scale -/
theorem variance_is_code [VarAcc α] (n : Nat) (pos : Bool) (proj qp : Nat → α) (mean delta fill : α) :
    varianceOf n pos proj qp mean delta fill
      = if pos then ((List.range n).foldl (fun acc i => VarAcc.accSq acc (proj i) (Gen.varDev (qp i) mean)) Gen.varInit)
                      * Gen.varScale delta fill
        else Gen.varInit := rfl

/-! ### index arithmetic of `KickMap::apply` (square grids: `kd = pd = n`) -/

/-- the source cell addressed through a table entry, both directions (`srcCell` of the model) -/
theorem kick_src_is_code (n x y idx : Nat) :
    srcCell n y idx = Gen.kickYSrc n n x y idx ∧ srcCell n x idx = Gen.kickXSrc n n x y idx := ⟨rfl, rfl⟩

/-- the table row used: y-kick `min b lastbunch * n + x` (historic defect A: the stride `_ip` was applied to
    `x` only), x-kick row `y`; entry `j` of a row of `ip` entries -/
theorem kick_table_index_is_code (b lastbunch n ip x y j : Nat) :
    Gen.kickYTab b lastbunch n n ip x y j = (min b lastbunch * n + x) * ip + j ∧
    Gen.kickXTab b lastbunch n n ip x y j = y * ip + j := ⟨rfl, rfl⟩

/-- a source cell is read only below the line length, from the addresses the model's `applyY`/`applyX` use
    (`data (b*n*n + x*n + s)` resp. `data (b*n*n + s*n + y)`), and the result goes to cell `b*n*n + x*n + y`,
    the position of the model's output list -/
theorem kick_addresses_are_code (b n x y s : Nat) :
    Gen.kickYGuard n n = n ∧ Gen.kickXGuard n n = n ∧
    Gen.kickYRead b n n x y s = b * n * n + x * n + s ∧ Gen.kickXRead b n n x y s = b * n * n + s * n + y ∧
    Gen.kickYWrite b n n x y = b * n * n + x * n + y ∧ Gen.kickXWrite b n n x y = b * n * n + x * n + y :=
  ⟨rfl, rfl, rfl, rfl, rfl, rfl⟩

/-- the loops run over all bunches, all cells and all table entries -/
theorem kick_loops_are_code (nb n ip : Nat) :
    Gen.kickYBounds nb n n ip = [nb, n, n, ip] ∧ Gen.kickXBounds nb n n ip = [nb, n, n, ip] := ⟨rfl, rfl⟩

/-! ### index arithmetic of `KickMap::updateSM` -/

/-- the source position of a row is the INTEGER grid centre `n/2` (the one `apply` subtracts again) plus the
    displacement — the argument of `ModF.modf` in `smRow` -/
theorem updateSM_position_is_code (n : Nat) (off : α) :
    (((n / 2 : Nat) : α) + off) = Gen.updPoffs n off := rfl

/-- stencil index of entry `j1`, for the interpolation orders that exist (unsigned arithmetic of the C++ on
    the left, the model's expression on the right) -/
theorem updateSM_index_is_code (jd j1 it : Nat) (h1 : 1 ≤ it) (h2 : it < 4294967296) :
    Gen.updJ0 jd j1 it = (jd + j1 + W32 - (it - 1) / 2) % W32 := by
  have h : (it + 4294967296 - 1) % 4294967296 = it - 1 := by omega
  simp only [Gen.updJ0, W32, h]

/-- guards, the row of zeros for positions outside, the index stored with weight 0, and the table slot -/
theorem updateSM_guards_are_code (n i ip j1 : Nat) :
    Gen.updGuard n = n ∧ Gen.updJdOutside n = n ∧ Gen.updFallback n = n / 2 ∧ Gen.updFallbackRow n = n / 2 ∧
    Gen.updSlot i ip j1 = i * ip + j1 := ⟨rfl, rfl, rfl, rfl, rfl⟩

/-! ### `ElectricField`: where profiles are placed, where the wake is read, point-wise formulas -/

/-- `wakePotential()`: the wake of bunch `b` at cell `x` is the wake scaling times the padded wake at the
    GENERATED index `bucket[b]*spacing + x` -/
theorem ef_wake_read_is_code (c : EFConst α) (t : Transforms α) (prof : Nat → Nat → α) (s : EFState α) (b x : Nat) :
    (efWake c t prof s).wake b x
      = c.wakescaling * (efWake c t prof s).wp (Gen.efWakeRead (c.bucket b) c.spacing x) := rfl

/-- the impedance enters for `k < nmax/2` only (bound of the loss loop), all bunches and cells are read back -/
theorem ef_wake_loops_are_code (nmax nb nx : Nat) :
    Gen.efLossBound nmax = nmax / 2 ∧ Gen.efWakeLoops nb nx = [nb, nx] := ⟨rfl, rfl⟩

/-- `padBunchProfiles()`: bunch `b` (cells `b*nx … b*nx+nx-1` of the projection) goes to the window starting at
    `bucket[b]*spacing` — the `o` of the model's `padProfiles` — after the whole buffer was cleared -/
theorem ef_pad_is_code (c : EFConst α) (b : Nat) :
    Gen.efPadDest (c.bucket b) c.spacing = c.bucket b * c.spacing ∧ Gen.efPadCount c.n = c.n ∧
    Gen.efPadSrc b c.n = b * c.n ∧ Gen.efPadLoops c.nb = [c.nb] := ⟨rfl, rfl, rfl, rfl⟩

/-- `updateCSR()`: spectrum `renorm·Re Z·|F|²` of the bunch just transformed -/
theorem ef_spectrum_is_code (c : EFConst α) (t : Transforms α) (prof : Nat → Nat → α) (s : EFState α) (b i : Nat) :
    (efCSRBunch c t prof s b).spec b i
      = Gen.efSpectrum (c.renorm i) (c.z i).1 (Cx.norm ((efCSRBunch c t prof s b).ff i)) := by
  simp [efCSRBunch, Gen.efSpectrum]

/-- … summed with the frequency step over all `nmax` samples; one profile of `n` cells at the buffer start -/
theorem ef_csr_loops_are_code (c : EFConst α) (df sp : α) :
    Gen.efCSRLoops c.nmax = [c.nmax] ∧ Gen.efCSRCount c.n = c.n ∧ Gen.efPowerTerm df sp = df * sp := ⟨rfl, rfl, rfl⟩

/-! ### stochastic tracking model, directly on the generated statement -/
section stochastic
variable {β : Type} [Field β]

/-- the GENERATED stochastic step moves the ensemble mean towards the zero bin of the energy axis by the
    factor `1 − e1` per step (the noise has mean 0) — cf. `C15.stochastic_mean`, here on the code as it is now;
    the pre-fix statement damped `y` itself, i.e. towards grid row 0 (`C15.old_recurrence_mean`) -/
theorem stoch_mean_is_code (m yc e1 : β) : (m - Gen.stochSub m yc e1 0) - yc = (1 - e1) * (m - yc) := by
  simp only [Gen.stochSub]; ring

/-- and it is clamped to rows `1 … n−1` -/
theorem stoch_clamp_is_code : Gen.stochClamp = (1, 1) := rfl

end stochastic

end Inovesa.Props.Tie
