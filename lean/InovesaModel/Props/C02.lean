/-
  C02 — whole-cell shifts are lossless; fractional shifts reproduce polynomials.
  Property theorems only (helper lemmas live in InovesaModel/Lemmas/*).
  All statements are about the *generated* weights `Gen.coeff` (translator fragment G1,
  from SourceMap::calcCoefficiants) and the hand model of KickMap::updateSM/apply
  (Model/KickMap.lean, tied to the C++ by the correspondence check).
  Scalars: any field of characteristic zero = real-arithmetic semantics of the float code.
-/
import InovesaModel.Lemmas.Kick
namespace Inovesa.Props.C02
open Inovesa Inovesa.Gen

variable {α : Type} [Field α] [CharZero α]

/-- zero extension of a grid line to all integers (what the unsigned-wrap bounds test of
    `KickMap::apply` implements) -/
def rdz (n : Nat) (rd : Nat → α) (i : Int) : α := if 0 ≤ i ∧ i < n then rd i.toNat else 0

/-- interpolation orders the code supports -/
def ValidIt (it : Nat) : Prop := it = 1 ∨ it = 2 ∨ it = 3 ∨ it = 4

/-- the weights sum to one, for every fractional offset and every order -/
theorem coeff_sum_one (it : Nat) (h : ValidIt it) (f : α) : (coeff it f).sum = 1 :=
  coeff_sum_one' it h f

/-- `it` weights are written -/
theorem coeff_length (it : Nat) (h : ValidIt it) (f : α) : (coeff it f).length = it :=
  coeff_length' it h f

/-- at offset zero the weights collapse to a single unit weight at position `(it-1)/2` -/
theorem coeff_at_zero (it : Nat) (h : ValidIt it) (j : Nat) (hj : j < it) :
    (coeff it (0 : α)).getD j 0 = if j = (it - 1) / 2 then 1 else 0 :=
  coeff_at_zero' it h j hj

/-- The `it`-point scheme reproduces every polynomial of degree `< it`:
    `Σ_j w_j(f) · P(j − (it−1)/2) = P(f)`.  `P(t) = a0 + a1 t + a2 t² + a3 t³` with the
    coefficients of degree `≥ it` forced to zero. -/
theorem poly_repro (it : Nat) (h : ValidIt it) (f a0 a1 a2 a3 : α)
    (h1 : it ≤ 1 → a1 = 0) (h2 : it ≤ 2 → a2 = 0) (h3 : it ≤ 3 → a3 = 0) :
    let P : α → α := fun t => a0 + a1 * t + a2 * t ^ 2 + a3 * t ^ 3
    (((List.range it).map fun j =>
        (coeff it f).getD j 0 * P ((j : α) - (((it - 1) / 2 : Nat) : α))).sum) = P f := by
  intro P
  exact poly_repro' it h f a0 a1 a2 a3 h1 h2 h3

/-- FULL-STRENGTH statement (as the property reads): one destination cell of a kicked line
    holds `Σ_j w_j(xip)·in[y + (jd − n/2) + j − (it−1)/2]`, cells outside `[0,n)` reading as 0,
    for EVERY row with `jd < n`.  This is FALSE of the code (`applyCell_smRow_full_false`):
    `updateSM` stores weight `w_j` only if the *table index* `jd + j − (it−1)/2` (uint32) is
    `< n`, otherwise `{n/2, 0}`; rows within `(it−1)/2` cells of the table edge (displacements
    of about half the grid) lose weights although source and destination are inside the grid.
    Proved part: `applyCell_smRow_partial` (stencil of the row inside the table); exact
    unconditional form: `Inovesa.applyCell_smRow_trunc` (Lemmas/Kick.lean). -/
def ApplyCellSmRowFull : Prop :=
  ∀ (β : Type) [Field β] [CharZero β] (n it jd : Nat), ValidIt it → n < 2 ^ 31 → jd < n →
    ∀ (xip : β) (rd : Nat → β) (y : Nat), y < n →
    applyCell n (smRowOf n it jd xip) rd y
      = ((List.range it).map fun j =>
          (coeff it xip).getD j 0 *
            rdz n rd ((y : Int) + ((jd : Int) - ((n / 2 : Nat) : Int)) + (j : Int)
                       - (((it - 1) / 2 : Nat) : Int))).sum

/-- witness: n = 4, linear interpolation, jd = 3 (displacement +1.5 cells), constant data:
    destination 0 receives 1/2 instead of 1 -/
theorem applyCell_smRow_full_false : ¬ ApplyCellSmRowFull := by
  intro H
  have h := H ℚ 4 2 3 (Or.inr (Or.inl rfl)) (by norm_num) (by norm_num) (1 / 2) (fun _ => 1) 0 (by norm_num)
  rw [edge_row_const] at h
  simp [List.range_succ, rdz, coeff] at h

/-- proved part of `ApplyCellSmRowFull`: additionally the `it` table entries of the row address
    cells of the grid (`(it−1)/2 ≤ jd`, `jd + (it−1) − (it−1)/2 < n`) -/
theorem applyCell_smRow_partial (n it jd : Nat) (hit : ValidIt it) (hn : n < 2 ^ 31)
    (hjd : jd < n) (hst_lo : (it - 1) / 2 ≤ jd) (hst_hi : jd + (it - 1) - (it - 1) / 2 < n)
    (xip : α) (rd : Nat → α) (y : Nat) (hy : y < n) :
    applyCell n (smRowOf n it jd xip) rd y
      = ((List.range it).map fun j =>
          (coeff it xip).getD j 0 *
            rdz n rd ((y : Int) + ((jd : Int) - ((n / 2 : Nat) : Int)) + (j : Int)
                       - (((it - 1) / 2 : Nat) : Int))).sum :=
  applyCell_smRow_stencilIn n it jd (by unfold ValidIt at hit; omega) hn hjd ⟨hst_lo, hst_hi⟩
    xip rd y hy

/-- rows whose integer part is outside the grid are zeroed -/
theorem applyCell_outside (n it jd : Nat) (hjd : n ≤ jd) (xip : α) (rd : Nat → α) (y : Nat) :
    applyCell n (smRowOf n it jd xip) rd y = 0 :=
  applyCell_outside' n it jd hjd xip rd y

/-- Whole-cell displacement (fractional part 0): the same values moved by `D = jd − n/2`
    cells, zeros flowing in from outside the grid. -/
theorem shift_whole_cell (n it jd : Nat) (hit : ValidIt it) (hn : n < 2 ^ 31) (hjd : jd < n)
    (rd : Nat → α) (y : Nat) (hy : y < n) :
    applyCell n (smRowOf n it jd (0 : α)) rd y
      = rdz n rd ((y : Int) + ((jd : Int) - ((n / 2 : Nat) : Int))) :=
  shift_whole_cell' n it jd hit hn hjd rd y hy

/-- FULL-STRENGTH statement: fractional displacement of polynomial data reproduces the
    polynomial on every destination cell whose source cells are inside the grid.  FALSE of
    the code for rows at the table edge (same cause as `ApplyCellSmRowFull`);
    proved part: `poly_repro_grid_partial`. -/
def PolyReproGridFull : Prop :=
  ∀ (β : Type) [Field β] [CharZero β] (n it jd : Nat), ValidIt it → n < 2 ^ 31 → jd < n →
    ∀ (xip a0 a1 a2 a3 : β),
    (it ≤ 1 → a1 = 0) → (it ≤ 2 → a2 = 0) → (it ≤ 3 → a3 = 0) →
    ∀ (rd : Nat → β) (y : Nat), y < n →
    (0 : Int) ≤ (y : Int) + ((jd : Int) - ((n / 2 : Nat) : Int)) - (((it - 1) / 2 : Nat) : Int) →
    (y : Int) + ((jd : Int) - ((n / 2 : Nat) : Int)) + (it : Int) - 1
              - (((it - 1) / 2 : Nat) : Int) < n →
    (∀ s : Nat, s < n → rd s = a0 + a1 * (s : β) + a2 * (s : β) ^ 2 + a3 * (s : β) ^ 3) →
    applyCell n (smRowOf n it jd xip) rd y
      = a0 + a1 * ((y : β) + ((jd : β) - ((n / 2 : Nat) : β)) + xip)
           + a2 * ((y : β) + ((jd : β) - ((n / 2 : Nat) : β)) + xip) ^ 2
           + a3 * ((y : β) + ((jd : β) - ((n / 2 : Nat) : β)) + xip) ^ 3

theorem poly_repro_grid_full_false : ¬ PolyReproGridFull := by
  intro H
  have h := H ℚ 4 2 3 (Or.inr (Or.inl rfl)) (by norm_num) (by norm_num)
    (1 / 2) 1 0 0 0 (fun _ => rfl) (fun _ => rfl) (fun _ => rfl) (fun _ => 1) 0 (by norm_num)
    (by norm_num) (by norm_num) (by intro s _; simp)
  rw [edge_row_const] at h
  norm_num at h

/-- proved part of `PolyReproGridFull`: additionally the stencil of the row lies in the table -/
theorem poly_repro_grid_partial (n it jd : Nat) (hit : ValidIt it) (hn : n < 2 ^ 31)
    (hjd : jd < n) (hst_lo : (it - 1) / 2 ≤ jd) (hst_hi : jd + (it - 1) - (it - 1) / 2 < n)
    (xip a0 a1 a2 a3 : α)
    (h1 : it ≤ 1 → a1 = 0) (h2 : it ≤ 2 → a2 = 0) (h3 : it ≤ 3 → a3 = 0)
    (rd : Nat → α) (y : Nat) (hy : y < n)
    (hlo : (0 : Int) ≤ (y : Int) + ((jd : Int) - ((n / 2 : Nat) : Int)) - (((it - 1) / 2 : Nat) : Int))
    (hhi : (y : Int) + ((jd : Int) - ((n / 2 : Nat) : Int)) + (it : Int) - 1
              - (((it - 1) / 2 : Nat) : Int) < n)
    (hrd : ∀ s : Nat, s < n →
        rd s = a0 + a1 * (s : α) + a2 * (s : α) ^ 2 + a3 * (s : α) ^ 3) :
    let t : α := (y : α) + ((jd : α) - ((n / 2 : Nat) : α)) + xip
    applyCell n (smRowOf n it jd xip) rd y = a0 + a1 * t + a2 * t ^ 2 + a3 * t ^ 3 := by
  intro t
  exact poly_repro_grid' n it jd hit hn hjd ⟨hst_lo, hst_hi⟩ xip a0 a1 a2 a3 h1 h2 h3 rd y hy
    hlo hhi hrd

/-- non-vacuity: the hypotheses of `poly_repro_grid_partial` (including the two added ones)
    are met by the concrete cubic case of the example below -/
example : (4 - 1) / 2 ≤ 9 ∧ 9 + (4 - 1) - (4 - 1) / 2 < 16 := by norm_num

/-- non-vacuity: the hypotheses of `poly_repro_grid` are met by a concrete cubic case -/
example : ValidIt 4 ∧ (16 : Nat) < 2 ^ 31 ∧ (9 : Nat) < 16 ∧
    (0 : Int) ≤ (5 : Int) + ((9 : Int) - ((16 / 2 : Nat) : Int)) - (((4 - 1) / 2 : Nat) : Int) ∧
    (5 : Int) + ((9 : Int) - ((16 / 2 : Nat) : Int)) + (4 : Int) - 1
        - (((4 - 1) / 2 : Nat) : Int) < 16 := by
  refine ⟨Or.inr (Or.inr (Or.inr rfl)), by norm_num, by norm_num, by norm_num, by norm_num⟩

end Inovesa.Props.C02
