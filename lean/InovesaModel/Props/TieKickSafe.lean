/-
  Memory safety of `KickMap::apply` and `KickMap::updateSM` stated directly on the index expressions REGENERATED
  from src/SM/KickMap.cpp and src/SM/SourceMap.cpp (Gen/KickApply.lean, Gen/UpdateSM.lean): every table slot read or
  written lies inside the allocation, every grid cell read or written inside the `nb·n·n` cells of the grid — for all
  grid sizes, bunch counts, interpolation orders and loop indices.
-/
import InovesaModel.Gen.KickApply
import InovesaModel.Gen.UpdateSM
import Mathlib.Tactic.Linarith
import Mathlib.Tactic.Ring
namespace Inovesa.Props.TieKickSafe
open Inovesa

theorem mul_add_lt {a b c d : Nat} (ha : a < c) (hb : b < d) : a * d + b < c * d := by
  have h1 : (a + 1) * d ≤ c * d := Nat.mul_le_mul_right d ha
  have h2 : (a + 1) * d = a * d + d := by ring
  omega

/-- `apply`, kick along y: table slot inside the allocation, source and destination cells inside the grid -/
theorem kickY_in_bounds (nb n ip b lastbunch x y j s : Nat)
    (hb : b < nb) (hx : x < n) (hy : y < n) (hj : j < ip) (hs : s < Gen.kickYGuard n n) :
    Gen.kickYTab b lastbunch n n ip x y j < Gen.kickAlloc (Gen.kickMemsizeY n n nb ip) ∧
    Gen.kickYRead b n n x y s < nb * n * n ∧ Gen.kickYWrite b n n x y < nb * n * n := by
  simp only [Gen.kickYTab, Gen.kickAlloc, Gen.kickMemsizeY, Gen.kickYRead, Gen.kickYWrite, Gen.kickYGuard] at *
  have hm : min b lastbunch < nb := lt_of_le_of_lt (Nat.min_le_left _ _) hb
  have h1 : min b lastbunch * n + x < nb * n := mul_add_lt hm hx
  have h2 : (min b lastbunch * n + x) * ip + j < nb * n * ip := mul_add_lt h1 hj
  have h3 : b * n + x < nb * n := mul_add_lt hb hx
  have h4 : (b * n + x) * n + s < nb * n * n := mul_add_lt h3 hs
  have h5 : (b * n + x) * n + y < nb * n * n := mul_add_lt h3 hy
  refine ⟨lt_of_lt_of_le (by nlinarith [h2]) (le_max_left _ _), by nlinarith [h4], by nlinarith [h5]⟩

/-- `apply`, kick along x -/
theorem kickX_in_bounds (nb n ip b lastbunch x y j s : Nat)
    (hb : b < nb) (hx : x < n) (hy : y < n) (hj : j < ip) (hs : s < Gen.kickXGuard n n) :
    Gen.kickXTab b lastbunch n n ip x y j < Gen.kickAlloc (Gen.kickMemsizeX n n nb ip) ∧
    Gen.kickXRead b n n x y s < nb * n * n ∧ Gen.kickXWrite b n n x y < nb * n * n := by
  simp only [Gen.kickXTab, Gen.kickAlloc, Gen.kickMemsizeX, Gen.kickXRead, Gen.kickXWrite, Gen.kickXGuard] at *
  have hnb : 1 ≤ nb := by omega
  have h0 : y * ip + j < n * ip := mul_add_lt hy hj
  have h1 : n * ip ≤ n * nb * ip := by
    calc n * ip = n * 1 * ip := by ring
      _ ≤ n * nb * ip := Nat.mul_le_mul_right ip (Nat.mul_le_mul_left n hnb)
  have h3 : b * n + s < nb * n := mul_add_lt hb hs
  have h4 : (b * n + s) * n + y < nb * n * n := mul_add_lt h3 hy
  have h3' : b * n + x < nb * n := mul_add_lt hb hx
  have h5 : (b * n + x) * n + y < nb * n * n := mul_add_lt h3' hy
  refine ⟨lt_of_lt_of_le (lt_of_lt_of_le h0 h1) (le_max_left _ _), by nlinarith [h4], by nlinarith [h5]⟩

/-- `updateSM`: row `i` of `_offset` (`i < _offset.size()`), entry `j1 < it`: the slot written lies inside the
    allocation, for both kick directions (`ip = it`) -/
theorem updateSM_slot_in_bounds (nb n it i j1 : Nat) (hi : i < Gen.kickOffsetSize n nb) (hj : j1 < it) :
    Gen.updSlot i it j1 < Gen.kickAlloc (Gen.kickMemsizeY n n nb it) ∧
    Gen.updSlot i it j1 < Gen.kickAlloc (Gen.kickMemsizeX n n nb it) := by
  simp only [Gen.updSlot, Gen.kickAlloc, Gen.kickMemsizeY, Gen.kickMemsizeX, Gen.kickOffsetSize] at *
  have h : i * it + j1 < n * nb * it := mul_add_lt hi hj
  exact ⟨lt_of_lt_of_le h (le_max_left _ _), lt_of_lt_of_le h (le_max_left _ _)⟩

/-- non-vacuity -/
example : Gen.kickYTab 1 0 8 8 4 3 5 2 = (0 * 8 + 3) * 4 + 2 ∧ Gen.kickAlloc (Gen.kickMemsizeY 8 8 2 4) = 64 := by decide

end Inovesa.Props.TieKickSafe
