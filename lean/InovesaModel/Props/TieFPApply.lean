/-
  Tie theorems (FokkerPlanckMap::apply and Identity::apply; translator fragment G13, Gen/FPApply.lean, regenerated from
  the C++ on every run): the flattened addresses of the hand model `fpApply` (Model/FokkerPlanck.lean) are the generated
  ones, every bunch, every column and every row is visited, every address lies inside the grid, and the identity map
  copies the whole train.
-/
import InovesaModel.Model.FokkerPlanck
import InovesaModel.Gen.FPApply
namespace Inovesa.Props.TieFPApply
open Inovesa

/-- the loop nest visits bunch × x × y × table entry, in this order, each from 0 -/
theorem fp_apply_loops_are_code (nb n ip : Nat) : Gen.fpApplyBounds nb n n ip = [nb, n, n, ip] := rfl

/-- the cell read by the hand model, `data (b·n·n + x·n + s)`, is the generated read address (square grid) -/
theorem fp_apply_read_is_code (b n x s : Nat) :
    b * n * n + x * n + s = Gen.fpApplyRead (Gen.fpApplyOffs (Gen.fpApplyOffs1 b n n) x n) s := rfl

/-- position of the cell `(b, x, y)` in the list the hand model produces = generated write address -/
theorem fp_apply_write_is_code (b n x y : Nat) :
    b * n * n + x * n + y = Gen.fpApplyWrite (Gen.fpApplyOffs (Gen.fpApplyOffs1 b n n) x n) y := rfl

/-- table slot of entry `j` of row `y`: the rows are shared by all bunches and all columns -/
theorem fp_apply_table_is_code (y ip j : Nat) : Gen.fpApplyTab y ip j = y * ip + j := rfl

/-- every address written lies inside the grid of `nb·n·n` cells, and so does every address read whose table index
    is a row of the grid (which `C17.fp_reads_in_bounds` proves of the generated constructor) -/
theorem fp_apply_in_bounds (nb n b x y idx : Nat) (hb : b < nb) (hx : x < n) (hy : y < n) (hi : idx < n) :
    Gen.fpApplyWrite (Gen.fpApplyOffs (Gen.fpApplyOffs1 b n n) x n) y < nb * n * n
    ∧ Gen.fpApplyRead (Gen.fpApplyOffs (Gen.fpApplyOffs1 b n n) x n) idx < nb * n * n := by
  simp only [Gen.fpApplyWrite, Gen.fpApplyRead, Gen.fpApplyOffs, Gen.fpApplyOffs1]
  have h1 : x * n + n ≤ n * n := by
    calc x * n + n = (x + 1) * n := by rw [Nat.add_mul, Nat.one_mul]
      _ ≤ n * n := Nat.mul_le_mul_right n hx
  have h2 : b * n * n + n * n ≤ nb * n * n := by
    calc b * n * n + n * n = (b + 1) * (n * n) := by rw [Nat.add_mul, Nat.one_mul, Nat.mul_assoc]
      _ ≤ nb * (n * n) := Nat.mul_le_mul_right _ hb
      _ = nb * n * n := by rw [Nat.mul_assoc]
  constructor <;> omega

/-- the identity map (wake kick without impedance, Fokker-Planck step without damping) copies every cell of every bunch -/
theorem ident_copies_whole_train (nb n : Nat) : Gen.identCopyCount nb (n * n) = nb * n * n := by
  simp [Gen.identCopyCount, Nat.mul_assoc]

example : Gen.fpApplyRead (Gen.fpApplyOffs (Gen.fpApplyOffs1 1 4 4) 2 4) 3 = 27 := by decide

end Inovesa.Props.TieFPApply
