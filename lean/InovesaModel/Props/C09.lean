/-
  C09 — normalisation restores each bunch's charge share; moments are the true moments;
  a copy carries the same data, projections and integral.
  Statements about Model/PhaseSpace.lean (hand model of src/PS/PhaseSpace.cpp, validated
  bitwise on op sequences) in any field of characteristic 0.
-/
import InovesaModel.Lemmas.PS
namespace Inovesa.Props.C09
open Inovesa

variable {α : Type} [Field α] [CharZero α]

/-- charge of bunch `b` as the code measures it: Simpson integral of the Simpson-weighted
    x-projection of the grid -/
def chargeOf (n : Nat) (ws : Nat → α) (data : Nat → α) (b : Nat) : α :=
  fillingOf n ws (xprojOf n ws data) b

/-- the code's inner products are plain weighted sums -/
theorem innerProd_eq_sum (n : Nat) (f ws : Nat → α) :
    innerProd n f ws = ((List.range n).map fun i => f i * ws i).sum := by
  exact innerProd_eq_list_sum n f ws

/-- After `normalize` (computed from a *fresh* integral, i.e. `fill = chargeOf data`), a
    bunch with positive set filling and non-zero measured charge integrates to exactly
    its set share. -/
theorem normalize_exact (n : Nat) (ws : Nat → α) (data : Nat → α) (fset : Nat → α)
    (pos : Nat → Bool) (b : Nat) (hn : 0 < n) (hpos : pos b = true)
    (hfill : chargeOf n ws data b ≠ 0) :
    chargeOf n ws (normalizeOf n pos fset (chargeOf n ws data) data) b = fset b := by
  exact charge_normalize_exact n ws data fset pos b hpos hfill

/-- empty buckets (set filling ≤ 0) integrate to zero afterwards -/
theorem normalize_empty (n : Nat) (ws : Nat → α) (data : Nat → α) (fset fill : Nat → α)
    (pos : Nat → Bool) (b : Nat) (hn : 0 < n) (hpos : pos b = false) :
    chargeOf n ws (normalizeOf n pos fset fill data) b = 0 := by
  exact charge_normalize_neg n ws data fset fill pos b hpos

/-- the total after normalisation is the sum of the set shares of the occupied buckets
    (which the constructor requires to be one) -/
theorem normalize_total (n nb : Nat) (ws : Nat → α) (data : Nat → α) (fset : Nat → α)
    (pos : Nat → Bool) (hn : 0 < n)
    (hfill : ∀ b, b < nb → pos b = true → chargeOf n ws data b ≠ 0) :
    integralOf nb (chargeOf n ws (normalizeOf n pos fset (chargeOf n ws data) data))
      = ((List.range nb).map fun b => if pos b then fset b else 0).sum := by
  exact charge_normalize_total n nb ws data fset pos hfill

/-- With a stale integral (`fill ≠ chargeOf data`) the bunch ends at `fset·charge/fill`:
    the statement the code actually guarantees — `normalize` is only exact after a fresh
    `integrate` (relevant for C11: start from a results file). -/
theorem normalize_stale (n : Nat) (ws : Nat → α) (data : Nat → α) (fset fill : Nat → α)
    (pos : Nat → Bool) (b : Nat) (hn : 0 < n) (hpos : pos b = true) (hf : fill b ≠ 0) :
    chargeOf n ws (normalizeOf n pos fset fill data) b
      = fset b * (chargeOf n ws data b / fill b) := by
  unfold chargeOf
  rw [charge_normalize_pos n ws data fset fill pos b hpos]
  ring

/-- `average` is the first moment of the bunch's projection over the bunch's own charge:
    `(Σ_i proj_i·q_i·δ) / fill`. -/
theorem average_is_first_moment (n : Nat) (proj qp : Nat → α) (delta fill : α) (hf : fill ≠ 0) :
    averageOf n true proj qp delta fill
      = (((List.range n).map fun i => proj i * qp i * delta).sum) / fill := by
  exact averageOf_true n proj qp delta fill

/-- `variance` is the centred second moment of the bunch's projection over its charge -/
theorem variance_is_second_moment (n : Nat) (proj qp : Nat → α) (mean delta fill : α) (hf : fill ≠ 0) :
    varianceOf n true proj qp mean delta fill
      = (((List.range n).map fun i => proj i * (qp i - mean) ^ 2 * delta).sum) / fill := by
  exact varianceOf_true n proj qp mean delta fill

/-- empty buckets report zero moments -/
theorem moments_empty (n : Nat) (proj qp : Nat → α) (mean delta fill : α) :
    averageOf n false proj qp delta fill = 0 ∧ varianceOf n false proj qp mean delta fill = 0 := by
  exact ⟨averageOf_false n proj qp delta fill, varianceOf_false n proj qp mean delta fill⟩

/-- Frame: projections and charge of bunch `b` depend on no other bunch's data. -/
theorem projections_frame (n : Nat) (ws : Nat → α) (data data' : Nat → α) (b : Nat)
    (h : ∀ i, i < n * n → data (b * n * n + i) = data' (b * n * n + i)) :
    (∀ x, x < n → xprojOf n ws data b x = xprojOf n ws data' b x) ∧
    (∀ y, y < n → yprojOf n ws data b y = yprojOf n ws data' b y) ∧
    chargeOf n ws data b = chargeOf n ws data' b := by
  exact ⟨xprojOf_frame n ws data data' b h, yprojOf_frame n ws data data' b h,
    charge_frame n ws data data' b h⟩

/-- A state is *fresh* when its cached members are the ones computed from its data. -/
def Fresh (c : PSConst α) (s : PSState α) : Prop :=
  s.proj0 = (psXProj c s).proj0 ∧ s.proj1 = (psYProj c s).proj1 ∧
  s.filling = (psIntegrate c (psXProj c s)).filling ∧
  s.integral = (psIntegrate c (psXProj c s)).integral

/-- The copy carries the same data and freshly computed projections and integral. -/
theorem copy_data_and_fresh (c : PSConst α) (s : PSState α) :
    (psCopy c s).data = s.data ∧ Fresh c (psCopy c s) := by
  refine ⟨psCopy_data c s, ?_, ?_, ?_, ?_⟩
  · exact psConstruct_proj0 c s.data _ rfl
  · exact psConstruct_proj1 c s.data _ rfl
  · exact psConstruct_filling c s.data _ rfl
  · exact psConstruct_integral c s.data _ rfl

/-- the part of `copy_same` that holds as stated: projections, populations, integral -/
theorem copy_same_caches (c : PSConst α) (s : PSState α) (hs : Fresh c s) :
    (psCopy c s).proj0 = s.proj0 ∧ (psCopy c s).proj1 = s.proj1 ∧
    (psCopy c s).filling = s.filling ∧ (psCopy c s).integral = s.integral :=
  ⟨(psConstruct_proj0 c s.data s rfl).trans hs.1.symm,
   (psConstruct_proj1 c s.data s rfl).trans hs.2.1.symm,
   (psConstruct_filling c s.data s rfl).trans hs.2.2.1.symm,
   (psConstruct_integral c s.data s rfl).trans hs.2.2.2.symm⟩

/-- If the original is fresh, the copy has equal projections, bunch populations and
    integral, and reports equal moments after `variance`.  `hm` is the class invariant of the
    model's moment array (`_moment` has extent `[2][4][nb]` in the C++; the model's `average`
    writes with `setIfInBounds`).  Without it the statement is false of the *model*
    (`copy_same_needs_size`), which says nothing about the C++. -/
theorem copy_same (sq : α → α) (c : PSConst α) (s : PSState α) (hs : Fresh c s)
    (axis : Nat) (hm : s.mean.size = 2 * c.nb) :
    (psCopy c s).proj0 = s.proj0 ∧ (psCopy c s).proj1 = s.proj1 ∧
    (psCopy c s).filling = s.filling ∧ (psCopy c s).integral = s.integral ∧
    (psVariance sq c axis (psCopy c s)).mean.getD (axis * c.nb) 0
        = (psVariance sq c axis s).mean.getD (axis * c.nb) 0 := by
  obtain ⟨h0, h1, hf, hi⟩ := copy_same_caches c s hs
  exact ⟨h0, h1, hf, hi, copy_mean_same sq c s axis h0 h1 hf hm⟩

/-- the size invariant in `copy_same` cannot be dropped (model artefact, see above) -/
theorem copy_same_needs_size :
    ¬ ∀ (sq : α → α) (c : PSConst α) (s : PSState α), Fresh c s → ∀ axis : Nat,
      (psCopy c s).proj0 = s.proj0 ∧ (psCopy c s).proj1 = s.proj1 ∧
      (psCopy c s).filling = s.filling ∧ (psCopy c s).integral = s.integral ∧
      (psVariance sq c axis (psCopy c s)).mean.getD (axis * c.nb) 0
          = (psVariance sq c axis s).mean.getD (axis * c.nb) 0 := fun h =>
  C09cex.means_differ id (h id C09cex.cC C09cex.sC C09cex.sC_fresh 0).2.2.2.2

/-- the Gaussian start distribution (constructor called without data): the grid that `createFromProjections` leaves is
    the outer product of the two sampled Gaussians, normalised with the charge MEASURED ON THAT PRODUCT (projection and
    integral are refreshed before `normalize`; the call sequence is the generated one, `TiePS.create_sequence_is_code`) -/
theorem gaussian_start_data (c : PSConst α) (s : PSState α) :
    (psCreateFromProjections c s).data
      = (psNormalize c (psIntegrate c (psXProj c (psOuter c s)))).data := rfl

/-- hence every occupied bucket of the start distribution integrates to exactly its set share, whatever the width of the
    Gaussians (function-level statement: `d` the outer product, its own charge non-zero) -/
theorem gaussian_start_normalised (n : Nat) (ws g0 g1 : Nat → α) (fset : Nat → α) (pos : Nat → Bool) (b : Nat)
    (hn : 0 < n) (hpos : pos b = true)
    (hfill : chargeOf n ws (fun i => g0 (i / n % n) * g1 (i % n)) b ≠ 0) :
    chargeOf n ws (normalizeOf n pos fset (chargeOf n ws (fun i => g0 (i / n % n) * g1 (i % n)))
      (fun i => g0 (i / n % n) * g1 (i % n))) b = fset b :=
  normalize_exact n ws _ fset pos b hn hpos hfill

/-- and the state the constructor returns is fresh: its cached projections, populations and integral are those of the
    normalised grid -/
theorem gaussian_start_fresh (c : PSConst α) (g0 g1 : Nat → α) : Fresh c (psConstructGauss c g0 g1) := by
  unfold psConstructGauss
  exact ⟨rfl, rfl, rfl, rfl⟩

/-- non-vacuity: a one-bunch 3×3 state built by the constructor is fresh -/
example : Fresh (α := ℚ)
    { n := 3, nb := 1, ax0 := ⟨3, -1, 1⟩, ax1 := ⟨3, -1, 1⟩, fset := #[1], pos := #[true] }
    (psConstruct { n := 3, nb := 1, ax0 := ⟨3, -1, 1⟩, ax1 := ⟨3, -1, 1⟩, fset := #[1], pos := #[true] }
      #[0, 0, 0, 0, 1, 0, 0, 0, 0]) := by
  -- the term is elaborated with the executable `Lit ℚ` instance; transport to the field reading
  rw [ratLit_eq_fieldLit]
  exact psConstruct_fresh _ _

end Inovesa.Props.C09
