/-
  C20 — command line beats config file beats default; legacy aliases are honoured.
  Statements about Model/Options.lean (hand model of ProgramOptions::parse over the stated
  boost::program_options semantics) instantiated with the GENERATED option table
  (Gen/Options.lean).  Values are source tokens.
-/
import InovesaModel.Lemmas.Opt
namespace Inovesa.Props.C20
open Inovesa Inovesa.Gen

/-- value given for key `k` in a parsed source -/
def given (p : Parsed) (k : String) : Option (List String) := (p.find? (·.1 = k)).map (·.2)

/-- every key occurs at most once in a parsed source -/
def Once (p : Parsed) : Prop := (p.map (·.1)).Nodup

/-- the generated event skeleton of `parse` is the one the model implements -/
theorem skeleton_matches : parseSkeleton = expectedSkeleton := by
  decide +kernel

/-- `vmInsert`/`vmFind` behave like a finite map -/
theorem vmFind_insert (vm : VM) (k k' : String) (e : VMEntry) :
    vmFind (vmInsert vm k e) k' = if k' = k then some e else vmFind vm k' := by
  exact Inovesa.vmFind_insert vm k k' e

/-- `po::store`, one source in which every key occurs once: keys finalised by an earlier
    store are left alone; a given key replaces whatever was there and is explicit; other keys
    keep their entry, or get the described default (as a *defaulted* entry) if they had none. -/
theorem store_spec (desc : List OptSpec) (p : Parsed) (vm : VM) (final : List String)
    (hp : Once p) (vm' : VM) (final' : List String)
    (h : storeParsed desc p vm final = .ok (vm', final')) (k : String) :
    vmFind vm' k =
      (if final.contains k then
          (match vmFind vm k with
           | some e => some e
           | none => ((desc.find? (fun o => o.name = k ∧ o.default.isSome)).bind (·.default)).map
                        (fun d => { toks := [d], defaulted := true }))
       else match given p k with
        | some vals => some { toks := vals, defaulted := false }
        | none =>
          (match vmFind vm k with
           | some e => some e
           | none => ((desc.find? (fun o => o.name = k ∧ o.default.isSome)).bind (·.default)).map
                        (fun d => { toks := [d], defaulted := true }))) ∧
    (∀ k, final'.contains k = (final.contains k || (given p k).isSome)) := by
  exact store_spec' desc p vm final hp vm' final' h k

/-- well-formedness of the generated table that the precedence argument needs (decidable):
    apart from the compatibility variable `_hi`, no two differently named options are bound to
    the same variable; aliases are unbound, live in the config-file description only and have
    no default; their current names have a default. -/
def TableWF : Prop :=
  (∀ o ∈ optionDecls, ∀ o' ∈ optionDecls, o.var ≠ "" → o.var ≠ "_hi" → o.var = o'.var → o.name = o'.name) ∧
  (∀ ab ∈ optionAliases,
      (∀ o ∈ optionDecls, o.name = ab.1 → o.var = "" ∧ o.default = none ∧ o.group = "_compatopts_alias") ∧
      (∃ o ∈ optionDecls, o.name = ab.2 ∧ o.default.isSome))

theorem table_wf : TableWF := by
  exact ⟨decl_var_name, alias_wf⟩

/-- the documented default of option `k` in the description made of `groups` -/
def defaultOf (groups : List String) (k : String) : Option String :=
  ((described optionDecls groups).find? (fun o => o.name = k ∧ o.default.isSome)).bind (·.default)

/-- PRECEDENCE.  Let the command line parse to `pc`, the config file exist and parse to `pf`
    (every key once), and `parse` succeed with variables map `vm`.  Then for every key `k`
    that is not a legacy alias:
      command-line value, else config-file value under the current name, else config-file
      value under its legacy alias (if `k` has one), else the default
    — and the entry is `defaulted` exactly in the last two cases. -/
theorem precedence (args : List String) (cfgname : String) (lines : List String)
    (file : String → Option (List String)) (pc pf : Parsed) (vm : VM) (vars : Vars)
    (hcli : parseCLI (described optionDecls cliGroups) args = .ok pc) (hpc : Once pc)
    (hname : given pc "config" = some [cfgname]) (hne : cfgname ≠ "/dev/null") (hne' : cfgname ≠ "")
    (hfile : file cfgname = some lines)
    (hcfg : parseCfg (described optionDecls cfgGroups) lines = .ok pf) (hpf : Once pf)
    (hrun : parseOptions optionDecls cliGroups cfgGroups optionAliases args file = .run vm vars)
    (k : String) (hk : ∀ ab ∈ optionAliases, ab.1 ≠ k) :
    (vmFind vm k).map (·.toks) =
      (match given pc k with
       | some v => some v
       | none =>
         match given pf k with
         | some v => some v
         | none =>
           match (optionAliases.find? (fun ab => ab.2 = k ∧ (given pf ab.1).isSome)) with
           | some ab => given pf ab.1
           | none =>
             (match defaultOf cliGroups k with
              | some d => some [d]
              | none => (defaultOf cfgGroups k).map (fun d => [d]))) := by
  exact precedence' args cfgname lines file pc pf vm vars hcli hpc hname hne hne' hfile hcfg hpf hrun k hk

/-- what `notify` leaves in a variable bound by exactly one option name: that entry's tokens -/
theorem notify_spec (vm : VM) (vars : Vars) (o : OptSpec) (ho : o ∈ optionDecls)
    (hv : o.var ≠ "") (hhi : o.var ≠ "_hi") (e : VMEntry) (he : vmFind vm o.name = some e)
    (hsorted : (vm.map (·.1)).Pairwise (· < ·)) :
    varGet (notifyVM optionDecls vm vars) o.var = some e.toks := by
  have hsame : ∀ o1, optionDecls.find? (·.name = o.name) = some o1 → o1.var = o.var := by
    intro o1 h1
    have hn : o1.name = o.name := by simpa using List.find?_some h1
    exact (decl_name_var o1 (List.mem_of_find?_eq_some h1) o ho hn).1
  cases h1 : optionDecls.find? (·.name = o.name) with
  | none =>
    rw [List.find?_eq_none] at h1
    exact absurd (by simp) (h1 o ho)
  | some o1 =>
    exact notify_spec' optionDecls o.var o.name o1
      (fun o' ho' hv' => (decl_var_name o ho o' ho' hv hhi hv'.symm).symm) h1 (hsame o1 h1) hv vm vars e
      hsorted he

/-- unknown keys and malformed values stop `parse` with an error, before anything else -/
theorem unknown_cli_option_fails (args : List String) (file : String → Option (List String))
    (e : PErr) (h : parseCLI (described optionDecls cliGroups) args = .error e) :
    ∃ e', parseOptions optionDecls cliGroups cfgGroups optionAliases args file = .error e' := by
  exact ⟨e, parseOptions_cli_error h⟩

/-- a leading token that belongs to no option (it does not start with a dash) stops `parse` with an error,
    whatever follows it: no positional arguments are defined (`no_positional` in the generated skeleton) -/
theorem leading_stray_token_fails (t : String) (rest : List String) (file : String → Option (List String))
    (h1 : t.startsWith "--" = false) (h2 : (t.startsWith "-" && decide (t.length > 1)) = false) :
    parseOptions optionDecls cliGroups cfgGroups optionAliases (t :: rest) file = .error .tooManyPositional := by
  have h : parseCLI (described optionDecls cliGroups) (t :: rest) = .error .tooManyPositional := by
    simp [parseCLI, parseCLIAux, h1, h2]
  exact parseOptions_cli_error h

example : ("stray".startsWith "--" = false) ∧ (("stray".startsWith "-" && decide ("stray".length > 1)) = false) := by
  decide +kernel

theorem malformed_value_fails (desc : List OptSpec) (p : Parsed) (vm : VM) (final : List String)
    (k : String) (vals : List String) (o : OptSpec) (hk : (k, vals) ∈ p) (hf : final.contains k = false)
    (ho : findOpt desc k = some o) (hbad : vals.all (wellFormed o.ty) = false)
    (hfirst : ∀ kv ∈ p, kv.1 = k → kv = (k, vals))
    (hothers : ∀ kv ∈ p, ∃ o', findOpt desc kv.1 = some o' ∧ (kv.1 ≠ k → kv.2.all (wellFormed o'.ty) = true))
    (hp : Once p) :
    ∃ e, storeParsed desc p vm final = .error e := by
  exact storeParsed_malformed desc p vm final k vals o hk hf ho hbad

/-- a config file that does not exist (and is not the implicit default.cfg) stops the program
    before anything is simulated -/
theorem missing_config_stops (args : List String) (file : String → Option (List String))
    (pc : Parsed) (cfgname : String)
    (hcli : parseCLI (described optionDecls cliGroups) args = .ok pc) (hpc : Once pc)
    (hname : given pc "config" = some [cfgname]) (hne : cfgname ≠ "/dev/null") (hne' : cfgname ≠ "")
    (hd : cfgname ≠ "default.cfg") (hnohelp : ∀ k ∈ ["help", "copyright", "version", "buildinfo"], given pc k = none)
    (hvalid : ∀ kv ∈ pc, ∃ o, findOpt (described optionDecls cliGroups) kv.1 = some o ∧ kv.2.all (wellFormed o.ty) = true)
    (hfile : file cfgname = none) :
    parseOptions optionDecls cliGroups cfgGroups optionAliases args file = .norun := by
  obtain ⟨vm1, final1, hs⟩ := storeParsed_succeeds (described optionDecls cliGroups) [] pc [] hvalid hpc
  rw [parseOptions_of_cli hcli, hs]
  exact parseRest_nofile (cfgNameOf_store hs hpc hname) hne hne' hd hfile

/-- non-vacuity: a concrete invocation with command line, config file and an alias runs -/
example : ∃ vm vars, parseOptions optionDecls cliGroups cfgGroups optionAliases
    ["-V", "2e6", "--config", "c.cfg"] (fun p => if p = "c.cfg" then some ["RFVoltage=5e5", "GridSize=64"] else none)
    = .run vm vars ∧ (vmFind vm "AcceleratingVoltage").map (·.toks) = some ["2e6"]
      ∧ (vmFind vm "GridSize").map (·.toks) = some ["64"] := by
  have h := exists_run_of_check (parseOptions optionDecls cliGroups cfgGroups optionAliases
    ["-V", "2e6", "--config", "c.cfg"] (fun p => if p = "c.cfg" then some ["RFVoltage=5e5", "GridSize=64"] else none))
    (fun vm => decide ((vmFind vm "AcceleratingVoltage").map (·.toks) = some ["2e6"]
      ∧ (vmFind vm "GridSize").map (·.toks) = some ["64"])) (by
      rw [parseOptions_eq]
      simp only [parseRest, parseCLI, parseCLIAux_eqK, parseCfg_eqK, storeParsed, wellFormed_eqK]
      decide +kernel)
  obtain ⟨vm, vars, h1, h2⟩ := h
  exact ⟨vm, vars, h1, by simpa using h2⟩

end Inovesa.Props.C20
