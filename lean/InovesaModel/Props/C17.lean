/-
  C17 — no configuration or input file makes the program touch memory it does not own.

  What is proved here is the index arithmetic that decides whether the arrays are respected, for
  all sizes and inputs, on the GENERATED fragments
    * Gen/Sizes.lean      (buffer lengths of main(), translator G4),
    * Gen/FPStencil.lean  (Fokker–Planck constructor incl. the clamp of the switch row, G2),
  and on the hand models tied by correspondence (KickMap::updateSM/apply, Impedance::operator+=,
  Impedance::readData, upper_power_of_two).  Memory safety of the compiled program itself (allocation,
  library calls, HDF5) is not a statement about these models: it is searched with sanitizer builds
  by the check (see DESIGN.md, C17: partial).
-/
import InovesaModel.Lemmas.FP
import InovesaModel.Lemmas.Kick
import InovesaModel.Model.Impedance
import InovesaModel.Gen.Sizes
import InovesaModel.Props.C01FP
import InovesaModel.Lemmas.Safe
import Mathlib.Algebra.Order.Floor.Ring
import Mathlib.Data.Rat.Floor
import Mathlib.Tactic.Linarith
namespace Inovesa.Props.C17
open Inovesa Inovesa.Gen

/-! ### padded profile train: every bucket window lies inside the buffer -/

/-- `upper_power_of_two` never returns less than its argument (for 1 ≤ v ≤ 2^63) -/
theorem upperPow2_ge (v : Nat) (h1 : 1 ≤ v) (h2 : v ≤ 2 ^ 63) : v ≤ upperPow2 v := by
  exact upperPow2_ge_aux v h1 h2

/-- Multi-bucket runs: for every entry `k` of the filling pattern the window
    `[bucket*spacing, bucket*spacing + grid)` that `padBunchProfiles` writes and `wakePotential`
    reads lies inside the padded buffer, whose length is the number of samples of the wake
    impedance.  For every grid size, bucket count, spacing (any rational, overlapping or not),
    padding and rounding option; `up2` any function that does not decrease its argument. -/
theorem pad_fits_multi (i : SizeIn) (up2 : Nat → Nat) (hup : ∀ v, v ≤ up2 v)
    (hnb : 1 < i.nbuckets) (k : Nat) (hk : k < i.nbuckets) :
    bucketNumber i k * (sizes i up2).wakeSpacing + i.psBins ≤ (sizes i up2).wakeLength := by
  have _ := hk
  simp only [sizes, bucketNumber]
  have hd : decide (i.nbuckets > 1) = true := by simpa using hnb
  rw [hd]
  simp only [if_true]
  generalize ratToNat (ratRound (((i.psBins : Nat) : Rat) * i.spacingPs)) = s
  generalize ratToNat (ratCeil ((((i.psBins * i.nbuckets) : Nat) : Rat) * i.spacingPs)) = c
  have h1 : (i.nbuckets - 1 - k) * s ≤ (i.nbuckets - 1) * s :=
    Nat.mul_le_mul_right _ (Nat.sub_le _ _)
  have h2 : (i.nbuckets - 1) * s + i.psBins ≤ max c ((i.nbuckets - 1) * s + i.psBins) :=
    le_max_right _ _
  split_ifs
  · exact le_trans (by omega) (hup _)
  · omega

/-- Single-bucket runs: the only bucket has number 0 and the buffer has at least grid length. -/
theorem pad_fits_single (i : SizeIn) (up2 : Nat → Nat) (hup : ∀ v, v ≤ up2 v)
    (hnb : i.nbuckets = 1) (k : Nat) (hk : k < i.nbuckets) :
    bucketNumber i k * (sizes i up2).wakeSpacing + i.psBins ≤ (sizes i up2).wakeLength := by
  simp only [sizes, bucketNumber]
  have hd : decide (i.nbuckets > 1) = false := by simp [hnb]
  rw [hd]
  have hk0 : i.nbuckets - 1 - k = 0 := by omega
  rw [hk0]
  simp only [Nat.zero_mul, Nat.zero_add, Bool.false_eq_true, if_false]
  have h := psBins_le_padded i.psBins i.optPadding
  split_ifs
  · exact le_trans h (hup _)
  · exact h

/-- the length `ceil(bins*buckets*spacing)` used before the fix "padded profile train is long
    enough for the rounded bunch spacing" does not suffice: 5 buckets, 32 cells, spacing 32.55 cells -/
theorem old_length_too_short :
    let n : Nat := 32; let nb : Nat := 5; let s : Rat := 3255 / 3200
    ¬ ((nb - 1) * ratToNat (ratRound ((n : Rat) * s)) + n ≤ ratToNat (ratCeil (((n * nb : Nat) : Rat) * s))) := by
  decide +kernel

/-- non-vacuity / executable instance: the same configuration with the generated code -/
example : (sizes { psBins := 32, nbuckets := 5, spacingPs := 3255 / 3200, optPadding := 2,
                   roundPadding := false } id).wakeLength = 164 := by
  decide +kernel

/-! ### Fokker–Planck table: all positions of the zero-energy row -/

section fp
variable {α : Type} [Field α] [LinearOrder α] [IsStrictOrderedRing α] [FloorRing α]

instance : MinMax α := ⟨fun a b => if b < a then b else a, fun a b => if a < b then b else a⟩

/-- the generated constructor clamps the switch row to `[1, n-2]`, wherever the zero bin is -/
theorem ycenter_in_range (n : Nat) (hn : 3 ≤ n) (zb : α) :
    (1 : α) ≤ fpYcenter n zb ∧ fpYcenter n zb ≤ ((n - 2 : Nat) : α) := by
  have h1 : (1 : α) ≤ ((n - 2 : Nat) : α) := by
    have : 1 ≤ n - 2 := by omega
    exact_mod_cast this
  simp only [fpYcenter, fpYcenterClamp, MinMax.min, MinMax.max, Nat.cast_one]
  split_ifs with ha hb hb
  · exact ⟨h1, le_refl _⟩
  · exact ⟨le_refl _, h1⟩
  · exact ⟨h1, le_refl _⟩
  · exact ⟨not_lt.mp ha, not_lt.mp hb⟩

/-- integer part and loop test of the constructor for a given `ycenter` -/
def jcOf (yc : α) : Nat := ⌊yc⌋₊
def ltycOf (yc : α) : Nat → Bool := fun j => decide ((j : α) < yc)

/-- every table row of both stencils holds source indices inside the line, for EVERY position of
    the zero bin (grid shifts of any size), every Fokker–Planck variant and parameter -/
theorem fp_reads_in_bounds (dt fptype n : Nat) (hdt : dt = 3 ∨ dt = 4) (hn : 4 ≤ n) (hn' : n < 2 ^ 31)
    (zb e1 delta : α) (p : Nat → α) (y : Nat) (hy : y < n) :
    ∀ h ∈ fpRowAt dt fptype n (jcOf (fpYcenter n zb)) (ltycOf (fpYcenter n zb)) e1 delta p y, h.1 < n := by
  obtain ⟨hlo, _⟩ := ycenter_in_range n (by omega) zb
  rcases hdt with rfl | rfl
  · exact C01FP.fp3_indices_in_range fptype n _ _ (by omega) hn' e1 delta p y hy
  · refine C01FP.fp4_indices_in_range fptype n _ _ hn hn' ?_ ?_ e1 delta p y hy
    · unfold jcOf
      exact Nat.le_floor (by exact_mod_cast hlo)
    · intro j hj
      unfold jcOf at hj
      simp only [ltycOf, decide_eq_true_eq]
      exact Nat.lt_of_lt_floor hj

/-- … and every statement of the constructor writes a row of the table that exists -/
theorem fp_writes_in_table (dt n : Nat) (hn : 4 ≤ n) (hn' : n < 2 ^ 31) (zb : α) (j : Nat)
    (w : FPWriter) (hw : w ∈ fpWriters dt)
    (hc : w.covers n (jcOf (fpYcenter n zb)) (ltycOf (fpYcenter n zb)) j = true) : j < n := by
  obtain ⟨_, hhi⟩ := ycenter_in_range n (by omega) zb
  have p1 := pos_fromEnd n (jcOf (fpYcenter n zb)) 1 (by omega) hn'
  have p2 := pos_fromEnd n (jcOf (fpYcenter n zb)) 2 (by omega) hn'
  unfold fpWriters at hw
  split at hw
  · simp only [List.mem_cons, List.not_mem_nil, or_false] at hw
    rcases hw with rfl | rfl | rfl
    · rw [covers_row, pos_const] at hc; omega
    · rw [covers_loop_fromEnd, p1] at hc; omega
    · rw [covers_row, p1] at hc; omega
  · simp only [List.mem_cons, List.not_mem_nil, or_false] at hw
    rcases hw with rfl | rfl | rfl | rfl | rfl | rfl
    · rw [covers_row, pos_const] at hc; omega
    · rw [covers_row, pos_const] at hc; omega
    · rw [covers_loop_ltYc] at hc
      have h2 : (j : α) < fpYcenter n zb := by simpa [ltycOf] using hc.2
      have h3 : (j : α) < ((n - 2 : Nat) : α) := lt_of_lt_of_le h2 hhi
      have h4 : j < n - 2 := by exact_mod_cast h3
      omega
    · rw [covers_loop_fromEnd, p2] at hc; omega
    · rw [covers_row, p2] at hc; omega
    · rw [covers_row, p1] at hc; omega
  · simp at hw

/-- without the clamp (zero bin used as it is) the table may address cell `2^32 - 1`:
    the model-level witness is `C01FP.fp4_jc0_reads_outside` (zero bin below row 1). -/
example : jcOf (0 : ℚ) = 0 := by simp [jcOf]

end fp

/-! ### kick maps: displacements of any size, sign, or NaN -/

section kick
variable {α : Type} [Arith α] [NatCast α] [ModF α]

/-- `updateSM` always produces a row (no undefined conversion any more) … -/
theorem smRow_total (n it : Nat) (off : α) : ∃ row, smRow n it off = some row := by
  unfold smRow
  cases ModF.modf (((n / 2 : Nat) : α) + off) with
  | none => exact ⟨_, rfl⟩
  | some q => exact ⟨_, rfl⟩

/-- … of `it` entries whose source indices are all inside the line -/
theorem smRow_in_bounds (n it : Nat) (hn : 0 < n) (off : α) (row : List (Hi α))
    (h : smRow n it off = some row) : row.length = it ∧ ∀ e ∈ row, e.1 < n := by
  unfold smRow at h
  cases hm : ModF.modf (((n / 2 : Nat) : α) + off) with
  | none =>
    rw [hm] at h
    simp only [Option.some.injEq] at h
    subst h
    exact ⟨smRowOf_length _ _ _ _, smRowOf_in_bounds _ _ _ hn _⟩
  | some q =>
    rw [hm] at h
    simp only [Option.some.injEq] at h
    subst h
    exact ⟨smRowOf_length _ _ _ _, smRowOf_in_bounds _ _ _ hn _⟩

/-- `apply` reads the source line only at positions `< n`, whatever the table holds -/
theorem applyCell_reads_in_bounds (n : Nat) (tab : List (Hi α)) (rd rd' : Nat → α) (y : Nat)
    (h : ∀ s, s < n → rd s = rd' s) : applyCell n tab rd y = applyCell n tab rd' y := by
  exact foldl_guard_congr n (srcCell n y) tab rd rd' h zero

end kick

/-! ### impedance tables -/

/-- the element-wise sum reads the right-hand table only where it exists and keeps the length of
    the left-hand one (a file shorter or longer than the frequency grid) -/
theorem addInto_length {β : Type} [Arith β] (a b : List (Cx β)) :
    (addInto a b).length = a.length := by
  exact addInto_length' a b

/-- entry `i` of the sum: the sum of the entries where both exist, the left entry otherwise -/
theorem addInto_get {β : Type} [Arith β] (a b : List (Cx β)) (i : Nat) :
    (addInto a b)[i]? = match a[i]?, b[i]? with
      | some x, some y => some (Cx.add x y)
      | some x, none => some x
      | none, _ => none := by
  exact addInto_get' a b i

/-- for tables of equal length it is the plain element-wise sum used by the factory theorems of C16 -/
theorem addInto_eq_addTables {β : Type} [Arith β] (a b : List (Cx β)) (h : a.length = b.length) :
    addInto a b = addTables a b := by
  simp [addInto, addTables, h]

/-- the text reader returns only complete records: at most a third of the tokens, each value taken
    from the token list (nothing uninitialised), for arbitrary contents -/
theorem readData_length (toks : List Tok) : 3 * (readData toks).length ≤ toks.length := by
  exact readDataAux_length none toks

theorem readData_values (toks : List Tok) :
    ∀ r ∈ readData toks, (∃ t ∈ toks, t.val? = some r.1) ∧ (∃ t ∈ toks, t.val? = some r.2) := by
  exact readDataAux_values none toks

/-- empty or malformed input gives the empty table -/
theorem readData_garbage (t : Tok) (rest : List Tok) (h : ∀ n, t ≠ .idx n) :
    readData (t :: rest) = [] := by
  exact readDataAux_garbage none t rest h

example : readData [.idx 0, .num 1, .num 2, .idx 1, .num 3, .bad, .idx 2, .num 1, .num 1] = [(1, 2)] := by
  decide +kernel

end Inovesa.Props.C17
