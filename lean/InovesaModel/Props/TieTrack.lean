/-
  Tie theorems (particle tracking: KickMap::applyTo, stochastic Fokker-Planck tracking): hand-written model definitions proved EQUAL to definitions regenerated from the C++ source on
  every run (Gen/*.lean).  The hand definitions are what the lemmas and property theorems unfold; the generated ones are
  what the code says now.  A change of the source expression makes the proof fail, and every check that lists this
  module reports its property as no longer shown (and searches for a failing input).  One module per translator
  fragment, so that a fragment that cannot be translated any more only affects the properties that depend on it.
-/
import InovesaModel.Model.KickMap
import InovesaModel.Gen.ApplyTo
import InovesaModel.Lemmas.Field
import Mathlib.Tactic.Ring
namespace Inovesa.Props.TieTrack
open Inovesa

variable {α : Type} [Arith α] [NatCast α]

/-- `KickMap::applyTo` (both directions): guard, interpolated displacement and clamp -/
theorem applyTo_is_code [MinMax α] (n : Nat) (off : Nat → α) (p : α) (i : Nat) (fr : α) :
    applyToCoord n off p i fr
      = MinMax.max (lit 1 1 0x3f800000)
          (MinMax.min (if i + 1 < n then p - Gen.applyToDisp off i fr else p)
            (((n - Gen.applyToClamp.2 : Nat)) : α)) ∧ Gen.applyToClamp.1 = 1 := ⟨rfl, rfl⟩

/-! ### stochastic tracking model, directly on the generated statement -/
section stochastic
variable {β : Type} [Field β]

/-- the GENERATED stochastic step moves the ensemble mean towards the zero bin of the energy axis by the
    factor `1 − e1` per step (the noise has mean 0) — cf. `C15.stochastic_mean`, here on the code as it is now;
    the pre-fix statement damped `y` itself, i.e. towards grid row 0 (`C15.old_recurrence_mean`) -/
theorem stoch_mean_is_code (m yc e1 : β) : (m - Gen.stochSub m yc e1 0) - yc = (1 - e1) * (m - yc) := by
  simp only [Gen.stochSub]; ring

/-- and it is clamped to rows `1 … n−1` -/
theorem stoch_clamp_is_code : Gen.stochClamp = (1, 1) := rfl

end stochastic

end Inovesa.Props.TieTrack
