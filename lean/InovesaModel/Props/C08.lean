/-
  C08 — in a multi-bunch run every bunch evolves exactly as it would on its own
  (kick part: `KickMap::apply` acts bunch-wise with the table block of that bunch).
-/
import InovesaModel.Lemmas.Kick
namespace Inovesa.Props.C08
open Inovesa Inovesa.Gen

variable {α : Type} [Field α] [CharZero α]

/-- output of a y-kick on one bunch alone: the single-bunch map with the table rows
    `base .. base+n-1` applied to that bunch's `n×n` block -/
def singleY (n : Nat) (tabs : Nat → List (Hi α)) (base : Nat) (data : Nat → α) : List α :=
  applyY n 1 0 (fun r => tabs (base + r)) data

/-- `KickMap::apply` (y) on a train = concatenation over the bunches of the single-bunch
    map built from that bunch's block of the table (`min b lastbunch`) applied to that
    bunch's data — nothing of any other bunch enters. -/
theorem applyY_blockwise (n nb lb : Nat) (tabs : Nat → List (Hi α)) (data : Nat → α) :
    applyY n nb lb tabs data
      = (List.range nb).flatMap fun b =>
          singleY n tabs (min b lb * n) (fun i => data (b * n * n + i)) :=
  applyY_blockwise' n nb lb tabs data

/-- same for the x-direction (drift): every bunch uses the one shared table -/
theorem applyX_blockwise (n nb : Nat) (tabs : Nat → List (Hi α)) (data : Nat → α) :
    applyX n nb tabs data
      = (List.range nb).flatMap fun b =>
          applyX n 1 tabs (fun i => data (b * n * n + i)) :=
  applyX_blockwise' n nb tabs data

/-- each bunch's output block has `n*n` cells, so block `b` of the output is cells
    `[b*n*n, (b+1)*n*n)` -/
theorem singleY_length (n : Nat) (tabs : Nat → List (Hi α)) (base : Nat) (data : Nat → α) :
    (singleY n tabs base data).length = n * n :=
  applyY_single_length n tabs base data

/-- two bunches with equal data and equal table blocks get equal outputs -/
theorem identical_bunches_stay_identical (n lb : Nat) (tabs : Nat → List (Hi α))
    (data : Nat → α) (b1 b2 : Nat)
    (hdata : ∀ i, i < n * n → data (b1 * n * n + i) = data (b2 * n * n + i))
    (htab : ∀ x, x < n → tabs (min b1 lb * n + x) = tabs (min b2 lb * n + x)) :
    singleY n tabs (min b1 lb * n) (fun i => data (b1 * n * n + i))
      = singleY n tabs (min b2 lb * n) (fun i => data (b2 * n * n + i)) :=
  applyY_single_congr n tabs (min b1 lb * n) (min b2 lb * n) _ _ hdata htab

end Inovesa.Props.C08
