/-
  Tie theorems for the results file (Gen/H5Appends.lean, regenerated from src/IO/HDF5File.cpp on every run): what
  one call of each append method writes.  The main-program model (Model/MainProgram.lean: `execCall` for
  `file.appendGrid.*`, `file.appendCSR`, `file.appendWake`, …) and the theorems C10.lengths_equal / time_axis rest on
  exactly this record structure.
-/
import InovesaModel.Gen.H5Appends
namespace Inovesa.Props.TieH5
open Inovesa.Gen

def callsOf (sig : String) : List H5Append := ((h5Appends.find? (·.1 == sig)).map (·.2)).getD []

def under (sig cond : String) : List (String × String) :=
  ((callsOf sig).filter fun a => a.conds == [(cond, true)]).map fun a => (a.dataset, a.source)

/-- ONE RECORD: whenever anything but a bare phase space is appended, the time axis and all seven per-record
    datasets get exactly one row each, from the sources the model's `MRec` names (profile = x-projection, energy
    profile = y-projection, position/mean energy = first moments, length/spread, population) -/
theorem record_is_appended_together :
    under "append(PhaseSpace&, timeaxis_t, HDF5File::AppendType)" "at != AppendType::PhaseSpace" =
      [("_timeAxis", "&t"), ("_bunchProfile", "ps.getProjection(0).origin()"),
       ("_bunchLength", "ps.getBunchLength().origin()"), ("_bunchPosition", "mean_q.origin()"),
       ("_energyProfile", "ps.getProjection(1).origin()"), ("_energySpread", "ps.getEnergySpread().origin()"),
       ("_energyAverage", "mean_E.origin()"), ("_bunchPopulation", "ps.getBunchPopulation().data()")] ∧
    h5Locals = [("mean_q", "ps.getMoment(0,0)"), ("mean_E", "ps.getMoment(1,0)")] := by
  decide

/-- the phase space is stored together with its own time axis, and only for `All` / `PhaseSpace` -/
theorem phase_space_with_its_axis :
    under "append(PhaseSpace&, timeaxis_t, HDF5File::AppendType)" "at == AppendType::All || at == AppendType::PhaseSpace" =
      [("_timeAxisPS", "&t"), ("_phaseSpace", "ps.getData()")] ∧
    (callsOf "append(PhaseSpace&, timeaxis_t, HDF5File::AppendType)").length = 10 := by
  decide

/-- wake, tracks, RF kicks, padded buffers: one dataset (two for the padded pair) per call, unconditionally;
    CSR: the intensity always, the spectrum only with `fullspectrum` -/
theorem other_appends :
    callsOf "append(WakeKickMap*)" = [{ conds := [], dataset := "_wakePotential", source := "wkm->getForce()" }] ∧
    (callsOf "appendTracks(std::vector<PhaseSpace::Position>&)").map (·.dataset) = ["_particles"] ∧
    (callsOf "appendRFKicks(std::vector<std::array<meshaxis_t,2>>&)").map (·.dataset) = ["_dynamicRFKick"] ∧
    (callsOf "appendPadded(ElectricField*)").map (fun a => (a.conds, a.dataset)) = [([], "_paddedProfile"), ([], "_paddedPotential")] ∧
    (callsOf "append(ElectricField*, bool)").map (fun a => (a.conds, a.dataset)) =
      [([("fullspectrum", true)], "_csrSpectrum"), ([], "_csrIntensity")] := by
  decide

/-- the HDF5 names the checks' oracles read -/
theorem dataset_paths :
    h5Paths = [("_bunchLength", "/BunchLength/data"), ("_bunchPopulation", "/BunchPopulation/data"),
      ("_bunchPosition", "/BunchPosition/data"), ("_bunchProfile", "/BunchProfile/data"),
      ("_csrIntensity", "/CSR/Intensity/data"), ("_csrSpectrum", "/CSR/Spectrum/data"),
      ("_dynamicRFKick", "/RFKicks/data"), ("_energyAverage", "/EnergyAverage/data"),
      ("_energyProfile", "/EnergyProfile/data"), ("_energySpread", "/EnergySpread/data"),
      ("_paddedPotential", "/WakePotential/padded"), ("_paddedProfile", "/BunchProfile/padded"),
      ("_particles", "/Particles/data"), ("_phaseSpace", "/PhaseSpace/data"), ("_timeAxis", "/Info/AxisValues_t"),
      ("_timeAxisPS", "/PhaseSpace/axis0"), ("_wakePotential", "/WakePotential/data")] := by
  decide

end Inovesa.Props.TieH5
