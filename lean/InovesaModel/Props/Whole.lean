/-
  Whole-run liftings.  The per-map theorems of C01 (charge), C08 (bunch independence), C09
  (normalisation), C17 (index safety) … speak about one application of one map.  Here they are
  carried through the GENERATED simulation part of main() (Gen/MainProgram.lean: initial block,
  loop body, final block) for every number of steps, every output cadence and every
  configuration: whatever every map of the loop preserves holds for the grid at every loop head,
  in every record written to the file, and for the final grid.  The physics is uninterpreted
  (`Sem V`), so the statement applies to any instantiation of the maps.
-/
import InovesaModel.Lemmas.Main
import InovesaModel.Lemmas.Whole
import InovesaModel.Props.C14
namespace Inovesa.Props.Whole
open Inovesa Inovesa.Gen Inovesa.Props.C14

variable {V : Type}

/-- every map the loop can apply to the grid preserves `I` -/
structure MapsPreserve (sem : Sem V) (I : V → Prop) : Prop where
  kick : ∀ g w, I g → I (sem.kick g w)
  ident : ∀ g, I g → I (sem.ident g)
  rfStatic : ∀ g, I g → I (sem.rfStatic g)
  rfDyn : ∀ g r, I g → I (sem.rfDyn g r)
  drift : ∀ g, I g → I (sem.drift g)
  fp : ∀ g, I g → I (sem.fp g)
  normalize : ∀ g f, I g → I (sem.normalize g f)

/-- one iteration of the generated loop body preserves the invariant of the grid -/
theorem body_preserves (sem : Sem V) (c : MCfg) (I : V → Prop) (h : MapsPreserve sem I)
    (s : MState V) (hs : I s.grid) : I (execBlock sem c loopBody s).grid := by
  exact body_grid_pres sem c I h.kick h.ident h.rfStatic h.rfDyn h.drift h.fp h.normalize s hs

/-- … hence it holds at every loop head, for every number `k` of executed steps -/
theorem grid_invariant_at_every_step (sem : Sem V) (c : MCfg) (I : V → Prop) (h : MapsPreserve sem I)
    (s0 : MState V) (h0 : I s0.grid) (k : Nat) : I (atHead sem c k s0).grid := by
  exact atHead_grid_pres sem c I (fun s hs => body_preserves sem c I h s hs) s0 h0 k

/-- … for the grid the run ends with (after the final block) -/
theorem final_grid_invariant (sem : Sem V) (c : MCfg) (I : V → Prop) (h : MapsPreserve sem I)
    (s0 : MState V) (h0 : I s0.grid) (k : Nat) : I (runFor sem c k s0).grid := by
  exact runFor_grid_pres sem c I h.normalize (fun s hs => body_preserves sem c I h s hs) s0 h0 k

/-- … for the grid behind every record of the time-indexed datasets -/
theorem records_invariant (sem : Sem V) (c : MCfg) (I : V → Prop) (h : MapsPreserve sem I)
    (s0 : MState V) (h0 : I s0.grid) (hr : s0.file.recs = []) (k : Nat) :
    ∀ r ∈ (runFor sem c k s0).file.recs, I r.ghostGrid := by
  exact runFor_recs_pres sem c I h.normalize (fun s hs => body_preserves sem c I h s hs) s0 h0 hr k

/-- … and for every stored phase space -/
theorem phase_space_records_invariant (sem : Sem V) (c : MCfg) (I : V → Prop) (h : MapsPreserve sem I)
    (s0 : MState V) (h0 : I s0.grid) (hp : s0.file.ps = []) (k : Nat) :
    ∀ e ∈ (runFor sem c k s0).file.ps, I e.2 := by
  exact runFor_ps_pres sem c I h.normalize (fun s hs => body_preserves sem c I h s hs) s0 h0 hp k

/-- CONSERVED QUANTITY: a functional of the grid that no map changes (the charge, for data
    supported in the interior: C01) has its initial value at every step and in every record -/
theorem conserved_quantity {β : Type} (sem : Sem V) (c : MCfg) (Q : V → β)
    (hk : ∀ g w, Q (sem.kick g w) = Q g) (hi : ∀ g, Q (sem.ident g) = Q g)
    (hrs : ∀ g, Q (sem.rfStatic g) = Q g) (hrd : ∀ g r, Q (sem.rfDyn g r) = Q g)
    (hd : ∀ g, Q (sem.drift g) = Q g) (hf : ∀ g, Q (sem.fp g) = Q g)
    (hn : ∀ g f, Q (sem.normalize g f) = Q g)
    (s0 : MState V) (k : Nat) :
    Q (atHead sem c k s0).grid = Q s0.grid ∧ Q (runFor sem c k s0).grid = Q s0.grid := by
  have h : MapsPreserve sem (fun g => Q g = Q s0.grid) :=
    { kick := fun g w hg => (hk g w).trans hg
      ident := fun g hg => (hi g).trans hg
      rfStatic := fun g hg => (hrs g).trans hg
      rfDyn := fun g r hg => (hrd g r).trans hg
      drift := fun g hg => (hd g).trans hg
      fp := fun g hg => (hf g).trans hg
      normalize := fun g f hg => (hn g f).trans hg }
  exact ⟨grid_invariant_at_every_step sem c _ h s0 rfl k, final_grid_invariant sem c _ h s0 rfl k⟩

/-- non-vacuity: the trivial semantics on `Nat` (every map the identity) preserves everything -/
example : MapsPreserve (V := Nat)
    { xproj := id, yproj := id, integ := id, normalize := fun g _ => g, mom0 := fun a _ => a,
      mom1 := fun a _ => a, wake := id, wakepad := id, csr := id, kick := fun g _ => g, ident := id,
      rfStatic := id, rfDyn := fun g _ => g, drift := id, fp := id, track := fun _ t _ => t }
    (fun g => g = 7) := by
  exact { kick := fun _ _ hg => hg, ident := fun _ hg => hg, rfStatic := fun _ hg => hg,
          rfDyn := fun _ _ hg => hg, drift := fun _ hg => hg, fp := fun _ hg => hg,
          normalize := fun _ _ hg => hg }

end Inovesa.Props.Whole
