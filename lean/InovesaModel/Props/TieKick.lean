/-
  Tie theorems (index arithmetic of KickMap::apply and KickMap::updateSM): hand-written model definitions proved EQUAL to definitions regenerated from the C++ source on
  every run (Gen/*.lean).  The hand definitions are what the lemmas and property theorems unfold; the generated ones are
  what the code says now.  A change of the source expression makes the proof fail, and every check that lists this
  module reports its property as no longer shown (and searches for a failing input).  One module per translator
  fragment, so that a fragment that cannot be translated any more only affects the properties that depend on it.
-/
import InovesaModel.Model.KickMap
import InovesaModel.Gen.KickApply
import InovesaModel.Gen.UpdateSM
namespace Inovesa.Props.TieKick
open Inovesa

variable {α : Type} [Arith α] [NatCast α]

/-! ### index arithmetic of `KickMap::apply` (square grids: `kd = pd = n`) -/

/-- the source cell addressed through a table entry, both directions (`srcCell` of the model) -/
theorem kick_src_is_code (n x y idx : Nat) :
    srcCell n y idx = Gen.kickYSrc n n x y idx ∧ srcCell n x idx = Gen.kickXSrc n n x y idx := ⟨rfl, rfl⟩

/-- the table row used: y-kick `min b lastbunch * n + x` (historic defect A: the stride `_ip` was applied to
    `x` only), x-kick row `y`; entry `j` of a row of `ip` entries -/
theorem kick_table_index_is_code (b lastbunch n ip x y j : Nat) :
    Gen.kickYTab b lastbunch n n ip x y j = (min b lastbunch * n + x) * ip + j ∧
    Gen.kickXTab b lastbunch n n ip x y j = y * ip + j := ⟨rfl, rfl⟩

/-- a source cell is read only below the line length, from the addresses the model's `applyY`/`applyX` use
    (`data (b*n*n + x*n + s)` resp. `data (b*n*n + s*n + y)`), and the result goes to cell `b*n*n + x*n + y`,
    the position of the model's output list -/
theorem kick_addresses_are_code (b n x y s : Nat) :
    Gen.kickYGuard n n = n ∧ Gen.kickXGuard n n = n ∧
    Gen.kickYRead b n n x y s = b * n * n + x * n + s ∧ Gen.kickXRead b n n x y s = b * n * n + s * n + y ∧
    Gen.kickYWrite b n n x y = b * n * n + x * n + y ∧ Gen.kickXWrite b n n x y = b * n * n + x * n + y :=
  ⟨rfl, rfl, rfl, rfl, rfl, rfl⟩

/-- the loops run over all bunches, all cells and all table entries -/
theorem kick_loops_are_code (nb n ip : Nat) :
    Gen.kickYBounds nb n n ip = [nb, n, n, ip] ∧ Gen.kickXBounds nb n n ip = [nb, n, n, ip] := ⟨rfl, rfl⟩

/-! ### index arithmetic of `KickMap::updateSM` -/

/-- the source position of a row is the INTEGER grid centre `n/2` (the one `apply` subtracts again) plus the
    displacement — the argument of `ModF.modf` in `smRow` -/
theorem updateSM_position_is_code (n : Nat) (off : α) :
    (((n / 2 : Nat) : α) + off) = Gen.updPoffs n off := rfl

/-- stencil index of entry `j1`, for the interpolation orders that exist (unsigned arithmetic of the C++ on
    the left, the model's expression on the right) -/
theorem updateSM_index_is_code (jd j1 it : Nat) (h1 : 1 ≤ it) (h2 : it < 4294967296) :
    Gen.updJ0 jd j1 it = (jd + j1 + W32 - (it - 1) / 2) % W32 := by
  have h : (it + 4294967296 - 1) % 4294967296 = it - 1 := by omega
  simp only [Gen.updJ0, W32, h]

/-- guards, the row of zeros for positions outside, the index stored with weight 0, and the table slot -/
theorem updateSM_guards_are_code (n i ip j1 : Nat) :
    Gen.updGuard n = n ∧ Gen.updJdOutside n = n ∧ Gen.updFallback n = n / 2 ∧ Gen.updFallbackRow n = n / 2 ∧
    Gen.updSlot i ip j1 = i * ip + j1 := ⟨rfl, rfl, rfl, rfl, rfl⟩


end Inovesa.Props.TieKick
