def hello := "world"
