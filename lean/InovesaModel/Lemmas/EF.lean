/- helper lemmas about the ElectricField model (field interpretation) -/
import InovesaModel.Model.ElectricField
import InovesaModel.Lemmas.Field
import Mathlib.Algebra.BigOperators.Intervals
import Mathlib.Algebra.BigOperators.Ring.Finset
import Mathlib.Algebra.Order.Field.Basic
import Mathlib.Tactic.Linarith
import Mathlib.Tactic.Positivity
import Mathlib.Tactic.IntervalCases
import Mathlib.Tactic.LinearCombination
namespace Inovesa

section basics
variable {α : Type} [Field α]

@[simp] theorem ef_zero : (zero : α) = 0 := by simp [zero]

@[simp] theorem ef_czero : (Cx.czero : Cx α) = ((0 : α), (0 : α)) := by simp [Cx.czero]

end basics

/-! ### state machine: buffers of `efWake`, `efCSRBunch`, `efCSR` in closed form -/
section machine
variable {α : Type} [Field α]

/-- tail of `_formfactor` that no call rewrites is zero -/
def FFTail (c : EFConst α) (s : EFState α) : Prop :=
  ∀ k, c.nmax / 2 < k → s.ff k = ((0 : α), (0 : α))

/-- tail of `_wakelosses` that no call rewrites is zero -/
def WLTail (c : EFConst α) (s : EFState α) : Prop :=
  ∀ k, c.nmax / 2 ≤ k → s.wl k = ((0 : α), (0 : α))

theorem fresh_tails (c : EFConst α) :
    FFTail c (EFState.fresh : EFState α) ∧ WLTail c (EFState.fresh : EFState α) := by
  constructor <;> intro k _ <;> simp [EFState.fresh]

/-- the input buffer handed to the complex-to-real transform by `efWake` -/
def wakeIn (c : EFConst α) (t : Transforms α) (prof : Nat → Nat → α) (s : EFState α) : Nat → Cx α :=
  fun k => if k < c.nmax / 2 then
      Cx.mul (c.z k) (if k ≤ c.nmax / 2 then t.r2c (padProfiles c prof) k else s.ff k)
    else s.wl k

theorem efWake_eq (c : EFConst α) (t : Transforms α) (prof : Nat → Nat → α) (s : EFState α) :
    efWake c t prof s =
      { bp := padProfiles c prof
        ff := fun k => if k ≤ c.nmax / 2 then t.r2c (padProfiles c prof) k else s.ff k
        wl := t.clob (wakeIn c t prof s)
        wp := t.c2r (wakeIn c t prof s)
        wake := fun b x => c.wakescaling * t.c2r (wakeIn c t prof s) (c.bucket b * c.spacing + x)
        spec := s.spec
        pow := s.pow } := rfl

theorem wakeIn_eq (c : EFConst α) (t : Transforms α) (prof : Nat → Nat → α) (s : EFState α) :
    wakeIn c t prof s = fun k => if k < c.nmax / 2 then
      Cx.mul (c.z k) (t.r2c (padProfiles c prof) k) else s.wl k := by
  funext k
  unfold wakeIn
  by_cases hk : k < c.nmax / 2
  · simp [hk, Nat.le_of_lt hk]
  · simp [hk]

/-- the input of c2r depends on the old state only through the tail of `wl` -/
theorem wakeIn_congr (c : EFConst α) (t : Transforms α) (prof : Nat → Nat → α) (s s' : EFState α)
    (hwl : ∀ k, c.nmax / 2 ≤ k → s.wl k = s'.wl k) :
    wakeIn c t prof s = wakeIn c t prof s' := by
  rw [wakeIn_eq, wakeIn_eq]
  funext k
  by_cases hk : k < c.nmax / 2
  · simp [hk]
  · simp [hk, hwl k (Nat.le_of_not_lt hk)]

theorem efWake_tails (c : EFConst α) (t : Transforms α)
    (hc : ∀ (xs : Nat → Cx α) (k : Nat), c.nmax / 2 ≤ k → t.clob xs k = xs k)
    (prof : Nat → Nat → α) (s : EFState α) (h1 : FFTail c s) (h2 : WLTail c s) :
    FFTail c (efWake c t prof s) ∧ WLTail c (efWake c t prof s) := by
  rw [efWake_eq]
  constructor
  · intro k hk
    have : ¬ k ≤ c.nmax / 2 := Nat.not_le_of_gt hk
    simp [this, h1 k hk]
  · intro k hk
    show t.clob (wakeIn c t prof s) k = _
    rw [hc _ _ hk, wakeIn_eq]
    have : ¬ k < c.nmax / 2 := Nat.not_lt_of_ge hk
    simp [this, h2 k hk]

theorem efWake_obs (c : EFConst α) (t : Transforms α) (prof : Nat → Nat → α) (s s' : EFState α)
    (hwl : ∀ k, c.nmax / 2 ≤ k → s.wl k = s'.wl k) :
    (efWake c t prof s).bp = (efWake c t prof s').bp ∧
    (efWake c t prof s).wake = (efWake c t prof s').wake ∧
    (efWake c t prof s).wp = (efWake c t prof s').wp := by
  rw [efWake_eq, efWake_eq, wakeIn_congr c t prof s s' hwl]
  exact ⟨rfl, rfl, rfl⟩

/-- cleared buffer with the profile of bunch `b` at its start -/
def csrBuf (c : EFConst α) (prof : Nat → Nat → α) (b : Nat) : Nat → α :=
  fun i => if i < c.n then prof b i else zero

/-- form factor buffer after the forward transform of bunch `b`, `ff0` = earlier contents -/
def csrFF (c : EFConst α) (t : Transforms α) (prof : Nat → Nat → α) (ff0 : Nat → Cx α) (b : Nat) :
    Nat → Cx α :=
  fun k => if k ≤ c.nmax / 2 then t.r2c (csrBuf c prof b) k else ff0 k

def csrSpec (c : EFConst α) (t : Transforms α) (prof : Nat → Nat → α) (ff0 : Nat → Cx α) (b i : Nat) : α :=
  c.renorm i * (c.z i).1 * Cx.norm (csrFF c t prof ff0 b i)

def csrPow (c : EFConst α) (t : Transforms α) (prof : Nat → Nat → α) (ff0 : Nat → Cx α) (b : Nat) : α :=
  (List.range c.nmax).foldl (fun acc i => acc + c.dfreq * csrSpec c t prof ff0 b i) zero

theorem efCSRBunch_eq (c : EFConst α) (t : Transforms α) (prof : Nat → Nat → α) (s : EFState α)
    (b : Nat) :
    efCSRBunch c t prof s b =
      { bp := csrBuf c prof b
        ff := csrFF c t prof s.ff b
        wl := s.wl
        wp := s.wp
        wake := s.wake
        spec := fun b' i => if b' = b then csrSpec c t prof s.ff b i else s.spec b' i
        pow := fun b' => if b' = b then csrPow c t prof s.ff b else s.pow b' } := rfl

/-- `csrFF` depends on the earlier contents only through the tail -/
theorem csrFF_congr (c : EFConst α) (t : Transforms α) (prof : Nat → Nat → α) (f g : Nat → Cx α)
    (h : ∀ k, c.nmax / 2 < k → f k = g k) (b : Nat) :
    csrFF c t prof f b = csrFF c t prof g b := by
  funext k
  unfold csrFF
  by_cases hk : k ≤ c.nmax / 2
  · simp [hk]
  · simp [hk, h k (Nat.lt_of_not_le hk)]

theorem csrSpec_congr (c : EFConst α) (t : Transforms α) (prof : Nat → Nat → α) (f g : Nat → Cx α)
    (h : ∀ k, c.nmax / 2 < k → f k = g k) (b : Nat) :
    csrSpec c t prof f b = csrSpec c t prof g b := by
  funext i
  unfold csrSpec
  rw [csrFF_congr c t prof f g h b]

theorem csrPow_congr (c : EFConst α) (t : Transforms α) (prof : Nat → Nat → α) (f g : Nat → Cx α)
    (h : ∀ k, c.nmax / 2 < k → f k = g k) (b : Nat) :
    csrPow c t prof f b = csrPow c t prof g b := by
  unfold csrPow
  rw [csrSpec_congr c t prof f g h b]

/-- closed form of the state after the first `n` bunches of `updateCSR` -/
theorem csr_fold (c : EFConst α) (t : Transforms α) (prof : Nat → Nat → α) (s : EFState α) (n : Nat) :
    (∀ k, c.nmax / 2 < k → ((List.range n).foldl (efCSRBunch c t prof) s).ff k = s.ff k) ∧
    ((List.range n).foldl (efCSRBunch c t prof) s).wl = s.wl ∧
    (∀ b, b < n → ∀ i, ((List.range n).foldl (efCSRBunch c t prof) s).spec b i
        = csrSpec c t prof s.ff b i) ∧
    (∀ b, b < n → ((List.range n).foldl (efCSRBunch c t prof) s).pow b = csrPow c t prof s.ff b) ∧
    (0 < n → ((List.range n).foldl (efCSRBunch c t prof) s).bp = csrBuf c prof (n - 1)) := by
  induction n with
  | zero =>
    refine ⟨fun _ _ => rfl, rfl, ?_, ?_, ?_⟩
    · intro b hb; exact absurd hb (Nat.not_lt_zero _)
    · intro b hb; exact absurd hb (Nat.not_lt_zero _)
    · intro h; exact absurd h (Nat.lt_irrefl _)
  | succ n ih =>
    obtain ⟨ihff, ihwl, ihspec, ihpow, _⟩ := ih
    rw [List.range_succ, List.foldl_append, List.foldl_cons, List.foldl_nil, efCSRBunch_eq]
    refine ⟨?_, ihwl, ?_, ?_, fun _ => rfl⟩
    · intro k hk
      have : ¬ k ≤ c.nmax / 2 := Nat.not_le_of_gt hk
      show csrFF c t prof _ n k = _
      unfold csrFF
      simp [this, ihff k hk]
    · intro b hb i
      show (if b = n then _ else _) = _
      by_cases hbn : b = n
      · subst hbn
        rw [if_pos rfl, csrSpec_congr c t prof _ s.ff ihff]
      · rw [if_neg hbn]
        exact ihspec b (Nat.lt_of_le_of_ne (Nat.le_of_lt_succ hb) hbn) i
    · intro b hb
      show (if b = n then _ else _) = _
      by_cases hbn : b = n
      · subst hbn
        rw [if_pos rfl, csrPow_congr c t prof _ s.ff ihff]
      · rw [if_neg hbn]
        exact ihpow b (Nat.lt_of_le_of_ne (Nat.le_of_lt_succ hb) hbn)

theorem efCSR_tails (c : EFConst α) (t : Transforms α) (prof : Nat → Nat → α) (s : EFState α)
    (h1 : FFTail c s) (h2 : WLTail c s) :
    FFTail c (efCSR c t prof s) ∧ WLTail c (efCSR c t prof s) := by
  obtain ⟨hff, hwl, _⟩ := csr_fold c t prof s c.nb
  unfold efCSR
  constructor
  · intro k hk; rw [hff k hk]; exact h1 k hk
  · intro k hk; rw [hwl]; exact h2 k hk

theorem efCSR_spec (c : EFConst α) (t : Transforms α) (prof : Nat → Nat → α) (s : EFState α)
    (b : Nat) (hb : b < c.nb) (i : Nat) :
    (efCSR c t prof s).spec b i = csrSpec c t prof s.ff b i :=
  (csr_fold c t prof s c.nb).2.2.1 b hb i

theorem efCSR_pow (c : EFConst α) (t : Transforms α) (prof : Nat → Nat → α) (s : EFState α)
    (b : Nat) (hb : b < c.nb) :
    (efCSR c t prof s).pow b = csrPow c t prof s.ff b :=
  (csr_fold c t prof s c.nb).2.2.2.1 b hb

theorem efCSR_bp (c : EFConst α) (t : Transforms α) (prof : Nat → Nat → α) (s : EFState α)
    (hnb : 0 < c.nb) : (efCSR c t prof s).bp = csrBuf c prof (c.nb - 1) :=
  (csr_fold c t prof s c.nb).2.2.2.2 hnb

theorem efCSR_obs (c : EFConst α) (t : Transforms α) (prof : Nat → Nat → α) (s s' : EFState α)
    (hnb : 0 < c.nb) (hff : ∀ k, c.nmax / 2 < k → s.ff k = s'.ff k) :
    (efCSR c t prof s).bp = (efCSR c t prof s').bp ∧
    (∀ b, b < c.nb → ∀ i, (efCSR c t prof s).spec b i = (efCSR c t prof s').spec b i) ∧
    (∀ b, b < c.nb → (efCSR c t prof s).pow b = (efCSR c t prof s').pow b) := by
  refine ⟨?_, ?_, ?_⟩
  · rw [efCSR_bp c t prof s hnb, efCSR_bp c t prof s' hnb]
  · intro b hb i
    rw [efCSR_spec c t prof s b hb, efCSR_spec c t prof s' b hb, csrSpec_congr c t prof _ _ hff]
  · intro b hb
    rw [efCSR_pow c t prof s b hb, efCSR_pow c t prof s' b hb, csrPow_congr c t prof _ _ hff]

theorem efStep_tails (c : EFConst α) (t : Transforms α)
    (hc : ∀ (xs : Nat → Cx α) (k : Nat), c.nmax / 2 ≤ k → t.clob xs k = xs k)
    (s : EFState α) (op : EFOp α) (h1 : FFTail c s) (h2 : WLTail c s) :
    FFTail c (efStep c t s op) ∧ WLTail c (efStep c t s op) := by
  cases op with
  | wake p => exact efWake_tails c t hc p s h1 h2
  | pad p => exact ⟨h1, h2⟩
  | csr p => exact efCSR_tails c t p s h1 h2

theorem efRun_tails (c : EFConst α) (t : Transforms α)
    (hc : ∀ (xs : Nat → Cx α) (k : Nat), c.nmax / 2 ≤ k → t.clob xs k = xs k)
    (ops : List (EFOp α)) (s : EFState α) (h1 : FFTail c s) (h2 : WLTail c s) :
    FFTail c (efRun c t ops s) ∧ WLTail c (efRun c t ops s) := by
  induction ops generalizing s with
  | nil => exact ⟨h1, h2⟩
  | cons op ops ih =>
    obtain ⟨h1', h2'⟩ := efStep_tails c t hc s op h1 h2
    exact ih (efStep c t s op) h1' h2'

end machine

/-! ### folds as sums -/
section sums
variable {α : Type} [Field α]

theorem ef_foldl_add_eq_sum {ι : Type} (g : ι → α) (l : List ι) (a : α) :
    l.foldl (fun acc i => acc + g i) a = a + (l.map g).sum := by
  induction l generalizing a with
  | nil => simp
  | cons x xs ih => simp [List.foldl_cons, ih, add_assoc]

theorem ef_list_range_sum (n : Nat) (f : Nat → α) :
    ((List.range n).map f).sum = ∑ i ∈ Finset.range n, f i := by
  induction n with
  | zero => simp
  | succ n ih => simp [List.range_succ, Finset.sum_range_succ, ih]

theorem ef_foldl_range (n : Nat) (g : Nat → α) :
    (List.range n).foldl (fun acc i => acc + g i) zero = ∑ i ∈ Finset.range n, g i := by
  rw [ef_foldl_add_eq_sum, ef_list_range_sum, ef_zero, zero_add]

theorem cx_foldl_add {ι : Type} (g : ι → Cx α) (l : List ι) (a : Cx α) :
    l.foldl (fun acc i => Cx.add acc (g i)) a
      = (a.1 + (l.map fun i => (g i).1).sum, a.2 + (l.map fun i => (g i).2).sum) := by
  induction l generalizing a with
  | nil => simp
  | cons x xs ih =>
    rw [List.foldl_cons, ih]
    simp [Cx.add, add_assoc]

theorem dftNaive_fst (N : Nat) (tw : Nat → Cx α) (rho : Nat → α) (k : Nat) :
    (dftNaive N tw rho k).1 = ∑ x ∈ Finset.range N, rho x * (tw (k * x % N)).1 := by
  unfold dftNaive
  rw [cx_foldl_add]
  simp [Cx.smul, ef_list_range_sum]

theorem dftNaive_snd (N : Nat) (tw : Nat → Cx α) (rho : Nat → α) (k : Nat) :
    (dftNaive N tw rho k).2 = ∑ x ∈ Finset.range N, rho x * (tw (k * x % N)).2 := by
  unfold dftNaive
  rw [cx_foldl_add]
  simp [Cx.smul, ef_list_range_sum]

/-- Nyquist summand of `c2rNaive` -/
def nyqTerm (N : Nat) (xs : Nat → Cx α) (x : Nat) : α :=
  if N % 2 = 0 ∧ 0 < N then (if x % 2 = 0 then (xs (N / 2)).1 else -(xs (N / 2)).1) else 0

theorem c2rNaive_eq (N : Nat) (tw : Nat → Cx α) (xs : Nat → Cx α) (x : Nat) :
    c2rNaive N tw (2 : α) xs x
      = (xs 0).1
        + (∑ k' ∈ Finset.range ((N + 1) / 2 - 1),
            2 * ((xs (k' + 1)).1 * (tw ((k' + 1) * x % N)).1
               + (xs (k' + 1)).2 * (tw ((k' + 1) * x % N)).2))
        + nyqTerm N xs x := by
  show (xs 0).1 + (List.range ((N + 1) / 2 - 1)).foldl (fun acc k' =>
      acc + 2 * (Cx.mul (xs (k' + 1)) (Cx.conj (tw ((k' + 1) * x % N)))).1) zero
      + (if N % 2 = 0 ∧ 0 < N then (if x % 2 = 0 then (xs (N / 2)).1 else -(xs (N / 2)).1) else zero) = _
  rw [ef_foldl_range]
  simp [Cx.mul, Cx.conj, nyqTerm]

end sums

/-! ### sign of spectrum and power -/
section order
variable {α : Type} [Field α]

theorem csrPow_eq_finsum (c : EFConst α) (t : Transforms α) (prof : Nat → Nat → α)
    (ff0 : Nat → Cx α) (b : Nat) :
    csrPow c t prof ff0 b = ∑ i ∈ Finset.range c.nmax, c.dfreq * csrSpec c t prof ff0 b i :=
  ef_foldl_range _ _

theorem csrSpec_cutoff (c : EFConst α) (t : Transforms α) (prof : Nat → Nat → α)
    (ff0 : Nat → Cx α) (f : Nat → α) (b i : Nat) :
    csrSpec { c with renorm := fun i => c.renorm i * f i } t prof ff0 b i
      = f i * csrSpec c t prof ff0 b i := by
  show (c.renorm i * f i) * (c.z i).1 * Cx.norm (csrFF c t prof ff0 b i)
    = f i * (c.renorm i * (c.z i).1 * Cx.norm (csrFF c t prof ff0 b i))
  ring

variable [LinearOrder α] [IsStrictOrderedRing α]

theorem cx_norm_nonneg (a : Cx α) : 0 ≤ Cx.norm a :=
  add_nonneg (mul_self_nonneg _) (mul_self_nonneg _)

theorem csrSpec_nonneg (c : EFConst α) (t : Transforms α) (prof : Nat → Nat → α)
    (ff0 : Nat → Cx α) (hz : ∀ i, 0 ≤ (c.z i).1) (hr : ∀ i, 0 ≤ c.renorm i) (b i : Nat) :
    0 ≤ csrSpec c t prof ff0 b i :=
  mul_nonneg (mul_nonneg (hr i) (hz i)) (cx_norm_nonneg _)

theorem csrPow_nonneg (c : EFConst α) (t : Transforms α) (prof : Nat → Nat → α)
    (ff0 : Nat → Cx α) (hz : ∀ i, 0 ≤ (c.z i).1) (hr : ∀ i, 0 ≤ c.renorm i) (hd : 0 ≤ c.dfreq)
    (b : Nat) : 0 ≤ csrPow c t prof ff0 b := by
  rw [csrPow_eq_finsum]
  exact Finset.sum_nonneg fun i _ => mul_nonneg hd (csrSpec_nonneg c t prof ff0 hz hr b i)

theorem csrPow_cutoff_le (c : EFConst α) (t : Transforms α) (prof : Nat → Nat → α)
    (ff0 : Nat → Cx α) (f : Nat → α) (hf1 : ∀ i, f i ≤ 1)
    (hz : ∀ i, 0 ≤ (c.z i).1) (hr : ∀ i, 0 ≤ c.renorm i) (hd : 0 ≤ c.dfreq) (b : Nat) :
    csrPow { c with renorm := fun i => c.renorm i * f i } t prof ff0 b ≤ csrPow c t prof ff0 b := by
  rw [csrPow_eq_finsum, csrPow_eq_finsum]
  refine Finset.sum_le_sum fun i _ => ?_
  rw [csrSpec_cutoff]
  exact mul_le_mul_of_nonneg_left
    (mul_le_of_le_one_left (csrSpec_nonneg c t prof ff0 hz hr b i) (hf1 i)) hd

end order

/-! ### Parseval pairing and CSR power as a sum -/
section parseval
variable {α : Type} [Field α]

theorem csrBuf_eq (c : EFConst α) (prof : Nat → Nat → α) (b : Nat) :
    csrBuf c prof b = fun x => if x < c.n then prof b x else 0 := by
  funext x; simp [csrBuf]

theorem cx_norm_zero : Cx.norm (((0 : α), (0 : α)) : Cx α) = 0 := by simp [Cx.norm]

theorem csrPow_naive_sum (c : EFConst α) (tw : Nat → Cx α) (two : α) (prof : Nat → Nat → α)
    (ff0 : Nat → Cx α) (hff0 : ∀ k, c.nmax / 2 < k → ff0 k = ((0 : α), (0 : α)))
    (r : α) (hr : ∀ i, c.renorm i = r) (b : Nat) :
    csrPow c (naiveTransforms c.nmax tw two) prof ff0 b
      = c.dfreq * r * ((List.range (c.nmax / 2 + 1)).map fun i =>
          (if i < c.nmax then
            (c.z i).1 * Cx.norm (dftNaive c.nmax tw (fun x => if x < c.n then prof b x else 0) i)
           else 0)).sum := by
  rw [csrPow_eq_finsum, ef_list_range_sum, Finset.mul_sum]
  have key : ∀ i, c.dfreq * csrSpec c (naiveTransforms c.nmax tw two) prof ff0 b i
      = if i ≤ c.nmax / 2 then c.dfreq * r * ((c.z i).1 *
          Cx.norm (dftNaive c.nmax tw (fun x => if x < c.n then prof b x else 0) i)) else 0 := by
    intro i
    unfold csrSpec csrFF
    rw [hr i, csrBuf_eq]
    by_cases hi : i ≤ c.nmax / 2
    · simp only [hi, if_true, naiveTransforms]; ring
    · simp only [hi, if_false]
      rw [hff0 i (Nat.lt_of_not_le hi), cx_norm_zero]; ring
  simp only [key, mul_ite, mul_zero]
  rw [← Finset.sum_filter, ← Finset.sum_filter]
  apply Finset.sum_congr
  · ext i
    simp only [Finset.mem_filter, Finset.mem_range]
    omega
  · intros; rfl

/-- pairing of a profile with the inverse transform of an arbitrary half spectrum -/
theorem pairing_general (N : Nat) (tw : Nat → Cx α) (xs : Nat → Cx α) (rho : Nat → α) :
    ∑ x ∈ Finset.range N, rho x * c2rNaive N tw (2 : α) xs x
      = (xs 0).1 * ∑ x ∈ Finset.range N, rho x
        + ∑ k' ∈ Finset.range ((N + 1) / 2 - 1),
            2 * ((xs (k' + 1)).1 * (dftNaive N tw rho (k' + 1)).1
               + (xs (k' + 1)).2 * (dftNaive N tw rho (k' + 1)).2)
        + ∑ x ∈ Finset.range N, rho x * nyqTerm N xs x := by
  have h1 : ∀ x, rho x * c2rNaive N tw (2 : α) xs x
      = (xs 0).1 * rho x
        + (∑ k' ∈ Finset.range ((N + 1) / 2 - 1),
            rho x * (2 * ((xs (k' + 1)).1 * (tw ((k' + 1) * x % N)).1
               + (xs (k' + 1)).2 * (tw ((k' + 1) * x % N)).2)))
        + rho x * nyqTerm N xs x := by
    intro x
    rw [c2rNaive_eq, mul_add, mul_add, Finset.mul_sum, mul_comm (rho x) (xs 0).1]
  rw [Finset.sum_congr rfl (fun x _ => h1 x), Finset.sum_add_distrib, Finset.sum_add_distrib,
    ← Finset.mul_sum]
  congr 2
  rw [Finset.sum_comm]
  apply Finset.sum_congr rfl
  intro k _
  rw [dftNaive_fst, dftNaive_snd]
  simp only [Finset.mul_sum, ← Finset.sum_add_distrib]
  apply Finset.sum_congr rfl
  intro x _
  ring

theorem dftNaive_zero (N : Nat) (tw : Nat → Cx α) (rho : Nat → α)
    (htw0 : tw 0 = ((1 : α), (0 : α))) :
    dftNaive N tw rho 0 = (∑ x ∈ Finset.range N, rho x, 0) := by
  apply Prod.ext
  · rw [dftNaive_fst]; simp [htw0]
  · rw [dftNaive_snd]; simp [htw0]

theorem parseval_finsum [CharZero α] (N : Nat) (tw : Nat → Cx α) (z : Nat → Cx α) (rho : Nat → α)
    (htw0 : tw 0 = ((1 : α), (0 : α))) (hN : 2 ≤ N) :
    (1 / 2 : α) * ∑ x ∈ Finset.range N, rho x *
        c2rNaive N tw 2
          (fun k => if k < N / 2 then Cx.mul (z k) (dftNaive N tw rho k) else ((0 : α), (0 : α))) x
      = (1 / 2 : α) * (z 0).1 * Cx.norm (dftNaive N tw rho 0)
        + ∑ k' ∈ Finset.range ((N + 1) / 2 - 1),
            (if k' + 1 < N / 2 then (z (k' + 1)).1 * Cx.norm (dftNaive N tw rho (k' + 1)) else 0) := by
  rw [pairing_general]
  have h0 : 0 < N / 2 := Nat.div_pos hN (by norm_num)
  have hnyq : ∀ x, nyqTerm N (fun k => if k < N / 2 then Cx.mul (z k) (dftNaive N tw rho k)
      else ((0 : α), (0 : α))) x = 0 := by
    intro x
    unfold nyqTerm
    simp
  simp only [hnyq, mul_zero, Finset.sum_const_zero, add_zero, h0, if_true]
  rw [mul_add]
  congr 1
  · rw [dftNaive_zero N tw rho htw0]
    simp only [Cx.mul, Cx.norm]
    ring
  · rw [Finset.mul_sum]
    apply Finset.sum_congr rfl
    intro k _
    by_cases hk : k + 1 < N / 2
    · simp only [hk, if_true, Cx.mul, Cx.norm]
      ring
    · simp only [hk, if_false]
      ring

end parseval

/-! ### wake potential: specification, padding, linearity -/
section wake
variable {α : Type} [Field α]

theorem efWake_wake_naive (c : EFConst α) (tw : Nat → Cx α) (two : α) (s : EFState α)
    (h2 : WLTail c s) (prof : Nat → Nat → α) :
    (efWake c (naiveTransforms c.nmax tw two) prof s).wake
      = fun b x => c.wakescaling *
          c2rNaive c.nmax tw two
            (fun k => if k < c.nmax / 2 then
                Cx.mul (c.z k) (dftNaive c.nmax tw (padProfiles c prof) k)
              else ((0 : α), (0 : α)))
            (c.bucket b * c.spacing + x) := by
  rw [efWake_eq, wakeIn_eq]
  have : (fun k => if k < c.nmax / 2 then
        Cx.mul (c.z k) ((naiveTransforms c.nmax tw two).r2c (padProfiles c prof) k) else s.wl k)
      = (fun k => if k < c.nmax / 2 then
        Cx.mul (c.z k) (dftNaive c.nmax tw (padProfiles c prof) k) else ((0 : α), (0 : α))) := by
    funext k
    by_cases hk : k < c.nmax / 2
    · simp only [hk, if_true, naiveTransforms]
    · simp only [hk, if_false]
      exact h2 k (Nat.le_of_not_lt hk)
  rw [this]
  rfl

/-- padded buffer after the first `n` bunches -/
def padFold (c : EFConst α) (prof : Nat → Nat → α) (n : Nat) : Nat → α :=
  (List.range n).foldl (fun (buf : Nat → α) b => fun i =>
      let o := c.bucket b * c.spacing
      if o ≤ i ∧ i < o + c.n then prof b (i - o) else buf i) (fun _ => zero)

theorem padProfiles_eq (c : EFConst α) (prof : Nat → Nat → α) :
    padProfiles c prof = padFold c prof c.nb := rfl

theorem padFold_zero (c : EFConst α) (prof : Nat → Nat → α) (i : Nat) :
    padFold c prof 0 i = 0 := by
  simp [padFold]

theorem padFold_succ (c : EFConst α) (prof : Nat → Nat → α) (n i : Nat) :
    padFold c prof (n + 1) i
      = if c.bucket n * c.spacing ≤ i ∧ i < c.bucket n * c.spacing + c.n
        then prof n (i - c.bucket n * c.spacing) else padFold c prof n i := by
  unfold padFold
  rw [List.range_succ, List.foldl_append]
  rfl

theorem padFold_inside (c : EFConst α) (prof : Nat → Nat → α)
    (hdisj : ∀ b b', b < c.nb → b' < c.nb → b ≠ b' →
      c.bucket b * c.spacing + c.n ≤ c.bucket b' * c.spacing ∨
      c.bucket b' * c.spacing + c.n ≤ c.bucket b * c.spacing)
    (n : Nat) (hn : n ≤ c.nb) (b x : Nat) (hb : b < n) (hx : x < c.n) :
    padFold c prof n (c.bucket b * c.spacing + x) = prof b x := by
  induction n with
  | zero => exact absurd hb (Nat.not_lt_zero _)
  | succ n ih =>
    rw [padFold_succ]
    by_cases hbn : b = n
    · subst hbn
      rw [if_pos ⟨Nat.le_add_right _ _, Nat.add_lt_add_left hx _⟩, Nat.add_sub_cancel_left]
    · have hbn' : b < n := Nat.lt_of_le_of_ne (Nat.le_of_lt_succ hb) hbn
      have hd := hdisj b n (by omega) (by omega) hbn
      rw [if_neg (by omega)]
      exact ih (by omega) hbn'

theorem padFold_outside (c : EFConst α) (prof : Nat → Nat → α) (n : Nat) (i : Nat)
    (h : ∀ b, b < n → ¬ (c.bucket b * c.spacing ≤ i ∧ i < c.bucket b * c.spacing + c.n)) :
    padFold c prof n i = 0 := by
  induction n with
  | zero => exact padFold_zero c prof i
  | succ n ih =>
    rw [padFold_succ, if_neg (h n (Nat.lt_succ_self n))]
    exact ih fun b hb => h b (Nat.lt_succ_of_lt hb)

theorem padFold_linear (c : EFConst α) (p q : Nat → Nat → α) (a : α) (n i : Nat) :
    padFold c (fun b x => a * p b x + q b x) n i = a * padFold c p n i + padFold c q n i := by
  induction n with
  | zero => simp [padFold_zero]
  | succ n ih =>
    rw [padFold_succ, padFold_succ, padFold_succ]
    split_ifs
    · rfl
    · exact ih

theorem padProfiles_linear (c : EFConst α) (p q : Nat → Nat → α) (a : α) (i : Nat) :
    padProfiles c (fun b x => a * p b x + q b x) i
      = a * padProfiles c p i + padProfiles c q i :=
  padFold_linear c p q a c.nb i

theorem dftNaive_linear (N : Nat) (tw : Nat → Cx α) (r1 r2 : Nat → α) (a : α) (k : Nat) :
    dftNaive N tw (fun i => a * r1 i + r2 i) k
      = (a * (dftNaive N tw r1 k).1 + (dftNaive N tw r2 k).1,
         a * (dftNaive N tw r1 k).2 + (dftNaive N tw r2 k).2) := by
  apply Prod.ext
  · simp only [dftNaive_fst, Finset.mul_sum, ← Finset.sum_add_distrib]
    exact Finset.sum_congr rfl fun x _ => by ring
  · simp only [dftNaive_snd, Finset.mul_sum, ← Finset.sum_add_distrib]
    exact Finset.sum_congr rfl fun x _ => by ring

theorem c2rNaive_linear (N : Nat) (tw : Nat → Cx α) (xs ys zs : Nat → Cx α) (a : α)
    (hxs : ∀ k, xs k = (a * (ys k).1 + (zs k).1, a * (ys k).2 + (zs k).2)) (x : Nat) :
    c2rNaive N tw (2 : α) xs x = a * c2rNaive N tw 2 ys x + c2rNaive N tw 2 zs x := by
  rw [c2rNaive_eq, c2rNaive_eq, c2rNaive_eq]
  have nyq : nyqTerm N xs x = a * nyqTerm N ys x + nyqTerm N zs x := by
    unfold nyqTerm
    rw [hxs]
    split_ifs <;> ring
  have hs : (∑ k' ∈ Finset.range ((N + 1) / 2 - 1),
        2 * ((xs (k' + 1)).1 * (tw ((k' + 1) * x % N)).1
           + (xs (k' + 1)).2 * (tw ((k' + 1) * x % N)).2))
      = a * (∑ k' ∈ Finset.range ((N + 1) / 2 - 1),
        2 * ((ys (k' + 1)).1 * (tw ((k' + 1) * x % N)).1
           + (ys (k' + 1)).2 * (tw ((k' + 1) * x % N)).2))
        + (∑ k' ∈ Finset.range ((N + 1) / 2 - 1),
        2 * ((zs (k' + 1)).1 * (tw ((k' + 1) * x % N)).1
           + (zs (k' + 1)).2 * (tw ((k' + 1) * x % N)).2)) := by
    rw [Finset.mul_sum, ← Finset.sum_add_distrib]
    refine Finset.sum_congr rfl fun k _ => ?_
    rw [hxs]
    ring
  rw [nyq, hs, hxs]
  ring

theorem wake_half_linear (N : Nat) (tw : Nat → Cx α) (z : Nat → Cx α) (r1 r2 : Nat → α) (a : α)
    (x : Nat) :
    c2rNaive N tw (2 : α)
        (fun k => if k < N / 2 then Cx.mul (z k) (dftNaive N tw (fun i => a * r1 i + r2 i) k)
          else ((0 : α), (0 : α))) x
      = a * c2rNaive N tw 2
          (fun k => if k < N / 2 then Cx.mul (z k) (dftNaive N tw r1 k) else ((0 : α), (0 : α))) x
        + c2rNaive N tw 2
          (fun k => if k < N / 2 then Cx.mul (z k) (dftNaive N tw r2 k) else ((0 : α), (0 : α))) x := by
  apply c2rNaive_linear
  intro k
  by_cases hk : k < N / 2
  · simp only [hk, if_true, dftNaive_linear, Cx.mul]
    apply Prod.ext <;> ring
  · simp only [hk, if_false]
    apply Prod.ext <;> simp

end wake

/-! ### cyclic shift -/
section shift
variable {α : Type} [Field α]

theorem mod_lt_two (N a : Nat) (h : a < 2 * N) : a % N = if a < N then a else a - N := by
  split_ifs with h1
  · exact Nat.mod_eq_of_lt h1
  · have h2 : a = (a - N) + N := by omega
    rw [h2, Nat.add_mod_right, Nat.mod_eq_of_lt (by omega)]
    omega

theorem shift_inv1 (N d i : Nat) (hd : d < N) (hi : i < N) : ((i + N - d) % N + d) % N = i := by
  rw [mod_lt_two N (i + N - d) (by omega)]
  split_ifs <;> rw [mod_lt_two N _ (by omega)] <;> split_ifs <;> omega

theorem shift_inv2 (N d j : Nat) (hd : d < N) (hj : j < N) : ((j + d) % N + N - d) % N = j := by
  rw [mod_lt_two N (j + d) (by omega)]
  split_ifs <;> rw [mod_lt_two N _ (by omega)] <;> split_ifs <;> omega

/-- a cyclic shift permutes `range N` -/
theorem sum_range_shift (N d : Nat) (hd : d < N) (h : Nat → α) :
    ∑ i ∈ Finset.range N, h i = ∑ j ∈ Finset.range N, h ((j + d) % N) := by
  have hN : 0 < N := by omega
  refine Finset.sum_nbij' (fun i => (i + N - d) % N) (fun j => (j + d) % N) ?_ ?_ ?_ ?_ ?_
  · intro i _; exact Finset.mem_range.mpr (Nat.mod_lt _ hN)
  · intro j _; exact Finset.mem_range.mpr (Nat.mod_lt _ hN)
  · intro i hi; exact shift_inv1 N d i hd (Finset.mem_range.mp hi)
  · intro j hj; exact shift_inv2 N d j hd (Finset.mem_range.mp hj)
  · intro i hi
    show h i = h (((i + N - d) % N + d) % N)
    rw [shift_inv1 N d i hd (Finset.mem_range.mp hi)]

theorem tw_mul_shift (N : Nat) (hN : 0 < N) (tw : Nat → Cx α)
    (htw : ∀ a b, a < N → b < N → tw ((a + b) % N) = Cx.mul (tw a) (tw b)) (k j d : Nat) :
    tw (k * ((j + d) % N) % N) = Cx.mul (tw (k * j % N)) (tw (k * d % N)) := by
  rw [Nat.mul_mod_mod, Nat.mul_add, Nat.add_mod]
  exact htw _ _ (Nat.mod_lt _ hN) (Nat.mod_lt _ hN)

theorem dftNaive_shift (N : Nat) (hN : 0 < N) (tw : Nat → Cx α)
    (htw : ∀ a b, a < N → b < N → tw ((a + b) % N) = Cx.mul (tw a) (tw b))
    (rho : Nat → α) (d : Nat) (hd : d < N) (k : Nat) :
    dftNaive N tw (fun i => rho ((i + N - d) % N)) k
      = Cx.mul (dftNaive N tw rho k) (tw (k * d % N)) := by
  apply Prod.ext
  · rw [dftNaive_fst,
      sum_range_shift N d hd (fun i => rho ((i + N - d) % N) * (tw (k * i % N)).1)]
    simp only [Cx.mul, dftNaive_fst, dftNaive_snd, Finset.sum_mul, ← Finset.sum_sub_distrib]
    refine Finset.sum_congr rfl fun j hj => ?_
    rw [shift_inv2 N d j hd (Finset.mem_range.mp hj), tw_mul_shift N hN tw htw]
    simp only [Cx.mul]
    ring
  · rw [dftNaive_snd,
      sum_range_shift N d hd (fun i => rho ((i + N - d) % N) * (tw (k * i % N)).2)]
    simp only [Cx.mul, dftNaive_fst, dftNaive_snd, Finset.sum_mul, ← Finset.sum_add_distrib]
    refine Finset.sum_congr rfl fun j hj => ?_
    rw [shift_inv2 N d j hd (Finset.mem_range.mp hj), tw_mul_shift N hN tw htw]
    simp only [Cx.mul]
    ring

theorem cx_mul_assoc (a b c : Cx α) : Cx.mul a (Cx.mul b c) = Cx.mul (Cx.mul a b) c := by
  apply Prod.ext <;> simp only [Cx.mul] <;> ring

theorem c2rNaive_shift (N : Nat) (hN : 0 < N) (tw : Nat → Cx α)
    (htw0 : tw 0 = ((1 : α), (0 : α)))
    (htw : ∀ a b, a < N → b < N → tw ((a + b) % N) = Cx.mul (tw a) (tw b))
    (hunit : ∀ a, a < N → Cx.mul (tw a) (Cx.conj (tw a)) = ((1 : α), (0 : α)))
    (xs : Nat → Cx α) (hnyq : xs (N / 2) = ((0 : α), (0 : α))) (d x : Nat) :
    c2rNaive N tw (2 : α) (fun k => Cx.mul (xs k) (tw (k * d % N))) ((x + d) % N)
      = c2rNaive N tw 2 xs x := by
  rw [c2rNaive_eq, c2rNaive_eq]
  have h0 : (Cx.mul (xs 0) (tw (0 * d % N))).1 = (xs 0).1 := by
    simp [htw0, Cx.mul]
  have hn1 : nyqTerm N (fun k => Cx.mul (xs k) (tw (k * d % N))) ((x + d) % N) = 0 := by
    unfold nyqTerm
    simp [hnyq, Cx.mul]
  have hn2 : nyqTerm N xs x = 0 := by
    unfold nyqTerm
    simp [hnyq]
  rw [hn1, hn2]
  simp only [h0]
  congr 2
  refine Finset.sum_congr rfl fun k _ => ?_
  rw [tw_mul_shift N hN tw htw]
  have hu := hunit ((k + 1) * d % N) (Nat.mod_lt _ hN)
  have hu1 : (tw ((k + 1) * d % N)).1 * (tw ((k + 1) * d % N)).1
      + (tw ((k + 1) * d % N)).2 * (tw ((k + 1) * d % N)).2 = 1 := by
    have := congrArg Prod.fst hu
    simpa [Cx.mul, Cx.conj] using this
  simp only [Cx.mul]
  linear_combination (2 * ((xs (k + 1)).1 * (tw ((k + 1) * x % N)).1
    + (xs (k + 1)).2 * (tw ((k + 1) * x % N)).2)) * hu1

theorem wake_shift_naive (N : Nat) (hN : 0 < N) (tw : Nat → Cx α) (z : Nat → Cx α)
    (htw0 : tw 0 = ((1 : α), (0 : α)))
    (htw : ∀ a b, a < N → b < N → tw ((a + b) % N) = Cx.mul (tw a) (tw b))
    (hunit : ∀ a, a < N → Cx.mul (tw a) (Cx.conj (tw a)) = ((1 : α), (0 : α)))
    (rho : Nat → α) (d : Nat) (hd : d < N) (x : Nat) :
    c2rNaive N tw (2 : α)
        (fun k => if k < N / 2 then
            Cx.mul (z k) (dftNaive N tw (fun i => rho ((i + N - d) % N)) k)
          else ((0 : α), (0 : α))) ((x + d) % N)
      = c2rNaive N tw 2
        (fun k => if k < N / 2 then Cx.mul (z k) (dftNaive N tw rho k)
          else ((0 : α), (0 : α))) x := by
  have hf : (fun k => if k < N / 2 then
        Cx.mul (z k) (dftNaive N tw (fun i => rho ((i + N - d) % N)) k) else ((0 : α), (0 : α)))
      = (fun k => Cx.mul ((fun k => if k < N / 2 then Cx.mul (z k) (dftNaive N tw rho k)
          else ((0 : α), (0 : α))) k) (tw (k * d % N))) := by
    funext k
    by_cases hk : k < N / 2
    · simp only [hk, if_true]
      rw [dftNaive_shift N hN tw htw rho d hd k, cx_mul_assoc]
    · simp only [hk, if_false]
      apply Prod.ext <;> simp [Cx.mul]
  rw [hf]
  exact c2rNaive_shift N hN tw htw0 htw hunit _ (by simp) d x

end shift

end Inovesa
