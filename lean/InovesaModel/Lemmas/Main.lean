/- helper lemmas about the main-program interpreter -/
import InovesaModel.Model.MainProgram
namespace Inovesa
open Gen

variable {V : Type} (sem : Sem V) (c : MCfg) (s : MState V)

/-! ### one lemma per call name occurring in the generated blocks -/

@[simp] theorem call_ip_setup_first_status : execCall sem c "ip:setup:first-status" s = { s with clock := s.clock + 1 } := by
  simp [execCall]
@[simp] theorem call_ip_setup_initial_record : execCall sem c "ip:setup:initial-record" s = { s with clock := s.clock + 1 } := by
  simp [execCall]
@[simp] theorem call_ip_loop_head : execCall sem c "ip:loop:head" s = { s with clock := s.clock + 1 } := by
  simp [execCall]
@[simp] theorem call_ip_loop_wake_updated : execCall sem c "ip:loop:wake-updated" s = { s with clock := s.clock + 1 } := by
  simp [execCall]
@[simp] theorem call_ip_loop_integrated : execCall sem c "ip:loop:integrated" s = { s with clock := s.clock + 1 } := by
  simp [execCall]
@[simp] theorem call_ip_out_moments : execCall sem c "ip:out:moments" s = { s with clock := s.clock + 1 } := by
  simp [execCall]
@[simp] theorem call_ip_out_ps_appended : execCall sem c "ip:out:ps-appended" s = { s with clock := s.clock + 1 } := by
  simp [execCall]
@[simp] theorem call_ip_out_csr_appended : execCall sem c "ip:out:csr-appended" s = { s with clock := s.clock + 1 } := by
  simp [execCall]
@[simp] theorem call_ip_out_wake_appended : execCall sem c "ip:out:wake-appended" s = { s with clock := s.clock + 1 } := by
  simp [execCall]
@[simp] theorem call_ip_out_tracks_appended : execCall sem c "ip:out:tracks-appended" s = { s with clock := s.clock + 1 } := by
  simp [execCall]
@[simp] theorem call_ip_loop_output_done : execCall sem c "ip:loop:output-done" s = { s with clock := s.clock + 1 } := by
  simp [execCall]
@[simp] theorem call_ip_loop_wake_applied : execCall sem c "ip:loop:wake-applied" s = { s with clock := s.clock + 1 } := by
  simp [execCall]
@[simp] theorem call_ip_loop_rf_applied : execCall sem c "ip:loop:rf-applied" s = { s with clock := s.clock + 1 } := by
  simp [execCall]
@[simp] theorem call_ip_loop_drift_applied : execCall sem c "ip:loop:drift-applied" s = { s with clock := s.clock + 1 } := by
  simp [execCall]
@[simp] theorem call_ip_loop_fp_applied : execCall sem c "ip:loop:fp-applied" s = { s with clock := s.clock + 1 } := by
  simp [execCall]
@[simp] theorem call_ip_loop_projected : execCall sem c "ip:loop:projected" s = { s with clock := s.clock + 1 } := by
  simp [execCall]
@[simp] theorem call_ip_final_loop_left : execCall sem c "ip:final:loop-left" s = { s with clock := s.clock + 1 } := by
  simp [execCall]
@[simp] theorem call_ip_final_moments : execCall sem c "ip:final:moments" s = { s with clock := s.clock + 1 } := by
  simp [execCall]
@[simp] theorem call_ip_final_ps_appended : execCall sem c "ip:final:ps-appended" s = { s with clock := s.clock + 1 } := by
  simp [execCall]
@[simp] theorem call_ip_final_rfkicks_appended : execCall sem c "ip:final:rfkicks-appended" s = { s with clock := s.clock + 1 } := by
  simp [execCall]
@[simp] theorem call_ip_final_record_written : execCall sem c "ip:final:record-written" s = { s with clock := s.clock + 1 } := by
  simp [execCall]
@[simp] theorem call_decl_updatetime : execCall sem c "decl.updatetime" s = s := by
  simp [execCall]
@[simp] theorem call_print_status : execCall sem c "print.status" s = s := by
  simp [execCall]
@[simp] theorem call_decl_h5save : execCall sem c "decl.h5save" s = s := by
  simp [execCall]
@[simp] theorem call_decl_at : execCall sem c "decl.at" s = s := by
  simp [execCall]
@[simp] theorem call_xproj : execCall sem c "grid.updateXProjection" s = { s with xp := sem.xproj s.grid } := by
  simp [execCall]
@[simp] theorem call_yproj : execCall sem c "grid.updateYProjection" s = { s with yp := sem.yproj s.grid } := by
  simp [execCall]
@[simp] theorem call_integrate : execCall sem c "grid.integrate" s = { s with fil := sem.integ s.xp } := by
  simp [execCall]
@[simp] theorem call_integrateAndNormalize : execCall sem c "grid.integrateAndNormalize" s
    = { s with fil := sem.integ s.xp, grid := sem.normalize s.grid (sem.integ s.xp) } := by
  simp [execCall]
@[simp] theorem call_variance0 : execCall sem c "grid.variance0" s = { s with m0 := sem.mom0 s.xp s.fil } := by
  simp [execCall]
@[simp] theorem call_variance1 : execCall sem c "grid.variance1" s = { s with m1 := sem.mom1 s.yp s.fil } := by
  simp [execCall]
@[simp] theorem call_wkm_update : execCall sem c "wkm.update" s
    = { s with wk := sem.wake s.xp, wpad := sem.wakepad s.xp } := by
  simp [execCall]
@[simp] theorem call_wakePotential : execCall sem c "wakefield.wakePotential" s
    = { s with wpad := sem.wakepad s.xp } := by
  simp [execCall]
@[simp] theorem call_appendPadded : execCall sem c "file.appendPadded" s
    = { s with file := { s.file with padded := s.file.padded ++ [s.wpad] } } := by
  simp [execCall]
@[simp] theorem call_appendPS0 : execCall sem c "file.appendGrid.PhaseSpace0" s
    = { s with file := { s.file with ps := s.file.ps ++ [(0, s.grid)] } } := by
  simp [execCall]

/-- the observation schedule as a function of the counters only -/
def isOut (c : MCfg) (n : Nat) : Bool := decide (c.outstep > 0) && decide (n % c.outstep = 0)
def isRenorm (rn : Int) (n : Nat) : Bool := decide (rn > 0) && decide ((n : Int) % rn = 0)
def isSaveAll (c : MCfg) (n : Nat) : Bool := decide (c.h5save > 0) && decide (n % c.h5save = 0)

@[simp] theorem condHolds_hasWake : condHolds c s .hasWake = c.hasWake := rfl
@[simp] theorem condHolds_hasWakeField : condHolds c s .hasWakeField = c.hasWake := rfl
@[simp] theorem condHolds_hasFile : condHolds c s .hasFile = c.hasFile := rfl
@[simp] theorem condHolds_hasDrfm : condHolds c s .hasDrfm = c.hasDrfm := rfl
@[simp] theorem condHolds_h5saveZero : condHolds c s .h5saveZero = decide (c.h5save = 0) := rfl
@[simp] theorem condHolds_outNow : condHolds c s .outNow = isOut c s.step := rfl
@[simp] theorem condHolds_renormNow : condHolds c s .renormNow = isRenorm c.renormalize s.step := rfl
@[simp] theorem saveAllNow_eq : saveAllNow c s = isSaveAll c s.outnr := rfl

@[simp] theorem call_appendGrid_at : execCall sem c "file.appendGrid.at" s
    = { s with file := { s.file with
          ps := if isSaveAll c s.outnr then s.file.ps ++ [(s.step, s.grid)] else s.file.ps,
          recs := s.file.recs ++ [mkRec s] } } := by
  simp only [execCall]
  simp
  split <;> simp_all
@[simp] theorem call_appendGrid_All : execCall sem c "file.appendGrid.All" s
    = { s with file := { s.file with ps := s.file.ps ++ [(s.step, s.grid)], recs := s.file.recs ++ [mkRec s] } } := by
  simp [execCall]
@[simp] theorem call_updateCSR : execCall sem c "rdtn.updateCSR" s = { s with csrv := sem.csr s.xp } := by
  simp [execCall]
@[simp] theorem call_appendCSR : execCall sem c "file.appendCSR" s
    = { s with file := { s.file with csr := s.file.csr ++ [s.csrv] } } := by
  simp [execCall]
@[simp] theorem call_appendWake : execCall sem c "file.appendWake" s
    = { s with file := { s.file with wake := s.file.wake ++ [s.wk] } } := by
  simp [execCall]
@[simp] theorem call_appendTracks : execCall sem c "file.appendTracks" s
    = { s with file := { s.file with tracks := s.file.tracks ++ [s.tracks] } } := by
  simp [execCall]
@[simp] theorem call_appendRFKicks : execCall sem c "file.appendRFKicks" s
    = { s with file := { s.file with rfk := s.file.rfk ++ s.rfPast }, rfPast := [] } := by
  simp [execCall]
@[simp] theorem call_wm_apply : execCall sem c "wm.apply" s
    = { s with grid := if c.hasWake then sem.kick s.grid s.wk else sem.ident s.grid } := by
  simp [execCall]
@[simp] theorem call_wm_track : execCall sem c "wm.track" s = { s with tracks := sem.track "wm" s.tracks s.wk } := by
  simp [execCall]
/-- the RF kick of the grid: the next queue entry with a dynamic map (nothing if the queue is
    exhausted), the static map otherwise -/
def rfGrid (sem : Sem V) (hd : Bool) (g : V) (q : List V) : V :=
  if hd then (match q with | r :: _ => sem.rfDyn g r | [] => g) else sem.rfStatic g
@[simp] theorem call_rfm_apply : execCall sem c "rfm.apply" s
    = { s with grid := rfGrid sem c.hasDrfm s.grid s.rfNext,
               rfNext := if c.hasDrfm then s.rfNext.tail else s.rfNext,
               rfPast := if c.hasDrfm then s.rfPast ++ s.rfNext.head?.toList else s.rfPast } := by
  simp only [execCall, rfGrid]
  simp
  cases c.hasDrfm <;> simp
  cases s with | mk _ _ _ _ _ _ _ _ _ _ _ _ q _ _ _ =>
  cases q <;> simp
@[simp] theorem call_rfm_track : execCall sem c "rfm.track" s = { s with tracks := sem.track "rfm" s.tracks s.wk } := by
  simp [execCall]
@[simp] theorem call_drm_apply : execCall sem c "drm.apply" s = { s with grid := sem.drift s.grid } := by
  simp [execCall]
@[simp] theorem call_drm_track : execCall sem c "drm.track" s = { s with tracks := sem.track "drm" s.tracks s.wk } := by
  simp [execCall]
@[simp] theorem call_fpm_apply : execCall sem c "fpm.apply" s = { s with grid := sem.fp s.grid } := by
  simp [execCall]
@[simp] theorem call_fpm_track : execCall sem c "fpm.track" s = { s with tracks := sem.track "fpm" s.tracks s.wk } := by
  simp [execCall]
@[simp] theorem call_step_pp : execCall sem c "step++" s = { s with step := s.step + 1 } := by
  simp [execCall]
@[simp] theorem call_outnr_pp : execCall sem c "outnr++" s = { s with outnr := s.outnr + 1 } := by
  simp [execCall]
@[simp] theorem call_decl_outstepnr : execCall sem c "decl.outstepnr" s = { s with outnr := 0 } := by
  simp [execCall]
@[simp] theorem call_decl_simulationstep : execCall sem c "decl.simulationstep" s = { s with step := 0 } := by
  simp [execCall]


/-! ### projections commute with `if` (keeps symbolic states in constructor normal form) -/
section
variable (p : Prop) [Decidable p] (a b : MState V) (f g : MFile V)
@[simp] theorem ite_step : (if p then a else b).step = if p then a.step else b.step := by split <;> rfl
@[simp] theorem ite_outnr : (if p then a else b).outnr = if p then a.outnr else b.outnr := by split <;> rfl
@[simp] theorem ite_clock : (if p then a else b).clock = if p then a.clock else b.clock := by split <;> rfl
@[simp] theorem ite_grid : (if p then a else b).grid = if p then a.grid else b.grid := by split <;> rfl
@[simp] theorem ite_xp : (if p then a else b).xp = if p then a.xp else b.xp := by split <;> rfl
@[simp] theorem ite_yp : (if p then a else b).yp = if p then a.yp else b.yp := by split <;> rfl
@[simp] theorem ite_fil : (if p then a else b).fil = if p then a.fil else b.fil := by split <;> rfl
@[simp] theorem ite_m0 : (if p then a else b).m0 = if p then a.m0 else b.m0 := by split <;> rfl
@[simp] theorem ite_m1 : (if p then a else b).m1 = if p then a.m1 else b.m1 := by split <;> rfl
@[simp] theorem ite_wk : (if p then a else b).wk = if p then a.wk else b.wk := by split <;> rfl
@[simp] theorem ite_wpad : (if p then a else b).wpad = if p then a.wpad else b.wpad := by split <;> rfl
@[simp] theorem ite_csrv : (if p then a else b).csrv = if p then a.csrv else b.csrv := by split <;> rfl
@[simp] theorem ite_rfNext : (if p then a else b).rfNext = if p then a.rfNext else b.rfNext := by split <;> rfl
@[simp] theorem ite_rfPast : (if p then a else b).rfPast = if p then a.rfPast else b.rfPast := by split <;> rfl
@[simp] theorem ite_tracks : (if p then a else b).tracks = if p then a.tracks else b.tracks := by split <;> rfl
@[simp] theorem ite_file : (if p then a else b).file = if p then a.file else b.file := by split <;> rfl
@[simp] theorem ite_f_recs : (if p then f else g).recs = if p then f.recs else g.recs := by split <;> rfl
@[simp] theorem ite_f_ps : (if p then f else g).ps = if p then f.ps else g.ps := by split <;> rfl
@[simp] theorem ite_f_csr : (if p then f else g).csr = if p then f.csr else g.csr := by split <;> rfl
@[simp] theorem ite_f_wake : (if p then f else g).wake = if p then f.wake else g.wake := by split <;> rfl
@[simp] theorem ite_f_tracks : (if p then f else g).tracks = if p then f.tracks else g.tracks := by split <;> rfl
@[simp] theorem ite_f_rfk : (if p then f else g).rfk = if p then f.rfk else g.rfk := by split <;> rfl
@[simp] theorem ite_f_padded : (if p then f else g).padded = if p then f.padded else g.padded := by split <;> rfl
end


/-! ### closed forms: what the three generated blocks do to each component of the state -/

/-- the grid after the (possible) charge renormalisation at the head of step `n` -/
def gridR (sem : Sem V) (rn : Int) (n : Nat) (g xp : V) : V :=
  if isRenorm rn n then sem.normalize g (sem.integ xp) else g

/-- the record written for a loop-head state with step `n`, grid `g`, cached projection `xp` -/
def recAt (sem : Sem V) (rn : Int) (n : Nat) (g xp : V) : MRec V :=
  { t := n, profile := xp, moments0 := sem.mom0 xp (sem.integ xp),
    eprofile := sem.yproj (gridR sem rn n g xp),
    moments1 := sem.mom1 (sem.yproj (gridR sem rn n g xp)) (sem.integ xp),
    population := sem.integ xp, ghostGrid := gridR sem rn n g xp }

/-- the grid after one full step -/
def stepGrid (sem : Sem V) (rn : Int) (hw hd : Bool) (n : Nat) (g xp : V) (q : List V) : V :=
  sem.fp (sem.drift (rfGrid sem hd
    (if hw then sem.kick (gridR sem rn n g xp) (sem.wake xp) else sem.ident (gridR sem rn n g xp)) q))

/-- a record is written in the loop at step `n` -/
def wr (c : MCfg) (n : Nat) : Bool := isOut c n && c.hasFile

/-! ### the loop body -/
theorem body_step : (execBlock sem c loopBody s).step = s.step + 1 := by
  simp [loopBody, execBlock, execStmt]
theorem body_clock : (execBlock sem c loopBody s).clock = s.clock + 9 + (if wr c s.step then 5 else 0) := by
  simp [loopBody, execBlock, execStmt, wr]
  repeat' split
  all_goals simp_all
  all_goals omega
theorem body_grid : (execBlock sem c loopBody s).grid
    = stepGrid sem c.renormalize c.hasWake c.hasDrfm s.step s.grid s.xp s.rfNext := by
  simp [loopBody, execBlock, execStmt, stepGrid, gridR]
  try (repeat' split) <;> simp_all
theorem body_xp : (execBlock sem c loopBody s).xp
    = sem.xproj (stepGrid sem c.renormalize c.hasWake c.hasDrfm s.step s.grid s.xp s.rfNext) := by
  simp [loopBody, execBlock, execStmt, stepGrid, gridR]
  try (repeat' split) <;> simp_all
theorem body_rfNext : (execBlock sem c loopBody s).rfNext = if c.hasDrfm then s.rfNext.tail else s.rfNext := by
  simp [loopBody, execBlock, execStmt]
theorem body_rfPast : (execBlock sem c loopBody s).rfPast
    = if c.hasDrfm then (if wr c s.step then [] else s.rfPast) ++ s.rfNext.head?.toList else s.rfPast := by
  simp [loopBody, execBlock, execStmt, wr]
  try (repeat' split) <;> simp_all
theorem body_recs : (execBlock sem c loopBody s).file.recs
    = if wr c s.step then s.file.recs ++ [recAt sem c.renormalize s.step s.grid s.xp] else s.file.recs := by
  simp [loopBody, execBlock, execStmt, wr, recAt, gridR, mkRec]
  try (repeat' split) <;> simp_all
theorem body_ps : (execBlock sem c loopBody s).file.ps
    = if wr c s.step && isSaveAll c s.outnr
      then s.file.ps ++ [(s.step, gridR sem c.renormalize s.step s.grid s.xp)] else s.file.ps := by
  simp [loopBody, execBlock, execStmt, wr, gridR]
  try (repeat' split) <;> simp_all
theorem body_csr : (execBlock sem c loopBody s).file.csr
    = if wr c s.step then s.file.csr ++ [sem.csr s.xp] else s.file.csr := by
  simp [loopBody, execBlock, execStmt, wr]
  try (repeat' split) <;> simp_all
theorem body_wake : (execBlock sem c loopBody s).file.wake
    = if wr c s.step && c.hasWake then s.file.wake ++ [sem.wake s.xp] else s.file.wake := by
  simp [loopBody, execBlock, execStmt, wr]
  try (repeat' split) <;> simp_all
theorem body_ftracks : (execBlock sem c loopBody s).file.tracks
    = if wr c s.step then s.file.tracks ++ [s.tracks] else s.file.tracks := by
  simp [loopBody, execBlock, execStmt, wr]
  try (repeat' split) <;> simp_all
theorem body_rfk : (execBlock sem c loopBody s).file.rfk
    = if wr c s.step && c.hasDrfm then s.file.rfk ++ s.rfPast else s.file.rfk := by
  simp [loopBody, execBlock, execStmt, wr]
  try (repeat' split) <;> simp_all
theorem body_padded : (execBlock sem c loopBody s).file.padded = s.file.padded := by
  simp [loopBody, execBlock, execStmt]


/-! ### the final block -/
theorem final_step : (execBlock sem c finalBlock s).step = s.step := by
  simp [finalBlock, execBlock, execStmt]
theorem final_grid : (execBlock sem c finalBlock s).grid
    = if c.hasFile then gridR sem c.renormalize s.step s.grid s.xp else s.grid := by
  simp [finalBlock, execBlock, execStmt, gridR]
theorem final_recs : (execBlock sem c finalBlock s).file.recs
    = if c.hasFile then s.file.recs ++ [recAt sem c.renormalize s.step s.grid s.xp] else s.file.recs := by
  simp [finalBlock, execBlock, execStmt, recAt, gridR, mkRec]
theorem final_ps : (execBlock sem c finalBlock s).file.ps
    = if c.hasFile then s.file.ps ++ [(s.step, gridR sem c.renormalize s.step s.grid s.xp)] else s.file.ps := by
  simp [finalBlock, execBlock, execStmt, gridR]
theorem final_csr : (execBlock sem c finalBlock s).file.csr
    = if c.hasFile then s.file.csr ++ [sem.csr s.xp] else s.file.csr := by
  simp [finalBlock, execBlock, execStmt]
theorem final_wake : (execBlock sem c finalBlock s).file.wake
    = if c.hasFile && c.hasWake then s.file.wake ++ [sem.wake s.xp] else s.file.wake := by
  simp [finalBlock, execBlock, execStmt]
  try (repeat' split) <;> simp_all
theorem final_ftracks : (execBlock sem c finalBlock s).file.tracks
    = if c.hasFile then s.file.tracks ++ [s.tracks] else s.file.tracks := by
  simp [finalBlock, execBlock, execStmt]
theorem final_rfk : (execBlock sem c finalBlock s).file.rfk
    = if c.hasFile && c.hasDrfm then s.file.rfk ++ s.rfPast else s.file.rfk := by
  simp [finalBlock, execBlock, execStmt]
  try (repeat' split) <;> simp_all

/-! ### the initial block -/
theorem init_step : (execBlock sem c initialBlock s).step = 0 := by
  simp [initialBlock, execBlock, execStmt]
theorem init_clock : (execBlock sem c initialBlock s).clock = s.clock + 2 := by
  simp [initialBlock, execBlock, execStmt]
theorem init_grid : (execBlock sem c initialBlock s).grid = s.grid := by
  simp [initialBlock, execBlock, execStmt]
theorem init_xp : (execBlock sem c initialBlock s).xp = sem.xproj s.grid := by
  simp [initialBlock, execBlock, execStmt]
theorem init_rfNext : (execBlock sem c initialBlock s).rfNext = s.rfNext := by
  simp [initialBlock, execBlock, execStmt]
theorem init_rfPast : (execBlock sem c initialBlock s).rfPast = s.rfPast := by
  simp [initialBlock, execBlock, execStmt]
theorem init_recs : (execBlock sem c initialBlock s).file.recs = s.file.recs := by
  simp [initialBlock, execBlock, execStmt]
theorem init_ps : (execBlock sem c initialBlock s).file.ps
    = if c.hasFile && decide (c.h5save = 0) then s.file.ps ++ [(0, s.grid)] else s.file.ps := by
  simp [initialBlock, execBlock, execStmt]
  try (repeat' split) <;> simp_all
theorem init_csr : (execBlock sem c initialBlock s).file.csr = s.file.csr := by
  simp [initialBlock, execBlock, execStmt]
theorem init_wake : (execBlock sem c initialBlock s).file.wake = s.file.wake := by
  simp [initialBlock, execBlock, execStmt]
theorem init_ftracks : (execBlock sem c initialBlock s).file.tracks = s.file.tracks := by
  simp [initialBlock, execBlock, execStmt]
theorem init_rfk : (execBlock sem c initialBlock s).file.rfk = s.file.rfk := by
  simp [initialBlock, execBlock, execStmt]


/-! ### the loop -/

/-- peel the LAST iteration -/
theorem iterate_succ' (k : Nat) (s : MState V) :
    iterate sem c (k + 1) s = execBlock sem c loopBody (iterate sem c k s) := by
  induction k generalizing s with
  | zero => rfl
  | succ k ih => exact ih (execBlock sem c loopBody s)

theorem iterate_add (a b : Nat) (s : MState V) :
    iterate sem c (a + b) s = iterate sem c b (iterate sem c a s) := by
  induction a generalizing s with
  | zero => simp [iterate]
  | succ a ih =>
    rw [Nat.add_right_comm a 1 b]
    exact ih (execBlock sem c loopBody s)

/-- invariants of the loop body are invariants of the loop -/
theorem iterate_inv (P : MState V → Prop) (hB : ∀ s, P s → P (execBlock sem c loopBody s)) :
    ∀ (k : Nat) (s : MState V), P s → P (iterate sem c k s)
  | 0, _, h => h
  | k + 1, s, h => iterate_inv P hB k _ (hB s h)

theorem iterate_step (k : Nat) (s : MState V) : (iterate sem c k s).step = s.step + k := by
  induction k with
  | zero => rfl
  | succ k ih => rw [iterate_succ', body_step, ih]; omega

theorem atHead_step (k : Nat) (s0 : MState V) :
    (iterate sem c k (execBlock sem c initialBlock s0)).step = k := by
  rw [iterate_step, init_step]; omega

theorem loopFuel_none (fuel : Nat) (s : MState V) (h : s.step + fuel = c.laststep) :
    loopFuel sem c none fuel s = iterate sem c fuel s := by
  induction fuel generalizing s with
  | zero => rfl
  | succ n ih =>
    rw [loopFuel, if_pos ⟨by omega, rfl⟩, iterate]
    exact ih _ (by rw [body_step]; omega)

theorem loopFuel_some (sig : Option Nat) (fuel : Nat) (s : MState V) :
    ∃ j, j ≤ fuel ∧ loopFuel sem c sig fuel s = iterate sem c j s := by
  induction fuel generalizing s with
  | zero => exact ⟨0, Nat.le_refl _, rfl⟩
  | succ n ih =>
    by_cases h : s.step < c.laststep ∧ aborted sig s = false
    · obtain ⟨j, hj, e⟩ := ih (execBlock sem c loopBody s)
      exact ⟨j + 1, by omega, by rw [loopFuel, if_pos h, e]; rfl⟩
    · exact ⟨0, by omega, by rw [loopFuel, if_neg h]; rfl⟩

theorem loopFuel_aborted (sig : Option Nat) (fuel : Nat) (s : MState V) (h : aborted sig s = true) :
    loopFuel sem c sig fuel s = s := by
  cases fuel with
  | zero => rfl
  | succ n => rw [loopFuel, if_neg]; simp [h]

theorem runMain_eq (sig : Option Nat) (s0 : MState V) : runMain sem c sig s0
    = execBlock sem c finalBlock (loopFuel sem c sig c.laststep (execBlock sem c initialBlock s0)) := rfl

theorem runMain_none (s0 : MState V) : runMain sem c none s0 = runFor sem c c.laststep s0 := by
  rw [runMain_eq, runFor, loopFuel_none]
  rw [init_step]; omega

theorem runMain_some (p : Nat) (s0 : MState V) :
    ∃ k, k ≤ c.laststep ∧ runMain sem c (some p) s0 = runFor sem c k s0 := by
  obtain ⟨j, hj, e⟩ := loopFuel_some sem c (some p) c.laststep (execBlock sem c initialBlock s0)
  exact ⟨j, hj, by rw [runMain_eq, runFor, e]⟩

theorem runMain_setup (p : Nat) (hp : p < setupMarkers) (s0 : MState V) :
    runMain sem c (some p) s0 = runFor sem c 0 s0 := by
  rw [runMain_eq, runFor, loopFuel_aborted]
  · rfl
  · simp [aborted]; omega

/-! ### the file only grows -/

def FilePrefix (f g : MFile V) : Prop :=
  f.recs <+: g.recs ∧ f.ps <+: g.ps ∧ f.csr <+: g.csr ∧ f.wake <+: g.wake ∧ f.tracks <+: g.tracks ∧
  f.rfk <+: g.rfk ∧ f.padded <+: g.padded

theorem FilePrefix.refl (f : MFile V) : FilePrefix f f := by simp [FilePrefix]

theorem FilePrefix.trans {f g h : MFile V} (a : FilePrefix f g) (b : FilePrefix g h) : FilePrefix f h :=
  ⟨a.1.trans b.1, a.2.1.trans b.2.1, a.2.2.1.trans b.2.2.1, a.2.2.2.1.trans b.2.2.2.1,
   a.2.2.2.2.1.trans b.2.2.2.2.1, a.2.2.2.2.2.1.trans b.2.2.2.2.2.1, a.2.2.2.2.2.2.trans b.2.2.2.2.2.2⟩

theorem body_filePrefix : FilePrefix s.file (execBlock sem c loopBody s).file := by
  unfold FilePrefix
  rw [body_recs, body_ps, body_csr, body_wake, body_ftracks, body_rfk, body_padded]
  refine ⟨?_, ?_, ?_, ?_, ?_, ?_, ?_⟩ <;> (try split) <;> simp

theorem iterate_filePrefix (k : Nat) (s : MState V) : FilePrefix s.file (iterate sem c k s).file := by
  induction k with
  | zero => exact FilePrefix.refl _
  | succ k ih => rw [iterate_succ']; exact ih.trans (body_filePrefix sem c _)

theorem records_prefix_main (k k' : Nat) (h : k ≤ k') (s : MState V) :
    let a := (iterate sem c k s).file
    let b := (iterate sem c k' s).file
    a.recs.map (fun r => (r.t, r.profile, r.moments0, r.eprofile, r.moments1, r.population)) <+:
      b.recs.map (fun r => (r.t, r.profile, r.moments0, r.eprofile, r.moments1, r.population)) ∧
    a.ps <+: b.ps ∧ a.csr <+: b.csr ∧ a.wake <+: b.wake ∧ a.tracks <+: b.tracks ∧ a.rfk <+: b.rfk ∧
    a.padded <+: b.padded := by
  obtain ⟨d, rfl⟩ := Nat.exists_eq_add_of_le h
  intro a b
  have hp : FilePrefix a b := by
    show FilePrefix (iterate sem c k s).file (iterate sem c (k + d) s).file
    rw [iterate_add]; exact iterate_filePrefix sem c d _
  exact ⟨hp.1.map _, hp.2⟩

theorem final_one_record (hf : c.hasFile = true) (s : MState V) :
    let f := (execBlock sem c finalBlock s).file
    f.recs.length = s.file.recs.length + 1 ∧ f.ps.length = s.file.ps.length + 1 ∧
    f.csr.length = s.file.csr.length + 1 ∧ f.tracks.length = s.file.tracks.length + 1 ∧
    f.wake.length = s.file.wake.length + (if c.hasWake then 1 else 0) ∧
    (f.recs.getLast?).map (·.t) = some s.step := by
  intro f
  simp only [f, final_recs, final_ps, final_csr, final_ftracks, final_wake, hf]
  cases c.hasWake <;> simp [recAt]

/-! ### C10: schedule, lengths, freshness -/

theorem runFor_eq (k : Nat) (s0 : MState V) : runFor sem c k s0
    = execBlock sem c finalBlock (iterate sem c k (execBlock sem c initialBlock s0)) := rfl

/-- an invariant established by the initial block and kept by the loop body holds at the final block -/
theorem runFor_inv (P : MState V → Prop) (Q : MState V → Prop) (s0 : MState V)
    (hI : P (execBlock sem c initialBlock s0))
    (hB : ∀ s, P s → P (execBlock sem c loopBody s))
    (hF : ∀ s, P s → Q (execBlock sem c finalBlock s)) (k : Nat) : Q (runFor sem c k s0) :=
  hF _ (iterate_inv sem c P hB k _ hI)

/-- the same with the step counter known -/
theorem runFor_inv_step (P : MState V → Prop) (Q : MState V → Prop) (s0 : MState V) (k : Nat)
    (hI : P (execBlock sem c initialBlock s0))
    (hB : ∀ s, P s → P (execBlock sem c loopBody s))
    (hF : ∀ s, s.step = k → P s → Q (execBlock sem c finalBlock s)) : Q (runFor sem c k s0) :=
  hF _ (atHead_step sem c k s0) (iterate_inv sem c P hB k _ hI)

def FileLen (c : MCfg) (f : MFile V) : Prop :=
  f.csr.length = f.recs.length ∧ f.tracks.length = f.recs.length ∧
  (c.hasWake = true → f.wake.length = f.recs.length) ∧ (c.hasWake = false → f.wake = [])

theorem runFor_fileLen (k : Nat) (s0 : MState V)
    (h0 : s0.file.recs = [] ∧ s0.file.csr = [] ∧ s0.file.tracks = [] ∧ s0.file.wake = []) :
    FileLen c (runFor sem c k s0).file := by
  refine runFor_inv sem c (fun s => FileLen c s.file) (fun s => FileLen c s.file) s0 ?_ ?_ ?_ k
  · simp [FileLen, init_recs, init_csr, init_ftracks, init_wake, h0]
  · intro s h
    simp only [FileLen, body_recs, body_csr, body_ftracks, body_wake] at h ⊢
    cases hw : c.hasWake <;> cases hwr : wr c s.step <;> simp_all
  · intro s h
    simp only [FileLen, final_recs, final_csr, final_ftracks, final_wake] at h ⊢
    cases hw : c.hasWake <;> cases hf : c.hasFile <;> simp_all

theorem filter_isOut_succ (n : Nat) : (List.range (n + 1)).filter (isOut c)
    = (List.range n).filter (isOut c) ++ (if isOut c n then [n] else []) := by
  rw [List.range_succ, List.filter_append]
  cases h : isOut c n <;> simp [h]

theorem runFor_time_axis (hf : c.hasFile = true) (k : Nat) (s0 : MState V) (h0 : s0.file.recs = []) :
    (runFor sem c k s0).file.recs.map (·.t) = ((List.range k).filter (isOut c)) ++ [k] := by
  refine runFor_inv_step sem c (fun s => s.file.recs.map (·.t) = (List.range s.step).filter (isOut c))
    (fun s => s.file.recs.map (·.t) = ((List.range k).filter (isOut c)) ++ [k]) s0 k ?_ ?_ ?_
  · simp [init_recs, init_step, h0]
  · intro s h
    rw [body_recs, body_step, filter_isOut_succ]
    cases ho : isOut c s.step <;> simp [wr, ho, hf, h, recAt]
  · intro s hk h
    simp [final_recs, hf, h, hk, recAt]

theorem runFor_no_file (hf : c.hasFile = false) (k : Nat) (s0 : MState V)
    (h0 : s0.file.recs = [] ∧ s0.file.ps = []) :
    (runFor sem c k s0).file.recs = [] ∧ (runFor sem c k s0).file.ps = [] := by
  refine runFor_inv sem c (fun s => s.file.recs = [] ∧ s.file.ps = [])
    (fun s => s.file.recs = [] ∧ s.file.ps = []) s0 ?_ ?_ ?_ k
  · simp [init_recs, init_ps, hf, h0]
  · intro s h
    simp [body_recs, body_ps, wr, hf, h]
  · intro s h
    simp [final_recs, final_ps, hf, h]

theorem isRenorm_nonpos {rn : Int} (h : rn ≤ 0) (n : Nat) : isRenorm rn n = false := by
  simp [isRenorm]; omega

def Fresh (sem : Sem V) (r : MRec V) : Prop :=
  r.profile = sem.xproj r.ghostGrid ∧ r.eprofile = sem.yproj r.ghostGrid ∧
  r.population = sem.integ r.profile ∧ r.moments0 = sem.mom0 r.profile r.population ∧
  r.moments1 = sem.mom1 r.eprofile r.population

theorem fresh_recAt {rn : Int} (h : rn ≤ 0) (n : Nat) (g : V) :
    Fresh sem (recAt sem rn n g (sem.xproj g)) := by
  simp [Fresh, recAt, gridR, isRenorm_nonpos h]

theorem body_xp_grid : (execBlock sem c loopBody s).xp = sem.xproj (execBlock sem c loopBody s).grid := by
  rw [body_xp, body_grid]

theorem runFor_fresh (hr : c.renormalize ≤ 0) (k : Nat) (s0 : MState V) (h0 : s0.file.recs = []) :
    ∀ r ∈ (runFor sem c k s0).file.recs, Fresh sem r := by
  refine runFor_inv sem c (fun s => s.xp = sem.xproj s.grid ∧ ∀ r ∈ s.file.recs, Fresh sem r)
    (fun s => ∀ r ∈ s.file.recs, Fresh sem r) s0 ?_ ?_ ?_ k
  · simp [init_recs, init_xp, init_grid, h0]
  · intro s ⟨hx, h⟩
    refine ⟨body_xp_grid sem c s, ?_⟩
    rw [body_recs]
    split
    · intro r hr'
      rcases List.mem_append.1 hr' with h' | h'
      · exact h r h'
      · rw [List.mem_singleton.1 h', hx]; exact fresh_recAt sem hr _ _
    · exact h
  · intro s ⟨hx, h⟩
    rw [final_recs]
    split
    · intro r hr'
      rcases List.mem_append.1 hr' with h' | h'
      · exact h r h'
      · rw [List.mem_singleton.1 h', hx]; exact fresh_recAt sem hr _ _
    · exact h

theorem runFor_wake_csr (hw : c.hasWake = true) (k : Nat) (s0 : MState V)
    (h0 : s0.file.recs = [] ∧ s0.file.csr = [] ∧ s0.file.wake = []) :
    (runFor sem c k s0).file.wake = (runFor sem c k s0).file.recs.map (fun r => sem.wake r.profile) ∧
    (runFor sem c k s0).file.csr = (runFor sem c k s0).file.recs.map (fun r => sem.csr r.profile) := by
  refine runFor_inv sem c
    (fun s => s.file.wake = s.file.recs.map (fun r => sem.wake r.profile) ∧
              s.file.csr = s.file.recs.map (fun r => sem.csr r.profile))
    (fun s => s.file.wake = s.file.recs.map (fun r => sem.wake r.profile) ∧
              s.file.csr = s.file.recs.map (fun r => sem.csr r.profile)) s0 ?_ ?_ ?_ k
  · simp [init_recs, init_csr, init_wake, h0]
  · intro s h
    simp only [body_recs, body_csr, body_wake]
    cases wr c s.step <;> simp [hw, h, recAt]
  · intro s h
    simp only [final_recs, final_csr, final_wake]
    cases c.hasFile <;> simp [hw, h, recAt]

theorem runFor_ps_rec (k : Nat) (s0 : MState V) (h0 : s0.file.recs = [] ∧ s0.file.ps = []) (t : Nat) (g : V)
    (hps : (t, g) ∈ (runFor sem c k s0).file.ps) (ht : 0 < t ∨ c.h5save ≠ 0) :
    ∃ r ∈ (runFor sem c k s0).file.recs, r.t = t ∧ r.ghostGrid = g := by
  have key : ∀ t g, (t, g) ∈ (runFor sem c k s0).file.ps → (t = 0 ∧ c.h5save = 0) ∨
      ∃ r ∈ (runFor sem c k s0).file.recs, r.t = t ∧ r.ghostGrid = g := by
    refine runFor_inv sem c
      (fun s => ∀ t g, (t, g) ∈ s.file.ps → (t = 0 ∧ c.h5save = 0) ∨
        ∃ r ∈ s.file.recs, r.t = t ∧ r.ghostGrid = g)
      (fun s => ∀ t g, (t, g) ∈ s.file.ps → (t = 0 ∧ c.h5save = 0) ∨
        ∃ r ∈ s.file.recs, r.t = t ∧ r.ghostGrid = g) s0 ?_ ?_ ?_ k
    · intro t g
      rw [init_ps, init_recs]
      split
      · simp_all
      · simp [h0]
    · intro s h t g
      rw [body_ps, body_recs]
      cases hw : wr c s.step <;> cases hs : isSaveAll c s.outnr <;> simp
      · exact h t g
      · exact h t g
      · intro hm
        rcases h t g hm with h' | ⟨r, hr, h'⟩
        · exact Or.inl h'
        · exact Or.inr (Or.inl ⟨r, hr, h'⟩)
      · rintro (hm | ⟨rfl, rfl⟩)
        · rcases h t g hm with h' | ⟨r, hr, h'⟩
          · exact Or.inl h'
          · exact Or.inr (Or.inl ⟨r, hr, h'⟩)
        · exact Or.inr (Or.inr ⟨rfl, rfl⟩)
    · intro s h t g
      rw [final_ps, final_recs]
      cases hf : c.hasFile <;> simp
      · exact h t g
      · rintro (hm | ⟨rfl, rfl⟩)
        · rcases h t g hm with h' | ⟨r, hr, h'⟩
          · exact Or.inl h'
          · exact Or.inr (Or.inl ⟨r, hr, h'⟩)
        · exact Or.inr (Or.inr ⟨rfl, rfl⟩)
  rcases key t g hps with ⟨h1, h2⟩ | h
  · omega
  · exact h

/-! ### a concrete semantics for the refutations: `normalize` rounds the grid value down to a
    multiple of 10 (idempotent, like a real renormalisation), the wake kick adds ten times the
    wake, everything else is the identity -/

def cexSem : Sem Nat :=
  { xproj := id, yproj := id, integ := id, normalize := fun g _ => g / 10 * 10, mom0 := fun a _ => a,
    mom1 := fun a _ => a, wake := id, wakepad := id, csr := id, kick := fun g w => g + 10 * w,
    ident := id, rfStatic := id, rfDyn := fun g _ => g, drift := id, fp := id, track := fun _ t _ => t }

/-- renormalisation at every step, output at every step, wake, results file, static RF -/
def cexCfg : MCfg :=
  { laststep := 1, outstep := 1, h5save := 0, renormalize := 1, hasWake := true, hasFile := true,
    hasDrfm := false }

theorem cex_stale_record : ∃ r ∈ (runFor cexSem cexCfg 1 (startState 15 0 [] 0)).file.recs,
    r.t = 0 ∧ r.profile = 15 ∧ r.ghostGrid = 10 := by
  refine ⟨recAt cexSem 1 0 15 15, ?_, ?_⟩
  · simp [runFor_eq, iterate, final_recs, body_recs, init_recs, init_step, init_grid, init_xp, wr, isOut,
      cexCfg, startState, cexSem]
  · simp [recAt, gridR, isRenorm, cexSem]

theorem cex_split : (runFor cexSem cexCfg 1 (startState (runFor cexSem cexCfg 0 (startState 15 0 [] 0)).grid 0 [] 0)).grid = 110
    ∧ (runFor cexSem cexCfg (0 + 1) (startState 15 0 [] 0)).grid = 160 := by
  simp [runFor_eq, iterate, final_grid, body_grid, body_step, init_step, init_grid, init_xp,
      stepGrid, gridR, rfGrid, isRenorm, cexCfg, startState, cexSem]
/-! ### C12: the physical state evolves by a function of itself -/

/-- one step of the physical state `(step, grid, x-projection, remaining RF queue)` -/
def physStep (sem : Sem V) (rn : Int) (hw hd : Bool) (p : Nat × V × V × List V) : Nat × V × V × List V :=
  (p.1 + 1, stepGrid sem rn hw hd p.1 p.2.1 p.2.2.1 p.2.2.2,
    sem.xproj (stepGrid sem rn hw hd p.1 p.2.1 p.2.2.1 p.2.2.2), if hd then p.2.2.2.tail else p.2.2.2)

def physIter (sem : Sem V) (rn : Int) (hw hd : Bool) : Nat → Nat × V × V × List V → Nat × V × V × List V
  | 0, p => p
  | k + 1, p => physStep sem rn hw hd (physIter sem rn hw hd k p)

theorem physOf_body : physOf (execBlock sem c loopBody s)
    = physStep sem c.renormalize c.hasWake c.hasDrfm (physOf s) := by
  simp [physOf, physStep, body_step, body_grid, body_xp, body_rfNext]

theorem physOf_init : physOf (execBlock sem c initialBlock s) = (0, s.grid, sem.xproj s.grid, s.rfNext) := by
  simp [physOf, init_step, init_grid, init_xp, init_rfNext]

theorem physOf_iterate (k : Nat) (s : MState V) : physOf (iterate sem c k s)
    = physIter sem c.renormalize c.hasWake c.hasDrfm k (physOf s) := by
  induction k with
  | zero => rfl
  | succ k ih => rw [iterate_succ', physOf_body, ih]; rfl

theorem physIter_fst (rn : Int) (hw hd : Bool) (k : Nat) (p : Nat × V × V × List V) :
    (physIter sem rn hw hd k p).1 = p.1 + k := by
  induction k with
  | zero => rfl
  | succ k ih => simp [physIter, physStep, ih]; omega

theorem physOf_atHead (k : Nat) (s0 : MState V) :
    physOf (iterate sem c k (execBlock sem c initialBlock s0))
      = physIter sem c.renormalize c.hasWake c.hasDrfm k (0, s0.grid, sem.xproj s0.grid, s0.rfNext) := by
  rw [physOf_iterate, physOf_init]

theorem physOf_body_congr (c c' : MCfg) (h : c.renormalize = c'.renormalize ∧ c.hasWake = c'.hasWake ∧
      c.hasDrfm = c'.hasDrfm) (s s' : MState V) (hp : physOf s = physOf s') :
    physOf (execBlock sem c loopBody s) = physOf (execBlock sem c' loopBody s') := by
  rw [physOf_body, physOf_body, hp, h.1, h.2.1, h.2.2]

theorem physOf_atHead_congr (c c' : MCfg) (h : c.renormalize = c'.renormalize ∧ c.hasWake = c'.hasWake ∧
      c.hasDrfm = c'.hasDrfm) (s0 s0' : MState V) (hs : s0.grid = s0'.grid ∧ s0.rfNext = s0'.rfNext) (k : Nat) :
    physOf (iterate sem c k (execBlock sem c initialBlock s0))
      = physOf (iterate sem c' k (execBlock sem c' initialBlock s0')) := by
  rw [physOf_atHead, physOf_atHead, hs.1, hs.2, h.1, h.2.1, h.2.2]

/-- the final grid as a function of the physical state at the loop exit -/
def finalGridOf (sem : Sem V) (rn : Int) (hf : Bool) (p : Nat × V × V × List V) : V :=
  if hf then gridR sem rn p.1 p.2.1 p.2.2.1 else p.2.1

theorem final_grid_phys : (execBlock sem c finalBlock s).grid
    = finalGridOf sem c.renormalize c.hasFile (physOf s) := by
  rw [final_grid]; rfl

theorem runFor_grid_congr (c c' : MCfg) (h : c.renormalize = c'.renormalize ∧ c.hasWake = c'.hasWake ∧
      c.hasDrfm = c'.hasDrfm) (s0 s0' : MState V) (hs : s0.grid = s0'.grid ∧ s0.rfNext = s0'.rfNext) (k : Nat)
    (hf : c.hasFile = c'.hasFile) :
    (runFor sem c k s0).grid = (runFor sem c' k s0').grid := by
  rw [runFor_eq, runFor_eq, final_grid_phys, final_grid_phys, physOf_atHead_congr sem c c' h s0 s0' hs k,
    h.1, hf]

/-- the record determined by a physical state -/
def recOf (sem : Sem V) (rn : Int) (p : Nat × V × V × List V) : MRec V := recAt sem rn p.1 p.2.1 p.2.2.1

/-- every record of a run is the record of the physical state of the step it is labelled with -/
theorem runFor_recs_mem (k : Nat) (s0 : MState V) (h0 : s0.file.recs = []) (r : MRec V)
    (hr : r ∈ (runFor sem c k s0).file.recs) :
    r = recOf sem c.renormalize
      (physIter sem c.renormalize c.hasWake c.hasDrfm r.t (0, s0.grid, sem.xproj s0.grid, s0.rfNext)) := by
  let p0 : Nat × V × V × List V := (0, s0.grid, sem.xproj s0.grid, s0.rfNext)
  let pI := physIter sem c.renormalize c.hasWake c.hasDrfm
  have ht : ∀ i, (recOf sem c.renormalize (pI i p0)).t = i := by
    intro i
    show (pI i p0).1 = i
    rw [physIter_fst]; simp [p0]
  have key : ∀ r ∈ (runFor sem c k s0).file.recs, ∃ i, r = recOf sem c.renormalize (pI i p0) := by
    refine runFor_inv sem c
      (fun s => physOf s = pI s.step p0 ∧ ∀ r ∈ s.file.recs, ∃ i, r = recOf sem c.renormalize (pI i p0))
      (fun s => ∀ r ∈ s.file.recs, ∃ i, r = recOf sem c.renormalize (pI i p0)) s0 ?_ ?_ ?_ k
    · rw [physOf_init, init_step, init_recs, h0]
      exact ⟨rfl, by simp⟩
    · intro s ⟨hp, h⟩
      refine ⟨by rw [physOf_body, body_step, hp]; rfl, ?_⟩
      rw [body_recs]
      split
      · intro r hr'
        rcases List.mem_append.1 hr' with h' | h'
        · exact h r h'
        · exact ⟨s.step, by rw [List.mem_singleton.1 h', ← hp]; rfl⟩
      · exact h
    · intro s ⟨hp, h⟩
      rw [final_recs]
      split
      · intro r hr'
        rcases List.mem_append.1 hr' with h' | h'
        · exact h r h'
        · exact ⟨s.step, by rw [List.mem_singleton.1 h', ← hp]; rfl⟩
      · exact h
  obtain ⟨i, hi⟩ := key r hr
  have : r.t = i := by rw [hi]; exact ht i
  rw [this]; exact hi

theorem runFor_common_records (c c' : MCfg) (h : c.renormalize = c'.renormalize ∧ c.hasWake = c'.hasWake ∧
      c.hasDrfm = c'.hasDrfm) (s0 s0' : MState V) (hs : s0.grid = s0'.grid ∧ s0.rfNext = s0'.rfNext)
    (h0 : s0.file.recs = [] ∧ s0'.file.recs = []) (k : Nat)
    (r r' : MRec V) (hr : r ∈ (runFor sem c k s0).file.recs) (hr' : r' ∈ (runFor sem c' k s0').file.recs)
    (ht : r.t = r'.t) : r = r' := by
  rw [runFor_recs_mem sem c k s0 h0.1 r hr, runFor_recs_mem sem c' k s0' h0.2 r' hr', ht, hs.1, hs.2,
    h.1, h.2.1, h.2.2]

/-! ### C19: the RF modulation queue -/

theorem iterate_rfNext (hd : c.hasDrfm = true) (k : Nat) (s : MState V) :
    (iterate sem c k s).rfNext = s.rfNext.drop k := by
  induction k with
  | zero => rfl
  | succ k ih => rw [iterate_succ', body_rfNext, ih, hd]; simp

theorem atHead_rfNext (hd : c.hasDrfm = true) (k : Nat) (s0 : MState V) :
    (iterate sem c k (execBlock sem c initialBlock s0)).rfNext = s0.rfNext.drop k := by
  rw [iterate_rfNext sem c hd, init_rfNext]

theorem head?_toList_append_tail (l : List V) : l.head?.toList ++ l.tail = l := by
  cases l <;> rfl

theorem runFor_rfk (hd : c.hasDrfm = true) (hf : c.hasFile = true) (k : Nat) (s0 : MState V)
    (h0 : s0.file.rfk = [] ∧ s0.rfPast = []) :
    (runFor sem c k s0).file.rfk = s0.rfNext.take k := by
  refine runFor_inv_step sem c
    (fun s => s.file.rfk ++ s.rfPast ++ s.rfNext = s0.rfNext ∧ s.rfNext = s0.rfNext.drop s.step)
    (fun s => s.file.rfk = s0.rfNext.take k) s0 k ?_ ?_ ?_
  · simp [init_rfk, init_rfPast, init_rfNext, init_step, h0]
  · intro s ⟨h, hn⟩
    rw [body_rfk, body_rfPast, body_rfNext, body_step, hd]
    refine ⟨?_, by simp [hn]⟩
    cases wr c s.step <;> simp [← h, head?_toList_append_tail]
  · intro s hk ⟨h, hn⟩
    rw [final_rfk, hf, hd]
    rw [hn, hk] at h
    have h2 := (List.take_append_drop k s0.rfNext).symm
    exact List.append_cancel_right (h.trans h2)

/-! ### C11: last record, split runs -/

theorem runFor_last_ps (hf : c.hasFile = true) (k : Nat) (s0 : MState V) :
    (runFor sem c k s0).file.ps.getLast? = some (k, (runFor sem c k s0).grid) := by
  rw [runFor_eq, final_ps, final_grid, hf, atHead_step]
  simp

/-- one step of the grid without renormalisation and with a static RF map -/
def gStep (sem : Sem V) (hw : Bool) (g : V) : V :=
  sem.fp (sem.drift (sem.rfStatic (if hw then sem.kick g (sem.wake (sem.xproj g)) else sem.ident g)))

def gIter (sem : Sem V) (hw : Bool) : Nat → V → V
  | 0, g => g
  | k + 1, g => gStep sem hw (gIter sem hw k g)

theorem gIter_add (hw : Bool) (a b : Nat) (g : V) :
    gIter sem hw (a + b) g = gIter sem hw b (gIter sem hw a g) := by
  induction b with
  | zero => rfl
  | succ b ih => rw [← Nat.add_assoc, gIter, ih]; rfl

theorem stepGrid_static {rn : Int} (hr : rn ≤ 0) (hw : Bool) (n : Nat) (g : V) (q : List V) :
    stepGrid sem rn hw false n g (sem.xproj g) q = gStep sem hw g := by
  simp [stepGrid, gridR, rfGrid, gStep, isRenorm_nonpos hr]

theorem iterate_grid_static (hr : c.renormalize ≤ 0) (hd : c.hasDrfm = false) (k : Nat) (s : MState V)
    (hx : s.xp = sem.xproj s.grid) :
    (iterate sem c k s).grid = gIter sem c.hasWake k s.grid ∧
    (iterate sem c k s).xp = sem.xproj (iterate sem c k s).grid := by
  induction k with
  | zero => exact ⟨rfl, hx⟩
  | succ k ih =>
    rw [iterate_succ']
    refine ⟨?_, body_xp_grid sem c _⟩
    rw [body_grid, ih.2, hd, stepGrid_static sem hr, ih.1]; rfl

theorem runFor_grid_static (hr : c.renormalize ≤ 0) (hd : c.hasDrfm = false) (k : Nat) (s0 : MState V) :
    (runFor sem c k s0).grid = gIter sem c.hasWake k s0.grid := by
  rw [runFor_eq, final_grid]
  have h := (iterate_grid_static sem c hr hd k (execBlock sem c initialBlock s0)
    (by rw [init_xp, init_grid])).1
  rw [init_grid] at h
  simp [gridR, isRenorm_nonpos hr, h]

theorem runFor_split (c c1 c2 : MCfg) (hr : c.renormalize < 0)
    (h1 : c.renormalize = c1.renormalize ∧ c.hasWake = c1.hasWake ∧ c.hasDrfm = c1.hasDrfm)
    (h2 : c.renormalize = c2.renormalize ∧ c.hasWake = c2.hasWake ∧ c.hasDrfm = c2.hasDrfm)
    (hd : c.hasDrfm = false) (a b : Nat) (s0 : MState V) (dflt tr : V) :
    (runFor sem c2 b (startState (runFor sem c1 a s0).grid dflt [] tr)).grid
      = (runFor sem c (a + b) s0).grid := by
  rw [runFor_grid_static sem c2 (by omega) (by rw [← h2.2.2]; exact hd),
    runFor_grid_static sem c1 (by omega) (by rw [← h1.2.2]; exact hd),
    runFor_grid_static sem c (by omega) hd, gIter_add, ← h1.2.1, ← h2.2.1]
  rfl

end Inovesa
