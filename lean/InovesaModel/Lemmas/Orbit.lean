/- helper lemmas for C03 / C15 (centroid transport, orbit algebra) -/
import InovesaModel.Lemmas.Kick
import InovesaModel.Props.C02
import InovesaModel.Model.Ruler
import Mathlib.Algebra.Order.Field.Basic
import Mathlib.Tactic.Positivity
import Mathlib.Analysis.SpecialFunctions.Trigonometric.Bounds
import Mathlib.Algebra.Field.ZMod
import Mathlib.Tactic.LinearCombination
namespace Inovesa
open Finset

/-! ### first moment of the weights -/
section Weights
open Gen
variable {α : Type} [Field α] [CharZero α]

theorem first_moment_weights' (it : Nat) (h : it = 2 ∨ it = 3 ∨ it = 4) (f : α) :
    ((List.range it).map fun j =>
        (coeff it f).getD j 0 * ((j : α) - (((it - 1) / 2 : Nat) : α))).sum = f := by
  rcases h with rfl | rfl | rfl
  · simp [coeff, List.range_succ]
  · simp [coeff, List.range_succ]; ring
  · simp [coeff, List.range_succ]; ring

theorem first_moment_finsum (it : Nat) (h : it = 2 ∨ it = 3 ∨ it = 4) (f : α) :
    ∑ j ∈ range it, (coeff it f).getD j 0 * ((j : α) - (((it - 1) / 2 : Nat) : α)) = f := by
  rw [← list_range_map_sum]
  exact first_moment_weights' it h f

end Weights

/-! ### weighted window shift -/
section Shift
variable {α : Type} [CommRing α]

/-- first-moment version of `sum_shift` -/
theorem sum_shift_moment (n : ℕ) (g : ℤ → α) (b : ℤ)
    (h : ∀ s : ℤ, 0 ≤ s → s < n → g s ≠ 0 → 0 ≤ s - b ∧ s - b < n) :
    ∑ y ∈ Ico (0:ℤ) n, (y : α) * rdI n g (y + b)
      = ∑ s ∈ Ico (0:ℤ) n, (((s - b : ℤ)) : α) * g s := by
  have := sum_shift n (fun s : ℤ => (((s - b : ℤ)) : α) * g s) b (by
    intro s h0 h1 hne
    apply h s h0 h1
    intro hg
    apply hne
    simp [hg])
  rw [← this]
  apply Finset.sum_congr rfl
  intro y _
  unfold rdI
  split_ifs
  · simp
  · simp

/-- one row of `KickMap::apply` over `ℤ`: first moment -/
theorem kick_row_first_moment (n k : ℕ) (w : ℕ → α) (a : ℤ) (g : ℤ → α)
    (hint : ∀ j, j < k → ∀ s : ℤ, 0 ≤ s → s < n → g s ≠ 0 →
      0 ≤ s - (a + j) ∧ s - (a + j) < n) :
    ∑ y ∈ Ico (0:ℤ) n, (y : α) * ∑ j ∈ range k, w j * rdI n g (y + a + j)
      = ∑ s ∈ Ico (0:ℤ) n, (∑ j ∈ range k, w j * ((s : α) - (a : α) - (j : α))) * g s := by
  have e0 : ∑ y ∈ Ico (0:ℤ) n, (y : α) * ∑ j ∈ range k, w j * rdI n g (y + a + j)
      = ∑ y ∈ Ico (0:ℤ) n, ∑ j ∈ range k, w j * ((y : α) * rdI n g (y + (a + j))) := by
    apply Finset.sum_congr rfl
    intro y _
    rw [Finset.mul_sum]
    apply Finset.sum_congr rfl
    intro j _
    rw [add_assoc]; ring
  rw [e0, Finset.sum_comm]
  have e1 : ∀ j ∈ range k, ∑ y ∈ Ico (0:ℤ) n, w j * ((y : α) * rdI n g (y + (a + j)))
      = ∑ s ∈ Ico (0:ℤ) n, w j * ((s : α) - (a : α) - (j : α)) * g s := by
    intro j hj
    rw [← Finset.mul_sum, sum_shift_moment n g (a + j) (hint j (mem_range.mp hj)),
      Finset.mul_sum]
    apply Finset.sum_congr rfl
    intro s _
    push_cast
    ring
  rw [Finset.sum_congr rfl e1, Finset.sum_comm]
  apply Finset.sum_congr rfl
  intro s _
  rw [Finset.sum_mul]

end Shift

/-! ### centroid transport of one line -/
section Transport
open Gen
variable {α : Type} [Field α] [CharZero α]

theorem kick_line_first_moment_fin (n it jd : Nat) (h : it = 2 ∨ it = 3 ∨ it = 4)
    (hn : n < 2 ^ 31) (xip : α) (rd : Nat → α) (hjd : jd < n) (hst : StencilIn n it jd)
    (hint : InteriorSupp n it jd rd) :
    ∑ y ∈ range n, (y : α) * applyCell n (smRowOf n it jd xip) rd y
      = ∑ s ∈ range n, ((s : α) - (((jd : α) - ((n / 2 : Nat) : α)) + xip)) * rd s := by
  have hit : it = 1 ∨ it = 2 ∨ it = 3 ∨ it = 4 := Or.inr h
  have hit4 : it ≤ 4 := by omega
  have e1 : ∑ y ∈ range n, (y : α) * applyCell n (smRowOf n it jd xip) rd y
      = ∑ y ∈ range n, (((y : ℤ) : ℤ) : α) * ∑ j ∈ range it, (coeff it xip).getD j 0 *
          rdI n (fun i : ℤ => rd i.toNat)
            ((y : ℤ) + ((jd : Int) - ((n / 2 : Nat) : Int) - (((it - 1) / 2 : Nat) : Int)) + (j : ℤ)) := by
    apply Finset.sum_congr rfl
    intro y hy
    rw [applyCell_smRow_stencilIn n it jd hit4 hn hjd hst xip rd y (mem_range.mp hy),
      list_range_map_sum]
    congr 1
    · simp
    apply Finset.sum_congr rfl
    intro j _
    have hidx : ((y : ℤ) + ((jd : Int) - ((n / 2 : Nat) : Int)) + (j : Int)
          - (((it - 1) / 2 : Nat) : Int))
        = (y : ℤ) + ((jd : Int) - ((n / 2 : Nat) : Int) - (((it - 1) / 2 : Nat) : Int)) + (j : ℤ) := by
      ring
    rw [hidx]
    rfl
  rw [e1, ← sum_Ico_int_eq_range n (fun y : ℤ => (y : α) * ∑ j ∈ range it, (coeff it xip).getD j 0 *
          rdI n (fun i : ℤ => rd i.toNat)
            (y + ((jd : Int) - ((n / 2 : Nat) : Int) - (((it - 1) / 2 : Nat) : Int)) + (j : ℤ)))]
  rw [kick_row_first_moment n it (fun j => (coeff it xip).getD j 0) _ (fun i : ℤ => rd i.toNat)]
  · rw [sum_Ico_int_eq_range]
    apply Finset.sum_congr rfl
    intro s _
    simp only [Int.toNat_natCast]
    congr 1
    have hs : ∀ j ∈ range it, (coeff it xip).getD j 0 *
          ((((s : ℤ) : ℤ) : α) - (((jd : Int) - ((n / 2 : Nat) : Int) - (((it - 1) / 2 : Nat) : Int) : ℤ) : α) - (j : α))
        = ((s : α) - ((jd : α) - ((n / 2 : Nat) : α))) * (coeff it xip).getD j 0
          - (coeff it xip).getD j 0 * ((j : α) - (((it - 1) / 2 : Nat) : α)) := by
      intro j _
      simp only [Int.cast_sub, Int.cast_natCast]
      ring
    rw [Finset.sum_congr rfl hs, Finset.sum_sub_distrib, ← Finset.mul_sum,
      coeff_finsum_one it hit xip, first_moment_finsum it h xip]
    ring
  · intro j hj s hs0 hsn hne
    have := hint j hj s.toNat (by omega) hne
    omega

theorem kick_line_first_moment' (n it jd : Nat) (h : it = 2 ∨ it = 3 ∨ it = 4)
    (hn : n < 2 ^ 31) (xip : α) (rd : Nat → α) (hjd : jd < n) (hst : StencilIn n it jd)
    (hint : InteriorSupp n it jd rd) :
    ((List.range n).map fun (y : Nat) => (y : α) * applyCell n (smRowOf n it jd xip) rd y).sum
      = ((List.range n).map fun (s : Nat) =>
          ((s : α) - (((jd : α) - ((n / 2 : Nat) : α)) + xip)) * rd s).sum := by
  rw [list_range_map_sum, list_range_map_sum]
  exact kick_line_first_moment_fin n it jd h hn xip rd hjd hst hint

/-- `min + zerobin·delta = 0` -/
theorem zerobin_is_origin' (steps : Nat) (mn mx : α) (hs : 2 ≤ steps) (hne : mn ≠ mx) :
    mn + (Ruler.zerobin ({ steps := steps, min := mn, max := mx } : Ruler α))
          * (Ruler.delta ({ steps := steps, min := mn, max := mx } : Ruler α)) = 0 := by
  have h1 : ((steps - 1 : ℕ) : α) ≠ 0 := Nat.cast_ne_zero.mpr (by omega)
  have h2 : mn - mx ≠ 0 := sub_ne_zero.mpr hne
  unfold Ruler.zerobin Ruler.delta
  simp only [lit_field]
  field_simp
  ring

end Transport

/-! ### quadratic form -/
section Form
variable {α : Type} [Field α] [LinearOrder α] [IsStrictOrderedRing α]

theorem form_pos (θ t q p : α) (hθ : 0 < θ) (ht : 0 < t) (h4 : θ * t < 4)
    (hv : q ≠ 0 ∨ p ≠ 0) : 0 < t * q ^ 2 + θ * t * q * p + θ * p ^ 2 := by
  have hid : t * q ^ 2 + θ * t * q * p + θ * p ^ 2
      = t * (q + θ * p / 2) ^ 2 + θ * (1 - θ * t / 4) * p ^ 2 := by ring
  rw [hid]
  have hc : 0 < θ * (1 - θ * t / 4) := by
    apply mul_pos hθ; linarith
  by_cases hp : p = 0
  · subst hp
    have hq : q ≠ 0 := by rcases hv with h | h; exact h; exact absurd rfl h
    have : 0 < q ^ 2 := by positivity
    simp only [mul_zero, zero_div, add_zero, ne_eq, OfNat.ofNat_ne_zero, not_false_eq_true,
      zero_pow]
    positivity
  · have h1 : 0 < p ^ 2 := by positivity
    have h2 : 0 ≤ t * (q + θ * p / 2) ^ 2 := by positivity
    have h3 : 0 < θ * (1 - θ * t / 4) * p ^ 2 := mul_pos hc h1
    linarith

/-! ### clamp -/

theorem clamp_ite (x hi : α) (h : 1 ≤ hi) :
    (1 : α) ≤ (if (1 : α) < (if hi < x then hi else x) then (if hi < x then hi else x) else 1) ∧
    (if (1 : α) < (if hi < x then hi else x) then (if hi < x then hi else x) else 1) ≤ hi := by
  split_ifs <;> constructor <;> linarith

theorem clamp_ite_id (x hi : α) (h1 : 1 ≤ x) (h2 : x ≤ hi) :
    (if (1 : α) < (if hi < x then hi else x) then (if hi < x then hi else x) else 1) = x := by
  split_ifs <;> linarith

theorem one_le_cast_pred (n : Nat) (hn : 2 ≤ n) : (1 : α) ≤ ((n - 1 : Nat) : α) := by
  exact_mod_cast (by omega : 1 ≤ n - 1)

end Form

/-! ### stochastic tracking: variance fixed point -/
section Stochastic

/-- corrected form: needs `2 ≠ 0` in the field -/
theorem variance_fixed_point' {α : Type} [Field α] (e1 delta : α) (he2 : e1 ≠ 2)
    (hd : delta ≠ 0) (h2 : (2 : α) ≠ 0) :
    (1 - e1) ^ 2 * (1 / (delta ^ 2 * (1 - e1 / 2))) + 2 * e1 / delta ^ 2
      = 1 / (delta ^ 2 * (1 - e1 / 2)) := by
  have h4 : 2 - e1 ≠ 0 := fun h => he2 (by linear_combination -h)
  field_simp
  ring

/-- the statement with only `[Field α]` (no `2 ≠ 0`), as a closed proposition -/
def VarianceFixedPointAnyField : Prop :=
  ∀ (α : Type) [Field α] (e1 delta : α), e1 ≠ 0 → e1 ≠ 2 → delta ≠ 0 →
    (1 - e1) ^ 2 * (1 / (delta ^ 2 * (1 - e1 / 2))) + 2 * e1 / delta ^ 2
      = 1 / (delta ^ 2 * (1 - e1 / 2))

/-- it fails in characteristic 2: `α = ZMod 2`, `e1 = 1`, `delta = 1` gives `0 = 1` -/
theorem varianceFixedPointAnyField_false : ¬ VarianceFixedPointAnyField := by
  intro H
  have h := H (ZMod 2) 1 1 (by decide) (by decide) (by decide)
  have h2 : (2 : ZMod 2) = 0 := by decide
  simp [h2] at h

end Stochastic

/-! ### trace of the step matrix vs. rotation -/
section Trace

/-- pure algebra: from the Taylor enclosures of `c = cos θ`, `s = sin θ` -/
theorem trace_close_alg (θ c s : ℝ) (h0 : 0 < θ) (h1 : θ ≤ 1 / 2) (hcpos : 0 < c)
    (hc1 : -(θ ^ 4 * (5 / 96)) ≤ c - (1 - θ ^ 2 / 2))
    (hc2 : c - (1 - θ ^ 2 / 2) ≤ θ ^ 4 * (5 / 96))
    (hs1 : -(θ ^ 5 / 100) ≤ s - (θ - θ ^ 3 / 6))
    (hs2 : s - (θ - θ ^ 3 / 6) ≤ θ ^ 5 / 100) :
    |2 - θ * (s / c) - 2 * c| ≤ θ ^ 4 := by
  have hθ2 : θ ^ 2 ≤ 1 / 4 := by nlinarith
  have hθ2' : 0 < θ ^ 2 := by positivity
  have hθ4 : θ ^ 4 ≤ 1 / 16 := by nlinarith
  have hθ4' : 0 < θ ^ 4 := by positivity
  have hθ5 : θ ^ 5 ≤ θ ^ 4 / 2 := by
    have : θ ^ 5 = θ ^ 4 * θ := by ring
    rw [this]; nlinarith
  have hθ5' : 0 < θ ^ 5 := by positivity
  obtain ⟨e1, he1⟩ : ∃ e1, e1 = c - (1 - θ ^ 2 / 2) := ⟨_, rfl⟩
  obtain ⟨e2, he2⟩ : ∃ e2, e2 = s - (θ - θ ^ 3 / 6) := ⟨_, rfl⟩
  rw [← he1] at hc1 hc2
  rw [← he2] at hs1 hs2
  have hcval : c = 1 - θ ^ 2 / 2 + e1 := by rw [he1]; ring
  have hsval : s = θ - θ ^ 3 / 6 + e2 := by rw [he2]; ring
  have hK : θ ^ 4 * (5 / 96) ≤ 5 / 1536 := by nlinarith
  have he1sq : e1 ^ 2 ≤ θ ^ 4 * (5 / 96) * (5 / 1536) := by
    have : e1 ^ 2 ≤ (θ ^ 4 * (5 / 96)) ^ 2 := by
      apply sq_le_sq'
      · linarith
      · linarith
    nlinarith
  have hθe1a : θ ^ 2 * e1 ≤ θ ^ 4 * (5 / 96) / 4 := by nlinarith
  have hθe1b : -(θ ^ 4 * (5 / 96) / 4) ≤ θ ^ 2 * e1 := by nlinarith
  have hθe2a : θ * e2 ≤ θ ^ 4 / 400 := by nlinarith
  have hθe2b : -(θ ^ 4 / 400) ≤ θ * e2 := by nlinarith
  have hX : (2 - θ * (s / c) - 2 * c) * c = 2 * c - θ * s - 2 * c ^ 2 := by
    field_simp
  have hmain : (2 - θ * (s / c) - 2 * c) * c
      = -(θ ^ 4 / 3) - 2 * e1 + 2 * (θ ^ 2 * e1) - 2 * e1 ^ 2 - θ * e2 := by
    rw [hX, hcval, hsval]; ring
  have hclow : 1 - 1 / 8 - 5 / 1536 ≤ c := by rw [hcval]; nlinarith
  rw [abs_le]
  constructor
  · have : -(θ ^ 4) * c ≤ (2 - θ * (s / c) - 2 * c) * c := by
      rw [hmain]; nlinarith
    exact le_of_mul_le_mul_right this hcpos
  · have : (2 - θ * (s / c) - 2 * c) * c ≤ θ ^ 4 * c := by
      rw [hmain]; nlinarith
    exact le_of_mul_le_mul_right this hcpos

theorem trace_close (θ : ℝ) (h0 : 0 < θ) (h1 : θ ≤ 1 / 2) :
    |2 - θ * Real.tan θ - 2 * Real.cos θ| ≤ θ ^ 4 := by
  have habs : |θ| ≤ 1 := by rw [abs_of_pos h0]; linarith
  have hc := Real.cos_bound habs
  have hs := Real.sin_bound habs
  rw [abs_of_pos h0] at hc hs
  rw [abs_le] at hc hs
  have hpi := Real.two_le_pi
  have hcpos : 0 < Real.cos θ :=
    Real.cos_pos_of_mem_Ioo ⟨by linarith, by linarith⟩
  rw [Real.tan_eq_sin_div_cos]
  exact trace_close_alg θ _ _ h0 h1 hcpos hc.1 hc.2 hs.1 hs.2

end Trace

end Inovesa
