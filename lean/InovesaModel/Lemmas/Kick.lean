/- helper lemmas about the KickMap model (field interpretation) -/
import InovesaModel.Model.KickMap
import InovesaModel.Lemmas.Field
import Mathlib.Algebra.BigOperators.Intervals
import Mathlib.Algebra.BigOperators.Ring.Finset
import Mathlib.Tactic.Linarith
import Mathlib.Data.Int.Interval
import Mathlib.Algebra.Order.Interval.Finset.Basic
namespace Inovesa
open Finset

/-! ### conservation over `ℤ`-indexed Finset sums (checked scratch proof, reused) -/
section IntSums
variable {α : Type} [CommRing α]

/-- data on the grid `[0,n)`, read as zero outside (the code's bounds test). -/
def rdI (n : ℕ) (g : ℤ → α) (i : ℤ) : α := if 0 ≤ i ∧ i < n then g i else 0

/-- shifting a window: if every nonzero cell `s` of `g` in `[0,n)` has `s - b` in `[0,n)`,
    the shifted window sum is the full sum -/
theorem sum_shift (n : ℕ) (g : ℤ → α) (b : ℤ)
    (h : ∀ s : ℤ, 0 ≤ s → s < n → g s ≠ 0 → 0 ≤ s - b ∧ s - b < n) :
    ∑ y ∈ Ico (0:ℤ) n, rdI n g (y + b) = ∑ s ∈ Ico (0:ℤ) n, g s := by
  classical
  have hmap : Ico (b:ℤ) (n + b) = (Ico (0:ℤ) n).map (addRightEmbedding b) := by
    simp [Finset.map_add_right_Ico]
  have e1 : ∑ y ∈ Ico (0:ℤ) n, rdI n g (y + b) = ∑ s ∈ Ico (b:ℤ) (n + b), rdI n g s := by
    rw [hmap, Finset.sum_map]; rfl
  have e2 : ∑ s ∈ Ico (b:ℤ) (n + b) ∩ Ico (0:ℤ) n, g s
      = ∑ s ∈ Ico (b:ℤ) (n + b), rdI n g s := by
    have hc : ∑ s ∈ Ico (b:ℤ) (n + b) ∩ Ico (0:ℤ) n, g s
        = ∑ s ∈ Ico (b:ℤ) (n + b) ∩ Ico (0:ℤ) n, rdI n g s := by
      apply Finset.sum_congr rfl
      intro s hs
      rw [mem_inter, mem_Ico, mem_Ico] at hs
      simp [rdI, hs.2.1, hs.2.2]
    rw [hc]
    apply Finset.sum_subset Finset.inter_subset_left
    intro s hs hns
    rw [mem_inter, mem_Ico] at hns
    rw [mem_Ico] at hs
    have : ¬ (0 ≤ s ∧ s < n) := fun hc => hns ⟨hs, mem_Ico.mpr hc⟩
    simp [rdI, this]
  have e3 : ∑ s ∈ Ico (b:ℤ) (n + b) ∩ Ico (0:ℤ) n, g s = ∑ s ∈ Ico (0:ℤ) n, g s := by
    apply Finset.sum_subset Finset.inter_subset_right
    intro s hs hns
    rw [mem_Ico] at hs
    rw [mem_inter, mem_Ico, mem_Ico] at hns
    by_contra hg
    have := h s hs.1 hs.2 hg
    exact hns ⟨⟨by linarith [this.1], by linarith [this.2]⟩, hs⟩
  rw [e1, ← e2, e3]

/-- one row of `KickMap::apply` over `ℤ`: `out[y] = Σ_j w_j * in[y + a + j]`; if the
    weights sum to one and the support is interior, the row sum is conserved -/
theorem kick_row_conserves (n k : ℕ) (w : ℕ → α) (a : ℤ) (g : ℤ → α)
    (hw : ∑ j ∈ range k, w j = 1)
    (hint : ∀ j, j < k → ∀ s : ℤ, 0 ≤ s → s < n → g s ≠ 0 →
      0 ≤ s - (a + j) ∧ s - (a + j) < n) :
    ∑ y ∈ Ico (0:ℤ) n, ∑ j ∈ range k, w j * rdI n g (y + a + j) = ∑ s ∈ Ico (0:ℤ) n, g s := by
  rw [Finset.sum_comm]
  have : ∀ j ∈ range k, ∑ y ∈ Ico (0:ℤ) n, w j * rdI n g (y + a + j)
      = w j * ∑ s ∈ Ico (0:ℤ) n, g s := by
    intro j hj
    rw [← Finset.mul_sum]
    congr 1
    have := sum_shift n g (a + j) (hint j (mem_range.mp hj))
    simpa [add_assoc] using this
  rw [Finset.sum_congr rfl this, ← Finset.sum_mul, hw, one_mul]

/-- `ℤ`-indexed sum over `[0,n)` as a `ℕ`-indexed one -/
theorem sum_Ico_int_eq_range (n : ℕ) (F : ℤ → α) :
    ∑ y ∈ Ico (0:ℤ) n, F y = ∑ i ∈ range n, F (i : ℤ) := by
  symm
  apply Finset.sum_bij' (fun (i : ℕ) _ => (i : ℤ)) (fun (y : ℤ) _ => y.toNat)
  · intro i hi; rw [mem_range] at hi; rw [mem_Ico]; omega
  · intro y hy; rw [mem_Ico] at hy; rw [mem_range]; omega
  · intro i _; simp
  · intro y hy; rw [mem_Ico] at hy; omega
  · intro i _; rfl

end IntSums

/-! ### list sums as Finset sums -/
section ListSums
variable {β : Type} [AddCommMonoid β]

theorem list_range_map_sum (n : ℕ) (f : ℕ → β) :
    ((List.range n).map f).sum = ∑ i ∈ range n, f i := by
  induction n with
  | zero => simp
  | succ n ih => simp [List.range_succ, Finset.sum_range_succ, ih]

theorem list_range_flatMap_sum (n : ℕ) (f : ℕ → List β) :
    ((List.range n).flatMap f).sum = ∑ i ∈ range n, (f i).sum := by
  induction n with
  | zero => simp
  | succ n ih => simp [List.range_succ, Finset.sum_range_succ, ih]

/-- block decomposition of a range sum -/
theorem sum_range_mul_block (a m : ℕ) (f : ℕ → β) :
    ∑ i ∈ range (a * m), f i = ∑ q ∈ range a, ∑ r ∈ range m, f (q * m + r) := by
  induction a with
  | zero => simp
  | succ a ih => rw [Nat.succ_mul, Finset.sum_range_add, ih, Finset.sum_range_succ]

end ListSums

/-! ### the model in a field -/
section Model
variable {α : Type} [Field α]

@[simp] theorem zero_field : (zero : α) = 0 := by simp [zero]

/-- zero extension of a grid line to all integers -/
def zext (n : Nat) (rd : Nat → α) (i : Int) : α := if 0 ≤ i ∧ i < n then rd i.toNat else 0

theorem foldl_cond_add {β : Type} (p : β → Prop) [DecidablePred p] (g : β → α)
    (l : List β) (a : α) :
    l.foldl (fun v h => if p h then v + g h else v) a
      = a + (l.map fun h => if p h then g h else 0).sum := by
  induction l generalizing a with
  | nil => simp
  | cons h t ih =>
    simp only [List.foldl_cons, List.map_cons, List.sum_cons]
    rw [ih]; split_ifs <;> ring

/-- `applyCell` as a plain sum over the table row -/
theorem applyCell_eq_sum (n : Nat) (tab : List (Hi α)) (rd : Nat → α) (y : Nat) :
    applyCell n tab rd y
      = (tab.map fun h => if srcCell n y h.1 < n then rd (srcCell n y h.1) * h.2 else 0).sum := by
  have := foldl_cond_add (fun h : Hi α => srcCell n y h.1 < n)
    (fun h => rd (srcCell n y h.1) * h.2) tab 0
  simpa [applyCell] using this

/-- `applyCell` only reads the source line inside the grid -/
theorem applyCell_congr (n : Nat) (tab : List (Hi α)) (rd rd' : Nat → α) (y : Nat)
    (h : ∀ s, s < n → rd s = rd' s) : applyCell n tab rd y = applyCell n tab rd' y := by
  rw [applyCell_eq_sum, applyCell_eq_sum]
  congr 1
  apply List.map_congr_left
  intro e _
  split_ifs with hs
  · rw [h _ hs]
  · rfl

end Model

/-! ### the generated weights -/
section Coeff
open Gen
variable {α : Type} [Field α] [CharZero α]

theorem coeff_sum_one' (it : Nat) (h : it = 1 ∨ it = 2 ∨ it = 3 ∨ it = 4) (f : α) :
    (coeff it f).sum = 1 := by
  rcases h with rfl | rfl | rfl | rfl
  · simp [coeff]
  · simp [coeff]
  · simp [coeff]; ring
  · simp [coeff]; ring

omit [CharZero α] in
theorem coeff_length' (it : Nat) (h : it = 1 ∨ it = 2 ∨ it = 3 ∨ it = 4) (f : α) :
    (coeff it f).length = it := by
  rcases h with rfl | rfl | rfl | rfl <;> rfl

theorem coeff_at_zero' (it : Nat) (h : it = 1 ∨ it = 2 ∨ it = 3 ∨ it = 4) (j : Nat) (hj : j < it) :
    (coeff it (0 : α)).getD j 0 = if j = (it - 1) / 2 then 1 else 0 := by
  rcases h with rfl | rfl | rfl | rfl
  · obtain rfl : j = 0 := by omega
    simp [coeff]
  · obtain rfl | rfl : j = 0 ∨ j = 1 := by omega
    all_goals simp [coeff]
  · obtain rfl | rfl | rfl : j = 0 ∨ j = 1 ∨ j = 2 := by omega
    all_goals simp [coeff]
  · obtain rfl | rfl | rfl | rfl : j = 0 ∨ j = 1 ∨ j = 2 ∨ j = 3 := by omega
    all_goals simp [coeff]

theorem poly_repro' (it : Nat) (h : it = 1 ∨ it = 2 ∨ it = 3 ∨ it = 4) (f a0 a1 a2 a3 : α)
    (h1 : it ≤ 1 → a1 = 0) (h2 : it ≤ 2 → a2 = 0) (h3 : it ≤ 3 → a3 = 0) :
    (((List.range it).map fun j =>
        (coeff it f).getD j 0 * (fun t => a0 + a1 * t + a2 * t ^ 2 + a3 * t ^ 3) ((j : α) - (((it - 1) / 2 : Nat) : α))).sum) = (fun t => a0 + a1 * t + a2 * t ^ 2 + a3 * t ^ 3) f := by
  rcases h with rfl | rfl | rfl | rfl
  · obtain rfl := h1 (by norm_num); obtain rfl := h2 (by norm_num); obtain rfl := h3 (by norm_num)
    simp [coeff, List.range_succ]
  · obtain rfl := h2 (by norm_num); obtain rfl := h3 (by norm_num)
    simp [coeff, List.range_succ]; ring
  · obtain rfl := h3 (by norm_num)
    simp [coeff, List.range_succ]; ring
  · simp [coeff, List.range_succ]; ring
end Coeff

/-! ### one destination cell of a kicked line -/
section SmRow
open Gen
variable {α : Type} [Field α]

/-- contribution of one table entry `h` to destination cell `y` -/
def cellTerm (n : Nat) (rd : Nat → α) (y : Nat) (h : Hi α) : α :=
  if srcCell n y h.1 < n then rd (srcCell n y h.1) * h.2 else 0

/-- the table entry `updateSM` writes for stencil point `j1` (row with `jd < n`) -/
def smEntry (n it jd : Nat) (xip : α) (j1 : Nat) : Hi α :=
  if (jd + j1 + W32 - (it - 1) / 2) % W32 < n
  then ((jd + j1 + W32 - (it - 1) / 2) % W32, (coeff it xip).getD j1 zero) else (n / 2, zero)

theorem applyCell_eq_sum' (n : Nat) (tab : List (Hi α)) (rd : Nat → α) (y : Nat) :
    applyCell n tab rd y = (tab.map (cellTerm n rd y)).sum :=
  applyCell_eq_sum n tab rd y

theorem smRowOf_eq (n it jd : Nat) (hjd : jd < n) (xip : α) :
    smRowOf n it jd xip = (List.range it).map (smEntry n it jd xip) := by
  unfold smRowOf
  rw [if_pos hjd]
  rfl

theorem map_map_sum {β γ : Type} (l : List β) (g : β → γ) (f : γ → α) :
    ((l.map g).map f).sum = (l.map fun x => f (g x)).sum := by
  rw [List.map_map]; rfl

theorem smRowOf_ge (n it jd : Nat) (hjd : n ≤ jd) (xip : α) :
    smRowOf n it jd xip = (List.range it).map fun _ => ((n / 2, zero) : Hi α) := by
  unfold smRowOf
  rw [if_neg (Nat.not_lt.mpr hjd)]

/-- rows whose integer part is outside the grid are zeroed -/
theorem applyCell_outside' (n it jd : Nat) (hjd : n ≤ jd) (xip : α) (rd : Nat → α) (y : Nat) :
    applyCell n (smRowOf n it jd xip) rd y = 0 := by
  rw [applyCell_eq_sum', smRowOf_ge n it jd hjd xip, map_map_sum]
  apply List.sum_eq_zero
  intro x hx
  rw [List.mem_map] at hx
  obtain ⟨j, _, rfl⟩ := hx
  unfold cellTerm
  simp

/-- weight that `updateSM` actually stores for stencil point `j`: entries whose table
    index `jd + j - (it-1)/2` falls outside `[0,n)` are zeroed -/
def wTrunc (n it jd : Nat) (xip : α) (j : Nat) : α :=
  if (it - 1) / 2 ≤ jd + j ∧ jd + j - (it - 1) / 2 < n then (coeff it xip).getD j 0 else 0

theorem smRow_term (n it jd : Nat) (hn : n < 2 ^ 31) (hjd : jd < n)
    (xip : α) (rd : Nat → α) (y : Nat) (hy : y < n) (j : Nat) (hit : it ≤ 4) (hj : j < it) :
    cellTerm n rd y (smEntry n it jd xip j)
    = wTrunc n it jd xip j *
        zext n rd ((y : Int) + ((jd : Int) - ((n / 2 : Nat) : Int)) + (j : Int)
                       - (((it - 1) / 2 : Nat) : Int)) := by
  have hn' : n < 2147483648 := by simpa using hn
  unfold cellTerm smEntry wTrunc
  simp only [zero_field, srcCell, W32]
  by_cases h0 : (jd + j + 4294967296 - (it - 1) / 2) % 4294967296 < n
  · have hA : (it - 1) / 2 ≤ jd + j ∧ jd + j - (it - 1) / 2 < n := by omega
    have hj0 : (jd + j + 4294967296 - (it - 1) / 2) % 4294967296 = jd + j - (it - 1) / 2 := by omega
    simp only [if_true, hA, and_self, hj0]
    unfold zext
    by_cases h1 : (y + (jd + j - (it - 1) / 2) + 4294967296 - n / 2) % 4294967296 < n
    · have hB : (0:Int) ≤ (y : Int) + ((jd : Int) - ((n / 2 : Nat) : Int)) + (j : Int)
                       - (((it - 1) / 2 : Nat) : Int) ∧ (y : Int) + ((jd : Int) - ((n / 2 : Nat) : Int)) + (j : Int)
                       - (((it - 1) / 2 : Nat) : Int) < n := by omega
      have hC : ((y : Int) + ((jd : Int) - ((n / 2 : Nat) : Int)) + (j : Int)
                       - (((it - 1) / 2 : Nat) : Int)).toNat = (y + (jd + j - (it - 1) / 2) + 4294967296 - n / 2) % 4294967296 := by omega
      rw [if_pos h1, if_pos hB, hC]; ring
    · have hB : ¬ ((0:Int) ≤ (y : Int) + ((jd : Int) - ((n / 2 : Nat) : Int)) + (j : Int)
                       - (((it - 1) / 2 : Nat) : Int) ∧ (y : Int) + ((jd : Int) - ((n / 2 : Nat) : Int)) + (j : Int)
                       - (((it - 1) / 2 : Nat) : Int) < n) := by omega
      rw [if_neg h1, if_neg hB]; ring
  · have hA : ¬ ((it - 1) / 2 ≤ jd + j ∧ jd + j - (it - 1) / 2 < n) := by omega
    simp [h0, hA]

theorem applyCell_smRow_trunc (n it jd : Nat) (hit : it ≤ 4) (hn : n < 2 ^ 31) (hjd : jd < n)
    (xip : α) (rd : Nat → α) (y : Nat) (hy : y < n) :
    applyCell n (smRowOf n it jd xip) rd y
      = ((List.range it).map fun j =>
          wTrunc n it jd xip j *
            zext n rd ((y : Int) + ((jd : Int) - ((n / 2 : Nat) : Int)) + (j : Int)
                       - (((it - 1) / 2 : Nat) : Int))).sum := by
  rw [applyCell_eq_sum', smRowOf_eq n it jd hjd, map_map_sum]
  congr 1
  apply List.map_congr_left
  intro j hj
  rw [List.mem_range] at hj
  exact smRow_term n it jd hn hjd xip rd y hy j hit hj

/-- all `it` table entries of the row for integer part `jd` address cells of the grid -/
def StencilIn (n it jd : Nat) : Prop := (it - 1) / 2 ≤ jd ∧ jd + (it - 1) - (it - 1) / 2 < n

theorem wTrunc_of_stencilIn (n it jd : Nat) (h : StencilIn n it jd) (xip : α) (j : Nat)
    (hj : j < it) : wTrunc n it jd xip j = (coeff it xip).getD j 0 := by
  unfold wTrunc
  rw [if_pos]
  unfold StencilIn at h
  omega
end SmRow

/-! ### whole-cell shift, polynomial reproduction on the grid -/
section Derived
open Gen
variable {α : Type} [Field α] [CharZero α]

theorem wTrunc_zero (n it jd : Nat) (h : it = 1 ∨ it = 2 ∨ it = 3 ∨ it = 4) (hjd : jd < n)
    (j : Nat) (hj : j < it) :
    wTrunc n it jd (0 : α) j = if j = (it - 1) / 2 then 1 else 0 := by
  unfold wTrunc
  rw [coeff_at_zero' it h j hj]
  by_cases hc : j = (it - 1) / 2
  · rw [if_pos hc, if_pos]; omega
  · rw [if_neg hc, ite_self]

theorem shift_whole_cell' (n it jd : Nat) (hit : it = 1 ∨ it = 2 ∨ it = 3 ∨ it = 4)
    (hn : n < 2 ^ 31) (hjd : jd < n) (rd : Nat → α) (y : Nat) (hy : y < n) :
    applyCell n (smRowOf n it jd (0 : α)) rd y
      = zext n rd ((y : Int) + ((jd : Int) - ((n / 2 : Nat) : Int))) := by
  have hit4 : it ≤ 4 := by omega
  have hc : (it - 1) / 2 < it := by omega
  rw [applyCell_smRow_trunc n it jd hit4 hn hjd 0 rd y hy, list_range_map_sum]
  rw [Finset.sum_congr rfl (fun j hj => by
    rw [wTrunc_zero n it jd hit hjd j (mem_range.mp hj)])]
  simp only [ite_mul, one_mul, zero_mul]
  rw [Finset.sum_ite_eq' (range it) ((it - 1) / 2), if_pos (mem_range.mpr hc)]
  congr 1
  omega

theorem poly_repro_shift (it : Nat) (h : it = 1 ∨ it = 2 ∨ it = 3 ∨ it = 4) (u f a0 a1 a2 a3 : α)
    (h1 : it ≤ 1 → a1 = 0) (h2 : it ≤ 2 → a2 = 0) (h3 : it ≤ 3 → a3 = 0) :
    (((List.range it).map fun j =>
        (coeff it f).getD j 0 * (fun t => a0 + a1 * t + a2 * t ^ 2 + a3 * t ^ 3)
          (u + ((j : α) - (((it - 1) / 2 : Nat) : α)))).sum)
      = (fun t => a0 + a1 * t + a2 * t ^ 2 + a3 * t ^ 3) (u + f) := by
  rcases h with rfl | rfl | rfl | rfl
  · obtain rfl := h1 (by norm_num); obtain rfl := h2 (by norm_num); obtain rfl := h3 (by norm_num)
    simp [coeff, List.range_succ]
  · obtain rfl := h2 (by norm_num); obtain rfl := h3 (by norm_num)
    simp [coeff, List.range_succ]; ring
  · obtain rfl := h3 (by norm_num)
    simp [coeff, List.range_succ]; ring
  · simp [coeff, List.range_succ]; ring

omit [CharZero α] in
theorem applyCell_smRow_stencilIn (n it jd : Nat) (hit : it ≤ 4) (hn : n < 2 ^ 31) (hjd : jd < n)
    (hst : StencilIn n it jd) (xip : α) (rd : Nat → α) (y : Nat) (hy : y < n) :
    applyCell n (smRowOf n it jd xip) rd y
      = ((List.range it).map fun j =>
          (coeff it xip).getD j 0 *
            zext n rd ((y : Int) + ((jd : Int) - ((n / 2 : Nat) : Int)) + (j : Int)
                       - (((it - 1) / 2 : Nat) : Int))).sum := by
  rw [applyCell_smRow_trunc n it jd hit hn hjd xip rd y hy]
  congr 1
  apply List.map_congr_left
  intro j hj
  rw [wTrunc_of_stencilIn n it jd hst xip j (List.mem_range.mp hj)]

theorem poly_repro_grid' (n it jd : Nat) (hit : it = 1 ∨ it = 2 ∨ it = 3 ∨ it = 4)
    (hn : n < 2 ^ 31) (hjd : jd < n) (hst : StencilIn n it jd)
    (xip a0 a1 a2 a3 : α)
    (h1 : it ≤ 1 → a1 = 0) (h2 : it ≤ 2 → a2 = 0) (h3 : it ≤ 3 → a3 = 0)
    (rd : Nat → α) (y : Nat) (hy : y < n)
    (hlo : (0 : Int) ≤ (y : Int) + ((jd : Int) - ((n / 2 : Nat) : Int)) - (((it - 1) / 2 : Nat) : Int))
    (hhi : (y : Int) + ((jd : Int) - ((n / 2 : Nat) : Int)) + (it : Int) - 1
              - (((it - 1) / 2 : Nat) : Int) < n)
    (hrd : ∀ s : Nat, s < n →
        rd s = a0 + a1 * (s : α) + a2 * (s : α) ^ 2 + a3 * (s : α) ^ 3) :
    applyCell n (smRowOf n it jd xip) rd y
      = (fun t => a0 + a1 * t + a2 * t ^ 2 + a3 * t ^ 3)
          ((y : α) + ((jd : α) - ((n / 2 : Nat) : α)) + xip) := by
  have hit4 : it ≤ 4 := by omega
  rw [applyCell_smRow_stencilIn n it jd hit4 hn hjd hst xip rd y hy]
  rw [← poly_repro_shift it hit ((y : α) + ((jd : α) - ((n / 2 : Nat) : α))) xip a0 a1 a2 a3 h1 h2 h3]
  congr 1
  apply List.map_congr_left
  intro j hj
  rw [List.mem_range] at hj
  congr 1
  have hb : (0:Int) ≤ (y : Int) + ((jd : Int) - ((n / 2 : Nat) : Int)) + (j : Int)
                       - (((it - 1) / 2 : Nat) : Int) ∧ (y : Int) + ((jd : Int) - ((n / 2 : Nat) : Int)) + (j : Int)
                       - (((it - 1) / 2 : Nat) : Int) < n := by omega
  unfold zext
  rw [if_pos hb, hrd _ (by omega)]
  have hcast : ((((y : Int) + ((jd : Int) - ((n / 2 : Nat) : Int)) + (j : Int)
                       - (((it - 1) / 2 : Nat) : Int)).toNat : Nat) : α)
      = (y : α) + ((jd : α) - ((n / 2 : Nat) : α)) + ((j : α) - (((it - 1) / 2 : Nat) : α)) := by
    rw [← Int.cast_natCast (R := α), Int.toNat_of_nonneg hb.1]
    simp only [Int.cast_add, Int.cast_sub, Int.cast_natCast]
    ring
  rw [hcast]

end Derived

/-! ### conservation -/
section Conserve
open Gen
variable {α : Type} [Field α] [CharZero α]

theorem coeff_finsum_one (it : Nat) (h : it = 1 ∨ it = 2 ∨ it = 3 ∨ it = 4) (f : α) :
    ∑ j ∈ range it, (coeff it f).getD j 0 = 1 := by
  rcases h with rfl | rfl | rfl | rfl
  · simp [coeff]
  · simp [coeff, Finset.sum_range_succ]
  · simp [coeff, Finset.sum_range_succ]; ring
  · simp [coeff, Finset.sum_range_succ]; ring

/-- interior support of a line (same body as `Props.C01.InteriorLine`, second component) -/
def InteriorSupp (n it jd : Nat) (rd : Nat → α) : Prop :=
  ∀ j : Nat, j < it → ∀ s : Nat, s < n → rd s ≠ 0 →
    (0 : Int) ≤ (s : Int) - (((jd : Int) - ((n / 2 : Nat) : Int)) + (j : Int) - (((it - 1) / 2 : Nat) : Int)) ∧
    (s : Int) - (((jd : Int) - ((n / 2 : Nat) : Int)) + (j : Int) - (((it - 1) / 2 : Nat) : Int)) < n

/-- one kicked line conserves its sum (Finset form) -/
theorem kick_line_finsum (n it jd : Nat) (hit : it = 1 ∨ it = 2 ∨ it = 3 ∨ it = 4)
    (hn : n < 2 ^ 31) (xip : α) (rd : Nat → α) (hjd : jd < n) (hst : StencilIn n it jd)
    (hint : InteriorSupp n it jd rd) :
    ∑ y ∈ range n, applyCell n (smRowOf n it jd xip) rd y = ∑ s ∈ range n, rd s := by
  have hit4 : it ≤ 4 := by omega
  have e1 : ∑ y ∈ range n, applyCell n (smRowOf n it jd xip) rd y
      = ∑ y ∈ range n, ∑ j ∈ range it, (coeff it xip).getD j 0 *
          rdI n (fun i : ℤ => rd i.toNat)
            ((y : ℤ) + ((jd : Int) - ((n / 2 : Nat) : Int) - (((it - 1) / 2 : Nat) : Int)) + (j : ℤ)) := by
    apply Finset.sum_congr rfl
    intro y hy
    rw [applyCell_smRow_stencilIn n it jd hit4 hn hjd hst xip rd y (mem_range.mp hy),
      list_range_map_sum]
    apply Finset.sum_congr rfl
    intro j _
    have hidx : ((y : ℤ) + ((jd : Int) - ((n / 2 : Nat) : Int)) + (j : Int)
          - (((it - 1) / 2 : Nat) : Int))
        = (y : ℤ) + ((jd : Int) - ((n / 2 : Nat) : Int) - (((it - 1) / 2 : Nat) : Int)) + (j : ℤ) := by
      ring
    rw [hidx]
    rfl
  rw [e1, ← sum_Ico_int_eq_range n (fun y : ℤ => ∑ j ∈ range it, (coeff it xip).getD j 0 *
          rdI n (fun i : ℤ => rd i.toNat)
            (y + ((jd : Int) - ((n / 2 : Nat) : Int) - (((it - 1) / 2 : Nat) : Int)) + (j : ℤ)))]
  rw [kick_row_conserves n it (fun j => (coeff it xip).getD j 0) _ (fun i : ℤ => rd i.toNat)
    (coeff_finsum_one it hit xip)]
  · rw [sum_Ico_int_eq_range]
    simp
  · intro j hj s hs0 hsn hne
    have := hint j hj s.toNat (by omega) hne
    omega


/-- one kicked line conserves its sum (list form, as `applyLine` produces it) -/
theorem kick_line_conserves' (n it jd : Nat) (hit : it = 1 ∨ it = 2 ∨ it = 3 ∨ it = 4)
    (hn : n < 2 ^ 31) (xip : α) (rd : Nat → α) (hjd : jd < n) (hst : StencilIn n it jd)
    (hint : InteriorSupp n it jd rd) :
    (applyLine n (smRowOf n it jd xip) rd).sum = ((List.range n).map rd).sum := by
  unfold applyLine
  rw [list_range_map_sum, list_range_map_sum]
  exact kick_line_finsum n it jd hit hn xip rd hjd hst hint

/-- Counterexample to conservation without `StencilIn`: mesh 4, linear interpolation, row
    `jd = 3` (displacement +1 cell), fractional part 1/2.  `updateSM` zeroes the second
    table entry (its table index `jd+1 = 4` is not `< n`), so the unit impulse at cell 2 --
    whose two destination cells 1 and 0 are inside the grid -- arrives as 1/2 only. -/
theorem edge_row_loses_charge :
    applyLine 4 (smRowOf 4 2 3 (1 / 2 : α)) (fun s => if s = 2 then 1 else 0)
      = [0, 1 / 2, 0, 0] := by
  have h := fun y hy => applyCell_smRow_trunc 4 2 3 (by norm_num) (by norm_num) (by norm_num)
    (1 / 2 : α) (fun s => if s = 2 then 1 else 0) y hy
  unfold applyLine
  simp only [List.range_succ, List.range_zero, List.nil_append, List.cons_append,
    List.map_cons, List.map_nil]
  rw [h 0 (by norm_num), h 1 (by norm_num), h 2 (by norm_num), h 3 (by norm_num)]
  simp [List.range_succ, wTrunc, zext, coeff]
  norm_num

/-- same row, constant data 1: destination cell 0 gets 1/2, not 1 -/
theorem edge_row_const :
    applyCell 4 (smRowOf 4 2 3 (1 / 2 : α)) (fun _ => 1) 0 = 1 / 2 := by
  rw [applyCell_smRow_trunc 4 2 3 (by norm_num) (by norm_num) (by norm_num) _ _ 0 (by norm_num)]
  simp [List.range_succ, wTrunc, zext, coeff]
  norm_num

omit [CharZero α] in
theorem grid_sum (n nb : Nat) (data : Nat → α) :
    ((List.range (nb * n * n)).map data).sum
      = ∑ b ∈ range nb, ∑ x ∈ range n, ∑ s ∈ range n, data (b * n * n + x * n + s) := by
  rw [list_range_map_sum, sum_range_mul_block (nb * n) n, sum_range_mul_block nb n]
  apply Finset.sum_congr rfl; intro b _
  apply Finset.sum_congr rfl; intro x _
  apply Finset.sum_congr rfl; intro s _
  congr 1; ring

omit [CharZero α] in
theorem applyY_sum (n nb lb : Nat) (tabs : Nat → List (Hi α)) (data : Nat → α) :
    (applyY n nb lb tabs data).sum
      = ∑ b ∈ range nb, ∑ x ∈ range n, ∑ y ∈ range n,
          applyCell n (tabs (min b lb * n + x)) (fun s => data (b * n * n + x * n + s)) y := by
  unfold applyY applyLine
  rw [list_range_flatMap_sum]
  apply Finset.sum_congr rfl; intro b _
  rw [list_range_flatMap_sum]
  apply Finset.sum_congr rfl; intro x _
  rw [list_range_map_sum]

omit [CharZero α] in
theorem applyX_sum (n nb : Nat) (tabs : Nat → List (Hi α)) (data : Nat → α) :
    (applyX n nb tabs data).sum
      = ∑ b ∈ range nb, ∑ y ∈ range n, ∑ x ∈ range n,
          applyCell n (tabs y) (fun s => data (b * n * n + s * n + y)) x := by
  unfold applyX
  rw [list_range_flatMap_sum]
  apply Finset.sum_congr rfl; intro b _
  rw [list_range_flatMap_sum, Finset.sum_comm]
  apply Finset.sum_congr rfl; intro x _
  rw [list_range_map_sum]

theorem applyY_conserves' (n nb lb it : Nat) (hit : it = 1 ∨ it = 2 ∨ it = 3 ∨ it = 4)
    (hn : n < 2 ^ 31) (rows : Nat → Nat × α) (data : Nat → α)
    (hint : ∀ b, b < nb → ∀ x, x < n →
      (rows (min b lb * n + x)).1 < n ∧ StencilIn n it (rows (min b lb * n + x)).1 ∧
      InteriorSupp n it (rows (min b lb * n + x)).1 (fun s => data (b * n * n + x * n + s))) :
    (applyY n nb lb (fun r => smRowOf n it (rows r).1 (rows r).2) data).sum
      = ((List.range (nb * n * n)).map data).sum := by
  rw [applyY_sum, grid_sum]
  apply Finset.sum_congr rfl; intro b hb
  apply Finset.sum_congr rfl; intro x hx
  obtain ⟨h1, h2, h3⟩ := hint b (mem_range.mp hb) x (mem_range.mp hx)
  exact kick_line_finsum n it _ hit hn _ _ h1 h2 h3

theorem applyX_conserves' (n nb it : Nat) (hit : it = 1 ∨ it = 2 ∨ it = 3 ∨ it = 4)
    (hn : n < 2 ^ 31) (rows : Nat → Nat × α) (data : Nat → α)
    (hint : ∀ b, b < nb → ∀ y, y < n →
      (rows y).1 < n ∧ StencilIn n it (rows y).1 ∧
      InteriorSupp n it (rows y).1 (fun s => data (b * n * n + s * n + y))) :
    (applyX n nb (fun r => smRowOf n it (rows r).1 (rows r).2) data).sum
      = ((List.range (nb * n * n)).map data).sum := by
  rw [applyX_sum, grid_sum]
  apply Finset.sum_congr rfl; intro b hb
  rw [Finset.sum_comm (f := fun x s => data (b * n * n + x * n + s))]
  apply Finset.sum_congr rfl; intro y hy
  obtain ⟨h1, h2, h3⟩ := hint b (mem_range.mp hb) y (mem_range.mp hy)
  exact kick_line_finsum n it _ hit hn _ _ h1 h2 h3

end Conserve

/-! ### bunch-wise action -/
section Blocks
variable {α : Type} [Field α]

theorem applyLine_congr (n : Nat) (tab : List (Hi α)) (rd rd' : Nat → α)
    (h : ∀ s, s < n → rd s = rd' s) : applyLine n tab rd = applyLine n tab rd' := by
  unfold applyLine
  apply List.map_congr_left
  intro y _
  exact applyCell_congr n tab rd rd' y h

theorem applyY_single (n : Nat) (tabs : Nat → List (Hi α)) (base : Nat) (data : Nat → α) :
    applyY n 1 0 (fun r => tabs (base + r)) data
      = (List.range n).flatMap fun x =>
          applyLine n (tabs (base + x)) (fun s => data (x * n + s)) := by
  simp [applyY, List.range_one]

theorem applyY_blockwise' (n nb lb : Nat) (tabs : Nat → List (Hi α)) (data : Nat → α) :
    applyY n nb lb tabs data
      = (List.range nb).flatMap fun b =>
          applyY n 1 0 (fun r => tabs (min b lb * n + r)) (fun i => data (b * n * n + i)) := by
  simp only [applyY_single]
  unfold applyY
  simp only [Nat.add_assoc]

theorem applyX_blockwise' (n nb : Nat) (tabs : Nat → List (Hi α)) (data : Nat → α) :
    applyX n nb tabs data
      = (List.range nb).flatMap fun b =>
          applyX n 1 tabs (fun i => data (b * n * n + i)) := by
  simp [applyX, List.range_one, Nat.add_assoc]

theorem applyY_single_length (n : Nat) (tabs : Nat → List (Hi α)) (base : Nat) (data : Nat → α) :
    (applyY n 1 0 (fun r => tabs (base + r)) data).length = n * n := by
  rw [applyY_single]
  simp [List.length_flatMap, applyLine]

theorem applyY_single_congr (n : Nat) (tabs : Nat → List (Hi α)) (base1 base2 : Nat)
    (d1 d2 : Nat → α)
    (hdata : ∀ i, i < n * n → d1 i = d2 i)
    (htab : ∀ x, x < n → tabs (base1 + x) = tabs (base2 + x)) :
    applyY n 1 0 (fun r => tabs (base1 + r)) d1 = applyY n 1 0 (fun r => tabs (base2 + r)) d2 := by
  rw [applyY_single, applyY_single]
  apply List.flatMap_congr
  intro x hx
  rw [List.mem_range] at hx
  rw [htab x hx]
  apply applyLine_congr
  intro s hs
  apply hdata
  calc x * n + s < x * n + n := by omega
    _ = (x + 1) * n := by ring
    _ ≤ n * n := Nat.mul_le_mul_right n hx
end Blocks

end Inovesa
