/- helper lemmas about the program-options model -/
import InovesaModel.Model.Options
import Batteries.Data.String.Lemmas
namespace Inovesa
open Gen

/-! ### finite-map lemmas for `VM` -/

theorem vmFind_nil (k : String) : vmFind [] k = none := rfl

theorem vmFind_cons (kv : String × VMEntry) (r : VM) (k : String) :
    vmFind (kv :: r) k = if kv.1 = k then some kv.2 else vmFind r k := by
  unfold vmFind
  by_cases h : kv.1 = k <;> simp [h]

theorem vmFind_insert (vm : VM) (k k' : String) (e : VMEntry) :
    vmFind (vmInsert vm k e) k' = if k' = k then some e else vmFind vm k' := by
  induction vm with
  | nil =>
    simp only [vmInsert, vmFind_cons, vmFind_nil]
    by_cases h : k = k' <;> simp [h, eq_comm]
  | cons hd r ih =>
    obtain ⟨k0, e0⟩ := hd
    simp only [vmInsert]
    by_cases h1 : k = k0
    · subst h1
      simp only [if_true, vmFind_cons]
      by_cases h : k = k' <;> simp [h, eq_comm]
    · simp only [h1, if_false]
      by_cases h2 : k < k0
      · simp only [h2, if_true, vmFind_cons]
        by_cases h : k = k' <;> simp [h, eq_comm]
      · simp only [h2, if_false, vmFind_cons, ih]
        by_cases h : k0 = k'
        · subst h; simp [Ne.symm h1]
        · simp [h]

def storeStep (desc : List OptSpec) (final : List String) (st : VM × List String)
    (kv : String × List String) : Except PErr (VM × List String) :=
  let (vm, nf) := st
  let (k, vals) := kv
  if final.contains k then .ok (vm, nf)
  else
    match findOpt desc k with
    | none => .error (.unknownOption k)
    | some o =>
      if !(vals.all (wellFormed o.ty)) then .error (.invalidValue k)
      else
        let old := match vmFind vm k with
          | some e => if e.defaulted then [] else e.toks
          | none => []
        if !old.isEmpty && o.ty ≠ .vecf32 && nf.contains k then .error (.multipleOccurrences k)
        else .ok (vmInsert vm k { toks := (if nf.contains k then old else []) ++ vals, defaulted := false },
                  if nf.contains k then nf else nf ++ [k])

def storeDefaults (desc : List OptSpec) (vm : VM) : VM :=
  desc.foldl (fun vm o =>
    match o.default, vmFind vm o.name with
    | some d, none => vmInsert vm o.name { toks := [d], defaulted := true }
    | _, _ => vm) vm

theorem storeParsed_eq (desc : List OptSpec) (p : Parsed) (vm : VM) (final : List String) :
    storeParsed desc p vm final =
      match p.foldlM (storeStep desc final) (vm, []) with
      | .error e => .error e
      | .ok r => .ok (storeDefaults desc r.1, final ++ r.2) := by
  unfold storeParsed
  show (do let r ← p.foldlM (storeStep desc final) (vm, []); _) = _
  cases p.foldlM (storeStep desc final) (vm, []) <;> rfl

theorem storeStep_ok {desc : List OptSpec} {final : List String} {vm : VM} {nf : List String}
    {k1 : String} {vals : List String} {vm' : VM} {nf' : List String}
    (h : storeStep desc final (vm, nf) (k1, vals) = .ok (vm', nf')) :
    (final.contains k1 = true ∧ vm' = vm ∧ nf' = nf) ∨
    (final.contains k1 = false ∧ ∃ o, findOpt desc k1 = some o ∧ vals.all (wellFormed o.ty) = true ∧
      ∃ toks, vm' = vmInsert vm k1 ⟨toks, false⟩ ∧ (nf.contains k1 = false → toks = vals) ∧
        nf' = if nf.contains k1 then nf else nf ++ [k1]) := by
  simp only [storeStep] at h
  by_cases hf : final.contains k1 = true
  · simp only [hf, if_true, Except.ok.injEq, Prod.mk.injEq] at h
    exact .inl ⟨hf, h.1.symm, h.2.symm⟩
  · rw [if_neg hf] at h
    right
    refine ⟨by simpa using hf, ?_⟩
    cases ho : findOpt desc k1 with
    | none => simp [ho] at h
    | some o =>
      simp only [ho] at h
      generalize (match vmFind vm k1 with
        | some e => if e.defaulted = true then [] else e.toks
        | none => []) = old at h
      by_cases hw : (!vals.all (wellFormed o.ty)) = true
      · rw [if_pos hw] at h; cases h
      · rw [if_neg hw] at h
        split at h
        · cases h
        · simp only [Except.ok.injEq, Prod.mk.injEq] at h
          refine ⟨o, rfl, by simpa using hw, _, h.1.symm, ?_, h.2.symm⟩
          intro hn
          rw [hn]; simp


theorem storeFold_spec (desc : List OptSpec) (final : List String) (k : String) :
    ∀ (p : Parsed) (vm : VM) (nf : List String) (vm' : VM) (nf' : List String),
      p.foldlM (storeStep desc final) (vm, nf) = .ok (vm', nf') →
      (nf'.contains k = (nf.contains k || (!final.contains k && (p.find? (·.1 = k)).isSome))) ∧
      (final.contains k = true ∨ p.filter (·.1 = k) = [] → vmFind vm' k = vmFind vm k) ∧
      (final.contains k = false → nf.contains k = false → ∀ vals,
          p.filter (·.1 = k) = [(k, vals)] → vmFind vm' k = some ⟨vals, false⟩) := by
  intro p
  induction p with
  | nil =>
    intro vm nf vm' nf' h
    simp only [List.foldlM_nil, pure, Except.pure, Except.ok.injEq, Prod.mk.injEq] at h
    obtain ⟨rfl, rfl⟩ := h
    simp
  | cons kv t ih =>
    intro vm nf vm' nf' h
    obtain ⟨k1, vals1⟩ := kv
    rw [List.foldlM_cons] at h
    cases hstep : storeStep desc final (vm, nf) (k1, vals1) with
    | error e => rw [hstep] at h; cases h
    | ok st =>
      obtain ⟨vm1, nf1⟩ := st
      rw [hstep] at h
      replace h : t.foldlM (storeStep desc final) (vm1, nf1) = .ok (vm', nf') := h
      obtain ⟨ih1, ih2, ih3⟩ := ih vm1 nf1 vm' nf' h
      rcases storeStep_ok hstep with ⟨hf, rfl, rfl⟩ | ⟨hf, o, ho, hw, toks, rfl, htoks, rfl⟩
      · by_cases hk : k1 = k
        · subst hk
          refine ⟨?_, ?_, ?_⟩
          · rw [ih1, hf]; simp
          · intro _; exact ih2 (.inl hf)
          · intro hf'; rw [hf] at hf'; cases hf'
        · refine ⟨?_, ?_, ?_⟩
          · rw [ih1]; simp [hk]
          · intro h'; apply ih2
            rcases h' with h' | h'
            · exact .inl h'
            · right; simpa [List.filter_cons, hk] using h'
          · intro h1 h2 vals h3; apply ih3 h1 h2
            simpa [List.filter_cons, hk] using h3
      · by_cases hk : k1 = k
        · subst hk
          have hnf1 : (if nf.contains k1 = true then nf else nf ++ [k1]).contains k1 = true := by
            split <;> simp_all
          refine ⟨?_, ?_, ?_⟩
          · rw [ih1, hnf1, hf]; simp
          · intro h'
            rcases h' with h' | h'
            · rw [hf] at h'; cases h'
            · simp at h'
          · intro _ h2 vals h3
            simp only [List.filter_cons, decide_true, if_true, List.cons.injEq, Prod.mk.injEq,
              true_and] at h3
            rw [ih2 (.inr h3.2), vmFind_insert, if_pos rfl, htoks h2, h3.1]
        · have hnf1 : (if nf.contains k1 = true then nf else nf ++ [k1]).contains k = nf.contains k := by
            split <;> simp [Ne.symm hk]
          have hv : vmFind (vmInsert vm k1 ⟨toks, false⟩) k = vmFind vm k := by
            rw [vmFind_insert, if_neg (Ne.symm hk)]
          refine ⟨?_, ?_, ?_⟩
          · rw [ih1, hnf1]; simp [hk]
          · intro h'; rw [← hv]; apply ih2
            rcases h' with h' | h'
            · exact .inl h'
            · right; simpa [List.filter_cons, hk] using h'
          · intro h1 h2 vals h3; apply ih3 h1 (by rw [hnf1]; exact h2)
            simpa [List.filter_cons, hk] using h3
/-- the default entry the description provides for key `k` -/
def descDefault (desc : List OptSpec) (k : String) : Option VMEntry :=
  ((desc.find? (fun o => o.name = k ∧ o.default.isSome)).bind (·.default)).map
    (fun d => { toks := [d], defaulted := true })

theorem storeDefaults_spec (desc : List OptSpec) (k : String) : ∀ (vm : VM),
    vmFind (storeDefaults desc vm) k =
      match vmFind vm k with
      | some e => some e
      | none => descDefault desc k := by
  induction desc with
  | nil => intro vm; cases h : vmFind vm k <;> simp [storeDefaults, descDefault, h]
  | cons o t ih =>
    intro vm
    have hstep : storeDefaults (o :: t) vm = storeDefaults t
        (match o.default, vmFind vm o.name with
          | some d, none => vmInsert vm o.name { toks := [d], defaulted := true }
          | _, _ => vm) := rfl
    rw [hstep, ih]
    cases hd : o.default with
    | none =>
      have : descDefault (o :: t) k = descDefault t k := by
        simp [descDefault, hd]
      simp only [this]
    | some d =>
      cases hv : vmFind vm o.name with
      | some e0 =>
        simp only
        by_cases hk : o.name = k
        · subst hk; simp [hv]
        · have : descDefault (o :: t) k = descDefault t k := by
            simp [descDefault, hk]
          simp only [this]
      | none =>
        simp only [vmFind_insert]
        by_cases hk : o.name = k
        · subst hk
          simp [hv, descDefault, hd]
        · have : descDefault (o :: t) k = descDefault t k := by
            simp [descDefault, hk]
          simp only [this, if_neg (Ne.symm hk)]

theorem storeParsed_inv {desc : List OptSpec} {p : Parsed} {vm : VM} {final : List String}
    {vm' : VM} {final' : List String} (h : storeParsed desc p vm final = .ok (vm', final')) :
    ∃ vm1 nf1, p.foldlM (storeStep desc final) (vm, []) = .ok (vm1, nf1) ∧
      vm' = storeDefaults desc vm1 ∧ final' = final ++ nf1 := by
  rw [storeParsed_eq] at h
  cases hf : p.foldlM (storeStep desc final) (vm, []) with
  | error e => rw [hf] at h; cases h
  | ok r =>
    rw [hf] at h
    simp only [Except.ok.injEq, Prod.mk.injEq] at h
    exact ⟨r.1, r.2, rfl, h.1.symm, h.2.symm⟩

/-- `po::store`, key-wise (no global uniqueness of keys needed) -/
theorem storeParsed_find {desc : List OptSpec} {p : Parsed} {vm : VM} {final : List String}
    {vm' : VM} {final' : List String} (h : storeParsed desc p vm final = .ok (vm', final'))
    (k : String) :
    (final'.contains k = (final.contains k || (p.find? (·.1 = k)).isSome)) ∧
    (final.contains k = true ∨ p.filter (·.1 = k) = [] →
        vmFind vm' k = match vmFind vm k with
          | some e => some e
          | none => descDefault desc k) ∧
    (final.contains k = false → ∀ vals, p.filter (·.1 = k) = [(k, vals)] →
        vmFind vm' k = some ⟨vals, false⟩) := by
  obtain ⟨vm1, nf1, hf, rfl, rfl⟩ := storeParsed_inv h
  obtain ⟨h1, h2, h3⟩ := storeFold_spec desc final k p vm [] vm1 nf1 hf
  refine ⟨?_, ?_, ?_⟩
  · rw [List.contains_append, h1]
    cases final.contains k <;> simp
  · intro h'
    rw [storeDefaults_spec, h2 h']
  · intro hf' vals hv
    rw [storeDefaults_spec, h3 hf' rfl vals hv]

theorem filter_key_of_nodup {α : Type} : ∀ (p : List (String × α)) (k : String),
    (p.map (·.1)).Nodup →
    p.filter (·.1 = k) = match p.find? (·.1 = k) with
      | some kv => [kv]
      | none => [] := by
  intro p k
  induction p with
  | nil => intro _; rfl
  | cons kv t ih =>
    intro hn
    simp only [List.map_cons, List.nodup_cons] at hn
    by_cases hk : kv.1 = k
    · have : t.filter (·.1 = k) = [] := by
        rw [List.filter_eq_nil_iff]
        intro x hx hx'
        simp only [decide_eq_true_eq] at hx'
        apply hn.1
        rw [hk, ← hx']
        exact List.mem_map_of_mem hx
      simp [hk, this]
    · simp only [List.filter_cons, List.find?_cons, hk, decide_false]
      exact ih hn.2

theorem store_spec' (desc : List OptSpec) (p : Parsed) (vm : VM) (final : List String)
    (hp : (p.map (·.1)).Nodup) (vm' : VM) (final' : List String)
    (h : storeParsed desc p vm final = .ok (vm', final')) (k : String) :
    vmFind vm' k =
      (if final.contains k then
          (match vmFind vm k with
           | some e => some e
           | none => ((desc.find? (fun o => o.name = k ∧ o.default.isSome)).bind (·.default)).map
                        (fun d => { toks := [d], defaulted := true }))
       else match (p.find? (·.1 = k)).map (·.2) with
        | some vals => some { toks := vals, defaulted := false }
        | none =>
          (match vmFind vm k with
           | some e => some e
           | none => ((desc.find? (fun o => o.name = k ∧ o.default.isSome)).bind (·.default)).map
                        (fun d => { toks := [d], defaulted := true }))) ∧
    (∀ k, final'.contains k = (final.contains k || ((p.find? (·.1 = k)).map (·.2)).isSome)) := by
  refine ⟨?_, fun k' => ?_⟩
  · obtain ⟨-, h2, h3⟩ := storeParsed_find h k
    by_cases hf : final.contains k = true
    · rw [if_pos hf, h2 (.inl hf)]; rfl
    · rw [if_neg hf]
      have hfil := filter_key_of_nodup p k hp
      cases hfind : p.find? (·.1 = k) with
      | none =>
        rw [hfind] at hfil
        rw [h2 (.inr hfil)]; rfl
      | some kv =>
        rw [hfind] at hfil
        have hk : kv.1 = k := by simpa using List.find?_some hfind
        obtain ⟨k1, vals⟩ := kv
        simp only at hk; subst hk
        rw [h3 (by simpa using hf) vals hfil]; rfl
  · rw [(storeParsed_find h k').1]; simp

theorem storeStep_succeeds {desc : List OptSpec} {final : List String} (vm : VM) {nf : List String}
    {k1 : String} {vals : List String} {o : OptSpec} (ho : findOpt desc k1 = some o)
    (hw : vals.all (wellFormed o.ty) = true) (hn : nf.contains k1 = false) :
    ∃ vm1 nf1, storeStep desc final (vm, nf) (k1, vals) = .ok (vm1, nf1) ∧
      (nf1 = nf ∨ nf1 = nf ++ [k1]) := by
  by_cases hf : final.contains k1 = true
  · exact ⟨vm, nf, by simp only [storeStep, hf, if_true], .inl rfl⟩
  · refine ⟨vmInsert vm k1 ⟨vals, false⟩, nf ++ [k1], ?_, .inr rfl⟩
    simp only [storeStep, ho, hw, hn, if_neg hf]
    simp

theorem storeFold_succeeds (desc : List OptSpec) (final : List String) :
    ∀ (p : Parsed) (vm : VM) (nf : List String),
      (∀ kv ∈ p, ∃ o, findOpt desc kv.1 = some o ∧ kv.2.all (wellFormed o.ty) = true) →
      (p.map (·.1)).Nodup → (∀ kv ∈ p, nf.contains kv.1 = false) →
      ∃ r, p.foldlM (storeStep desc final) (vm, nf) = .ok r := by
  intro p
  induction p with
  | nil => intro vm nf _ _ _; exact ⟨_, rfl⟩
  | cons kv t ih =>
    intro vm nf hv hnd hnf
    obtain ⟨k1, vals⟩ := kv
    obtain ⟨o, ho, hw⟩ := hv (k1, vals) (List.mem_cons_self ..)
    obtain ⟨vm1, nf1, hs, hnf1⟩ := storeStep_succeeds (final := final) vm ho hw
      (hnf (k1, vals) (List.mem_cons_self ..))
    rw [List.foldlM_cons, hs]
    simp only [List.map_cons, List.nodup_cons] at hnd
    apply ih vm1 nf1 (fun kv h => hv kv (List.mem_cons_of_mem _ h)) hnd.2
    intro kv hkv
    have h1 := hnf kv (List.mem_cons_of_mem _ hkv)
    rcases hnf1 with rfl | rfl
    · exact h1
    · have : kv.1 ≠ k1 := fun he => hnd.1 (he ▸ List.mem_map_of_mem hkv)
      simp only [List.contains_append, h1, Bool.false_or]
      simpa using this

theorem storeParsed_succeeds (desc : List OptSpec) (final : List String) (p : Parsed) (vm : VM)
    (hv : ∀ kv ∈ p, ∃ o, findOpt desc kv.1 = some o ∧ kv.2.all (wellFormed o.ty) = true)
    (hnd : (p.map (·.1)).Nodup) :
    ∃ vm' final', storeParsed desc p vm final = .ok (vm', final') := by
  obtain ⟨r, hr⟩ := storeFold_succeeds desc final p vm [] hv hnd (by simp)
  rw [storeParsed_eq, hr]
  exact ⟨_, _, rfl⟩

theorem storeFold_keys (desc : List OptSpec) (final : List String) :
    ∀ (p : Parsed) (vm : VM) (nf : List String) (r : VM × List String),
      p.foldlM (storeStep desc final) (vm, nf) = .ok r →
      ∀ kv ∈ p, final.contains kv.1 = true ∨ (findOpt desc kv.1).isSome = true := by
  intro p
  induction p with
  | nil => intro _ _ _ _ kv hkv; cases hkv
  | cons kv t ih =>
    intro vm nf r h
    rw [List.foldlM_cons] at h
    cases hstep : storeStep desc final (vm, nf) kv with
    | error e => rw [hstep] at h; cases h
    | ok st =>
      rw [hstep] at h
      replace h : t.foldlM (storeStep desc final) (st.1, st.2) = .ok r := h
      intro kv' hkv'
      rcases List.mem_cons.1 hkv' with rfl | hkv'
      · obtain ⟨k1, vals⟩ := kv'
        obtain ⟨vm1, nf1⟩ := st
        rcases storeStep_ok hstep with ⟨hf, -, -⟩ | ⟨-, o, ho, -⟩
        · exact .inl hf
        · right; simp [ho]
      · exact ih _ _ _ h kv' hkv'

theorem storeParsed_keys {desc : List OptSpec} {p : Parsed} {vm : VM} {final : List String}
    {r : VM × List String} (h : storeParsed desc p vm final = .ok r) :
    ∀ kv ∈ p, final.contains kv.1 = true ∨ (findOpt desc kv.1).isSome = true := by
  obtain ⟨vm', final'⟩ := r
  obtain ⟨vm1, nf1, hf, -, -⟩ := storeParsed_inv h
  exact storeFold_keys desc final p vm [] _ hf

theorem storeFold_error (desc : List OptSpec) (final : List String) (k : String)
    (vals : List String) (o : OptSpec) (hf : final.contains k = false)
    (ho : findOpt desc k = some o) (hbad : vals.all (wellFormed o.ty) = false) :
    ∀ (p : Parsed) (st : VM × List String), (k, vals) ∈ p →
      ∃ e, p.foldlM (storeStep desc final) st = .error e := by
  intro p
  induction p with
  | nil => intro _ h; cases h
  | cons kv t ih =>
    intro st hmem
    rw [List.foldlM_cons]
    cases hstep : storeStep desc final st kv with
    | error e => exact ⟨e, rfl⟩
    | ok st1 =>
      rcases List.mem_cons.1 hmem with rfl | hmem
      · obtain ⟨vm, nf⟩ := st
        simp only [storeStep, hf, ho, hbad] at hstep
        cases hstep
      · exact ih st1 hmem

theorem storeParsed_malformed (desc : List OptSpec) (p : Parsed) (vm : VM) (final : List String)
    (k : String) (vals : List String) (o : OptSpec) (hk : (k, vals) ∈ p)
    (hf : final.contains k = false) (ho : findOpt desc k = some o)
    (hbad : vals.all (wellFormed o.ty) = false) :
    ∃ e, storeParsed desc p vm final = .error e := by
  obtain ⟨e, he⟩ := storeFold_error desc final k vals o hf ho hbad p (vm, []) hk
  rw [storeParsed_eq, he]
  exact ⟨e, rfl⟩
/-! ### sortedness of the variables map -/

def VMSorted (vm : VM) : Prop := (vm.map (·.1)).Pairwise (· < ·)

theorem string_lt_of_not_lt_of_ne {a b : String} (h1 : ¬ a = b) (h2 : ¬ a < b) : b < a := by
  have h3 : b ≤ a := String.not_lt.1 h2
  rcases Decidable.em (b < a) with h | h
  · exact h
  · exact absurd (String.le_antisymm (String.not_lt.1 h) h3) h1

theorem vmInsert_keys (vm : VM) (k : String) (e : VMEntry) :
    ∀ x ∈ (vmInsert vm k e).map (·.1), x = k ∨ x ∈ vm.map (·.1) := by
  induction vm with
  | nil => intro x hx; simp [vmInsert] at hx; exact .inl hx
  | cons hd r ih =>
    obtain ⟨k0, e0⟩ := hd
    intro x hx
    simp only [vmInsert] at hx
    split at hx
    · simp at hx ⊢; rcases hx with h | h
      · exact .inl h
      · exact .inr (.inr h)
    · split at hx
      · simp at hx ⊢; exact hx
      · simp only [List.map_cons, List.mem_cons] at hx ⊢
        rcases hx with h | h
        · exact .inr (.inl h)
        · rcases ih x h with h | h
          · exact .inl h
          · exact .inr (.inr h)

theorem vmInsert_sorted (vm : VM) (k : String) (e : VMEntry) (h : VMSorted vm) :
    VMSorted (vmInsert vm k e) := by
  unfold VMSorted at *
  induction vm with
  | nil => simp [vmInsert]
  | cons hd r ih =>
    obtain ⟨k0, e0⟩ := hd
    simp only [List.map_cons, List.pairwise_cons] at h
    simp only [vmInsert]
    split
    · subst_vars; simpa using h
    · rename_i hne
      split
      · rename_i hlt
        simp only [List.map_cons, List.pairwise_cons, List.mem_cons]
        refine ⟨?_, h⟩
        rintro x (rfl | hx)
        · exact hlt
        · exact String.lt_trans hlt (h.1 x hx)
      · rename_i hnlt
        have hlt : k0 < k := string_lt_of_not_lt_of_ne hne hnlt
        simp only [List.map_cons, List.pairwise_cons]
        refine ⟨?_, ih h.2⟩
        intro x hx
        rcases vmInsert_keys r k e x hx with rfl | hx
        · exact hlt
        · exact h.1 x hx

theorem VMSorted.nodup {vm : VM} (h : VMSorted vm) : (vm.map (·.1)).Nodup :=
  List.Pairwise.imp (fun hab => String.ne_of_lt hab) h

theorem vmSorted_nil : VMSorted [] := List.Pairwise.nil

theorem storeFold_sorted (desc : List OptSpec) (final : List String) :
    ∀ (p : Parsed) (vm : VM) (nf : List String) (r : VM × List String),
      p.foldlM (storeStep desc final) (vm, nf) = .ok r → VMSorted vm → VMSorted r.1 := by
  intro p
  induction p with
  | nil =>
    intro vm nf r h hs
    simp only [List.foldlM_nil, pure, Except.pure, Except.ok.injEq] at h
    subst h; exact hs
  | cons kv t ih =>
    intro vm nf r h hs
    rw [List.foldlM_cons] at h
    cases hstep : storeStep desc final (vm, nf) kv with
    | error e => rw [hstep] at h; cases h
    | ok st =>
      rw [hstep] at h
      replace h : t.foldlM (storeStep desc final) (st.1, st.2) = .ok r := h
      apply ih _ _ _ h
      obtain ⟨k1, vals⟩ := kv
      obtain ⟨vm1, nf1⟩ := st
      rcases storeStep_ok hstep with ⟨-, rfl, -⟩ | ⟨-, o, -, -, toks, rfl, -, -⟩
      · exact hs
      · exact vmInsert_sorted _ _ _ hs

theorem storeDefaults_sorted (desc : List OptSpec) : ∀ (vm : VM), VMSorted vm →
    VMSorted (storeDefaults desc vm) := by
  induction desc with
  | nil => intro vm h; exact h
  | cons o t ih =>
    intro vm h
    have hstep : storeDefaults (o :: t) vm = storeDefaults t
        (match o.default, vmFind vm o.name with
          | some d, none => vmInsert vm o.name { toks := [d], defaulted := true }
          | _, _ => vm) := rfl
    rw [hstep]
    apply ih
    split
    · exact vmInsert_sorted _ _ _ h
    · exact h

theorem storeParsed_sorted {desc : List OptSpec} {p : Parsed} {vm : VM} {final : List String}
    {vm' : VM} {final' : List String} (h : storeParsed desc p vm final = .ok (vm', final'))
    (hs : VMSorted vm) : VMSorted vm' := by
  obtain ⟨vm1, nf1, hf, rfl, -⟩ := storeParsed_inv h
  exact storeDefaults_sorted _ _ (storeFold_sorted desc final p vm [] _ hf hs)

/-! ### bound variables and `notify` -/

theorem varGet_nil (k : String) : varGet [] k = none := rfl

theorem varGet_cons (kv : String × List String) (r : Vars) (k : String) :
    varGet (kv :: r) k = if kv.1 = k then some kv.2 else varGet r k := by
  unfold varGet
  by_cases h : kv.1 = k <;> simp [h]

theorem varGet_varSet (vs : Vars) (k k' : String) (v : List String) :
    varGet (varSet vs k v) k' = if k' = k then some v else varGet vs k' := by
  unfold varSet
  induction vs with
  | nil =>
    simp only [List.any_nil, Bool.false_eq_true, if_false, List.nil_append, varGet_cons, varGet_nil]
    by_cases h : k = k' <;> simp [h, eq_comm]
  | cons hd r ih =>
    by_cases h0 : hd.1 = k
    · simp only [List.any_cons, h0, decide_true, Bool.true_or, if_true, List.map_cons, varGet_cons]
      by_cases h : k = k'
      · simp [h]
      · simp only [h, if_false, Ne.symm h]
        by_cases hr : r.any (·.1 = k) = true
        · rw [if_pos hr] at ih; rw [ih, if_neg (Ne.symm h)]
        · rw [if_neg hr] at ih
          have : r.map (fun kv => if kv.1 = k then (k, v) else kv) = r := by
            rw [List.map_congr_left (g := id)]
            · simp
            · intro a ha
              have : ¬ a.1 = k := fun hk => hr (List.any_eq_true.2 ⟨a, ha, by simpa using hk⟩)
              simp [this]
          rw [this]
    · simp only [List.any_cons, h0, decide_false, Bool.false_or]
      by_cases hr : r.any (·.1 = k) = true
      · rw [if_pos hr] at ih ⊢
        simp only [List.map_cons, h0, if_false, varGet_cons, ih]
        by_cases h : hd.1 = k'
        · have : k' ≠ k := h ▸ h0
          simp [h, this]
        · simp [h]
      · rw [if_neg hr] at ih ⊢
        simp only [List.cons_append, varGet_cons, ih]
        by_cases h : hd.1 = k'
        · have : k' ≠ k := h ▸ h0
          simp [h, this]
        · simp [h]

theorem notifyVM_cons (decls : List OptSpec) (kv : String × VMEntry) (vm : VM) (vars : Vars) :
    notifyVM decls (kv :: vm) vars = notifyVM decls vm
      (match decls.find? (·.name = kv.1) with
        | some o => if o.var.isEmpty then vars else varSet vars o.var kv.2.toks
        | none => vars) := rfl

theorem notify_unchanged (decls : List OptSpec) (v n : String)
    (H1 : ∀ o' ∈ decls, o'.var = v → o'.name = n) :
    ∀ (vm : VM) (vars : Vars), (∀ kv ∈ vm, kv.1 ≠ n) →
      varGet (notifyVM decls vm vars) v = varGet vars v := by
  intro vm
  induction vm with
  | nil => intro vars _; rfl
  | cons kv r ih =>
    intro vars hk
    rw [notifyVM_cons, ih _ (fun kv' h => hk kv' (List.mem_cons_of_mem _ h))]
    cases hf : decls.find? (·.name = kv.1) with
    | none => rfl
    | some o' =>
      simp only
      split
      · rfl
      · rw [varGet_varSet, if_neg]
        intro hv
        have hn : o'.name = kv.1 := by simpa using List.find?_some hf
        exact hk kv (List.mem_cons_self ..) (hn ▸ H1 o' (List.mem_of_find?_eq_some hf) hv.symm)

theorem notify_spec' (decls : List OptSpec) (v n : String) (o1 : OptSpec)
    (H1 : ∀ o' ∈ decls, o'.var = v → o'.name = n)
    (H2 : decls.find? (·.name = n) = some o1) (hv1 : o1.var = v) (hv : v ≠ "") :
    ∀ (vm : VM) (vars : Vars) (e : VMEntry), VMSorted vm → vmFind vm n = some e →
      varGet (notifyVM decls vm vars) v = some e.toks := by
  intro vm
  induction vm with
  | nil => intro vars e _ h; cases h
  | cons kv r ih =>
    intro vars e hs hfind
    rw [vmFind_cons] at hfind
    have hs' : VMSorted r := by
      unfold VMSorted at *; simp only [List.map_cons, List.pairwise_cons] at hs; exact hs.2
    rw [notifyVM_cons]
    by_cases hk : kv.1 = n
    · rw [if_pos hk] at hfind
      cases hfind
      rw [notify_unchanged decls v n H1]
      · rw [hk, H2]
        simp only [hv1]
        rw [if_neg (by rw [String.isEmpty_iff]; exact hv), varGet_varSet, if_pos rfl]
      · intro kv' hkv'
        unfold VMSorted at hs; simp only [List.map_cons, List.pairwise_cons] at hs
        rw [← hk]
        exact (String.ne_of_lt (hs.1 _ (List.mem_map_of_mem hkv'))).symm
    · rw [if_neg hk] at hfind
      exact ih _ e hs' hfind
/-! ### the structure of `parseOptions` -/

def aliasStep (vm : VM) (ab : String × String) : VM :=
  match vmFind vm ab.1, vmFind vm ab.2 with
  | some a, some s => if s.defaulted then vmInsert vm ab.2 { s with toks := a.toks } else vm
  | _, _ => vm

def aliasFold (aliases : List (String × String)) (vm : VM) : VM := aliases.foldl aliasStep vm

def fixVars (vars : Vars) : Vars :=
  let v1 := if (varGet vars "_outfile") = some ["/dev/null"] then varSet vars "_outfile" [""] else vars
  if (varGet v1 "_startdistfile") = some ["/dev/null"] then varSet v1 "_startdistfile" [""] else v1

def cfgNameOf (vars : Vars) : String := ((varGet vars "_configfile").getD []).headD ""

/-- what `parse` does after the command line has been stored -/
def parseRest (decls : List OptSpec) (cfgG : List String) (aliases : List (String × String))
    (cfgFile : String → Option (List String)) (vm : VM) (final : List String) : Outcome :=
  let vars := notifyVM decls vm initialVars
  if ["help", "copyright", "version", "buildinfo"].any (fun k => (vmFind vm k).isSome) then .norun
  else
    if cfgNameOf vars = "/dev/null" then .run vm (fixVars (varSet vars "_configfile" [""]))
    else if (cfgNameOf vars).isEmpty then .run vm (fixVars vars)
    else
      match cfgFile (cfgNameOf vars) with
      | some lines =>
        match parseCfg (described decls cfgG) lines >>= fun p => storeParsed (described decls cfgG) p vm final with
        | .error e => .error e
        | .ok (vm, _) => .run (aliasFold aliases vm) (fixVars (notifyVM decls (aliasFold aliases vm) vars))
      | none => if cfgNameOf vars ≠ "default.cfg" then .norun else .run vm (fixVars vars)

theorem parseOptions_eq (decls : List OptSpec) (cliG cfgG : List String)
    (aliases : List (String × String)) (args : List String)
    (cfgFile : String → Option (List String)) :
    parseOptions decls cliG cfgG aliases args cfgFile =
      match parseCLI (described decls cliG) args >>= fun p => storeParsed (described decls cliG) p [] [] with
      | .error e => .error e
      | .ok (vm, final) => parseRest decls cfgG aliases cfgFile vm final := rfl

theorem parseOptions_cli_error {decls : List OptSpec} {cliG cfgG : List String}
    {aliases : List (String × String)} {args : List String}
    {cfgFile : String → Option (List String)} {e : PErr}
    (h : parseCLI (described decls cliG) args = .error e) :
    parseOptions decls cliG cfgG aliases args cfgFile = .error e := by
  rw [parseOptions_eq, h]; rfl

theorem parseOptions_of_cli {decls : List OptSpec} {cliG cfgG : List String}
    {aliases : List (String × String)} {args : List String}
    {cfgFile : String → Option (List String)} {pc : Parsed}
    (h : parseCLI (described decls cliG) args = .ok pc) :
    parseOptions decls cliG cfgG aliases args cfgFile =
      match storeParsed (described decls cliG) pc [] [] with
      | .error e => .error e
      | .ok (vm, final) => parseRest decls cfgG aliases cfgFile vm final := by
  rw [parseOptions_eq, h]; rfl

/-- a run implies the command line was stored successfully and `parseRest` ran -/
theorem parseOptions_run_inv {decls : List OptSpec} {cliG cfgG : List String}
    {aliases : List (String × String)} {args : List String}
    {cfgFile : String → Option (List String)} {pc : Parsed} {vm : VM} {vars : Vars}
    (h : parseCLI (described decls cliG) args = .ok pc)
    (hrun : parseOptions decls cliG cfgG aliases args cfgFile = .run vm vars) :
    ∃ vm1 final1, storeParsed (described decls cliG) pc [] [] = .ok (vm1, final1) ∧
      parseRest decls cfgG aliases cfgFile vm1 final1 = .run vm vars := by
  rw [parseOptions_of_cli h] at hrun
  cases hs : storeParsed (described decls cliG) pc [] [] with
  | error e => rw [hs] at hrun; cases hrun
  | ok r => rw [hs] at hrun; exact ⟨r.1, r.2, rfl, hrun⟩

theorem parseRest_cfg_inv {decls : List OptSpec} {cfgG : List String}
    {aliases : List (String × String)} {cfgFile : String → Option (List String)}
    {vm1 : VM} {final1 : List String} {c : String} {lines : List String} {pf : Parsed}
    {vm : VM} {vars : Vars}
    (hc : cfgNameOf (notifyVM decls vm1 initialVars) = c) (hne : c ≠ "/dev/null") (hne' : c ≠ "")
    (hfile : cfgFile c = some lines) (hcfg : parseCfg (described decls cfgG) lines = .ok pf)
    (hrun : parseRest decls cfgG aliases cfgFile vm1 final1 = .run vm vars) :
    ∃ vm2 f2, storeParsed (described decls cfgG) pf vm1 final1 = .ok (vm2, f2) ∧
      vm = aliasFold aliases vm2 := by
  unfold parseRest at hrun
  simp only [hc] at hrun
  by_cases hany : (["help", "copyright", "version", "buildinfo"].any
      (fun k => (vmFind vm1 k).isSome)) = true
  · rw [if_pos hany] at hrun; cases hrun
  · rw [if_neg hany, if_neg hne, if_neg (by rw [String.isEmpty_iff]; exact hne'), hfile] at hrun
    simp only [hcfg, bind, Except.bind] at hrun
    cases hs : storeParsed (described decls cfgG) pf vm1 final1 with
    | error e => rw [hs] at hrun; cases hrun
    | ok r =>
      rw [hs] at hrun
      simp only [Outcome.run.injEq] at hrun
      exact ⟨r.1, r.2, rfl, hrun.1.symm⟩

theorem parseRest_nofile {decls : List OptSpec} {cfgG : List String}
    {aliases : List (String × String)} {cfgFile : String → Option (List String)}
    {vm1 : VM} {final1 : List String} {c : String}
    (hc : cfgNameOf (notifyVM decls vm1 initialVars) = c) (hne : c ≠ "/dev/null") (hne' : c ≠ "")
    (hd : c ≠ "default.cfg") (hfile : cfgFile c = none) :
    parseRest decls cfgG aliases cfgFile vm1 final1 = .norun := by
  unfold parseRest
  simp only [hc]
  by_cases hany : (["help", "copyright", "version", "buildinfo"].any
      (fun k => (vmFind vm1 k).isSome)) = true
  · rw [if_pos hany]
  · rw [if_neg hany, if_neg hne, if_neg (by rw [String.isEmpty_iff]; exact hne'), hfile]
    exact if_pos hd

/-! ### facts about the generated table -/

theorem decl_var_name : ∀ o ∈ optionDecls, ∀ o' ∈ optionDecls,
    o.var ≠ "" → o.var ≠ "_hi" → o.var = o'.var → o.name = o'.name := by decide +kernel

theorem decl_name_var : ∀ o ∈ optionDecls, ∀ o' ∈ optionDecls,
    o.name = o'.name → o.var = o'.var ∧ o.ty = o'.ty := by decide +kernel

theorem alias_wf : ∀ ab ∈ optionAliases,
    (∀ o ∈ optionDecls, o.name = ab.1 → o.var = "" ∧ o.default = none ∧ o.group = "_compatopts_alias") ∧
    (∃ o ∈ optionDecls, o.name = ab.2 ∧ o.default.isSome) := by decide +kernel

theorem alias_names_not_cli : ∀ ab ∈ optionAliases,
    findOpt (described optionDecls cliGroups) ab.1 = none ∧
    descDefault (described optionDecls cliGroups) ab.1 = none ∧
    descDefault (described optionDecls cfgGroups) ab.1 = none ∧
    (descDefault (described optionDecls cliGroups) ab.2).isSome = true := by decide +kernel

theorem alias_disjoint : (∀ ab ∈ optionAliases, ∀ ab' ∈ optionAliases, ab'.1 ≠ ab.2) ∧
    (optionAliases.map (·.2)).Nodup := by decide +kernel

/-- the option bound to `_configfile` -/
theorem cfgNameOf_store {pc : Parsed} {vm1 : VM} {final1 : List String} {c : String}
    (hs : storeParsed (described optionDecls cliGroups) pc [] [] = .ok (vm1, final1))
    (hpc : (pc.map (·.1)).Nodup) (hname : (pc.find? (·.1 = "config")).map (·.2) = some [c]) :
    cfgNameOf (notifyVM optionDecls vm1 initialVars) = c := by
  have hsorted : VMSorted vm1 := storeParsed_sorted hs vmSorted_nil
  have hfind : vmFind vm1 "config" = some ⟨[c], false⟩ := by
    rw [(store_spec' _ pc [] [] hpc vm1 final1 hs "config").1, hname]; rfl
  have H1 : ∀ o' ∈ optionDecls, o'.var = "_configfile" → o'.name = "config" := by decide +kernel
  have H2 : optionDecls.find? (·.name = "config") = some { name := "config", short := "c", ty := .str, var := "_configfile", default := none, implicit := none, multitoken := false, group := "_programopts_cli" } := by
    decide +kernel
  have := notify_spec' optionDecls "_configfile" "config" _ H1 H2 rfl (by decide) vm1 initialVars _
    hsorted hfind
  unfold cfgNameOf
  rw [this]; rfl
/-! ### the alias loop -/

theorem vmFind_aliasStep (vm : VM) (ab : String × String) (k : String) :
    vmFind (aliasStep vm ab) k =
      if k = ab.2 then
        (match vmFind vm ab.1, vmFind vm ab.2 with
         | some a, some s => if s.defaulted then some { s with toks := a.toks } else some s
         | _, x => x)
      else vmFind vm k := by
  unfold aliasStep
  by_cases hk : k = ab.2
  · subst hk
    rw [if_pos rfl]
    cases h1 : vmFind vm ab.1 <;> cases h2 : vmFind vm ab.2 <;> simp only [h2]
    rename_i a s
    by_cases hd : s.defaulted = true
    · simp only [hd, if_true, vmFind_insert]
    · rw [if_neg hd, if_neg hd, h2]
  · rw [if_neg hk]
    cases h1 : vmFind vm ab.1 <;> cases h2 : vmFind vm ab.2 <;> simp only
    rename_i a s
    split
    · rw [vmFind_insert, if_neg hk]
    · rfl

theorem vmFind_aliasFold (k : String) : ∀ (aliases : List (String × String)) (vm : VM),
    (∀ ab ∈ aliases, ∀ ab' ∈ aliases, ab'.1 ≠ ab.2) → (aliases.map (·.2)).Nodup →
    vmFind (aliasFold aliases vm) k =
      match aliases.find? (·.2 = k) with
      | none => vmFind vm k
      | some ab =>
        (match vmFind vm ab.1, vmFind vm k with
         | some a, some s => if s.defaulted then some { s with toks := a.toks } else some s
         | _, x => x) := by
  intro aliases
  induction aliases with
  | nil => intro vm _ _; rfl
  | cons ab t ih =>
    intro vm hd hn
    have hfold : aliasFold (ab :: t) vm = aliasFold t (aliasStep vm ab) := rfl
    simp only [List.map_cons, List.nodup_cons] at hn
    rw [hfold, ih _ (fun a ha b hb => hd a (List.mem_cons_of_mem _ ha) b (List.mem_cons_of_mem _ hb)) hn.2]
    by_cases hk : ab.2 = k
    · subst hk
      have : t.find? (·.2 = ab.2) = none := by
        rw [List.find?_eq_none]
        intro x hx hx'
        simp only [decide_eq_true_eq] at hx'
        exact hn.1 (hx' ▸ List.mem_map_of_mem hx)
      simp only [this, List.find?_cons, decide_true]
      rw [vmFind_aliasStep, if_pos rfl]
    · simp only [List.find?_cons, hk, decide_false]
      cases hf : t.find? (·.2 = k) with
      | none => simp only; rw [vmFind_aliasStep, if_neg (Ne.symm hk)]
      | some ab' =>
        simp only
        have hmem : ab' ∈ t := List.mem_of_find?_eq_some hf
        rw [vmFind_aliasStep, if_neg (hd ab (List.mem_cons_self ..) ab' (List.mem_cons_of_mem _ hmem)),
          vmFind_aliasStep, if_neg (Ne.symm hk)]

theorem aliasStep_sorted (vm : VM) (ab : String × String) (h : VMSorted vm) :
    VMSorted (aliasStep vm ab) := by
  unfold aliasStep
  split
  · split
    · exact vmInsert_sorted _ _ _ h
    · exact h
  · exact h

theorem aliasFold_sorted : ∀ (aliases : List (String × String)) (vm : VM), VMSorted vm →
    VMSorted (aliasFold aliases vm) := by
  intro aliases
  induction aliases with
  | nil => intro vm h; exact h
  | cons ab t ih => intro vm h; exact ih _ (aliasStep_sorted vm ab h)

theorem find?_and_of_unique {α : Type} (p q : α → Bool) : ∀ (l : List α),
    (∀ a ∈ l, ∀ b ∈ l, p a = true → p b = true → a = b) →
    l.find? (fun a => p a && q a) = (l.find? p).bind (fun a => if q a then some a else none) := by
  intro l
  induction l with
  | nil => intro _; rfl
  | cons x t ih =>
    intro hu
    by_cases hp : p x = true
    · simp only [List.find?_cons, hp, Bool.true_and]
      by_cases hq : q x = true
      · simp [hq]
      · have hq' : q x = false := by simpa using hq
        simp only [hq', Option.bind_some, Bool.false_eq_true, if_false]
        rw [List.find?_eq_none]
        intro y hy hy'
        simp only [Bool.and_eq_true] at hy'
        have := hu x (List.mem_cons_self ..) y (List.mem_cons_of_mem _ hy) hp hy'.1
        subst this
        exact hq hy'.2
    · simp only [List.find?_cons, hp, Bool.false_and]
      exact ih (fun a ha b hb => hu a (List.mem_cons_of_mem _ ha) b (List.mem_cons_of_mem _ hb))

/-! ### precedence -/

/-- value given for key `k` in a parsed source -/
def pGiven (p : Parsed) (k : String) : Option (List String) := (p.find? (·.1 = k)).map (·.2)

/-- documented default of `k` in the description made of `groups` -/
def tblDefault (groups : List String) (k : String) : Option String :=
  ((described optionDecls groups).find? (fun o => o.name = k ∧ o.default.isSome)).bind (·.default)

theorem descDefault_eq (groups : List String) (k : String) :
    descDefault (described optionDecls groups) k =
      (tblDefault groups k).map (fun d => { toks := [d], defaulted := true }) := rfl

theorem pGiven_none_of_not_described {desc : List OptSpec} {pc : Parsed} {r : VM × List String}
    (hs : storeParsed desc pc [] [] = .ok r) {k : String} (hk : findOpt desc k = none) :
    pGiven pc k = none := by
  unfold pGiven
  cases hf : pc.find? (·.1 = k) with
  | none => rfl
  | some kv =>
    have hmem := List.mem_of_find?_eq_some hf
    have hkv : kv.1 = k := by simpa using List.find?_some hf
    rcases storeParsed_keys hs kv hmem with h | h
    · simp at h
    · rw [hkv, hk] at h; cases h

theorem precedence' (args : List String) (cfgname : String) (lines : List String)
    (file : String → Option (List String)) (pc pf : Parsed) (vm : VM) (vars : Vars)
    (hcli : parseCLI (described optionDecls cliGroups) args = .ok pc) (hpc : (pc.map (·.1)).Nodup)
    (hname : pGiven pc "config" = some [cfgname]) (hne : cfgname ≠ "/dev/null") (hne' : cfgname ≠ "")
    (hfile : file cfgname = some lines)
    (hcfg : parseCfg (described optionDecls cfgGroups) lines = .ok pf) (hpf : (pf.map (·.1)).Nodup)
    (hrun : parseOptions optionDecls cliGroups cfgGroups optionAliases args file = .run vm vars)
    (k : String) (_hk : ∀ ab ∈ optionAliases, ab.1 ≠ k) :
    (vmFind vm k).map (·.toks) =
      (match pGiven pc k with
       | some v => some v
       | none =>
         match pGiven pf k with
         | some v => some v
         | none =>
           match (optionAliases.find? (fun ab => ab.2 = k ∧ (pGiven pf ab.1).isSome)) with
           | some ab => pGiven pf ab.1
           | none =>
             (match tblDefault cliGroups k with
              | some d => some [d]
              | none => (tblDefault cfgGroups k).map (fun d => [d]))) := by
  obtain ⟨vm1, final1, hs1, hrest⟩ := parseOptions_run_inv hcli hrun
  have hc := cfgNameOf_store hs1 hpc hname
  obtain ⟨vm2, f2, hs2, rfl⟩ := parseRest_cfg_inv hc hne hne' hfile hcfg hrest
  have S1 := store_spec' _ pc [] [] hpc vm1 final1 hs1
  have S2 := store_spec' _ pf vm1 final1 hpf vm2 f2 hs2
  have hv1 : ∀ k, vmFind vm1 k = match pGiven pc k with
      | some vals => some ⟨vals, false⟩
      | none => descDefault (described optionDecls cliGroups) k := fun k => (S1 k).1
  have hf1 : ∀ k, final1.contains k = (pGiven pc k).isSome := by
    intro k; rw [(S1 k).2 k]; rfl
  have hv2 : ∀ k, vmFind vm2 k =
      (if final1.contains k then
          (match vmFind vm1 k with
           | some e => some e
           | none => descDefault (described optionDecls cfgGroups) k)
       else match pGiven pf k with
        | some vals => some { toks := vals, defaulted := false }
        | none =>
          (match vmFind vm1 k with
           | some e => some e
           | none => descDefault (described optionDecls cfgGroups) k)) := fun k => (S2 k).1
  have halias : ∀ ab ∈ optionAliases, vmFind vm2 ab.1 = (pGiven pf ab.1).map (fun v => ⟨v, false⟩) := by
    intro ab hab
    obtain ⟨h1, h2, h3, -⟩ := alias_names_not_cli ab hab
    have hg : pGiven pc ab.1 = none := pGiven_none_of_not_described hs1 h1
    rw [hv2, hf1, hg, hv1, hg]
    simp only [h2, h3, Option.isSome_none, Bool.false_eq_true, if_false]
    cases pGiven pf ab.1 <;> rfl
  rw [vmFind_aliasFold k optionAliases vm2 alias_disjoint.1 alias_disjoint.2]
  clear S1 S2 hrun hrest hs2 hc
  have huniq : ∀ a ∈ optionAliases, ∀ b ∈ optionAliases,
      decide (a.2 = k) = true → decide (b.2 = k) = true → a = b := by
    intro a ha b hb h1 h2
    simp only [decide_eq_true_eq] at h1 h2
    have : ∀ a ∈ optionAliases, ∀ b ∈ optionAliases, a.2 = b.2 → a = b := by decide +kernel
    exact this a ha b hb (h1.trans h2.symm)
  have hconj : optionAliases.find? (fun ab => ab.2 = k ∧ (pGiven pf ab.1).isSome) =
      (optionAliases.find? (·.2 = k)).bind
        (fun a => if (pGiven pf a.1).isSome then some a else none) := by
    refine Eq.trans ?_ (find?_and_of_unique (fun ab : String × String => decide (ab.2 = k))
      (fun ab => (pGiven pf ab.1).isSome) optionAliases huniq)
    congr 1; funext ab; simp
  rw [hconj]
  cases hgc : pGiven pc k with
  | some v =>
    have h2 : vmFind vm2 k = some ⟨v, false⟩ := by
      rw [hv2, hf1, hgc, hv1, hgc]; rfl
    cases hfa : optionAliases.find? (·.2 = k) with
    | none => simp only [h2]; rfl
    | some ab => simp only [h2]; cases vmFind vm2 ab.1 <;> rfl
  | none =>
    cases hgf : pGiven pf k with
    | some v =>
      have h2 : vmFind vm2 k = some ⟨v, false⟩ := by
        rw [hv2, hf1, hgc, hgf]; rfl
      cases hfa : optionAliases.find? (·.2 = k) with
      | none => simp only [h2]; rfl
      | some ab => simp only [h2]; cases vmFind vm2 ab.1 <;> rfl
    | none =>
      have h2 : vmFind vm2 k = match descDefault (described optionDecls cliGroups) k with
          | some e => some e
          | none => descDefault (described optionDecls cfgGroups) k := by
        rw [hv2, hf1, hgc, hgf, hv1, hgc]; rfl
      have hdef : (match descDefault (described optionDecls cliGroups) k with
          | some e => some e
          | none => descDefault (described optionDecls cfgGroups) k).map (fun e : VMEntry => e.toks) =
          (match tblDefault cliGroups k with
              | some d => some [d]
              | none => (tblDefault cfgGroups k).map (fun d => [d])) := by
        rw [descDefault_eq, descDefault_eq]
        cases tblDefault cliGroups k <;> cases tblDefault cfgGroups k <;> rfl
      cases hfa : optionAliases.find? (·.2 = k) with
      | none => simp only [h2, hdef]; rfl
      | some ab =>
        have hab : ab ∈ optionAliases := List.mem_of_find?_eq_some hfa
        have habk : ab.2 = k := by simpa using List.find?_some hfa
        simp only [halias ab hab]
        cases hga : pGiven pf ab.1 with
        | none =>
          simp only [Option.map_none, h2, hdef, Option.bind_some, hga, Option.isSome_none,
            Bool.false_eq_true, if_false]
        | some vals =>
          obtain ⟨-, -, -, h4⟩ := alias_names_not_cli ab hab
          rw [habk] at h4
          rw [h2]
          cases hd : descDefault (described optionDecls cliGroups) k with
          | none => rw [hd] at h4; cases h4
          | some e =>
            have he : e.defaulted = true := by
              rw [descDefault_eq] at hd
              cases hx : tblDefault cliGroups k with
              | none => rw [hx] at hd; cases hd
              | some d => rw [hx] at hd; cases hd; rfl
            simp [he, hga]

/-! ### `splitOn "="` in terms of lists, kernel-evaluable variants of the tokenisers -/
section
open _root_.String
theorem splitOnAux_eq (l m r : List Char) (acc : List String) :
    splitOnAux (ofList (l ++ m ++ r)) "=" ⟨utf8Len l⟩ ⟨utf8Len l + utf8Len m⟩ 0 acc =
      acc.reverse ++ (List.splitOnPPrepend (· == '=') r m.reverse).map ofList := by
  rw [splitOnAux]
  have hat : Pos.Raw.atEnd (ofList (l ++ m ++ r)) ⟨utf8Len l + utf8Len m⟩ = true ↔ r = [] := by
    have := atEnd_of_valid (l ++ m) r
    simpa using this
  cases r with
  | nil =>
    rw [if_pos (hat.2 rfl)]
    have := extract_of_valid l m []
    simp only [List.append_nil] at this ⊢
    rw [this]
    simp [List.splitOnPPrepend]
  | cons c r =>
    rw [if_neg (by rw [hat]; simp)]
    have hget : Pos.Raw.get (ofList (l ++ m ++ c :: r)) ⟨utf8Len l + utf8Len m⟩ = c := by
      simpa using get_of_valid (l ++ m) (c :: r)
    have hnext : Pos.Raw.next (ofList (l ++ m ++ c :: r)) ⟨utf8Len l + utf8Len m⟩
        = ⟨utf8Len l + utf8Len m + c.utf8Size⟩ := by
      simpa using next_of_valid (l ++ m) c r
    have h0 : (0 : Pos.Raw).get "=" = '=' := by decide +kernel
    have h1 : (0 : Pos.Raw).next "=" = ⟨1⟩ := by decide +kernel
    have h2 : (⟨1⟩ : Pos.Raw).atEnd "=" = true := by decide +kernel
    simp only [hget, h0, Pos.Raw.unoffsetBy_zero, hnext, h1, h2, if_true]
    by_cases hc : c = '='
    · subst hc
      simp only [beq_self_eq_true, if_true]
      have hsz : ('=' : Char).utf8Size = 1 := by decide
      have hun : (⟨utf8Len l + utf8Len m + ('=' : Char).utf8Size⟩ : Pos.Raw).unoffsetBy ⟨1⟩
          = ⟨utf8Len l + utf8Len m⟩ := by
        simp [Pos.Raw.ext_iff, hsz]
      rw [hun]
      have hex : Pos.Raw.extract (ofList (l ++ m ++ '=' :: r)) ⟨utf8Len l⟩ ⟨utf8Len l + utf8Len m⟩
          = ofList m := extract_of_valid l m ('=' :: r)
      rw [hex]
      have := splitOnAux_eq (l ++ m ++ ['=']) [] r (ofList m :: acc)
      simp only [List.append_assoc, List.singleton_append, utf8Len_append, utf8Len_cons,
        utf8Len_nil, Nat.add_zero, Nat.zero_add, List.append_nil, List.reverse_nil] at this
      rw [Nat.add_assoc, List.append_assoc, this]
      simp [List.splitOnPPrepend_cons_eq_if]
    · have hb : (c == '=') = false := by simpa using hc
      simp only [hb, Bool.false_eq_true, if_false]
      have := splitOnAux_eq l (m ++ [c]) r acc
      simp only [List.append_assoc, List.singleton_append, utf8Len_append, utf8Len_cons,
        utf8Len_nil, Nat.zero_add] at this
      rw [Nat.add_assoc, List.append_assoc, this]
      simp [List.splitOnPPrepend_cons_eq_if, hb]
termination_by r.length

theorem splitOn_eq (s : String) :
    s.splitOn "=" = (List.splitOnP (· == '=') s.toList).map ofList := by
  have h := splitOnAux_eq [] [] s.toList []
  simp only [List.nil_append, utf8Len_nil, Nat.add_zero, String.ofList_toList, List.reverse_nil] at h
  unfold String.splitOn
  rw [if_neg (by decide +kernel)]
  exact h
end

/-- kernel-evaluable `splitOn "="` -/
def splitEq (s : String) : List String := (List.splitOnP (· == '=') s.toList).map String.ofList

theorem splitOn_eq' (s : String) : s.splitOn "=" = splitEq s := splitOn_eq s

/-- copy of `parseCLIAux` with `splitEq` (the kernel cannot unfold the well-founded
    recursion of `String.splitOn`) -/
def parseCLIAuxK (desc : List OptSpec) : Nat → List String → Except PErr Parsed
  | 0, _ => .ok []
  | fuel + 1, args =>
  let parseCLI := fun (_ : List OptSpec) (r : List String) => parseCLIAuxK desc fuel r
  match args with
  | [] => .ok []
  | a :: rest =>
    let handle (o : OptSpec) (adj : Option String) (rest : List String) : Except PErr Parsed :=
      if o.ty = .flag then
        match adj with
        | some _ => .error (.invalidValue o.name)
        | none => do let r ← parseCLI desc rest; pure ((o.name, []) :: r)
      else
        match adj with
        | some v => do let r ← parseCLI desc rest; pure ((o.name, [v]) :: r)
        | none =>
          if o.implicit.isSome then
            do let r ← parseCLI desc rest; pure ((o.name, [o.implicit.getD ""]) :: r)
          else if o.multitoken then
            let vals := rest.takeWhile (fun t => !looksLikeOption t)
            if vals.isEmpty then .error (.missingValue o.name)
            else do let r ← parseCLI desc (rest.drop vals.length); pure ((o.name, vals) :: r)
          else
            match rest with
            | v :: rest' =>
              if looksLikeOption v then .error (.missingValue o.name)
              else do let r ← parseCLI desc rest'; pure ((o.name, [v]) :: r)
            | [] => .error (.missingValue o.name)
    if a.startsWith "--" then
      let body := (a.drop 2).toString
      let (name, adj) := match splitEq body with
        | [n] => (n, none)
        | n :: vs => (n, some ("=".intercalate vs))
        | [] => (body, none)
      match findOpt desc name with
      | some o => handle o adj rest
      | none => .error (.unknownOption name)
    else if a.startsWith "-" && a.length > 1 then
      let s := ((a.drop 1).take 1).toString
      let adjS := (a.drop 2).toString
      match findShort desc s with
      | some o => handle o (if adjS.isEmpty then none else some adjS) rest
      | none => .error (.unknownOption s)
    else .error .tooManyPositional


open Lean Elab Tactic in
/-- closes `a = b` by `Eq.refl a`, leaving the definitional-equality check to the kernel (the two
    sides below differ only in the names of the auxiliary matchers of the two definitions) -/
elab "kernel_rfl" : tactic => do
  let g ← getMainGoal
  let t ← instantiateMVars (← g.getType)
  let some (_, a, _) := t.eq? | throwError "kernel_rfl: not an equation"
  g.assign (← Meta.mkEqRefl a)

theorem parseCLIAux_eqK (desc : List OptSpec) : ∀ (n : Nat) (args : List String),
    parseCLIAux desc n args = parseCLIAuxK desc n args := by
  intro n
  induction n with
  | zero => intro args; rfl
  | succ n ih =>
    intro args
    unfold parseCLIAux parseCLIAuxK
    simp only [splitOn_eq', ih]
    kernel_rfl

def parseCfgK (desc : List OptSpec) (lines : List String) : Except PErr Parsed :=
  lines.foldlM (fun (acc : Parsed) l =>
    match splitEq l with
    | k :: v :: vs =>
      match findOpt desc k with
      | some _ => .ok (acc ++ [(k, ["=".intercalate (v :: vs)])])
      | none => .error (.unknownOption k)
    | _ => .error (.unknownOption l)) []

theorem parseCfg_eqK (desc : List OptSpec) (lines : List String) :
    parseCfg desc lines = parseCfgK desc lines := by
  unfold parseCfg parseCfgK
  simp only [splitOn_eq']
  rfl


/-- kernel-evaluable `isDigits` / `wellFormed` (`String.all` is implemented by well-founded
    recursion) -/
def isDigitsK (s : String) : Bool := !s.isEmpty && s.toList.all Char.isDigit

def wellFormedK (ty : OptTy) (tok : String) : Bool :=
  match ty with
  | .flag => true
  | .str => true
  | .f32 | .f64 | .vecf32 => isDecimal tok
  | .u32 | .u8 => isDigitsK tok
  | .i32 | .i64 => isDigitsK tok || (tok.startsWith "-" && isDigitsK (tok.drop 1).toString)
  | .bool => ["1", "0", "true", "false", "on", "off", "yes", "no"].contains tok.toLower

theorem isDigits_eqK (s : String) : isDigits s = isDigitsK s := by
  unfold isDigits isDigitsK; rw [String.all_bool_eq]

theorem wellFormed_eqK : wellFormed = wellFormedK := by
  funext ty tok
  cases ty <;> simp only [wellFormed, wellFormedK, isDigits_eqK]

/-- turning a Boolean check of the outcome (evaluated by the kernel) into an existential -/
theorem exists_run_of_check (o : Outcome) (P : VM → Bool)
    (h : (match o with | .run vm _ => P vm | _ => false) = true) :
    ∃ vm vars, o = .run vm vars ∧ P vm = true := by
  cases o with
  | run vm vars => exact ⟨vm, vars, rfl, h⟩
  | norun => cases h
  | error e => cases h
/-! ### `save` -/

/-- the lines `save` writes for one entry of the variables map -/
def saveEntry (decls : List OptSpec) (skip : List String) (specials : List (String × String × String))
    (types : List OptTy) (fsZero : Bool) (kv : String × VMEntry) : List (String × String) :=
    let k := kv.1
    if skip.contains k then []
    else
      match specials.find? (fun s => s.1 = k ∧ ((s.2.1 = "f_s==0" ∧ fsZero) ∨ (s.2.1 = "f_s!=0" ∧ !fsZero))) with
      | some s => [(k, ((s.2.2.splitOn "=").getD 1 ""))]
      | none =>
        match decls.find? (·.name = k) with
        | none => []
        | some o =>
          if o.ty = .flag then []
          else if types.contains o.ty then
            (if o.ty = .vecf32 then kv.2.toks.map (fun t => (k, stripKind t))
             else [(k, stripKind (kv.2.toks.headD ""))])
          else []

theorem saveLines_eq (decls : List OptSpec) (skip : List String)
    (specials : List (String × String × String)) (types : List OptTy) (vm : VM) (fsZero : Bool) :
    saveLines decls skip specials types vm fsZero =
      vm.flatMap (saveEntry decls skip specials types fsZero) := rfl

theorem saveEntry_key {decls : List OptSpec} {skip : List String}
    {specials : List (String × String × String)} {types : List OptTy} {fsZero : Bool}
    {kv : String × VMEntry} : ∀ x ∈ saveEntry decls skip specials types fsZero kv, x.1 = kv.1 := by
  intro x hx
  unfold saveEntry at hx
  simp only at hx
  split at hx
  · cases hx
  · split at hx
    · simp only [List.mem_singleton] at hx; rw [hx]
    · split at hx
      · cases hx
      · split at hx
        · cases hx
        · split at hx
          · split at hx
            · simp only [List.mem_map] at hx
              obtain ⟨t, -, rfl⟩ := hx; rfl
            · simp only [List.mem_singleton] at hx; rw [hx]
          · cases hx

theorem saveLines_filter_absent (decls : List OptSpec) (skip : List String)
    (specials : List (String × String × String)) (types : List OptTy) (fsZero : Bool) (k : String) :
    ∀ (vm : VM), vmFind vm k = none →
      (saveLines decls skip specials types vm fsZero).filter (·.1 = k) = [] := by
  intro vm
  rw [saveLines_eq]
  induction vm with
  | nil => intro _; rfl
  | cons kv r ih =>
    intro h
    rw [vmFind_cons] at h
    by_cases hk : kv.1 = k
    · rw [if_pos hk] at h; cases h
    · rw [if_neg hk] at h
      rw [List.flatMap_cons, List.filter_append, ih h, List.append_nil, List.filter_eq_nil_iff]
      intro x hx
      rw [decide_eq_true_eq, saveEntry_key x hx]
      exact hk

theorem saveLines_filter_present (decls : List OptSpec) (skip : List String)
    (specials : List (String × String × String)) (types : List OptTy) (fsZero : Bool) (k : String) :
    ∀ (vm : VM) (e : VMEntry), VMSorted vm → vmFind vm k = some e →
      (saveLines decls skip specials types vm fsZero).filter (·.1 = k) =
        saveEntry decls skip specials types fsZero (k, e) := by
  intro vm
  induction vm with
  | nil => intro e _ h; cases h
  | cons kv r ih =>
    intro e hs h
    rw [vmFind_cons] at h
    have hs' : VMSorted r ∧ ∀ x ∈ r.map (·.1), kv.1 < x := by
      unfold VMSorted at *; simp only [List.map_cons, List.pairwise_cons] at hs; exact ⟨hs.2, hs.1⟩
    rw [saveLines_eq, List.flatMap_cons, List.filter_append, ← saveLines_eq]
    by_cases hk : kv.1 = k
    · rw [if_pos hk] at h
      cases h
      have habs : vmFind r k = none := by
        unfold vmFind
        rw [Option.map_eq_none_iff, List.find?_eq_none]
        intro x hx hx'
        simp only [decide_eq_true_eq] at hx'
        have := hs'.2 x.1 (List.mem_map_of_mem hx)
        rw [hk, hx'] at this
        exact String.lt_irrefl _ this
      rw [saveLines_filter_absent _ _ _ _ _ _ r habs, List.append_nil, List.filter_eq_self.2]
      · obtain ⟨k1, e1⟩ := kv; simp only at hk; subst hk; rfl
      · intro x hx
        rw [decide_eq_true_eq, saveEntry_key x hx]; exact hk
    · rw [if_neg hk] at h
      rw [ih e hs'.1 h, List.filter_eq_nil_iff.2, List.nil_append]
      intro x hx
      rw [decide_eq_true_eq, saveEntry_key x hx]
      exact hk

theorem saveSpecials_none (fsZero : Bool) (k : String) (halpha : k ≠ "alpha0" ∨ fsZero = true) :
    saveSpecials.find? (fun s => s.1 = k ∧ ((s.2.1 = "f_s==0" ∧ fsZero) ∨ (s.2.1 = "f_s!=0" ∧ !fsZero)))
      = none := by
  rw [List.find?_eq_none]
  intro s hs
  have hs' : s = ("alpha0", "f_s!=0", "alpha0=0") := by simpa [saveSpecials] using hs
  subst hs'
  have h1 : ¬ ("f_s!=0" = "f_s==0") := by decide +kernel
  rcases halpha with h | h
  · simp [Ne.symm h]
  · simp [h, h1]

theorem saveEntry_scalar (fsZero : Bool) (k : String) (o : OptSpec) (e : VMEntry)
    (ho : optionDecls.find? (·.name = k) = some o) (hty : o.ty ∈ saveTypes) (hflag : o.ty ≠ .flag)
    (hvec : o.ty ≠ .vecf32) (hskip : k ∉ saveSkip) (halpha : k ≠ "alpha0" ∨ fsZero = true) :
    saveEntry optionDecls saveSkip saveSpecials saveTypes fsZero (k, e)
      = [(k, stripKind (e.toks.headD ""))] := by
  unfold saveEntry
  simp only
  rw [if_neg (by simpa using hskip), saveSpecials_none fsZero k halpha]
  simp only [ho]
  rw [if_neg hflag, if_pos (by simpa using hty), if_neg hvec]

theorem saveEntry_vector (fsZero : Bool) (k : String) (o : OptSpec) (e : VMEntry)
    (ho : optionDecls.find? (·.name = k) = some o) (hvec : o.ty = .vecf32) (hskip : k ∉ saveSkip) :
    saveEntry optionDecls saveSkip saveSpecials saveTypes fsZero (k, e)
      = e.toks.map (fun t => (k, stripKind t)) := by
  have hk : k ≠ "alpha0" := by
    intro hk
    subst hk
    have : (optionDecls.find? (·.name = "alpha0")).map (·.ty) = some .f32 := by decide +kernel
    rw [ho] at this
    simp only [Option.map_some, Option.some.injEq] at this
    rw [hvec] at this; cases this
  unfold saveEntry
  simp only
  rw [if_neg (by simpa using hskip), saveSpecials_none fsZero k (.inl hk)]
  simp only [ho]
  rw [if_neg (by rw [hvec]; decide), if_pos (by rw [hvec]; decide), if_pos hvec]
/-! ### reading back what `save` wrote -/

/-- the (key, value) pair `parseCfg` reads off a line -/
def cfgPair (l : String) : Option (String × List String) :=
  match l.splitOn "=" with
  | k :: v :: vs => some (k, ["=".intercalate (v :: vs)])
  | _ => none

def cfgStep (desc : List OptSpec) (acc : Parsed) (l : String) : Except PErr Parsed :=
  match l.splitOn "=" with
  | k :: v :: vs =>
    match findOpt desc k with
    | some _ => .ok (acc ++ [(k, ["=".intercalate (v :: vs)])])
    | none => .error (.unknownOption k)
  | _ => .error (.unknownOption l)

theorem parseCfg_eq_fold (desc : List OptSpec) (lines : List String) :
    parseCfg desc lines = lines.foldlM (cfgStep desc) [] := rfl

theorem cfgStep_ok {desc : List OptSpec} {acc acc' : Parsed} {l : String}
    (h : cfgStep desc acc l = .ok acc') : ∃ kv, cfgPair l = some kv ∧ acc' = acc ++ [kv] := by
  unfold cfgStep at h
  unfold cfgPair
  split at h
  · rename_i k v vs heq
    split at h
    · simp only [Except.ok.injEq] at h
      exact ⟨_, rfl, h.symm⟩
    · cases h
  · cases h

theorem parseCfg_fold_pairs (desc : List OptSpec) : ∀ (lines : List String) (acc pf : Parsed),
    lines.foldlM (cfgStep desc) acc = .ok pf →
    ∃ ps, lines.map cfgPair = ps.map some ∧ pf = acc ++ ps := by
  intro lines
  induction lines with
  | nil =>
    intro acc pf h
    simp only [List.foldlM_nil, pure, Except.pure, Except.ok.injEq] at h
    exact ⟨[], rfl, by simp [h]⟩
  | cons l t ih =>
    intro acc pf h
    rw [List.foldlM_cons] at h
    cases hs : cfgStep desc acc l with
    | error e => rw [hs] at h; cases h
    | ok acc' =>
      rw [hs] at h
      replace h : t.foldlM (cfgStep desc) acc' = .ok pf := h
      obtain ⟨kv, hkv, rfl⟩ := cfgStep_ok hs
      obtain ⟨ps, hps, rfl⟩ := ih _ _ h
      exact ⟨kv :: ps, by simp [hkv, hps], by simp⟩

theorem parseCfg_pairs {desc : List OptSpec} {lines : List String} {pf : Parsed}
    (h : parseCfg desc lines = .ok pf) : lines.map cfgPair = pf.map some := by
  rw [parseCfg_eq_fold] at h
  obtain ⟨ps, hps, rfl⟩ := parseCfg_fold_pairs desc lines [] pf h
  simpa using hps

/-- value read back from `a=b` -/
def cfgVal (b : String) : String :=
  "=".intercalate ((List.splitOnP (· == '=') b.toList).map String.ofList)

theorem cfgPair_line (a b : String) (ha : '=' ∉ a.toList) :
    cfgPair (a ++ "=" ++ b) = some (a, [cfgVal b]) := by
  unfold cfgPair cfgVal
  rw [splitOn_eq]
  have h1 : (a ++ "=" ++ b).toList = a.toList ++ '=' :: b.toList := by
    rw [String.toList_append, String.toList_append]
    have : "=".toList = ['='] := by decide +kernel
    rw [this]; simp
  rw [h1, List.splitOnP_append_cons_of_forall_mem (by
    intro x hx
    have : x ≠ '=' := fun h => ha (h ▸ hx)
    simpa using this) '=' (by simp)]
  obtain ⟨v, vs, hv⟩ := List.exists_cons_of_ne_nil
    (List.splitOnP_ne_nil (· == '=') b.toList)
  rw [hv]
  simp only [List.map_cons, String.ofList_toList]

theorem cfgVal_of_noeq (b : String) (hb : '=' ∉ b.toList) : cfgVal b = b := by
  unfold cfgVal
  rw [List.splitOnP_eq_singleton (by
    intro x hx
    have : x ≠ '=' := fun h => hb (h ▸ hx)
    simpa using this)]
  simp [String.intercalate_singleton]

theorem saveEntry_key_decl {decls : List OptSpec} {skip : List String}
    {specials : List (String × String × String)} {types : List OptTy} {fsZero : Bool}
    {kv : String × VMEntry} {x : String × String}
    (hx : x ∈ saveEntry decls skip specials types fsZero kv) :
    (∃ s ∈ specials, s.1 = kv.1) ∨ (∃ o ∈ decls, o.name = kv.1) := by
  unfold saveEntry at hx
  simp only at hx
  split at hx
  · cases hx
  · split at hx
    · rename_i s hs
      exact .inl ⟨s, List.mem_of_find?_eq_some hs, by
        have := List.find?_some hs; simp only [decide_eq_true_eq] at this; exact this.1⟩
    · split at hx
      · cases hx
      · rename_i o ho
        exact .inr ⟨o, List.mem_of_find?_eq_some ho, by simpa using List.find?_some ho⟩

theorem names_noeq : (∀ s ∈ saveSpecials, '=' ∉ s.1.toList) ∧ (∀ o ∈ optionDecls, '=' ∉ o.name.toList) := by
  decide +kernel

theorem saveLines_key_noeq (vm : VM) (fsZero : Bool) :
    ∀ x ∈ saveLines optionDecls saveSkip saveSpecials saveTypes vm fsZero, '=' ∉ x.1.toList := by
  intro x hx
  rw [saveLines_eq, List.mem_flatMap] at hx
  obtain ⟨kv, -, hx⟩ := hx
  rw [saveEntry_key x hx]
  rcases saveEntry_key_decl hx with ⟨s, hs, h⟩ | ⟨o, ho, h⟩
  · rw [← h]; exact names_noeq.1 s hs
  · rw [← h]; exact names_noeq.2 o ho

/-- the config-file lines `save` writes for a variables map -/
def savedLinesOf (vm : VM) (fsZero : Bool) : List String :=
  ((saveLines optionDecls saveSkip saveSpecials saveTypes vm fsZero).filter
      (fun kv => !(saveCommentsConfig && kv.1 == "config"))).map (fun kv => kv.1 ++ "=" ++ kv.2)

theorem map_some_inj {α : Type} : ∀ {l1 l2 : List α}, l1.map some = l2.map some → l1 = l2
  | [], [], _ => rfl
  | [], _ :: _, h => by cases h
  | _ :: _, [], h => by cases h
  | a :: l1, b :: l2, h => by
    simp only [List.map_cons, List.cons.injEq, Option.some.injEq] at h
    rw [h.1, map_some_inj h.2]

theorem parseCfg_saved {desc : List OptSpec} {vm : VM} {fsZero : Bool} {pf : Parsed}
    (h : parseCfg desc (savedLinesOf vm fsZero) = .ok pf) :
    pf = ((saveLines optionDecls saveSkip saveSpecials saveTypes vm fsZero).filter
      (fun kv => !(saveCommentsConfig && kv.1 == "config"))).map (fun x => (x.1, [cfgVal x.2])) := by
  have hp := parseCfg_pairs h
  unfold savedLinesOf at hp
  rw [List.map_map] at hp
  have : ∀ x ∈ (saveLines optionDecls saveSkip saveSpecials saveTypes vm fsZero).filter
      (fun kv => !(saveCommentsConfig && kv.1 == "config")),
      (cfgPair ∘ fun kv => kv.1 ++ "=" ++ kv.2) x = (some ∘ fun x => (x.1, [cfgVal x.2])) x := by
    intro x hx
    exact cfgPair_line x.1 x.2 (saveLines_key_noeq vm fsZero x (List.mem_filter.1 hx).1)
  rw [List.map_congr_left this, ← List.map_map] at hp
  exact (map_some_inj hp).symm

theorem parseCfg_saved_filter {desc : List OptSpec} {vm : VM} {fsZero : Bool} {pf : Parsed}
    {k V : String} (h : parseCfg desc (savedLinesOf vm fsZero) = .ok pf)
    (hS : (saveLines optionDecls saveSkip saveSpecials saveTypes vm fsZero).filter (·.1 = k) = [(k, V)])
    (hk : k ≠ "config") (hV : '=' ∉ V.toList) : pf.filter (·.1 = k) = [(k, [V])] := by
  rw [parseCfg_saved h, List.filter_map, List.filter_filter]
  have : (saveLines optionDecls saveSkip saveSpecials saveTypes vm fsZero).filter
      (fun a => ((fun x : String × List String => decide (x.1 = k)) ∘ fun x : String × String => (x.1, [cfgVal x.2])) a
        && !(saveCommentsConfig && a.1 == "config")) =
      ((saveLines optionDecls saveSkip saveSpecials saveTypes vm fsZero).filter (·.1 = k)).filter
        (fun a => !(saveCommentsConfig && a.1 == "config")) := by
    rw [List.filter_filter]
    congr 1; funext a; simp [Bool.and_comm]
  rw [this, hS]
  simp [hk, cfgVal_of_noeq V hV]

deriving instance DecidableEq for Except

theorem parseRest_cfg_inv' {decls : List OptSpec} {cfgG : List String}
    {aliases : List (String × String)} {cfgFile : String → Option (List String)}
    {vm1 : VM} {final1 : List String} {c : String} {lines : List String}
    {vm : VM} {vars : Vars}
    (hc : cfgNameOf (notifyVM decls vm1 initialVars) = c) (hne : c ≠ "/dev/null") (hne' : c ≠ "")
    (hfile : cfgFile c = some lines)
    (hrun : parseRest decls cfgG aliases cfgFile vm1 final1 = .run vm vars) :
    ∃ pf vm2 f2, parseCfg (described decls cfgG) lines = .ok pf ∧
      storeParsed (described decls cfgG) pf vm1 final1 = .ok (vm2, f2) ∧
      vm = aliasFold aliases vm2 := by
  cases hcfg : parseCfg (described decls cfgG) lines with
  | error e =>
    exfalso
    unfold parseRest at hrun
    simp only [hc] at hrun
    by_cases hany : (["help", "copyright", "version", "buildinfo"].any
        (fun k => (vmFind vm1 k).isSome)) = true
    · rw [if_pos hany] at hrun; cases hrun
    · rw [if_neg hany, if_neg hne, if_neg (by rw [String.isEmpty_iff]; exact hne'), hfile] at hrun
      simp only [hcfg, bind, Except.bind] at hrun
      cases hrun
  | ok pf =>
    obtain ⟨vm2, f2, h1, h2⟩ := parseRest_cfg_inv hc hne hne' hfile hcfg hrun
    exact ⟨pf, vm2, f2, rfl, h1, h2⟩

theorem roundtrip' (vm vm2 : VM) (vars2 : Vars) (fsZero : Bool) (hsorted : VMSorted vm)
    (hre : parseOptions optionDecls cliGroups cfgGroups optionAliases ["--config", "@SAVED@"]
            (fun p => if p = "@SAVED@" then some (savedLinesOf vm fsZero) else none) = .run vm2 vars2)
    (k : String) (o : OptSpec) (e : VMEntry)
    (ho : (described optionDecls cfgGroups).find? (·.name = k) = some o)
    (hty : o.ty ∈ saveTypes) (hflag : o.ty ≠ .flag) (hvec : o.ty ≠ .vecf32)
    (hskip : k ∉ saveSkip) (halias : ∀ ab ∈ optionAliases, ab.1 ≠ k ∧ ab.2 ≠ k)
    (halpha : k ≠ "alpha0" ∨ fsZero = true)
    (hnoeq : ¬ (stripKind (e.toks.headD "")).contains '=')
    (he : vmFind vm k = some e) :
    vmFind vm2 k = some ⟨[stripKind (e.toks.headD "")], false⟩ := by
  have hcli : parseCLI (described optionDecls cliGroups) ["--config", "@SAVED@"]
      = .ok [("config", ["@SAVED@"])] := by
    rw [parseCLI, parseCLIAux_eqK]; decide +kernel
  obtain ⟨vm1, final1, hs1, hrest⟩ := parseOptions_run_inv hcli hre
  have hc := cfgNameOf_store (c := "@SAVED@") hs1 (by decide) rfl
  obtain ⟨pf, vm2', f2, hcfg, hs2, rfl⟩ := parseRest_cfg_inv' hc (by decide) (by decide)
    (if_pos rfl) hrest
  -- `k` is a config-file option, hence not `config`
  have hkc : k ≠ "config" := by
    intro hk; subst hk
    have : (described optionDecls cfgGroups).find? (·.name = "config") = none := by decide +kernel
    rw [this] at ho; cases ho
  -- the entry of the full table for `k` has the same type
  have homem : o ∈ optionDecls := by
    have := List.mem_of_find?_eq_some ho
    unfold described at this
    rw [List.mem_flatMap] at this
    obtain ⟨g, -, hg⟩ := this
    exact (List.mem_filter.1 hg).1
  have hon : o.name = k := by simpa using List.find?_some ho
  obtain ⟨o', ho'⟩ : ∃ o', optionDecls.find? (·.name = k) = some o' := by
    cases h : optionDecls.find? (·.name = k) with
    | some o' => exact ⟨o', rfl⟩
    | none =>
      rw [List.find?_eq_none] at h
      exact absurd (by simpa using hon) (h o homem)
  have ho'n : o'.name = k := by simpa using List.find?_some ho'
  have hty' : o'.ty = o.ty :=
    (decl_name_var o' (List.mem_of_find?_eq_some ho') o homem (ho'n.trans hon.symm)).2
  have hS := saveLines_filter_present optionDecls saveSkip saveSpecials saveTypes fsZero k vm e
    hsorted he
  rw [saveEntry_scalar fsZero k o' e ho' (hty' ▸ hty) (hty' ▸ hflag) (hty' ▸ hvec) hskip halpha] at hS
  have hV : '=' ∉ (stripKind (e.toks.headD "")).toList := by
    rw [String.contains_char_eq] at hnoeq
    simpa using hnoeq
  have hpf := parseCfg_saved_filter hcfg hS hkc hV
  -- `k` was not given on the command line
  have hfin : final1.contains k = false := by
    rw [(storeParsed_find hs1 k).1]
    simp [Ne.symm hkc]
  have h2 := (storeParsed_find hs2 k).2.2 hfin _ hpf
  rw [vmFind_aliasFold k optionAliases vm2' alias_disjoint.1 alias_disjoint.2]
  have : optionAliases.find? (·.2 = k) = none := by
    rw [List.find?_eq_none]
    intro ab hab
    simpa using (halias ab hab).2
  rw [this]
  exact h2
end Inovesa
