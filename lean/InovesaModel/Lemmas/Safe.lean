/-
  Helper lemmas for Props/C17 (index arithmetic of buffer lengths, the clamp of the
  Fokker–Planck switch row, kick-map rows, impedance tables and the text reader).
-/
import InovesaModel.Model.Impedance
import InovesaModel.Gen.Sizes
import InovesaModel.Model.KickMap
import Mathlib.Algebra.Order.Floor.Ring
import Mathlib.Data.Rat.Floor
import Mathlib.Tactic.Linarith
namespace Inovesa
open Gen

theorem ratToNat_ratCeil (x : Rat) : ratToNat (ratCeil x) = x.ceil.toNat := by
  simp [ratToNat, ratCeil, Rat.floor_intCast]

theorem le_ratToNat_ratCeil (m : Nat) (x : Rat) (h : (m : Rat) ≤ x) : m ≤ ratToNat (ratCeil x) := by
  rw [ratToNat_ratCeil]
  have h1 : ((m : Int) : Rat) ≤ ((x.ceil : Int) : Rat) := by
    have := @Rat.le_ceil x
    push_cast
    exact le_trans h this
  have h2 : (m : Int) ≤ x.ceil := by exact_mod_cast h1
  omega

theorem one_le_maxRat (p : Rat) : (1 : Rat) ≤ max p 1 := le_max_right _ _

theorem psBins_le_padded (m : Nat) (p : Rat) : m ≤ ratToNat (ratCeil ((m : Rat) * max p 1)) := by
  apply le_ratToNat_ratCeil
  have h1 := one_le_maxRat p
  have h0 : (0 : Rat) ≤ (m : Rat) := Nat.cast_nonneg m
  nlinarith

theorem or_shift_lt (w k : Nat) (h : w < 2 ^ 63) : w ||| (w >>> k) < 2 ^ 63 :=
  Nat.or_lt_two_pow h (lt_of_le_of_lt (Nat.shiftRight_le _ _) h)

theorem upperPow2_ge_aux (v : Nat) (h1 : 1 ≤ v) (h2 : v ≤ 2 ^ 63) : v ≤ upperPow2 v := by
  unfold upperPow2
  have hw : (v + 2 ^ 64 - 1) % 2 ^ 64 = v - 1 := by omega
  simp only [hw]
  have b0 : v - 1 < 2 ^ 63 := by omega
  have l1 := Nat.left_le_or (n := v - 1) (m := (v - 1) >>> 1)
  have b1 := or_shift_lt _ 1 b0
  generalize (v - 1) ||| ((v - 1) >>> 1) = w1 at *
  have l2 := Nat.left_le_or (n := w1) (m := w1 >>> 2)
  have b2 := or_shift_lt _ 2 b1
  generalize w1 ||| (w1 >>> 2) = w2 at *
  have l3 := Nat.left_le_or (n := w2) (m := w2 >>> 4)
  have b3 := or_shift_lt _ 4 b2
  generalize w2 ||| (w2 >>> 4) = w3 at *
  have l4 := Nat.left_le_or (n := w3) (m := w3 >>> 8)
  have b4 := or_shift_lt _ 8 b3
  generalize w3 ||| (w3 >>> 8) = w4 at *
  have l5 := Nat.left_le_or (n := w4) (m := w4 >>> 16)
  have b5 := or_shift_lt _ 16 b4
  generalize w4 ||| (w4 >>> 16) = w5 at *
  have l6 := Nat.left_le_or (n := w5) (m := w5 >>> 32)
  have b6 := or_shift_lt _ 32 b5
  generalize w5 ||| (w5 >>> 32) = w6 at *
  omega

/-! ### kick-map rows, impedance tables, text reader -/

section kick
variable {α : Type} [Arith α]

theorem smRowOf_length (n it jd : Nat) (xip : α) : (smRowOf n it jd xip).length = it := by
  unfold smRowOf
  split_ifs <;> simp

theorem smRowOf_in_bounds (n it jd : Nat) (hn : 0 < n) (xip : α) :
    ∀ e ∈ smRowOf n it jd xip, e.1 < n := by
  have hhalf : n / 2 < n := Nat.div_lt_self hn (by decide)
  intro e he
  unfold smRowOf at he
  split_ifs at he with hjd
  · simp only [List.mem_map, List.mem_range] at he
    obtain ⟨j1, _, rfl⟩ := he
    split_ifs with hj0
    · exact hj0
    · exact hhalf
  · simp only [List.mem_map, List.mem_range] at he
    obtain ⟨j1, _, rfl⟩ := he
    exact hhalf

theorem foldl_guard_congr (n : Nat) (f : Nat → Nat) (tab : List (Hi α)) (rd rd' : Nat → α)
    (h : ∀ s, s < n → rd s = rd' s) (a : α) :
    tab.foldl (fun v e => if f e.1 < n then v + rd (f e.1) * e.2 else v) a =
    tab.foldl (fun v e => if f e.1 < n then v + rd' (f e.1) * e.2 else v) a := by
  induction tab generalizing a with
  | nil => rfl
  | cons x t ih =>
    simp only [List.foldl_cons]
    by_cases hs : f x.1 < n
    · rw [if_pos hs, if_pos hs, h _ hs]; exact ih _
    · rw [if_neg hs, if_neg hs]; exact ih _

end kick

section imp
variable {β : Type} [Arith β]

theorem addInto_nil_left (b : List (Cx β)) : addInto ([] : List (Cx β)) b = [] := by
  simp [addInto]

theorem addInto_nil_right (a : List (Cx β)) : addInto a ([] : List (Cx β)) = a := by
  simp [addInto]

theorem addInto_cons (x y : Cx β) (a b : List (Cx β)) :
    addInto (x :: a) (y :: b) = Cx.add x y :: addInto a b := by
  simp [addInto]

theorem addInto_length' (a b : List (Cx β)) : (addInto a b).length = a.length := by
  simp only [addInto, List.length_append, List.length_zipWith, List.length_drop]
  omega

theorem addInto_get' (a b : List (Cx β)) (i : Nat) :
    (addInto a b)[i]? = match a[i]?, b[i]? with
      | some x, some y => some (Cx.add x y)
      | some x, none => some x
      | none, _ => none := by
  induction a generalizing b i with
  | nil => rw [addInto_nil_left]; simp
  | cons x a ih =>
    cases b with
    | nil =>
      rw [addInto_nil_right]
      cases h : (x :: a)[i]? <;> simp
    | cons y b =>
      rw [addInto_cons]
      cases i with
      | zero => simp
      | succ i => simpa using ih b i
end imp

theorem readDataAux_length (old : Option Nat) (toks : List Tok) :
    3 * (readDataAux old toks).length ≤ toks.length := by
  fun_induction readDataAux old toks with
  | case1 old n a b rest re im ha hb ih =>
    simp only [List.length_append, List.length_cons]
    split_ifs <;> simp <;> omega
  | case2 => simp
  | case3 => simp

theorem readDataAux_values (old : Option Nat) (toks : List Tok) :
    ∀ r ∈ readDataAux old toks,
      (∃ t ∈ toks, t.val? = some r.1) ∧ (∃ t ∈ toks, t.val? = some r.2) := by
  fun_induction readDataAux old toks with
  | case1 old n a b rest re im ha hb ih =>
    intro r hr
    rw [List.mem_append] at hr
    rcases hr with hr | hr
    · split_ifs at hr
      · simp at hr
      · simp only [List.mem_singleton] at hr
        subst hr
        exact ⟨⟨a, by simp, hb⟩, ⟨b, by simp, ha⟩⟩
    · obtain ⟨⟨t1, m1, e1⟩, ⟨t2, m2, e2⟩⟩ := ih r hr
      exact ⟨⟨t1, by simp [m1], e1⟩, ⟨t2, by simp [m2], e2⟩⟩
  | case2 => simp
  | case3 => simp

theorem readDataAux_garbage (old : Option Nat) (t : Tok) (rest : List Tok) (h : ∀ n, t ≠ .idx n) :
    readDataAux old (t :: rest) = [] := by
  cases t with
  | idx n => exact absurd rfl (h n)
  | num v => simp [readDataAux]
  | bad => simp [readDataAux]


end Inovesa
