/- helper lemmas for C05 (Haissinski equilibrium): the loop body under static RF without
   renormalisation, and the calculus behind the Haissinski relation -/
import InovesaModel.Lemmas.Main
import Mathlib.Analysis.SpecialFunctions.ExpDeriv
import Mathlib.Analysis.SpecialFunctions.Log.Deriv
import Mathlib.Analysis.Calculus.MeanValue
namespace Inovesa
open Gen

/-! ### the generated loop body -/
section loop
variable {V : Type} (sem : Sem V) (c : MCfg) (s : MState V)

/-- grid after one iteration with static RF and no renormalisation in this step -/
theorem body_grid_static (hd : c.hasDrfm = false) (hr : condHolds c s .renormNow = false) :
    (execBlock sem c loopBody s).grid
      = sem.fp (sem.drift (sem.rfStatic
          (if c.hasWake then sem.kick s.grid (sem.wake s.xp) else sem.ident s.grid))) := by
  rw [condHolds_renormNow] at hr
  rw [body_grid]
  simp only [stepGrid, gridR, rfGrid, hd, hr]
  simp

/-- wake dataset after an iteration in which a record is written, with impedance -/
theorem body_wake_written (hw : c.hasWake = true) (hf : c.hasFile = true)
    (ho : condHolds c s .outNow = true) :
    (execBlock sem c loopBody s).file.wake = s.file.wake ++ [sem.wake s.xp] := by
  rw [condHolds_outNow] at ho
  rw [body_wake]
  simp [wr, ho, hf, hw]

end loop

/-! ### calculus -/
section calculus
open Real

/-- derivative of the unit Gaussian `exp (−p²/2)` -/
theorem hasDerivAt_unitGauss (p : ℝ) :
    HasDerivAt (fun p : ℝ => exp (-(p ^ 2) / 2)) (-p * exp (-(p ^ 2) / 2)) p := by
  have h1 : HasDerivAt (fun p : ℝ => -(p ^ 2) / 2) (-p) p := by
    have h : HasDerivAt (fun p : ℝ => -(p ^ 2) / 2) (-(((2 : ℕ) : ℝ) * p ^ (2 - 1)) / 2) p :=
      ((hasDerivAt_pow 2 p).neg).div_const 2
    exact h.congr_deriv (by norm_num; ring)
  have h2 := h1.exp
  convert h2 using 1
  ring

/-- a function with derivative zero everywhere takes the same value at any two points -/
theorem eq_of_hasDerivAt_zero (f : ℝ → ℝ) (hf : ∀ x, HasDerivAt f 0 x) (a b : ℝ) : f a = f b :=
  is_const_of_deriv_eq_zero (fun x => (hf x).differentiableAt) (fun x => (hf x).deriv) a b

/-- `ln ρ + q²/2 − G` has derivative zero when `ρ' = −(q − F)ρ`, `G' = F`, `ρ ≠ 0` -/
theorem hasDerivAt_haissinski (ρ F G : ℝ → ℝ) (q : ℝ) (hne : ρ q ≠ 0)
    (hρ : HasDerivAt ρ (-(q - F q) * ρ q) q) (hG : HasDerivAt G (F q) q) :
    HasDerivAt (fun q => log (ρ q) + q ^ 2 / 2 - G q) 0 q := by
  have h1 := hρ.log hne
  have h2 : HasDerivAt (fun q : ℝ => q ^ 2 / 2) q q := by
    have h : HasDerivAt (fun q : ℝ => q ^ 2 / 2) ((((2 : ℕ) : ℝ) * q ^ (2 - 1)) / 2) q :=
      (hasDerivAt_pow 2 q).div_const 2
    exact h.congr_deriv (by norm_num)
  have h3 : HasDerivAt (fun q => log (ρ q) + q ^ 2 / 2 - G q)
      (-(q - F q) * ρ q / ρ q + q - F q) q := (h1.add h2).sub hG
  exact h3.congr_deriv (by field_simp; ring)

end calculus

end Inovesa
