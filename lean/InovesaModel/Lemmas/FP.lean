/- helper lemmas about the Fokker–Planck model (field interpretation) -/
import InovesaModel.Model.FokkerPlanck
import InovesaModel.Lemmas.Field
import Mathlib.Algebra.BigOperators.Intervals
import Mathlib.Algebra.BigOperators.Ring.Finset
import Mathlib.Tactic.Linarith
namespace Inovesa
open Gen

section basics
variable {α : Type} [Field α]

theorem zero_field : (zero : α) = 0 := by simp [zero]

theorem list_range_sum (n : ℕ) (F : ℕ → α) :
    ((List.range n).map F).sum = ∑ y ∈ Finset.range n, F y := by
  induction n with
  | zero => simp
  | succ n ih =>
    rw [List.range_succ, List.map_append, List.sum_append, ih, Finset.sum_range_succ]; simp

theorem foldl_acc (row : List (Hi α)) (rd : ℕ → α) (a : α) :
    row.foldl (fun v h => v + rd h.1 * h.2) a = a + (row.map fun h => rd h.1 * h.2).sum := by
  induction row generalizing a with
  | nil => simp
  | cons h t ih => simp [List.foldl_cons, ih, add_assoc]

theorem fpCell_eq (row : List (Hi α)) (rd : ℕ → α) :
    fpCell row rd = (row.map fun h => rd h.1 * h.2).sum := by
  unfold fpCell; rw [foldl_acc, zero_field, zero_add]

/-- weight with which source cell `s` occurs in a row -/
def rowEntry (row : List (Hi α)) (s : ℕ) : α :=
  ((row.filter fun h => h.1 = s).map fun h => h.2).sum

theorem rowEntry_nil (s : ℕ) : rowEntry ([] : List (Hi α)) s = 0 := by simp [rowEntry]

theorem rowEntry_cons (i : ℕ) (a : α) (t : List (Hi α)) (s : ℕ) :
    rowEntry ((i, a) :: t) s = (if i = s then a else 0) + rowEntry t s := by
  unfold rowEntry
  by_cases h : i = s <;> simp [h]

theorem row_sum_eq (n : ℕ) (row : List (Hi α)) (rd : ℕ → α) (h : ∀ x ∈ row, x.1 < n) :
    (row.map fun h => rd h.1 * h.2).sum = ∑ s ∈ Finset.range n, rd s * rowEntry row s := by
  induction row with
  | nil => simp [rowEntry_nil]
  | cons x t ih =>
    obtain ⟨i, a⟩ := x
    have hi : i < n := h (i, a) (by simp)
    have ht : ∀ x ∈ t, x.1 < n := fun x hx => h x (by simp [hx])
    simp only [List.map_cons, List.sum_cons, ih ht, rowEntry_cons, mul_add, Finset.sum_add_distrib]
    congr 1
    simp [Finset.sum_ite_eq, hi]

theorem transport (n : ℕ) (rowAt : ℕ → List (Hi α)) (rd g : ℕ → α)
    (hidx : ∀ y, y < n → ∀ h ∈ rowAt y, h.1 < n) :
    ((List.range n).map fun y => g y * fpCell (rowAt y) rd).sum
      = ((List.range n).map fun s => rd s *
          ((List.range n).map fun y => g y * rowEntry (rowAt y) s).sum).sum := by
  rw [list_range_sum, list_range_sum]
  have : ∀ y ∈ Finset.range n, g y * fpCell (rowAt y) rd
      = ∑ s ∈ Finset.range n, rd s * (g y * rowEntry (rowAt y) s) := by
    intro y hy
    rw [fpCell_eq, row_sum_eq n _ _ (hidx y (Finset.mem_range.mp hy)), Finset.mul_sum]
    exact Finset.sum_congr rfl fun s _ => by ring
  rw [Finset.sum_congr rfl this, Finset.sum_comm]
  refine Finset.sum_congr rfl fun s _ => ?_
  rw [list_range_sum, Finset.mul_sum]

end basics

section winners

theorem pos_fromEnd (n jc c : ℕ) (hc : c ≤ n) (hn : n < 2 ^ 31) :
    (FPBound.fromEnd c).pos n jc = n - c := by
  show (n + W32 - c) % W32 = n - c
  unfold W32; omega

theorem pos_const (n jc c : ℕ) : (FPBound.const c).pos n jc = c := rfl
theorem pos_truncYc (n jc : ℕ) : (FPBound.truncYc).pos n jc = jc := rfl

theorem covers_row (n jc : ℕ) (ltyc : ℕ → Bool) (j : ℕ) (r : FPBound) (b : ℕ) :
    (FPWriter.row r b).covers n jc ltyc j = true ↔ j = r.pos n jc := by
  simp [FPWriter.covers]

theorem covers_loop_fromEnd (n jc : ℕ) (ltyc : ℕ → Bool) (j : ℕ) (lo : FPBound) (c b : ℕ) :
    (FPWriter.loop lo (.fromEnd c) b).covers n jc ltyc j = true
      ↔ lo.pos n jc ≤ j ∧ j < (FPBound.fromEnd c).pos n jc := by
  simp [FPWriter.covers]

theorem covers_loop_ltYc (n jc : ℕ) (ltyc : ℕ → Bool) (j : ℕ) (lo : FPBound) (b : ℕ) :
    (FPWriter.loop lo .ltYc b).covers n jc ltyc j = true
      ↔ lo.pos n jc ≤ j ∧ ltyc j = true := by
  simp [FPWriter.covers]

theorem fpWinner3_list (n jc : ℕ) (ltyc : ℕ → Bool) (j : ℕ) :
    fpWinner 3 n jc ltyc j =
      [FPWriter.row (.fromEnd 1) 2, .loop (.const 1) (.fromEnd 1) 1, .row (.const 0) 0].find?
        (FPWriter.covers n jc ltyc j) := rfl

theorem fpWinner4_list (n jc : ℕ) (ltyc : ℕ → Bool) (j : ℕ) :
    fpWinner 4 n jc ltyc j =
      [FPWriter.row (.fromEnd 1) 5, .row (.fromEnd 2) 4, .loop .truncYc (.fromEnd 2) 3,
       .loop (.const 2) .ltYc 2, .row (.const 1) 1, .row (.const 0) 0].find?
        (FPWriter.covers n jc ltyc j) := rfl

theorem fpWinner3_interior (n jc : ℕ) (ltyc : ℕ → Bool) (j : ℕ)
    (h1 : 1 ≤ j) (h2 : j + 2 ≤ n) (hn : n < 2 ^ 31) :
    fpWinner 3 n jc ltyc j = some (.loop (.const 1) (.fromEnd 1) 1) := by
  rw [fpWinner3_list, List.find?_cons_of_neg, List.find?_cons_of_pos]
  · rw [covers_loop_fromEnd, pos_fromEnd n jc 1 (by omega) hn, pos_const]; omega
  · rw [covers_row, pos_fromEnd n jc 1 (by omega) hn]; omega


end winners

section dt3
variable {α : Type} [Field α]

theorem fpWinner3_zero (n jc : ℕ) (ltyc : ℕ → Bool) (h2 : 2 ≤ n) (hn : n < 2 ^ 31) :
    fpWinner 3 n jc ltyc 0 = some (.row (.const 0) 0) := by
  rw [fpWinner3_list, List.find?_cons_of_neg, List.find?_cons_of_neg, List.find?_cons_of_pos]
  · rw [covers_row, pos_const]
  · rw [covers_loop_fromEnd, pos_const]; omega
  · rw [covers_row, pos_fromEnd n jc 1 (by omega) hn]; omega

theorem fpWinner3_last (n jc : ℕ) (ltyc : ℕ → Bool) (j : ℕ) (h2 : 1 ≤ n) (hn : n < 2 ^ 31)
    (hj : j + 1 = n) :
    fpWinner 3 n jc ltyc j = some (.row (.fromEnd 1) 2) := by
  rw [fpWinner3_list, List.find?_cons_of_pos]
  rw [covers_row, pos_fromEnd n jc 1 (by omega) hn]; omega

/-- the three weights (lower, diagonal, upper neighbour) of the 3-point stencil -/
def w3 (ft : ℕ) (e1 δ pj : α) : α × α × α :=
  match ft with
  | 0 => (0, 1, 0)
  | 1 => (-(e1 / (2 * δ)) * pj, 1 + e1, e1 / (2 * δ) * pj)
  | 2 => (e1 / (δ * δ), 1 + -2 * (e1 / (δ * δ)), e1 / (δ * δ))
  | _ => (-(e1 / (2 * δ)) * pj + e1 / (δ * δ), 1 + e1 + -2 * (e1 / (δ * δ)),
          e1 / (2 * δ) * pj + e1 / (δ * δ))

/-- the all-zero rows written at the borders -/
def zrow3 : List (Hi α) := [(0, 0), (0, 0), (0, 0)]
def zrow4 : List (Hi α) := [(0, 0), (0, 0), (0, 0), (0, 0)]

theorem fpBody3_zero (ft : ℕ) (hft : ft = 0 ∨ ft = 1 ∨ ft = 2 ∨ ft = 3) (b : ℕ) (hb : b = 0 ∨ b = 2)
    (e1 δ : α) (p : ℕ → α) (j : ℕ) : fpBody 3 ft b e1 δ p j = zrow3 := by
  rcases hft with rfl | rfl | rfl | rfl <;> rcases hb with rfl | rfl <;> simp [fpBody, zrow3]

theorem fpBody3_one (ft : ℕ) (hft : ft = 0 ∨ ft = 1 ∨ ft = 2 ∨ ft = 3)
    (e1 δ : α) (p : ℕ → α) (j : ℕ) (h1 : 1 ≤ j) (hj : j < 2 ^ 31) :
    fpBody 3 ft 1 e1 δ p j
      = [(j - 1, (w3 ft e1 δ (p j)).1), (j, (w3 ft e1 δ (p j)).2.1),
         (j + 1, (w3 ft e1 δ (p j)).2.2)] := by
  have i0 : (j + 4294967296 - 1) % 4294967296 = j - 1 := by omega
  have i2 : (j + 1) % 4294967296 = j + 1 := by omega
  rcases hft with rfl | rfl | rfl | rfl <;> simp only [fpBody] <;> rw [i0, i2] <;> simp [w3]

theorem fpRowAt3_zero (ft n jc : ℕ) (ltyc : ℕ → Bool) (hft : ft = 0 ∨ ft = 1 ∨ ft = 2 ∨ ft = 3)
    (h2 : 2 ≤ n) (hn : n < 2 ^ 31) (e1 δ : α) (p : ℕ → α) :
    fpRowAt 3 ft n jc ltyc e1 δ p 0 = zrow3 := by
  rw [fpRowAt, fpWinner3_zero n jc ltyc h2 hn]
  exact fpBody3_zero ft hft 0 (Or.inl rfl) e1 δ p 0

theorem fpRowAt3_last (ft n jc : ℕ) (ltyc : ℕ → Bool) (hft : ft = 0 ∨ ft = 1 ∨ ft = 2 ∨ ft = 3)
    (hn : n < 2 ^ 31) (e1 δ : α) (p : ℕ → α) (j : ℕ) (hj : j + 1 = n) :
    fpRowAt 3 ft n jc ltyc e1 δ p j = zrow3 := by
  rw [fpRowAt, fpWinner3_last n jc ltyc j (by omega) hn hj]
  exact fpBody3_zero ft hft 2 (Or.inr rfl) e1 δ p j

theorem fpRowAt3_interior (ft n jc : ℕ) (ltyc : ℕ → Bool) (hft : ft = 0 ∨ ft = 1 ∨ ft = 2 ∨ ft = 3)
    (hn : n < 2 ^ 31) (e1 δ : α) (p : ℕ → α) (j : ℕ) (h1 : 1 ≤ j) (h2 : j + 2 ≤ n) :
    fpRowAt 3 ft n jc ltyc e1 δ p j
      = [(j - 1, (w3 ft e1 δ (p j)).1), (j, (w3 ft e1 δ (p j)).2.1),
         (j + 1, (w3 ft e1 δ (p j)).2.2)] := by
  rw [fpRowAt, fpWinner3_interior n jc ltyc j h1 h2 hn]
  exact fpBody3_one ft hft e1 δ p j h1 (by omega)

theorem rowEntry_zrow3 (s : ℕ) : rowEntry (zrow3 : List (Hi α)) s = 0 := by
  simp [zrow3, rowEntry_cons, rowEntry_nil]

theorem rowEntry_zrow4 (s : ℕ) : rowEntry (zrow4 : List (Hi α)) s = 0 := by
  simp [zrow4, rowEntry_cons, rowEntry_nil]

theorem fp3_indices (ft n jc : ℕ) (ltyc : ℕ → Bool) (hft : ft = 0 ∨ ft = 1 ∨ ft = 2 ∨ ft = 3)
    (h3 : 3 ≤ n) (hn : n < 2 ^ 31) (e1 δ : α) (p : ℕ → α) (y : ℕ) (hy : y < n) :
    ∀ h ∈ fpRowAt 3 ft n jc ltyc e1 δ p y, h.1 < n := by
  intro h hh
  by_cases h0 : y = 0
  · subst h0
    rw [fpRowAt3_zero ft n jc ltyc hft (by omega) hn] at hh
    simp only [zrow3, List.mem_cons, List.not_mem_nil, or_false, or_self] at hh
    subst hh; show 0 < n; omega
  · by_cases hl : y + 1 = n
    · rw [fpRowAt3_last ft n jc ltyc hft hn e1 δ p y hl] at hh
      simp only [zrow3, List.mem_cons, List.not_mem_nil, or_false, or_self] at hh
      subst hh; show 0 < n; omega
    · rw [fpRowAt3_interior ft n jc ltyc hft hn e1 δ p y (by omega) (by omega)] at hh
      simp only [List.mem_cons, List.not_mem_nil, or_false] at hh
      rcases hh with rfl | rfl | rfl
      · show y - 1 < n; omega
      · show y < n; omega
      · show y + 1 < n; omega

/-- weight of source cell `s` in an interior row of the 3-point table -/
theorem rowEntry3_interior (ft n jc : ℕ) (ltyc : ℕ → Bool)
    (hft : ft = 0 ∨ ft = 1 ∨ ft = 2 ∨ ft = 3)
    (hn : n < 2 ^ 31) (e1 δ : α) (p : ℕ → α) (y s : ℕ) (h1 : 1 ≤ y) (h2 : y + 2 ≤ n) :
    rowEntry (fpRowAt 3 ft n jc ltyc e1 δ p y) s
      = (if y = s + 1 then (w3 ft e1 δ (p y)).1 else 0)
        + (if y = s then (w3 ft e1 δ (p y)).2.1 else 0)
        + (if y + 1 = s then (w3 ft e1 δ (p y)).2.2 else 0) := by
  rw [fpRowAt3_interior ft n jc ltyc hft hn e1 δ p y h1 h2]
  simp only [rowEntry_cons, rowEntry_nil, add_zero, add_assoc]
  have : (y - 1 = s) ↔ (y = s + 1) := by omega
  simp only [this]

theorem rowEntry3_border (ft n jc : ℕ) (ltyc : ℕ → Bool)
    (hft : ft = 0 ∨ ft = 1 ∨ ft = 2 ∨ ft = 3) (h2 : 2 ≤ n)
    (hn : n < 2 ^ 31) (e1 δ : α) (p : ℕ → α) (y s : ℕ) (hy : y = 0 ∨ y + 1 = n) :
    rowEntry (fpRowAt 3 ft n jc ltyc e1 δ p y) s = 0 := by
  rcases hy with rfl | hy
  · rw [fpRowAt3_zero ft n jc ltyc hft h2 hn, rowEntry_zrow3]
  · rw [fpRowAt3_last ft n jc ltyc hft hn e1 δ p y hy, rowEntry_zrow3]

end dt3

section sums
variable {α : Type} [Field α]

/-- a sum over `List.range n` of a function vanishing outside an explicit duplicate-free
    list of indices below `n` is the sum over that list -/
theorem range_sum_eq_list (n : ℕ) (F : ℕ → α) (L : List ℕ) (hnd : L.Nodup)
    (hL : ∀ y ∈ L, y < n) (h0 : ∀ y, y < n → y ∉ L → F y = 0) :
    ((List.range n).map F).sum = (L.map F).sum := by
  rw [list_range_sum, ← List.sum_toFinset F hnd]
  symm
  apply Finset.sum_subset
  · intro y hy; rw [List.mem_toFinset] at hy; exact Finset.mem_range.mpr (hL y hy)
  · intro y hy hy'
    rw [List.mem_toFinset] at hy'
    exact h0 y (Finset.mem_range.mp hy) hy'

/-- column moment of an interior column of the 3-point table: three rows contribute -/
theorem colMoment3 (ft n jc : ℕ) (ltyc : ℕ → Bool) (hft : ft = 0 ∨ ft = 1 ∨ ft = 2 ∨ ft = 3)
    (hn : n < 2 ^ 31) (e1 δ : α) (p g : ℕ → α) (t : ℕ) (ht : t + 5 ≤ n) :
    ((List.range n).map fun y => g y * rowEntry (fpRowAt 3 ft n jc ltyc e1 δ p y) (t + 2)).sum
      = g (t + 1) * (w3 ft e1 δ (p (t + 1))).2.2
        + g (t + 2) * (w3 ft e1 δ (p (t + 2))).2.1
        + g (t + 3) * (w3 ft e1 δ (p (t + 3))).1 := by
  rw [range_sum_eq_list n _ [t + 1, t + 2, t + 3] (by simp) (by simp; omega)]
  · simp only [List.map_cons, List.map_nil, List.sum_cons, List.sum_nil, add_zero]
    rw [rowEntry3_interior ft n jc ltyc hft hn e1 δ p (t + 1) (t + 2) (by omega) (by omega),
      rowEntry3_interior ft n jc ltyc hft hn e1 δ p (t + 2) (t + 2) (by omega) (by omega),
      rowEntry3_interior ft n jc ltyc hft hn e1 δ p (t + 3) (t + 2) (by omega) (by omega)]
    simp [add_assoc]
  · intro y hy hL
    simp only [List.mem_cons, List.not_mem_nil, or_false, not_or] at hL
    by_cases hb : y = 0 ∨ y + 1 = n
    · rw [rowEntry3_border ft n jc ltyc hft (by omega) hn e1 δ p y _ hb, mul_zero]
    · rw [rowEntry3_interior ft n jc ltyc hft hn e1 δ p y (t + 2) (by omega) (by omega),
        if_neg (by omega), if_neg (by omega), if_neg (by omega)]
      simp

end sums

section invalid
variable {α : Type} [Arith α]

theorem fpBody_invalid (dt ft b : ℕ) (h : 4 ≤ ft) (e1 δ : α) (p : ℕ → α) (j : ℕ) :
    fpBody dt ft b e1 δ p j = [] := by
  unfold fpBody
  split <;> first | rfl | (exfalso; omega)

theorem fpRowAt_invalid (dt ft n jc : ℕ) (ltyc : ℕ → Bool) (h : 4 ≤ ft) (e1 δ : α) (p : ℕ → α)
    (j : ℕ) : fpRowAt dt ft n jc ltyc e1 δ p j = [] := by
  unfold fpRowAt
  split
  · exact fpBody_invalid _ _ _ h _ _ _ _
  · rfl

theorem valid_or_ge (ft : ℕ) : (ft = 0 ∨ ft = 1 ∨ ft = 2 ∨ ft = 3) ∨ 4 ≤ ft := by omega
end invalid

section steps
variable {α : Type} [Field α]

/-- transport with known column moments on the support of the data -/
theorem moment_step (n : ℕ) (rowAt : ℕ → List (Hi α)) (rd g c : ℕ → α)
    (hidx : ∀ y, y < n → ∀ h ∈ rowAt y, h.1 < n)
    (hcol : ∀ s, s < n → rd s ≠ 0 →
      ((List.range n).map fun y => g y * rowEntry (rowAt y) s).sum = c s) :
    ((List.range n).map fun y => g y * fpCell (rowAt y) rd).sum
      = ((List.range n).map fun s => rd s * c s).sum := by
  rw [transport n rowAt rd g hidx, list_range_sum, list_range_sum]
  refine Finset.sum_congr rfl fun s hs => ?_
  by_cases h0 : rd s = 0
  · rw [h0, zero_mul, zero_mul]
  · rw [hcol s (Finset.mem_range.mp hs) h0]

theorem line_conserves (n : ℕ) (rowAt : ℕ → List (Hi α)) (rd : ℕ → α)
    (hidx : ∀ y, y < n → ∀ h ∈ rowAt y, h.1 < n)
    (hcol : ∀ s, s < n → rd s ≠ 0 →
      ((List.range n).map fun y => (1 : α) * rowEntry (rowAt y) s).sum = 1) :
    ((List.range n).map fun y => fpCell (rowAt y) rd).sum = ((List.range n).map rd).sum := by
  have := moment_step n rowAt rd (fun _ => 1) (fun _ => 1) hidx hcol
  simpa using this

end steps


section recurrence
variable {α : Type} [Field α]

/-- one step of `x ↦ (1−2e1)·x + c` contracts the distance to the fixed point `c/(2e1)` -/
theorem step_dist (e1 c : α) (h2 : (2 : α) ≠ 0) (he : e1 ≠ 0) (a : α) :
    ((1 - 2 * e1) * a + c) - c / (2 * e1) = (1 - 2 * e1) * (a - c / (2 * e1)) := by
  field_simp
  ring

end recurrence


section dt4
variable {α : Type} [Field α]

theorem fpWinner4_last (n jc : ℕ) (ltyc : ℕ → Bool) (j : ℕ) (hn : n < 2 ^ 31) (hj : j + 1 = n) :
    fpWinner 4 n jc ltyc j = some (.row (.fromEnd 1) 5) := by
  rw [fpWinner4_list, List.find?_cons_of_pos]
  rw [covers_row, pos_fromEnd n jc 1 (by omega) hn]; omega

theorem fpWinner4_last2 (n jc : ℕ) (ltyc : ℕ → Bool) (j : ℕ) (hn : n < 2 ^ 31) (hj : j + 2 = n) :
    fpWinner 4 n jc ltyc j = some (.row (.fromEnd 2) 4) := by
  rw [fpWinner4_list, List.find?_cons_of_neg, List.find?_cons_of_pos]
  · rw [covers_row, pos_fromEnd n jc 2 (by omega) hn]; omega
  · rw [covers_row, pos_fromEnd n jc 1 (by omega) hn]; omega

theorem fpWinner4_hi (n jc : ℕ) (ltyc : ℕ → Bool) (j : ℕ) (hn : n < 2 ^ 31)
    (h1 : jc ≤ j) (h2 : j + 3 ≤ n) :
    fpWinner 4 n jc ltyc j = some (.loop .truncYc (.fromEnd 2) 3) := by
  rw [fpWinner4_list, List.find?_cons_of_neg, List.find?_cons_of_neg, List.find?_cons_of_pos]
  · rw [covers_loop_fromEnd, pos_fromEnd n jc 2 (by omega) hn, pos_truncYc]; omega
  · rw [covers_row, pos_fromEnd n jc 2 (by omega) hn]; omega
  · rw [covers_row, pos_fromEnd n jc 1 (by omega) hn]; omega

theorem fpWinner4_lo (n jc : ℕ) (ltyc : ℕ → Bool) (j : ℕ) (hn : n < 2 ^ 31)
    (h0 : 2 ≤ j) (h1 : j < jc) (h2 : j + 3 ≤ n) (hl : ltyc j = true) :
    fpWinner 4 n jc ltyc j = some (.loop (.const 2) .ltYc 2) := by
  rw [fpWinner4_list, List.find?_cons_of_neg, List.find?_cons_of_neg, List.find?_cons_of_neg,
    List.find?_cons_of_pos]
  · rw [covers_loop_ltYc, pos_const]; exact ⟨h0, hl⟩
  · rw [covers_loop_fromEnd, pos_fromEnd n jc 2 (by omega) hn, pos_truncYc]; omega
  · rw [covers_row, pos_fromEnd n jc 2 (by omega) hn]; omega
  · rw [covers_row, pos_fromEnd n jc 1 (by omega) hn]; omega

theorem fpWinner4_one (n jc : ℕ) (ltyc : ℕ → Bool) (hn : n < 2 ^ 31)
    (h1 : 1 < jc) (h2 : 4 ≤ n) :
    fpWinner 4 n jc ltyc 1 = some (.row (.const 1) 1) := by
  rw [fpWinner4_list, List.find?_cons_of_neg, List.find?_cons_of_neg, List.find?_cons_of_neg,
    List.find?_cons_of_neg, List.find?_cons_of_pos]
  · rw [covers_row, pos_const]
  · rw [covers_loop_ltYc, pos_const]; omega
  · rw [covers_loop_fromEnd, pos_fromEnd n jc 2 (by omega) hn, pos_truncYc]; omega
  · rw [covers_row, pos_fromEnd n jc 2 (by omega) hn]; omega
  · rw [covers_row, pos_fromEnd n jc 1 (by omega) hn]; omega

theorem fpWinner4_zero (n jc : ℕ) (ltyc : ℕ → Bool) (hn : n < 2 ^ 31)
    (h1 : 0 < jc) (h2 : 3 ≤ n) :
    fpWinner 4 n jc ltyc 0 = some (.row (.const 0) 0) := by
  rw [fpWinner4_list, List.find?_cons_of_neg, List.find?_cons_of_neg, List.find?_cons_of_neg,
    List.find?_cons_of_neg, List.find?_cons_of_neg, List.find?_cons_of_pos]
  · rw [covers_row, pos_const]
  · rw [covers_row, pos_const]; omega
  · rw [covers_loop_ltYc, pos_const]; omega
  · rw [covers_loop_fromEnd, pos_fromEnd n jc 2 (by omega) hn, pos_truncYc]; omega
  · rw [covers_row, pos_fromEnd n jc 2 (by omega) hn]; omega
  · rw [covers_row, pos_fromEnd n jc 1 (by omega) hn]; omega

/-- `j - 1` in `uint32` arithmetic, as the generated row bodies write it -/
def prevIdx (j : ℕ) : ℕ := (j + 4294967296 - 1) % 4294967296

theorem prevIdx_pos (j : ℕ) (h1 : 1 ≤ j) (hj : j < 2 ^ 31) : prevIdx j = j - 1 := by
  unfold prevIdx; omega

theorem prevIdx_zero : prevIdx 0 = 4294967295 := by
  unfold prevIdx; omega

/-- weights of the one-sided 4-point stencil below the switch row (indices j-2 … j+1) -/
def w4lo (ft : ℕ) (e1 δ pj : α) : α × α × α × α :=
  match ft with
  | 0 => (0, 0, 1, 0)
  | 1 => (e1 / (6 * δ) * pj, -(e1 / (6 * δ) * 6 * pj), 1 + (e1 + e1 / (6 * δ) * 3 * pj),
          e1 / (6 * δ) * 2 * pj)
  | 2 => (0, e1 / (δ * δ), 1 + -(2 * (e1 / (δ * δ))), e1 / (δ * δ))
  | _ => (e1 / (6 * δ) * pj, -(e1 / (6 * δ) * 6 * pj) + e1 / (δ * δ),
          1 + (e1 + e1 / (6 * δ) * 3 * pj) + -(2 * (e1 / (δ * δ))),
          e1 / (6 * δ) * 2 * pj + e1 / (δ * δ))

/-- weights of the one-sided 4-point stencil from the switch row on (indices j-1 … j+2) -/
def w4hi (ft : ℕ) (e1 δ pj : α) : α × α × α × α :=
  match ft with
  | 0 => (0, 1, 0, 0)
  | 1 => (-(e1 / (6 * δ) * 2 * pj), 1 + (e1 + -(e1 / (6 * δ) * 3 * pj)), e1 / (6 * δ) * 6 * pj,
          -(e1 / (6 * δ) * pj))
  | 2 => (e1 / (δ * δ), 1 + -(2 * (e1 / (δ * δ))), e1 / (δ * δ), 0)
  | _ => (-(e1 / (6 * δ) * 2 * pj) + e1 / (δ * δ),
          1 + (e1 + -(e1 / (6 * δ) * 3 * pj)) + -(2 * (e1 / (δ * δ))),
          e1 / (6 * δ) * 6 * pj + e1 / (δ * δ), -(e1 / (6 * δ) * pj))

theorem fpBody4_zero (ft : ℕ) (hft : ft = 0 ∨ ft = 1 ∨ ft = 2 ∨ ft = 3) (b : ℕ)
    (hb : b = 0 ∨ b = 1 ∨ b = 4 ∨ b = 5)
    (e1 δ : α) (p : ℕ → α) (j : ℕ) : fpBody 4 ft b e1 δ p j = zrow4 := by
  rcases hft with rfl | rfl | rfl | rfl <;> rcases hb with rfl | rfl | rfl | rfl <;>
    simp [fpBody, zrow4]

theorem fpBody4_lo (ft : ℕ) (hft : ft = 0 ∨ ft = 1 ∨ ft = 2 ∨ ft = 3)
    (e1 δ : α) (p : ℕ → α) (j : ℕ) (h1 : 2 ≤ j) (hj : j < 2 ^ 31) :
    fpBody 4 ft 2 e1 δ p j
      = [(j - 2, (w4lo ft e1 δ (p j)).1), (j - 1, (w4lo ft e1 δ (p j)).2.1),
         (j, (w4lo ft e1 δ (p j)).2.2.1), (j + 1, (w4lo ft e1 δ (p j)).2.2.2)] := by
  have i0 : (j + 4294967296 - 2) % 4294967296 = j - 2 := by omega
  have i1 : (j + 4294967296 - 1) % 4294967296 = j - 1 := by omega
  have i2 : (j + 1) % 4294967296 = j + 1 := by omega
  rcases hft with rfl | rfl | rfl | rfl <;> simp only [fpBody] <;> rw [i0, i1, i2] <;>
    simp [w4lo]

theorem fpBody4_hi (ft : ℕ) (hft : ft = 0 ∨ ft = 1 ∨ ft = 2 ∨ ft = 3)
    (e1 δ : α) (p : ℕ → α) (j : ℕ) (hj : j < 2 ^ 31) :
    fpBody 4 ft 3 e1 δ p j
      = [(prevIdx j, (w4hi ft e1 δ (p j)).1), (j, (w4hi ft e1 δ (p j)).2.1),
         (j + 1, (w4hi ft e1 δ (p j)).2.2.1), (j + 2, (w4hi ft e1 δ (p j)).2.2.2)] := by
  have i0 : (j + 4294967296 - 1) % 4294967296 = prevIdx j := rfl
  have i1 : (j + 2) % 4294967296 = j + 2 := by omega
  have i2 : (j + 1) % 4294967296 = j + 1 := by omega
  rcases hft with rfl | rfl | rfl | rfl <;> simp only [fpBody] <;> rw [i0, i1, i2] <;>
    simp [w4hi]

end dt4


section dt4rows
variable {α : Type} [Field α]

/-- border rows of the 4-point table (rows 0, 1 below the switch row, rows n-2, n-1) -/
theorem fpRowAt4_zero (ft n jc : ℕ) (ltyc : ℕ → Bool) (hft : ft = 0 ∨ ft = 1 ∨ ft = 2 ∨ ft = 3)
    (h4 : 4 ≤ n) (hn : n < 2 ^ 31) (e1 δ : α) (p : ℕ → α) (y : ℕ) (hy : y < n)
    (hz : n ≤ y + 2 ∨ (y < 2 ∧ y < jc)) :
    fpRowAt 4 ft n jc ltyc e1 δ p y = zrow4 := by
  by_cases ha : y + 1 = n
  · rw [fpRowAt, fpWinner4_last n jc ltyc y hn ha]
    exact fpBody4_zero ft hft 5 (by simp) e1 δ p y
  by_cases hb : y + 2 = n
  · rw [fpRowAt, fpWinner4_last2 n jc ltyc y hn hb]
    exact fpBody4_zero ft hft 4 (by simp) e1 δ p y
  have hz' : y < 2 ∧ y < jc := by omega
  by_cases hc : y = 0
  · subst hc
    rw [fpRowAt, fpWinner4_zero n jc ltyc hn hz'.2 (by omega)]
    exact fpBody4_zero ft hft 0 (by simp) e1 δ p 0
  · have hd : y = 1 := by omega
    subst hd
    rw [fpRowAt, fpWinner4_one n jc ltyc hn hz'.2 h4]
    exact fpBody4_zero ft hft 1 (by simp) e1 δ p 1

theorem fpRowAt4_lo (ft n jc : ℕ) (ltyc : ℕ → Bool) (hft : ft = 0 ∨ ft = 1 ∨ ft = 2 ∨ ft = 3)
    (hn : n < 2 ^ 31) (hsplit : ∀ j, j < jc → ltyc j = true) (e1 δ : α) (p : ℕ → α) (y : ℕ)
    (h0 : 2 ≤ y) (h1 : y < jc) (h2 : y + 3 ≤ n) :
    fpRowAt 4 ft n jc ltyc e1 δ p y
      = [(y - 2, (w4lo ft e1 δ (p y)).1), (y - 1, (w4lo ft e1 δ (p y)).2.1),
         (y, (w4lo ft e1 δ (p y)).2.2.1), (y + 1, (w4lo ft e1 δ (p y)).2.2.2)] := by
  rw [fpRowAt, fpWinner4_lo n jc ltyc y hn h0 h1 h2 (hsplit y h1)]
  exact fpBody4_lo ft hft e1 δ p y h0 (by omega)

theorem fpRowAt4_hi (ft n jc : ℕ) (ltyc : ℕ → Bool) (hft : ft = 0 ∨ ft = 1 ∨ ft = 2 ∨ ft = 3)
    (hn : n < 2 ^ 31) (e1 δ : α) (p : ℕ → α) (y : ℕ) (h1 : jc ≤ y) (h2 : y + 3 ≤ n) :
    fpRowAt 4 ft n jc ltyc e1 δ p y
      = [(prevIdx y, (w4hi ft e1 δ (p y)).1), (y, (w4hi ft e1 δ (p y)).2.1),
         (y + 1, (w4hi ft e1 δ (p y)).2.2.1), (y + 2, (w4hi ft e1 δ (p y)).2.2.2)] := by
  rw [fpRowAt, fpWinner4_hi n jc ltyc y hn h1 h2]
  exact fpBody4_hi ft hft e1 δ p y (by omega)

/-- every row below `n` is of exactly one of the three kinds -/
theorem fp4_row_kind (n jc y : ℕ) (_hy : y < n) :
    (n ≤ y + 2 ∨ (y < 2 ∧ y < jc)) ∨ (2 ≤ y ∧ y < jc ∧ y + 3 ≤ n) ∨ (jc ≤ y ∧ y + 3 ≤ n) := by
  omega

theorem fp4_indices (ft n jc : ℕ) (ltyc : ℕ → Bool) (hft : ft = 0 ∨ ft = 1 ∨ ft = 2 ∨ ft = 3)
    (h4 : 4 ≤ n) (hn : n < 2 ^ 31) (hjc : 1 ≤ jc) (hsplit : ∀ j, j < jc → ltyc j = true)
    (e1 δ : α) (p : ℕ → α) (y : ℕ) (hy : y < n) :
    ∀ h ∈ fpRowAt 4 ft n jc ltyc e1 δ p y, h.1 < n := by
  intro h hh
  rcases fp4_row_kind n jc y hy with hz | ⟨h0, h1, h2⟩ | ⟨h1, h2⟩
  · rw [fpRowAt4_zero ft n jc ltyc hft h4 hn e1 δ p y hy hz] at hh
    simp only [zrow4, List.mem_cons, List.not_mem_nil, or_false, or_self] at hh
    subst hh; show 0 < n; omega
  · rw [fpRowAt4_lo ft n jc ltyc hft hn hsplit e1 δ p y h0 h1 h2] at hh
    simp only [List.mem_cons, List.not_mem_nil, or_false] at hh
    rcases hh with rfl | rfl | rfl | rfl
    · show y - 2 < n; omega
    · show y - 1 < n; omega
    · show y < n; omega
    · show y + 1 < n; omega
  · rw [fpRowAt4_hi ft n jc ltyc hft hn e1 δ p y h1 h2] at hh
    simp only [List.mem_cons, List.not_mem_nil, or_false] at hh
    rcases hh with rfl | rfl | rfl | rfl
    · show prevIdx y < n; rw [prevIdx_pos y (by omega) (by omega)]; omega
    · show y < n; omega
    · show y + 1 < n; omega
    · show y + 2 < n; omega

theorem rowEntry4_zero (ft n jc : ℕ) (ltyc : ℕ → Bool) (hft : ft = 0 ∨ ft = 1 ∨ ft = 2 ∨ ft = 3)
    (h4 : 4 ≤ n) (hn : n < 2 ^ 31) (e1 δ : α) (p : ℕ → α) (y s : ℕ) (hy : y < n)
    (hz : n ≤ y + 2 ∨ (y < 2 ∧ y < jc)) :
    rowEntry (fpRowAt 4 ft n jc ltyc e1 δ p y) s = 0 := by
  rw [fpRowAt4_zero ft n jc ltyc hft h4 hn e1 δ p y hy hz, rowEntry_zrow4]

theorem rowEntry4_lo (ft n jc : ℕ) (ltyc : ℕ → Bool) (hft : ft = 0 ∨ ft = 1 ∨ ft = 2 ∨ ft = 3)
    (hn : n < 2 ^ 31) (hsplit : ∀ j, j < jc → ltyc j = true) (e1 δ : α) (p : ℕ → α) (y s : ℕ)
    (h0 : 2 ≤ y) (h1 : y < jc) (h2 : y + 3 ≤ n) :
    rowEntry (fpRowAt 4 ft n jc ltyc e1 δ p y) s
      = (if y = s + 2 then (w4lo ft e1 δ (p y)).1 else 0)
        + (if y = s + 1 then (w4lo ft e1 δ (p y)).2.1 else 0)
        + (if y = s then (w4lo ft e1 δ (p y)).2.2.1 else 0)
        + (if y + 1 = s then (w4lo ft e1 δ (p y)).2.2.2 else 0) := by
  rw [fpRowAt4_lo ft n jc ltyc hft hn hsplit e1 δ p y h0 h1 h2]
  simp only [rowEntry_cons, rowEntry_nil, add_zero, add_assoc]
  have a : (y - 2 = s) ↔ (y = s + 2) := by omega
  have b : (y - 1 = s) ↔ (y = s + 1) := by omega
  simp only [a, b]

theorem rowEntry4_hi (ft n jc : ℕ) (ltyc : ℕ → Bool) (hft : ft = 0 ∨ ft = 1 ∨ ft = 2 ∨ ft = 3)
    (hn : n < 2 ^ 31) (e1 δ : α) (p : ℕ → α) (y s : ℕ)
    (h1 : jc ≤ y) (h2 : y + 3 ≤ n) (hs : s < 2 ^ 31) :
    rowEntry (fpRowAt 4 ft n jc ltyc e1 δ p y) s
      = (if y = s + 1 then (w4hi ft e1 δ (p y)).1 else 0)
        + (if y = s then (w4hi ft e1 δ (p y)).2.1 else 0)
        + (if y + 1 = s then (w4hi ft e1 δ (p y)).2.2.1 else 0)
        + (if y + 2 = s then (w4hi ft e1 δ (p y)).2.2.2 else 0) := by
  rw [fpRowAt4_hi ft n jc ltyc hft hn e1 δ p y h1 h2]
  simp only [rowEntry_cons, rowEntry_nil, add_zero, add_assoc]
  have a : (prevIdx y = s) ↔ (y = s + 1) := by
    by_cases h0 : y = 0
    · subst h0; rw [prevIdx_zero]; omega
    · rw [prevIdx_pos y (by omega) (by omega)]; omega
  simp only [a]

/-- column moment of a column well below the switch row: four `lo` rows contribute -/
theorem colMoment4_lo (ft n jc : ℕ) (ltyc : ℕ → Bool) (hft : ft = 0 ∨ ft = 1 ∨ ft = 2 ∨ ft = 3)
    (hn : n < 2 ^ 31) (hsplit : ∀ j, j < jc → ltyc j = true) (e1 δ : α) (p g : ℕ → α) (t : ℕ)
    (ht : t + 8 ≤ n) (hjc : t + 5 < jc) :
    ((List.range n).map fun y => g y * rowEntry (fpRowAt 4 ft n jc ltyc e1 δ p y) (t + 3)).sum
      = g (t + 2) * (w4lo ft e1 δ (p (t + 2))).2.2.2
        + g (t + 3) * (w4lo ft e1 δ (p (t + 3))).2.2.1
        + g (t + 4) * (w4lo ft e1 δ (p (t + 4))).2.1
        + g (t + 5) * (w4lo ft e1 δ (p (t + 5))).1 := by
  rw [range_sum_eq_list n _ [t + 2, t + 3, t + 4, t + 5] (by simp) (by simp; omega)]
  · simp only [List.map_cons, List.map_nil, List.sum_cons, List.sum_nil, add_zero]
    rw [rowEntry4_lo ft n jc ltyc hft hn hsplit e1 δ p (t + 2) (t + 3) (by omega) (by omega)
        (by omega),
      rowEntry4_lo ft n jc ltyc hft hn hsplit e1 δ p (t + 3) (t + 3) (by omega) (by omega)
        (by omega),
      rowEntry4_lo ft n jc ltyc hft hn hsplit e1 δ p (t + 4) (t + 3) (by omega) (by omega)
        (by omega),
      rowEntry4_lo ft n jc ltyc hft hn hsplit e1 δ p (t + 5) (t + 3) (by omega) (by omega)
        (by omega)]
    simp [add_assoc]
  · intro y hy hL
    simp only [List.mem_cons, List.not_mem_nil, or_false, not_or] at hL
    rcases fp4_row_kind n jc y hy with hz | ⟨h0, h1, h2⟩ | ⟨h1, h2⟩
    · rw [rowEntry4_zero ft n jc ltyc hft (by omega) hn e1 δ p y _ hy hz, mul_zero]
    · rw [rowEntry4_lo ft n jc ltyc hft hn hsplit e1 δ p y (t + 3) h0 h1 h2,
        if_neg (by omega), if_neg (by omega), if_neg (by omega), if_neg (by omega)]
      simp
    · rw [rowEntry4_hi ft n jc ltyc hft hn e1 δ p y (t + 3) h1 h2 (by omega),
        if_neg (by omega), if_neg (by omega), if_neg (by omega), if_neg (by omega)]
      simp

/-- column moment of a column well above the switch row: four `hi` rows contribute -/
theorem colMoment4_hi (ft n jc : ℕ) (ltyc : ℕ → Bool) (hft : ft = 0 ∨ ft = 1 ∨ ft = 2 ∨ ft = 3)
    (hn : n < 2 ^ 31) (hsplit : ∀ j, j < jc → ltyc j = true) (e1 δ : α) (p g : ℕ → α) (t : ℕ)
    (ht : t + 8 ≤ n) (hjc : jc ≤ t + 2) :
    ((List.range n).map fun y => g y * rowEntry (fpRowAt 4 ft n jc ltyc e1 δ p y) (t + 4)).sum
      = g (t + 2) * (w4hi ft e1 δ (p (t + 2))).2.2.2
        + g (t + 3) * (w4hi ft e1 δ (p (t + 3))).2.2.1
        + g (t + 4) * (w4hi ft e1 δ (p (t + 4))).2.1
        + g (t + 5) * (w4hi ft e1 δ (p (t + 5))).1 := by
  rw [range_sum_eq_list n _ [t + 2, t + 3, t + 4, t + 5] (by simp) (by simp; omega)]
  · simp only [List.map_cons, List.map_nil, List.sum_cons, List.sum_nil, add_zero]
    rw [rowEntry4_hi ft n jc ltyc hft hn e1 δ p (t + 2) (t + 4) (by omega) (by omega) (by omega),
      rowEntry4_hi ft n jc ltyc hft hn e1 δ p (t + 3) (t + 4) (by omega) (by omega) (by omega),
      rowEntry4_hi ft n jc ltyc hft hn e1 δ p (t + 4) (t + 4) (by omega) (by omega) (by omega),
      rowEntry4_hi ft n jc ltyc hft hn e1 δ p (t + 5) (t + 4) (by omega) (by omega) (by omega)]
    simp [add_assoc]
  · intro y hy hL
    simp only [List.mem_cons, List.not_mem_nil, or_false, not_or] at hL
    rcases fp4_row_kind n jc y hy with hz | ⟨h0, h1, h2⟩ | ⟨h1, h2⟩
    · rw [rowEntry4_zero ft n jc ltyc hft (by omega) hn e1 δ p y _ hy hz, mul_zero]
    · rw [rowEntry4_lo ft n jc ltyc hft hn hsplit e1 δ p y (t + 4) h0 h1 h2,
        if_neg (by omega), if_neg (by omega), if_neg (by omega), if_neg (by omega)]
      simp
    · rw [rowEntry4_hi ft n jc ltyc hft hn e1 δ p y (t + 4) h1 h2 (by omega),
        if_neg (by omega), if_neg (by omega), if_neg (by omega), if_neg (by omega)]
      simp

end dt4rows


section defect
variable {α : Type} [Field α]

/-- every `lo` weight is affine in the damping decrement, with the identity row at `e1 = 0` -/
theorem w4lo_affine (ft : ℕ) (hft : ft = 0 ∨ ft = 1 ∨ ft = 2 ∨ ft = 3) (e1 δ pj : α) :
    w4lo ft e1 δ pj
      = (e1 * (w4lo ft 1 δ pj).1, e1 * (w4lo ft 1 δ pj).2.1,
         1 + e1 * ((w4lo ft 1 δ pj).2.2.1 - 1), e1 * (w4lo ft 1 δ pj).2.2.2) := by
  rcases hft with rfl | rfl | rfl | rfl <;>
    refine Prod.ext ?_ (Prod.ext ?_ (Prod.ext ?_ ?_)) <;> simp only [w4lo] <;> ring

theorem w4hi_affine (ft : ℕ) (hft : ft = 0 ∨ ft = 1 ∨ ft = 2 ∨ ft = 3) (e1 δ pj : α) :
    w4hi ft e1 δ pj
      = (e1 * (w4hi ft 1 δ pj).1, 1 + e1 * ((w4hi ft 1 δ pj).2.1 - 1),
         e1 * (w4hi ft 1 δ pj).2.2.1, e1 * (w4hi ft 1 δ pj).2.2.2) := by
  rcases hft with rfl | rfl | rfl | rfl <;>
    refine Prod.ext ?_ (Prod.ext ?_ (Prod.ext ?_ ?_)) <;> simp only [w4hi] <;> ring

/-- every table entry minus the identity is proportional to `e1` (column `s` not a border row) -/
theorem rowEntry4_affine (ft n jc : ℕ) (ltyc : ℕ → Bool)
    (hft : ft = 0 ∨ ft = 1 ∨ ft = 2 ∨ ft = 3) (h4 : 4 ≤ n) (hn : n < 2 ^ 31)
    (hsplit : ∀ j, j < jc → ltyc j = true) (δ : α) (p : ℕ → α) (y s : ℕ) (hy : y < n)
    (hs2 : 2 ≤ s) (hs3 : s + 3 ≤ n) :
    ∃ κ : α, ∀ e1 : α,
      rowEntry (fpRowAt 4 ft n jc ltyc e1 δ p y) s - (if y = s then 1 else 0) = e1 * κ := by
  rcases fp4_row_kind n jc y hy with hz | ⟨h0, h1, h2⟩ | ⟨h1, h2⟩
  · refine ⟨0, fun e1 => ?_⟩
    rw [rowEntry4_zero ft n jc ltyc hft h4 hn e1 δ p y s hy hz, if_neg (by omega)]; ring
  · refine ⟨(if y = s + 2 then (w4lo ft 1 δ (p y)).1 else 0)
        + (if y = s + 1 then (w4lo ft 1 δ (p y)).2.1 else 0)
        + (if y = s then (w4lo ft 1 δ (p y)).2.2.1 - 1 else 0)
        + (if y + 1 = s then (w4lo ft 1 δ (p y)).2.2.2 else 0), fun e1 => ?_⟩
    rw [rowEntry4_lo ft n jc ltyc hft hn hsplit e1 δ p y s h0 h1 h2, w4lo_affine ft hft e1]
    simp only []
    split_ifs <;> ring
  · refine ⟨(if y = s + 1 then (w4hi ft 1 δ (p y)).1 else 0)
        + (if y = s then (w4hi ft 1 δ (p y)).2.1 - 1 else 0)
        + (if y + 1 = s then (w4hi ft 1 δ (p y)).2.2.1 else 0)
        + (if y + 2 = s then (w4hi ft 1 δ (p y)).2.2.2 else 0), fun e1 => ?_⟩
    rw [rowEntry4_hi ft n jc ltyc hft hn e1 δ p y s h1 h2 (by omega), w4hi_affine ft hft e1]
    simp only []
    split_ifs <;> ring

/-- the column-sum defect of any non-border column factors through `e1` -/
theorem colsum4_defect (ft n jc : ℕ) (ltyc : ℕ → Bool)
    (hft : ft = 0 ∨ ft = 1 ∨ ft = 2 ∨ ft = 3) (h4 : 4 ≤ n) (hn : n < 2 ^ 31)
    (hsplit : ∀ j, j < jc → ltyc j = true) (δ : α) (p : ℕ → α) (s : ℕ)
    (hs2 : 2 ≤ s) (hs3 : s + 3 ≤ n) :
    ∃ κ : α, ∀ e1 : α,
      ((List.range n).map fun y => (1 : α) * rowEntry (fpRowAt 4 ft n jc ltyc e1 δ p y) s).sum - 1
        = e1 * κ := by
  have h : ∀ y, ∃ κ : α, ∀ e1 : α, y < n →
      rowEntry (fpRowAt 4 ft n jc ltyc e1 δ p y) s - (if y = s then 1 else 0) = e1 * κ := by
    intro y
    by_cases hy : y < n
    · obtain ⟨κ, hκ⟩ := rowEntry4_affine ft n jc ltyc hft h4 hn hsplit δ p y s hy hs2 hs3
      exact ⟨κ, fun e1 _ => hκ e1⟩
    · exact ⟨0, fun _ h => absurd h hy⟩
  choose κ hκ using h
  refine ⟨∑ y ∈ Finset.range n, κ y, fun e1 => ?_⟩
  rw [list_range_sum, Finset.mul_sum]
  simp only [one_mul]
  have one : (1 : α) = ∑ y ∈ Finset.range n, (if y = s then (1 : α) else 0) := by
    rw [Finset.sum_ite_eq' (Finset.range n) s (fun _ => (1 : α)),
      if_pos (Finset.mem_range.mpr (by omega))]
  rw [one, ← Finset.sum_sub_distrib]
  refine Finset.sum_congr rfl fun y hy => ?_
  exact hκ y e1 (Finset.mem_range.mp hy)

end defect


section leak
variable {α : Type} [Field α]

/-- For `jc = 0` the 4-point table reads outside the line: data that vanish on the whole line
    (`rd s = 0` for all `s < n`) but not at index `2^32 - 1` produce a non-zero output line
    (n = 8, diffusion only, e1 = δ = 1). -/
theorem fp4_jc0_leak :
    ∃ rd : ℕ → α, (∀ s, s < 8 → rd s = 0) ∧
      ((List.range 8).map fun y =>
        fpCell (fpRowAt 4 2 8 0 (fun _ => false) (1 : α) 1 (fun j => 0 + (j : α) * 1) y) rd).sum
        = 1 := by
  obtain ⟨rd, hrd⟩ : ∃ rd : ℕ → α, rd = fun s => if s = 4294967295 then 1 else 0 := ⟨_, rfl⟩
  have hr : ∀ s, s < 8 → rd s = 0 := by
    intro s hs; rw [hrd]; exact if_neg (by omega)
  have hbig : rd (prevIdx 0) = 1 := by rw [prevIdx_zero, hrd]; exact if_pos rfl
  have hprev : ∀ y, 1 ≤ y → y < 8 → rd (prevIdx y) = 0 := by
    intro y h1 h8; rw [prevIdx_pos y h1 (by omega)]; exact hr _ (by omega)
  refine ⟨rd, hr, ?_⟩
  have cell : ∀ y, y < 8 →
      fpCell (fpRowAt 4 2 8 0 (fun _ => false) (1 : α) 1 (fun j => 0 + (j : α) * 1) y) rd
        = if y = 0 then 1 else 0 := by
    intro y hy
    rcases fp4_row_kind 8 0 y hy with hz | ⟨_, h1, _⟩ | ⟨h1, h2⟩
    · rw [fpRowAt4_zero 2 8 0 _ (by simp) (by omega) (by norm_num) _ _ _ y hy hz, fpCell_eq,
        if_neg (by omega)]
      simp [zrow4]
    · omega
    · rw [fpRowAt4_hi 2 8 0 _ (by simp) (by norm_num) _ _ _ y h1 h2, fpCell_eq]
      simp only [List.map_cons, List.map_nil, List.sum_cons, List.sum_nil, add_zero]
      rw [hr y hy, hr (y + 1) (by omega), hr (y + 2) (by omega)]
      by_cases h0 : y = 0
      · subst h0; rw [hbig]; simp [w4hi]
      · rw [hprev y (by omega) hy, if_neg h0]; simp
  rw [list_range_sum, Finset.sum_congr rfl fun y hy => cell y (Finset.mem_range.mp hy)]
  rw [Finset.sum_ite_eq' (Finset.range 8) 0 (fun _ => (1 : α))]
  simp

end leak

end Inovesa
