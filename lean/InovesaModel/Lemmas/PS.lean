/- helper lemmas about the PhaseSpace model (field interpretation) -/
import InovesaModel.Model.PhaseSpace
import InovesaModel.Lemmas.Field
import Mathlib.Algebra.BigOperators.Intervals
import Mathlib.Algebra.BigOperators.Ring.Finset
import Mathlib.Tactic.Linarith
namespace Inovesa

/-- in a field the variance accumulation is exact: `var + proj·d²` -/
instance (priority := low) fieldVarAcc {α : Type} [Field α] : VarAcc α := ⟨fun v p d => v + p * (d * d)⟩

section sums
variable {α : Type} [Field α]

@[simp] theorem zero_field : (zero : α) = 0 := by simp [zero]

theorem accSq_field (v p d : α) : VarAcc.accSq v p d = v + p * (d * d) := rfl

/-- a left fold that adds one term per element is the start value plus the sum -/
theorem foldl_add_eq_sum {ι : Type} (g : ι → α) (l : List ι) (a : α) :
    l.foldl (fun acc i => acc + g i) a = a + (l.map g).sum := by
  induction l generalizing a with
  | nil => simp
  | cons x xs ih => simp [List.foldl_cons, ih, add_assoc]

theorem list_range_sum_eq (n : Nat) (f : Nat → α) :
    ((List.range n).map f).sum = ∑ i ∈ Finset.range n, f i := by
  induction n with
  | zero => simp
  | succ n ih => simp [List.range_succ, Finset.sum_range_succ, ih]

theorem innerProd_eq_list_sum (n : Nat) (f ws : Nat → α) :
    innerProd n f ws = ((List.range n).map fun i => f i * ws i).sum := by
  unfold innerProd
  rw [foldl_add_eq_sum]
  simp

theorem innerProd_eq_finsum (n : Nat) (f ws : Nat → α) :
    innerProd n f ws = ∑ i ∈ Finset.range n, f i * ws i := by
  rw [innerProd_eq_list_sum, list_range_sum_eq]

theorem integralOf_eq_list_sum (nb : Nat) (f : Nat → α) :
    integralOf nb f = ((List.range nb).map f).sum := by
  unfold integralOf
  rw [foldl_add_eq_sum]
  simp

theorem innerProd_congr (n : Nat) (f g ws : Nat → α) (h : ∀ i, i < n → f i = g i) :
    innerProd n f ws = innerProd n g ws := by
  rw [innerProd_eq_finsum, innerProd_eq_finsum]
  exact Finset.sum_congr rfl fun i hi => by rw [h i (Finset.mem_range.mp hi)]

/-! ### index arithmetic of the flattened layout -/

theorem idx_lt (n x y : Nat) (hx : x < n) (hy : y < n) : x * n + y < n * n := by
  calc x * n + y < x * n + n := by omega
    _ = (x + 1) * n := by ring
    _ ≤ n * n := Nat.mul_le_mul_right n hx

theorem idx_div (n b x y : Nat) (hx : x < n) (hy : y < n) :
    (b * n * n + x * n + y) / (n * n) = b := by
  have h1 : x * n + y < n * n := idx_lt n x y hx hy
  have h2 : b * n * n + x * n + y = (x * n + y) + b * (n * n) := by ring
  have hn : 0 < n * n := by
    have : 0 < n := by omega
    exact Nat.mul_pos this this
  rw [h2, Nat.add_mul_div_right _ _ hn, Nat.div_eq_of_lt h1, zero_add]

theorem normalizeOf_pos (n : Nat) (pos : Nat → Bool) (fset fill data : Nat → α) (b x y : Nat)
    (hx : x < n) (hy : y < n) (hpos : pos b = true) :
    normalizeOf n pos fset fill data (b * n * n + x * n + y)
      = data (b * n * n + x * n + y) * (fset b / fill b) := by
  simp only [normalizeOf, idx_div n b x y hx hy, hpos, if_true]

theorem normalizeOf_neg (n : Nat) (pos : Nat → Bool) (fset fill data : Nat → α) (b x y : Nat)
    (hx : x < n) (hy : y < n) (hpos : pos b = false) :
    normalizeOf n pos fset fill data (b * n * n + x * n + y) = 0 := by
  simp [normalizeOf, idx_div n b x y hx hy, hpos]

/-! ### charge (Simpson integral of the x-projection) -/

theorem charge_eq_finsum (n : Nat) (ws data : Nat → α) (b : Nat) :
    fillingOf n ws (xprojOf n ws data) b
      = ∑ x ∈ Finset.range n, (∑ y ∈ Finset.range n, data (b * n * n + x * n + y) * ws y) * ws x := by
  unfold fillingOf
  rw [innerProd_eq_finsum]
  refine Finset.sum_congr rfl fun x _ => ?_
  unfold xprojOf
  rw [innerProd_eq_finsum]

theorem charge_normalize_pos (n : Nat) (ws data fset fill : Nat → α) (pos : Nat → Bool) (b : Nat)
    (hpos : pos b = true) :
    fillingOf n ws (xprojOf n ws (normalizeOf n pos fset fill data)) b
      = fset b / fill b * fillingOf n ws (xprojOf n ws data) b := by
  rw [charge_eq_finsum, charge_eq_finsum, Finset.mul_sum]
  refine Finset.sum_congr rfl fun x hx => ?_
  rw [← mul_assoc, Finset.mul_sum]
  congr 1
  refine Finset.sum_congr rfl fun y hy => ?_
  rw [normalizeOf_pos n pos fset fill data b x y (Finset.mem_range.mp hx) (Finset.mem_range.mp hy) hpos]
  ring

theorem charge_normalize_neg (n : Nat) (ws data fset fill : Nat → α) (pos : Nat → Bool) (b : Nat)
    (hpos : pos b = false) :
    fillingOf n ws (xprojOf n ws (normalizeOf n pos fset fill data)) b = 0 := by
  rw [charge_eq_finsum]
  refine Finset.sum_eq_zero fun x hx => ?_
  rw [Finset.sum_eq_zero, zero_mul]
  intro y hy
  rw [normalizeOf_neg n pos fset fill data b x y (Finset.mem_range.mp hx) (Finset.mem_range.mp hy) hpos,
    zero_mul]

theorem charge_normalize_exact (n : Nat) (ws data fset : Nat → α) (pos : Nat → Bool) (b : Nat)
    (hpos : pos b = true) (hfill : fillingOf n ws (xprojOf n ws data) b ≠ 0) :
    fillingOf n ws (xprojOf n ws
        (normalizeOf n pos fset (fillingOf n ws (xprojOf n ws data)) data)) b = fset b := by
  rw [charge_normalize_pos n ws data fset _ pos b hpos]
  exact div_mul_cancel₀ _ hfill

theorem charge_normalize_total (n nb : Nat) (ws data fset : Nat → α) (pos : Nat → Bool)
    (hfill : ∀ b, b < nb → pos b = true → fillingOf n ws (xprojOf n ws data) b ≠ 0) :
    integralOf nb (fillingOf n ws (xprojOf n ws
        (normalizeOf n pos fset (fillingOf n ws (xprojOf n ws data)) data)))
      = ((List.range nb).map fun b => if pos b then fset b else 0).sum := by
  rw [integralOf_eq_list_sum]
  congr 1
  refine List.map_congr_left fun b hb => ?_
  cases hp : pos b with
  | true =>
    simp only [if_true]
    exact charge_normalize_exact n ws data fset pos b hp (hfill b (List.mem_range.mp hb) hp)
  | false =>
    simp only [Bool.false_eq_true, if_false]
    exact charge_normalize_neg n ws data fset _ pos b hp

/-! ### moments -/

theorem averageOf_true (n : Nat) (proj qp : Nat → α) (delta fill : α) :
    averageOf n true proj qp delta fill
      = (((List.range n).map fun i => proj i * qp i * delta).sum) / fill := by
  simp only [averageOf, if_true]
  rw [foldl_add_eq_sum, zero_field, zero_add, list_range_sum_eq, list_range_sum_eq,
    div_eq_mul_inv, div_eq_mul_inv, Finset.sum_mul, Finset.sum_mul]
  refine Finset.sum_congr rfl fun i _ => ?_
  ring

theorem varianceOf_true (n : Nat) (proj qp : Nat → α) (mean delta fill : α) :
    varianceOf n true proj qp mean delta fill
      = (((List.range n).map fun i => proj i * (qp i - mean) ^ 2 * delta).sum) / fill := by
  simp only [varianceOf, if_true, accSq_field]
  rw [foldl_add_eq_sum, zero_field, zero_add, list_range_sum_eq, list_range_sum_eq,
    div_eq_mul_inv, div_eq_mul_inv, Finset.sum_mul, Finset.sum_mul]
  refine Finset.sum_congr rfl fun i _ => ?_
  ring

theorem averageOf_false (n : Nat) (proj qp : Nat → α) (delta fill : α) :
    averageOf n false proj qp delta fill = 0 := by
  simp [averageOf]

theorem varianceOf_false (n : Nat) (proj qp : Nat → α) (mean delta fill : α) :
    varianceOf n false proj qp mean delta fill = 0 := by
  simp [varianceOf]

/-! ### frame -/

theorem xprojOf_frame (n : Nat) (ws data data' : Nat → α) (b : Nat)
    (h : ∀ i, i < n * n → data (b * n * n + i) = data' (b * n * n + i)) (x : Nat) (hx : x < n) :
    xprojOf n ws data b x = xprojOf n ws data' b x := by
  unfold xprojOf
  refine innerProd_congr n _ _ ws fun y hy => ?_
  have := h (x * n + y) (idx_lt n x y hx hy)
  simpa [Nat.add_assoc] using this

theorem yprojOf_frame (n : Nat) (ws data data' : Nat → α) (b : Nat)
    (h : ∀ i, i < n * n → data (b * n * n + i) = data' (b * n * n + i)) (y : Nat) (hy : y < n) :
    yprojOf n ws data b y = yprojOf n ws data' b y := by
  unfold yprojOf
  refine innerProd_congr n _ _ ws fun x hx => ?_
  have := h (x * n + y) (idx_lt n x y hx hy)
  simpa [Nat.add_assoc] using this

theorem charge_frame (n : Nat) (ws data data' : Nat → α) (b : Nat)
    (h : ∀ i, i < n * n → data (b * n * n + i) = data' (b * n * n + i)) :
    fillingOf n ws (xprojOf n ws data) b = fillingOf n ws (xprojOf n ws data') b := by
  unfold fillingOf
  exact innerProd_congr n _ _ ws fun x hx => xprojOf_frame n ws data data' b h x hx

end sums


/-! ### the state machine -/

section arrays

theorem foldl_setIfInBounds_size {β : Type} (k nb : Nat) (v : Nat → β) (m : Array β) :
    ((List.range nb).foldl (fun (m : Array β) b => m.setIfInBounds (k + b) (v b)) m).size = m.size := by
  induction nb with
  | zero => simp
  | succ nb ih => simp [List.range_succ, List.foldl_append, ih]

theorem foldl_setIfInBounds_getD {β : Type} (k nb : Nat) (v : Nat → β) (m : Array β) (j : Nat) (d : β) :
    ((List.range nb).foldl (fun (m : Array β) b => m.setIfInBounds (k + b) (v b)) m).getD (k + j) d
      = if j < nb ∧ k + j < m.size then v j else m.getD (k + j) d := by
  induction nb with
  | zero => simp
  | succ nb ih =>
    rw [List.range_succ, List.foldl_append]
    simp only [List.foldl_cons, List.foldl_nil]
    rw [Array.getD_eq_getD_getElem?, Array.getElem?_setIfInBounds, foldl_setIfInBounds_size]
    by_cases hj : nb = j
    · subst hj
      by_cases hs : k + nb < m.size
      · simp [hs]
      · simp [hs]
    · have h1 : ¬ (k + nb = k + j) := by omega
      rw [if_neg h1, ← Array.getD_eq_getD_getElem?, ih]
      have : (j < nb + 1) ↔ j < nb := by omega
      simp only [this]
end arrays

section state
variable {α : Type} [Field α]

theorem psCopy_data (c : PSConst α) (s : PSState α) : (psCopy c s).data = s.data := rfl

/-- the constructor's cached members are the ones the update functions compute from any
    state carrying the same data -/
theorem psConstruct_proj0 (c : PSConst α) (d : Array α) (s : PSState α) (h : s.data = d) :
    (psConstruct c d).proj0 = (psXProj c s).proj0 := by subst h; rfl
theorem psConstruct_proj1 (c : PSConst α) (d : Array α) (s : PSState α) (h : s.data = d) :
    (psConstruct c d).proj1 = (psYProj c s).proj1 := by subst h; rfl
theorem psConstruct_filling (c : PSConst α) (d : Array α) (s : PSState α) (h : s.data = d) :
    (psConstruct c d).filling = (psIntegrate c (psXProj c s)).filling := by subst h; rfl
theorem psConstruct_integral (c : PSConst α) (d : Array α) (s : PSState α) (h : s.data = d) :
    (psConstruct c d).integral = (psIntegrate c (psXProj c s)).integral := by subst h; rfl

/-- the value `average(axis)` stores for bunch `b` -/
def avgVal (c : PSConst α) (axis : Nat) (s : PSState α) (b : Nat) : α :=
  averageOf c.n (c.pos.getD b false)
    (fun i => (if axis = 0 then s.proj0 else s.proj1).getD (b * c.n + i) zero)
    (if axis = 0 then c.ax0 else c.ax1).at (if axis = 0 then c.ax0 else c.ax1).delta
    (s.filling.getD b zero)

theorem psVariance_mean_getD (sq : α → α) (c : PSConst α) (axis : Nat) (s : PSState α) (j : Nat) (d : α) :
    (psVariance sq c axis s).mean.getD (axis * c.nb + j) d
      = if j < c.nb ∧ axis * c.nb + j < s.mean.size then avgVal c axis s j
        else s.mean.getD (axis * c.nb + j) d := by
  have h : (psVariance sq c axis s).mean
      = (List.range c.nb).foldl (fun (m : Array α) b =>
          m.setIfInBounds (axis * c.nb + b) (avgVal c axis s b)) s.mean := rfl
  rw [h, foldl_setIfInBounds_getD]

theorem avgVal_congr (c : PSConst α) (axis : Nat) (s t : PSState α) (b : Nat)
    (h0 : t.proj0 = s.proj0) (h1 : t.proj1 = s.proj1) (hf : t.filling = s.filling) :
    avgVal c axis t b = avgVal c axis s b := by
  unfold avgVal; rw [h0, h1, hf]

theorem psConstruct_mean (c : PSConst α) (d : Array α) :
    (psConstruct c d).mean = Array.replicate (2 * c.nb) (zero : α) := rfl

theorem copy_mean_same (sq : α → α) (c : PSConst α) (s : PSState α) (axis : Nat)
    (h0 : (psCopy c s).proj0 = s.proj0) (h1 : (psCopy c s).proj1 = s.proj1)
    (hf : (psCopy c s).filling = s.filling) (hm : s.mean.size = 2 * c.nb) :
    (psVariance sq c axis (psCopy c s)).mean.getD (axis * c.nb) 0
        = (psVariance sq c axis s).mean.getD (axis * c.nb) 0 := by
  have e1 := psVariance_mean_getD sq c axis (psCopy c s) 0 0
  have e2 := psVariance_mean_getD sq c axis s 0 0
  rw [Nat.add_zero] at e1 e2
  rw [e1, e2, avgVal_congr c axis s (psCopy c s) 0 h0 h1 hf]
  have hsz : (psCopy c s).mean.size = 2 * c.nb := by
    show (Array.replicate (2 * c.nb) (zero : α)).size = _
    simp
  rw [hsz, hm]
  split
  · rfl
  · next hcond =>
    have hle : 2 * c.nb ≤ axis * c.nb := by
      by_cases hnb : c.nb = 0
      · simp [hnb]
      · by_contra hh
        exact hcond ⟨Nat.pos_of_ne_zero hnb, by omega⟩
    rw [Array.getD_eq_getD_getElem?, Array.getD_eq_getD_getElem?,
      Array.getElem?_eq_none (by omega), Array.getElem?_eq_none (by omega)]

/-- every constructed state is fresh (the four conjuncts of `Props.C09.Fresh`, unfolded) -/
theorem psConstruct_fresh (c : PSConst α) (d : Array α) :
    (psConstruct c d).proj0 = (psXProj c (psConstruct c d)).proj0 ∧
    (psConstruct c d).proj1 = (psYProj c (psConstruct c d)).proj1 ∧
    (psConstruct c d).filling = (psIntegrate c (psXProj c (psConstruct c d))).filling ∧
    (psConstruct c d).integral = (psIntegrate c (psXProj c (psConstruct c d))).integral :=
  ⟨psConstruct_proj0 c d _ rfl, psConstruct_proj1 c d _ rfl, psConstruct_filling c d _ rfl,
    psConstruct_integral c d _ rfl⟩

end state

/-- on `ℚ` the executable literal instance (`mkRat`) and the field reading agree, so
    statements elaborated with either instance can be transported -/
theorem ratLit_eq_fieldLit : (instLitRat : Lit ℚ) = fieldLit := by
  unfold instLitRat fieldLit
  congr
  funext n d _
  exact Rat.mkRat_eq_div n d

/-! ### counterexample state for `Props.C09.copy_same` as originally stated:
    one 3×3 bunch on `[-1,1]²` with the charge in cell `(x,y) = (2,1)` and a `mean`
    array of size `0` instead of `2·nb` -/
namespace C09cex
variable {α : Type} [Field α]

def cC : PSConst α :=
  { n := 3, nb := 1, ax0 := ⟨3, -1, 1⟩, ax1 := ⟨3, -1, 1⟩, fset := #[1], pos := #[true] }
def dC : Array α := #[0, 0, 0, 0, 0, 0, 0, 1, 0]
def sC : PSState α := { psConstruct cC dC with mean := #[] }

theorem sC_data : (sC : PSState α).data = dC := rfl

theorem sC_fresh :
    (sC : PSState α).proj0 = (psXProj cC sC).proj0 ∧ (sC : PSState α).proj1 = (psYProj cC sC).proj1 ∧
    (sC : PSState α).filling = (psIntegrate cC (psXProj cC sC)).filling ∧
    (sC : PSState α).integral = (psIntegrate cC (psXProj cC sC)).integral :=
  ⟨psConstruct_proj0 cC dC sC sC_data, psConstruct_proj1 cC dC sC sC_data,
   psConstruct_filling cC dC sC sC_data, psConstruct_integral cC dC sC sC_data⟩

theorem avg_val [CharZero α] : avgVal (α := α) cC 0 (psCopy cC sC) 0 = 3 := by
  norm_num [avgVal, averageOf, psCopy, psConstruct, psXProj, psYProj, psIntegrate, xprojOf,
    fillingOf, innerProd, List.range_succ, simpsonWeight, PSConst.ws, Ruler.at, Ruler.delta,
    zero, cC, sC, dC]

/-- after `variance(0)` the copy reports mean `3`, the original (whose `mean` array is
    empty) reports the default `0` -/
theorem means_differ [CharZero α] (sq : α → α) :
    (psVariance sq cC 0 (psCopy (α := α) cC sC)).mean.getD (0 * (cC : PSConst α).nb) 0
      ≠ (psVariance sq cC 0 (sC : PSState α)).mean.getD (0 * (cC : PSConst α).nb) 0 := by
  intro h5
  have e1 := psVariance_mean_getD sq cC 0 (psCopy (α := α) cC sC) 0 0
  have e2 := psVariance_mean_getD sq cC 0 (sC : PSState α) 0 0
  rw [Nat.add_zero] at e1 e2
  rw [e1, e2, avg_val] at h5
  have hs1 : (psCopy (α := α) cC sC).mean.size = 2 := by
    show (Array.replicate (2 * 1) (zero : α)).size = 2
    simp
  have hs2 : (sC : PSState α).mean.size = 0 := rfl
  have hnb : (cC : PSConst α).nb = 1 := rfl
  rw [hs1, hs2, hnb] at h5
  norm_num at h5
  have : (sC : PSState α).mean = #[] := rfl
  simp [this] at h5

end C09cex

end Inovesa
