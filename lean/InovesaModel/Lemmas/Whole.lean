/- helper lemmas for Props/Whole.lean: an invariant of the grid that every map of the loop
   preserves is carried through the generated blocks (closed forms of Lemmas/Main.lean) -/
import InovesaModel.Lemmas.Main
namespace Inovesa
open Gen

variable {V : Type} (sem : Sem V) (c : MCfg)

/-- the (possible) renormalisation keeps the invariant -/
theorem gridR_pres (I : V → Prop) (hn : ∀ g f, I g → I (sem.normalize g f))
    (rn : Int) (n : Nat) (g xp : V) (hg : I g) : I (gridR sem rn n g xp) := by
  unfold gridR
  split
  · exact hn _ _ hg
  · exact hg

/-- the RF kick (static, dynamic, or exhausted queue) keeps the invariant -/
theorem rfGrid_pres (I : V → Prop) (hrs : ∀ g, I g → I (sem.rfStatic g))
    (hrd : ∀ g r, I g → I (sem.rfDyn g r)) (hd : Bool) (g : V) (q : List V) (hg : I g) :
    I (rfGrid sem hd g q) := by
  unfold rfGrid
  cases hd with
  | false => exact hrs _ hg
  | true =>
    cases q with
    | nil => exact hg
    | cons r _ => exact hrd _ _ hg

/-- one full step of the grid keeps the invariant -/
theorem stepGrid_pres (I : V → Prop)
    (hk : ∀ g w, I g → I (sem.kick g w)) (hi : ∀ g, I g → I (sem.ident g))
    (hrs : ∀ g, I g → I (sem.rfStatic g)) (hrd : ∀ g r, I g → I (sem.rfDyn g r))
    (hdr : ∀ g, I g → I (sem.drift g)) (hf : ∀ g, I g → I (sem.fp g))
    (hn : ∀ g f, I g → I (sem.normalize g f))
    (rn : Int) (hw hd : Bool) (n : Nat) (g xp : V) (q : List V) (hg : I g) :
    I (stepGrid sem rn hw hd n g xp q) := by
  unfold stepGrid
  refine hf _ (hdr _ (rfGrid_pres sem I hrs hrd hd _ q ?_))
  have hR := gridR_pres sem I hn rn n g xp hg
  cases hw with
  | false => exact hi _ hR
  | true => exact hk _ _ hR

/-- … hence the loop body does -/
theorem body_grid_pres (I : V → Prop)
    (hk : ∀ g w, I g → I (sem.kick g w)) (hi : ∀ g, I g → I (sem.ident g))
    (hrs : ∀ g, I g → I (sem.rfStatic g)) (hrd : ∀ g r, I g → I (sem.rfDyn g r))
    (hdr : ∀ g, I g → I (sem.drift g)) (hf : ∀ g, I g → I (sem.fp g))
    (hn : ∀ g f, I g → I (sem.normalize g f))
    (s : MState V) (hs : I s.grid) : I (execBlock sem c loopBody s).grid := by
  rw [body_grid]
  exact stepGrid_pres sem I hk hi hrs hrd hdr hf hn _ _ _ _ _ _ _ hs

/-- a grid invariant kept by the loop body holds at every loop head -/
theorem atHead_grid_pres (I : V → Prop)
    (hB : ∀ s : MState V, I s.grid → I (execBlock sem c loopBody s).grid)
    (s0 : MState V) (h0 : I s0.grid) (k : Nat) :
    I (iterate sem c k (execBlock sem c initialBlock s0)).grid :=
  iterate_inv sem c (fun s => I s.grid) hB k _ (by rw [init_grid]; exact h0)

/-- … for the grid after the final block -/
theorem runFor_grid_pres (I : V → Prop) (hn : ∀ g f, I g → I (sem.normalize g f))
    (hB : ∀ s : MState V, I s.grid → I (execBlock sem c loopBody s).grid)
    (s0 : MState V) (h0 : I s0.grid) (k : Nat) : I (runFor sem c k s0).grid := by
  refine runFor_inv sem c (fun s => I s.grid) (fun s => I s.grid) s0 ?_ hB ?_ k
  · rw [init_grid]; exact h0
  · intro s hs
    rw [final_grid]
    split
    · exact gridR_pres sem I hn _ _ _ _ hs
    · exact hs

/-- … for the grid behind every record -/
theorem runFor_recs_pres (I : V → Prop) (hn : ∀ g f, I g → I (sem.normalize g f))
    (hB : ∀ s : MState V, I s.grid → I (execBlock sem c loopBody s).grid)
    (s0 : MState V) (h0 : I s0.grid) (hr : s0.file.recs = []) (k : Nat) :
    ∀ r ∈ (runFor sem c k s0).file.recs, I r.ghostGrid := by
  refine runFor_inv sem c (fun s => I s.grid ∧ ∀ r ∈ s.file.recs, I r.ghostGrid)
    (fun s => ∀ r ∈ s.file.recs, I r.ghostGrid) s0 ?_ ?_ ?_ k
  · rw [init_grid, init_recs, hr]
    exact ⟨h0, by simp⟩
  · intro s ⟨hg, h⟩
    refine ⟨hB s hg, ?_⟩
    rw [body_recs]
    split
    · intro r hr'
      rcases List.mem_append.1 hr' with h' | h'
      · exact h r h'
      · rw [List.mem_singleton.1 h']
        exact gridR_pres sem I hn _ _ _ _ hg
    · exact h
  · intro s ⟨hg, h⟩
    rw [final_recs]
    split
    · intro r hr'
      rcases List.mem_append.1 hr' with h' | h'
      · exact h r h'
      · rw [List.mem_singleton.1 h']
        exact gridR_pres sem I hn _ _ _ _ hg
    · exact h

/-- … and for every stored phase space -/
theorem runFor_ps_pres (I : V → Prop) (hn : ∀ g f, I g → I (sem.normalize g f))
    (hB : ∀ s : MState V, I s.grid → I (execBlock sem c loopBody s).grid)
    (s0 : MState V) (h0 : I s0.grid) (hp : s0.file.ps = []) (k : Nat) :
    ∀ e ∈ (runFor sem c k s0).file.ps, I e.2 := by
  refine runFor_inv sem c (fun s => I s.grid ∧ ∀ e ∈ s.file.ps, I e.2)
    (fun s => ∀ e ∈ s.file.ps, I e.2) s0 ?_ ?_ ?_ k
  · rw [init_grid, init_ps, hp]
    refine ⟨h0, ?_⟩
    split
    · intro e he
      rw [List.nil_append, List.mem_singleton] at he
      rw [he]; exact h0
    · intro e he; cases he
  · intro s ⟨hg, h⟩
    refine ⟨hB s hg, ?_⟩
    rw [body_ps]
    split
    · intro e he
      rcases List.mem_append.1 he with h' | h'
      · exact h e h'
      · rw [List.mem_singleton.1 h']
        exact gridR_pres sem I hn _ _ _ _ hg
    · exact h
  · intro s ⟨hg, h⟩
    rw [final_ps]
    split
    · intro e he
      rcases List.mem_append.1 he with h' | h'
      · exact h e h'
      · rw [List.mem_singleton.1 h']
        exact gridR_pres sem I hn _ _ _ _ hg
    · exact h

end Inovesa
