/-
  Interpretation of the abstract scalar in a field (the real-arithmetic semantics of
  the C++ floating-point code, DESIGN.md §3): a literal means its ideal rational value.
-/
import InovesaModel.Model.Scalar
import Mathlib.Algebra.Field.Basic
import Mathlib.Algebra.CharZero.Defs
import Mathlib.Tactic.Ring
import Mathlib.Tactic.FieldSimp
import Mathlib.Tactic.NormNum

namespace Inovesa

/-- In a field a literal is `num / den`. -/
instance (priority := low) fieldLit {α : Type} [Field α] : Lit α :=
  ⟨fun n d _ => (n : α) / (d : α)⟩

@[simp] theorem lit_field {α : Type} [Field α] (n : Int) (d : Nat) (b : UInt32) :
    (lit n d b : α) = (n : α) / (d : α) := rfl

end Inovesa
