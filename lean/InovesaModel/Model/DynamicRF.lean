/-
  Hand model of `DynamicRFKickMap` (src/SM/DynamicRFKickMap.cpp): the queue of precomputed
  (phase, amplitude) entries, one consumed per `apply`, moved to the list that
  `getPastModulation()` hands out and clears.
-/
import InovesaModel.Model.Scalar
import InovesaModel.Model.RFDrift
namespace Inovesa

variable {α : Type}

structure DynRF (α : Type) where
  next : List (α × α)       -- _next_modulation (front first)
  past : List (α × α)       -- _past_modulation

/-- `apply()`: the front entry is used for the kick and moved from `next` to `past` -/
def DynRF.apply (d : DynRF α) : Option ((α × α) × DynRF α) :=
  match d.next with
  | e :: r => some (e, { next := r, past := d.past ++ [e] })
  | [] => none

/-- `getPastModulation()`: hands out the used entries and clears the list -/
def DynRF.flush (d : DynRF α) : List (α × α) × DynRF α := (d.past, { d with past := [] })

/-- operations a caller can perform -/
inductive DynOp where
  | apply | flush
  deriving Repr, DecidableEq

/-- run a sequence of operations; returns the entries used (in order), the concatenation of
    everything flushed, and the final state; `apply` on an empty queue stops the run -/
def DynRF.run (d : DynRF α) : List DynOp → List (α × α) × List (α × α) × DynRF α
  | [] => ([], [], d)
  | .apply :: ops =>
    match d.apply with
    | some (e, d') => let (u, f, d'') := d'.run ops; (e :: u, f, d'')
    | none => ([], [], d)
  | .flush :: ops =>
    let (p, d') := d.flush
    let (u, f, d'') := d'.run ops
    (u, p ++ f, d'')

variable [Arith α]

/-- `__calcModulation(steps)`: entry `i` = (`syncphase + ξ_i·phasenoise + modampl·sin(modtimedelta·i)`,
    `1 + ξ'_i·amplnoise`); `draw i` the two normal deviates, `sinv i` the library sine -/
def calcModulation (syncphase phasenoise amplnoise modampl : α) (sinv : Nat → α)
    (draw : Nat → α × α) (steps : Nat) : List (α × α) :=
  (List.range steps).map fun i =>
    (syncphase + (draw i).1 * phasenoise + modampl * sinv i,
     lit 1 1 0x3f800000 + (draw i).2 * amplnoise)

end Inovesa
