/-
  Hand model of the start-file reader `HDF5File::readPhaseSpace` (src/IO/HDF5File.cpp): which record of
  /PhaseSpace/data is loaded for a given `StartDistStep`, and which files are refused.  Integer logic only — the bytes
  of the record are copied by the HDF5 library (assumed: a hyperslab read of IEEE_F32LE is the identity on bit
  patterns), which is what "loads exactly the stored values" rests on; the program-level check of C11 compares them.
  Mathlib-free.
-/
namespace Inovesa

/-- `use_step = (ps_dims[0]+use_step)%ps_dims[0]` with `use_step` an int64 and `ps_dims[0]` unsigned 64 bit: the
    sum is formed modulo 2^64 -/
def chooseRecord (d0 : Nat) (step : Int) : Int :=
  (((d0 : Int) % 18446744073709551616 + step % 18446744073709551616) % 18446744073709551616) % (d0 : Int)

inductive StartResult where
  | refused
  | loaded (n : Nat) (record : Int)
  deriving Repr, DecidableEq

/-- the reader: refuse a data set without records; rank 3 = one bunch per record, rank 4 = `dims 1` bunches per
    record; the phase space that receives the record is created for ONE bunch (`filling = {1.0}`), so the record is
    read only if it holds exactly `n·n` values; any other rank makes the HDF5 library reject the (empty) selection -/
def readStart (rank : Nat) (dims : Nat → Nat) (step : Int) : StartResult :=
  if rank < 1 ∨ dims 0 = 0 then .refused
  else if rank = 3 then .loaded (dims 1) (chooseRecord (dims 0) step)
  else if rank = 4 then
    if dims 2 * dims 2 * 1 = 1 * dims 1 * dims 2 * dims 2 then .loaded (dims 2) (chooseRecord (dims 0) step) else .refused
  else .refused

end Inovesa
