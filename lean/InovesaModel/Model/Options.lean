/-
  Hand model of `ProgramOptions::parse` / `save(std::string)` (src/IO/ProgramOptions.cpp) on
  top of a model of the boost::program_options semantics this code relies on:

    * `store(parsed, vm)`: a key that an earlier `store` call set explicitly (`m_final`) is
      skipped; otherwise the parsed value replaces an absent or defaulted entry; several
      occurrences of a vector option inside one source accumulate, of a scalar option are an
      error; afterwards every described option with a default that is still absent gets a
      *defaulted* entry;
    * `notify(vm)`: visits the map in key order (std::map, byte-wise) and assigns every entry
      to the variable its option is bound to;
    * unknown keys / malformed values raise.

  The option table, the group composition, the event skeleton of `parse` and the rules of
  `save` are generated (Gen/Options.lean, translator fragment G5).  Values are kept as the
  source *tokens*; turning a token into a number is `boost::lexical_cast`'s business and is
  not modelled (the correspondence check converts tokens on the Python side).
-/
import InovesaModel.Gen.Options
namespace Inovesa
open Gen

structure VMEntry where
  toks : List String
  defaulted : Bool
  deriving Repr, DecidableEq

/-- `po::variables_map` as an association list kept sorted by key -/
abbrev VM := List (String × VMEntry)

def vmInsert (vm : VM) (k : String) (e : VMEntry) : VM :=
  match vm with
  | [] => [(k, e)]
  | (k', e') :: r =>
    if k = k' then (k, e) :: r
    else if k < k' then (k, e) :: (k', e') :: r
    else (k', e') :: vmInsert r k e

def vmFind (vm : VM) (k : String) : Option VMEntry := (vm.find? (·.1 = k)).map (·.2)

/-- options of the description composed of `groups` -/
def described (decls : List OptSpec) (groups : List String) : List OptSpec :=
  groups.flatMap fun g => decls.filter (·.group = g)

def findOpt (desc : List OptSpec) (name : String) : Option OptSpec := desc.find? (·.name = name)
def findShort (desc : List OptSpec) (s : String) : Option OptSpec :=
  desc.find? (fun o => o.short = s ∧ s ≠ "")

/-! ### token well-formedness (what `validate`/`lexical_cast` accept; clean subset) -/

def isDigits (s : String) : Bool := !s.isEmpty && s.all Char.isDigit

def isDecimal (s : String) : Bool :=
  -- [-+]?digits[.digits][(e|E)[-+]?digits]  or  [-+]?.digits...
  let cs := s.toList
  let cs := match cs with
    | '-' :: r => r
    | '+' :: r => r
    | r => r
  let (ip, r) := cs.span Char.isDigit
  let (fp, r, hadDot) := match r with
    | '.' :: r' => let (f, r'') := r'.span Char.isDigit; (f, r'', true)
    | _ => ([], r, false)
  let mantOk := !(ip.isEmpty && fp.isEmpty) && (!hadDot || true)
  match r with
  | [] => mantOk
  | e :: r' =>
    if e = 'e' ∨ e = 'E' then
      let r' := match r' with
        | '-' :: q => q
        | '+' :: q => q
        | q => q
      mantOk && !r'.isEmpty && r'.all Char.isDigit
    else false

def wellFormed (ty : OptTy) (tok : String) : Bool :=
  match ty with
  | .flag => true
  | .str => true
  | .f32 | .f64 | .vecf32 => isDecimal tok
  | .u32 | .u8 => isDigits tok
  | .i32 | .i64 => isDigits tok || (tok.startsWith "-" && isDigits (tok.drop 1).toString)
  | .bool => ["1", "0", "true", "false", "on", "off", "yes", "no"].contains tok.toLower

inductive PErr where
  | unknownOption (name : String)
  | missingValue (name : String)
  | invalidValue (name : String)
  | multipleOccurrences (name : String)
  | tooManyPositional
  deriving Repr, DecidableEq

abbrev Parsed := List (String × List String)

/-! ### command-line tokenisation (subset: `--name`, `--name=v`, `--name v`, `-x`, `-xv`, `-x v`,
    multitoken options swallow following tokens that do not start with `-`) -/

def looksLikeOption (t : String) : Bool := t.startsWith "-" && t.length > 1 && !isDecimal t

def parseCLIAux (desc : List OptSpec) : Nat → List String → Except PErr Parsed
  | 0, _ => .ok []
  | fuel + 1, args =>
  let parseCLI := fun (_ : List OptSpec) (r : List String) => parseCLIAux desc fuel r
  match args with
  | [] => .ok []
  | a :: rest =>
    let handle (o : OptSpec) (adj : Option String) (rest : List String) : Except PErr Parsed :=
      if o.ty = .flag then
        match adj with
        | some _ => .error (.invalidValue o.name)
        | none => do let r ← parseCLI desc rest; pure ((o.name, []) :: r)
      else
        match adj with
        | some v => do let r ← parseCLI desc rest; pure ((o.name, [v]) :: r)
        | none =>
          if o.implicit.isSome then
            do let r ← parseCLI desc rest; pure ((o.name, [o.implicit.getD ""]) :: r)
          else if o.multitoken then
            let vals := rest.takeWhile (fun t => !looksLikeOption t)
            if vals.isEmpty then .error (.missingValue o.name)
            else do let r ← parseCLI desc (rest.drop vals.length); pure ((o.name, vals) :: r)
          else
            match rest with
            | v :: rest' =>
              if looksLikeOption v then .error (.missingValue o.name)
              else do let r ← parseCLI desc rest'; pure ((o.name, [v]) :: r)
            | [] => .error (.missingValue o.name)
    if a.startsWith "--" then
      let body := (a.drop 2).toString
      let (name, adj) := match body.splitOn "=" with
        | [n] => (n, none)
        | n :: vs => (n, some ("=".intercalate vs))
        | [] => (body, none)
      match findOpt desc name with
      | some o => handle o adj rest
      | none => .error (.unknownOption name)
    else if a.startsWith "-" && a.length > 1 then
      let s := ((a.drop 1).take 1).toString
      let adjS := (a.drop 2).toString
      match findShort desc s with
      | some o => handle o (if adjS.isEmpty then none else some adjS) rest
      | none => .error (.unknownOption s)
    else .error .tooManyPositional

/-- command-line parsing; the fuel (`args.length`) makes the recursion structural -/
def parseCLI (desc : List OptSpec) (args : List String) : Except PErr Parsed :=
  parseCLIAux desc args.length args

/-- config-file lines `key=value` (no sections, no comments in the generated files) -/
def parseCfg (desc : List OptSpec) (lines : List String) : Except PErr Parsed :=
  lines.foldlM (fun (acc : Parsed) l =>
    match l.splitOn "=" with
    | k :: v :: vs =>
      match findOpt desc k with
      | some _ => .ok (acc ++ [(k, ["=".intercalate (v :: vs)])])
      | none => .error (.unknownOption k)
    | _ => .error (.unknownOption l)) []

/-- `po::store` -/
def storeParsed (desc : List OptSpec) (parsed : Parsed) (vm : VM) (final : List String) :
    Except PErr (VM × List String) := do
  let (vm, newFinal) ← parsed.foldlM (fun (st : VM × List String) (kv : String × List String) =>
    let (vm, nf) := st
    let (k, vals) := kv
    if final.contains k then .ok (vm, nf)
    else
      match findOpt desc k with
      | none => .error (.unknownOption k)
      | some o =>
        if !(vals.all (wellFormed o.ty)) then .error (.invalidValue k)
        else
          let old := match vmFind vm k with
            | some e => if e.defaulted then [] else e.toks
            | none => []
          if !old.isEmpty && o.ty ≠ .vecf32 && nf.contains k then .error (.multipleOccurrences k)
          else .ok (vmInsert vm k { toks := (if nf.contains k then old else []) ++ vals, defaulted := false },
                    if nf.contains k then nf else nf ++ [k])) (vm, [])
  let vm := desc.foldl (fun vm o =>
    match o.default, vmFind vm o.name with
    | some d, none => vmInsert vm o.name { toks := [d], defaulted := true }
    | _, _ => vm) vm
  pure (vm, final ++ newFinal)

/-- bound variables: name ↦ value tokens -/
abbrev Vars := List (String × List String)

def varSet (vs : Vars) (k : String) (v : List String) : Vars :=
  if vs.any (·.1 = k) then vs.map (fun kv => if kv.1 = k then (k, v) else kv) else vs ++ [(k, v)]

def varGet (vs : Vars) (k : String) : Option (List String) := (vs.find? (·.1 = k)).map (·.2)

/-- `po::notify`: in key order, assign each entry to the variable of its option -/
def notifyVM (decls : List OptSpec) (vm : VM) (vars : Vars) : Vars :=
  vm.foldl (fun vars kv =>
    match decls.find? (·.name = kv.1) with
    | some o => if o.var.isEmpty then vars else varSet vars o.var kv.2.toks
    | none => vars) vars

inductive Outcome where
  | run (vm : VM) (vars : Vars)
  | norun
  | error (e : PErr)
  deriving Repr

/-- member initialisers of the constructor that matter: `_configfile("default.cfg")`,
    `I_b({3e-3f})` -/
def initialVars : Vars := [("_configfile", ["default.cfg"]), ("I_b", ["f:3e-3"])]

/-- the event skeleton of `parse` this model was written for -/
def expectedSkeleton : List String :=
  ["store_cli:_commandlineopts", "no_positional", "notify", "ifcount:help", "return:false", "ifcount:copyright",
   "return:false", "ifcount:version", "return:false", "ifcount:buildinfo", "return:false",
   "cfgeq:/dev/null", "return:false", "store_cfg:_cfgfileopts", "aliasloop",
   "aliascond:given(first)&&defaulted(second)", "aliascopy:second<-first", "notify",
   "cfgne:default.cfg", "return:false", "return:true"]

/-- `ProgramOptions::parse`.  `cfgFile path` = lines of the file if it exists and is regular. -/
def parseOptions (decls : List OptSpec) (cliG cfgG : List String) (aliases : List (String × String))
    (args : List String)
    (cfgFile : String → Option (List String)) : Outcome :=
  let cliDesc := described decls cliG
  let cfgDesc := described decls cfgG
  match parseCLI cliDesc args >>= fun p => storeParsed cliDesc p [] [] with
  | .error e => .error e
  | .ok (vm, final) =>
    let vars := notifyVM decls vm initialVars
    if ["help", "copyright", "version", "buildinfo"].any (fun k => (vmFind vm k).isSome) then .norun
    else
      let cfgname := ((varGet vars "_configfile").getD []).headD ""
      let fix (vars : Vars) : Vars :=
        let v1 := if (varGet vars "_outfile") = some ["/dev/null"] then varSet vars "_outfile" [""] else vars
        if (varGet v1 "_startdistfile") = some ["/dev/null"] then varSet v1 "_startdistfile" [""] else v1
      if cfgname = "/dev/null" then .run vm (fix (varSet vars "_configfile" [""]))
      else if cfgname.isEmpty then .run vm (fix vars)
      else
        match cfgFile cfgname with
        | some lines =>
          match parseCfg cfgDesc lines >>= fun p => storeParsed cfgDesc p vm final with
          | .error e => .error e
          | .ok (vm, _) =>
            -- a legacy name acts like the current one unless that was given explicitly
            let vm := aliases.foldl (fun vm ab =>
              match vmFind vm ab.1, vmFind vm ab.2 with
              | some a, some s => if s.defaulted then vmInsert vm ab.2 { s with toks := a.toks } else vm
              | _, _ => vm) vm
            let vars := notifyVM decls vm vars
            .run vm (fix vars)
        | none => if cfgname ≠ "default.cfg" then .norun else .run vm (fix vars)

/-! ### `save(std::string)` -/

/-- default tokens carry a literal-kind prefix (`f:` float literal, `s:` string literal) -/
def stripKind (t : String) : String :=
  if t.startsWith "f:" || t.startsWith "s:" then (t.drop 2).toString else t

/-- the lines `save` writes (key, value token) for a variables map; `fsZero` = `f_s == 0` -/
def saveLines (decls : List OptSpec) (skip : List String) (specials : List (String × String × String))
    (types : List OptTy) (vm : VM) (fsZero : Bool) : List (String × String) :=
  vm.flatMap fun kv =>
    let k := kv.1
    if skip.contains k then []
    else
      match specials.find? (fun s => s.1 = k ∧ ((s.2.1 = "f_s==0" ∧ fsZero) ∨ (s.2.1 = "f_s!=0" ∧ !fsZero))) with
      | some s => [(k, ((s.2.2.splitOn "=").getD 1 ""))]
      | none =>
        match decls.find? (·.name = k) with
        | none => []
        | some o =>
          if o.ty = .flag then []
          else if types.contains o.ty then
            (if o.ty = .vecf32 then kv.2.toks.map (fun t => (k, stripKind t))
             else [(k, stripKind (kv.2.toks.headD ""))])
          else []

end Inovesa
