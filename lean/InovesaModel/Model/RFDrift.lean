/-
  Hand model of the displacement fields of the RF kick (`RFKickMap::_calcKick`,
  src/SM/RFKickMap.cpp) and of the drift (`DriftMap` constructor, src/SM/DriftMap.cpp).
  Transcendental library values (`tanf`, `sinf`, `powf`) are *parameters*: the harness
  passes the values the C++ computed (DESIGN.md §3.4).
-/
import InovesaModel.Model.Scalar
import InovesaModel.Model.Ruler
import InovesaModel.Model.KickMap
namespace Inovesa

variable {α : Type} [Arith α] [NatCast α]

/-- linear RF: `_offset[x] = tan(angle)*(xcenter-x); += tan(angle)*phaseoffs/bl2phase/delta; *= ampl`
    with `phaseoffs = syncphase - phase`. -/
def rfOffsetLinear (tanv xcenter bl2phase delta0 syncphase phase ampl : α) (x : Nat) : α :=
  ((tanv * (xcenter - ((x : Nat) : α))) + tanv * (syncphase - phase) / bl2phase / delta0) * ampl

/-- sinusoidal RF: `_revolutionpart*(-ampl*_V_RF*sin(at(x)*bl2phase+phase)+_V0)/delta1/scaleEV`;
    `sinv x` is the library value of the sine at cell `x`. -/
def rfOffsetSin (revpart vrf v0 delta1 scaleEV ampl : α) (sinv : Nat → α) (x : Nat) : α :=
  revpart * ((-ampl) * vrf * sinv x + v0) / delta1 / scaleEV

/-- argument of the sine for cell x -/
def rfSinArg (ax0 : Ruler α) (bl2phase phase : α) (x : Nat) : α := ax0.at x * bl2phase + phase

/-- drift: `Σ_i slip[i]*p(y)*pow(p(y)*scaleEV/E0, i)` then `/= delta0`; `pw y i` the library power -/
def driftOffset (slip : List α) (ax1 : Ruler α) (delta0 : α) (pw : Nat → Nat → α) (y : Nat) : α :=
  let acc := (List.range slip.length).foldl
    (fun (v : α) i => v + slip.getD i zero * ax1.at y * pw y i) zero
  acc / delta0

/-- base of the power in the drift -/
def driftPowBase (ax1 : Ruler α) (scaleEV e0 : α) (y : Nat) : α := ax1.at y * scaleEV / e0

end Inovesa
