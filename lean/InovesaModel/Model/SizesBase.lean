/-
  Base definitions for the GENERATED buffer-length arithmetic of main() (Gen/Sizes.lean, translator
  fragment G4) and hand models of the two small helpers around it:
  `upper_power_of_two` (src/HelperFunctions.cpp) and the text reader `Impedance::readData`
  (src/Z/Impedance.cpp).  Mathlib-free and executable.
-/
namespace Inovesa

/-- inputs of the length computation: grid size, number of buckets of the filling pattern
    (`filling.size()`), bunch spacing in units of the grid width, `--padding`, `--RoundPadding` -/
structure SizeIn where
  psBins : Nat
  nbuckets : Nat
  spacingPs : Rat
  optPadding : Rat
  roundPadding : Bool
  deriving Repr

structure SizeOut where
  spacingBins : Nat
  paddedBins : Nat
  spacedBins : Nat
  /-- number of samples of the wake impedance = length `_nmax` of the padded profile buffer -/
  wakeLength : Nat
  /-- `_spacing_bins` of the wake field: bucket `b` starts at `b * wakeSpacing` -/
  wakeSpacing : Nat
  deriving Repr

/-- `std::ceil` (value is an integer) -/
def ratCeil (x : Rat) : Rat := ((x.ceil : Int) : Rat)

/-- `std::round`: nearest integer, halves away from zero -/
def ratRound (x : Rat) : Rat :=
  if 0 ≤ x then (((x + 1 / 2).floor : Int) : Rat) else -((((-x) + 1 / 2).floor : Int) : Rat)

/-- conversion of a non-negative floating value to an unsigned integer (truncation); the C++
    conversion is undefined for negative values (model: 0) -/
def ratToNat (x : Rat) : Nat := x.floor.toNat

/-- `upper_power_of_two(uint64_t v)`: `v--; v |= v>>1; ...; v |= v>>32; v++` in 64-bit arithmetic -/
def upperPow2 (v : Nat) : Nat :=
  let w := (v + 2 ^ 64 - 1) % 2 ^ 64
  let w := w ||| (w >>> 1)
  let w := w ||| (w >>> 2)
  let w := w ||| (w >>> 4)
  let w := w ||| (w >>> 8)
  let w := w ||| (w >>> 16)
  let w := w ||| (w >>> 32)
  (w + 1) % 2 ^ 64

/-! ### `Impedance::readData`:
    `while (is >> lineno >> real >> imag) { if (lineno != old) push_back({real,imag}); old = lineno; }` -/

/-- a whitespace-separated token of the file: a non-negative integer (accepted both as record
    number and as value), another number, or something the stream extraction rejects.
    (Tokens such as `1.5` in the record-number position, which the C++ stream would split, are
    outside this model; the correspondence check generates files from these three classes.) -/
inductive Tok where
  | idx (n : Nat)
  | num (v : Rat)
  | bad
  deriving Repr, DecidableEq

def Tok.val? : Tok → Option Rat
  | .idx n => some (n : Rat)
  | .num v => some v
  | .bad => none

/-- records read until the first extraction failure (bad token, or end of input inside a record);
    a record repeating the previous record number is skipped -/
def readDataAux (old : Option Nat) : List Tok → List (Rat × Rat)
  | .idx n :: a :: b :: rest =>
    match a.val?, b.val? with
    | some re, some im =>
      (if old = some n then [] else [(re, im)]) ++ readDataAux (some n) rest
    | _, _ => []
  | _ => []

def readData (toks : List Tok) : List (Rat × Rat) := readDataAux none toks

end Inovesa
