/-
  Hand model of the table assembly and of `FokkerPlanckMap::apply`
  (src/SM/FokkerPlanckMap.cpp).  The row *contents* and the program-ordered list of row
  writers are generated from the constructor (Gen/FPStencil.lean, translator fragment G2);
  this file only says "the last writer covering row j wins" and how `apply` uses the table.
-/
import InovesaModel.Model.Scalar
import InovesaModel.Model.KickMap
import InovesaModel.Gen.FPStencil
namespace Inovesa
open Gen

/-- value of a bound used as a row number / loop start (`_ysize - c` in uint32) -/
def Gen.FPBound.pos (n jc : Nat) : FPBound → Nat
  | .const c => c
  | .fromEnd c => (n + W32 - c) % W32
  | .truncYc => jc
  | .ltYc => 0

/-- does writer `w` write row `j`?  `ltyc j` = `(float)j < ycenter`, `jc` = `(uint32)ycenter` -/
def Gen.FPWriter.covers (n jc : Nat) (ltyc : Nat → Bool) (j : Nat) : FPWriter → Bool
  | .row r _ => j == r.pos n jc
  | .loop lo hi _ =>
      decide (lo.pos n jc ≤ j) &&
      (match hi with
       | .ltYc => ltyc j
       | b => decide (j < b.pos n jc))

def Gen.FPWriter.body : FPWriter → Nat
  | .row _ b => b
  | .loop _ _ b => b

/-- the writer whose row contents survive in row `j` (last one in program order) -/
def fpWinner (dt n jc : Nat) (ltyc : Nat → Bool) (j : Nat) : Option FPWriter :=
  (fpWriters dt).reverse.find? (FPWriter.covers n jc ltyc j)

variable {α : Type} [Arith α]

/-- row `j` of the Fokker–Planck table; `[]` if no statement of the constructor writes it
    (uninitialised memory in the C++ — does not happen for `n ≥ 4`). -/
def fpRowAt (dt fptype n jc : Nat) (ltyc : Nat → Bool) (e1 delta : α) (p : Nat → α) (j : Nat) :
    List (Hi α) :=
  match fpWinner dt n jc ltyc j with
  | some w => fpBody dt fptype w.body e1 delta p j
  | none => []

/-- the constructor's `ycenter`: the energy axis' zero bin `zb`, clamped as the GENERATED
    `fpYcenterClamp` says (`std::min(std::max(zb, lo), _ysize - hi)`) -/
def fpYcenter [NatCast α] [MinMax α] (n : Nat) (zb : α) : α :=
  match fpYcenterClamp with
  | none => zb
  | some (lo, hi) => MinMax.min (MinMax.max zb ((lo : Nat) : α)) (((n - hi : Nat)) : α)

/-- one destination cell of `FokkerPlanckMap::apply` (no bounds test in the code) -/
def fpCell (row : List (Hi α)) (rd : Nat → α) : α :=
  row.foldl (fun v h => v + rd h.1 * h.2) zero

/-- `FokkerPlanckMap::apply` on the flattened grid `data[b][x][y]` -/
def fpApply (n nb : Nat) (rowAt : Nat → List (Hi α)) (data : Nat → α) : List α :=
  (List.range nb).flatMap fun b =>
    (List.range n).flatMap fun x =>
      (List.range n).map fun y => fpCell (rowAt y) (fun s => data (b * n * n + x * n + s))

end Inovesa
