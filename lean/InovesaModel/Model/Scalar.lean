/-
  Scalar abstraction shared by the generated (`Gen/*`) and hand-written (`Model/*`)
  model files.  Mathlib-free: this file is linked into the `ivdriver` executable.

  A C++ `float`/`double` expression of the source is modelled as a term over an
  arbitrary type `α` with `+ - * /`, unary minus and *literals*.  A literal has two
  readings (DESIGN.md §3.6):
    * `ideal`  : the exact rational value `num/den` of the literal expression
                 (used by field-valued instances: theorems, the `Rat` model);
    * `coded`  : the IEEE binary32 bit pattern the compiler emits for it
                 (used by the `Float32` instance, so that the executable model is
                 bit-comparable with the implementation).
-/
namespace Inovesa

/-- Literals with an ideal (rational) and a coded (binary32) reading. -/
class Lit (α : Type) where
  lit : (num : Int) → (den : Nat) → (bits : UInt32) → α

export Lit (lit)

instance : Lit Float32 := ⟨fun _ _ b => Float32.ofBits b⟩
instance : Lit Rat := ⟨fun n d _ => mkRat n d⟩

/-- The arithmetic the generated code needs, bundled only for brevity of signatures.
    (Deliberately *not* a structure extending `Add` etc.: the instances are found
    separately so that over a Mathlib `Field` the field's own operations are used and
    `ring`/`field_simp` apply without instance diamonds.) -/
class abbrev Arith (α : Type) := Add α, Sub α, Mul α, Div α, Neg α, Lit α

/-- Splitting of a non-negative scalar into integer part and fractional part, as
    `std::modf` followed by the `float → uint32` cast does in `KickMap::updateSM`.
    `none` stands for the inputs on which the C++ conversion is undefined behaviour
    (negative integer part, NaN, ≥ 2^32). -/
class ModF (α : Type) where
  modf : α → Option (Nat × α)

def f32modf (x : Float32) : Option (Nat × Float32) :=
  if x.isNaN || x.isInf then none
  else
    let ip := if x ≥ 0 then x.floor else x.ceil
    if ip ≤ -1 then none
    else if ip ≥ 4294967296 then none
    else some (ip.toUInt32.toNat, x - ip)

instance : ModF Float32 := ⟨f32modf⟩

def ratmodf (x : Rat) : Option (Nat × Rat) :=
  let ip : Int := if x ≥ 0 then x.floor else x.ceil
  if ip ≤ -1 then none
  else if ip ≥ 4294967296 then none
  else some (ip.toNat, x - ip)

instance : ModF Rat := ⟨ratmodf⟩

/-! ### hex transport of binary32 values (line protocol of the correspondence check) -/

def hexDigit (n : Nat) : Char :=
  if n < 10 then Char.ofNat (48 + n) else Char.ofNat (87 + n)

def hex8 (u : UInt32) : String :=
  let n := u.toNat
  String.ofList ((List.range 8).map fun i => hexDigit ((n >>> (4 * (7 - i))) % 16))

def f32hex (x : Float32) : String := hex8 x.toBits

def parseHex? (s : String) : Option Nat :=
  s.foldl (fun acc c =>
    match acc with
    | none => none
    | some a =>
      if '0' ≤ c ∧ c ≤ '9' then some (a * 16 + (c.toNat - 48))
      else if 'a' ≤ c ∧ c ≤ 'f' then some (a * 16 + (c.toNat - 87))
      else if 'A' ≤ c ∧ c ≤ 'F' then some (a * 16 + (c.toNat - 55))
      else none) (some 0)

def f32ofHex? (s : String) : Option Float32 :=
  (parseHex? s).map fun n => Float32.ofBits n.toUInt32

/-- Exact rational value of a finite binary32. -/
def f32toRat (x : Float32) : Rat :=
  let b := x.toBits.toNat
  let sign : Int := if b >>> 31 = 1 then -1 else 1
  let e := (b >>> 23) % 256
  let m := b % 8388608
  if e = 0 then sign * (m : Int) * mkRat 1 (2 ^ 149)
  else
    let mant : Int := (m + 8388608 : Nat)
    if e ≥ 150 then sign * mant * ((2 ^ (e - 150) : Nat) : Int)
    else sign * mant * mkRat 1 (2 ^ (150 - e))

def ratStr (q : Rat) : String := s!"{q.num}/{q.den}"

end Inovesa
