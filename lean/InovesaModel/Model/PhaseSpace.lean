/-
  Hand model of `PhaseSpace` (src/PS/PhaseSpace.cpp): Simpson weights, projections,
  integral, normalisation, first/second moments, copy construction.  Executable and
  Mathlib-free; tied to the C++ by the correspondence check (`ps` op-sequence cases).
  Data layout `data[b][x][y]` flattened as in the code.
-/
import InovesaModel.Model.Scalar
import InovesaModel.Model.Ruler
import InovesaModel.Model.KickMap
namespace Inovesa

variable {α : Type} [Arith α] [NatCast α]

/-- `std::inner_product(first, first+n, ws, 0)`: `acc = acc + f i * ws i`, in index order. -/
def innerProd (n : Nat) (f ws : Nat → α) : α :=
  (List.range n).foldl (fun acc i => acc + f i * ws i) zero

/-- `PhaseSpace::simpsonWeights()`: `h/3 · (1,4,2,4,…,1)` built as in the code
    (`h03*(ca+dc)` with `dc` alternating; first and last entry `h03`). -/
def simpsonWeight (n : Nat) (delta0 : α) (x : Nat) : α :=
  let h03 : α := delta0 / lit 3 1 0x40400000
  if x = 0 ∨ x + 1 = n then h03
  else if x % 2 = 1 then h03 * (lit 3 1 0x40400000 + lit 1 1 0x3f800000)
  else h03 * (lit 3 1 0x40400000 + lit (-1) 1 0xbf800000)

/-- `updateXProjection`: `proj0[b][x] = Σ_y data[b][x][y]·ws[y]` -/
def xprojOf (n : Nat) (ws : Nat → α) (data : Nat → α) (b x : Nat) : α :=
  innerProd n (fun y => data (b * n * n + x * n + y)) ws

/-- `updateYProjection`: `proj1[b][y] = 0; for x: += data[b][x][y]·ws[x]` -/
def yprojOf (n : Nat) (ws : Nat → α) (data : Nat → α) (b y : Nat) : α :=
  innerProd n (fun x => data (b * n * n + x * n + y)) ws

/-- `integrate`: `filling[b] = Σ_x proj0[b][x]·ws[x]` -/
def fillingOf (n : Nat) (ws : Nat → α) (proj0 : Nat → Nat → α) (b : Nat) : α :=
  innerProd n (proj0 b) ws

/-- `_integral = std::accumulate(filling)` -/
def integralOf (nb : Nat) (filling : Nat → α) : α :=
  (List.range nb).foldl (fun acc b => acc + filling b) zero

/-- `normalize`: `data[b][x][y] *= filling_set[b]/filling[b]` for buckets with
    `filling_set[b] > 0` (`pos b`), else `0`. -/
def normalizeOf (n : Nat) (pos : Nat → Bool) (fset fill : Nat → α) (data : Nat → α) (i : Nat) : α :=
  let b := i / (n * n)
  if pos b then data i * (fset b / fill b) else zero

/-- `average(axis)`: `avg = Σ_i proj[i]·qp(i)` (plain sum), then `avg *= delta/filling[b]`;
    `0` for buckets with `filling_set[b] ≤ 0`. -/
def averageOf (n : Nat) (pos : Bool) (proj qp : Nat → α) (delta fill : α) : α :=
  if pos then
    ((List.range n).foldl (fun acc i => acc + proj i * qp i) zero) * (delta / fill)
  else zero

/-- accumulation step of `variance`: `var += proj·pow(qp − mean, 2)`; in the C++ the
    `std::pow(float,int)` overload computes in `double` and the sum is rounded back to
    `float` (instance for `Float32`); in a field it is `var + proj·(qp−mean)²`. -/
class VarAcc (α : Type) where
  accSq : α → α → α → α

def varianceOf [VarAcc α] (n : Nat) (pos : Bool) (proj qp : Nat → α) (mean delta fill : α) : α :=
  if pos then
    ((List.range n).foldl (fun acc i => VarAcc.accSq acc (proj i) (qp i - mean)) zero) * (delta / fill)
  else zero

/-! ### the object as a state machine (op sequences of the correspondence check) -/

structure PSConst (α : Type) where
  n : Nat
  nb : Nat
  ax0 : Ruler α
  ax1 : Ruler α
  fset : Array α
  pos : Array Bool          -- filling_set[b] > 0

structure PSState (α : Type) where
  data : Array α
  proj0 : Array α           -- [b][x]
  proj1 : Array α           -- [b][y]
  filling : Array α
  integral : α
  mean : Array α            -- [axis][b]
  var : Array α             -- [axis][b]
  rms : Array α             -- [axis][b]

def PSConst.ws (c : PSConst α) (x : Nat) : α := simpsonWeight c.n c.ax0.delta x

def psXProj (c : PSConst α) (s : PSState α) : PSState α :=
  let d := fun i => s.data.getD i zero
  { s with proj0 := ((List.range (c.nb * c.n)).map fun k => xprojOf c.n c.ws d (k / c.n) (k % c.n)).toArray }

def psYProj (c : PSConst α) (s : PSState α) : PSState α :=
  let d := fun i => s.data.getD i zero
  { s with proj1 := ((List.range (c.nb * c.n)).map fun k => yprojOf c.n c.ws d (k / c.n) (k % c.n)).toArray }

def psIntegrate (c : PSConst α) (s : PSState α) : PSState α :=
  let p0 := fun b x => s.proj0.getD (b * c.n + x) zero
  let fill := ((List.range c.nb).map fun b => fillingOf c.n c.ws p0 b).toArray
  { s with filling := fill, integral := integralOf c.nb (fun b => fill.getD b zero) }

def psNormalize (c : PSConst α) (s : PSState α) : PSState α :=
  let d := fun i => s.data.getD i zero
  { s with data := ((List.range (c.nb * c.n * c.n)).map
      (normalizeOf c.n (fun b => c.pos.getD b false) (fun b => c.fset.getD b zero)
        (fun b => s.filling.getD b zero) d)).toArray }

def psAverage (c : PSConst α) (axis : Nat) (s : PSState α) : PSState α :=
  let ax := if axis = 0 then c.ax0 else c.ax1
  let proj := if axis = 0 then s.proj0 else s.proj1
  let upd := (List.range c.nb).foldl (fun (m : Array α) b =>
    m.setIfInBounds (axis * c.nb + b)
      (averageOf c.n (c.pos.getD b false) (fun i => proj.getD (b * c.n + i) zero) ax.at ax.delta
        (s.filling.getD b zero))) s.mean
  { s with mean := upd }

def psVariance [VarAcc α] (sqrtf : α → α) (c : PSConst α) (axis : Nat) (s : PSState α) : PSState α :=
  let s := psAverage c axis s
  let ax := if axis = 0 then c.ax0 else c.ax1
  let proj := if axis = 0 then s.proj0 else s.proj1
  let vs := (List.range c.nb).map fun b =>
      varianceOf c.n (c.pos.getD b false) (fun i => proj.getD (b * c.n + i) zero) ax.at
        (s.mean.getD (axis * c.nb + b) zero) ax.delta (s.filling.getD b zero)
  let var := (List.range c.nb).foldl (fun (m : Array α) b => m.setIfInBounds (axis * c.nb + b) (vs.getD b zero)) s.var
  let rms := (List.range c.nb).foldl (fun (m : Array α) b => m.setIfInBounds (axis * c.nb + b) (sqrtf (vs.getD b zero))) s.rms
  { s with var := var, rms := rms }

/-- constructor from explicit data (also the copy constructor): copies the data, then
    `updateXProjection; updateYProjection; integrate`; moments start at zero. -/
def psConstruct (c : PSConst α) (data : Array α) : PSState α :=
  let z := Array.replicate (2 * c.nb) (zero : α)
  let s : PSState α := { data := data, proj0 := #[], proj1 := #[], filling := #[], integral := zero,
                         mean := z, var := z, rms := z }
  psIntegrate c (psYProj c (psXProj c s))

def psCopy (c : PSConst α) (s : PSState α) : PSState α := psConstruct c s.data

/-- the grid written from outside (what every source map does through `getData()`): every bunch moved by one column;
    no cached member (projections, populations, moments) changes -/
def psShiftData (c : PSConst α) (s : PSState α) : PSState α :=
  { s with data := ((List.range (c.nb * c.n * c.n)).map fun i =>
      s.data.getD (i / (c.n * c.n) * (c.n * c.n) + (i / c.n % c.n + 1) % c.n * c.n + i % c.n) zero).toArray }

/-! ### construction from the built-in Gaussians (constructor called without data) -/

/-- first loop nest of `createFromProjections`: `data[b][x][y] = proj0[b][x]·proj1[b][y]` -/
def psOuter (c : PSConst α) (s : PSState α) : PSState α :=
  { s with data := ((List.range (c.nb * c.n * c.n)).map fun i =>
      s.proj0.getD (i / (c.n * c.n) * c.n + i / c.n % c.n) zero
        * s.proj1.getD (i / (c.n * c.n) * c.n + i % c.n) zero).toArray }

/-- the member functions that `createFromProjections` and the constructor call by name -/
def psCall (c : PSConst α) (f : String) (s : PSState α) : PSState α :=
  if f = "updateXProjection" then psXProj c s
  else if f = "updateYProjection" then psYProj c s
  else if f = "integrate" then psIntegrate c s
  else if f = "normalize" then psNormalize c s
  else s

/-- `createFromProjections`: outer product, then `updateXProjection; integrate; normalize` — the charge that
    `normalize` divides by is the one just measured on the new grid -/
def psCreateFromProjections (c : PSConst α) (s : PSState α) : PSState α :=
  psNormalize c (psIntegrate c (psXProj c (psOuter c s)))

/-- constructor without data: `setProjection(0, b, gaus(0, zoom)); setProjection(1, b, gaus(1, zoom))` for every
    bunch (`g0`, `g1` = the two sampled Gaussians), `createFromProjections()`, then the common tail
    `updateXProjection; updateYProjection; integrate`; moments start at zero -/
def psConstructGauss (c : PSConst α) (g0 g1 : Nat → α) : PSState α :=
  let z := Array.replicate (2 * c.nb) (zero : α)
  let s : PSState α := { data := Array.replicate (c.nb * c.n * c.n) zero,
                         proj0 := ((List.range (c.nb * c.n)).map fun k => g0 (k % c.n)).toArray,
                         proj1 := ((List.range (c.nb * c.n)).map fun k => g1 (k % c.n)).toArray,
                         filling := Array.replicate c.nb zero, integral := lit 1 1 0x3f800000,
                         mean := z, var := z, rms := z }
  psIntegrate c (psYProj c (psXProj c (psCreateFromProjections c s)))

end Inovesa
