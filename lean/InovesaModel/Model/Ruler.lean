/-
  Hand model of `Ruler<float>` (inc/PS/Ruler.hpp): `_delta`, `at(i)`, `_zerobin`.
  Tied to the C++ by the correspondence check (`ruler` cases, bitwise).
-/
import InovesaModel.Model.Scalar
namespace Inovesa

structure Ruler (α : Type) where
  steps : Nat
  min : α
  max : α

variable {α : Type} [Arith α] [NatCast α]

/-- `_delta = (max-min)/ruler_t(steps-1)` -/
def Ruler.delta (r : Ruler α) : α := (r.max - r.min) / ((r.steps - 1 : Nat) : α)

/-- `_data[i] = _min + ruler_t(i)*_delta` -/
def Ruler.at (r : Ruler α) (i : Nat) : α := r.min + ((i : Nat) : α) * r.delta

/-- `_zerobin = ((min+max)/(min-max)+1)*(steps-1)/2` -/
def Ruler.zerobin (r : Ruler α) : α :=
  ((r.min + r.max) / (r.min - r.max) + lit 1 1 0x3f800000) * ((r.steps - 1 : Nat) : α)
    / lit 2 1 0x40000000

end Inovesa
