/-
  Hand model of `ElectricField` (src/PS/ElectricField.cpp): padding, wake potential, CSR
  spectrum, as a state machine over its work buffers.  Complex numbers are pairs over the
  scalar `α`; the Fourier transforms are *parameters* (`r2c`, `c2r`, and `clob` for what the
  library may do to the input of the complex-to-real transform), with the naive sums
  `dftNaive`/`c2rNaive` as the reference instance (used by the driver in binary64 to
  validate FFTW, and by the theorems of C06/C07).
  Follows the code *after* the fix that clears the shared padded buffer.
-/
import InovesaModel.Model.Scalar
import InovesaModel.Model.KickMap
namespace Inovesa

variable {α : Type} [Arith α]

abbrev Cx (α : Type) := α × α

namespace Cx
def mul (a b : Cx α) : Cx α := (a.1 * b.1 - a.2 * b.2, a.1 * b.2 + a.2 * b.1)
def add (a b : Cx α) : Cx α := (a.1 + b.1, a.2 + b.2)
def conj (a : Cx α) : Cx α := (a.1, -a.2)
def smul (r : α) (a : Cx α) : Cx α := (r * a.1, r * a.2)
def czero : Cx α := (zero, zero)
/-- `std::norm`: squared magnitude -/
def norm (a : Cx α) : α := a.1 * a.1 + a.2 * a.2
end Cx

/-- the wake scaling the delegating constructor hands on (before the division by the transform
    length): `Ib·dt·c/σ_z/(ΔE_cell·σ_δ·E0)` with `qscale` = metres per unit of the position axis and
    `delta1` the ENERGY cell size (proved equal to the generated expression in Props/Tie.lean) -/
def wakeScalingArg (ib dt clight qscale delta1 sdelta e0 : α) : α :=
  ib * dt * clight / qscale / (delta1 * sdelta * e0)

/-- configuration of one field object -/
structure EFConst (α : Type) where
  n : Nat                 -- grid width PhaseSpace::nx
  nb : Nat                -- bunches
  nmax : Nat              -- transform length (impedance->nFreqs())
  spacing : Nat           -- _spacing_bins
  bucket : Nat → Nat      -- _bucket[b]
  z : Nat → Cx α          -- impedance samples
  wakescaling : α         -- _wakescaling (already divided by nmax)
  renorm : Nat → α        -- per-frequency factor of the spectrum (formfactorrenorm × cutoff factor)
  dfreq : α               -- _axis_freq.delta()

/-- work buffers and results -/
structure EFState (α : Type) where
  bp : Nat → α            -- _bp_padded
  ff : Nat → Cx α         -- _formfactor
  wl : Nat → Cx α         -- _wakelosses
  wp : Nat → α            -- _wakepotential_padded
  wake : Nat → Nat → α    -- _wakepotential[b][x]
  spec : Nat → Nat → α    -- _csrspectrum[b][i]
  pow : Nat → α           -- _csrintensity[b]

/-- freshly constructed object: all buffers zero-filled (fft_alloc_* fill with 0) -/
def EFState.fresh : EFState α :=
  { bp := fun _ => zero, ff := fun _ => Cx.czero, wl := fun _ => Cx.czero, wp := fun _ => zero,
    wake := fun _ _ => zero, spec := fun _ _ => zero, pow := fun _ => zero }

/-- `padBunchProfiles` (after clearing): sequential `copy_n` of each profile to
    `bucket[b]*spacing`; later bunches overwrite earlier ones where windows overlap -/
def padProfiles (c : EFConst α) (prof : Nat → Nat → α) : Nat → α :=
  (List.range c.nb).foldl (fun (buf : Nat → α) b => fun i =>
      let o := c.bucket b * c.spacing
      if o ≤ i ∧ i < o + c.n then prof b (i - o) else buf i) (fun _ => zero)

/-- library transforms used by one object -/
structure Transforms (α : Type) where
  r2c : (Nat → α) → Nat → Cx α              -- entries 0..nmax/2 of the forward transform
  c2r : (Nat → Cx α) → Nat → α              -- complex-to-real inverse transform
  clob : (Nat → Cx α) → Nat → Cx α          -- what c2r leaves in its input buffer

/-- forward transform into `_formfactor`: entries `0..nmax/2` are written, the rest is left -/
def runR2C (c : EFConst α) (t : Transforms α) (s : EFState α) : EFState α :=
  { s with ff := fun k => if k ≤ c.nmax / 2 then t.r2c s.bp k else s.ff k }

/-- `wakePotential()` -/
def efWake (c : EFConst α) (t : Transforms α) (prof : Nat → Nat → α) (s : EFState α) : EFState α :=
  let s := { s with bp := padProfiles c prof }
  let s := runR2C c t s
  let wl := fun k => if k < c.nmax / 2 then Cx.mul (c.z k) (s.ff k) else s.wl k
  let wp := t.c2r wl
  { s with wl := t.clob wl, wp := wp,
           wake := fun b x => c.wakescaling * wp (c.bucket b * c.spacing + x) }

/-- `padBunchProfiles()` called on its own -/
def efPad (c : EFConst α) (prof : Nat → Nat → α) (s : EFState α) : EFState α :=
  { s with bp := padProfiles c prof }

/-- one bunch of `updateCSR`: profile of bunch `b` at the start of the cleared buffer,
    forward transform, spectrum `renorm·Re Z·|F|²`, power `Σ δf·spectrum` (in index order) -/
def efCSRBunch (c : EFConst α) (t : Transforms α) (prof : Nat → Nat → α) (s : EFState α) (b : Nat) :
    EFState α :=
  let s := { s with bp := fun i => if i < c.n then prof b i else zero }
  let s := runR2C c t s
  let sp := fun i => c.renorm i * (c.z i).1 * Cx.norm (s.ff i)
  let pw := (List.range c.nmax).foldl (fun acc i => acc + c.dfreq * sp i) zero
  { s with spec := fun b' i => if b' = b then sp i else s.spec b' i,
           pow := fun b' => if b' = b then pw else s.pow b' }

/-- `updateCSR()` -/
def efCSR (c : EFConst α) (t : Transforms α) (prof : Nat → Nat → α) (s : EFState α) : EFState α :=
  (List.range c.nb).foldl (efCSRBunch c t prof) s

/-- operations of the object, each with the bunch profiles current at the time of the call -/
inductive EFOp (α : Type) where
  | wake (prof : Nat → Nat → α)
  | pad (prof : Nat → Nat → α)
  | csr (prof : Nat → Nat → α)

def efStep (c : EFConst α) (t : Transforms α) (s : EFState α) : EFOp α → EFState α
  | .wake p => efWake c t p s
  | .pad p => efPad c p s
  | .csr p => efCSR c t p s

def efRun (c : EFConst α) (t : Transforms α) (ops : List (EFOp α)) (s : EFState α) : EFState α :=
  ops.foldl (efStep c t) s

/-! ### reference transforms: naive sums with a twiddle table `tw j = ω^j`, `ω = e^{-2πi/N}` -/

/-- `F_k = Σ_x ρ_x ω^{kx}` -/
def dftNaive (nmax : Nat) (tw : Nat → Cx α) (rho : Nat → α) (k : Nat) : Cx α :=
  (List.range nmax).foldl (fun acc x => Cx.add acc (Cx.smul (rho x) (tw (k * x % nmax)))) Cx.czero

/-- FFTW's c2r: `out_x = Re X_0 + Σ_{0<k<N/2} 2·Re(X_k ω^{-kx}) + [N even] Re X_{N/2}·(-1)^x` -/
def c2rNaive (nmax : Nat) (tw : Nat → Cx α) (two : α) (xs : Nat → Cx α) (x : Nat) : α :=
  let mid := (List.range ((nmax + 1) / 2 - 1)).foldl (fun acc k' =>
      let k := k' + 1
      acc + two * (Cx.mul (xs k) (Cx.conj (tw (k * x % nmax)))).1) zero
  let nyq := if nmax % 2 = 0 ∧ 0 < nmax then
      (if x % 2 = 0 then (xs (nmax / 2)).1 else -(xs (nmax / 2)).1) else zero
  (xs 0).1 + mid + nyq

def naiveTransforms (nmax : Nat) (tw : Nat → Cx α) (two : α) : Transforms α :=
  { r2c := dftNaive nmax tw, c2r := c2rNaive nmax tw two, clob := id }

end Inovesa
