/-
  Hand-written model of `KickMap::{updateSM, apply, applyTo}` (src/SM/KickMap.cpp) and of
  the generic `SourceMap::apply`.  Mathlib-free and executable; tied to the C++ by the
  correspondence check (harness `kick` cases).  Index arithmetic follows the code:
  `meshindex_t`/`unsigned int` are `Nat` with an explicit `% 2^32`, the `int32_t`
  detour of `apply` likewise (valid for grid sizes < 2^31, which the theorems assume).
-/
import InovesaModel.Model.Scalar
import InovesaModel.Gen.Coeff
namespace Inovesa

def W32 : Nat := 4294967296

instance : NatCast Float32 := ⟨Float32.ofNat⟩

variable {α : Type} [Arith α]

/-- the scalar zero (`meshdata_t value = 0`, weight `0`) -/
def zero : α := lit 0 1 0

/-- One entry of the source-map table `hi {index, weight}`. -/
abbrev Hi (α : Type) := Nat × α

/-- The row of the table that `updateSM` writes for integer part `jd` and fractional part
    `xip` of `_meshsize_kd/2 + _offset[i]` (mesh size `n`, `it` interpolation points). -/
def smRowOf (n it jd : Nat) (xip : α) : List (Hi α) :=
  if jd < n then
    let c := Gen.coeff it xip
    (List.range it).map fun j1 =>
      let j0 := (jd + j1 + W32 - (it - 1) / 2) % W32
      if j0 < n then (j0, c.getD j1 zero) else (n / 2, zero)
  else
    (List.range it).map fun _ => (n / 2, zero)

/-- `updateSM` for one entry of `_offset`.  A position whose integer part is negative, not below
    `2^32`, or NaN (`modf = none`) counts as outside the grid: the all-zero row (code since the fix
    "KickMap::updateSM converts only in-range source positions to an index"; before it the
    `float → uint32` conversion was undefined there).  The result is never `none`; the `Option`
    is kept for the callers. -/
def smRow [NatCast α] [ModF α] (n it : Nat) (off : α) : Option (List (Hi α)) :=
  match ModF.modf (((n / 2 : Nat) : α) + off) with
  | none => some (smRowOf n it n (zero : α))
  | some (jd, xip) => some (smRowOf n it jd xip)

/-- source cell addressed from destination cell `y` through table index `idx`
    (`static_cast<meshindex_t>(int32(y+idx) - int32(n/2))`) -/
def srcCell (n y idx : Nat) : Nat := (y + idx + W32 - n / 2) % W32

/-- The `j`-loop of `KickMap::apply` for one destination cell `y` of one line of the grid:
    `rd s` is the source line (`data_in[offs+s]`, only read for `s < n`). -/
def applyCell (n : Nat) (tab : List (Hi α)) (rd : Nat → α) (y : Nat) : α :=
  tab.foldl (fun v h =>
    let s := srcCell n y h.1
    if s < n then v + rd s * h.2 else v) zero

/-- One line (fixed perpendicular coordinate) of `KickMap::apply`. -/
def applyLine (n : Nat) (tab : List (Hi α)) (rd : Nat → α) : List α :=
  (List.range n).map (applyCell n tab rd)

/-! ### whole-grid `apply`, data layout `data[b][x][y]` flattened, as in the code -/

/-- `KickMap::apply`, y-direction (RF kick, wake kick).  `tabs r` is table row `r`
    (`_hinfo[r*_ip .. r*_ip+_ip)`), `lastbunch` = `_lastbunch`.  Row used for bunch `b`,
    position `x`: `min b lastbunch * n + x`. -/
def applyY (n nb lastbunch : Nat) (tabs : Nat → List (Hi α)) (data : Nat → α) : List α :=
  (List.range nb).flatMap fun b =>
    (List.range n).flatMap fun x =>
      applyLine n (tabs (min b lastbunch * n + x)) (fun s => data (b * n * n + x * n + s))

/-- `KickMap::apply`, x-direction (drift).  All bunches use table rows `0..n-1`
    (`_hinfo[y*_ip+j]`); the line runs over `x` with stride `n`. -/
def applyX (n nb : Nat) (tabs : Nat → List (Hi α)) (data : Nat → α) : List α :=
  (List.range nb).flatMap fun b =>
    (List.range n).flatMap fun x =>
      (List.range n).map fun y =>
        applyCell n (tabs y) (fun s => data (b * n * n + s * n + y)) x

/-- generic `SourceMap::apply` (used by `RotationMap`): `ip` table entries per cell with
    absolute source indices. -/
def applyGeneric (ncells : Nat) (tab : Nat → List (Hi α)) (data : Nat → α) : List α :=
  (List.range ncells).map fun i =>
    (tab i).foldl (fun v h => v + data h.1 * h.2) zero

/-! ### particle tracking `KickMap::applyTo` -/

class MinMax (α : Type) where
  min : α → α → α
  max : α → α → α

/-- `KickMap::applyTo` along the kick direction: `p` the coordinate along the kick,
    `(i, fr)` integer/fractional part of the perpendicular coordinate, `off` the
    displacement field. -/
def applyToCoord [NatCast α] [MinMax α] (n : Nat) (off : Nat → α) (p : α) (i : Nat) (fr : α) : α :=
  let one : α := lit 1 1 0x3f800000
  let p' := if i + 1 < n then p - ((one - fr) * off i + fr * off (i + 1)) else p
  MinMax.max one (MinMax.min p' (((n - 1 : Nat) : α)))

end Inovesa
