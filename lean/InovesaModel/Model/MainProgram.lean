/-
  Hand model of the simulation part of `main()` (src/main.cpp): an interpreter for the
  GENERATED statement skeleton (Gen/MainProgram.lean, translator fragment G7) over an abstract
  state.  The physics is uninterpreted (`Sem`): the model fixes *which cached member is
  computed from what, in which order, and what is appended to which dataset when* — the content
  of C10, C11, C12, C14 and of the record-keeping part of C19.

  One logical grid is modelled (the code rotates it through grid_t1 → t2 → t1 → t3 → t1 within
  a step; nothing but the maps reads the intermediate grids).  Signals: `Display::abort` is set
  asynchronously; the only reader is the loop condition, so a signal is modelled by the value
  `sigAt`, the number of the interrupt point (hook H1) at which it is raised.
-/
import InovesaModel.Gen.MainProgram
namespace Inovesa
open Gen

/-- uninterpreted physics/numerics: every value (grid, projection, moments, …) is a `V` -/
structure Sem (V : Type) where
  xproj : V → V                 -- updateXProjection (grid ↦ x-projection)
  yproj : V → V                 -- updateYProjection
  integ : V → V                 -- integrate (x-projection ↦ populations/integral)
  normalize : V → V → V         -- normalize (grid, populations ↦ grid)
  mom0 : V → V → V              -- variance(0) (x-projection, populations ↦ position/length)
  mom1 : V → V → V              -- variance(1) (y-projection, populations ↦ mean energy/spread)
  wake : V → V                  -- wakePotential (x-projection ↦ kick offsets)
  wakepad : V → V               -- padded profile and padded wake (x-projection ↦ both)
  csr : V → V                   -- updateCSR (x-projection ↦ spectrum and intensity)
  kick : V → V → V              -- wm->apply (grid, offsets ↦ grid)
  ident : V → V                 -- wm->apply without impedance (Identity map)
  rfStatic : V → V              -- rfm->apply, static RF
  rfDyn : V → V → V             -- rfm->apply with one (phase, amplitude) entry
  drift : V → V
  fp : V → V
  track : String → V → V → V    -- applyToAll of a map: (map name, particles, map state ↦ particles)

/-- the part of the configuration the simulation part of main() reads -/
structure MCfg where
  laststep : Nat
  outstep : Nat
  h5save : Nat
  renormalize : Int
  hasWake : Bool          -- wkm != nullptr  (and wake_field != nullptr: both are set together)
  hasFile : Bool          -- hdf_file != nullptr
  hasDrfm : Bool          -- dynamic RF map in use
  deriving Repr, DecidableEq

/-- one record of the time-indexed datasets written together by `HDF5File::append(ps,t,at)` -/
structure MRec (V : Type) where
  t : Nat                 -- simulationstep (the file stores t/steps)
  profile : V             -- /BunchProfile
  moments0 : V            -- /BunchLength, /BunchPosition
  eprofile : V            -- /EnergyProfile
  moments1 : V            -- /EnergySpread, /EnergyAverage
  population : V          -- /BunchPopulation
  ghostGrid : V           -- (not stored) the grid at the moment of the append

structure MFile (V : Type) where
  recs : List (MRec V) := []         -- /Info/AxisValues_t and the datasets above
  ps : List (Nat × V) := []          -- /PhaseSpace/axis0, /PhaseSpace/data
  csr : List V := []                 -- /CSR/Spectrum, /CSR/Intensity
  wake : List V := []                -- /WakePotential/data
  tracks : List V := []              -- /Particles/data
  rfk : List V := []                 -- /RFKicks/data rows
  padded : List V := []              -- /BunchProfile/padded, /WakePotential/padded

structure MState (V : Type) where
  step : Nat                -- simulationstep
  outnr : Nat               -- outstepnr
  clock : Nat               -- interrupt-point markers (`ip:` statements) passed in the modelled part
  grid : V
  xp : V                    -- cached x-projection of grid_t1
  yp : V
  fil : V                   -- cached populations/integral
  m0 : V
  m1 : V
  wk : V                    -- offsets of the wake kick map
  wpad : V                  -- padded buffers of wake_field
  csrv : V                  -- spectrum/intensity of rdtn_field
  rfNext : List V           -- queue of modulation entries still to be used
  rfPast : List V           -- entries used since the last flush
  tracks : V
  file : MFile V

variable {V : Type}

def condHolds (c : MCfg) (s : MState V) : MCond → Bool
  | .hasWake => c.hasWake
  | .hasWakeField => c.hasWake
  | .hasFile => c.hasFile
  | .renormNow => decide (c.renormalize > 0) && decide ((s.step : Int) % c.renormalize = 0)
  | .outNow => decide (c.outstep > 0) && decide (s.step % c.outstep = 0)
  | .h5saveZero => decide (c.h5save = 0)
  | .hasDrfm => c.hasDrfm

/-- `at == All` in the loop's output block -/
def saveAllNow (c : MCfg) (s : MState V) : Bool :=
  decide (c.h5save > 0) && decide (s.outnr % c.h5save = 0)

def mkRec (s : MState V) : MRec V :=
  { t := s.step, profile := s.xp, moments0 := s.m0, eprofile := s.yp, moments1 := s.m1,
    population := s.fil, ghostGrid := s.grid }

/-- effect of one call statement (names as generated) -/
def execCall (sem : Sem V) (c : MCfg) (name : String) (s : MState V) : MState V :=
  let s := if name.startsWith "ip:" then { s with clock := s.clock + 1 } else s
  match name with
  | "grid.updateXProjection" => { s with xp := sem.xproj s.grid }
  | "grid.updateYProjection" => { s with yp := sem.yproj s.grid }
  | "grid.integrate" => { s with fil := sem.integ s.xp }
  | "grid.integrateAndNormalize" =>
      let f := sem.integ s.xp
      { s with fil := f, grid := sem.normalize s.grid f }
  | "grid.variance0" => { s with m0 := sem.mom0 s.xp s.fil }
  | "grid.variance1" => { s with m1 := sem.mom1 s.yp s.fil }
  | "wkm.update" => { s with wk := sem.wake s.xp, wpad := sem.wakepad s.xp }
  | "wakefield.wakePotential" => { s with wpad := sem.wakepad s.xp }
  | "file.appendPadded" => { s with file := { s.file with padded := s.file.padded ++ [s.wpad] } }
  | "file.appendGrid.PhaseSpace0" => { s with file := { s.file with ps := s.file.ps ++ [(0, s.grid)] } }
  | "file.appendGrid.at" =>
      let f := s.file
      let f := if saveAllNow c s then { f with ps := f.ps ++ [(s.step, s.grid)] } else f
      { s with file := { f with recs := f.recs ++ [mkRec s] } }
  | "file.appendGrid.All" =>
      let f := s.file
      { s with file := { f with ps := f.ps ++ [(s.step, s.grid)], recs := f.recs ++ [mkRec s] } }
  | "rdtn.updateCSR" => { s with csrv := sem.csr s.xp }
  | "file.appendCSR" => { s with file := { s.file with csr := s.file.csr ++ [s.csrv] } }
  | "file.appendWake" => { s with file := { s.file with wake := s.file.wake ++ [s.wk] } }
  | "file.appendTracks" => { s with file := { s.file with tracks := s.file.tracks ++ [s.tracks] } }
  | "file.appendRFKicks" => { s with file := { s.file with rfk := s.file.rfk ++ s.rfPast }, rfPast := [] }
  | "wm.apply" => { s with grid := if c.hasWake then sem.kick s.grid s.wk else sem.ident s.grid }
  | "wm.track" => { s with tracks := sem.track "wm" s.tracks s.wk }
  | "rfm.apply" =>
      if c.hasDrfm then
        match s.rfNext with
        | r :: rest => { s with grid := sem.rfDyn s.grid r, rfNext := rest, rfPast := s.rfPast ++ [r] }
        | [] => s      -- the queue holds `laststep` entries: never reached inside the loop
      else { s with grid := sem.rfStatic s.grid }
  | "rfm.track" => { s with tracks := sem.track "rfm" s.tracks s.wk }
  | "drm.apply" => { s with grid := sem.drift s.grid }
  | "drm.track" => { s with tracks := sem.track "drm" s.tracks s.wk }
  | "fpm.apply" => { s with grid := sem.fp s.grid }
  | "fpm.track" => { s with tracks := sem.track "fpm" s.tracks s.wk }
  | "step++" => { s with step := s.step + 1 }
  | "outnr++" => { s with outnr := s.outnr + 1 }
  | "decl.outstepnr" => { s with outnr := 0 }
  | "decl.simulationstep" => { s with step := 0 }
  | _ => s      -- prints and the remaining declarations

mutual
  def execStmt (sem : Sem V) (c : MCfg) (st : MStmt) (s : MState V) : MState V :=
    match st with
    | .call name => execCall sem c name s
    | .ite cnd t e => if condHolds c s cnd then execBlock sem c t s else execBlock sem c e s
  def execBlock (sem : Sem V) (c : MCfg) (b : List MStmt) (s : MState V) : MState V :=
    match b with
    | [] => s
    | st :: r => execBlock sem c r (execStmt sem c st s)
end

/-- `Display::abort` as read by the loop condition: the signal is raised while interrupt point
    number `p` (counted from program start, `setupMarkers` of them lie before the modelled part)
    is being passed; the flag reads true once that point has been passed -/
def aborted (sigAt : Option Nat) (s : MState V) : Bool :=
  match sigAt with
  | some p => decide (p < setupMarkers + s.clock)
  | none => false

/-- `while (simulationstep<laststep && !Display::abort) body` — at most `fuel` iterations -/
def loopFuel (sem : Sem V) (c : MCfg) (sigAt : Option Nat) : Nat → MState V → MState V
  | 0, s => s
  | fuel + 1, s =>
    if s.step < c.laststep ∧ aborted sigAt s = false then
      loopFuel sem c sigAt fuel (execBlock sem c loopBody s)
    else s

/-- the simulation part of main(): initial block, loop, final block -/
def runMain (sem : Sem V) (c : MCfg) (sigAt : Option Nat) (s0 : MState V) : MState V :=
  let s := execBlock sem c initialBlock s0
  let s := loopFuel sem c sigAt c.laststep s
  execBlock sem c finalBlock s

/-- the same with the loop cut after exactly `k` iterations (no signal) -/
def iterate (sem : Sem V) (c : MCfg) : Nat → MState V → MState V
  | 0, s => s
  | k + 1, s => iterate sem c k (execBlock sem c loopBody s)

def runFor (sem : Sem V) (c : MCfg) (k : Nat) (s0 : MState V) : MState V :=
  execBlock sem c finalBlock (iterate sem c k (execBlock sem c initialBlock s0))

/-- state at program start (after set-up): grid given, nothing cached, empty file -/
def startState (grid dflt : V) (queue : List V) (tracks : V) : MState V :=
  { step := 0, outnr := 0, clock := 0, grid := grid, xp := dflt, yp := dflt, fil := dflt, m0 := dflt,
    m1 := dflt, wk := dflt, wpad := dflt, csrv := dflt, rfNext := queue, rfPast := [], tracks := tracks,
    file := {} }

/-- what determines the future of the simulation -/
def physOf (s : MState V) : Nat × V × V × List V := (s.step, s.grid, s.xp, s.rfNext)

end Inovesa
