/-
  Hand model of the impedance table builders (src/Z/*.cpp `__calcImpedance`) and of the
  additive factory (`makeImpedance`, src/Z/ImpedanceFactory.cpp).  Library functions
  (`pow(x,1/3)`, `sqrt`, `log`, Airy functions) are parameters.
-/
import InovesaModel.Model.Scalar
import InovesaModel.Model.KickMap
import InovesaModel.Model.ElectricField
namespace Inovesa

variable {α : Type} [Arith α]

/-- a table of `n` samples: `elem i` for `first ≤ i ≤ last`, zero elsewhere -/
def impTable (n first last : Nat) (elem : Nat → Cx α) : List (Cx α) :=
  (List.range n).map fun i => if first ≤ i ∧ i ≤ last then elem i else Cx.czero

/-- `ConstImpedance`: `rv.resize(n/2, Z); rv.resize(n, 0)` — samples `0 .. n/2-1` -/
def constImpedance (n : Nat) (z : Cx α) : List (Cx α) :=
  (List.range n).map fun i => if i < n / 2 then z else Cx.czero

/-- `FreeSpaceCSR`: `Z0·pow(i·Δ, 1/3)` for `i ≤ n/2`, `Z0 = (306.3, 176.9)`; `pw i` = the library power -/
def freeSpaceCSR (n : Nat) (pw : Nat → α) : List (Cx α) :=
  impTable n 0 (n / 2) fun i => (lit 3063 10 0x43992666 * pw i, lit 1769 10 0x4330e666 * pw i)

/-- `ResistiveWall`: `Z1·sqrt(i·Δ)` for `i ≤ n/2` with `Z1 = r·(1, −1)` -/
def resistiveWall (n : Nat) (r : α) (sq : Nat → α) : List (Cx α) :=
  impTable n 0 (n / 2) fun i => (r * sq i, (-r) * sq i)

/-- `ParallelPlatesCSR`: sample `i` (1 ≤ i ≤ n/2) is `pref i · Σ_p (Ai'(u)(Ai'(u) − j·Bi'(u)) + u·Ai(u)(Ai(u) − j·Bi(u)))`
    over the odd plate modes; `terms i` lists `(u, Ai u, Ai' u, Bi u, Bi' u)` of the modes summed -/
def parallelPlates (n : Nat) (pref : Nat → α) (terms : Nat → List (α × α × α × α × α)) : List (Cx α) :=
  impTable n 1 (n / 2) fun i =>
    let s := (terms i).foldl (fun (acc : Cx α) t =>
      let (u, ai, aip, bi, bip) := t
      (acc.1 + (aip * aip + u * (ai * ai)), acc.2 + (-(aip * bip) - u * (ai * bi)))) Cx.czero
    (pref i * s.1, pref i * s.2)

/-- element-wise sum of tables (`Impedance::operator+=` over equal lengths) -/
def addTables (a b : List (Cx α)) : List (Cx α) := List.zipWith Cx.add a b

/-- `Impedance::operator+=` as it is since the fix "operator+= min size": the left table keeps its
    length, entries beyond the end of the right table stay as they are, a longer right table is cut -/
def addInto (a b : List (Cx α)) : List (Cx α) := List.zipWith Cx.add a b ++ a.drop b.length

structure FactoryCfg where
  gapNonzero : Bool        -- gap != 0
  gapPositive : Bool       -- gap > 0
  useCSR : Bool
  wall : Bool              -- s > 0 && xi >= -1
  collimator : Bool        -- 0 < inner < |gap/2|
  file : Bool              -- impedance_file != ""
  deriving Repr, DecidableEq

/-- `makeImpedance`: the contributions that are added, in order; `none` when nothing is selected -/
def factoryContributions (c : FactoryCfg) : Option (List String) :=
  let l := (if c.gapNonzero && c.useCSR then [if c.gapPositive then "parallel-plates" else "free-space"] else [])
        ++ (if c.gapNonzero && c.wall then ["resistive-wall"] else [])
        ++ (if c.gapNonzero && c.collimator then ["collimator"] else [])
        ++ (if c.file then ["file"] else [])
  if l.isEmpty then none else some l

/-- the table `makeImpedance` returns: zero table plus every selected contribution -/
def factoryTable (n : Nat) (c : FactoryCfg) (contrib : String → List (Cx α)) : Option (List (Cx α)) :=
  (factoryContributions c).map fun l => l.foldl (fun acc k => addTables acc (contrib k)) (List.replicate n Cx.czero)

end Inovesa
