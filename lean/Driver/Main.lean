/-
  Line-protocol driver of the executable model (DESIGN.md §4.2).  Reads the same op file
  as harness/ivharness.cpp and prints the same observation lines from the model,
  evaluated in `Float32` (bit-comparable).  Imports no Mathlib.
-/
import InovesaModel.Model.Scalar
import InovesaModel.Model.KickMap
import Driver.Cases
open Inovesa

partial def readLines (h : IO.FS.Stream) (acc : Array String) : IO (Array String) := do
  let line ← h.getLine
  if line.isEmpty then return acc else readLines h (acc.push line)

def main (args : List String) : IO UInt32 := do
  match args with
  | [path] =>
    let txt ← IO.FS.readFile path
    let out ← IO.getStdout
    let mut cur : Driver.Case := {}
    let mut isOpen := false
    for line in txt.splitOn "\n" do
      let t := (line.trimAscii.toString.splitOn " ").filter (· ≠ "")
      match t with
      | [] => pure ()
      | "off" :: r => cur := { cur with off := Driver.floats r }
      | "off0" :: _ => pure ()      -- displacement field of the map's PAST: the result must not depend on it
      | "data" :: r => cur := { cur with data := Driver.floats r }
      | "extra" :: r => cur := { cur with extra := Driver.floats r }
      | "parts" :: r => cur := { cur with parts := Driver.floats r }
      | "ops" :: r => cur := { cur with words := r.toArray }
      | "argv" :: r => cur := { cur with argv := r }
      | "cfg" :: r => cur := { cur with cfg := r }
      | "aux" :: r => cur := { cur with aux := Driver.floats r }
      | "aux2" :: r => cur := { cur with aux2 := Driver.floats r }
      | "aux3" :: r => cur := { cur with aux3 := Driver.floats r }
      | ["run"] =>
        if isOpen then
          for l in Driver.dispatch cur do out.putStrLn l
        isOpen := false
      | k :: r =>
        if k.startsWith "#" then pure ()
        else
          cur := { kind := k, id := r.headD "?", head := (k :: r).toArray }
          isOpen := true
    return 0
  | _ =>
    IO.eprintln "usage: ivdriver <opfile>"
    return 2
