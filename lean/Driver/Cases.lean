import InovesaModel.Model.Scalar
import InovesaModel.Model.KickMap
import InovesaModel.Model.Ruler
import InovesaModel.Model.FokkerPlanck
open Inovesa
namespace Driver

structure Case where
  kind : String := ""
  id : String := "?"
  head : Array String := #[]
  off : Array Float32 := #[]
  data : Array Float32 := #[]
  extra : Array Float32 := #[]
  parts : Array Float32 := #[]

def floats (ts : List String) : Array Float32 :=
  (ts.map fun s => (f32ofHex? s).getD (Float32.ofBits 0x7fc00000)).toArray

def natArg (c : Case) (i : Nat) : Nat := ((c.head.getD i "0").toNat?).getD 0
def intArg (c : Case) (i : Nat) : Int := ((c.head.getD i "0").toInt?).getD 0

def hexLine (tag : String) (xs : List Float32) : String :=
  xs.foldl (fun s x => s ++ " " ++ f32hex x) tag

instance : MinMax Float32 where
  -- std::min(a,b) = (b < a) ? b : a ; std::max(a,b) = (a < b) ? b : a
  min a b := if b < a then b else a
  max a b := if a < b then b else a

def f32zero : Float32 := Float32.ofBits 0

/-- kick <id> <x|y> <n> <it> <nb> <lastbunch|-1> -/
def runKick (c : Case) : List String :=
  let axis := c.head.getD 2 "y"
  let n := natArg c 3
  let it := natArg c 4
  let nb := natArg c 5
  let lbi := intArg c 6
  let lb : Nat := if lbi < 0 then nb - 1 else lbi.toNat
  let rowsOpt : Option (Array (List (Hi Float32))) :=
    (List.range (n * nb)).foldl (fun acc r =>
      match acc, smRow n it (c.off.getD r f32zero) with
      | some a, some row => some (a.push row)
      | _, _ => none) (some #[])
  match rowsOpt with
  | none => ["case " ++ c.id, "undefined float-to-uint32"]
  | some rows =>
    let tabs : Nat → List (Hi Float32) := fun r => rows.getD r []
    let tabLine := rows.foldl (fun s row =>
      row.foldl (fun s h => s ++ " " ++ toString h.1 ++ " " ++ f32hex h.2) s) "tab"
    let data : Nat → Float32 := fun i => c.data.getD i f32zero
    let out := if axis == "x" then applyX n nb tabs data else applyY n nb lb tabs data
    let partLines :=
      if c.parts.isEmpty then [] else
        let np := c.parts.size / 2
        let res := (List.range np).foldl (fun (acc : List Float32) k =>
          let px := c.parts.getD (2 * k) f32zero
          let py := c.parts.getD (2 * k + 1) f32zero
          let off : Nat → Float32 := fun i => c.off.getD i f32zero
          if axis == "x" then
            -- kick along x, perpendicular coordinate y
            match f32modf py with
            | some (yi, yf) => acc ++ [applyToCoord n off px yi yf, py]
            | none => acc ++ [Float32.ofBits 0x7fc00000, py]
          else
            match f32modf px with
            | some (xi, xf) => acc ++ [px, applyToCoord n off py xi xf]
            | none => acc ++ [px, Float32.ofBits 0x7fc00000]) []
        [hexLine "parts" res]
    ["case " ++ c.id, tabLine, hexLine "out" out] ++ partLines

/-- coeff <id> <it> ; extra = fractional offsets -/
def runCoeff (c : Case) : List String :=
  let it := natArg c 2
  let ws := c.extra.toList.flatMap fun f => Gen.coeff it f
  ["case " ++ c.id, hexLine "coeff" ws]

/-- fp <id> <n> <nb> <dt> <fptype> <fptrack> ; extra = e1 qmin qmax pmin pmax -/
def runFP (c : Case) : List String :=
  let n := natArg c 2
  let nb := natArg c 3
  let dt := natArg c 4
  let fpt := natArg c 5
  let e1 := c.extra.getD 0 f32zero
  let ry : Ruler Float32 := { steps := n, min := c.extra.getD 3 f32zero, max := c.extra.getD 4 f32zero }
  let delta := ry.delta
  let yc := ry.zerobin
  let p : Nat → Float32 := fun j => ry.at j
  let jc : Nat := match f32modf yc with
    | some (i, _) => i
    | none => 0
  let ltyc : Nat → Bool := fun j => decide (Float32.ofNat j < yc)
  let rowAt : Nat → List (Hi Float32) := fun j => fpRowAt dt fpt n jc ltyc e1 delta p j
  let rulerLine := hexLine "ruler" ([delta, yc] ++ (List.range n).map p)
  let tabLine := (List.range n).foldl (fun s j =>
      (rowAt j).foldl (fun s h => s ++ " " ++ toString h.1 ++ " " ++ f32hex h.2) s) "tab"
  let data : Nat → Float32 := fun i => c.data.getD i f32zero
  let out := fpApply n nb rowAt data
  ["case " ++ c.id, rulerLine, tabLine, hexLine "out" out]

def dispatch (c : Case) : List String :=
  match c.kind with
  | "kick" => runKick c
  | "coeff" => runCoeff c
  | "fp" => runFP c
  | k => ["case " ++ c.id, "error unknown-kind " ++ k]

end Driver
