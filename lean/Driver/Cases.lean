import InovesaModel.Model.Scalar
import InovesaModel.Model.KickMap
import InovesaModel.Model.Ruler
import InovesaModel.Model.FokkerPlanck
import InovesaModel.Model.RFDrift
import InovesaModel.Model.PhaseSpace
import InovesaModel.Model.H5Read
import InovesaModel.Gen.PPlates
import InovesaModel.Model.ElectricField
import InovesaModel.Model.Options
import InovesaModel.Model.MainProgram
import InovesaModel.Model.DynamicRF
import InovesaModel.Gen.Sizes
import InovesaModel.Gen.DriftWake
import InovesaModel.Model.Impedance
open Inovesa
namespace Driver

structure Case where
  kind : String := ""
  id : String := "?"
  head : Array String := #[]
  off : Array Float32 := #[]
  data : Array Float32 := #[]
  extra : Array Float32 := #[]
  parts : Array Float32 := #[]
  aux : Array Float32 := #[]
  aux2 : Array Float32 := #[]
  aux3 : Array Float32 := #[]
  words : Array String := #[]
  argv : List String := []
  cfg : List String := []

def floats (ts : List String) : Array Float32 :=
  (ts.map fun s => (f32ofHex? s).getD (Float32.ofBits 0x7fc00000)).toArray

def natArg (c : Case) (i : Nat) : Nat := ((c.head.getD i "0").toNat?).getD 0
def intArg (c : Case) (i : Nat) : Int := ((c.head.getD i "0").toInt?).getD 0

def hexLine (tag : String) (xs : List Float32) : String :=
  xs.foldl (fun s x => s ++ " " ++ f32hex x) tag

instance : MinMax Float32 where
  -- std::min(a,b) = (b < a) ? b : a ; std::max(a,b) = (a < b) ? b : a
  min a b := if b < a then b else a
  max a b := if a < b then b else a

def f32zero : Float32 := Float32.ofBits 0

/-- kick <id> <x|y> <n> <it> <nb> <lastbunch|-1> -/
def runKick (c : Case) : List String :=
  let axis := c.head.getD 2 "y"
  let n := natArg c 3
  let it := natArg c 4
  let nb := natArg c 5
  let lbi := intArg c 6
  let lb : Nat := if lbi < 0 then nb - 1 else lbi.toNat
  let rowsOpt : Option (Array (List (Hi Float32))) :=
    (List.range (n * nb)).foldl (fun acc r =>
      match acc, smRow n it (c.off.getD r f32zero) with
      | some a, some row => some (a.push row)
      | _, _ => none) (some #[])
  match rowsOpt with
  | none => ["case " ++ c.id, "undefined float-to-uint32"]
  | some rows =>
    let tabs : Nat → List (Hi Float32) := fun r => rows.getD r []
    let tabLine := rows.foldl (fun s row =>
      row.foldl (fun s h => s ++ " " ++ toString h.1 ++ " " ++ f32hex h.2) s) "tab"
    let data : Nat → Float32 := fun i => c.data.getD i f32zero
    let out := if axis == "x" then applyX n nb tabs data else applyY n nb lb tabs data
    let partLines :=
      if c.parts.isEmpty then [] else
        let np := c.parts.size / 2
        let res := (List.range np).foldl (fun (acc : List Float32) k =>
          let px := c.parts.getD (2 * k) f32zero
          let py := c.parts.getD (2 * k + 1) f32zero
          let off : Nat → Float32 := fun i => c.off.getD i f32zero
          if axis == "x" then
            -- kick along x, perpendicular coordinate y
            match f32modf py with
            | some (yi, yf) => acc ++ [applyToCoord n off px yi yf, py]
            | none => acc ++ [Float32.ofBits 0x7fc00000, py]
          else
            match f32modf px with
            | some (xi, xf) => acc ++ [px, applyToCoord n off py xi xf]
            | none => acc ++ [px, Float32.ofBits 0x7fc00000]) []
        [hexLine "parts" res]
    ["case " ++ c.id, tabLine, hexLine "out" out] ++ partLines

/-- coeff <id> <it> ; extra = fractional offsets -/
def runCoeff (c : Case) : List String :=
  let it := natArg c 2
  let ws := c.extra.toList.flatMap fun f => Gen.coeff it f
  ["case " ++ c.id, hexLine "coeff" ws]

/-- fp <id> <n> <nb> <dt> <fptype> <fptrack> ; extra = e1 qmin qmax pmin pmax -/
def runFP (c : Case) : List String :=
  let n := natArg c 2
  let nb := natArg c 3
  let dt := natArg c 4
  let fpt := natArg c 5
  let e1 := c.extra.getD 0 f32zero
  let ry : Ruler Float32 := { steps := n, min := c.extra.getD 3 f32zero, max := c.extra.getD 4 f32zero }
  let delta := ry.delta
  let yc := fpYcenter n ry.zerobin
  let p : Nat → Float32 := fun j => ry.at j
  let jc : Nat := match f32modf yc with
    | some (i, _) => i
    | none => 0
  let ltyc : Nat → Bool := fun j => decide (Float32.ofNat j < yc)
  let rowAt : Nat → List (Hi Float32) := fun j => fpRowAt dt fpt n jc ltyc e1 delta p j
  let rulerLine := hexLine "ruler" ([delta, yc] ++ (List.range n).map p)
  let tabLine := (List.range n).foldl (fun s j =>
      (rowAt j).foldl (fun s h => s ++ " " ++ toString h.1 ++ " " ++ f32hex h.2) s) "tab"
  let data : Nat → Float32 := fun i => c.data.getD i f32zero
  let out := fpApply n nb rowAt data
  ["case " ++ c.id, rulerLine, tabLine, hexLine "out" out]

/-- ident <id> <n> <nb> : `Identity::apply` copies `nb*n*n` cells -/
def runIdent (c : Case) : List String :=
  let n := natArg c 2
  let nb := natArg c 3
  ["case " ++ c.id, hexLine "out" ((List.range (nb * n * n)).map fun i => c.data.getD i f32zero)]

/-- tables + apply for a y-kick whose offsets are `off` (n*nb entries) -/
def kickOutputs (axis : String) (n it nb lb : Nat) (off : Array Float32) (data : Array Float32) :
    List String :=
  let rowsOpt : Option (Array (List (Hi Float32))) :=
    (List.range (n * nb)).foldl (fun acc r =>
      match acc, smRow n it (off.getD r f32zero) with
      | some a, some row => some (a.push row)
      | _, _ => none) (some #[])
  match rowsOpt with
  | none => ["undefined float-to-uint32"]
  | some rows =>
    let tabs : Nat → List (Hi Float32) := fun r => rows.getD r []
    let tabLine := rows.foldl (fun s row =>
      row.foldl (fun s h => s ++ " " ++ toString h.1 ++ " " ++ f32hex h.2) s) "tab"
    let d : Nat → Float32 := fun i => data.getD i f32zero
    let out := if axis == "x" then applyX n nb tabs d else applyY n nb lb tabs d
    [tabLine, hexLine "out" out]

/-- rf <id> <n> <it> <nb> <lin|sin> ; extra = qmin qmax pmin pmax qscale pscale angle f_RF
    [revpart V_RF V0] ; aux = tan(angle) bl2phase syncphase ; aux2 = (arg, sin arg) per cell -/
def runRF (c : Case) : List String :=
  let n := natArg c 2
  let it := natArg c 3
  let nb := natArg c 4
  let lin := c.head.getD 5 "lin" == "lin"
  let e := fun i => c.extra.getD i f32zero
  let ax0 : Ruler Float32 := { steps := n, min := e 0, max := e 1 }
  let ax1 : Ruler Float32 := { steps := n, min := e 2, max := e 3 }
  let tanv := c.aux.getD 0 f32zero
  let bl2 := c.aux.getD 1 f32zero
  let sync := c.aux.getD 2 f32zero
  -- RFKickMap shares the map of bunch 0 (`_lastbunch = 0`); only `_offset[0..n)` is filled
  let one : Float32 := Float32.ofBits 0x3f800000
  let argsOk := lin || (List.range n).all fun x =>
      (rfSinArg ax0 bl2 sync x).toBits == (c.aux2.getD (2 * x) f32zero).toBits
  if !argsOk then ["case " ++ c.id, "error sine-argument-mismatch"] else
  let offRow : Nat → Float32 := fun x =>
    if lin then rfOffsetLinear tanv ax0.zerobin bl2 ax0.delta sync sync one x
    else rfOffsetSin (e 8) (e 9) (e 10) ax1.delta (Float.toFloat32 (e 5).toFloat) one
           (fun x => c.aux2.getD (2 * x + 1) f32zero) x
  let off : Array Float32 := ((List.range (n * nb)).map fun r => if r < n then offRow r else f32zero).toArray
  ["case " ++ c.id, s!"ints 0 {n * nb}", hexLine "off" off.toList] ++ kickOutputs "y" n it nb 0 off c.data

/-- drift <id> <n> <it> <nb> ; extra = qmin qmax pmin pmax qscale pscale slip0 slip1 slip2 E0 ;
    aux2 = (base, base^0, base^1, base^2) per row -/
def runDrift (c : Case) : List String :=
  let n := natArg c 2
  let it := natArg c 3
  let nb := natArg c 4
  let e := fun i => c.extra.getD i f32zero
  let ax0 : Ruler Float32 := { steps := n, min := e 0, max := e 1 }
  let ax1 : Ruler Float32 := { steps := n, min := e 2, max := e 3 }
  let baseOk := (List.range n).all fun y =>
      (driftPowBase ax1 (e 5) (e 9) y).toBits == (c.aux2.getD (4 * y) f32zero).toBits
  if !baseOk then ["case " ++ c.id, "error pow-base-mismatch"] else
  let pw : Nat → Nat → Float32 := fun y i => c.aux2.getD (4 * y + 1 + i) f32zero
  let offRow : Nat → Float32 := fun y => driftOffset [e 6, e 7, e 8] ax1 ax0.delta pw y
  let off : Array Float32 := ((List.range (n * nb)).map fun r => if r < n then offRow r else f32zero).toArray
  -- tracked particles: the drift is a kick along x whose displacement field is `off` (KickMap::applyTo, not overridden)
  let partLines :=
    if c.parts.isEmpty then [] else
      let np := c.parts.size / 2
      let res := (List.range np).foldl (fun (acc : List Float32) k =>
        let px := c.parts.getD (2 * k) f32zero
        let py := c.parts.getD (2 * k + 1) f32zero
        match f32modf py with
        | some (yi, yf) => acc ++ [applyToCoord n (fun i => off.getD i f32zero) px yi yf, py]
        | none => acc ++ [Float32.ofBits 0x7fc00000, py]) []
      [hexLine "parts" res]
  ["case " ++ c.id, hexLine "off" off.toList] ++ kickOutputs "x" n it nb 0 off c.data ++ partLines

instance : VarAcc Float32 where
  -- var = (float)((double)var + (double)proj * pow((double)d, 2))
  accSq v p d := (v.toFloat + p.toFloat * (d.toFloat * d.toFloat)).toFloat32

def psPrint (k : PSConst Float32) (s : PSState Float32) : List String :=
  [hexLine "out" s.data.toList,
   hexLine "vals" (s.proj0.toList ++ s.proj1.toList ++ s.filling.toList ++ [s.integral]
     ++ s.mean.toList ++ s.var.toList ++ s.rms.toList)]

/-- ps <id> <n> <nb> ; extra = qmin qmax pmin pmax ; off = filling_set ; data ; ops -/
def runPS (c : Case) : List String :=
  let n := natArg c 2
  let nb := natArg c 3
  let e := fun i => c.extra.getD i f32zero
  let k : PSConst Float32 := { n := n, nb := nb, ax0 := { steps := n, min := e 0, max := e 1 },
                               ax1 := { steps := n, min := e 2, max := e 3 },
                               fset := c.off, pos := c.off.map fun f => decide (f > 0) }
  -- the constructor refuses fillings not normalised to 1e-5
  -- `psg`: the constructor samples the Gaussian itself:
  --   rv[i] = one_div_root_two_pi<float>() * std::exp((-0.5)*at(i)*at(i)/zoom2)   (evaluated in double, stored as float)
  let zoom : Float := (e 4).toFloat
  let gaus := fun (ax : Ruler Float32) (i : Nat) =>
    let a : Float := (ax.at i).toFloat
    ((Float32.ofBits 0x3ecc422a).toFloat * Float.exp ((-0.5) * a * a / (zoom * zoom))).toFloat32
  let s0 := if c.kind = "psg" then psConstructGauss k (gaus k.ax0) (gaus k.ax1) else psConstruct k c.data
  let (_, lines) := c.words.foldl (fun (acc : PSState Float32 × List String) op =>
    let (s, out) := acc
    match op with
    | "x" => (psXProj k s, out)
    | "y" => (psYProj k s, out)
    | "i" => (psIntegrate k s, out)
    | "n" => (psNormalize k s, out)
    | "N" => (psNormalize k (psIntegrate k s), out)
    | "a0" => (psAverage k 0 s, out)
    | "a1" => (psAverage k 1 s, out)
    | "v0" => (psVariance Float32.sqrt k 0 s, out)
    | "v1" => (psVariance Float32.sqrt k 1 s, out)
    | "c" => (psCopy k s, out)
    | "D" => (psShiftData k s, out)
    | "p" => (s, out ++ psPrint k s)
    | _ => (s, out ++ ["error unknown-op " ++ op])) (s0, [])
  ["case " ++ c.id] ++ lines

/-- h5read <id> <rank> <nrec> <nb> <n> <step>: the start-file reader on a file whose record r holds the value r+1 -/
def runH5Read (c : Case) : List String :=
  let rank := natArg c 2
  let nrec := natArg c 3
  let nb := natArg c 4
  let n := natArg c 5
  let step : Int := ((c.head.getD 6 "0").toInt?).getD 0
  let dims : Nat → Nat := fun k =>
    if k = 0 then nrec
    else if rank = 4 then (if k = 1 then nb else n)
    else if rank = 5 then (if k = 1 then 1 else if k = 2 then nb else n)
    else n
  match readStart rank dims step with
  | .refused => ["case " ++ c.id, "txt refused"]
  | .loaded g r => ["case " ++ c.id, s!"ints {g} {r} {r}"]

/-! ### ElectricField in binary64 with the naive transforms (validates the FFTW assumption) -/

instance : Lit Float := ⟨fun n d _ => Float.ofInt n / Float.ofNat d⟩
instance : NatCast Float := ⟨Float.ofNat⟩

def dLine (tag : String) (xs : List Float) : String :=
  xs.foldl (fun s x => s ++ " " ++ f32hex x.toFloat32) tag

def c_light : Float := 2.99792458e8

/-- ef <id> <n> <nb> <nmax> <spacing> ; off = buckets ; parts = impedance ; extra = f_rev revpart
    Ib E0 sigma_delta dt fcut ; data = profile sets ; ops -/
def runEF (c : Case) : List String :=
  let n := natArg c 2
  let nb := natArg c 3
  let nmax := natArg c 4
  let spacing := natArg c 5
  let e := fun i => (c.extra.getD i f32zero)
  let zArr : Array (Float × Float) := ((List.range nmax).map fun i =>
      ((c.parts.getD (2 * i) f32zero).toFloat, (c.parts.getD (2 * i + 1) f32zero).toFloat)).toArray
  -- the harness builds the PhaseSpace with mkps defaults (q,p in [-6,6]) or the box in extra[7..10];
  -- scales 1e-3 m, 6.11e5 eV.  `delta` = position cell (getDelta(0)), `deltaP` = energy cell (getDelta(1))
  let box := c.extra.size ≥ 11
  let ax : Ruler Float32 := { steps := n, min := if box then e 7 else Float32.ofBits 0xc0c00000,
                              max := if box then e 8 else Float32.ofBits 0x40c00000 }
  let axP : Ruler Float32 := { steps := n, min := if box then e 9 else Float32.ofBits 0xc0c00000,
                               max := if box then e 10 else Float32.ofBits 0x40c00000 }
  let delta : Float32 := ax.delta
  let deltaP : Float32 := axP.delta
  let qscale : Float32 := (1e-3 : Float).toFloat32
  let pscale : Float32 := (6.11e5 : Float).toFloat32
  let frev := (e 0).toFloat
  let revpart : Float32 := e 1
  let ib := (e 2).toFloat
  let e0 := (e 3).toFloat
  let sdelta := (e 4).toFloat
  let dt := (e 5).toFloat
  let fcut : Float32 := e 6
  -- GENERATED expression of the delegating constructor, evaluated in binary64 like the C++
  let wsc0 : Float32 := (Gen.wakeScalingArg ib dt c_light qscale.toFloat delta.toFloat deltaP.toFloat sdelta e0).toFloat32
  let wakescaling : Float32 := wsc0 / Float32.ofNat nmax
  let volts : Float := (deltaP * pscale / revpart).toFloat
  let f4wph : Float := 2.0 * 1.0 * 1.0 * 1.0 / frev
  let hz : Float32 := (c_light / qscale.toFloat).toFloat32
  let f4w : Float := f4wph * hz.toFloat
  let fax : Ruler Float32 := { steps := nmax, min := f32zero, max := Float32.ofBits 0x3f800000 / delta }
  let renorm0 : Float32 := delta * delta
  let renormCut : Nat → Float32 := fun i =>
    let r := (hz * fax.at i / fcut).toFloat
    (renorm0.toFloat * (1.0 - Float.exp (-(r * r)))).toFloat32
  let pi := 3.14159265358979323846
  let twArr : Array (Float × Float) := ((List.range (max nmax 1)).map fun j =>
      let a := 2.0 * pi * j.toFloat / nmax.toFloat
      (Float.cos a, -(Float.sin a))).toArray
  let tw : Nat → Cx Float := fun j => twArr.getD j (1.0, 0.0)
  let tr := naiveTransforms nmax tw 2.0
  let mk (cut : Bool) : EFConst Float :=
    { n := n, nb := nb, nmax := nmax, spacing := spacing,
      bucket := fun b => (c.off.getD b f32zero).toUInt32.toNat,
      z := fun i => zArr.getD i (0.0, 0.0), wakescaling := wakescaling.toFloat,
      renorm := fun i => if cut && fcut > 0 then (renormCut i).toFloat else renorm0.toFloat,
      dfreq := fax.delta.toFloat }
  let valsLine := hexLine "vals" [wakescaling, volts.toFloat32, f4wph.toFloat32, f4w.toFloat32]
  let profOf (k : Nat) : Nat → Nat → Float := fun b x => (c.data.getD (k * nb * n + b * n + x) f32zero).toFloat
  -- materialise buffers after every op so that closures do not grow
  let freeze (k : EFConst Float) (s : EFState Float) : EFState Float :=
    let bp := ((List.range nmax).map s.bp).toArray
    let ff := ((List.range nmax).map s.ff).toArray
    let wl := ((List.range nmax).map s.wl).toArray
    let wp := ((List.range nmax).map s.wp).toArray
    let wk := ((List.range (nb * n)).map fun i => s.wake (i / n) (i % n)).toArray
    let sp := ((List.range (nb * nmax)).map fun i => s.spec (i / nmax) (i % nmax)).toArray
    let pw := ((List.range nb).map s.pow).toArray
    { bp := fun i => bp.getD i 0.0, ff := fun i => ff.getD i (0.0, 0.0), wl := fun i => wl.getD i (0.0, 0.0),
      wp := fun i => wp.getD i 0.0, wake := fun b x => wk.getD (b * n + x) 0.0,
      spec := fun b i => sp.getD (b * k.nmax + i) 0.0, pow := fun b => pw.getD b 0.0 }
  let (_, _, lines) := c.words.foldl (fun (acc : EFState Float × Nat × List String) op =>
    let (s, cur, out) := acc
    if op.startsWith "P" then (s, ((op.drop 1).toString.toNat?).getD 0, out)
    else if op.startsWith "k" then
      -- WakePotentialMap::update = wakePotential() of the field, offsets := the nb·n wake potentials, updateSM():
      -- the map IS the y-kick map of those offsets (no differing offset, table entry or output cell)
      let k := mk false
      let s' := freeze k (efWake k tr (profOf cur) s)
      (s', cur, out ++ ["ops " ++ op, s!"ints 0 0 0 {nb * n} {((op.drop 1).toString.toNat?).getD 0}"])
    else
      let k := mk (op == "c")
      let prof := profOf cur
      let s' := match op with
        | "w" => efWake k tr prof s
        | "p" => efPad k prof s
        | "c" => efCSR k tr prof s
        | "C" => efCSR k tr prof s
        | _ => s
      let s' := freeze k s'
      let l0 := ["ops " ++ op, dLine "pad" ((List.range nmax).map s'.bp)]
      let l1 := if op == "w" then
          [dLine "wake" ((List.range (nb * n)).map fun i => s'.wake (i / n) (i % n)),
           dLine "wpad" ((List.range nmax).map s'.wp)] else []
      let l2 := if op == "c" || op == "C" then
          [dLine "spec" ((List.range (nb * nmax)).map fun i => s'.spec (i / nmax) (i % nmax)),
           dLine "pow" ((List.range nb).map s'.pow)] else []
      (s', cur, out ++ l0 ++ l1 ++ l2)) (freeze (mk false) EFState.fresh, 0, [])
  ["case " ++ c.id, valsLine] ++ lines

/-! ### program options -/

def tyName : Gen.OptTy → String
  | .flag => "flag" | .f32 => "f32" | .f64 => "f64" | .u32 => "u32" | .i32 => "i32" | .i64 => "i64"
  | .bool => "bool" | .u8 => "u8" | .str => "str" | .vecf32 => "vecf32"

def varsLine (vars : Vars) : String :=
  let tyOf := fun (v : String) => match Gen.optionDecls.find? (·.var = v) with
    | some o => tyName o.ty
    | none => "str"
  vars.foldl (fun s kv => s ++ " " ++ kv.1 ++ ":" ++ tyOf kv.1 ++ "=" ++ ",".intercalate kv.2) "vars"

def fsIsZero (vars : Vars) : Bool :=
  -- `std::fpclassify(f_s) == FP_ZERO` on the token level: all digits of the mantissa are 0
  match varGet vars "f_s" with
  | some [t] => ((t.splitOn "e").headD "").all (fun ch => ch = '0' || ch = '.' || ch = '-' || ch = '+' || ch = 'f' || ch = ':')
  | _ => false

/-- opts <id> [save] ; argv ... ; cfg key=value ... (placeholders @CFG@, @NOFILE@ as in the harness) -/
def runOpts (c : Case) : List String :=
  let dosave := c.head.getD 2 "" == "save"
  let file : String → Option (List String) := fun p => if p == "@CFG@" then some c.cfg else none
  match parseOptions Gen.optionDecls Gen.cliGroups Gen.cfgGroups Gen.optionAliases c.argv file with
  | .error _ => ["case " ++ c.id, "txt error"]
  | .norun => ["case " ++ c.id, "txt norun"]
  | .run vm vars =>
    let l0 := ["case " ++ c.id, "txt run", varsLine vars]
    if !dosave then l0 else
      let saved := saveLines Gen.optionDecls Gen.saveSkip Gen.saveSpecials Gen.saveTypes vm (fsIsZero vars)
      let savedLine := saved.foldl (fun s kv => s ++ " " ++ kv.1 ++ "=" ++ kv.2) "txt saved"
      -- the `config` key is written as a comment when saveCommentsConfig
      let lines := (saved.filter (fun kv => !(Gen.saveCommentsConfig && kv.1 == "config"))).map
        (fun kv => kv.1 ++ "=" ++ kv.2)
      let file2 : String → Option (List String) := fun p => if p == "@SAVED@" then some lines else none
      match parseOptions Gen.optionDecls Gen.cliGroups Gen.cfgGroups Gen.optionAliases ["--config", "@SAVED@"] file2 with
      | .error _ => l0 ++ [savedLine, "txt reerror"]
      | .norun => l0 ++ [savedLine, "txt renorun"]
      | .run _ vars2 => l0 ++ [savedLine, "txt rerun", varsLine vars2]

/-- fpiter <id> <n> <dt> <fptype> <steps> <every> [<nb>] ; extra = e1 qmin qmax pmin pmax ; data (nb bunches);
    one `vals` line per bunch at every printed step -/
def runFPIter (c : Case) : List String :=
  let n := natArg c 2
  let dt := natArg c 3
  let fpt := natArg c 4
  let steps := natArg c 5
  let every := max (natArg c 6) 1
  let e1 := c.extra.getD 0 f32zero
  let ry : Ruler Float32 := { steps := n, min := c.extra.getD 3 f32zero, max := c.extra.getD 4 f32zero }
  let delta := ry.delta
  let yc := fpYcenter n ry.zerobin
  let pArr := ((List.range n).map ry.at).toArray
  let p : Nat → Float32 := fun j => pArr.getD j f32zero
  let jc : Nat := match f32modf yc with
    | some (i, _) => i
    | none => 0
  let ltyc : Nat → Bool := fun j => decide (Float32.ofNat j < yc)
  let rows := ((List.range n).map fun j => fpRowAt dt fpt n jc ltyc e1 delta p j).toArray
  let rowAt : Nat → List (Hi Float32) := fun j => rows.getD j []
  let nb := max (natArg c 7) 1
  let moments (g : Array Float32) (k : Nat) : List String :=
    (List.range nb).map fun b =>
      let (m0, m1, m2) := (List.range (n * n)).foldl (fun (acc : Float × Float × Float) i =>
        let pv := (p (i % n)).toFloat
        let v := (g.getD (b * n * n + i) f32zero).toFloat
        (acc.1 + v, acc.2.1 + v * pv, acc.2.2 + v * pv * pv)) (0.0, 0.0, 0.0)
      hexLine "vals" [Float32.ofNat k, m0.toFloat32, m1.toFloat32, m2.toFloat32]
  let (g, lines) := (List.range steps).foldl (fun (acc : Array Float32 × List String) k0 =>
    let (g, out) := acc
    let k := k0 + 1
    let g' := (fpApply n nb rowAt (fun i => g.getD i f32zero)).toArray
    (g', if k % every == 0 || k == steps then out ++ moments g' k else out)) (c.data, moments c.data 0)
  ["case " ++ c.id] ++ lines ++ [hexLine "out" g.toList]

/-! ### simulation part of main(): schedule of records -/

/-- main <id> <laststep> <outstep> <h5save> <renormalize> <hasWake> <hasFile> <hasDrfm> <sigAt|-1>
    Evaluates the generated program on a dummy semantics and prints what ends up in the file:
    record steps, phase-space steps, and the lengths of the other datasets. -/
def runMainCase (c : Case) : List String :=
  let cfg : MCfg := { laststep := natArg c 2, outstep := natArg c 3, h5save := natArg c 4,
                      renormalize := intArg c 5, hasWake := natArg c 6 == 1, hasFile := natArg c 7 == 1,
                      hasDrfm := natArg c 8 == 1 }
  let sig : Option Nat := if intArg c 9 < 0 then none else some (intArg c 9).toNat
  let sem : Sem Nat :=
    { xproj := id, yproj := id, integ := id, normalize := (fun g _ => g), mom0 := (fun a _ => a),
      mom1 := (fun a _ => a), wake := id, wakepad := id, csr := id, kick := (fun g _ => g + 1),
      ident := (fun g => g + 1), rfStatic := (fun g => g + 1), rfDyn := (fun g _ => g + 1),
      drift := (fun g => g + 1), fp := (fun g => g + 1), track := (fun _ t _ => t) }
  let s0 : MState Nat := startState 0 0 (List.range cfg.laststep) 0
  let s := runMain sem cfg sig s0
  let f := s.file
  let nums (l : List Nat) : String := " ".intercalate (l.map toString)
  ["case " ++ c.id,
   "ints steps " ++ toString s.step ++ " markers " ++ toString (Gen.setupMarkers + s.clock),
   "ints t " ++ nums (f.recs.map (·.t)),
   "ints ps " ++ nums (f.ps.map (·.1)),
   "ints lens csr " ++ toString f.csr.length ++ " wake " ++ toString f.wake.length ++ " tracks " ++
     toString f.tracks.length ++ " rfk " ++ toString f.rfk.length ++ " padded " ++ toString f.padded.length]

/-- dynrf <id> <n> <it> <nb> lin <steps> ; extra (see harness) ; aux = tan(angle) bl2phase syncphase
    modtimedelta ; aux2 = sin(modtimedelta*i) ; aux3 = entries in order of use (needed with noise) -/
def runDynRF (c : Case) : List String :=
  let n := natArg c 2
  let it := natArg c 3
  let nb := natArg c 4
  let lin := c.head.getD 5 "lin" == "lin"
  let steps := natArg c 6
  if !lin then ["case " ++ c.id, "skip sinusoidal-not-modelled"] else
  let e := fun i => c.extra.getD i f32zero
  let ax0 : Ruler Float32 := { steps := n, min := e 0, max := e 1 }
  let tanv := c.aux.getD 0 f32zero
  let bl2 := c.aux.getD 1 f32zero
  let sync := c.aux.getD 2 f32zero
  let one : Float32 := Float32.ofBits 0x3f800000
  let noisy := (e 11) != f32zero || (e 12) != f32zero
  let queue : List (Float32 × Float32) :=
    if noisy then (List.range (c.aux3.size / 2)).map fun k => (c.aux3.getD (2 * k) f32zero, c.aux3.getD (2 * k + 1) f32zero)
    else calcModulation sync f32zero f32zero (e 13) (fun i => c.aux2.getD i f32zero) (fun _ => (f32zero, f32zero)) steps
  let offsOf (ph am : Float32) : Array Float32 :=
    ((List.range (n * nb)).map fun r => if r < n then rfOffsetLinear tanv ax0.zerobin bl2 ax0.delta sync ph am r
                                        else f32zero).toArray
  -- tracked particles: moved by the displacement field of THIS step (the one the grid was moved with)
  let partsWith (off : Array Float32) : List String :=
    if c.parts.isEmpty then [] else
      let np := c.parts.size / 2
      let res := (List.range np).foldl (fun (acc : List Float32) k =>
        let px := c.parts.getD (2 * k) f32zero
        let py := c.parts.getD (2 * k + 1) f32zero
        match f32modf px with
        | some (xi, xf) => acc ++ [px, applyToCoord n (fun i => off.getD i f32zero) py xi xf]
        | none => acc ++ [px, Float32.ofBits 0x7fc00000]) []
      [hexLine "parts" res]
  let applyWith (off : Array Float32) : List String :=
    match kickOutputs "y" n it nb 0 off c.data with
    | [_, outl] => [hexLine "off" (off.toList.take n), outl]
    | l => l
  let (_, lines) := c.words.foldl (fun (acc : DynRF Float32 × List String) op =>
    let (d, out) := acc
    if op.startsWith "A" then
      -- A<k>: k applications without output (long histories of the queue)
      let kk := ((op.drop 1).toString.toNat?).getD 0
      -- (= kk-fold `DynRF.apply`: the entries move from the front of `next` to the end of `past`, in order)
      let kk := min kk d.next.length
      let d' : DynRF Float32 := { next := d.next.drop kk, past := d.past ++ d.next.take kk }
      (d', out ++ ["ops " ++ op])
    else
    match op with
    | "a" =>
      match d.apply with
      | some (en, d') => (d', out ++ ["ops a"] ++ applyWith (offsOf en.1 en.2) ++ partsWith (offsOf en.1 en.2))
      | none => (d, out ++ ["error queue-exhausted"])
    | "s" => (d, out ++ ["ops s"] ++ applyWith (offsOf sync one))
    | "f" =>
      let (p, d') := d.flush
      (d', out ++ ["ops f", hexLine "vals" (p.flatMap fun x => [x.1, x.2])])
    | _ => (d, out)) ({ next := queue, past := [] }, [])
  -- final flush: the harness flushes once more at the end
  let nOf := fun (op : String) => if op == "a" then 1 else if op.startsWith "A" then ((op.drop 1).toString.toNat?).getD 0 else 0
  let used := (c.words.toList.map nOf).sum
  let flushedBefore : Nat := (c.words.toList.foldl (fun (st : Nat × Nat) op =>
      if op == "f" then (st.1, st.1) else (st.1 + nOf op, st.2)) (0, 0)).2
  let rest := (queue.take used).drop flushedBefore
  ["case " ++ c.id, "ints 0"] ++ lines ++ ["ops f", hexLine "vals" (rest.flatMap fun x => [x.1, x.2])]

/-- rot <id> <n> <it> <nb> <K> <every> <lin|sin> ; extra = box(6) angle f_RF slip1 slip2 E0 [revpart V_RF V0] ;
    aux = tan bl2phase syncphase ; aux2 = (arg, sin) per cell ; aux3 = (base, base^0..2) per row -/
def runRot (c : Case) : List String :=
  let n := natArg c 2
  let it := natArg c 3
  let nb := natArg c 4
  let K := natArg c 5
  let every := max (natArg c 6) 1
  let lin := c.head.getD 7 "lin" == "lin"
  let e := fun i => c.extra.getD i f32zero
  let ax0 : Ruler Float32 := { steps := n, min := e 0, max := e 1 }
  let ax1 : Ruler Float32 := { steps := n, min := e 2, max := e 3 }
  let tanv := c.aux.getD 0 f32zero
  let bl2 := c.aux.getD 1 f32zero
  let sync := c.aux.getD 2 f32zero
  let one : Float32 := Float32.ofBits 0x3f800000
  let argsOk := lin || (List.range n).all fun x =>
      (rfSinArg ax0 bl2 sync x).toBits == (c.aux2.getD (2 * x) f32zero).toBits
  let baseOk := (List.range n).all fun y =>
      (driftPowBase ax1 (e 5) (e 10) y).toBits == (c.aux3.getD (4 * y) f32zero).toBits
  if !argsOk then ["case " ++ c.id, "error sine-argument-mismatch"] else
  if !baseOk then ["case " ++ c.id, "error pow-base-mismatch"] else
  let rfRow : Nat → Float32 := fun x =>
    if lin then rfOffsetLinear tanv ax0.zerobin bl2 ax0.delta sync sync one x
    else rfOffsetSin (e 11) (e 12) (e 13) ax1.delta (e 5) one (fun x => c.aux2.getD (2 * x + 1) f32zero) x
  let pw : Nat → Nat → Float32 := fun y i => c.aux3.getD (4 * y + 1 + i) f32zero
  let drRow : Nat → Float32 := fun y => driftOffset [e 6, e 8, e 9] ax1 ax0.delta pw y
  let rfOff := ((List.range n).map rfRow).toArray
  let drOff := ((List.range n).map drRow).toArray
  let mkRows (off : Array Float32) : Option (Array (List (Hi Float32))) :=
    (List.range n).foldl (fun acc r =>
      match acc, smRow n it (off.getD r f32zero) with
      | some a, some row => some (a.push row)
      | _, _ => none) (some #[])
  match mkRows rfOff, mkRows drOff with
  | some rfRows, some drRows =>
    let qArr := ((List.range n).map ax0.at).toArray
    let pArr := ((List.range n).map ax1.at).toArray
    let cent (g : Array Float32) (k : Nat) : List String :=
      (List.range (max nb 1)).map fun b =>
        let (m0, mq, mp) := (List.range (n * n)).foldl (fun (acc : Float × Float × Float) i =>
          let v := (g.getD (b * n * n + i) f32zero).toFloat
          (acc.1 + v, acc.2.1 + v * (qArr.getD (i / n) f32zero).toFloat, acc.2.2 + v * (pArr.getD (i % n) f32zero).toFloat))
          (0.0, 0.0, 0.0)
        hexLine "vals" [Float32.ofNat k, (mq / m0).toFloat32, (mp / m0).toFloat32, m0.toFloat32]
    let step (g : Array Float32) : Array Float32 :=
      let g2 := (applyY n nb 0 (fun r => rfRows.getD r []) (fun i => g.getD i f32zero)).toArray
      (applyX n nb (fun r => drRows.getD r []) (fun i => g2.getD i f32zero)).toArray
    let (g, lines) := (List.range K).foldl (fun (acc : Array Float32 × List String) k0 =>
      let (g, out) := acc
      let g' := step g
      let k := k0 + 1
      (g', if k % every == 0 || k == K then out ++ cent g' k else out)) (c.data, cent c.data 0)
    ["case " ++ c.id, hexLine "off" rfOff.toList, hexLine "off" drOff.toList] ++ lines ++ [hexLine "out" g.toList]
  | _, _ => ["case " ++ c.id, "undefined float-to-uint32"]

/-- token class of a word of an impedance file (see `Tok`): digits only = record number / value;
    `[-+]digits[.digits]` = value; anything else is rejected by the stream extraction -/
def tokOf (w : String) : Tok :=
  if !w.isEmpty && w.all Char.isDigit then .idx w.toNat!
  else
    let (neg, body) := if w.startsWith "-" then (true, (w.drop 1).toString) else if w.startsWith "+" then (false, (w.drop 1).toString) else (false, w)
    match body.splitOn "." with
    | [a] => if !a.isEmpty && a.all Char.isDigit then .num (if neg then -(a.toNat! : Rat) else (a.toNat! : Rat)) else .bad
    | [a, b] =>
      if !a.isEmpty && a.all Char.isDigit && !b.isEmpty && b.all Char.isDigit then
        let v : Rat := (a.toNat! : Rat) + mkRat b.toNat! (10 ^ b.length)
        .num (if neg then -v else v)
      else .bad
    | _ => .bad

/-- value of a short dyadic decimal as binary32 (exact for the values the generator uses) -/
def ratToF32 (r : Rat) : Float32 :=
  let v : Float := (Float.ofInt r.num) / (Float.ofNat r.den)
  v.toFloat32

/-- imp <id> <model> <n> ; extra = parameters ; aux = library values -/
def runImp (c : Case) : List String :=
  let model := c.head.getD 2 ""
  let n := natArg c 3
  let e := fun i => c.extra.getD i f32zero
  let out (t : List (Cx Float32)) : List String :=
    ["case " ++ c.id, s!"ints {n} {t.length}", hexLine "vals" (t.flatMap fun z => [z.1, z.2])]
  match model with
  | "const" => out (constImpedance n (e 1, e 2))
  | "free" => out (freeSpaceCSR n (fun i => c.aux.getD i f32zero))
  | "wall" =>
    -- Z1 = (float)(sqrt(Z0*mu_r*f0/s/pi/c)*L/2/b) ; delta = (float)(f_max/f0/(n-1.0))
    let f0 := (e 0).toFloat
    let fmax := (e 1).toFloat
    let l := (e 2).toFloat
    let sc := (e 3).toFloat
    let xi := (e 4).toFloat
    let b := (e 5).toFloat
    let z0 : Float := 376.730313461
    let pi : Float := 3.14159265358979323846
    let r : Float32 := (Float.sqrt (z0 * (1.0 + xi) * f0 / sc / pi / c_light) * l / 2.0 / b).toFloat32
    let delta : Float32 := (fmax / f0 / (n.toFloat - 1.0)).toFloat32
    out (resistiveWall n r (fun i => Float32.sqrt (Float32.ofNat i * delta)))
  | "coll" => out (constImpedance n (c.aux.getD 0 f32zero, f32zero))
  | "pp" =>
    -- the GENERATED scalar arithmetic of ParallelPlatesCSR::__calcImpedance, evaluated in binary64; the Airy functions
    -- are supplied by the check (aux: per sample `count`, then count × (Ai, Ai', Bi, Bi') each as (hi, lo, exponent) of binary32 numbers;
    -- a NaN `hi` of Ai marks the mode at which the library call of the implementation overflows)
    let pi : Float := 3.14159265358979323846
    let env0 : Gen.PP.PPEnv Float :=
      { k_Z0 := 1.0 / (8.854187817e-12 * 2.99792458e8), k_c := 2.99792458e8, k_pi := pi, k_pi_sqr := 9.86960440108935861883,
        o_f0 := (e 0).toFloat, o_f_max := (e 1).toFloat, o_g := (e 2).toFloat, o_nfreqs := n.toFloat,
        powf := Float.pow, r32 := fun x => x.toFloat32.toFloat,
        v_b := 0, v_delta := 0, v_i := 0, v_m := 0, v_maxp := 0, v_n := 0, v_p := 0, v_r_bend := 0, v_u := 0 }
    let env1 := { env0 with v_delta := Gen.PP.p_delta env0, v_r_bend := Gen.PP.p_r_bend env0 }
    let dbl := fun (k : Nat) => ((c.aux.getD k f32zero).toFloat + (c.aux.getD (k + 1) f32zero).toFloat).scaleB
        ((c.aux.getD (k + 2) f32zero).toFloat.toInt64.toInt)
    -- walk over the samples, consuming the Airy table
    let (tab, _) := (List.range (Gen.PP.iLast n + 1 - Gen.PP.iFirst)).foldl
      (fun (acc : List (Cx Float32) × Nat) (ii : Nat) =>
        let (rows, pos) := acc
        let i := Gen.PP.iFirst + ii * Gen.PP.iStep
        let e2 := { env1 with v_i := i.toFloat }
        let e3 := { e2 with v_n := Gen.PP.p_n e2 }
        let e4 := { e3 with v_m := Gen.PP.p_m e3 }
        let e5 := { e4 with v_b := Gen.PP.p_b e4 }
        let maxp := (Gen.PP.p_maxp e5).toUInt32.toNat
        let count := (c.aux.getD pos f32zero).toFloat.toUInt32.toNat
        let nmodes := if maxp < Gen.PP.pFirst then 0 else (maxp - Gen.PP.pFirst) / Gen.PP.pStep + 1
        let (zr, zi, _) := (List.range nmodes).foldl
          (fun (a : Float × Float × Bool) (k : Nat) =>
            let (sr, si, stopped) := a
            if stopped || k ≥ count then (sr, si, true)
            else
              let base := pos + 1 + 12 * k
              let ai := dbl base
              if ai.isNaN then (sr, si, true)
              else
                let p := Gen.PP.pFirst + k * Gen.PP.pStep
                let u := Gen.PP.p_u { e5 with v_p := p.toFloat }
                (sr + Gen.PP.zincRe u ai (dbl (base + 3)) (dbl (base + 6)) (dbl (base + 9)),
                 si + Gen.PP.zincIm u ai (dbl (base + 3)) (dbl (base + 6)) (dbl (base + 9)), false))
          (0.0, 0.0, false)
        let sc := Gen.PP.p_scale e5
        (rows ++ [((zr * sc).toFloat32, (zi * sc).toFloat32)], pos + 1 + 12 * count)) ([], 0)
    let full : List (Cx Float32) := (List.range n).map fun i =>
      if Gen.PP.iFirst ≤ i ∧ i ≤ Gen.PP.iLast n then tab.getD (i - Gen.PP.iFirst) (f32zero, f32zero) else (f32zero, f32zero)
    out full
  | "sum" =>
    let t := addInto (constImpedance n (e 1, e 2)) (constImpedance (natArg c 4) (e 3, e 4))
    ["case " ++ c.id, s!"ints {t.length} {t.length}", hexLine "vals" (t.flatMap fun z => [z.1, z.2])]
  | "file" =>
    let toks := (c.words.toList.filter (· != "~")).map tokOf
    let t := (readData toks).map fun r => (ratToF32 r.1, ratToF32 r.2)
    ["case " ++ c.id, s!"ints {t.length} {t.length}", hexLine "vals" (t.flatMap fun z => [z.1, z.2])]
  | "pow2" =>
    ["case " ++ c.id, c.words.foldl (fun s w => s ++ " " ++ toString (upperPow2 (w.toNat?.getD 0))) "ints"]
  | _ => ["case " ++ c.id, "skip not-modelled"]

/-- sizes <id> <psBins> <nbuckets> <roundPadding> ; ops = spacing_num spacing_den padding_num padding_den
    evaluates the GENERATED buffer-length arithmetic of main() -/
def runSizes (c : Case) : List String :=
  let w := fun i => ((c.words.getD i "0").toNat?.getD 0)
  let i : SizeIn := { psBins := natArg c 2, nbuckets := natArg c 3, roundPadding := natArg c 4 == 1,
                      spacingPs := mkRat (w 0) (w 1), optPadding := mkRat (w 2) (w 3) }
  let o := Gen.sizes i upperPow2
  ["case " ++ c.id,
   s!"ints {o.spacingBins} {o.paddedBins} {o.spacedBins} {o.wakeLength} {o.wakeSpacing}",
   (List.range i.nbuckets).foldl (fun s k => s ++ " " ++ toString (Gen.bucketNumber i k)) "ints"]

def dispatch (c : Case) : List String :=
  match c.kind with
  | "kick" => runKick c
  | "coeff" => runCoeff c
  | "fp" => runFP c
  | "ident" => runIdent c
  | "rf" => runRF c
  | "ps" => runPS c
  | "psg" => runPS c
  | "h5read" => runH5Read c
  | "ef" => runEF c
  | "opts" => runOpts c
  | "fpiter" => runFPIter c
  | "main" => runMainCase c
  | "dynrf" => runDynRF c
  | "rot" => runRot c
  | "imp" => runImp c
  | "drift" => runDrift c
  | "sizes" => runSizes c
  | k => ["case " ++ c.id, "error unknown-kind " ++ k]

end Driver
