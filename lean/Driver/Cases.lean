import InovesaModel.Model.Scalar
import InovesaModel.Model.KickMap
import InovesaModel.Model.Ruler
import InovesaModel.Model.FokkerPlanck
import InovesaModel.Model.RFDrift
import InovesaModel.Model.PhaseSpace
open Inovesa
namespace Driver

structure Case where
  kind : String := ""
  id : String := "?"
  head : Array String := #[]
  off : Array Float32 := #[]
  data : Array Float32 := #[]
  extra : Array Float32 := #[]
  parts : Array Float32 := #[]
  aux : Array Float32 := #[]
  aux2 : Array Float32 := #[]
  words : Array String := #[]

def floats (ts : List String) : Array Float32 :=
  (ts.map fun s => (f32ofHex? s).getD (Float32.ofBits 0x7fc00000)).toArray

def natArg (c : Case) (i : Nat) : Nat := ((c.head.getD i "0").toNat?).getD 0
def intArg (c : Case) (i : Nat) : Int := ((c.head.getD i "0").toInt?).getD 0

def hexLine (tag : String) (xs : List Float32) : String :=
  xs.foldl (fun s x => s ++ " " ++ f32hex x) tag

instance : MinMax Float32 where
  -- std::min(a,b) = (b < a) ? b : a ; std::max(a,b) = (a < b) ? b : a
  min a b := if b < a then b else a
  max a b := if a < b then b else a

def f32zero : Float32 := Float32.ofBits 0

/-- kick <id> <x|y> <n> <it> <nb> <lastbunch|-1> -/
def runKick (c : Case) : List String :=
  let axis := c.head.getD 2 "y"
  let n := natArg c 3
  let it := natArg c 4
  let nb := natArg c 5
  let lbi := intArg c 6
  let lb : Nat := if lbi < 0 then nb - 1 else lbi.toNat
  let rowsOpt : Option (Array (List (Hi Float32))) :=
    (List.range (n * nb)).foldl (fun acc r =>
      match acc, smRow n it (c.off.getD r f32zero) with
      | some a, some row => some (a.push row)
      | _, _ => none) (some #[])
  match rowsOpt with
  | none => ["case " ++ c.id, "undefined float-to-uint32"]
  | some rows =>
    let tabs : Nat → List (Hi Float32) := fun r => rows.getD r []
    let tabLine := rows.foldl (fun s row =>
      row.foldl (fun s h => s ++ " " ++ toString h.1 ++ " " ++ f32hex h.2) s) "tab"
    let data : Nat → Float32 := fun i => c.data.getD i f32zero
    let out := if axis == "x" then applyX n nb tabs data else applyY n nb lb tabs data
    let partLines :=
      if c.parts.isEmpty then [] else
        let np := c.parts.size / 2
        let res := (List.range np).foldl (fun (acc : List Float32) k =>
          let px := c.parts.getD (2 * k) f32zero
          let py := c.parts.getD (2 * k + 1) f32zero
          let off : Nat → Float32 := fun i => c.off.getD i f32zero
          if axis == "x" then
            -- kick along x, perpendicular coordinate y
            match f32modf py with
            | some (yi, yf) => acc ++ [applyToCoord n off px yi yf, py]
            | none => acc ++ [Float32.ofBits 0x7fc00000, py]
          else
            match f32modf px with
            | some (xi, xf) => acc ++ [px, applyToCoord n off py xi xf]
            | none => acc ++ [px, Float32.ofBits 0x7fc00000]) []
        [hexLine "parts" res]
    ["case " ++ c.id, tabLine, hexLine "out" out] ++ partLines

/-- coeff <id> <it> ; extra = fractional offsets -/
def runCoeff (c : Case) : List String :=
  let it := natArg c 2
  let ws := c.extra.toList.flatMap fun f => Gen.coeff it f
  ["case " ++ c.id, hexLine "coeff" ws]

/-- fp <id> <n> <nb> <dt> <fptype> <fptrack> ; extra = e1 qmin qmax pmin pmax -/
def runFP (c : Case) : List String :=
  let n := natArg c 2
  let nb := natArg c 3
  let dt := natArg c 4
  let fpt := natArg c 5
  let e1 := c.extra.getD 0 f32zero
  let ry : Ruler Float32 := { steps := n, min := c.extra.getD 3 f32zero, max := c.extra.getD 4 f32zero }
  let delta := ry.delta
  let yc := ry.zerobin
  let p : Nat → Float32 := fun j => ry.at j
  let jc : Nat := match f32modf yc with
    | some (i, _) => i
    | none => 0
  let ltyc : Nat → Bool := fun j => decide (Float32.ofNat j < yc)
  let rowAt : Nat → List (Hi Float32) := fun j => fpRowAt dt fpt n jc ltyc e1 delta p j
  let rulerLine := hexLine "ruler" ([delta, yc] ++ (List.range n).map p)
  let tabLine := (List.range n).foldl (fun s j =>
      (rowAt j).foldl (fun s h => s ++ " " ++ toString h.1 ++ " " ++ f32hex h.2) s) "tab"
  let data : Nat → Float32 := fun i => c.data.getD i f32zero
  let out := fpApply n nb rowAt data
  ["case " ++ c.id, rulerLine, tabLine, hexLine "out" out]

/-- ident <id> <n> <nb> : `Identity::apply` copies `nb*n*n` cells -/
def runIdent (c : Case) : List String :=
  let n := natArg c 2
  let nb := natArg c 3
  ["case " ++ c.id, hexLine "out" ((List.range (nb * n * n)).map fun i => c.data.getD i f32zero)]

/-- tables + apply for a y-kick whose offsets are `off` (n*nb entries) -/
def kickOutputs (axis : String) (n it nb lb : Nat) (off : Array Float32) (data : Array Float32) :
    List String :=
  let rowsOpt : Option (Array (List (Hi Float32))) :=
    (List.range (n * nb)).foldl (fun acc r =>
      match acc, smRow n it (off.getD r f32zero) with
      | some a, some row => some (a.push row)
      | _, _ => none) (some #[])
  match rowsOpt with
  | none => ["undefined float-to-uint32"]
  | some rows =>
    let tabs : Nat → List (Hi Float32) := fun r => rows.getD r []
    let tabLine := rows.foldl (fun s row =>
      row.foldl (fun s h => s ++ " " ++ toString h.1 ++ " " ++ f32hex h.2) s) "tab"
    let d : Nat → Float32 := fun i => data.getD i f32zero
    let out := if axis == "x" then applyX n nb tabs d else applyY n nb lb tabs d
    [tabLine, hexLine "out" out]

/-- rf <id> <n> <it> <nb> <lin|sin> ; extra = qmin qmax pmin pmax qscale pscale angle f_RF
    [revpart V_RF V0] ; aux = tan(angle) bl2phase syncphase ; aux2 = (arg, sin arg) per cell -/
def runRF (c : Case) : List String :=
  let n := natArg c 2
  let it := natArg c 3
  let nb := natArg c 4
  let lin := c.head.getD 5 "lin" == "lin"
  let e := fun i => c.extra.getD i f32zero
  let ax0 : Ruler Float32 := { steps := n, min := e 0, max := e 1 }
  let ax1 : Ruler Float32 := { steps := n, min := e 2, max := e 3 }
  let tanv := c.aux.getD 0 f32zero
  let bl2 := c.aux.getD 1 f32zero
  let sync := c.aux.getD 2 f32zero
  -- RFKickMap shares the map of bunch 0 (`_lastbunch = 0`); only `_offset[0..n)` is filled
  let one : Float32 := Float32.ofBits 0x3f800000
  let argsOk := lin || (List.range n).all fun x =>
      (rfSinArg ax0 bl2 sync x).toBits == (c.aux2.getD (2 * x) f32zero).toBits
  if !argsOk then ["case " ++ c.id, "error sine-argument-mismatch"] else
  let offRow : Nat → Float32 := fun x =>
    if lin then rfOffsetLinear tanv ax0.zerobin bl2 ax0.delta sync sync one x
    else rfOffsetSin (e 8) (e 9) (e 10) ax1.delta (Float.toFloat32 (e 5).toFloat) one
           (fun x => c.aux2.getD (2 * x + 1) f32zero) x
  let off : Array Float32 := ((List.range (n * nb)).map fun r => if r < n then offRow r else f32zero).toArray
  ["case " ++ c.id, s!"ints 0 {n * nb}", hexLine "off" off.toList] ++ kickOutputs "y" n it nb 0 off c.data

/-- drift <id> <n> <it> <nb> ; extra = qmin qmax pmin pmax qscale pscale slip0 slip1 slip2 E0 ;
    aux2 = (base, base^0, base^1, base^2) per row -/
def runDrift (c : Case) : List String :=
  let n := natArg c 2
  let it := natArg c 3
  let nb := natArg c 4
  let e := fun i => c.extra.getD i f32zero
  let ax0 : Ruler Float32 := { steps := n, min := e 0, max := e 1 }
  let ax1 : Ruler Float32 := { steps := n, min := e 2, max := e 3 }
  let baseOk := (List.range n).all fun y =>
      (driftPowBase ax1 (e 5) (e 9) y).toBits == (c.aux2.getD (4 * y) f32zero).toBits
  if !baseOk then ["case " ++ c.id, "error pow-base-mismatch"] else
  let pw : Nat → Nat → Float32 := fun y i => c.aux2.getD (4 * y + 1 + i) f32zero
  let offRow : Nat → Float32 := fun y => driftOffset [e 6, e 7, e 8] ax1 ax0.delta pw y
  let off : Array Float32 := ((List.range (n * nb)).map fun r => if r < n then offRow r else f32zero).toArray
  ["case " ++ c.id, hexLine "off" off.toList] ++ kickOutputs "x" n it nb 0 off c.data

instance : VarAcc Float32 where
  -- var = (float)((double)var + (double)proj * pow((double)d, 2))
  accSq v p d := (v.toFloat + p.toFloat * (d.toFloat * d.toFloat)).toFloat32

def psPrint (k : PSConst Float32) (s : PSState Float32) : List String :=
  [hexLine "out" s.data.toList,
   hexLine "vals" (s.proj0.toList ++ s.proj1.toList ++ s.filling.toList ++ [s.integral]
     ++ s.mean.toList ++ s.var.toList ++ s.rms.toList)]

/-- ps <id> <n> <nb> ; extra = qmin qmax pmin pmax ; off = filling_set ; data ; ops -/
def runPS (c : Case) : List String :=
  let n := natArg c 2
  let nb := natArg c 3
  let e := fun i => c.extra.getD i f32zero
  let k : PSConst Float32 := { n := n, nb := nb, ax0 := { steps := n, min := e 0, max := e 1 },
                               ax1 := { steps := n, min := e 2, max := e 3 },
                               fset := c.off, pos := c.off.map fun f => decide (f > 0) }
  -- the constructor refuses fillings not normalised to 1e-5
  let s0 := psConstruct k c.data
  let (_, lines) := c.words.foldl (fun (acc : PSState Float32 × List String) op =>
    let (s, out) := acc
    match op with
    | "x" => (psXProj k s, out)
    | "y" => (psYProj k s, out)
    | "i" => (psIntegrate k s, out)
    | "n" => (psNormalize k s, out)
    | "N" => (psNormalize k (psIntegrate k s), out)
    | "a0" => (psAverage k 0 s, out)
    | "a1" => (psAverage k 1 s, out)
    | "v0" => (psVariance Float32.sqrt k 0 s, out)
    | "v1" => (psVariance Float32.sqrt k 1 s, out)
    | "c" => (psCopy k s, out)
    | "p" => (s, out ++ psPrint k s)
    | _ => (s, out ++ ["error unknown-op " ++ op])) (s0, [])
  ["case " ++ c.id] ++ lines

def dispatch (c : Case) : List String :=
  match c.kind with
  | "kick" => runKick c
  | "coeff" => runCoeff c
  | "fp" => runFP c
  | "ident" => runIdent c
  | "rf" => runRF c
  | "ps" => runPS c
  | "drift" => runDrift c
  | k => ["case " ++ c.id, "error unknown-kind " ++ k]

end Driver
