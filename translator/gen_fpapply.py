"""G13: index arithmetic of FokkerPlanckMap::apply (src/SM/FokkerPlanckMap.cpp, CPU path) and of Identity::apply
(inc/SM/Identity.hpp) -> InovesaModel/Gen/FPApply.lean

FokkerPlanckMap::apply: the four nested loops with their bounds, the bunch/row offsets, the table slot `_hinfo[…]`, the
cell read from `data_in`, the cell written in `data_out`, the start value and the accumulation `value += in·weight`.
Identity::apply: source, number of cells and destination of the `std::copy_n`.
Tied to `fpCell` / `fpApply` (Model/FokkerPlanck.lean) in Props/TieFPApply.lean.  Fail-closed.
"""
import re

import cxxast
from cxxast import Unsupported, ast_of, source_hash
from gen_rf import find
from gen_psloops import unwrap, stmts, body, for_header

SRC = "src/SM/FokkerPlanckMap.cpp"
ISRC = "inc/SM/Identity.hpp"
NAMES = {"_meshxsize": "xsize", "_ysize": "ysize", "_ip": "ip", "nb": "nb", "nxy": "nxy"}


def nat(node, loc):
    n = unwrap(node)
    k = n.get("kind")
    if k == "IntegerLiteral":
        return n["value"]
    if k == "DeclRefExpr":
        nm = n["referencedDecl"]["name"]
        if nm in loc:
            return loc[nm]
        if nm in NAMES:
            return NAMES[nm]
        raise Unsupported("integer variable %s" % nm)
    if k == "MemberExpr":
        nm = n["name"]
        if nm == "index":
            return "idx"
        if nm in NAMES:
            return NAMES[nm]
        raise Unsupported("member %s" % nm)
    if k == "BinaryOperator" and n["opcode"] in ("+", "*"):
        return "(%s %s %s)" % (nat(n["inner"][0], loc), n["opcode"], nat(n["inner"][1], loc))
    raise Unsupported("index expression %s" % k)


def header(f, loc):
    init, _, cond, inc, blk = f["inner"]
    vd = init["inner"][0]
    var = vd["name"]
    lo = nat(vd["inner"][0], loc)
    c = unwrap(cond)
    if c.get("kind") != "BinaryOperator" or c["opcode"] != "<" or unwrap(c["inner"][0]).get("referencedDecl", {}).get("name") != var:
        raise Unsupported("loop condition of %s" % var)
    i = unwrap(inc)
    if i.get("kind") != "UnaryOperator" or i["opcode"] != "++":
        raise Unsupported("loop increment of %s" % var)
    if lo != "0":
        raise Unsupported("loop %s does not start at 0" % var)
    return var, nat(c["inner"][1], loc), blk


def subscript(node, loc):
    n = unwrap(node)
    if n.get("kind") != "ArraySubscriptExpr":
        raise Unsupported("expected an array element, found %s" % n.get("kind"))
    base = unwrap(n["inner"][0])
    nm = base.get("referencedDecl", {}).get("name") or base.get("name")
    return nm, nat(n["inner"][1], loc)


def generate():
    docs = [d for d in ast_of(SRC, "vfps::FokkerPlanckMap::apply") if d.get("kind") == "CXXMethodDecl" and d.get("name") == "apply"
            and any(c.get("kind") == "CompoundStmt" for c in d.get("inner", []))]
    if len(docs) != 1:
        raise Unsupported("FokkerPlanckMap::apply definition")
    ss = stmts(body(docs[0]))
    loops = [s for s in ss if s.get("kind") == "ForStmt"]
    if len(loops) != 1:
        raise Unsupported("apply(): outer loop")
    loc = {}
    bounds = []
    f = loops[0]
    offs = {}
    order = []
    for depth, want in enumerate(["n", "x", "y", "j"]):
        var, hi, blk = header(f, loc)
        if var != want:
            raise Unsupported("loop variable %s, expected %s" % (var, want))
        loc[var] = "b" if var == "n" else var
        bounds.append(hi)
        inner = stmts(blk)
        nxt = None
        for s in inner:
            if s.get("kind") == "DeclStmt":
                vd = s["inner"][0]
                if vd["name"] in ("offs1", "offs"):
                    offs[vd["name"]] = nat(vd["inner"][0], loc)
                    loc[vd["name"]] = vd["name"]
                    order.append(vd["name"])
                elif vd["name"] == "value":
                    z = unwrap(vd["inner"][0])
                    if z.get("kind") == "ImplicitCastExpr":
                        z = unwrap(z["inner"][0])
                    if z.get("kind") != "IntegerLiteral" or z["value"] != "0":
                        raise Unsupported("value does not start at 0")
                    order.append("value=0")
                elif vd["name"] == "h":
                    hn, hidx = subscript(find(vd, lambda m: m.get("kind") == "ArraySubscriptExpr", [])[0], loc)
                    if hn != "_hinfo":
                        raise Unsupported("h is not an element of _hinfo")
                    offs["tab"] = hidx
                else:
                    raise Unsupported("declaration of %s" % vd["name"])
            elif s.get("kind") == "ForStmt":
                nxt = s
            else:
                u = unwrap(s)
                if u.get("kind") == "CompoundAssignOperator" and u["opcode"] == "+=":
                    if unwrap(u["inner"][0]).get("referencedDecl", {}).get("name") != "value":
                        raise Unsupported("+= on something else than value")
                    r = unwrap(u["inner"][1])
                    if r.get("kind") != "BinaryOperator" or r["opcode"] != "*":
                        raise Unsupported("summand is not a product")
                    an, aidx = subscript(r["inner"][0], loc)
                    w = [m.get("name") for m in find(r["inner"][1], lambda m: m.get("kind") == "MemberExpr", [])]
                    if an != "data_in" or w != ["weight"]:
                        raise Unsupported("summand is not data_in[…]·h.weight")
                    offs["read"] = aidx
                elif u.get("kind") == "BinaryOperator" and u["opcode"] == "=":
                    on, oidx = subscript(u["inner"][0], loc)
                    if on != "data_out" or unwrap(u["inner"][1]).get("referencedDecl", {}).get("name") != "value":
                        raise Unsupported("store is not data_out[…] = value")
                    offs["write"] = oidx
                    order.append("store")
                else:
                    raise Unsupported("statement %s in apply()" % u.get("kind"))
        if depth < 3:
            if nxt is None:
                raise Unsupported("loop nest of depth %d" % (depth + 1))
            f = nxt
    if sorted(offs) != ["offs", "offs1", "read", "tab", "write"]:
        raise Unsupported("apply(): found %r" % sorted(offs))
    if order != ["offs1", "offs", "value=0", "store"]:
        raise Unsupported("apply(): statement order %r" % order)
    # Identity::apply
    with open(cxxast.REPO + "/" + ISRC) as fh:
        text = re.sub(r"\s+", "", fh.read())
    m = re.findall(r"std::copy_n\(data_in,([\w:*]+),data_out\);", text)
    if len(m) != 1 or "autodata_in=_in->getData();autodata_out=_out->getData();" not in text:
        raise Unsupported("Identity::apply: copy_n(data_in, …, data_out)")
    cnt = m[0].replace("PhaseSpace::", "")
    if not re.fullmatch(r"\w+(\*\w+)*", cnt) or any(t not in NAMES for t in cnt.split("*")):
        raise Unsupported("Identity::apply: count %r" % m[0])
    out = ["/- GENERATED by translator/gen_fpapply.py from %s (sha256 %s) and %s (sha256 %s).\n   Do not edit: overwritten by every check run. -/"
           % (SRC, source_hash(SRC), ISRC, source_hash(ISRC)),
           "set_option linter.unusedVariables false\nnamespace Inovesa.Gen\n",
           "/-! index arithmetic of `FokkerPlanckMap::apply`: `b` bunch, `x`, `y` cell, `j` table entry, `idx` = `h.index` -/\n",
           "/-- loop bounds (bunch, x, y, j) -/",
           "def fpApplyBounds (nb xsize ysize ip : Nat) : List Nat := [%s]" % ", ".join(bounds),
           "def fpApplyOffs1 (b xsize ysize : Nat) : Nat := %s" % offs["offs1"],
           "def fpApplyOffs (offs1 x ysize : Nat) : Nat := %s" % offs["offs"],
           "def fpApplyTab (y ip j : Nat) : Nat := %s" % offs["tab"],
           "def fpApplyRead (offs idx : Nat) : Nat := %s" % offs["read"],
           "def fpApplyWrite (offs y : Nat) : Nat := %s\n" % offs["write"],
           "/-- `Identity::apply`: number of cells copied from the source grid to the destination grid -/",
           "def identCopyCount (nb nxy : Nat) : Nat := %s\n" % cnt.replace("*", " * "),
           "end Inovesa.Gen"]
    return "\n".join(out) + "\n"


if __name__ == "__main__":
    print(generate())
