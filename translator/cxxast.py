"""clang-AST front end of the translator (DESIGN.md §4.1).

Runs clang++-14 on a source file of /repo with the repository's own defines and
include paths, filters the typed AST to one function, and turns C++ expressions of
a *small whitelisted subset* into an IR that is emitted as Lean terms over an
abstract scalar (InovesaModel/Model/Scalar.lean).

Fail-closed: any AST node kind / operator / call outside the subset raises
`Unsupported`; the caller aborts generation and the check reports the affected
properties as no longer shown.
"""
import json
import os
import struct
import subprocess
from fractions import Fraction

REPO = os.environ.get("INOVESA_REPO", "/repo")

CLANG_ARGS = [
    "clang++-14", "-std=gnu++14", "-fsyntax-only",
    "-DINOVESA_ENABLE_INTERRUPT=1", "-DINOVESA_USE_HDF5=1",
    "-DINOVESA_USE_OPENCL=0", "-DINOVESA_USE_OPENGL=0", "-DINOVESA_USE_PNG=0",
    '-DGIT_BRANCH="main"', '-DGIT_COMMIT="verif"',
    "-I" + REPO + "/_build", "-I" + REPO + "/inc", "-I/usr/include/hdf5/serial",
    "-Wno-everything",
]


class Unsupported(Exception):
    pass


def ast_of(source, name_filter):
    """All top-level AST documents clang prints for `-ast-dump-filter=name_filter`."""
    cmd = CLANG_ARGS + ["-Xclang", "-ast-dump=json", "-Xclang",
                        "-ast-dump-filter=" + name_filter, os.path.join(REPO, source)]
    p = subprocess.run(cmd, stdout=subprocess.PIPE, stderr=subprocess.PIPE, text=True)
    if p.returncode != 0:
        raise Unsupported("clang failed on %s: %s" % (source, p.stderr[:2000]))
    s = p.stdout
    dec = json.JSONDecoder()
    i = 0
    docs = []
    while i < len(s):
        while i < len(s) and s[i].isspace():
            i += 1
        if i >= len(s):
            break
        o, j = dec.raw_decode(s, i)
        docs.append(o)
        i = j
    return docs


def definition_of(source, name_filter, kind=None, pred=None):
    """The unique declaration with a body matching the filter."""
    docs = [d for d in ast_of(source, name_filter)
            if any(c.get("kind") == "CompoundStmt" for c in d.get("inner", []))]
    if kind:
        docs = [d for d in docs if d.get("kind") == kind]
    if pred:
        docs = [d for d in docs if pred(d)]
    if len(docs) != 1:
        raise Unsupported("expected exactly one definition of %s in %s, found %d"
                          % (name_filter, source, len(docs)))
    return docs[0]


def body_of(decl):
    return [c for c in decl["inner"] if c["kind"] == "CompoundStmt"][0]


def qual(node):
    return node.get("type", {}).get("qualType", "")


def canon(node):
    t = node.get("type", {})
    return t.get("desugaredQualType", t.get("qualType", ""))


FLOAT_TYPES = {"float", "const float"}
DOUBLE_TYPES = {"double", "const double"}


def ctype(node):
    """'f32' / 'f64' / 'int' classification of an expression node."""
    c = canon(node).replace("const ", "").strip()
    q = qual(node).replace("const ", "").strip()
    for t in (c, q):
        if t in ("float", "vfps::interpol_t", "vfps::meshaxis_t", "vfps::meshdata_t",
                 "vfps::integral_t", "vfps::timeaxis_t", "vfps::frequency_t",
                 "vfps::csrpower_t", "vfps::data_t", "vfps::projection_t",
                 "interpol_t", "meshaxis_t", "meshdata_t", "integral_t", "timeaxis_t",
                 "frequency_t", "csrpower_t", "data_t", "projection_t"):
            return "f32"
        if t == "double":
            return "f64"
    return "int"


def f32_bits(x):
    """binary32 bit pattern of the Python float x rounded to nearest-even."""
    return struct.unpack("<I", struct.pack("<f", x))[0]


def f32_round(x):
    return struct.unpack("<f", struct.pack("<f", x))[0]


# --------------------------------------------------------------------------- IR

class E:
    """IR node.  kind in {lit,var,bin,neg,call}.  ty in {f32,f64,int}."""

    def __init__(self, kind, ty, **kw):
        self.kind = kind
        self.ty = ty
        self.__dict__.update(kw)

    def is_const(self):
        if self.kind == "lit":
            return True
        if self.kind == "var":
            return False
        if self.kind == "bin":
            return self.a.is_const() and self.b.is_const()
        if self.kind in ("neg", "cast"):
            return self.a.is_const()
        return False


def fold(e):
    """(ideal Fraction, coded python float in the node's C type) of a constant tree."""
    if e.kind == "lit":
        return e.ideal, e.coded
    if e.kind == "neg":
        i, c = fold(e.a)
        return -i, -c
    if e.kind == "cast":
        i, c = fold(e.a)
        if e.ty == "f32":
            c = f32_round(float(c))
        elif e.ty == "f64":
            c = float(c)
        else:
            raise Unsupported("constant cast to int")
        return i, c
    if e.kind == "bin":
        ia, ca = fold(e.a)
        ib, cb = fold(e.b)
        op = e.op
        if op == "+":
            i, c = ia + ib, ca + cb
        elif op == "-":
            i, c = ia - ib, ca - cb
        elif op == "*":
            i, c = ia * ib, ca * cb
        elif op == "/":
            if e.ty == "int":
                raise Unsupported("integer division in constant")
            i, c = ia / ib, ca / cb
        else:
            raise Unsupported("constant op " + op)
        if e.ty == "f32":
            c = f32_round(c)
        return i, c
    raise Unsupported("fold " + e.kind)


def strip(node):
    """Skip wrappers that do not change the value."""
    while True:
        k = node["kind"]
        if k in ("ParenExpr", "ConstantExpr", "ExprWithCleanups", "MaterializeTemporaryExpr",
                 "CXXBindTemporaryExpr"):
            node = node["inner"][0]
            continue
        if k in ("ImplicitCastExpr", "CXXFunctionalCastExpr", "CStyleCastExpr",
                 "CXXStaticCastExpr") and node.get("castKind") in ("LValueToRValue", "NoOp"):
            node = node["inner"][-1]
            continue
        return node


class ExprTranslator:
    """C++ expression AST -> IR.  `resolve_ref(name, node)` maps a DeclRefExpr /
    MemberExpr name to an IR node (or raises Unsupported); `resolve_call(name, args,
    node)` does the same for calls."""

    def __init__(self, resolve_ref, resolve_call=None):
        self.resolve_ref = resolve_ref
        self.resolve_call = resolve_call

    def tr(self, node):
        node = strip(node)
        k = node["kind"]
        ty = ctype(node)
        if k == "IntegerLiteral":
            v = int(node["value"])
            return E("lit", "int", ideal=Fraction(v), coded=v)
        if k == "FloatingLiteral":
            # clang prints the literal in shortest form; re-read exactly
            v = float(node["value"])
            if ty == "f32":
                v = f32_round(v)
            return E("lit", ty, ideal=Fraction(node["value"]) if _is_plain_decimal(node["value"])
                     else Fraction(v), coded=v)
        if k in ("ImplicitCastExpr", "CXXFunctionalCastExpr", "CStyleCastExpr",
                 "CXXStaticCastExpr"):
            ck = node.get("castKind")
            inner = self.tr(node["inner"][-1])
            if ck in ("IntegralToFloating", "FloatingCast", "IntegralCast"):
                if inner.ty == ty:
                    return inner
                return E("cast", ty, a=inner)
            if ck in ("NoOp", "LValueToRValue", "ConstructorConversion", "UserDefinedConversion"):
                return inner
            raise Unsupported("cast kind %s" % ck)
        if k == "UnaryOperator":
            if node["opcode"] == "-":
                return E("neg", ty, a=self.tr(node["inner"][0]))
            if node["opcode"] == "+":
                return self.tr(node["inner"][0])
            raise Unsupported("unary " + node["opcode"])
        if k == "BinaryOperator":
            op = node["opcode"]
            if op not in ("+", "-", "*", "/"):
                raise Unsupported("binary " + op)
            return E("bin", ty, op=op, a=self.tr(node["inner"][0]), b=self.tr(node["inner"][1]))
        if k == "DeclRefExpr":
            return self.resolve_ref(node["referencedDecl"]["name"], node)
        if k == "MemberExpr":
            return self.resolve_ref(node["name"], node)
        if k in ("CallExpr", "CXXMemberCallExpr", "CXXOperatorCallExpr") and self.resolve_call:
            return self.resolve_call(node, self)
        raise Unsupported("expression node %s" % k)


def _is_plain_decimal(s):
    try:
        Fraction(s)
        return True
    except Exception:
        return False


# ------------------------------------------------------------------- Lean output

def lean_lit(ideal, coded_f32_bits):
    return "(lit (%d) %d 0x%08x)" % (ideal.numerator, ideal.denominator, coded_f32_bits)


def emit(e):
    """Lean term (over the abstract scalar α) of an IR node of floating type.
    Constant subtrees are folded into one literal carrying both readings."""
    if e.is_const():
        ideal, coded = fold(e)
        if e.ty == "int":
            coded = float(coded)
        return lean_lit(ideal, f32_bits(float(coded)))
    if e.kind == "var":
        return e.lean
    if e.kind == "neg":
        return "(-%s)" % emit(e.a)
    if e.kind == "cast":
        if e.ty in ("f32", "f64") and e.a.ty in ("f32", "f64"):
            # float<->double casts of non-constant values: the abstract scalar has one
            # precision; the executable Float32 model evaluates everything in binary32.
            # (only allowed where the caller whitelists it)
            raise Unsupported("non-constant float/double cast")
        raise Unsupported("non-constant int->float cast")
    if e.kind == "bin":
        if e.ty != "f32":
            raise Unsupported("non-constant arithmetic in type %s" % e.ty)
        return "(%s %s %s)" % (emit(e.a), e.op, emit(e.b))
    if e.kind == "call":
        return "(%s %s)" % (e.fn, " ".join(emit(a) for a in e.args))
    raise Unsupported("emit " + e.kind)


def source_hash(path):
    import hashlib
    with open(os.path.join(REPO, path), "rb") as f:
        return hashlib.sha256(f.read()).hexdigest()[:16]


def loc_range(node):
    r = node.get("range", {})
    b = r.get("begin", {})
    e = r.get("end", {})

    def line(x):
        return x.get("line") or x.get("spellingLoc", {}).get("line") or x.get("expansionLoc", {}).get("line")
    return line(b), line(e)
