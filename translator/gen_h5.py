"""G6: what the append methods of HDF5File write (src/IO/HDF5File.cpp) -> InovesaModel/Gen/H5Appends.lean

For every `HDF5File::append*` method: the `_appendData(<dataset member>, <source expression>)` calls in program order with
the `if` conditions on their path (source text, whitespace-normalised), and the HDF5 path of every dataset member (from
the `_makeDatasetInfo<…>("<path>", …)` initialisers of the constructor).  Props/TieH5.lean pins the record structure the
main-program model relies on (all per-record datasets are appended together, the phase space with its own axis, …).
Fail-closed.
"""
import os
import re
from cxxast import Unsupported, ast_of, source_hash, REPO
from gen_rf import find

SRC = "src/IO/HDF5File.cpp"
_text = None


def src_text(node):
    global _text
    if _text is None:
        with open(os.path.join(REPO, SRC), "rb") as f:
            _text = f.read()
    r = node.get("range", {})
    b, e = r.get("begin", {}), r.get("end", {})
    b = b.get("expansionLoc", b)
    e = e.get("expansionLoc", e)
    if "offset" not in b or "offset" not in e:
        raise Unsupported("no source range")
    s = _text[b["offset"]:e["offset"] + e.get("tokLen", 1)].decode()
    return re.sub(r"\s+", " ", s).strip()


def lean_str(s):
    return '"' + s.replace("\\", "\\\\").replace('"', '\\"') + '"'


def refs(node):
    return [d["referencedDecl"]["name"] for d in find(node, lambda m: m.get("kind") == "DeclRefExpr", [])]


def members(node):
    return [m.get("name") for m in find(node, lambda m: m.get("kind") == "MemberExpr", [])]


def generate():
    docs = ast_of(SRC, "HDF5File")
    methods = []
    for d in docs:
        find(d, lambda m: m.get("kind") == "CXXMethodDecl" and m.get("name", "").startswith("append")
             and any(c.get("kind") == "CompoundStmt" for c in m.get("inner", [])), methods)
    seen, uniq = set(), []
    for m in methods:
        if m["id"] not in seen:
            seen.add(m["id"])
            uniq.append(m)
    if not uniq:
        raise Unsupported("no append methods found")
    out_methods = []
    locals_ = []
    for m in uniq:
        params = [(p.get("name", ""), (p.get("type") or {}).get("qualType", "")) for p in m.get("inner", []) if p.get("kind") == "ParmVarDecl"]
        sig = "%s(%s)" % (m["name"], ", ".join(t.replace("const ", "").replace("vfps::", "").replace(" ", "") for _, t in params))
        body = [c for c in m["inner"] if c.get("kind") == "CompoundStmt"][0]
        calls = []
        for v in find(body, lambda x: x.get("kind") == "VarDecl" and "inner" in x and x.get("name") in ("mean_q", "mean_E"), []):
            locals_.append((v["name"], src_text(v["inner"][-1])))

        def walk(stmts, path):
            for st in stmts:
                k = st["kind"]
                if k == "IfStmt":
                    parts = [c for c in st["inner"] if c]
                    cond = src_text(parts[0])
                    walk(parts[1]["inner"] if parts[1]["kind"] == "CompoundStmt" else [parts[1]], path + [(cond, True)])
                    if len(parts) > 2:
                        walk(parts[2]["inner"] if parts[2]["kind"] == "CompoundStmt" else [parts[2]], path + [(cond, False)])
                elif k == "CompoundStmt":
                    walk(st["inner"], path)
                elif k in ("ForStmt", "CXXForRangeStmt", "WhileStmt"):
                    inner = find(st, lambda x: x.get("kind") == "CXXMemberCallExpr" and "_appendData" in members(x["inner"][0]), [])
                    if inner:
                        raise Unsupported("_appendData inside a loop in %s" % m["name"])
                else:
                    for c in find(st, lambda x: x.get("kind") == "CXXMemberCallExpr" and members(x["inner"][0])[:1] == ["_appendData"], []):
                        args = c["inner"][1:]
                        ds = members(args[0])
                        if len(ds) != 1:
                            raise Unsupported("first argument of _appendData is not a dataset member")
                        calls.append((list(path), ds[0], src_text(args[1])))
        walk(body["inner"], [])
        out_methods.append((sig, calls))
    # dataset member -> HDF5 path, from the constructor initialisers
    ctors = []
    for d in docs:
        find(d, lambda m: m.get("kind") == "CXXConstructorDecl" and any(c.get("kind") == "CompoundStmt" for c in m.get("inner", [])), ctors)
    paths = {}
    for c in ctors:
        for ini in [x for x in c.get("inner", []) if x.get("kind") == "CXXCtorInitializer"]:
            nm = (ini.get("anyInit") or {}).get("name")
            mk = [x for x in find(ini, lambda x: x.get("kind") == "CXXMemberCallExpr", []) if "_makeDatasetInfo" in members(x["inner"][0])]
            if nm and mk:
                lit = find(mk[0], lambda x: x.get("kind") == "StringLiteral", [])
                if lit:
                    paths[nm] = lit[0]["value"].strip('"')
    used = sorted({ds for _, cs in out_methods for _, ds, _ in cs})
    missing = [u for u in used if u not in paths]
    if missing:
        raise Unsupported("no HDF5 path found for dataset members %r" % missing)
    out = ["/- GENERATED by translator/gen_h5.py from %s (sha256 %s).\n   Do not edit: overwritten by every check run. -/"
           % (SRC, source_hash(SRC)),
           "namespace Inovesa.Gen\n",
           "/-- one `_appendData(dataset, source)` call: conditions on its path, dataset member, source expression (source text) -/",
           "structure H5Append where\n  conds : List (String × Bool)\n  dataset : String\n  source : String\n  deriving Repr, DecidableEq\n",
           "/-- the append methods of HDF5File (name and parameter types) with their calls in program order -/",
           "def h5Appends : List (String × List H5Append) := ["]
    rows = []
    for sig, cs in out_methods:
        rows.append("  (%s, [\n%s])" % (lean_str(sig), ",\n".join(
            "    { conds := [%s], dataset := %s, source := %s }" % (
                ", ".join("(%s, %s)" % (lean_str(c), "true" if b else "false") for c, b in p), lean_str(ds), lean_str(srcx))
            for p, ds, srcx in cs)))
    out.append(",\n".join(rows) + "]\n")
    out.append("/-- HDF5 path of every dataset member that is appended to -/")
    out.append("def h5Paths : List (String × String) := [%s]\n" % ", ".join("(%s, %s)" % (lean_str(k), lean_str(paths[k])) for k in used))
    # ---- record shapes: size members and the first brace list (dims) of every _makeDatasetInfo initialiser ----------
    with open(os.path.join(REPO, SRC)) as f:
        flat = re.sub(r"\s+", "", f.read())
    head = flat[flat.index("vfps::HDF5File::HDF5File("):]
    head = head[:head.index("{_file.createGroup")] if "{_file.createGroup" in head else head[:20000]
    size_members = {}
    for nm in ("_nBuckets", "_nBunches", "_nParticles", "_psSizeX", "_psSizeY", "_maxn", "_impSize"):
        mm = re.search(r"," + nm + r"\(((?:[^()]|\((?:[^()]|\([^()]*\))*\))*)\)", head)
        if not mm:
            raise Unsupported("initialiser of %s" % nm)
        size_members[nm] = mm.group(1)
    want = {"_nBunches": "PhaseSpace::nb", "_nParticles": "nparticles", "_psSizeX": "PhaseSpace::nx", "_psSizeY": "PhaseSpace::ny"}
    for k, v in want.items():
        if size_members[k] != v:
            raise Unsupported("%s is initialised with %s" % (k, size_members[k]))
    mx = re.fullmatch(r"\(ef!=nullptr\)\?ef->getNMax\(\)/static_cast<size_t>\((\d+)\):0", size_members["_maxn"])
    mi = re.fullmatch(r"imp!=nullptr\?imp->nFreqs\(\)/(\d+):0", size_members["_impSize"])
    if not mx or not mi:
        raise Unsupported("_maxn / _impSize initialisers: %r %r" % (size_members["_maxn"], size_members["_impSize"]))
    dims = {}
    for mm in re.finditer(r",(_\w+)\(_makeDatasetInfo<(\d+),\w+>\(\"([^\"]+)\",\{\{([^{}]*)\}\}", head):
        dims[mm.group(1)] = (int(mm.group(2)), mm.group(4).split(","))
    NAMES = {"_nBunches": "nb", "_psSizeX": "nx", "_psSizeY": "ny", "_maxn": "maxn", "_impSize": "imp", "_nParticles": "npart",
             "_nBuckets": "nbuckets"}
    shapes = []
    for u in used:
        if u not in dims:
            raise Unsupported("no dims found for %s" % u)
        rank, dl = dims[u]
        if len(dl) != rank or dl[0] != "0":
            raise Unsupported("%s: dims %r for rank %d (appended data sets start with zero records)" % (u, dl, rank))
        rest = []
        for d in dl[1:]:
            if d in NAMES:
                rest.append(NAMES[d])
            elif re.fullmatch(r"\d+", d):
                rest.append(d)
            else:
                raise Unsupported("%s: dimension %r" % (u, d))
        shapes.append((u, rest))
    # the gather loop of append(ElectricField*, bool)
    g = re.search(r"constsize_trowlength=ef->getNMax\(\);std::vector<csrpower_t>rows;rows\.reserve\(_nBunches\*_maxn\);"
                  r"for\(size_tb=0;b<_nBunches;b\+\+\)\{rows\.insert\(rows\.end\(\),spectrum\+b\*rowlength,spectrum\+b\*rowlength\+_maxn\);\}", flat)
    if not g:
        raise Unsupported("gather loop of the CSR spectrum rows")
    out.append("/-- `_maxn` and `_impSize`: half the padded length of the field / half the impedance table (0 without field / impedance) -/")
    out.append("def h5Maxn (nmax : Nat) : Nat := nmax / %s" % mx.group(1))
    out.append("def h5ImpSize (nfreqs : Nat) : Nat := nfreqs / %s\n" % mi.group(1))
    out.append("/-- cells of ONE record of every data set that is appended to (the dims after the record index) -/")
    out.append("def h5RecordShape (nb nx ny maxn imp npart : Nat) : List (String × List Nat) := [%s]\n" % ", ".join(
        "(%s, [%s])" % (lean_str(u), ", ".join(r)) for u, r in shapes))
    out.append("/-- CSR spectrum: row `b` of the record is gathered from `spectrum + b*rowlength` (`rowlength = ef->getNMax()`), `_maxn` values -/")
    out.append("def csrGatherStart (b rowlength : Nat) : Nat := b * rowlength")
    out.append("def csrGatherLen (maxn : Nat) : Nat := maxn")
    out.append("def csrGatherBunches (nb : Nat) : Nat := nb\n")
    out.append("/-- locals used as sources -/")
    out.append("def h5Locals : List (String × String) := [%s]\n" % ", ".join("(%s, %s)" % (lean_str(a), lean_str(b)) for a, b in locals_))
    out.append("end Inovesa.Gen")
    return "\n".join(out) + "\n"


if __name__ == "__main__":
    print(generate())
