"""G9b: DriftMap constructor (src/SM/DriftMap.cpp) and the wake-scaling argument of the delegating
ElectricField constructor (inc/PS/ElectricField.hpp) -> InovesaModel/Gen/DriftWake.lean

DriftMap: `_offset[y] = 0; for i: _offset[y] += TERM(i); _offset[y] /= DIV;` — emitted as the initial value,
the summand, the base of the power and the final division.  ElectricField: the expression handed on as
`wakescalining`.  Tied to the hand model by `rfl` (Props/Tie.lean).  Fail-closed.
"""
from cxxast import Unsupported, ast_of, strip, ExprTranslator, E, source_hash
from gen_rf import find, axis_index, emit

SRC = "src/SM/DriftMap.cpp"
EF_SRC = "src/PS/ElectricField.cpp"
EF_HDR = "inc/PS/ElectricField.hpp"


def target_is(lhs, member, index):
    names = [m.get("name") for m in find(lhs, lambda m: m.get("kind") == "MemberExpr", [])]
    idx = [d["referencedDecl"]["name"] for d in find(lhs, lambda m: m.get("kind") == "DeclRefExpr"
                                                    and m["referencedDecl"].get("name") not in ("operator[]",), [])]
    return names == [member] and idx == [index]


class DriftExec:
    def __init__(self):
        self.pow_base = None
        self.tr = ExprTranslator(self.ref, self.call)

    def ref(self, name, node):
        if name == "E0":
            return E("var", "f32", lean="e0")
        if name in ("y", "i"):
            return E("var", "int", lean=name)
        raise Unsupported("reference to %s in DriftMap" % name)

    def call(self, node, tr):
        callee = strip(node["inner"][0])
        nm = callee.get("name") or (callee.get("referencedDecl") or {}).get("name")
        while nm is None and callee.get("inner"):
            callee = strip(callee["inner"][0])
            nm = callee.get("name") or (callee.get("referencedDecl") or {}).get("name")
        if nm == "operator[]":
            names = [m.get("name") for m in find(node, lambda m: m.get("kind") == "DeclRefExpr", [])]
            refs = [d["referencedDecl"]["name"] for d in find(node, lambda m: m.get("kind") == "DeclRefExpr", [])]
            if "slip" in refs and "i" in refs:
                return E("var", "f32", lean="slip_i")
            raise Unsupported("operator[] on %r" % refs)
        if nm == "at":
            if axis_index(node) != 1:
                raise Unsupported("at() of axis 0 in DriftMap")
            a = self.tr.tr(node["inner"][1])
            if not ((a.kind == "var" and a.lean == "y") or (a.kind == "cast" and a.a.kind == "var" and a.a.lean == "y")):
                raise Unsupported("at(<not y>)")
            return E("var", "f32", lean="at1y")
        if nm == "scale":
            s = find(node, lambda m: m.get("kind") == "StringLiteral", [])
            if axis_index(node) != 1 or not s or "ElectronVolt" not in s[0].get("value", ""):
                raise Unsupported("scale() other than axis 1 in eV")
            return E("var", "f32", lean="scaleEV")
        if nm == "delta":
            return E("var", "f32", lean="delta%d" % axis_index(node))
        if nm == "pow":
            self.pow_base = self.tr.tr(node["inner"][1])
            ex = self.tr.tr(node["inner"][2])
            if not (ex.kind == "cast" and ex.a.kind == "var" and ex.a.lean == "i") and not (ex.kind == "var" and ex.lean == "i"):
                raise Unsupported("exponent of pow is not i")
            return E("var", "f32", lean="pw_yi")
        raise Unsupported("call to %s in DriftMap" % nm)


def drift():
    ctors = [d for d in ast_of(SRC, "DriftMap") if d.get("kind") == "CXXConstructorDecl"
             and any(c.get("kind") == "CompoundStmt" for c in d.get("inner", []))]
    if len(ctors) != 1:
        raise Unsupported("DriftMap constructor")
    body = [c for c in ctors[0]["inner"] if c.get("kind") == "CompoundStmt"][0]
    loops = [s for s in body["inner"] if s.get("kind") == "ForStmt"]
    if len(loops) != 1:
        raise Unsupported("DriftMap: outer loop")
    ex = DriftExec()
    stmts = loops[0]["inner"][-1]["inner"]
    if len(stmts) != 3:
        raise Unsupported("DriftMap: outer loop body has %d statements" % len(stmts))
    s0, s1, s2 = [strip(s) for s in stmts]
    if not (s0["kind"] == "BinaryOperator" and s0["opcode"] == "=" and target_is(s0["inner"][0], "_offset", "y")):
        raise Unsupported("DriftMap: initial assignment")
    init = emit(ex.tr.tr(s0["inner"][1]))
    if s1["kind"] != "ForStmt":
        raise Unsupported("DriftMap: inner loop")
    cnd = strip(s1["inner"][2])
    refs = [d["referencedDecl"]["name"] for d in find(cnd, lambda m: m.get("kind") == "DeclRefExpr", [])]
    if "slip" not in refs or "i" not in refs:
        raise Unsupported("inner loop bound is not slip.size()")
    inner = s1["inner"][-1]
    istm = inner["inner"] if inner["kind"] == "CompoundStmt" else [inner]
    if len(istm) != 1:
        raise Unsupported("inner loop body")
    a = strip(istm[0])
    while a["kind"] == "ExprWithCleanups":
        a = strip(a["inner"][0])
    if not (a["kind"] == "CompoundAssignOperator" and a["opcode"] == "+=" and target_is(a["inner"][0], "_offset", "y")):
        raise Unsupported("inner loop statement")
    term = emit(ex.tr.tr(a["inner"][1]))
    if ex.pow_base is None:
        raise Unsupported("no pow in the summand")
    base = emit(ex.pow_base)
    if not (s2["kind"] == "CompoundAssignOperator" and s2["opcode"] == "/=" and target_is(s2["inner"][0], "_offset", "y")):
        raise Unsupported("DriftMap: final division")
    div = emit(ex.tr.tr(s2["inner"][1]))
    return init, term, base, div


def wake_scaling():
    docs = []
    for d in ast_of(EF_SRC, "ElectricField"):
        find(d, lambda m: m.get("kind") == "CXXConstructorDecl", docs)
    deleg = []
    for d in docs:
        inits = [c for c in d.get("inner", []) if c.get("kind") == "CXXCtorInitializer"]
        if len(inits) == 1 and find(inits[0], lambda m: m.get("kind") == "CXXConstructExpr" and "ElectricField" in
                                    (m.get("type") or {}).get("qualType", ""), []):
            params = [p.get("name") for p in d.get("inner", []) if p.get("kind") == "ParmVarDecl"]
            if "sigma_delta" in params:
                deleg.append((d, inits[0]))
    if len(deleg) != 1:
        raise Unsupported("delegating ElectricField constructor (%d candidates)" % len(deleg))
    d, init = deleg[0]
    ce = find(init, lambda m: m.get("kind") == "CXXConstructExpr" and "ElectricField" in
              (m.get("type") or {}).get("qualType", ""), [])[0]
    args = ce["inner"]
    if len(args) < 8:
        raise Unsupported("delegation passes %d arguments" % len(args))

    def ref(name, node):
        table = {"Ib": "ib", "dt": "dt", "c": "clight", "sigma_delta": "sdelta", "E0": "e0"}
        if name in table:
            return E("var", "f32", lean=table[name])
        raise Unsupported("reference to %s in the wake scaling" % name)

    def call(node, tr):
        callee = strip(node["inner"][0])
        nm = callee.get("name")
        if nm == "getScale":
            lit = find(node, lambda m: m.get("kind") == "IntegerLiteral", [])
            s = find(node, lambda m: m.get("kind") == "StringLiteral", [])
            if not lit or int(lit[0]["value"]) != 0 or not s or "Meter" not in s[0].get("value", ""):
                raise Unsupported("getScale other than (0, Meter)")
            return E("var", "f32", lean="qscale")
        if nm == "getDelta":
            lit = find(node, lambda m: m.get("kind") == "IntegerLiteral", [])
            if not lit:
                raise Unsupported("getDelta argument")
            return E("var", "f32", lean="delta%d" % int(lit[0]["value"]))
        raise Unsupported("call to %s in the wake scaling" % nm)
    return emit(ExprTranslator(ref, call).tr(args[7]))


def generate():
    init, term, base, div = drift()
    ws = wake_scaling()
    out = ["/- GENERATED by translator/gen_drift.py from %s (sha256 %s) and %s (sha256 %s).\n"
           "   Do not edit: overwritten by every check run. -/" % (SRC, source_hash(SRC), EF_HDR, source_hash(EF_HDR)),
           "import InovesaModel.Model.Scalar\nnamespace Inovesa.Gen\nopen Inovesa\n",
           "variable {α : Type} [Arith α]\n",
           "/-- DriftMap: `_offset[y] = …` before the sum over the slip coefficients -/",
           "def driftInit : α := %s\n" % init,
           "/-- summand for coefficient `i`: `slip_i = slip[i]`, `at1y` = energy coordinate of row `y`, `pw_yi` = the\n"
           "    library power `pow(driftPowBase …, i)` -/",
           "def driftTerm (slip_i at1y pw_yi : α) : α := %s\n" % term,
           "/-- base of that power -/",
           "def driftPowBase (at1y scaleEV e0 : α) : α := %s\n" % base,
           "/-- final `_offset[y] /= …` (`delta0` = position cell size) -/",
           "def driftFinish (acc delta0 : α) : α := (acc / %s)\n" % div,
           "/-- the wake scaling the delegating `ElectricField` constructor hands on (before the division by the\n"
           "    transform length): `qscale` = metres per unit of the position axis, `delta1` = ENERGY cell size -/",
           "def wakeScalingArg (ib dt clight qscale delta0 delta1 sdelta e0 : α) : α := %s\n" % ws,
           "end Inovesa.Gen"]
    return "\n".join(out) + "\n"


if __name__ == "__main__":
    print(generate())
