"""G9d: PhaseSpace::average / PhaseSpace::variance (src/PS/PhaseSpace.cpp) -> InovesaModel/Gen/Moments.lean

Shape of both:   for n: ACC = 0; if (_filling_set[n] > 0) { for i: ACC += TERM(i); ACC *= SCALE; } _moment[axis][k][n] = ACC;
Emitted: the initial value, the summand (for the variance: the deviation that is squared by std::pow(·,2)) and the
scale.  Tied to `averageOf` / `varianceOf` (Model/PhaseSpace.lean) by `rfl` in Props/Tie.lean.  Fail-closed.
"""
from cxxast import Unsupported, ast_of, strip, ExprTranslator, E, source_hash
from gen_rf import find, emit

SRC = "src/PS/PhaseSpace.cpp"


def refs(node):
    return [d["referencedDecl"]["name"] for d in find(node, lambda m: m.get("kind") == "DeclRefExpr", [])]


def members(node):
    return [m.get("name") for m in find(node, lambda m: m.get("kind") == "MemberExpr", [])]


def method(name):
    docs = [d for d in ast_of(SRC, name) if d.get("kind") == "CXXMethodDecl" and d.get("name") == name
            and any(c.get("kind") == "CompoundStmt" for c in d.get("inner", []))]
    if len(docs) != 1:
        raise Unsupported("PhaseSpace::%s definition" % name)
    return [c for c in docs[0]["inner"] if c.get("kind") == "CompoundStmt"][0]


def analyse(name, acc, moment_index):
    body = method(name)
    loops = [s for s in body["inner"] if s.get("kind") == "ForStmt"]
    if len(loops) != 1:
        raise Unsupported("%s: expected one loop over the bunches" % name)
    if "_nbunches" not in members(strip(loops[0]["inner"][2])) + refs(strip(loops[0]["inner"][2])):
        raise Unsupported("%s: outer loop bound" % name)
    stmts = [strip(s) for s in loops[0]["inner"][-1]["inner"]]
    decl = [s for s in stmts if s["kind"] == "DeclStmt"]
    if len(decl) != 1 or decl[0]["inner"][0].get("name") != acc:
        raise Unsupported("%s: accumulator declaration" % name)
    pow_arg = [None]

    def ref(nm, node):
        if nm == acc:
            return E("var", "f32", lean="acc")
        raise Unsupported("reference to %s in %s" % (nm, name))

    def call(node, tr):
        callee = node["inner"][0]
        if node["kind"] == "CallExpr":
            fn = (refs(callee) or [None])[0]
            if fn != "pow":
                raise Unsupported("call to %s in %s" % (fn, name))
            args = node["inner"][1:]
            ex = [int(l["value"]) for l in find(args[1], lambda m: m.get("kind") == "IntegerLiteral", [])]
            if ex != [2]:
                raise Unsupported("pow exponent is not 2")
            pow_arg[0] = tr.tr(args[0])
            return E("var", "f32", lean="sq")
        if node["kind"] == "CXXMemberCallExpr":
            fn = (members(callee) or [None])[0]
            if fn == "_qp":
                return E("var", "f32", lean="qp_i")
            if fn == "getDelta":
                return E("var", "f32", lean="delta")
            raise Unsupported("member call %s in %s" % (fn, name))
        ms = members(node)
        if ms == ["_projection"]:
            return E("var", "f32", lean="proj_i")
        if ms == ["_moment"]:
            lits = [int(l["value"]) for l in find(node, lambda m: m.get("kind") == "IntegerLiteral", [])]
            if lits != [0]:
                raise Unsupported("_moment[axis][%r][n] in the summand" % lits)
            return E("var", "f32", lean="mean")
        if ms == ["_filling"]:
            return E("var", "f32", lean="fill")
        raise Unsupported("operator call in %s: %r" % (name, ms))
    tr = ExprTranslator(ref, call)
    init = emit(tr.tr(decl[0]["inner"][0]["inner"][-1]))
    ifs = [s for s in stmts if s["kind"] == "IfStmt"]
    if len(ifs) != 1:
        raise Unsupported("%s: guard" % name)
    cond = strip([c for c in ifs[0]["inner"] if c][0])
    if cond["kind"] != "BinaryOperator" or cond["opcode"] != ">" or "_filling_set" not in members(cond):
        raise Unsupported("%s: guard is not _filling_set[n] > 0" % name)
    blk = [c for c in ifs[0]["inner"] if c][1]
    bst = [strip(s) for s in blk["inner"]]
    if len(bst) != 2 or bst[0]["kind"] != "ForStmt":
        raise Unsupported("%s: guarded block" % name)
    inner = bst[0]["inner"][-1]
    ist = inner["inner"] if inner["kind"] == "CompoundStmt" else [inner]
    a = strip(ist[0])
    while a["kind"] == "ExprWithCleanups":
        a = strip(a["inner"][0])
    if len(ist) != 1 or a["kind"] != "CompoundAssignOperator" or a["opcode"] != "+=" or refs(a["inner"][0]) != [acc]:
        raise Unsupported("%s: summation statement" % name)
    term = tr.tr(a["inner"][1])
    s2 = bst[1]
    while s2["kind"] == "ExprWithCleanups":
        s2 = strip(s2["inner"][0])
    if s2["kind"] != "CompoundAssignOperator" or s2["opcode"] != "*=" or refs(s2["inner"][0]) != [acc]:
        raise Unsupported("%s: scaling statement" % name)
    scale = emit(tr.tr(s2["inner"][1]))
    # result goes to _moment[axis][moment_index][n]
    outs = [s for s in stmts if s["kind"] == "BinaryOperator" and s["opcode"] == "=" and "_moment" in members(s["inner"][0])]
    if len(outs) != 1 or refs(outs[0]["inner"][1]) != [acc]:
        raise Unsupported("%s: result assignment" % name)
    lits = [int(l["value"]) for l in find(outs[0]["inner"][0], lambda m: m.get("kind") == "IntegerLiteral", [])]
    if lits != [moment_index]:
        raise Unsupported("%s: result stored in _moment[axis][%r]" % (name, lits))
    return init, term, scale, pow_arg[0]


def generate():
    ai, at, asc, ap = analyse("average", "avg", 0)
    if ap is not None:
        raise Unsupported("average uses pow")
    vi, vt, vsc, vp = analyse("variance", "var", 1)
    if vp is None:
        raise Unsupported("variance has no pow(·,2)")
    # the variance summand must be proj * pow(dev, 2)
    def base(e):
        while e.kind == "cast":
            e = e.a
        return e
    if not (vt.kind == "bin" and vt.op == "*" and base(vt.a).kind == "var" and base(vt.a).lean == "proj_i"
            and base(vt.b).kind == "var" and base(vt.b).lean == "sq"):
        raise Unsupported("variance summand is not projection * pow(deviation, 2)")
    # variance() must refresh the mean first
    first = strip(method("variance")["inner"][0])
    if "average" not in members(first):
        raise Unsupported("variance() does not start with average(axis)")
    out = ["/- GENERATED by translator/gen_moments.py from %s (sha256 %s).\n   Do not edit: overwritten by every check run. -/"
           % (SRC, source_hash(SRC)),
           "import InovesaModel.Model.Scalar\nnamespace Inovesa.Gen\nopen Inovesa\n",
           "variable {α : Type} [Arith α]\n",
           "/-- `PhaseSpace::average`: start value, summand and final scale of the first moment of a projection\n"
           "    (`proj_i` = projection sample, `qp_i` = its coordinate, `delta` = cell size, `fill` = measured charge `_filling[n]`) -/",
           "def avgInit : α := %s" % ai,
           "def avgTerm (proj_i qp_i : α) : α := %s" % emit(at),
           "def avgScale (delta fill : α) : α := %s\n" % asc,
           "/-- `PhaseSpace::variance`: start value, the deviation squared by `std::pow(·,2)` (the summand is\n"
           "    `proj_i * pow(varDev, 2)`), and the final scale; `mean` = `_moment[axis][0][n]` just refreshed by `average` -/",
           "def varInit : α := %s" % vi,
           "def varDev (qp_i mean : α) : α := %s" % emit(vp),
           "def varScale (delta fill : α) : α := %s\n" % vsc,
           "end Inovesa.Gen"]
    return "\n".join(out) + "\n"


if __name__ == "__main__":
    print(generate())
