"""G9h: makeImpedance (src/Z/ImpedanceFactory.cpp) -> InovesaModel/Gen/Factory.lean

The body is a tree of `if (COND) { ... }` around statements `*rv += Class(ARGS);`.  Emitted: the locals with their
defining expressions, and for every `+=` the conjunction of (condition text, branch) on its path, the class added and
the texts of its arguments; plus whether a null pointer is returned when nothing was added.  Expression texts are a
canonical rendering of the AST (not the source spelling).  Props/TieFactory.lean proves that the hand model
`factoryContributions` selects exactly these additions for all 64 switch settings, and that every contribution is
built from the arguments the model's builders assume.  Fail-closed.
"""
from cxxast import Unsupported, ast_of, source_hash
from gen_rf import find

SRC = "src/Z/ImpedanceFactory.cpp"


def unwrap(node):
    while node["kind"] in ("ImplicitCastExpr", "ExprWithCleanups", "MaterializeTemporaryExpr", "ParenExpr", "ConstantExpr",
                           "CXXBindTemporaryExpr", "CXXFunctionalCastExpr", "CXXStaticCastExpr"):
        node = node["inner"][-1]
    return node


def text(node):
    node = unwrap(node)
    k = node["kind"]
    if k == "IntegerLiteral":
        return node["value"]
    if k == "FloatingLiteral":
        return node["value"]
    if k == "StringLiteral":
        return node["value"]
    if k == "DeclRefExpr":
        d = node["referencedDecl"]
        nm = d["name"]
        return "physcons::c" if nm == "c" and d.get("kind") == "VarDecl" and "double" in (d.get("type") or {}).get("qualType", "") and nm == "c" else nm
    if k == "UnaryOperator":
        return "%s%s" % (node["opcode"], text(node["inner"][0]))
    if k == "BinaryOperator":
        return "(%s %s %s)" % (text(node["inner"][0]), node["opcode"], text(node["inner"][1]))
    if k == "CallExpr":
        fn = text(node["inner"][0])
        return "%s(%s)" % (fn, ", ".join(text(a) for a in node["inner"][1:]))
    if k == "CXXOperatorCallExpr":
        op = text(node["inner"][0]).replace("operator", "")
        args = [text(a) for a in node["inner"][1:]]
        if len(args) == 2:
            return "(%s %s %s)" % (args[0], op, args[1])
        return "%s(%s)" % (op, ", ".join(args))
    if k == "CXXNullPtrLiteralExpr":
        return "nullptr"
    if k == "CXXConstructExpr" and len(node.get("inner", [])) == 1:
        return text(node["inner"][0])
    raise Unsupported("expression node %s in makeImpedance" % k)


def lean_str(s):
    return '"' + s.replace("\\", "\\\\").replace('"', '\\"') + '"'


def generate():
    docs = [d for d in ast_of(SRC, "makeImpedance") if d.get("kind") == "FunctionDecl" and d.get("name") == "makeImpedance"
            and any(c.get("kind") == "CompoundStmt" for c in d.get("inner", []))]
    if len(docs) != 1:
        raise Unsupported("makeImpedance definition")
    body = [c for c in docs[0]["inner"] if c.get("kind") == "CompoundStmt"][0]
    locals_, adds, nulls, marks = [], [], [], []

    def walk(stmts, path):
        for st in stmts:
            s = st
            while s["kind"] in ("ExprWithCleanups",):
                s = s["inner"][0]
            k = s["kind"]
            if k == "DeclStmt":
                for v in s["inner"]:
                    if v.get("kind") == "VarDecl" and "inner" in v and v["name"] not in ("rv", "impedance_changed"):
                        locals_.append((v["name"], text(v["inner"][-1]), list(path)))
                    elif v.get("kind") == "VarDecl" and v["name"] == "rv":
                        ce = find(v, lambda m: m.get("kind") == "CallExpr", [])
                        args = [text(a) for a in ce[0]["inner"][1:]] if ce else []
                        locals_.append(("rv", "Impedance(%s)" % ", ".join(args), list(path)))
            elif k == "IfStmt":
                parts = [c for c in s["inner"] if c]
                cond = text(parts[0])
                then = parts[1]
                walk(then["inner"] if then["kind"] == "CompoundStmt" else [then], path + [(cond, True)])
                if len(parts) > 2:
                    els = parts[2]
                    walk(els["inner"] if els["kind"] == "CompoundStmt" else [els], path + [(cond, False)])
            elif k in ("CXXOperatorCallExpr",):
                op = find(s["inner"][0], lambda m: m.get("kind") == "DeclRefExpr", [])
                opn = op[0]["referencedDecl"]["name"] if op else ""
                if opn == "operator+=":
                    rhs = s["inner"][2]
                    ce = [c for c in find(rhs, lambda m: m.get("kind") in ("CXXTemporaryObjectExpr", "CXXConstructExpr"), [])
                          if "inner" in c]
                    ce = [c for c in ce if (c.get("type") or {}).get("qualType", "").startswith("vfps::") or
                          (c.get("type") or {}).get("qualType", "") in ("Impedance", "vfps::Impedance")]
                    if not ce:
                        raise Unsupported("`*rv +=` of something that is not a constructor call")
                    c0 = ce[0]
                    cls = (c0.get("type") or {}).get("qualType", "").replace("vfps::", "")
                    args = [text(a) for a in c0["inner"] if a.get("kind") != "CXXDefaultArgExpr"]
                    adds.append((list(path), cls, args))
                elif opn == "operator=":
                    if "nullptr" in text(s["inner"][2]):
                        nulls.append(list(path))
                    else:
                        raise Unsupported("assignment to rv other than nullptr")
                else:
                    raise Unsupported("operator call %s in makeImpedance" % opn)
            elif k == "BinaryOperator" and s["opcode"] == "=":
                if text(s["inner"][0]) != "impedance_changed":
                    raise Unsupported("assignment to %s" % text(s["inner"][0]))
                if [b for b in find(s["inner"][1], lambda m: m.get("kind") == "CXXBoolLiteralExpr", []) if b.get("value") is True]:
                    marks.append(list(path))
                else:
                    raise Unsupported("impedance_changed is assigned something else than true")
            elif k == "CallExpr":
                if "printText" not in text(s["inner"][0]):
                    raise Unsupported("call to %s" % text(s["inner"][0]))
            elif k == "CXXMemberCallExpr" or k == "ReturnStmt" or k == "NullStmt":
                continue
            else:
                raise Unsupported("statement %s in makeImpedance" % k)
    walk(body["inner"], [])
    if nulls != [[("!impedance_changed", True)]]:
        raise Unsupported("the null-pointer return is not guarded by `!impedance_changed` only: %r" % nulls)
    # every += lies in a block (or a sub-block of one) that sets impedance_changed = true
    marked = all(any(q[:len(m)] == m for m in marks) for q, _c, _a in adds)
    out = ["/- GENERATED by translator/gen_factory.py from %s (sha256 %s).\n   Do not edit: overwritten by every check run. -/"
           % (SRC, source_hash(SRC)),
           "namespace Inovesa.Gen\n",
           "/-- one `*rv += Class(args)` of makeImpedance with the conditions on its path -/",
           "structure FactoryAdd where\n  conds : List (String × Bool)\n  cls : String\n  args : List String\n  deriving Repr, DecidableEq\n",
           "/-- locals of makeImpedance: name, defining expression -/",
           "def factoryLocals : List (String × String) := [%s]\n" % ", ".join("(%s, %s)" % (lean_str(n), lean_str(e)) for n, e, _ in locals_),
           "/-- the additions, in program order -/",
           "def factoryAdds : List FactoryAdd := [\n%s]\n" % ",\n".join(
               "  { conds := [%s], cls := %s, args := [%s] }" % (
                   ", ".join("(%s, %s)" % (lean_str(c), "true" if b else "false") for c, b in p), lean_str(cls),
                   ", ".join(lean_str(a) for a in args)) for p, cls, args in adds),
           "/-- does every addition lie in a block that sets `impedance_changed = true`?  and the guard of the null return -/",
           "def factoryEveryAddMarked : Bool := %s" % ("true" if marked else "false"),
           "def factoryNullGuard : List (String × Bool) := [%s]\n" % ", ".join("(%s, %s)" % (lean_str(c), "true" if b else "false") for c, b in nulls[0]),
           "end Inovesa.Gen"]
    return "\n".join(out) + "\n"


if __name__ == "__main__":
    print(generate())
