"""G2: FokkerPlanckMap constructor -> InovesaModel/Gen/FPStencil.lean

Symbolic execution of the constructor body (src/SM/FokkerPlanckMap.cpp) for every
DerivationType case and every FPType value, with the loop variable `j` symbolic.
Supported statement forms (anything else -> Unsupported, fail-closed):
    const T x = <expr>;                         (scalar locals, inlined)
    _hinfo[ROW*_ip + K] = {IDX, W};             (ROW in {const, j, _ysize-c})
    _hinfo[ROW*_ip + K].weight += <expr>;
    if (_fptype != A && _fptype != B) { ... }
    for (meshindex_t j = LO; j < HI; j++) { ... }
    switch (dt) { case ...: ... break; }
The result is a list of *row writers* per derivation type, in program order
(`later writers overwrite earlier ones`), each writing complete rows:
    zero rows (constant row index from the start / from the end),
    loops with bounds  LO in {const c, trunc(ycenter)},  HI in {_ysize-c, (float)j < ycenter}
"""
from fractions import Fraction
from cxxast import (Unsupported, ast_of, body_of, strip, ExprTranslator, E, emit,
                    source_hash, ctype)

SRC = "src/SM/FokkerPlanckMap.cpp"
FPTYPES = {"none": 0, "damping_only": 1, "diffusion_only": 2, "full": 3}
W32 = 4294967296


def name_of(node):
    node = strip(node)
    while node["kind"] == "ImplicitCastExpr":
        node = strip(node["inner"][-1])
    if node["kind"] == "DeclRefExpr":
        return node["referencedDecl"]["name"]
    if node["kind"] == "MemberExpr":
        return node["name"]
    return None


def strip_casts(node):
    node = strip(node)
    while node["kind"] in ("ImplicitCastExpr", "CXXStaticCastExpr", "CXXFunctionalCastExpr",
                           "CStyleCastExpr") and node.get("castKind") in (
                               "IntegralCast", "NoOp", "LValueToRValue", "IntegralToFloating",
                               "FloatingToIntegral"):
        node = strip(node["inner"][-1])
    return node


class IntExpr:
    """affine integer expression  a*j + b*ysize + c*ip + d*(j*ip) + e*(ysize*ip) ... kept simple:
    dict monomial -> coeff with monomials '', 'j', 'ys', 'ip', 'j*ip', 'ys*ip'."""

    def __init__(self, d=None):
        self.d = {k: v for k, v in (d or {}).items() if v != 0}

    def __add__(self, o):
        r = dict(self.d)
        for k, v in o.d.items():
            r[k] = r.get(k, 0) + v
        return IntExpr(r)

    def __neg__(self):
        return IntExpr({k: -v for k, v in self.d.items()})

    def __sub__(self, o):
        return self + (-o)

    def __mul__(self, o):
        r = {}
        for k1, v1 in self.d.items():
            for k2, v2 in o.d.items():
                ms = sorted([m for m in (k1.split("*") + k2.split("*")) if m])
                if len(ms) > 2:
                    raise Unsupported("index expression degree > 2")
                k = "*".join(ms)
                r[k] = r.get(k, 0) + v1 * v2
        return IntExpr(r)

    def const(self):
        if set(self.d) <= {""}:
            return self.d.get("", 0)
        return None


def int_expr(node):
    node = strip_casts(node)
    k = node["kind"]
    if k == "IntegerLiteral":
        return IntExpr({"": int(node["value"])})
    if k in ("DeclRefExpr", "MemberExpr"):
        nm = name_of(node)
        if nm == "j":
            return IntExpr({"j": 1})
        if nm == "_ysize":
            return IntExpr({"ys": 1})
        if nm == "_ip":
            return IntExpr({"ip": 1})
        raise Unsupported("integer variable %s" % nm)
    if k == "BinaryOperator":
        a, b = int_expr(node["inner"][0]), int_expr(node["inner"][1])
        op = node["opcode"]
        if op == "+":
            return a + b
        if op == "-":
            return a - b
        if op == "*":
            return a * b
        raise Unsupported("integer op " + op)
    raise Unsupported("integer expression node " + k)


def decode_slot(ie):
    """index into _hinfo -> (row descriptor, slot k).  row: ('c',c) | ('j',) | ('end',c)"""
    d = dict(ie.d)
    k = d.pop("", 0)
    if not d:
        # constant: row = k // ip unknown at this point; caller resolves with ip
        return ("const", k)
    if d == {"ip": 1}:
        return ("rowc", 1, k)
    if d == {"ip*j": 1}:
        return ("j", k)
    if set(d) == {"ip*ys", "ip"} and d["ip*ys"] == 1 and d["ip"] < 0:
        return ("end", -d["ip"], k)
    raise Unsupported("unsupported _hinfo index form %r" % ie.d)


def unwrap(node):
    node = strip(node)
    while node["kind"] in ("ExprWithCleanups", "MaterializeTemporaryExpr", "ImplicitCastExpr", "CXXStaticCastExpr",
                           "CXXFunctionalCastExpr", "CXXBindTemporaryExpr", "ParenExpr"):
        node = strip(node["inner"][-1])
    return node


def parse_ycenter(init):
    """initialiser of `ycenter`:  <axis(1)>->zerobin()                          -> None (unclamped)
                                   std::min(std::max(zerobin(), LO), _ysize-HI) -> (LO, HI)"""
    node = unwrap(init)
    if node["kind"] == "CXXMemberCallExpr" and strip(node["inner"][0]).get("name") == "zerobin":
        return None
    if node["kind"] == "CallExpr" and name_of(node["inner"][0]) == "min" and len(node["inner"]) == 3:
        inner, hi = unwrap(node["inner"][1]), node["inner"][2]
        if inner["kind"] == "CallExpr" and name_of(inner["inner"][0]) == "max" and len(inner["inner"]) == 3:
            zb, lo = unwrap(inner["inner"][1]), unwrap(inner["inner"][2])
            if not (zb["kind"] == "CXXMemberCallExpr" and strip(zb["inner"][0]).get("name") == "zerobin"):
                raise Unsupported("ycenter: clamped quantity is not zerobin()")
            if lo["kind"] != "IntegerLiteral":
                raise Unsupported("ycenter: lower clamp is not an integer literal")
            hie = int_expr(unwrap(hi))
            if set(hie.d) <= {"ys", ""} and hie.d.get("ys") == 1 and hie.d.get("", 0) <= 0:
                return (int(lo["value"]), -hie.d.get("", 0))
            raise Unsupported("ycenter: upper clamp is not _ysize - c")
    raise Unsupported("ycenter initialiser form")


class FPExec:
    def __init__(self, fptype_val, ip):
        self.fpt = fptype_val
        self.ip = ip
        self.locals = {}
        self.writers = []       # program-ordered row writers
        self.cur_rows = None    # rows being assembled in straight-line code: key -> {k: [idx, w]}
        self.order = []
        self.tr = ExprTranslator(self.ref, self.call)

    # ---- scalar expressions
    def ref(self, name, node):
        if name in self.locals:
            return self.locals[name]
        if name == "e1":
            return E("var", "f32", lean="e1")
        raise Unsupported("reference to %s in FokkerPlanckMap ctor" % name)

    def call(self, node, tr):
        callee = strip(node["inner"][0])
        nm = callee.get("name")
        if node["kind"] == "CXXMemberCallExpr" and nm == "getDelta":
            arg = strip_casts(node["inner"][1])
            if arg["kind"] == "IntegerLiteral" and arg["value"] == "1":
                return E("var", "f32", lean="delta")
            raise Unsupported("getDelta(axis != 1)")
        if node["kind"] == "CXXMemberCallExpr" and nm == "p":
            arg = int_expr(node["inner"][1])
            if arg.d == {"j": 1}:
                return E("var", "f32", lean="(p j)")
            raise Unsupported("p(<not j>)")
        if node["kind"] == "CXXMemberCallExpr" and nm == "zerobin":
            return E("var", "f32", lean="ycenter")
        raise Unsupported("call to %s" % nm)

    # ---- statements
    def cond_value(self, node):
        node = strip(node)
        if node["kind"] == "BinaryOperator" and node["opcode"] == "&&":
            return self.cond_value(node["inner"][0]) and self.cond_value(node["inner"][1])
        if node["kind"] == "BinaryOperator" and node["opcode"] == "||":
            return self.cond_value(node["inner"][0]) or self.cond_value(node["inner"][1])
        if node["kind"] == "BinaryOperator" and node["opcode"] in ("!=", "=="):
            l, r = strip_casts(node["inner"][0]), strip_casts(node["inner"][1])
            if name_of(l) == "_fptype" and r["kind"] == "DeclRefExpr":
                v = FPTYPES.get(r["referencedDecl"]["name"])
                if v is None:
                    raise Unsupported("FPType enumerator")
                return (self.fpt != v) if node["opcode"] == "!=" else (self.fpt == v)
        raise Unsupported("condition form")

    def target(self, node):
        """ArraySubscriptExpr _hinfo[...] -> key"""
        node = strip(node)
        if node["kind"] != "ArraySubscriptExpr" or name_of(node["inner"][0]) != "_hinfo":
            raise Unsupported("write target is not _hinfo[...]")
        return decode_slot(int_expr(node["inner"][1]))

    def rowkey(self, slot):
        if slot[0] == "const":
            return ("c", slot[1] // self.ip), slot[1] % self.ip
        if slot[0] == "rowc":
            return ("c", slot[1]), slot[2]
        if slot[0] == "j":
            return ("j",), slot[1]
        if slot[0] == "end":
            return ("end", slot[1]), slot[2]
        raise Unsupported("slot")

    def stmt(self, node, in_loop):
        node = strip(node)
        k = node["kind"]
        if k == "CompoundStmt":
            for s in node.get("inner", []):
                self.stmt(s, in_loop)
            return
        if k == "DeclStmt":
            for v in node["inner"]:
                if v["kind"] != "VarDecl" or "inner" not in v:
                    raise Unsupported("declaration form")
                if ctype(v) != "f32":
                    raise Unsupported("local %s is not float" % v["name"])
                if v["name"] == "ycenter":
                    self.ycenter_clamp = parse_ycenter(v["inner"][0])
                    self.locals["ycenter"] = E("var", "f32", lean="ycenter")
                    continue
                self.locals[v["name"]] = self.tr.tr(v["inner"][0])
            return
        if k == "IfStmt":
            inner = [c for c in node["inner"] if c]
            if len(inner) != 2:
                raise Unsupported("if with else")
            if self.cond_value(inner[0]):
                self.stmt(inner[1], in_loop)
            return
        if k == "CXXOperatorCallExpr":
            if name_of(node["inner"][0]) != "operator=":
                raise Unsupported("operator call")
            key, slot = self.rowkey(self.target(node["inner"][1]))
            init = strip(node["inner"][2])
            if init["kind"] != "InitListExpr" or len(init["inner"]) != 2:
                raise Unsupported("hi initialiser")
            idx = int_expr(init["inner"][0])
            w = self.tr.tr(init["inner"][1])
            self.write(key, slot, idx, w, in_loop)
            return
        if k == "CompoundAssignOperator" and node["opcode"] == "+=":
            lhs = strip(node["inner"][0])
            if lhs["kind"] != "MemberExpr" or lhs["name"] != "weight":
                raise Unsupported("+= target")
            key, slot = self.rowkey(self.target(lhs["inner"][0]))
            rows = self.cur_rows
            if key not in rows or slot not in rows[key]:
                raise Unsupported("+= on a slot not initialised in the same block")
            old = rows[key][slot][1]
            rows[key][slot][1] = E("bin", "f32", op="+", a=old, b=self.tr.tr(node["inner"][1]))
            return
        if k == "ForStmt":
            if in_loop:
                raise Unsupported("nested loop")
            self.flush()
            init, _, cond, inc, body = node["inner"]
            v = init["inner"][0]
            if v.get("name") != "j":
                raise Unsupported("loop variable")
            lo_node = strip_casts(v["inner"][0])
            if lo_node["kind"] == "IntegerLiteral":
                lo = ("const", int(lo_node["value"]))
            elif name_of(lo_node) == "ycenter":
                lo = ("trunc_ycenter",)
            else:
                raise Unsupported("loop start form")
            cond = strip(cond)
            if cond["kind"] != "BinaryOperator" or cond["opcode"] != "<":
                raise Unsupported("loop condition")
            lhs = strip_casts(cond["inner"][0])
            if name_of(lhs) != "j":
                raise Unsupported("loop condition lhs")
            rhs = strip_casts(cond["inner"][1])
            if name_of(rhs) == "ycenter":
                if ctype(strip(cond["inner"][0])) != "f32":
                    raise Unsupported("j < ycenter is not a float comparison")
                hi = ("lt_ycenter",)
            else:
                ie = int_expr(cond["inner"][1])
                if set(ie.d) <= {"ys", ""} and ie.d.get("ys") == 1:
                    hi = ("end", -ie.d.get("", 0))
                else:
                    raise Unsupported("loop bound form")
            inc = strip(inc)
            if inc["kind"] != "UnaryOperator" or inc["opcode"] != "++":
                raise Unsupported("loop increment")
            saved = dict(self.locals)
            self.cur_rows = {}
            self.order = []
            self.stmt(body, True)
            rows = self.cur_rows
            if list(rows) != [("j",)]:
                raise Unsupported("loop body writes rows other than row j")
            self.writers.append(("loop", lo, hi, self.complete(rows[("j",)])))
            self.cur_rows = {}
            self.order = []
            self.locals = saved
            return
        if k in ("BreakStmt", "NullStmt"):
            return
        raise Unsupported("statement kind %s in FokkerPlanckMap ctor" % k)

    def write(self, key, slot, idx, w, in_loop):
        if self.cur_rows is None:
            self.cur_rows = {}
        if key not in self.cur_rows:
            self.cur_rows[key] = {}
            self.order.append(key)
        self.cur_rows[key][slot] = [idx, w]

    def complete(self, row):
        if sorted(row) != list(range(self.ip)):
            raise Unsupported("row written incompletely: slots %r of %d" % (sorted(row), self.ip))
        return [row[k] for k in range(self.ip)]

    def flush(self):
        if self.cur_rows:
            for key in self.order:
                self.writers.append(("row", key, self.complete(self.cur_rows[key])))
        self.cur_rows = {}
        self.order = []


def lean_idx(ie):
    """Lean Nat term of an affine index expression in j (uint32 wrap made explicit)."""
    d = dict(ie.d)
    c = d.pop("", 0)
    if not d:
        if c < 0:
            raise Unsupported("negative constant index")
        return "%d" % c
    if d == {"j": 1}:
        if c == 0:
            return "j"
        if c > 0:
            return "((j + %d) %% %d)" % (c, W32)
        return "((j + %d - %d) %% %d)" % (W32, -c, W32)
    raise Unsupported("index value form %r" % ie.d)


def lean_row(row):
    return "[" + ", ".join("(%s, %s)" % (lean_idx(i), emit(w)) for i, w in row) + "]"


def lean_bound(b):
    if b[0] == "const":
        return ".const %d" % b[1]
    if b[0] == "trunc_ycenter":
        return ".truncYc"
    if b[0] == "lt_ycenter":
        return ".ltYc"
    if b[0] == "end":
        return ".fromEnd %d" % b[1]
    raise Unsupported("bound")


def generate():
    docs = ast_of(SRC, "FokkerPlanckMap")
    ctors = [d for d in docs if d["kind"] == "CXXConstructorDecl"
             and any(c.get("kind") == "CompoundStmt" for c in d.get("inner", []))]
    if len(ctors) != 1:
        raise Unsupported("FokkerPlanckMap constructor not found uniquely")
    ctor = ctors[0]
    body = body_of(ctor)
    stmts = [s for s in body["inner"]]
    sw = [s for s in stmts if s["kind"] == "SwitchStmt"]
    pre = [s for s in stmts if s["kind"] != "SwitchStmt"]
    if len(sw) != 1 or stmts[-1]["kind"] != "SwitchStmt":
        raise Unsupported("constructor body: expected locals followed by one switch")
    if name_of(strip_casts(sw[0]["inner"][0])) != "dt":
        raise Unsupported("switch is not on dt")
    # base-class initialiser: SourceMap(in,out,1,ysize,dt,dt,oclh) => _ip = dt
    comp = sw[0]["inner"][1]
    cases = {}
    cur = None
    for st in comp["inner"]:
        if st["kind"] == "CaseStmt":
            cur = int(st["inner"][0]["value"])
            if cur in cases:
                raise Unsupported("duplicate case")
            cases[cur] = [st["inner"][1]]
        elif st["kind"] == "BreakStmt":
            cur = None
        elif st["kind"] == "DefaultStmt":
            raise Unsupported("default case")
        else:
            if cur is None:
                raise Unsupported("statement outside case")
            cases[cur].append(st)
    out = []
    out.append("/- GENERATED by translator/gen_fp.py from %s (sha256 %s).\n"
               "   Do not edit: overwritten by every check run. -/" % (SRC, source_hash(SRC)))
    out.append("import InovesaModel.Model.Scalar\nnamespace Inovesa.Gen\nopen Inovesa\n")
    out.append("/-- loop / row bounds occurring in the constructor -/")
    out.append("inductive FPBound where\n  | const (c : Nat)      -- literal\n"
               "  | fromEnd (c : Nat)    -- `_ysize - c`\n"
               "  | ltYc                 -- loop runs while `(float)j < ycenter`\n"
               "  | truncYc              -- loop starts at `(meshindex_t)ycenter`\n  deriving Repr, DecidableEq\n")
    out.append("/-- a statement group of the constructor writing complete table rows, in program order -/")
    out.append("inductive FPWriter where\n  | row (r : FPBound) (body : Nat)          -- one row\n"
               "  | loop (lo hi : FPBound) (body : Nat)     -- rows lo ≤ j < hi\n  deriving Repr, DecidableEq\n")
    out.append("variable {α : Type} [Arith α]\n")
    skeletons = {}
    bodies = []   # (dt, fpt, bodyid, leanrow)
    clamps = set()
    for dt in sorted(cases):
        per_fpt = {}
        for fname, fpt in sorted(FPTYPES.items(), key=lambda x: x[1]):
            ex = FPExec(fpt, dt)
            for s in pre:
                ex.stmt(s, False)
            ex.cur_rows = {}
            for s in cases[dt]:
                ex.stmt(s, False)
            ex.flush()
            per_fpt[fpt] = ex.writers
            clamps.add(getattr(ex, "ycenter_clamp", "undeclared"))
        # the skeleton must not depend on fptype
        skel0 = None
        for fpt, ws in per_fpt.items():
            skel = []
            for w in ws:
                if w[0] == "row":
                    key = w[1]
                    b = ("const", key[1]) if key[0] == "c" else ("end", key[1])
                    skel.append(("row", b))
                else:
                    skel.append(("loop", w[1], w[2]))
            if skel0 is None:
                skel0 = skel
            elif skel != skel0:
                raise Unsupported("statement skeleton depends on FPType")
        skeletons[dt] = skel0
        for fpt, ws in per_fpt.items():
            for bid, w in enumerate(ws):
                bodies.append((dt, fpt, bid, lean_row(w[-1])))
    if len(clamps) != 1 or "undeclared" in clamps:
        raise Unsupported("ycenter is not declared once before the switch")
    clamp = clamps.pop()
    out.append("/-- how the constructor derives `ycenter` (the row where the 4-point stencil changes sides) from the\n"
               "    energy axis' zero bin: `none` = taken as it is; `some (lo, hi)` = clamped to `[lo, _ysize - hi]`\n"
               "    (`std::min(std::max(zerobin, lo), _ysize - hi)`) -/")
    out.append("def fpYcenterClamp : Option (Nat × Nat) := %s\n" % (
        "none" if clamp is None else "some (%d, %d)" % clamp))
    out.append("/-- derivation types handled by the constructor's switch (= entries per row `_ip`) -/")
    out.append("def fpDerivTypes : List Nat := [%s]\n" % ", ".join(str(d) for d in sorted(cases)))
    out.append("/-- program-ordered row writers of the constructor for derivation type `dt` -/")
    out.append("def fpWriters (dt : Nat) : List FPWriter :=\n  match dt with")
    for dt in sorted(cases):
        items = []
        for bid, s in enumerate(skeletons[dt]):
            if s[0] == "row":
                items.append(".row (%s) %d" % (lean_bound(s[1]), bid))
            else:
                items.append(".loop (%s) (%s) %d" % (lean_bound(s[1]), lean_bound(s[2]), bid))
        out.append("  | %d => [%s]" % (dt, ",\n         ".join(items)))
    out.append("  | _ => []\n")
    out.append("/-- table row (index, weight) written by writer `body` of derivation type `dt` for\n"
               "    Fokker-Planck type `fptype` at row `j`; `e1` damping decrement, `delta` the energy\n"
               "    cell size `in->getDelta(1)`, `p j` the energy coordinate `in->p(j)`. -/")
    out.append("def fpBody (dt fptype body : Nat) (e1 delta : α) (p : Nat → α) (j : Nat) : List (Nat × α) :=")
    out.append("  match dt, fptype, body with")
    for dt, fpt, bid, row in bodies:
        out.append("  | %d, %d, %d => %s" % (dt, fpt, bid, row))
    out.append("  | _, _, _ => []\n")
    out.append("end Inovesa.Gen\n")
    return "\n".join(out)


if __name__ == "__main__":
    print(generate())
