"""G11: HDF5File::readPhaseSpace (src/IO/HDF5File.cpp) -> InovesaModel/Gen/H5Read.lean

The integer logic of the start-file reader: the refusal test in front of the record arithmetic, the choice of the
record (`use_step = (ps_dims[0]+use_step)%ps_dims[0]`, an int64 added to an unsigned 64-bit number: the wrap is
explicit in the generated term), the `switch (rank)` with the grid size / bunch count / hyperslab offset / extent of
each case, the filling of the created phase space, the arguments of `PhaseSpace::setSize` and the final size test.
Tied to Model/H5Read.lean in Props/TieH5Read.lean.  Fail-closed.
"""
from cxxast import Unsupported, ast_of, source_hash, qual
from gen_rf import find
from gen_psloops import unwrap, stmts, body

SRC = "src/IO/HDF5File.cpp"
U64 = "18446744073709551616"


def is_u64(node):
    t = node.get("type", {})
    return "unsigned long" in (t.get("desugaredQualType", "") + t.get("qualType", "")) or "hsize_t" in t.get("qualType", "")


def iexpr(node):
    """integer expression over rank, useStep (Int), dims k, psSize, nBunches -> Lean term of type Int"""
    n = unwrap(node)
    k = n.get("kind")
    if k == "IntegerLiteral":
        return n["value"]
    if k == "DeclRefExpr":
        nm = n["referencedDecl"]["name"]
        m = {"use_step": "useStep", "rank": "(rank : Int)", "ps_size": "(psSize : Int)", "nBunches": "(nBunches : Int)"}
        if nm in m:
            return m[nm]
        raise Unsupported("reference to %s" % nm)
    if k == "CXXOperatorCallExpr":
        base = unwrap(n["inner"][1])
        idx = unwrap(n["inner"][2])
        if base.get("referencedDecl", {}).get("name") == "ps_dims" and idx.get("kind") == "IntegerLiteral":
            return "((dims %s : Nat) : Int)" % idx["value"]
        raise Unsupported("subscript")
    if k == "BinaryOperator" and n["opcode"] in ("+", "%", "-", "*"):
        a, b = iexpr(n["inner"][0]), iexpr(n["inner"][1])
        if n["opcode"] == "%":
            return "(%s %% %s)" % (a, b)
        if is_u64(n):
            # unsigned 64-bit arithmetic: operands converted modulo 2^64, result reduced modulo 2^64
            return "(((%s %% %s) %s (%s %% %s)) %% %s)" % (a, U64, n["opcode"], b, U64, U64)
        return "(%s %s %s)" % (a, n["opcode"], b)
    raise Unsupported("integer expression %s" % k)


def bexpr(node):
    n = unwrap(node)
    if n.get("kind") == "BinaryOperator" and n["opcode"] in ("||", "&&"):
        return "(%s %s %s)" % (bexpr(n["inner"][0]), n["opcode"], bexpr(n["inner"][1]))
    if n.get("kind") == "BinaryOperator" and n["opcode"] in ("<", "==", "<=", "!=", ">", ">="):
        op = {"==": "==", "!=": "!="}.get(n["opcode"], n["opcode"])
        return "(decide (%s %s %s))" % (iexpr(n["inner"][0]), {"==": "=", "!=": "≠"}.get(op, op), iexpr(n["inner"][1]))
    raise Unsupported("condition %s" % n.get("kind"))


def init_list(node):
    il = find(node, lambda m: m.get("kind") == "InitListExpr", [])
    if not il:
        raise Unsupported("initialiser list")
    return [iexpr(x) for x in il[-1]["inner"]]


def assigned(st):
    """(name, node of the right-hand side) of `name = …` (also for std::vector::operator=)"""
    s = unwrap(st)
    if s.get("kind") == "BinaryOperator" and s["opcode"] == "=":
        l = unwrap(s["inner"][0])
        return l.get("referencedDecl", {}).get("name"), s["inner"][1]
    if s.get("kind") == "CXXOperatorCallExpr":
        c = unwrap(s["inner"][0])
        if c.get("referencedDecl", {}).get("name") == "operator=":
            l = unwrap(s["inner"][1])
            return l.get("referencedDecl", {}).get("name"), s["inner"][2]
    return None, None


def generate():
    docs = [d for d in ast_of(SRC, "readPhaseSpace") if d.get("kind") == "CXXMethodDecl" and d.get("name") == "readPhaseSpace"
            and any(c.get("kind") == "CompoundStmt" for c in d.get("inner", []))]
    if len(docs) != 1:
        raise Unsupported("readPhaseSpace definition")
    ss = stmts(body(docs[0]))
    # order of the relevant top-level statements
    pos = {}
    refusal = None
    choose = None
    switch = None
    sizecheck = None
    for i, s in enumerate(ss):
        u = unwrap(s)
        if u.get("kind") == "IfStmt":
            parts = [c for c in u["inner"] if c]
            throws = find(parts[1], lambda m: m.get("kind") == "CXXThrowExpr", []) if len(parts) > 1 else []
            mentions = [d["referencedDecl"]["name"] for d in find(parts[0], lambda m: m.get("kind") == "DeclRefExpr", [])]
            if throws and "ps_dims" in mentions and len(parts) == 2:
                if refusal is not None:
                    raise Unsupported("two refusal tests")
                refusal = bexpr(parts[0])
                pos["refusal"] = i
            elif len(parts) == 3 and find(parts[2], lambda m: m.get("kind") == "CXXThrowExpr", []):
                c = unwrap(parts[0])
                names = [m.get("name") for m in find(c, lambda m: m.get("kind") == "MemberExpr", [])] + \
                        [d["referencedDecl"]["name"] for d in find(c, lambda m: m.get("kind") == "DeclRefExpr", [])]
                if c.get("kind") in ("BinaryOperator", "CXXOperatorCallExpr") and "nxyb" in names and "getSelectNpoints" in names:
                    sizecheck = "nxyb == selected"
                    pos["sizecheck"] = i
        nm, rhs = assigned(s)
        if nm == "use_step":
            if choose is not None:
                raise Unsupported("use_step assigned twice")
            choose = iexpr(rhs)
            pos["choose"] = i
        if u.get("kind") == "SwitchStmt":
            switch = u
            pos["switch"] = i
    if refusal is None or choose is None or switch is None or sizecheck is None:
        raise Unsupported("readPhaseSpace: refusal test %s, record choice %s, switch %s, size test %s"
                          % (refusal is not None, choose is not None, switch is not None, sizecheck is not None))
    if not (pos["refusal"] < pos["choose"] < pos["switch"] < pos["sizecheck"]):
        raise Unsupported("readPhaseSpace: statement order %r" % pos)
    sw_on = unwrap([c for c in switch["inner"] if c][0])
    if sw_on.get("referencedDecl", {}).get("name") != "rank":
        raise Unsupported("switch is not on rank")
    cases = []
    cur = None
    for st in [c for c in switch["inner"] if c][-1]["inner"]:
        k = st.get("kind")
        group = [st]
        if k == "CaseStmt":
            val = [x for x in find(st["inner"][0], lambda m: m.get("kind") == "IntegerLiteral", [])][0]["value"]
            cur = {"rank": val}
            cases.append(cur)
            group = [st["inner"][-1]]
        elif k == "DefaultStmt":
            raise Unsupported("switch(rank) has a default branch (model has none)")
        elif k == "BreakStmt":
            cur = None
            continue
        if cur is None:
            raise Unsupported("statement outside a case")
        for g in group:
            nm, rhs = assigned(g)
            if nm in ("ps_size", "nBunches"):
                cur[nm] = iexpr(rhs)
            elif nm in ("ps_offset", "ps_ext"):
                cur[nm] = init_list(rhs)
            else:
                raise Unsupported("case %s: statement %s" % (cur["rank"], unwrap(g).get("kind")))
    for c in cases:
        if sorted(c) not in (["ps_ext", "ps_offset", "ps_size", "rank"], ["nBunches", "ps_ext", "ps_offset", "ps_size", "rank"]):
            raise Unsupported("case %s assigns %r" % (c.get("rank"), sorted(c)))
    # nBunches initial value, filling, setSize arguments
    vds = {v["name"]: v for v in find(docs[0], lambda m: m.get("kind") == "VarDecl", [])}
    nb0 = iexpr(vds["nBunches"]["inner"][0])
    fill = [x["value"] for x in find(vds["filling"], lambda m: m.get("kind") == "FloatingLiteral", [])]
    setsize = [c for c in find(docs[0], lambda m: m.get("kind") == "CallExpr", [])
               if unwrap(c["inner"][0]).get("referencedDecl", {}).get("name") == "setSize"]
    if len(setsize) != 1:
        raise Unsupported("setSize call")
    a0 = unwrap(setsize[0]["inner"][1])
    a1 = unwrap(setsize[0]["inner"][2])
    if a0.get("referencedDecl", {}).get("name") != "ps_size":
        raise Unsupported("setSize first argument")
    a1names = [m.get("name") for m in find(a1, lambda m: m.get("kind") == "MemberExpr", [])] + \
              [d["referencedDecl"]["name"] for d in find(a1, lambda m: m.get("kind") == "DeclRefExpr", [])]
    if "filling" not in a1names or "size" not in a1names:
        raise Unsupported("setSize second argument is not filling.size()")

    # the phase space that receives the record: constructor arguments (source text)
    import re
    import cxxast
    with open(cxxast.REPO + "/" + SRC) as fh:
        flat = re.sub(r"\s+", "", fh.read())
    rb = flat[flat.index("vfps::HDF5File::readPhaseSpace("):]
    mm = re.findall(r"std::make_unique<PhaseSpace>\(((?:[^()]|\([^()]*\))*)\);", rb[:rb.index("returnps;")])
    if len(mm) != 1:
        raise Unsupported("creation of the loaded phase space")
    ctor_args = mm[0].split(",")

    def lst(xs):
        return "[" + ", ".join(xs) + "]"
    out = ["/- GENERATED by translator/gen_h5read.py from %s (sha256 %s).\n   Do not edit: overwritten by every check run. -/"
           % (SRC, source_hash(SRC)),
           "set_option linter.unusedVariables false\nnamespace Inovesa.Gen.H5Read\n",
           "/-! `rank` = rank of /PhaseSpace/data, `dims k` = its extents, `useStep` = StartDistStep as given (int64) -/\n",
           "/-- the reader refuses the file when this holds (tested BEFORE the record arithmetic) -/",
           "def refuses (rank : Nat) (dims : Nat → Nat) : Bool := %s\n" % refusal,
           "/-- `use_step = …` : the record that is read -/",
           "def chosenRecord (dims : Nat → Nat) (useStep : Int) : Int := %s\n" % choose,
           "/-- number of bunches assumed before the switch -/",
           "def nBunches0 : Int := %s\n" % nb0,
           "/-- `switch (rank)`: (rank, grid size, bunches, hyperslab offset, hyperslab extent) of each case; no default -/",
           "def rankCases (dims : Nat → Nat) (record : Int) : List (Nat × Int × Int × List Int × List Int) :="]
    rows = []
    for c in cases:
        ps = c["ps_size"]
        nbv = c.get("nBunches", "nBunches0")
        # inside the switch `use_step` already holds the chosen record
        sub = lambda t: t.replace("(psSize : Int)", "(" + ps + ")").replace("(nBunches : Int)", "(" + nbv + ")").replace("useStep", "record")
        rows.append("  (%s, %s, %s, %s, %s)" % (c["rank"], ps, nbv, lst([sub(x) for x in c["ps_offset"]]), lst([sub(x) for x in c["ps_ext"]])))
    out.append("  [\n" + ",\n".join(rows) + "]\n")
    out += ["/-- the phase space that receives the record is created for this filling, after `setSize(ps_size, filling.size())` -/",
            "def fillingOfLoaded : List String := %s" % lst('"%s"' % f for f in fill),
            "/-- … with these constructor arguments (box and scales of the CURRENT run, as handed over by main(); no data: the record is read into it) -/",
            "def loadedCtorArgs : List String := %s" % lst('"%s"' % a for a in ctor_args),
            "/-- the record is read only if this holds, otherwise the reader throws -/",
            'def sizeTest : String := "%s"\n' % sizecheck,
            "end Inovesa.Gen.H5Read"]
    return "\n".join(out) + "\n"


if __name__ == "__main__":
    print(generate())
