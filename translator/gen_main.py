"""G7: statement skeleton of main() around the simulation loop -> InovesaModel/Gen/MainProgram.lean

From clang's AST of main() (HDF5 on, OpenCL/OpenGL/PNG off): the statements from the first
`grid_t1->updateXProjection()` after "Starting the simulation." up to the end of the final
record block, as a tree of canonical call names and guards.  Every statement must match one
of the recognised source forms; anything else raises Unsupported (fail-closed).
"""
import os
import re
from cxxast import Unsupported, ast_of, body_of, REPO, source_hash

SRC = "src/main.cpp"

# normalised source text (whitespace removed) -> canonical statement name
CALLS = [
    (r"^grid_t1->updateXProjection\(\)$", "grid.updateXProjection"),
    (r"^grid_t1->updateYProjection\(\)$", "grid.updateYProjection"),
    (r"^grid_t1->integrate\(\)$", "grid.integrate"),
    (r"^grid_t1->integrateAndNormalize\(\)$", "grid.integrateAndNormalize"),
    (r"^grid_t1->variance\(0\)$", "grid.variance0"),
    (r"^grid_t1->variance\(1\)$", "grid.variance1"),
    (r"^wkm->update\(\)$", "wkm.update"),
    (r"^wake_field->wakePotential\(\)$", "wakefield.wakePotential"),
    (r"^hdf_file->appendPadded\(wake_field\)$", "file.appendPadded"),
    (r"^hdf_file->append\(\*grid_t1,0,HDF5File::AppendType::PhaseSpace\)$", "file.appendGrid.PhaseSpace0"),
    (r"^hdf_file->append\(\*grid_t1,static_cast<double>\(simulationstep\)/steps,at\)$", "file.appendGrid.at"),
    (r"^hdf_file->append\(\*grid_t1,static_cast<double>\(simulationstep\)/steps,HDF5File::AppendType::All\)$",
     "file.appendGrid.All"),
    (r"^rdtn_field\.updateCSR\(fc\)$", "rdtn.updateCSR"),
    (r"^hdf_file->append\(&rdtn_field\)$", "file.appendCSR"),
    (r"^hdf_file->append\(wkm\)$", "file.appendWake"),
    (r"^hdf_file->appendTracks\(trackme\)$", "file.appendTracks"),
    (r"^hdf_file->appendRFKicks\(drfm->getPastModulation\(\)\)$", "file.appendRFKicks"),
    (r"^wm->apply\(\)$", "wm.apply"), (r"^wm->applyToAll\(trackme\)$", "wm.track"),
    (r"^rfm->apply\(\)$", "rfm.apply"), (r"^rfm->applyToAll\(trackme\)$", "rfm.track"),
    (r"^drm->apply\(\)$", "drm.apply"), (r"^drm->applyToAll\(trackme\)$", "drm.track"),
    (r"^fpm->apply\(\)$", "fpm.apply"), (r"^fpm->applyToAll\(trackme\)$", "fpm.track"),
    (r"^simulationstep\+\+$", "step++"), (r"^outstepnr\+\+$", "outnr++"),
    (r"^Display::printText\(status_string\(.*\)$", "print.status"),
    (r'^vfps_verif_ip\("([\w:-]+)"\)$', "ip:\\1"),
]
CONDS = [
    (r"^wkm!=nullptr$", "hasWake"),
    (r"^wake_field!=nullptr$", "hasWakeField"),
    (r"^hdf_file!=nullptr$", "hasFile"),
    (r"^renormalize>0&&simulationstep%renormalize==0$", "renormNow"),
    (r"^outstep>0&&simulationstep%outstep==0$", "outNow"),
    (r"^h5save==0$", "h5saveZero"),
    (r"^drfm$", "hasDrfm"),
]
DECLS = [
    (r"^HDF5File::AppendTypeat=\(h5save>0&&outstepnr%h5save==0\)\?HDF5File::AppendType::All:HDF5File::AppendType::Defaults;?$",
     "decl.at"),
    (r"^constautoh5save=opts\.getSavePhaseSpace\(\);?$", "decl.h5save"),
    (r"^uint32_toutstepnr=0;?$", "decl.outstepnr"),
    (r"^uint32_tsimulationstep=0;?$", "decl.simulationstep"),
    (r"^constautoupdatetime=2\.0f;?$", "decl.updatetime"),
]
LOOPCOND = r"^simulationstep<laststep&&!Display::abort$"


def src_text():
    with open(os.path.join(REPO, SRC), "rb") as f:
        return f.read()


def norm(b):
    s = b.decode("utf-8", "replace")
    s = re.sub(r"//[^\n]*", "", s)
    s = re.sub(r"/\*.*?\*/", "", s, flags=re.S)
    s = re.sub(r"^\s*#.*$", "", s, flags=re.M)
    return re.sub(r"\s+", "", s)


class Ex:
    def __init__(self):
        self.src = src_text()

    def text(self, node):
        r = node.get("range", {})
        b, e = r.get("begin", {}), r.get("end", {})
        bo = b.get("offset", b.get("expansionLoc", {}).get("offset"))
        eo = e.get("offset", e.get("expansionLoc", {}).get("offset"))
        tl = e.get("tokLen", e.get("expansionLoc", {}).get("tokLen", 1))
        if bo is None or eo is None:
            raise Unsupported("statement without source range (%s)" % node.get("kind"))
        return norm(self.src[bo:eo + tl])

    def match(self, table, t, what):
        for pat, name in table:
            m = re.match(pat, t)
            if m:
                return m.expand(name) if "\\" in name else name
        raise Unsupported("unrecognised %s in main(): %s" % (what, t[:160]))

    def stmts(self, nodes):
        out = []
        for n in nodes:
            out += self.stmt(n)
        return out

    def stmt(self, n):
        if not n:
            return []
        k = n["kind"]
        if k == "NullStmt":
            return []
        if k == "CompoundStmt":
            return self.stmts(n.get("inner", []))
        if k == "ExprWithCleanups":
            return self.stmt(n["inner"][0])
        if k == "IfStmt":
            inner = n["inner"]
            cond = self.match(CONDS, self.text(inner[0]), "condition")
            t = self.stmt(inner[1])
            e = self.stmt(inner[2]) if len(inner) > 2 else []
            return [("ite", cond, t, e)]
        if k == "DeclStmt":
            return [("call", self.match(DECLS, self.text(n), "declaration"))]
        if k in ("CXXMemberCallExpr", "CallExpr", "UnaryOperator", "CXXOperatorCallExpr"):
            t = self.text(n)
            if t == "INOVESA_VERIF_IP":
                # macro expansion: the tag is the string literal argument
                lits = []

                def walk(x):
                    if isinstance(x, dict):
                        if x.get("kind") == "StringLiteral":
                            lits.append(x.get("value", ""))
                        for c in x.get("inner", []):
                            walk(c)
                walk(n)
                if len(lits) != 1 or not re.match(r'^"[\w:-]+"$', lits[0]):
                    raise Unsupported("interrupt-point marker without a plain tag")
                return [("call", "ip:" + lits[0].strip('"'))]
            return [("call", self.match(CALLS, t, "statement"))]
        raise Unsupported("statement kind %s in the simulation part of main(): %s" % (k, self.text(n)[:100]))


def lean_stmts(sts, ind=2):
    pad = " " * ind
    items = []
    for s in sts:
        if s[0] == "call":
            items.append('%s.call "%s"' % (pad, s[1]))
        else:
            items.append("%s.ite .%s [\n%s\n%s] [\n%s\n%s]" % (pad, s[1], lean_stmts(s[2], ind + 2), pad,
                                                             lean_stmts(s[3], ind + 2), pad))
    return ",\n".join(items)


def generate():
    import cxxast
    saved = list(cxxast.CLANG_ARGS)
    cxxast.CLANG_ARGS.append("-DINOVESA_VERIF=1")     # keep the interrupt-point markers as statements
    try:
        docs = ast_of(SRC, "main")
    finally:
        cxxast.CLANG_ARGS[:] = saved
    mains = [d for d in docs if d.get("kind") == "FunctionDecl" and d.get("name") == "main"
             and any(c.get("kind") == "CompoundStmt" for c in d.get("inner", []))]
    if len(mains) != 1:
        raise Unsupported("main() not found uniquely")
    body = body_of(mains[0])["inner"]
    ex = Ex()
    # locate the simulation loop: the while statement whose condition is the loop condition
    loops = [i for i, s in enumerate(body) if s["kind"] == "WhileStmt"
             and re.match(LOOPCOND, ex.text(s["inner"][0]))]
    if len(loops) != 1:
        raise Unsupported("simulation loop `while (simulationstep<laststep && !Display::abort)` not found uniquely")
    li = loops[0]
    # initial block: from the statement `grid_t1->updateXProjection()` that follows the
    # "Starting the simulation." message up to the loop
    start = None
    for i in range(li - 1, -1, -1):
        try:
            t = ex.text(body[i])
        except Unsupported:
            continue
        if "Startingthesimulation" in t:
            start = i + 1
            break
    if start is None:
        raise Unsupported('"Starting the simulation." message not found before the loop')
    initial = ex.stmts(body[start:li])
    # interrupt-point markers passed before the modelled part starts
    r0 = body[0].get("range", {}).get("begin", {})
    r1 = body[start].get("range", {}).get("begin", {})
    o0 = r0.get("offset", r0.get("expansionLoc", {}).get("offset"))
    o1 = r1.get("offset", r1.get("expansionLoc", {}).get("offset"))
    setup_markers = len(re.findall(rb"INOVESA_VERIF_IP\(", ex.src[o0:o1])) if o0 is not None and o1 is not None else 0
    loop_body = ex.stmt(body[li]["inner"][1])
    # final block: statements after the loop up to (excluding) the last status print
    end = None
    for i in range(li + 1, len(body)):
        try:
            t = ex.text(body[i])
        except Unsupported:
            continue
        if t.startswith("Display::printText(status_string("):
            end = i
            break
    if end is None:
        raise Unsupported("final status print not found")
    final = ex.stmts(body[li + 1:end])
    tail = [ex.text(s) for s in body[end + 1:] if s["kind"] not in ("NullStmt",)]
    aborted = any('Display::printText("Aborted.")' in t for t in tail) and any("if(Display::abort)" in t for t in tail)
    if not aborted or not tail[-1].startswith("return0") and "EXIT_SUCCESS" not in tail[-1] and not tail[-1].startswith("return"):
        raise Unsupported("end of main(): Aborted/Finished message and successful return not recognised")
    out = []
    out.append("/- GENERATED by translator/gen_main.py from %s (sha256 %s).\n"
               "   Do not edit: overwritten by every check run. -/" % (SRC, source_hash(SRC)))
    out.append("namespace Inovesa.Gen\n")
    out.append("/-- guards occurring around the simulation loop of main() -/")
    out.append("inductive MCond where\n  | hasWake | hasWakeField | hasFile | renormNow | outNow | h5saveZero | hasDrfm\n"
               "  deriving Repr, DecidableEq\n")
    out.append("/-- statements: a canonical call name, or a guarded pair of blocks -/")
    out.append("inductive MStmt where\n  | call (name : String)\n  | ite (c : MCond) (t e : List MStmt)\n  deriving Repr\n")
    out.append("/-- from `Starting the simulation.` to the loop: first status and initial record -/")
    out.append("def initialBlock : List MStmt := [\n%s\n]\n" % lean_stmts(initial))
    out.append("/-- body of `while (simulationstep<laststep && !Display::abort)` -/")
    out.append("def loopBody : List MStmt := [\n%s\n]\n" % lean_stmts(loop_body))
    out.append("/-- after the loop: the final record -/")
    out.append("def finalBlock : List MStmt := [\n%s\n]\n" % lean_stmts(final))
    out.append("/-- interrupt-point markers of the set-up part, passed before `initialBlock` starts -/")
    out.append("def setupMarkers : Nat := %d\n" % setup_markers)
    out.append("/-- after the final record main prints `Aborted.` iff the abort flag is set, else `Finished.`,\n"
               "    and returns EXIT_SUCCESS -/")
    out.append("def endsWithAbortedOrFinished : Bool := %s\n" % ("true" if aborted else "false"))
    out.append("end Inovesa.Gen\n")
    return "\n".join(out)


if __name__ == "__main__":
    print(generate())
