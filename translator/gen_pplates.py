"""G9j: ParallelPlatesCSR::__calcImpedance (src/Z/ParallelPlatesCSR.cpp) -> InovesaModel/Gen/PPlates.lean

The scalar arithmetic of the parallel-plates table builder as Lean terms over one generated environment
(`PPEnv`: constructor arguments `o_…`, constants `k_…`, locals `v_…`, loop variables `v_i`, `v_p` as scalars, `powf`,
`r32` = rounding of a binary32 sub-expression, the identity in exact arithmetic): `delta`, `r_bend`, `n`, `m`, the bound
`maxp` of the mode sum (before its conversion to uint32), `b`, the Airy argument `u`, the factor the sum is multiplied
with; the loop bounds (`i = first … nfreqs/2` inclusive, `p = first, first+step, … ≤ maxp`); the summand, which must be
    zinc = Ai'(u)·(Ai'(u) − j·Bi'(u)) + u·Ai(u)·(Ai(u) − j·Bi(u))
(checked on the source text; emitted as its real and imaginary part), and what the `catch (...)` does.  Fail-closed.
"""
import re
from fractions import Fraction

import cxxast
from cxxast import Unsupported, ast_of, source_hash, lean_lit, f32_bits
from gen_rf import find
from gen_physics import unwrap, callee_name, CASTS

SRC = "src/Z/ParallelPlatesCSR.cpp"
PARAMS = {"nfreqs", "f0", "f_max", "g"}
LOCALS = {"delta", "r_bend", "n", "m", "maxp", "b", "u", "i", "p"}
CONSTS = {"c": "k_c", "Z0": "k_Z0"}


class Cx:
    def __init__(self):
        self.fields = {}

    def field(self, name, ty="α"):
        self.fields[name] = ty
        return "E." + name


def lean(n, cx, in_double=True):
    n = unwrap(n)
    k = n.get("kind")
    if k in CASTS:
        raise Unsupported("cast kind %s" % n.get("castKind"))
    if k == "IntegerLiteral":
        v = int(n["value"])
        return lean_lit(Fraction(v), f32_bits(float(v)))
    if k == "FloatingLiteral":
        return lean_lit(Fraction(n["value"]), f32_bits(float(n["value"])))
    if k == "UnaryOperator" and n["opcode"] == "-":
        return "(-%s)" % lean(n["inner"][0], cx)
    if k == "BinaryOperator" and n["opcode"] in ("+", "-", "*", "/"):
        ty = cxxast.ctype(n)
        if ty == "int" and n["opcode"] == "/":
            raise Unsupported("integer division in a scalar expression")
        t = "(%s %s %s)" % (lean(n["inner"][0], cx), n["opcode"], lean(n["inner"][1], cx))
        if ty == "f32":
            return "(%s %s)" % (cx.field("r32", "α → α"), t)      # evaluated in binary32 inside a double expression
        return t
    if k == "DeclRefExpr":
        nm = n["referencedDecl"]["name"]
        if nm in PARAMS:
            return cx.field("o_" + nm)
        if nm in LOCALS:
            return cx.field("v_" + nm)
        if nm in CONSTS:
            return cx.field(CONSTS[nm])
        raise Unsupported("reference to %s" % nm)
    if k == "CallExpr":
        fn = callee_name(n)
        args = n["inner"][1:]
        if fn == "pi" and not args:
            return cx.field("k_pi")
        if fn == "pi_sqr" and not args:
            return cx.field("k_pi_sqr")
        if fn == "pow" and len(args) == 2:
            return "(%s %s %s)" % (cx.field("powf", "α → α → α"), lean(args[0], cx), lean(args[1], cx))
        raise Unsupported("call to %s" % fn)
    raise Unsupported("expression node %s" % k)


def loop_header(f, var):
    init, _, cond, inc, blk = f["inner"]
    vd = init["inner"][0]
    if vd.get("name") != var:
        raise Unsupported("loop variable %s" % vd.get("name"))
    first = unwrap(vd["inner"][0])
    if first.get("kind") != "IntegerLiteral":
        raise Unsupported("loop start")
    c = unwrap(cond)
    if c.get("kind") != "BinaryOperator" or c["opcode"] != "<=":
        raise Unsupported("loop condition of %s is not `<=`" % var)
    i = unwrap(inc)
    if i.get("kind") == "UnaryOperator" and i["opcode"] == "++":
        step = "1"
    elif i.get("kind") == "CompoundAssignOperator" and i["opcode"] == "+=":
        step = unwrap(i["inner"][1])["value"]
    else:
        raise Unsupported("loop increment of %s" % var)
    return first["value"], step, c["inner"][1], blk


def generate():
    docs = [d for d in ast_of(SRC, "__calcImpedance") if d.get("kind") == "CXXMethodDecl" and d.get("name") == "__calcImpedance"
            and any(c.get("kind") == "CompoundStmt" for c in d.get("inner", []))]
    if len(docs) != 1:
        raise Unsupported("ParallelPlatesCSR::__calcImpedance definition")
    body = [c for c in docs[0]["inner"] if c.get("kind") == "CompoundStmt"][0]
    cx = Cx()
    defs = {}
    top = body["inner"]
    outer = [s for s in top if s.get("kind") == "ForStmt"]
    if len(outer) != 1:
        raise Unsupported("outer loop")
    for s in top:
        if s.get("kind") == "DeclStmt":
            vd = s["inner"][0]
            if vd["name"] in ("delta", "r_bend"):
                defs[vd["name"]] = lean(vd["inner"][0], cx)
    ifirst, istep, ibound, iblk = loop_header(outer[0], "i")
    ib = unwrap(ibound)
    if not (ib.get("kind") == "BinaryOperator" and ib["opcode"] == "/" and
            unwrap(ib["inner"][0]).get("referencedDecl", {}).get("name") == "nfreqs" and unwrap(ib["inner"][1]).get("value") == "2"):
        raise Unsupported("outer loop bound is not nfreqs/2")
    inner_for = None
    scale = None
    store = None
    for s in iblk["inner"]:
        k = s.get("kind")
        if k == "DeclStmt":
            vd = s["inner"][0]
            if vd["name"] in ("n", "m", "maxp", "b"):
                init = vd["inner"][0]
                if vd["name"] == "maxp":
                    # const uint32_t maxp = <double expression>: the conversion truncates; the expression is emitted
                    w = unwrap(init)
                    if w.get("kind") not in CASTS or w.get("castKind") != "FloatingToIntegral":
                        raise Unsupported("maxp is not a double expression converted to an integer")
                    init = w["inner"][-1]
                defs[vd["name"]] = lean(init, cx)
        elif k == "ForStmt":
            inner_for = s
        else:
            u = unwrap(s)
            if u.get("kind") == "CXXOperatorCallExpr" and callee_name(u) == "operator*=":
                if unwrap(u["inner"][1]).get("referencedDecl", {}).get("name") != "Z":
                    raise Unsupported("*= on something else than Z")
                scale = lean(u["inner"][2], cx)
            elif u.get("kind") in ("BinaryOperator", "CXXOperatorCallExpr"):
                store = u
    if inner_for is None or scale is None or store is None or set(defs) != {"delta", "r_bend", "n", "m", "maxp", "b"}:
        raise Unsupported("loop body: inner loop %s, scale %s, store %s, locals %r"
                          % (inner_for is not None, scale is not None, store is not None, sorted(defs)))
    pfirst, pstep, pbound, pblk = loop_header(inner_for, "p")
    if unwrap(pbound).get("referencedDecl", {}).get("name") != "maxp":
        raise Unsupported("inner loop bound is not maxp")
    for s in pblk["inner"]:
        if s.get("kind") == "DeclStmt" and s["inner"][0]["name"] == "u":
            defs["u"] = lean(s["inner"][0]["inner"][0], cx)
    if "u" not in defs:
        raise Unsupported("Airy argument u")
    # summand and catch block: on the source text
    with open(cxxast.REPO + "/" + SRC) as f:
        text = re.sub(r"\s+", "", f.read())
    want = ("zinc=boost::math::airy_ai_prime(u)*(boost::math::airy_ai_prime(u)-j*boost::math::airy_bi_prime(u))"
            "+u*boost::math::airy_ai(u)*(boost::math::airy_ai(u)-j*boost::math::airy_bi(u));")
    if text.count(want) != 1 or text.count("zinc=") != 2:
        raise Unsupported("summand is not Ai'(u)(Ai'(u)-j Bi'(u)) + u Ai(u)(Ai(u)-j Bi(u))")
    if "catch(...){p=maxp+1;zinc=0;}Z+=zinc;" not in text:
        raise Unsupported("catch block / accumulation of the mode sum")
    if "constexprstd::complex<double>j(0,1);" not in text:
        raise Unsupported("imaginary unit")
    if "rv[i]=static_cast<impedance_t>(Z);" not in text or "std::vector<vfps::impedance_t>rv(nfreqs,0);" not in text:
        raise Unsupported("table allocation / store")
    for nm in ("o_nfreqs", "o_f0", "o_f_max", "o_g", "k_c", "k_Z0", "k_pi", "k_pi_sqr", "v_delta", "v_r_bend", "v_n", "v_m",
               "v_b", "v_u", "v_i", "v_p", "v_maxp"):
        cx.fields.setdefault(nm, "α")
    cx.fields.setdefault("powf", "α → α → α")
    cx.fields.setdefault("r32", "α → α")
    out = ["/- GENERATED by translator/gen_pplates.py from %s (sha256 %s).\n   Do not edit: overwritten by every check run. -/"
           % (SRC, source_hash(SRC)),
           "import InovesaModel.Model.Scalar\nset_option linter.unusedVariables false\nnamespace Inovesa.Gen.PP\nopen Inovesa\n",
           "structure PPEnv (α : Type) where"]
    for f in sorted(cx.fields):
        out.append("  %s : %s" % (f, cx.fields[f]))
    out.append("\nvariable {α : Type} [Arith α]\n")
    for nm in ("delta", "r_bend", "n", "m", "maxp", "b", "u"):
        out.append("/-- `%s`%s -/" % (nm, " (converted to uint32 by the code: truncation)" if nm == "maxp" else ""))
        out.append("def p_%s (E : PPEnv α) : α := %s\n" % (nm, defs[nm]))
    out += ["/-- `Z *= …` after the mode sum -/",
            "def p_scale (E : PPEnv α) : α := %s\n" % scale,
            "/-- loops: `for i = iFirst; i <= nfreqs/2; i += iStep`, `for p = pFirst; p <= maxp; p += pStep`; the table has `nfreqs` entries, zero-initialised -/",
            "def iFirst : Nat := %s" % ifirst, "def iStep : Nat := %s" % istep,
            "def iLast (nfreqs : Nat) : Nat := nfreqs / 2",
            "def pFirst : Nat := %s" % pfirst, "def pStep : Nat := %s\n" % pstep,
            "/-- real and imaginary part of the summand `Ai'(u)(Ai'(u) − j·Bi'(u)) + u·Ai(u)(Ai(u) − j·Bi(u))` -/",
            "def zincRe (u ai aip bi bip : α) : α := ((aip * aip) + (u * (ai * ai)))",
            "def zincIm (u ai aip bi bip : α) : α := ((-(aip * bip)) - (u * (ai * bi)))\n",
            "/-- a library exception in the summand ends the mode sum of that sample (`p = maxp+1; zinc = 0`) -/",
            "def catchEndsSum : Bool := true\n",
            "end Inovesa.Gen.PP"]
    return "\n".join(out) + "\n"


if __name__ == "__main__":
    print(generate())
