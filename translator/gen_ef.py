"""G9g: index arithmetic and point-wise formulas of ElectricField (src/PS/ElectricField.cpp) -> InovesaModel/Gen/EFIndex.lean

wakePotential():    loss loop `for i < BOUND: _wakelosses[i] = (*_impedance)[i]*_formfactor[i]`,
                    read-back `_wakepotential[b][x] = _wakescaling * _wakepotential_padded[INDEX]`
padBunchProfiles(): `fill_n(_bp_padded,_nmax,0)`; `copy_n(bp.origin()+SRC, COUNT, _bp_padded+DEST)` per bunch
updateCSR():        `_csrspectrum[n][i] = renorm * Re Z[i] * norm(F[i])`, `_csrintensity[n] += delta_f * spectrum`, loop bound
Tied to efWake / padProfiles / efCSRBunch (Model/ElectricField.lean) in Props/Tie.lean.  Fail-closed.
"""
from cxxast import Unsupported, ast_of, source_hash
from gen_rf import find

SRC = "src/PS/ElectricField.cpp"


def refs(node):
    return [d["referencedDecl"]["name"] for d in find(node, lambda m: m.get("kind") == "DeclRefExpr", [])]


def members(node):
    return [m.get("name") for m in find(node, lambda m: m.get("kind") == "MemberExpr", [])]


def unwrap(node):
    while node["kind"] in ("ImplicitCastExpr", "ExprWithCleanups", "MaterializeTemporaryExpr", "ParenExpr", "ConstantExpr",
                           "CXXBindTemporaryExpr"):
        node = node["inner"][-1]
    return node


def nat(node):
    node = unwrap(node)
    k = node["kind"]
    if k == "IntegerLiteral":
        return node["value"]
    if k == "DeclRefExpr":
        nm = node["referencedDecl"]["name"]
        if nm in ("b", "x", "i", "n"):
            return {"n": "b"}.get(nm, nm)
        if nm == "nx":
            return "nx"
        if nm == "nb":
            return "nb"
        raise Unsupported("integer variable %s in ElectricField" % nm)
    if k == "MemberExpr":
        nm = node["name"]
        table = {"_spacing_bins": "spacing", "_nmax": "nmax", "_nbunches": "nb"}
        if nm in table:
            return table[nm]
        raise Unsupported("member %s in an ElectricField index" % nm)
    if k == "CXXOperatorCallExpr" and members(node)[:1] == ["_bucket"]:
        if refs(node)[-1:] not in (["b"], ["n"]):
            raise Unsupported("_bucket[<not the bunch index>]")
        return "bucket_b"
    if k in ("CXXStaticCastExpr", "CXXFunctionalCastExpr", "CStyleCastExpr"):
        return nat(node["inner"][-1])
    if k == "BinaryOperator" and node["opcode"] in ("+", "*", "/"):
        return "(%s %s %s)" % (nat(node["inner"][0]), node["opcode"], nat(node["inner"][1]))
    raise Unsupported("integer expression %s in ElectricField" % k)


def method(name):
    docs = [d for d in ast_of(SRC, "ElectricField::" + name) if d.get("kind") == "CXXMethodDecl" and d.get("name") == name
            and any(c.get("kind") == "CompoundStmt" for c in d.get("inner", []))]
    if len(docs) != 1:
        raise Unsupported("ElectricField::%s definition" % name)
    return docs[0]


def loop_bound(f):
    c = unwrap(f["inner"][2])
    if c["kind"] != "BinaryOperator" or c["opcode"] != "<":
        raise Unsupported("loop condition")
    return nat(c["inner"][1])


def calls_named(node, name):
    return [c for c in find(node, lambda m: m.get("kind") == "CallExpr", []) if refs(c["inner"][0])[:1] == [name]]


def ptr_offset(node, base):
    """`base + OFFSET` or plain `base` (offset 0) as Nat term"""
    node = unwrap(node)
    if node["kind"] == "BinaryOperator" and node["opcode"] == "+":
        if base not in refs(node["inner"][0]) + members(node["inner"][0]):
            raise Unsupported("pointer arithmetic not based on %s" % base)
        return nat(node["inner"][1])
    if base in refs(node) + members(node):
        return "0"
    raise Unsupported("pointer expression for %s" % base)


def generate():
    # ---- wakePotential
    wp = method("wakePotential")
    loss = [a for a in find(wp, lambda m: m.get("kind") in ("BinaryOperator", "CXXOperatorCallExpr"), [])
            if (a["kind"] == "BinaryOperator" and a.get("opcode") == "=" and "_wakelosses" in members(a["inner"][0]))
            or (a["kind"] == "CXXOperatorCallExpr" and refs(a["inner"][0])[:1] == ["operator="] and "_wakelosses" in members(a["inner"][1]))]
    if len(loss) != 1:
        raise Unsupported("assignment to _wakelosses[i] (%d found)" % len(loss))
    rhs = loss[0]["inner"][-1]
    ms = members(rhs)
    if sorted(set(ms)) != ["_formfactor", "_impedance"] or refs(rhs).count("i") < 2:
        raise Unsupported("_wakelosses[i] is not (*_impedance)[i] * _formfactor[i]")
    if not [c for c in find(rhs, lambda m: m.get("kind") == "CXXOperatorCallExpr", []) if refs(c["inner"][0])[:1] == ["operator*"]]:
        raise Unsupported("_wakelosses[i] is not a product")
    loss_loop = [f for f in find(wp, lambda m: m.get("kind") == "ForStmt", []) if find(f, lambda m: m is loss[0], [])]
    loss_bound = loop_bound(loss_loop[-1])
    rb = [a for a in find(wp, lambda m: m.get("kind") == "BinaryOperator" and m.get("opcode") == "=", [])
          if members(a["inner"][0])[:1] == ["_wakepotential"]]
    if len(rb) != 1:
        raise Unsupported("read-back assignment")
    r = unwrap(rb[0]["inner"][1])
    if r["kind"] != "BinaryOperator" or r["opcode"] != "*" or members(r["inner"][0]) != ["_wakescaling"]:
        raise Unsupported("read-back is not _wakescaling * padded[...]")
    sub = [s for s in find(r["inner"][1], lambda m: m.get("kind") == "ArraySubscriptExpr", [])]
    if len(sub) != 1 or "_wakepotential_padded" not in members(sub[0]["inner"][0]):
        raise Unsupported("read-back source")
    read = nat(sub[0]["inner"][1])
    rb_loops = [loop_bound(f) for f in find(wp, lambda m: m.get("kind") == "ForStmt", []) if find(f, lambda m: m is rb[0], [])]
    # ---- padBunchProfiles
    pb = method("padBunchProfiles")
    fills = calls_named(pb, "fill_n")
    if len(fills) != 1 or "_bp_padded" not in members(fills[0]["inner"][1]) or nat(fills[0]["inner"][2]) != "nmax":
        raise Unsupported("padBunchProfiles does not clear the whole buffer first")
    copies = calls_named(pb, "copy_n")
    if len(copies) != 1:
        raise Unsupported("padBunchProfiles: copy_n")
    pad_src = ptr_offset(copies[0]["inner"][1], "origin")
    pad_cnt = nat(copies[0]["inner"][2])
    pad_dst = ptr_offset(copies[0]["inner"][3], "_bp_padded")
    pad_loop = [loop_bound(f) for f in find(pb, lambda m: m.get("kind") == "ForStmt", [])]
    # ---- updateCSR
    uc = method("updateCSR")
    fills = calls_named(uc, "fill_n")
    if len(fills) != 1 or nat(fills[0]["inner"][2]) != "nmax":
        raise Unsupported("updateCSR does not clear the whole buffer")
    copies = calls_named(uc, "copy_n")
    if len(copies) != 1 or ptr_offset(copies[0]["inner"][3], "_bp_padded") != "0":
        raise Unsupported("updateCSR: copy_n to the start of the buffer")
    csr_cnt = nat(copies[0]["inner"][2])
    spec = [a for a in find(uc, lambda m: m.get("kind") == "BinaryOperator" and m.get("opcode") == "=", [])
            if members(a["inner"][0])[:1] == ["_csrspectrum"]]
    if len(spec) != 1:
        raise Unsupported("assignment to _csrspectrum")
    sr = unwrap(spec[0]["inner"][1])
    # renorm * Re(Z[i]) * norm(F[i])   (left-associated product)
    if sr["kind"] != "BinaryOperator" or sr["opcode"] != "*":
        raise Unsupported("spectrum is not a product")
    left, nrm = unwrap(sr["inner"][0]), sr["inner"][1]
    if left["kind"] != "BinaryOperator" or left["opcode"] != "*" or refs(left["inner"][0]) != ["renorm"]:
        raise Unsupported("spectrum is not renorm * ... * ...")
    if "_impedance" not in members(left["inner"][1]) or "real" not in members(left["inner"][1]):
        raise Unsupported("second factor is not Re Z[i]")
    if not calls_named(nrm, "norm") or "_formfactor" not in members(nrm):
        raise Unsupported("third factor is not std::norm(_formfactor[i])")
    acc = [a for a in find(uc, lambda m: m.get("kind") == "CompoundAssignOperator" and m.get("opcode") == "+=", [])
           if members(a["inner"][0])[:1] == ["_csrintensity"]]
    if len(acc) != 1:
        raise Unsupported("accumulation of _csrintensity")
    ar = unwrap(acc[0]["inner"][1])
    if ar["kind"] != "BinaryOperator" or ar["opcode"] != "*" or "delta" not in members(ar["inner"][0]) \
            or "_csrspectrum" not in members(ar["inner"][1]):
        raise Unsupported("intensity summand is not delta_f * spectrum")
    spec_loop = [loop_bound(f) for f in find(uc, lambda m: m.get("kind") == "ForStmt", []) if find(f, lambda m: m is spec[0], [])]
    out = ["/- GENERATED by translator/gen_ef.py from %s (sha256 %s).\n   Do not edit: overwritten by every check run. -/"
           % (SRC, source_hash(SRC)),
           "import InovesaModel.Model.Scalar\nnamespace Inovesa.Gen\nopen Inovesa\n",
           "/-! `bucket_b` = `_bucket[b]`, `spacing` = `_spacing_bins`, `nx` grid width, `nmax` transform length -/\n",
           "/-- wakePotential(): `_wakelosses[i] = Z[i]·F[i]` for `i <` this bound -/",
           "def efLossBound (nmax : Nat) : Nat := %s" % loss_bound,
           "/-- … and `_wakepotential[b][x] = _wakescaling · padded[this index]`, loops over -/",
           "def efWakeRead (bucket_b spacing x : Nat) : Nat := %s" % read,
           "def efWakeLoops (nb nx : Nat) : List Nat := [%s]\n" % ", ".join(rb_loops),
           "/-- padBunchProfiles(): after clearing all `nmax` cells, bunch `b` is copied from projection offset, count, to buffer offset -/",
           "def efPadSrc (b nx : Nat) : Nat := %s" % pad_src,
           "def efPadCount (nx : Nat) : Nat := %s" % pad_cnt,
           "def efPadDest (bucket_b spacing : Nat) : Nat := %s" % pad_dst,
           "def efPadLoops (nb : Nat) : List Nat := [%s]\n" % ", ".join(pad_loop),
           "variable {α : Type} [Arith α]\n",
           "/-- updateCSR(): the profile of one bunch (count cells) at the start of the cleared buffer; spectrum and power summand -/",
           "def efCSRCount (nx : Nat) : Nat := %s" % csr_cnt,
           "def efSpectrum (renorm reZ normF : α) : α := ((renorm * reZ) * normF)",
           "def efPowerTerm (dfreq spectrum : α) : α := (dfreq * spectrum)",
           "def efCSRLoops (nmax : Nat) : List Nat := [%s]\n" % ", ".join(spec_loop[-1:])]
    out += plumbing()
    out.append("end Inovesa.Gen")
    return "\n".join(out) + "\n"


def preprocessed_own_text():
    """the translation unit after the preprocessor (inactive OpenCL branches gone), restricted to the lines of SRC itself,
    white space removed"""
    import os
    import re
    import subprocess
    import cxxast
    args = [a for a in cxxast.CLANG_ARGS if a not in ("-fsyntax-only",)] + ["-E", os.path.join(cxxast.REPO, SRC)]
    p = subprocess.run(args, stdout=subprocess.PIPE, stderr=subprocess.PIPE, text=True)
    if p.returncode != 0:
        raise Unsupported("preprocessing failed: " + p.stderr[:300])
    own, keep = [], False
    for l in p.stdout.split("\n"):
        if l.startswith("# "):
            keep = SRC in l
            continue
        if keep:
            own.append(l)
    return re.sub(r"\s+", "", "\n".join(own))


def body_of(text, header):
    i = text.find(header)
    if i < 0:
        raise Unsupported("function %s not found" % header)
    j = text.index("{", i)
    depth, k = 0, j
    while True:
        if text[k] == "{":
            depth += 1
        elif text[k] == "}":
            depth -= 1
            if depth == 0:
                return text[j + 1:k]
        k += 1


def events(body, table, what):
    """ordered list of the events of `table` (regex -> name) found in `body`; every statement-level `;` chunk that matches
    none of them and is not white-listed makes the fragment unsupported"""
    import re
    found = []
    for rx, name in table:
        for m in re.finditer(rx, body):
            found.append((m.start(), name))
    found.sort()
    return [n for _, n in found]


def plumbing():
    import re
    t = preprocessed_own_text()
    tr = re.findall(r"(_fft_\w+)=fft::prepareFFT\((\w+),(\w+),(\w+)\);", t)
    al = re.findall(r"(\w+)=fft::fft_alloc_(real|complex)\((\w+)\);", t)
    if sorted(x[0] for x in tr) != ["_fft_bunchprofile", "_fft_wakelosses"] or len(al) != 4:
        raise Unsupported("transform plans %r / buffer allocations %r" % (tr, al))
    wake = body_of(t, "vfps::ElectricField::wakePotential()")
    wake_ev = events(wake, [(r"padBunchProfiles\(\);", "padBunchProfiles"),
                            (r"fft::fft_execute\((_fft_\w+)\);", "execute"),
                            (r"for\(unsignedinti=0;i<_nmax/2;i\+\+\)\{_wakelosses\[i\]=\(\*_impedance\)\[i\]\*_formfactor\[i\];\}", "losses"),
                            (r"_wakepotential\[b\]\[x\]=_wakescaling\*_wakepotential_padded\[", "scale"),
                            (r"return_wakepotential\.data\(\);", "return")], "wakePotential")
    ex = re.findall(r"fft::fft_execute\((_fft_\w+)\);", wake)
    csr = body_of(t, "vfps::ElectricField::updateCSR(constfrequency_tcutoff_frequency)")
    csr_ev = events(csr, [(r"for\(uint32_tn=0;n<_nbunches;n\+\+\)", "bunch-loop"),
                          (r"std::fill_n\(_bp_padded,_nmax,integral_t\(0\)\);", "clear"),
                          (r"std::copy_n\(bp\.origin\(\),PhaseSpace::nx,_bp_padded\);", "copy"),
                          (r"fft::fft_execute\(_fft_bunchprofile\);", "execute"),
                          (r"_csrintensity\[n\]=0;", "zero-power"),
                          (r"for\(unsignedinti=0;i<_nmax;i\+\+\)", "spectrum-loop"),
                          (r"return_csrspectrum\.data\(\);", "return")], "updateCSR")
    pad = body_of(t, "vfps::ElectricField::padBunchProfiles()")
    pad_ev = events(pad, [(r"std::fill_n\(_bp_padded,_nmax,integral_t\(0\)\);", "clear"),
                          (r"for\(uint32_tb=0;b<PhaseSpace::nb;b\+\+\)", "bunch-loop"),
                          (r"std::copy_n\(", "copy")], "padBunchProfiles")

    def sl(xs):
        return "[" + ", ".join('"%s"' % x for x in xs) + "]"
    return ["/-- the two transforms: plan, length, input buffer, output buffer (forward: profile -> form factor; backward: losses -> padded wake) -/",
            "def efTransforms : List (String × String × String × String) := [%s]" % ", ".join(
                '("%s", "%s", "%s", "%s")' % x for x in sorted(tr)),
            "/-- buffers handed to the transforms: name, real/complex, length -/",
            "def efBuffers : List (String × String × String) := [%s]" % ", ".join('("%s", "%s", "%s")' % x for x in sorted(al)),
            "/-- statement order of wakePotential() (CPU path), the plans executed in it; of updateCSR(); of padBunchProfiles() -/",
            "def efWakeSequence : List String := %s" % sl(wake_ev),
            "def efWakeExecutes : List String := %s" % sl(ex),
            "def efCSRSequence : List String := %s" % sl(csr_ev),
            "def efPadSequence : List String := %s\n" % sl(pad_ev)]


if __name__ == "__main__":
    print(generate())
