"""G4c: the physical parameter chain of main() (src/main.cpp) -> InovesaModel/Gen/Physics.lean

Every `const auto X = <expression>;` of the set-up part of main() that feeds the simulation objects (phase-space box,
energy scale, RF frequency, radiated energy, effective voltage, synchrotron frequency <-> momentum compaction, natural
bunch length, bunch charge, damping time, bunch spacing, highest frequency, slippage coefficients) becomes a Lean
definition over one generated environment structure `PhysEnv α`:

  * `o_<getter>`   value returned by `opts.<getter>()`
  * `k_<name>`     constant of namespace physcons / `twoPi`
  * `v_<local>`    value of the local variable of main() of that name (the `Chain` structure states that each local
                   holds its defining expression)
  * `sqrtf`, `powf`, `signf`   libm / boost functions (parameters; hypotheses about them are stated where used)
  * `flag_<name>`  the C++ condition named in the comment

plus the argument lists with which main() creates the phase space (fresh start and start from a results file).
Props/TiePhysics.lean proves the relations the properties rest on from these definitions.  Fail-closed.
"""
from fractions import Fraction

import cxxast
from cxxast import Unsupported, ast_of, source_hash, lean_lit, f32_bits
from gen_rf import find

SRC = "src/main.cpp"

# locals of main() whose initialiser is translated, in source order
TARGETS = ["ps_bins", "pqsize", "qcenter", "pcenter", "pqhalf", "qmax", "qmin", "pmax", "pmin", "sE", "E0", "dE",
           "f_rev", "R_bend", "harmonic_number", "f_RF", "bunchspacing", "V_RF", "lorentzgamma", "V0", "W0", "V_eff",
           "bl", "Qb", "calc_damp", "spacing_ps", "fmax"]
PHYSCONS = {"c", "e", "me", "epsilon0", "IAlfven", "mu0", "h", "kB", "rho_Cu_300K"}
WRAP = ("ParenExpr", "ConstantExpr", "ExprWithCleanups", "MaterializeTemporaryExpr", "CXXBindTemporaryExpr")
CASTS = ("ImplicitCastExpr", "CXXStaticCastExpr", "CXXFunctionalCastExpr", "CStyleCastExpr")
OKCAST = ("LValueToRValue", "NoOp", "IntegralCast", "FloatingCast", "IntegralToFloating", "FunctionToPointerDecay",
          "ConstructorConversion")


class Ctx:
    def __init__(self, locals_, local_ids=()):
        self.locals = locals_
        self.local_ids = set(local_ids)
        self.fields = {}       # name -> lean type

    def field(self, name, ty="α"):
        if self.fields.get(name, ty) != ty:
            raise Unsupported("symbol %s used at two types" % name)
        self.fields[name] = ty
        return "E." + name


def unwrap(n):
    while True:
        k = n.get("kind")
        if k in WRAP:
            n = n["inner"][0]
        elif k in CASTS and n.get("castKind") in OKCAST:
            n = n["inner"][-1]
        else:
            return n


def callee_name(n):
    c = unwrap(n["inner"][0])
    if c.get("kind") == "DeclRefExpr":
        return c["referencedDecl"]["name"]
    if c.get("kind") == "MemberExpr":
        return c["name"]
    return None


def lean(n, cx):
    n = unwrap(n)
    k = n.get("kind")
    if k in CASTS:
        raise Unsupported("cast kind %s" % n.get("castKind"))
    if k == "IntegerLiteral":
        v = int(n["value"])
        return lean_lit(Fraction(v), f32_bits(float(v)))
    if k == "FloatingLiteral":
        v = float(n["value"])
        return lean_lit(Fraction(n["value"]), f32_bits(v))
    if k == "UnaryOperator" and n["opcode"] == "-":
        return "(-%s)" % lean(n["inner"][0], cx)
    if k == "BinaryOperator" and n["opcode"] in ("+", "-", "*", "/"):
        ty = cxxast.ctype(n)
        if n["opcode"] == "/" and ty == "int":
            raise Unsupported("integer division")
        return "(%s %s %s)" % (lean(n["inner"][0], cx), n["opcode"], lean(n["inner"][1], cx))
    if k == "DeclRefExpr":
        nm = n["referencedDecl"]["name"]
        if n["referencedDecl"].get("id") in cx.local_ids:
            return cx.field("v_" + nm)
        if nm in PHYSCONS:
            return cx.field("k_" + nm)
        raise Unsupported("reference to %s" % nm)
    if k == "CXXMemberCallExpr":
        me = unwrap(n["inner"][0])
        base = unwrap(me["inner"][0])
        if me.get("kind") == "MemberExpr" and base.get("kind") == "DeclRefExpr" \
                and base["referencedDecl"]["name"] == "opts" and len(n["inner"]) == 1:
            return cx.field("o_" + me["name"])
        raise Unsupported("member call %s" % me.get("name"))
    if k == "CXXOperatorCallExpr" and callee_name(n) == "operator[]":
        base = unwrap(n["inner"][1])
        idx = unwrap(n["inner"][2])
        if base.get("kind") == "DeclRefExpr" and base["referencedDecl"]["name"] in cx.locals \
                and idx.get("kind") == "IntegerLiteral":
            return "(%s %s)" % (cx.field("v_" + base["referencedDecl"]["name"], "Nat → α"), idx["value"])
        raise Unsupported("subscript")
    if k == "CallExpr":
        fn = callee_name(n)
        args = n["inner"][1:]
        if fn == "two_pi" and not args:
            return cx.field("twoPi")
        if fn == "sqrt" and len(args) == 1:
            return "(%s %s)" % (cx.field("sqrtf", "α → α"), lean(args[0], cx))
        if fn == "pow" and len(args) == 2:
            return "(%s %s %s)" % (cx.field("powf", "α → α → α"), lean(args[0], cx), lean(args[1], cx))
        if fn == "sign" and len(args) == 1:
            return "(%s %s)" % (cx.field("signf", "α → α"), lean(args[0], cx))
        raise Unsupported("call to %s" % fn)
    if k == "ConditionalOperator":
        c = unwrap(n["inner"][0])
        if c.get("kind") == "DeclRefExpr" and c["referencedDecl"]["name"] in cx.locals:
            flag = cx.field("flag_" + c["referencedDecl"]["name"], "Bool")
            return "(if %s then %s else %s)" % (flag, lean(n["inner"][1], cx), lean(n["inner"][2], cx))
        raise Unsupported("condition of ?:")
    raise Unsupported("expression node %s" % k)


def main_decl():
    saved = list(cxxast.CLANG_ARGS)
    try:
        if "-DINOVESA_VERIF=1" not in cxxast.CLANG_ARGS:
            cxxast.CLANG_ARGS.insert(3, "-DINOVESA_VERIF=1")
        docs = ast_of(SRC, "main")
    finally:
        cxxast.CLANG_ARGS[:] = saved
    mains = [d for d in docs if d.get("kind") == "FunctionDecl" and d.get("name") == "main"
             and any(c.get("kind") == "CompoundStmt" for c in d.get("inner", []))]
    if len(mains) != 1:
        raise Unsupported("main() not found")
    return mains[0]


def arg_names(call_args):
    out = []
    for a in call_args:
        u = unwrap(a)
        while u.get("kind") in CASTS or u.get("kind") in WRAP:      # only the NAME of the argument matters here
            u = unwrap(u["inner"][-1])
        if u.get("kind") == "CXXDefaultArgExpr":
            continue
        if u.get("kind") == "DeclRefExpr":
            out.append(u["referencedDecl"]["name"])
        elif u.get("kind") == "CXXMemberCallExpr":
            out.append("opts." + unwrap(u["inner"][0]).get("name", "?") + "()")
        elif u.get("kind") == "CXXConstructExpr" and len(u.get("inner", [])) == 1:
            out += arg_names(u["inner"])
        else:
            raise Unsupported("constructor argument of kind %s" % u.get("kind"))
    return out


def generate():
    m = main_decl()
    vardecls = find(m, lambda x: x.get("kind") == "VarDecl", [])
    locals_ = {v["name"] for v in vardecls}
    decl = {}
    for v in vardecls:
        if v["name"] in TARGETS + ["fs", "alpha0_tmp", "alpha", "slip"]:
            if v["name"] in decl:
                raise Unsupported("%s declared twice" % v["name"])
            decl[v["name"]] = v
    missing = [t for t in TARGETS + ["fs", "alpha0_tmp", "alpha", "slip"] if t not in decl]
    if missing:
        raise Unsupported("missing declarations: %r" % missing)
    # only fs and alpha0_tmp may be assigned after their declaration (once each, in the if/else that follows them)
    assigns = {}
    for a in find(m, lambda x: x.get("kind") in ("BinaryOperator", "CompoundAssignOperator")
                  and x.get("opcode", "").endswith("=") and x.get("opcode") not in ("==", "!=", "<=", ">="), []):
        lhs = unwrap(a["inner"][0])
        if lhs.get("kind") == "DeclRefExpr":
            assigns.setdefault(lhs["referencedDecl"]["name"], []).append(a)
    for t in TARGETS:
        if t in assigns:
            raise Unsupported("%s is assigned after its declaration" % t)
    if sorted(len(assigns.get(x, [])) for x in ("fs", "alpha0_tmp")) != [1, 1]:
        raise Unsupported("fs / alpha0_tmp: expected exactly one later assignment each")
    cx = Ctx(locals_, [v["id"] for v in vardecls])
    defs = []
    for t in TARGETS:
        init = decl[t]["inner"][-1]
        defs.append((t, lean(init, cx)))
        cx.field("v_" + t)
    # fs / alpha0_tmp: initial values and the if (fpclassify(fs) == FP_ZERO) { fs = … } else { alpha0_tmp = … }
    fs0 = lean(decl["fs"]["inner"][-1], cx)
    al0 = lean(decl["alpha0_tmp"]["inner"][-1], cx)
    ifs = [s for s in find(m, lambda x: x.get("kind") == "IfStmt", [])
           if any(a in find(s, lambda y: True, []) for a in assigns["fs"])]
    ifs = [s for s in ifs if any(a in find(s, lambda y: True, []) for a in assigns["alpha0_tmp"])]
    if not ifs:
        raise Unsupported("fs and alpha0_tmp are not assigned in one if/else")
    ifst = ifs[-1]                                   # innermost
    parts = [c for c in ifst["inner"] if c]
    if len(parts) != 3:
        raise Unsupported("if/else around fs, alpha0_tmp")
    cond = unwrap(parts[0])
    if cond.get("kind") != "BinaryOperator" or cond["opcode"] != "==":
        raise Unsupported("condition around fs, alpha0_tmp")
    cl = unwrap(cond["inner"][0])
    cr = unwrap(cond["inner"][1])
    ok = (cl.get("kind") == "CallExpr" and callee_name(cl) == "fpclassify"
          and unwrap(cl["inner"][1]).get("referencedDecl", {}).get("name") == "fs"
          and cr.get("kind") == "IntegerLiteral" and cr["value"] == "2")        # FP_ZERO
    if not ok:
        raise Unsupported("condition is not fpclassify(fs) == FP_ZERO")
    if assigns["fs"][0] not in find(parts[1], lambda y: True, []) \
            or assigns["alpha0_tmp"][0] not in find(parts[2], lambda y: True, []):
        raise Unsupported("fs must be derived in the then-branch, alpha0_tmp in the else-branch")
    for a in (assigns["fs"][0], assigns["alpha0_tmp"][0]):
        if a.get("opcode") != "=":
            raise Unsupported("compound assignment to fs / alpha0_tmp")
    # inside the branches the names fs / alpha0_tmp denote the values as set from the options
    fs_then = lean(assigns["fs"][0]["inner"][1], cx)
    al_else = lean(assigns["alpha0_tmp"][0]["inner"][1], cx)
    # alpha = {alpha0_tmp, getAlpha1, getAlpha2}; slip = {angle, alpha[1]/alpha[0]*angle, alpha[2]/alpha[0]*angle}
    def init_list(v):
        items = find(v, lambda x: x.get("kind") == "InitListExpr", [])
        if not items:
            raise Unsupported("%s: initialiser list" % v["name"])
        il = items[-1]
        return [lean(x, cx) for x in il["inner"]]
    alpha = init_list(decl["alpha"])
    slip = init_list(decl["slip"])
    if len(alpha) != 3 or len(slip) != 3:
        raise Unsupported("alpha / slip: expected three entries")
    cx.field("v_fs")
    cx.field("v_alpha0_tmp")
    cx.field("v_alpha", "Nat → α")
    cx.field("v_slip", "Nat → α")
    cx.field("flag_fs_is_zero", "Bool")
    # creation of the phase space
    news = [x for x in find(m, lambda x: x.get("kind") == "CXXNewExpr", [])
            if "PhaseSpace" in x.get("type", {}).get("qualType", "") and "DynamicRF" not in x["type"]["qualType"]]
    news = [x for x in news if x["type"]["qualType"].replace("vfps::", "").strip() in ("PhaseSpace *",)]
    if len(news) != 1:
        raise Unsupported("expected one `new PhaseSpace(...)` in main(), found %d" % len(news))
    ce = find(news[0], lambda x: x.get("kind") == "CXXConstructExpr", [])[0]
    grid_args = arg_names(ce["inner"])
    h5 = [x for x in find(m, lambda x: x.get("kind") == "CallExpr", []) if callee_name(x) == "makePSFromHDF5"]
    if len(h5) != 1:
        raise Unsupported("makePSFromHDF5 call")
    h5_args = arg_names(h5[0]["inner"][1:])
    setsize = [x for x in find(m, lambda x: x.get("kind") == "CallExpr", []) if callee_name(x) == "setSize"]
    if len(setsize) != 1:
        raise Unsupported("PhaseSpace::setSize call")
    setsize_args = arg_names(setsize[0]["inner"][1:])

    # creation of the results file: arguments as source text
    import re
    with open(cxxast.REPO + "/" + SRC) as fh:
        flat = re.sub(r"\s+", "", fh.read())
    mm = re.findall(r"hdf_file=newHDF5File\(((?:[^()]|\([^()]*\))*)\);", flat)
    if len(mm) != 1:
        raise Unsupported("creation of the results file: %d matches" % len(mm))
    h5_ctor_args, depth, cur = [], 0, ""
    for ch in mm[0]:
        if ch == "," and depth == 0:
            h5_ctor_args.append(cur)
            cur = ""
        else:
            depth += ch == "("
            depth -= ch == ")"
            cur += ch
    h5_ctor_args.append(cur)

    out = ["/- GENERATED by translator/gen_physics.py from %s (sha256 %s).\n   Do not edit: overwritten by every check run. -/"
           % (SRC, source_hash(SRC)),
           "import InovesaModel.Model.Scalar\nset_option linter.unusedVariables false\nnamespace Inovesa.Gen.Phys\nopen Inovesa\n",
           "/-- every symbol the parameter chain of main() mentions: option getters `o_`, physical constants `k_`, locals `v_`,\n"
           "    library functions, conditions -/",
           "structure PhysEnv (α : Type) where"]
    for f in sorted(cx.fields):
        out.append("  %s : %s" % (f, cx.fields[f]))
    out.append("\nvariable {α : Type} [Arith α]\n")
    for t, term in defs:
        out.append("/-- `%s` -/" % t)
        out.append("def p_%s (E : PhysEnv α) : α := %s\n" % (t, term))
    out += ["/-- `fs` and `alpha0_tmp` as read from the options -/",
            "def p_fs_option (E : PhysEnv α) : α := %s" % fs0.replace("E.v_fs", "E.o_getSyncFreq"),
            "def p_alpha0_option (E : PhysEnv α) : α := %s\n" % al0,
            "/-- `if (fpclassify(fs) == FP_ZERO) fs = …` (synchrotron frequency derived from alpha0; inside, `v_alpha0_tmp` is the option value) -/",
            "def p_fs_derived (E : PhysEnv α) : α := %s\n" % fs_then,
            "/-- `else alpha0_tmp = …` (alpha0 derived from the given synchrotron frequency; inside, `v_fs` is the option value) -/",
            "def p_alpha0_derived (E : PhysEnv α) : α := %s\n" % al_else,
            "/-- `alpha` and `slip` (momentum-compaction orders and the per-step slippage handed to DriftMap) -/",
            "def p_alpha (E : PhysEnv α) : List α := [%s]" % ", ".join(alpha),
            "def p_slip (E : PhysEnv α) : List α := [%s]\n" % ", ".join(slip),
            "/-- each local of main() holds its defining expression -/",
            "structure Chain (E : PhysEnv α) : Prop where"]
    for t, _ in defs:
        out.append("  h_%s : E.v_%s = p_%s E" % (t, t, t))
    out += ["  h_fs : E.v_fs = if E.flag_fs_is_zero then p_fs_derived E else p_fs_option E",
            "  h_alpha0_tmp : E.v_alpha0_tmp = if E.flag_fs_is_zero then p_alpha0_option E else p_alpha0_derived E"]
    out += ["  h_alpha : ∀ i, i < 3 → (p_alpha E)[i]? = some (E.v_alpha i)",
            "  h_slip : ∀ i, i < 3 → (p_slip E)[i]? = some (E.v_slip i)\n",
            "/-- arguments with which main() creates the phase space: fresh start, start from a results file; PhaseSpace::setSize -/",
            "def gridCtorArgs : List String := [%s]" % ", ".join('"%s"' % a for a in grid_args),
            "def h5StartArgs : List String := [%s]" % ", ".join('"%s"' % a for a in h5_args),
            "def setSizeArgs : List String := [%s]" % ", ".join('"%s"' % a for a in setsize_args),
            "/-- arguments with which main() creates the results file (file name, grid, field for the CSR records, impedance, number of tracked particles, …) -/",
            "def h5FileCtorArgs : List String := [%s]\n" % ", ".join('"%s"' % a for a in h5_ctor_args),
            "end Inovesa.Gen.Phys"]
    return "\n".join(out) + "\n"


if __name__ == "__main__":
    print(generate())
