"""G9i: table builders FreeSpaceCSR::__calcImpedance and ResistiveWall::__calcImpedance -> InovesaModel/Gen/ImpTables.lean

Both have the shape
    for (i = FIRST; i <= LAST; i++) rv.push_back(Z * LIBFN(i*delta));     for (i = LAST+1; i < n; i++) rv.push_back(0);
Emitted: FIRST, LAST (as a function of n), the start of the zero loop and its bound, the complex constant (free space) or
the structure `r * (1,-1)` (wall), and what the library function is applied to.  Tied to `freeSpaceCSR` /
`resistiveWall` (Model/Impedance.lean) in Props/TieImpedance.lean.  Fail-closed.
"""
from cxxast import Unsupported, ast_of, source_hash, f32_bits
from fractions import Fraction
from gen_rf import find

W = {"free": ("src/Z/FreeSpaceCSR.cpp", "FreeSpaceCSR"), "wall": ("src/Z/ResistiveWall.cpp", "ResistiveWall")}


def refs(node):
    return [d["referencedDecl"]["name"] for d in find(node, lambda m: m.get("kind") == "DeclRefExpr", [])]


def unwrap(node):
    while node["kind"] in ("ImplicitCastExpr", "ExprWithCleanups", "MaterializeTemporaryExpr", "ParenExpr", "ConstantExpr",
                           "CXXBindTemporaryExpr"):
        node = node["inner"][-1]
    return node


def nat(node):
    node = unwrap(node)
    k = node["kind"]
    if k == "IntegerLiteral":
        return node["value"]
    if k == "DeclRefExpr" and node["referencedDecl"]["name"] in ("n", "i"):
        return node["referencedDecl"]["name"]
    if k == "BinaryOperator" and node["opcode"] in ("+", "/", "*"):
        return "(%s %s %s)" % (nat(node["inner"][0]), node["opcode"], nat(node["inner"][1]))
    raise Unsupported("integer expression %s in a table builder" % k)


def analyse(src, cls):
    docs = [d for d in ast_of(src, cls + "::__calcImpedance") if d.get("kind") == "CXXMethodDecl" and d.get("name") == "__calcImpedance"
            and any(c.get("kind") == "CompoundStmt" for c in d.get("inner", []))]
    if len(docs) != 1:
        raise Unsupported("%s::__calcImpedance definition" % cls)
    body = [c for c in docs[0]["inner"] if c.get("kind") == "CompoundStmt"][0]
    loops = [s for s in body["inner"] if s.get("kind") == "ForStmt"]
    if len(loops) != 2:
        raise Unsupported("%s: expected two loops" % cls)
    res = {}
    for tag, f in zip(("fill", "zero"), loops):
        init = unwrap(f["inner"][0])
        v = init["inner"][0]
        if v.get("name") != "i":
            raise Unsupported("%s: loop variable" % cls)
        res[tag + "_first"] = nat(v["inner"][-1])
        c = unwrap(f["inner"][2])
        if c["kind"] != "BinaryOperator" or c["opcode"] not in ("<", "<=") or refs(c["inner"][0]) != ["i"]:
            raise Unsupported("%s: loop condition" % cls)
        res[tag + "_op"] = c["opcode"]
        res[tag + "_bound"] = nat(c["inner"][1])
        pb = [m for m in find(f["inner"][-1], lambda m: m.get("kind") == "CXXMemberCallExpr", [])
              if [x for x in find(m["inner"][0], lambda y: y.get("kind") == "MemberExpr", []) if x.get("name") == "push_back"]]
        if len(pb) != 1:
            raise Unsupported("%s: push_back" % cls)
        res[tag + "_arg"] = pb[0]["inner"][1]
    # zero loop pushes impedance_t(0,0)
    lits = [l.get("value") for l in find(res["zero_arg"], lambda m: m.get("kind") in ("IntegerLiteral", "FloatingLiteral"), [])]
    if [float(x) for x in lits] != [0.0, 0.0]:
        raise Unsupported("%s: second loop does not push (0,0)" % cls)
    # fill loop pushes  Z * fn(i*delta)
    arg = unwrap(res["fill_arg"])
    ops = [c for c in find(arg, lambda m: m.get("kind") == "CXXOperatorCallExpr", []) if refs(c["inner"][0])[:1] == ["operator*"]]
    if not ops:
        raise Unsupported("%s: pushed value is not a product" % cls)
    prod = ops[0]
    zname = refs(prod["inner"][1])
    call = [c for c in find(prod["inner"][2], lambda m: m.get("kind") == "CallExpr", [])]
    if not call:
        raise Unsupported("%s: second factor is not a library call" % cls)
    fn = refs(call[0]["inner"][0])[0]
    a0 = unwrap(call[0]["inner"][1])
    if a0["kind"] != "BinaryOperator" or a0["opcode"] != "*" or refs(a0["inner"][0]) != ["i"] or refs(a0["inner"][1]) != ["delta"]:
        raise Unsupported("%s: argument of %s is not i*delta" % (cls, fn))
    res.update(zname=zname[0] if zname else None, fn=fn, body=body, call=call[0])
    return res


def generate():
    fr = analyse(*W["free"])
    wl = analyse(*W["wall"])
    for r, cls in ((fr, "FreeSpaceCSR"), (wl, "ResistiveWall")):
        if r["fill_op"] != "<=" or r["zero_op"] != "<":
            raise Unsupported("%s: loop comparison operators" % cls)
    if fr["fn"] != "pow" or wl["fn"] != "sqrt":
        raise Unsupported("library functions are %s / %s" % (fr["fn"], wl["fn"]))
    # free space: constant Z0 = impedance_t(re, im); exponent 1/3
    z0 = [v for v in find(fr["body"], lambda m: m.get("kind") == "VarDecl" and m.get("name") == "Z0", [])]
    if len(z0) != 1 or fr["zname"] != "Z0":
        raise Unsupported("FreeSpaceCSR: constant Z0")
    lits = [l["value"] for l in find(z0[0], lambda m: m.get("kind") == "FloatingLiteral", [])]
    if len(lits) != 2:
        raise Unsupported("FreeSpaceCSR: Z0 literals")
    expo = [l["value"] for l in find(fr["call"]["inner"][2], lambda m: m.get("kind") in ("FloatingLiteral", "IntegerLiteral"), [])]
    if [float(x) for x in expo] != [1.0, 3.0]:
        raise Unsupported("FreeSpaceCSR: exponent is not 1/3 (%r)" % expo)

    def lit(v):
        fv = Fraction(repr(float(v)))     # shortest decimal that denotes the same double as the source literal
        return "(lit (%d) %d 0x%08x)" % (fv.numerator, fv.denominator, f32_bits(float(v)))
    # wall: Z1 = (frequency_t)(...) * impedance_t(1,-1)
    z1 = [v for v in find(wl["body"], lambda m: m.get("kind") == "VarDecl" and m.get("name") == "Z1", [])]
    if len(z1) != 1 or wl["zname"] != "Z1":
        raise Unsupported("ResistiveWall: constant Z1")
    tl = [l["value"] for l in find(z1[0], lambda m: m.get("kind") == "IntegerLiteral", [])]
    unary = [u for u in find(z1[0], lambda m: m.get("kind") == "UnaryOperator" and m.get("opcode") == "-", [])]
    if "1" not in tl or len(unary) != 1:
        raise Unsupported("ResistiveWall: Z1 is not r * (1,-1)")
    out = ["/- GENERATED by translator/gen_impedance.py from %s (sha256 %s) and %s (sha256 %s).\n"
           "   Do not edit: overwritten by every check run. -/" % (W["free"][0], source_hash(W["free"][0]), W["wall"][0], source_hash(W["wall"][0])),
           "import InovesaModel.Model.Scalar\nnamespace Inovesa.Gen\nopen Inovesa\n",
           "variable {α : Type} [Arith α]\n",
           "/-- FreeSpaceCSR: samples `first … last` (inclusive) are `Z0 · pow(i·Δ, 1/3)`, samples from `zeroFirst` to `n-1` are 0 -/",
           "def freeFirst : Nat := %s" % fr["fill_first"],
           "def freeLast (n : Nat) : Nat := %s" % fr["fill_bound"],
           "def freeZeroFirst (n : Nat) : Nat := %s" % fr["zero_first"],
           "def freeZeroBound (n : Nat) : Nat := %s" % fr["zero_bound"],
           "def freeZ0 : α × α := (%s, %s)\n" % (lit(lits[0]), lit(lits[1])),
           "/-- ResistiveWall: samples `first … last` are `Z1 · sqrt(i·Δ)` with `Z1 = r·(1, -1)` -/",
           "def wallFirst : Nat := %s" % wl["fill_first"],
           "def wallLast (n : Nat) : Nat := %s" % wl["fill_bound"],
           "def wallZeroFirst (n : Nat) : Nat := %s" % wl["zero_first"],
           "def wallZeroBound (n : Nat) : Nat := %s" % wl["zero_bound"],
           "def wallZ1 (r : α) : α × α := (r, (-r))\n",
           "end Inovesa.Gen"]
    return "\n".join(out) + "\n"


if __name__ == "__main__":
    print(generate())
