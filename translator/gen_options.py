"""G5: ProgramOptions constructor / parse() / save(std::string) -> InovesaModel/Gen/Options.lean

The option table is declarative text (boost::program_options `add_options()` chains), so
this fragment works on the *preprocessed* source (g++ -E -P with the repository's defines)
instead of the expression AST; member types come from clang's record layout.
Fail-closed: any construct outside the recognised forms raises Unsupported.
"""
import os
import re
import subprocess
from cxxast import Unsupported, REPO, ast_of, source_hash

SRC = "src/IO/ProgramOptions.cpp"
HDR = "inc/IO/ProgramOptions.hpp"

PP = ["g++", "-E", "-P", "-std=c++14", "-fext-numeric-literals",
      "-DINOVESA_ENABLE_INTERRUPT=1", "-DINOVESA_USE_HDF5=1", "-DINOVESA_USE_OPENCL=0",
      "-DINOVESA_USE_OPENGL=0", "-DINOVESA_USE_PNG=0", '-DGIT_BRANCH="main"', '-DGIT_COMMIT="verif"',
      "-I" + REPO + "/_build", "-I" + REPO + "/inc", "-I/usr/include/hdf5/serial"]


def preprocessed():
    p = subprocess.run(PP + [os.path.join(REPO, SRC)], stdout=subprocess.PIPE, stderr=subprocess.PIPE, text=True)
    if p.returncode != 0:
        raise Unsupported("preprocessing ProgramOptions.cpp failed: " + p.stderr[:500])
    return p.stdout


def balanced(s, i, open_ch="(", close_ch=")"):
    """s[i] == open_ch; returns index after the matching close (string literals respected)."""
    assert s[i] == open_ch
    depth = 0
    j = i
    n = len(s)
    while j < n:
        c = s[j]
        if c == '"':
            j += 1
            while j < n and s[j] != '"':
                if s[j] == "\\":
                    j += 1
                j += 1
        elif c == "'":
            j += 1
            while j < n and s[j] != "'":
                if s[j] == "\\":
                    j += 1
                j += 1
        elif c == open_ch:
            depth += 1
        elif c == close_ch:
            depth -= 1
            if depth == 0:
                return j + 1
        j += 1
    raise Unsupported("unbalanced " + open_ch)


def split_top(s):
    """split at top-level commas (parens, angle brackets of templates, strings respected)"""
    parts = []
    depth = 0
    ang = 0
    cur = []
    j = 0
    n = len(s)
    while j < n:
        c = s[j]
        if c == '"':
            k = j + 1
            while k < n and s[k] != '"':
                if s[k] == "\\":
                    k += 1
                k += 1
            cur.append(s[j:k + 1])
            j = k + 1
            continue
        if c in "([{":
            depth += 1
        elif c in ")]}":
            depth -= 1
        elif c == "<":
            ang += 1
        elif c == ">" and s[j - 1] != "-":
            ang = max(0, ang - 1)
        if c == "," and depth == 0 and ang == 0:
            parts.append("".join(cur).strip())
            cur = []
        else:
            cur.append(c)
        j += 1
    if "".join(cur).strip():
        parts.append("".join(cur).strip())
    return parts


def strlit(s):
    """value of a (possibly concatenated) C string literal expression"""
    out = []
    for m in re.finditer(r'"((?:[^"\\]|\\.)*)"', s):
        out.append(m.group(1))
    rest = re.sub(r'"((?:[^"\\]|\\.)*)"', "", s).strip()
    if rest:
        raise Unsupported("not a plain string literal: %r" % s[:80])
    return "".join(out)


def function_body(text, header_re):
    m = re.search(header_re, text)
    if not m:
        raise Unsupported("function %s not found" % header_re)
    # skip a constructor initialiser list: the body is the first `{` at parenthesis depth 0
    i = m.end()
    depth = 0
    while True:
        c = text[i]
        if c == '"':
            i += 1
            while text[i] != '"':
                if text[i] == "\\":
                    i += 1
                i += 1
        elif c == "(":
            depth += 1
        elif c == ")":
            depth -= 1
        elif c == "{" and depth == 0:
            break
        i += 1
    j = balanced(text, i, "{", "}")
    return text[m.end():i], text[i + 1:j - 1]


CTYPES = {
    "float": "f32", "double": "f64", "unsigned int": "u32", "uint32_t": "u32", "int": "i32",
    "int32_t": "i32", "long": "i64", "int64_t": "i64", "bool": "bool", "unsigned char": "u8",
    "uint_fast8_t": "u8", "std::string": "str", "std::basic_string<char>": "str",
    "std::vector<float>": "vecf32", "std::vector<float, std::allocator<float>>": "vecf32",
}


def member_types():
    docs = ast_of(HDR.replace("inc/", "src/").replace(".hpp", ".cpp") if False else SRC, "ProgramOptions")
    rec = [d for d in docs if d.get("kind") == "CXXRecordDecl" and d.get("name") == "ProgramOptions"
           and d.get("completeDefinition")]
    if not rec:
        raise Unsupported("class ProgramOptions not found in AST")
    types = {}
    for c in rec[0].get("inner", []):
        if c.get("kind") == "FieldDecl":
            t = c["type"].get("desugaredQualType", c["type"].get("qualType", ""))
            t = t.replace("const ", "").strip()
            types[c["name"]] = t
    return types


def norm_type(t):
    t = t.strip()
    t = t.replace("std::__cxx11::", "std::")
    t = re.sub(r"\s+", " ", t)
    if t in CTYPES:
        return CTYPES[t]
    if t.startswith("std::basic_string<char"):
        return "str"
    if t.startswith("std::vector<float"):
        return "vecf32"
    raise Unsupported("option value type %r" % t)


def parse_default(expr):
    """default_value(<expr>[, "text"]) -> canonical token text of the literal"""
    args = split_top(expr)
    e = args[0].strip()
    m = re.match(r"static_cast<.*?>\s*\((.*)\)$", e, re.S)
    if m:
        e = m.group(1).strip()
    if e in ("true", "false"):
        return "1" if e == "true" else "0"
    if e.startswith('"'):
        return "s:" + strlit(e)
    m = re.match(r"^([-+]?[0-9.]+(?:[eE][-+]?[0-9]+)?)([fFuU]?)$", e)
    if m:
        return ("f:" if m.group(2) in ("f", "F") else "") + m.group(1)
    raise Unsupported("default value expression %r" % e)


def parse_ctor(text):
    hdr, body = function_body(text, r"vfps::ProgramOptions::ProgramOptions\(\)\s*:")
    mtypes = member_types()
    groups = {}       # group var -> list of option dicts
    order = []
    comp = {}         # composite -> list of members
    i = 0
    stmts = []
    # split body into statements at top-level ';'
    depth = 0
    cur = []
    j = 0
    n = len(body)
    while j < n:
        c = body[j]
        if c == '"':
            k = j + 1
            while body[k] != '"':
                if body[k] == "\\":
                    k += 1
                k += 1
            cur.append(body[j:k + 1])
            j = k + 1
            continue
        if c in "([{":
            depth += 1
        elif c in ")]}":
            depth -= 1
        if c == ";" and depth == 0:
            stmts.append("".join(cur).strip())
            cur = []
        else:
            cur.append(c)
        j += 1
    if "".join(cur).strip():
        raise Unsupported("trailing text in constructor body")
    for st in stmts:
        m = re.match(r"^(\w+)\.add_options\(\)\s*(.*)$", st, re.S)
        if m:
            g = m.group(1)
            rest = m.group(2).strip()
            if g in groups:
                raise Unsupported("add_options twice on %s" % g)
            groups[g] = []
            order.append(g)
            k = 0
            while k < len(rest):
                if rest[k].isspace():
                    k += 1
                    continue
                if rest[k] != "(":
                    raise Unsupported("unexpected text in add_options chain: %r" % rest[k:k + 40])
                e = balanced(rest, k)
                args = split_top(rest[k + 1:e - 1])
                groups[g].append(parse_option(args, mtypes))
                k = e
            continue
        m = re.match(r"^(\w+)\.add\((\w+)\)$", st)
        if m:
            comp.setdefault(m.group(1), []).append(m.group(2))
            continue
        raise Unsupported("constructor statement %r" % st[:80])
    return groups, order, comp, mtypes


def parse_option(args, mtypes):
    if len(args) not in (2, 3):
        raise Unsupported("option with %d arguments" % len(args))
    nm = strlit(args[0])
    parts = nm.split(",")
    if len(parts) > 2 or (len(parts) == 2 and len(parts[1]) != 1):
        raise Unsupported("option name %r" % nm)
    o = dict(name=parts[0], short=parts[1] if len(parts) == 2 else "", ty="flag", var="", default=None,
             implicit=None, multitoken=False)
    if len(args) == 2:
        return o
    spec = args[1]
    m = re.match(r"^po::value<(.+?)>\s*\(\s*(?:&(\w+))?\s*\)(.*)$", spec, re.S)
    if not m:
        raise Unsupported("value specification %r" % spec[:80])
    ty, var, mods = m.group(1).strip(), m.group(2) or "", m.group(3).strip()
    dm = re.match(r"^decltype\((\w+)\)$", ty)
    if dm:
        if dm.group(1) not in mtypes:
            raise Unsupported("decltype of unknown member %s" % dm.group(1))
        ty = mtypes[dm.group(1)]
    elif ty == "std::vector<integral_t>":
        ty = "std::vector<float>"
    o["ty"] = norm_type(ty)
    if var:
        if var not in mtypes:
            raise Unsupported("bound variable %s is not a member" % var)
        if norm_type(mtypes[var]) != o["ty"]:
            raise Unsupported("option %s: value type %s but variable %s has type %s"
                              % (o["name"], o["ty"], var, mtypes[var]))
    o["var"] = var
    k = 0
    while k < len(mods):
        mm = re.match(r"->\s*(\w+)\s*", mods[k:])
        if not mm:
            raise Unsupported("modifier chain %r" % mods[k:k + 40])
        k += mm.end()
        if mods[k] != "(":
            raise Unsupported("modifier without call")
        e = balanced(mods, k)
        inner = mods[k + 1:e - 1].strip()
        k = e
        name = mm.group(1)
        if name == "default_value":
            o["default"] = parse_default(inner)
        elif name == "implicit_value":
            o["implicit"] = parse_default(inner)
        elif name == "multitoken":
            o["multitoken"] = True
        else:
            raise Unsupported("modifier %s" % name)
    return o


def flatten(comp, groups, g, seen=None):
    seen = seen or []
    if g in seen:
        raise Unsupported("cyclic option groups")
    out = []
    if g in groups:
        out += [g]
    for m in comp.get(g, []):
        out += flatten(comp, groups, m, seen + [g])
    return out


def parse_parse(text):
    """skeleton of ProgramOptions::parse: the ordered list of store/notify/SyncFreq-copy events"""
    hdr, body = function_body(text, r"bool vfps::ProgramOptions::parse\(int ac, char\*\* av\)")
    ev = []
    for m in re.finditer(r"(po::)?store\(\s*(po::)?(parse_command_line|parse_config_file)\(([^;]*?)\)\s*,\s*_vm\)|"
                         r"(po::)?notify\(_vm\)|"
                         r'for\s*\(const auto&\s*alias\s*:\s*option_aliases\)|'
                         r'if\s*\(_vm\.count\(alias\.first\)\s*&&\s*_vm\[alias\.second\]\.defaulted\(\)\)|'
                         r'_vm\.at\(alias\.second\)\.value\(\)\s*=\s*_vm\[alias\.first\]\.value\(\)|'
                         r'_vm\.at\("(\w+)"\)\.value\(\)\s*=\s*_vm\["(\w+)"\]\.value\(\)|'
                         r'if\s*\(_vm\.count\("(\w+)"\)\)|'
                         r'_configfile\s*==\s*"([^"]*)"|_configfile\s*!=\s*"([^"]*)"|'
                         r"return (true|false)|"
                         r"(po::)?store\(\s*(po::)?command_line_parser\(\s*ac\s*,\s*av\s*\)((?:\s*\.\w+\((?:[^()]|\([^()]*\))*\))+)\s*,\s*_vm\)",
                         body):
        s = m.group(0)
        if m.group(14) is not None:
            # builder form: command_line_parser(ac, av).options(X).positional(<empty description>).run()
            chain = re.findall(r"\.(\w+)\(((?:[^()]|\([^()]*\))*)\)", m.group(14))
            names = [c[0] for c in chain]
            if names[-1:] != ["run"] or names.count("options") != 1 or any(n not in ("options", "positional", "run") for n in names):
                raise Unsupported("command_line_parser chain: %r" % names)
            ev.append("store_cli:" + dict(chain)["options"].strip())
            if "positional" in names:
                if re.sub(r"\s", "", dict(chain)["positional"]) not in ("po::positional_options_description()",
                                                                        "positional_options_description()"):
                    raise Unsupported("positional options are described: %r" % dict(chain)["positional"])
                ev.append("no_positional")
            continue
        if s.startswith("for") and "option_aliases" in s:
            ev.append("aliasloop")
        elif "alias.first" in s and s.startswith("if"):
            ev.append("aliascond:given(first)&&defaulted(second)")
        elif "alias.second" in s and "value()" in s:
            ev.append("aliascopy:second<-first")
        elif "parse_command_line" in s:
            a = m.group(4).split(",")[-1].strip()
            ev.append("store_cli:" + a)
        elif "parse_config_file" in s:
            a = m.group(4).split(",")[-1].strip()
            ev.append("store_cfg:" + a)
        elif "notify" in s:
            ev.append("notify")
        elif m.group(6):
            ev.append("copy:%s<-%s" % (m.group(6), m.group(7)))
        elif m.group(8):
            ev.append("ifcount:" + m.group(8))
        elif m.group(9) is not None:
            ev.append("cfgeq:" + m.group(9))
        elif m.group(10) is not None:
            ev.append("cfgne:" + m.group(10))
        elif m.group(11):
            ev.append("return:" + m.group(11))
    return ev


def parse_aliases(text):
    m = re.search(r"option_aliases\s*\{\{(.*?)\}\};", text, re.S)
    if not m:
        return []
    pairs = re.findall(r'\{\s*"(\w+)"\s*,\s*"(\w+)"\s*\}', m.group(1))
    rest = re.sub(r'\{\s*"(\w+)"\s*,\s*"(\w+)"\s*\}', "", m.group(1)).replace(",", "").strip()
    if rest:
        raise Unsupported("option_aliases initialiser: %r" % rest[:60])
    return pairs


def parse_save(text):
    hdr, body = function_body(text, r"void vfps::ProgramOptions::save\(std::string fname\)")
    skip = []
    m = re.search(r"if\s*\((.*?)\)\s*\{\s*continue;", body, re.S)
    if not m:
        raise Unsupported("save(): skip list not found")
    for mm in re.finditer(r'it->first\s*==\s*"(\w+)"', m.group(1)):
        skip.append(mm.group(1))
    rest = body[m.end():]
    # special case(s): if (it->first == "X" && <cond>) { ofs << "X=V" ...; continue; }
    specials = []
    for mm in re.finditer(r'if\s*\(\s*it->first\s*==\s*"(\w+)"\s*&&\s*(.*?)\)\s*\{\s*ofs\s*<<\s*"([^"]*)"', rest, re.S):
        cond = re.sub(r"\s+", "", mm.group(2))
        # FP_ZERO is 2 in glibc's <math.h>; canonicalise the two recognised forms
        cm = re.match(r"^std::fpclassify\((\w+)\)(==|!=)2$", cond)
        if not cm:
            raise Unsupported("save(): special-case condition %r" % cond)
        cond = "%s%s0" % (cm.group(1), cm.group(2))
        specials.append((mm.group(1), cond, mm.group(3)))
    types = []
    for mm in re.finditer(r"typeid\(([\w:<>]+)\)", rest):
        types.append(mm.group(1))
    vec = bool(re.search(r"std::vector<", rest))
    # full precision = the stream precision is raised to max_digits10 of double (17 significant digits: enough to read
    # every double back exactly; digits10 = 15 is NOT) before anything is written, and never lowered again
    pm = re.findall(r"setprecision\(\s*((?:[^()]|\([^()]*\))*)\)", body)
    prec = bool(pm) and all(re.sub(r"\s", "", a) in ("std::numeric_limits<double>::max_digits10",
                                                     "std::numeric_limits<longdouble>::max_digits10") for a in pm)
    comment_config = bool(re.search(r'it->first\s*==\s*"config"\)\s*\{\s*ofs\s*<<\s*\'#\'', rest))
    string_fallback = "as<std::string>" in rest
    return dict(skip=skip, specials=specials, types=types, vector=vec, precision=prec,
                comment_config=comment_config, string_fallback=string_fallback)


TYMAP = {"f32": ".f32", "f64": ".f64", "u32": ".u32", "i32": ".i32", "i64": ".i64", "bool": ".bool",
         "u8": ".u8", "str": ".str", "vecf32": ".vecf32", "flag": ".flag"}
SAVE_TY = {"float": "f32", "double": "f64", "int32_t": "i32", "uint32_t": "u32", "int64_t": "i64", "bool": "bool"}


def lstr(s):
    return '"' + s.replace("\\", "\\\\").replace('"', '\\"') + '"'


def generate():
    text = preprocessed()
    groups, order, comp, mtypes = parse_ctor(text)
    cli_groups = flatten(comp, groups, "_commandlineopts")
    cfg_groups = flatten(comp, groups, "_cfgfileopts")
    if not cli_groups or not cfg_groups:
        raise Unsupported("option group composition not recognised")
    ev = parse_parse(text)
    aliases = parse_aliases(text)
    sv = parse_save(text)
    out = []
    out.append("/- GENERATED by translator/gen_options.py from %s (sha256 %s).\n"
               "   Do not edit: overwritten by every check run. -/" % (SRC, source_hash(SRC)))
    out.append("namespace Inovesa.Gen\n")
    out.append("inductive OptTy where\n  | flag | f32 | f64 | u32 | i32 | i64 | bool | u8 | str | vecf32\n  deriving Repr, DecidableEq\n")
    out.append("structure OptSpec where\n  name : String\n  short : String\n  ty : OptTy\n  var : String\n"
               "  default : Option String\n  implicit : Option String\n  multitoken : Bool\n  group : String\n  deriving Repr, DecidableEq\n")
    out.append("/-- every option declared by the ProgramOptions constructor, by declaring group -/")
    out.append("def optionDecls : List OptSpec := [")
    rows = []
    for g in order:
        for o in groups[g]:
            rows.append("  { name := %s, short := %s, ty := %s, var := %s, default := %s, implicit := %s, multitoken := %s, group := %s }"
                        % (lstr(o["name"]), lstr(o["short"]), TYMAP[o["ty"]], lstr(o["var"]),
                           ("some " + lstr(o["default"])) if o["default"] is not None else "none",
                           ("some " + lstr(o["implicit"])) if o["implicit"] is not None else "none",
                           "true" if o["multitoken"] else "false", lstr(g)))
    out.append(",\n".join(rows))
    out.append("]\n")
    out.append("/-- groups (in order) making up the command-line description `_commandlineopts` -/")
    out.append("def cliGroups : List String := [%s]" % ", ".join(lstr(g) for g in cli_groups))
    out.append("/-- groups (in order) making up the config-file description `_cfgfileopts` -/")
    out.append("def cfgGroups : List String := [%s]\n" % ", ".join(lstr(g) for g in cfg_groups))
    out.append("/-- event skeleton of `ProgramOptions::parse` in source order -/")
    out.append("def parseSkeleton : List String := [%s]\n" % ", ".join(lstr(e) for e in ev))
    out.append("/-- legacy option names and the current names they are mapped onto by `parse` -/")
    out.append("def optionAliases : List (String × String) := [%s]\n"
               % ", ".join("(%s, %s)" % (lstr(a), lstr(b)) for a, b in aliases))
    out.append("/-- `save(std::string)`: keys never written -/")
    out.append("def saveSkip : List String := [%s]" % ", ".join(lstr(k) for k in sv["skip"]))
    out.append("/-- `save`: special cases (key, condition text, text written instead of the value) -/")
    out.append("def saveSpecials : List (String × String × String) := [%s]"
               % ", ".join("(%s, %s, %s)" % (lstr(a), lstr(b), lstr(c)) for a, b, c in sv["specials"]))
    tys = []
    for t in sv["types"]:
        if t in SAVE_TY:
            tys.append(TYMAP[SAVE_TY[t]])
        elif t.startswith("std::vector"):
            tys.append(".vecf32")
        else:
            raise Unsupported("save(): typeid(%s)" % t)
    if sv["string_fallback"]:
        tys.append(".str")
    out.append("/-- `save`: value types a branch exists for (others are silently dropped) -/")
    out.append("def saveTypes : List OptTy := [%s]" % ", ".join(dict.fromkeys(tys)))
    out.append("/-- `save`: does the code raise the stream precision to round-trip floats? -/")
    out.append("def saveFullPrecision : Bool := %s" % ("true" if sv["precision"] else "false"))
    out.append("/-- `save`: the `config` key is written as a comment -/")
    out.append("def saveCommentsConfig : Bool := %s\n" % ("true" if sv["comment_config"] else "false"))
    out.append("end Inovesa.Gen\n")
    return "\n".join(out)


if __name__ == "__main__":
    print(generate())
