"""G9e: index arithmetic of KickMap::apply (src/SM/KickMap.cpp, CPU path) -> InovesaModel/Gen/KickApply.lean

For each kick direction the translator walks the loop nest and extracts, as Lean `Nat` terms in the loop variables:
the table index `_hinfo[...]`, the source cell (`static_cast<meshindex_t>(int32(a) - int32(b))`, emitted with the
explicit 2^32 wrap), the bound of its guard, the read index into `data_in` and the write index into `data_out`.
Tied to `srcCell`, `applyX`, `applyY` (Model/KickMap.lean) in Props/Tie.lean.  Fail-closed.
"""
from cxxast import Unsupported, ast_of, strip, source_hash
from gen_rf import find

SRC = "src/SM/KickMap.cpp"
W32 = 4294967296
NAMES = {"_meshsize_kd": "kd", "_meshsize_pd": "pd", "_ip": "ip", "_lastbunch": "lastbunch", "n": "b", "x": "x", "y": "y",
         "j": "j"}


def refs(node):
    return [d["referencedDecl"]["name"] for d in find(node, lambda m: m.get("kind") == "DeclRefExpr", [])]


def members(node):
    return [m.get("name") for m in find(node, lambda m: m.get("kind") == "MemberExpr", [])]


def unwrap(node):
    """strip wrappers, but keep explicit casts (cxxast.strip would drop `static_cast` nodes of kind NoOp)"""
    while node["kind"] in ("ImplicitCastExpr", "ExprWithCleanups", "MaterializeTemporaryExpr", "ParenExpr", "ConstantExpr",
                           "CXXBindTemporaryExpr"):
        node = node["inner"][-1]
    return node


def is_cast_to(node, ty):
    return node["kind"] in ("CXXStaticCastExpr", "CXXFunctionalCastExpr", "CStyleCastExpr") and \
        (node.get("type") or {}).get("qualType", "").replace("vfps::", "") in ty


class Nat:
    def __init__(self, locals_):
        self.locals = locals_

    def tr(self, node):
        node = unwrap(node)
        k = node["kind"]
        if k == "IntegerLiteral":
            return node["value"]
        if k == "DeclRefExpr":
            nm = node["referencedDecl"]["name"]
            if nm in self.locals:
                return self.locals[nm]
            if nm in NAMES:
                return NAMES[nm]
            if nm == "nb":
                return "nb"
            raise Unsupported("integer variable %s in KickMap::apply" % nm)
        if k == "MemberExpr":
            nm = node["name"]
            if nm == "index":
                return "idx"
            if nm in NAMES:
                return NAMES[nm]
            raise Unsupported("member %s in KickMap::apply" % nm)
        if k in ("CXXStaticCastExpr", "CXXFunctionalCastExpr", "CStyleCastExpr"):
            if is_cast_to(node, ("meshindex_t", "unsigned int", "uint32_t")):
                inner = unwrap(node["inner"][-1])
                if inner["kind"] == "BinaryOperator" and inner["opcode"] == "-":
                    a, b = unwrap(inner["inner"][0]), unwrap(inner["inner"][1])
                    if is_cast_to(a, ("int32_t", "int")) and is_cast_to(b, ("int32_t", "int")):
                        return "((%s + %d - %s) %% %d)" % (self.tr(a["inner"][-1]), W32, self.tr(b["inner"][-1]), W32)
                    raise Unsupported("unsigned cast of a difference that is not int32(a) - int32(b)")
                return self.tr(inner)
            raise Unsupported("cast to %s" % (node.get("type") or {}).get("qualType"))
        if k == "BinaryOperator":
            op = node["opcode"]
            if op in ("+", "*", "/"):
                return "(%s %s %s)" % (self.tr(node["inner"][0]), op, self.tr(node["inner"][1]))
            raise Unsupported("integer operator %s in KickMap::apply" % op)
        if k == "CallExpr" and refs(node["inner"][0])[:1] == ["min"]:
            return "(min %s %s)" % (self.tr(node["inner"][1]), self.tr(node["inner"][2]))
        raise Unsupported("integer expression node %s in KickMap::apply" % k)


def subscript_of(node, base):
    """index expression of base[...] (pointer subscript) below node"""
    subs = find(node, lambda m: m.get("kind") == "ArraySubscriptExpr", [])
    subs = [s for s in subs if base in refs(s["inner"][0]) + members(s["inner"][0])]
    if len(subs) != 1:
        raise Unsupported("%d subscripts of %s" % (len(subs), base))
    return subs[0]["inner"][1]


def branch(blk, along):
    """walk the loop nest of one direction"""
    locals_ = {}
    nat = Nat(locals_)
    loopvars = []
    cur = blk
    while True:
        stmts = [strip(s) for s in (cur["inner"] if cur["kind"] == "CompoundStmt" else [cur])]
        fors = [s for s in stmts if s["kind"] == "ForStmt"]
        for s in stmts:
            if s["kind"] == "DeclStmt":
                for v in s["inner"]:
                    if v["name"] not in ("value", "h") and "inner" in v:
                        locals_[v["name"]] = nat.tr(v["inner"][-1])
        if len(fors) != 1:
            raise Unsupported("loop nest of KickMap::apply")
        # nothing but declarations, the next loop and (innermost level) the store may stand at a level of the nest
        extra = [s["kind"] for s in stmts if s["kind"] not in ("DeclStmt", "ForStmt")
                 and not (s["kind"] == "BinaryOperator" and s.get("opcode") == "=" and "data_out" in refs(s["inner"][0]))]
        if extra:
            raise Unsupported("additional statements in the loop nest of KickMap::apply: %r" % extra)
        f = fors[0]
        var = strip(f["inner"][0])["inner"][0]["name"]
        bound = nat.tr(strip(f["inner"][2])["inner"][1])
        loopvars.append((var, bound))
        if var == "j":
            # statements around the j loop at this level: data_out[...] = value
            outs = [s for s in stmts if s["kind"] == "BinaryOperator" and s["opcode"] == "="
                    and "data_out" in refs(s["inner"][0])]
            if len(outs) != 1 or refs(outs[0]["inner"][1]) != ["value"]:
                raise Unsupported("write to data_out")
            write = nat.tr(subscript_of(outs[0]["inner"][0], "data_out"))
            body = f["inner"][-1]
            bst = [strip(s) for s in body["inner"]]
            if sorted(s["kind"] for s in bst) != ["DeclStmt", "DeclStmt", "IfStmt"]:
                raise Unsupported("body of the j loop of KickMap::apply: %r" % [s["kind"] for s in bst])
            hdecl = [v for s in bst if s["kind"] == "DeclStmt" for v in s["inner"] if v["name"] == "h"]
            if len(hdecl) != 1:
                raise Unsupported("hi h = _hinfo[...]")
            tab = nat.tr(subscript_of(hdecl[0], "_hinfo"))
            sdecl = [v for s in bst if s["kind"] == "DeclStmt" for v in s["inner"] if v["name"] in ("xs", "ys")]
            if len(sdecl) != 1:
                raise Unsupported("source cell declaration")
            src = nat.tr(sdecl[0]["inner"][-1])
            locals_[sdecl[0]["name"]] = "s"
            ifs = [s for s in bst if s["kind"] == "IfStmt"]
            if len(ifs) != 1:
                raise Unsupported("guard of the source cell")
            cond = strip([c for c in ifs[0]["inner"] if c][0])
            if cond["kind"] != "BinaryOperator" or cond["opcode"] != "<" or refs(cond["inner"][0]) != [sdecl[0]["name"]]:
                raise Unsupported("guard is not <source cell> < bound")
            gbound = nat.tr(cond["inner"][1])
            acc = find([c for c in ifs[0]["inner"] if c][1], lambda m: m.get("kind") == "CompoundAssignOperator", [])
            if len(acc) != 1 or acc[0]["opcode"] != "+=" or refs(acc[0]["inner"][0]) != ["value"]:
                raise Unsupported("accumulation statement")
            if "weight" not in members(acc[0]["inner"][1]):
                raise Unsupported("accumulation does not multiply by h.weight")
            read = nat.tr(subscript_of(acc[0]["inner"][1], "data_in"))
            return dict(loops=loopvars, tab=tab, src=src, guard=gbound, read=read, write=write)
        cur = f["inner"][-1]


def sizes():
    """table size handed to SourceMap by the KickMap constructor, size of `_offset`, and SourceMap's allocation"""
    ctors = [d for d in ast_of(SRC, "KickMap::KickMap") if d.get("kind") == "CXXConstructorDecl"
             and any(c.get("kind") == "CompoundStmt" for c in d.get("inner", []))]
    if len(ctors) != 1:
        raise Unsupported("KickMap constructor")
    base = [i for i in ctors[0]["inner"] if i.get("kind") == "CXXCtorInitializer" and "SourceMap" in str((i.get("baseInit") or {}))]
    if len(base) != 1:
        raise Unsupported("SourceMap base initialiser")
    ce = find(base[0], lambda m: m.get("kind") == "CXXConstructExpr", [])[0]
    mem = unwrap(ce["inner"][4])
    if mem["kind"] != "ConditionalOperator" or "kd" not in refs(mem["inner"][0]) or "x" not in refs(mem["inner"][0]):
        raise Unsupported("memsize argument is not kd==Axis::x ? … : …")

    class N2(Nat):
        def tr(self, node):
            n0 = unwrap(node)
            if n0["kind"] == "DeclRefExpr" and n0["referencedDecl"]["name"] in ("nx", "ny", "nb", "it"):
                return n0["referencedDecl"]["name"]
            return Nat.tr(self, node)
    t = N2({})
    mem_x, mem_y = t.tr(mem["inner"][1]), t.tr(mem["inner"][2])
    rs = [c for c in find(ctors[0], lambda m: m.get("kind") == "CXXMemberCallExpr", [])
          if "resize" in members(c["inner"][0]) and "_offset" in members(c["inner"][0])]
    if len(rs) != 1:
        raise Unsupported("_offset.resize")
    off = t.tr(rs[0]["inner"][1])
    # SourceMap: _hinfo(new hi[std::max(memsize, 16)])
    sm = [d for d in ast_of("src/SM/SourceMap.cpp", "SourceMap::SourceMap") if d.get("kind") == "CXXConstructorDecl"]
    alloc = None
    for d in sm:
        for i in [x for x in d.get("inner", []) if x.get("kind") == "CXXCtorInitializer" and (x.get("anyInit") or {}).get("name") == "_hinfo"]:
            mx = [c for c in find(i, lambda m: m.get("kind") == "CallExpr", []) if refs(c["inner"][0])[:1] == ["max"]]
            lits = [l["value"] for l in find(i, lambda m: m.get("kind") == "IntegerLiteral", [])]
            if mx and "memsize" in refs(mx[0]) and len(lits) == 1:
                alloc = int(lits[0])
    if alloc is None:
        raise Unsupported("SourceMap allocation is not new hi[max(memsize, c)]")
    return mem_x, mem_y, off, alloc


def generate():
    docs = [d for d in ast_of(SRC, "KickMap::apply") if d.get("kind") == "CXXMethodDecl" and d.get("name") == "apply"
            and any(c.get("kind") == "CompoundStmt" for c in d.get("inner", []))]
    if len(docs) != 1:
        raise Unsupported("KickMap::apply definition")
    body = [c for c in docs[0]["inner"] if c.get("kind") == "CompoundStmt"][0]
    ifs = [s for s in find(body, lambda m: m.get("kind") == "IfStmt", []) if "_kickdirection" in members(strip([c for c in s["inner"] if c][0]))]
    if len(ifs) != 1:
        raise Unsupported("if (_kickdirection == Axis::x)")
    cond, then, els = [c for c in ifs[0]["inner"] if c][:3]
    if "x" not in refs(cond):
        raise Unsupported("direction test is not == Axis::x")
    bx, by = branch(then, "x"), branch(els, "y")
    if [v for v, _ in bx["loops"]] != ["n", "x", "y", "j"] or [v for v, _ in by["loops"]] != ["n", "x", "y", "j"]:
        raise Unsupported("loop order")
    out = ["/- GENERATED by translator/gen_kickapply.py from %s (sha256 %s).\n   Do not edit: overwritten by every check run. -/"
           % (SRC, source_hash(SRC)),
           "namespace Inovesa.Gen\n",
           "/-! index arithmetic of `KickMap::apply`; `b` bunch, `x`,`y` cell, `j` table entry, `idx` = `h.index`, `s` = the\n"
           "    source cell, `kd`/`pd` = mesh size along / perpendicular to the kick, `ip` entries per table row -/\n"]
    for tag, br in (("X", bx), ("Y", by)):
        out += ["/-- kick along %s: loop bounds (bunch, x, y, j) -/" % tag.lower(),
                "def kick%sBounds (nb kd pd ip : Nat) : List Nat := [%s]" % (tag, ", ".join(b for _, b in br["loops"])),
                "def kick%sTab (b lastbunch kd pd ip x y j : Nat) : Nat := %s" % (tag, br["tab"]),
                "def kick%sSrc (kd pd x y idx : Nat) : Nat := %s" % (tag, br["src"]),
                "def kick%sGuard (kd pd : Nat) : Nat := %s" % (tag, br["guard"]),
                "def kick%sRead (b kd pd x y s : Nat) : Nat := %s" % (tag, br["read"]),
                "def kick%sWrite (b kd pd x y : Nat) : Nat := %s\n" % (tag, br["write"])]
    mem_x, mem_y, off, alloc = sizes()
    out += ["/-- number of table entries the KickMap constructor asks SourceMap for (kick along x / along y), the number SourceMap\n"
            "    allocates for a request, and the size of `_offset` -/",
            "def kickMemsizeX (nx ny nb it : Nat) : Nat := %s" % mem_x,
            "def kickMemsizeY (nx ny nb it : Nat) : Nat := %s" % mem_y,
            "def kickAlloc (memsize : Nat) : Nat := max memsize %d" % alloc,
            "def kickOffsetSize (pd nb : Nat) : Nat := %s\n" % off]
    out.append("end Inovesa.Gen")
    return "\n".join(out) + "\n"


if __name__ == "__main__":
    print(generate())
