"""G9a: RFKickMap::_calcKick (src/SM/RFKickMap.cpp) -> InovesaModel/Gen/RFOffsets.lean

Symbolic execution of the two loops that fill `_offset[x]` (linear and sinusoidal RF): the final
value of `_offset[x]` after the `=`, `+=`, `*=` statements of the loop body, as a Lean term over the
abstract scalar.  Library calls become parameters: `std::tan(_angle)` -> `tanv`, the sine -> `sinv x`
(its argument is emitted separately as `rfSinArg`).  The hand model (Model/RFDrift.lean) is proved equal
to these definitions by `rfl` in Props/Tie.lean.  Fail-closed.
"""
from cxxast import Unsupported, ast_of, strip, ExprTranslator, E, fold, lean_lit, f32_bits, source_hash

SRC = "src/SM/RFKickMap.cpp"


def find(node, pred, out):
    if isinstance(node, dict):
        if pred(node):
            out.append(node)
        for c in node.get("inner", []) or []:
            find(c, pred, out)
    return out


def axis_index(node):
    """index k of `_axis[k]` / `getAxis(k)` somewhere below node"""
    lits = []
    for n in find(node, lambda n: n.get("kind") in ("CXXOperatorCallExpr", "CXXMemberCallExpr"), []):
        names = [m.get("name") for m in find(n, lambda m: m.get("kind") == "MemberExpr", [])]
        if "_axis" in names or "getAxis" in names:
            for l in find(n, lambda m: m.get("kind") == "IntegerLiteral", []):
                lits.append(int(l["value"]))
    if not lits:
        raise Unsupported("axis index not found")
    return lits[0]


def emit(e):
    if e.is_const():
        ideal, coded = fold(e)
        return lean_lit(ideal, f32_bits(float(coded)))
    if e.kind == "var":
        return e.lean
    if e.kind == "neg":
        return "(-%s)" % emit(e.a)
    if e.kind == "cast":
        if e.a.ty == "int" and e.a.kind == "var":
            return "((%s : Nat) : α)" % e.a.lean
        if e.ty in ("f32", "f64") and e.a.ty in ("f32", "f64"):
            return emit(e.a)          # the abstract scalar has one precision (see DESIGN.md §3)
        raise Unsupported("cast %s -> %s" % (e.a.ty, e.ty))
    if e.kind == "bin":
        return "(%s %s %s)" % (emit(e.a), e.op, emit(e.b))
    raise Unsupported("emit " + e.kind)


class Exec:
    def __init__(self):
        self.locals = {}
        self.sin_arg = None
        self.tr = ExprTranslator(self.ref, self.call)

    def ref(self, name, node):
        if name in self.locals:
            return self.locals[name]
        table = {"_syncphase": "syncphase", "phase": "phase", "ampl": "ampl", "_bl2phase": "bl2phase",
                 "_revolutionpart": "revpart", "_V_RF": "vrf", "_V0": "v0"}
        if name in table:
            return E("var", "f32", lean=table[name])
        if name == "x":
            return E("var", "int", lean="x")
        raise Unsupported("reference to %s in _calcKick" % name)

    def call(self, node, tr):
        callee = strip(node["inner"][0])
        nm = callee.get("name") or (callee.get("referencedDecl") or {}).get("name")
        while nm is None and callee.get("inner"):
            callee = strip(callee["inner"][0])
            nm = callee.get("name") or (callee.get("referencedDecl") or {}).get("name")
        if nm == "tan":
            arg = strip(node["inner"][1])
            names = [m.get("name") for m in find(arg, lambda m: m.get("kind") == "MemberExpr", [])]
            if names != ["_angle"]:
                raise Unsupported("tan of something else than _angle")
            return E("var", "f32", lean="tanv")
        if nm == "sin":
            self.sin_arg = self.tr.tr(node["inner"][1])
            return E("var", "f32", lean="(sinv x)")
        if nm == "zerobin":
            return E("var", "f32", lean={0: "xcenter"}.get(axis_index(node), None) or self.bad("zerobin of axis 1"))
        if nm == "delta":
            return E("var", "f32", lean="delta%d" % axis_index(node))
        if nm == "scale":
            s = find(node, lambda m: m.get("kind") == "StringLiteral", [])
            if axis_index(node) != 1 or not s or "ElectronVolt" not in s[0].get("value", ""):
                raise Unsupported("scale() other than axis 1 in eV")
            return E("var", "f32", lean="scaleEV")
        if nm == "at":
            if axis_index(node) != 0:
                raise Unsupported("at() of axis 1")
            args = [a for a in node["inner"][1:]]
            a = self.tr.tr(args[0])
            if not (a.kind == "var" and a.lean == "x") and not (a.kind == "cast" and a.a.kind == "var" and a.a.lean == "x"):
                raise Unsupported("at(<not x>)")
            return E("var", "f32", lean="(at0 x)")
        raise Unsupported("call to %s in _calcKick" % nm)

    def bad(self, what):
        raise Unsupported(what)

    def run_loop(self, loop):
        body = loop["inner"][-1]
        stmts = body["inner"] if body["kind"] == "CompoundStmt" else [body]
        val = None
        for s in stmts:
            s0 = strip(s)
            if s0["kind"] not in ("BinaryOperator", "CompoundAssignOperator"):
                raise Unsupported("statement %s in the offset loop" % s0["kind"])
            lhs = strip(s0["inner"][0])
            names = [m.get("name") for m in find(lhs, lambda m: m.get("kind") == "MemberExpr", [])]
            idx = [d["referencedDecl"]["name"] for d in find(lhs, lambda m: m.get("kind") == "DeclRefExpr"
                                                            and m["referencedDecl"].get("name") not in ("operator[]",), [])]
            if names != ["_offset"] or idx != ["x"]:
                raise Unsupported("assignment target is not _offset[x]")
            rhs = self.tr.tr(s0["inner"][1])
            op = s0["opcode"]
            if op == "=":
                val = rhs
            elif op in ("+=", "-=", "*=", "/=") and val is not None:
                val = E("bin", "f32", op=op[0], a=val, b=rhs)
            else:
                raise Unsupported("operator %s in the offset loop" % op)
        if val is None:
            raise Unsupported("offset loop without assignment")
        return val


def generate():
    docs = [d for d in ast_of(SRC, "_calcKick") if any(c.get("kind") == "CompoundStmt" for c in d.get("inner", []))]
    if len(docs) != 1:
        raise Unsupported("_calcKick definition")
    body = [c for c in docs[0]["inner"] if c.get("kind") == "CompoundStmt"][0]
    ifs = [s for s in body["inner"] if s.get("kind") == "IfStmt"]
    if len(ifs) != 1:
        raise Unsupported("_calcKick: expected one if (_linear)")
    cond, then, els = [c for c in ifs[0]["inner"] if c][:3]
    if [m.get("name") for m in find(cond, lambda m: m.get("kind") == "MemberExpr", [])] != ["_linear"]:
        raise Unsupported("condition is not _linear")
    res = {}
    for tag, blk in (("lin", then), ("sin", els)):
        ex = Exec()
        loops = []
        for s in blk["inner"]:
            s0 = strip(s)
            if s0["kind"] == "DeclStmt":
                for v in s0["inner"]:
                    ex.locals[v["name"]] = ex.tr.tr(v["inner"][-1])
            elif s0["kind"] == "ForStmt":
                loops.append(s0)
            else:
                raise Unsupported("statement %s in _calcKick" % s0["kind"])
        if len(loops) != 1:
            raise Unsupported("expected one loop per RF model")
        cnd = strip(loops[0]["inner"][2])
        if [m.get("name") for m in find(cnd, lambda m: m.get("kind") == "MemberExpr", [])] != ["_xsize"]:
            raise Unsupported("loop bound is not _xsize")
        res[tag] = (emit(ex.run_loop(loops[0])), ex.sin_arg)
    if res["sin"][1] is None or res["lin"][1] is not None:
        raise Unsupported("sine call placement")
    out = ["/- GENERATED by translator/gen_rf.py from %s (sha256 %s).\n   Do not edit: overwritten by every check run. -/"
           % (SRC, source_hash(SRC)),
           "import InovesaModel.Model.Scalar\nnamespace Inovesa.Gen\nopen Inovesa\n",
           "variable {α : Type} [Arith α] [NatCast α]\n",
           "/-- `_offset[x]` after the linear-RF loop of `_calcKick(phase, ampl)`; `tanv = std::tan(_angle)`,\n"
           "    `xcenter` = zero bin of the position axis, `delta0` its cell size -/",
           "def rfOffsetLinear (tanv xcenter bl2phase delta0 syncphase phase ampl : α) (x : Nat) : α :=\n  %s\n" % res["lin"][0],
           "/-- `_offset[x]` after the sinusoidal-RF loop; `sinv x` = the library sine of `rfSinArg … x` -/",
           "def rfOffsetSin (revpart vrf v0 delta1 scaleEV ampl : α) (sinv : Nat → α) (x : Nat) : α :=\n  %s\n" % res["sin"][0],
           "/-- argument of that sine; `at0 x` = position coordinate of cell `x` -/",
           "def rfSinArg (at0 : Nat → α) (bl2phase phase : α) (x : Nat) : α :=\n  %s\n" % emit(res["sin"][1]),
           "end Inovesa.Gen"]
    return "\n".join(out) + "\n"


if __name__ == "__main__":
    print(generate())
