"""Runs every translator fragment; writes lean/InovesaModel/Gen/*.lean (only when the
content changed, so that lake does not rebuild needlessly).  Fail-closed: a fragment that
cannot be translated gets a stub that does not compile (`#exit`-free error), so every
theorem depending on it is reported as no longer shown."""
import os
import sys
import traceback

sys.path.insert(0, os.path.dirname(os.path.abspath(__file__)))

FRAGMENTS = [
    ("Coeff", "gen_coeff"),
    ("FPStencil", "gen_fp"),
    ("Options", "gen_options"),
    ("MainProgram", "gen_main"),
    ("Ctors", "gen_ctor"),
    ("Sizes", "gen_sizes"),
    ("Ruler", "gen_ruler"),
    ("RFOffsets", "gen_rf"),
    ("DriftWake", "gen_drift"),
    ("ApplyTo", "gen_applyto"),
    ("Moments", "gen_moments"),
    ("KickApply", "gen_kickapply"),
    ("UpdateSM", "gen_updatesm"),
    ("StepParams", "gen_params"),
    ("EFIndex", "gen_ef"),
    ("Factory", "gen_factory"),
    ("ImpTables", "gen_impedance"),
    ("H5Appends", "gen_h5"),
    ("PSLoops", "gen_psloops"),
    ("Physics", "gen_physics"),
    ("WakeMap", "gen_wakemap"),
    ("H5Read", "gen_h5read"),
    ("PPlates", "gen_pplates"),
    ("FPApply", "gen_fpapply"),
]


def run(outdir):
    import importlib
    os.makedirs(outdir, exist_ok=True)
    status = {}
    for name, mod in FRAGMENTS:
        path = os.path.join(outdir, name + ".lean")
        try:
            m = importlib.import_module(mod)
            importlib.reload(m)
            txt = m.generate()
            status[name] = None
        except Exception as e:  # noqa
            txt = ("/- GENERATION FAILED (fail-closed): %s -/\n"
                   "#eval (translator_failed_for_fragment_%s : Nat)\n"
                   % (str(e).replace("-/", "- /")[:1500], name))
            status[name] = "%s: %s" % (type(e).__name__, str(e)[:500])
            if os.environ.get("VERIF_DEBUG"):
                traceback.print_exc()
        old = None
        if os.path.exists(path):
            with open(path) as f:
                old = f.read()
        if old != txt:
            with open(path + ".tmp", "w") as f:
                f.write(txt)
            os.replace(path + ".tmp", path)
    return status


if __name__ == "__main__":
    here = os.path.dirname(os.path.abspath(__file__))
    st = run(os.path.join(here, "..", "lean", "InovesaModel", "Gen"))
    for k, v in st.items():
        print(k, "ok" if v is None else "FAILED: " + v)
    sys.exit(1 if any(st.values()) else 0)
