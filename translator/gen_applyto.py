"""G9c: KickMap::applyTo (src/SM/KickMap.cpp) -> InovesaModel/Gen/ApplyTo.lean

Both branches (kick along x / along y) have the shape
    <frac> = modf(<perp>, &<ipart>);  <i> = <ipart>;
    if (<i>+1 < _meshsize_pd) { <along> -= EXPR(frac, _offset[i], _offset[i+1]); }
    <along> = std::max(LO, std::min(<along>, HI));
The translator checks that the two branches are the same up to swapping x and y and emits the guard, the
interpolated displacement and the clamp.  Tied to `applyToCoord` (Model/KickMap.lean) by `rfl` in Props/Tie.lean.
"""
from cxxast import Unsupported, ast_of, strip, ExprTranslator, E, source_hash
from gen_rf import find, emit

SRC = "src/SM/KickMap.cpp"


def refs(node):
    return [d["referencedDecl"]["name"] for d in find(node, lambda m: m.get("kind") == "DeclRefExpr", [])]


def members(node):
    return [m.get("name") for m in find(node, lambda m: m.get("kind") == "MemberExpr", [])]


def branch(blk, along, perp):
    """returns (guard_ok, displacement term, lo, hi) for one branch"""
    stmts = [strip(s) for s in blk["inner"]]
    ifs = [s for s in stmts if s["kind"] == "IfStmt"]
    if len(ifs) != 1:
        raise Unsupported("applyTo branch: expected one if")
    cond = strip([c for c in ifs[0]["inner"] if c][0])
    if cond["kind"] != "BinaryOperator" or cond["opcode"] != "<" or "_meshsize_pd" not in members(cond):
        raise Unsupported("applyTo guard is not i+1 < _meshsize_pd")
    lhs = strip(cond["inner"][0])
    lits = [int(l["value"]) for l in find(lhs, lambda m: m.get("kind") == "IntegerLiteral", [])]
    if lits != [1]:
        raise Unsupported("applyTo guard is not i+1 < …")
    ivar = [r for r in refs(lhs)][0]
    body = [c for c in ifs[0]["inner"] if c][1]
    bst = body["inner"] if body["kind"] == "CompoundStmt" else [body]
    if len(bst) != 1:
        raise Unsupported("applyTo: guarded block")
    a = strip(bst[0])
    if a["kind"] != "CompoundAssignOperator" or a["opcode"] != "-=" or members(a["inner"][0]) != [along]:
        raise Unsupported("applyTo: guarded statement is not pos.%s -= …" % along)
    fvar = [None]

    def ref(name, node):
        if name == ivar:
            return E("var", "int", lean="i")
        if name.endswith("f") and name != ivar:       # xf / yf: the fractional part
            fvar[0] = name
            return E("var", "f32", lean="fr")
        raise Unsupported("reference to %s in applyTo" % name)

    def call(node, tr):
        if "_offset" in members(node):
            idx = find(node, lambda m: m.get("kind") == "IntegerLiteral", [])
            rs = refs(node)
            if ivar not in rs:
                raise Unsupported("_offset[<not i>]")
            return E("var", "f32", lean="(off (i + %d))" % int(idx[0]["value"]) if idx else "(off i)")
        raise Unsupported("call in applyTo")
    disp = emit(ExprTranslator(ref, call).tr(a["inner"][1]))
    # the modf / integer-part statements
    decls = [s for s in stmts if s["kind"] == "DeclStmt"]
    modf = [s for s in [t for t in stmts if t["kind"] != "DeclStmt"] + [v for d in decls for v in d["inner"]]
            if "modf" in refs(s)]
    if len(modf) != 1 or perp not in members(modf[0]):
        raise Unsupported("applyTo: modf of pos.%s" % perp)
    # clamp
    last = stmts[-1]
    if last["kind"] != "BinaryOperator" or last["opcode"] != "=" or members(last["inner"][0]) != [along]:
        raise Unsupported("applyTo: last statement is not pos.%s = …" % along)
    r = strip(last["inner"][1])
    while r["kind"] in ("ImplicitCastExpr", "ExprWithCleanups", "MaterializeTemporaryExpr"):
        r = strip(r["inner"][-1])
    if r["kind"] != "CallExpr" or refs(r["inner"][0]) != ["max"]:
        raise Unsupported("applyTo: clamp is not std::max(…)")
    lo_lits = [int(l["value"]) for l in find(r["inner"][1], lambda m: m.get("kind") == "IntegerLiteral", [])]
    inner = [c for c in find(r["inner"][2], lambda m: m.get("kind") == "CallExpr", [])]
    if not inner or refs(inner[0]["inner"][0]) != ["min"] or members(inner[0]["inner"][1]) != [along]:
        raise Unsupported("applyTo: clamp is not max(lo, min(pos, hi))")
    hi = inner[0]["inner"][2]
    hi_lits = [int(l["value"]) for l in find(hi, lambda m: m.get("kind") == "IntegerLiteral", [])]
    if lo_lits != [1] and len(lo_lits) != 1:
        raise Unsupported("applyTo: lower clamp")
    if "_meshsize_kd" not in members(hi) or len(hi_lits) != 1:
        raise Unsupported("applyTo: upper clamp is not _meshsize_kd - c")
    return disp, lo_lits[0], hi_lits[0]


FP_SRC = "src/SM/FokkerPlanckMap.cpp"


def stochastic():
    """`case FPTracking::stochastic:` of FokkerPlanckMap::applyTo: pos.y -= EXPR; pos.y = max(lo, min(pos.y, _ysize-hi))"""
    docs = [d for d in ast_of(FP_SRC, "applyTo") if d.get("kind") == "CXXMethodDecl" and d.get("name") == "applyTo"
            and any(c.get("kind") == "CompoundStmt" for c in d.get("inner", []))]
    if len(docs) != 1:
        raise Unsupported("FokkerPlanckMap::applyTo definition")
    sw = find(docs[0], lambda m: m.get("kind") == "SwitchStmt", [])
    if len(sw) != 1:
        raise Unsupported("FokkerPlanckMap::applyTo: switch")
    comp = sw[0]["inner"][-1]
    cur, stmts = None, {}
    for st in comp["inner"]:
        if st["kind"] == "CaseStmt":
            nm = refs(st["inner"][0])
            cur = nm[0] if nm else None
            stmts[cur] = [st["inner"][-1]]
        elif st["kind"] == "DefaultStmt":
            cur = "default"
            stmts[cur] = [st["inner"][-1]]
        elif st["kind"] == "BreakStmt":
            cur = None
        elif cur is not None:
            stmts[cur].append(st)
    if "stochastic" not in stmts:
        raise Unsupported("no case FPTracking::stochastic")
    body = [strip(s) for s in stmts["stochastic"] if strip(s)["kind"] != "BreakStmt"]
    if len(body) != 2:
        raise Unsupported("stochastic case has %d statements" % len(body))
    a, c = body
    while a["kind"] == "ExprWithCleanups":
        a = strip(a["inner"][0])
    if a["kind"] != "CompoundAssignOperator" or a["opcode"] != "-=" or members(a["inner"][0]) != ["y"]:
        raise Unsupported("stochastic: first statement is not pos.y -= …")

    def ref(name, node):
        if name == "y":
            return E("var", "f32", lean="y")
        if name == "_dampdecr":
            return E("var", "f32", lean="e1")
        raise Unsupported("reference to %s in the stochastic model" % name)

    def call(node, tr):
        ms = members(node)
        if "zerobin" in ms:
            return E("var", "f32", lean="yc")
        if "_normdist" in ms and "_prng" in ms:
            return E("var", "f32", lean="noise")
        raise Unsupported("call in the stochastic model: %r" % ms)
    step = emit(ExprTranslator(ref, call).tr(a["inner"][1]))
    while c["kind"] == "ExprWithCleanups":
        c = strip(c["inner"][0])
    if c["kind"] != "BinaryOperator" or c["opcode"] != "=" or members(c["inner"][0]) != ["y"]:
        raise Unsupported("stochastic: second statement is not pos.y = …")
    r = strip(c["inner"][1])
    while r["kind"] in ("ImplicitCastExpr", "ExprWithCleanups", "MaterializeTemporaryExpr"):
        r = strip(r["inner"][-1])
    if r["kind"] != "CallExpr" or refs(r["inner"][0]) != ["max"]:
        raise Unsupported("stochastic: clamp is not std::max(…)")
    lo = [int(l["value"]) for l in find(r["inner"][1], lambda m: m.get("kind") == "IntegerLiteral", [])]
    inner = find(r["inner"][2], lambda m: m.get("kind") == "CallExpr", [])
    if not inner or refs(inner[0]["inner"][0]) != ["min"] or members(inner[0]["inner"][1]) != ["y"]:
        raise Unsupported("stochastic: clamp is not max(lo, min(pos.y, hi))")
    hi = [int(l["value"]) for l in find(inner[0]["inner"][2], lambda m: m.get("kind") == "IntegerLiteral", [])]
    if len(lo) != 1 or len(hi) != 1 or "_ysize" not in members(inner[0]["inner"][2]):
        raise Unsupported("stochastic: clamp bounds")
    return step, lo[0], hi[0]


def generate():
    docs = [d for d in ast_of(SRC, "applyTo") if d.get("kind") == "CXXMethodDecl" and d.get("name") == "applyTo"
            and any(c.get("kind") == "CompoundStmt" for c in d.get("inner", []))]
    if len(docs) != 1:
        raise Unsupported("KickMap::applyTo definition")
    body = [c for c in docs[0]["inner"] if c.get("kind") == "CompoundStmt"][0]
    ifs = [s for s in body["inner"] if s.get("kind") == "IfStmt"]
    if len(ifs) != 1 or len(body["inner"]) != 1:
        raise Unsupported("applyTo: expected a single if (_kickdirection == x) … else …")
    cond, then, els = [c for c in ifs[0]["inner"] if c][:3]
    if "_kickdirection" not in members(cond):
        raise Unsupported("applyTo: condition")
    bx = branch(then, "x", "y")
    by = branch(els, "y", "x")
    if bx != by:
        raise Unsupported("applyTo: the two branches differ beyond swapping x and y: %r vs %r" % (bx, by))
    disp, lo, hi = bx
    st = stochastic()
    out = ["/- GENERATED by translator/gen_applyto.py from %s (sha256 %s).\n   Do not edit: overwritten by every check run. -/"
           % (SRC, source_hash(SRC)),
           "import InovesaModel.Model.Scalar\nnamespace Inovesa.Gen\nopen Inovesa\n",
           "variable {α : Type} [Arith α]\n",
           "/-- displacement subtracted from the coordinate along the kick (`fr` fractional part of the perpendicular\n"
           "    coordinate, `i` its integer part, `off` the displacement field); applied only if `i+1 < _meshsize_pd` -/",
           "def applyToDisp (off : Nat → α) (i : Nat) (fr : α) : α := %s\n" % disp,
           "/-- the clamp `std::max(lo, std::min(pos, _meshsize_kd - hi))` as (lo, hi) -/",
           "def applyToClamp : Nat × Nat := (%d, %d)\n" % (lo, hi),
           "/-- `FokkerPlanckMap::applyTo`, stochastic model: what is subtracted from the energy coordinate `y` (grid\n"
           "    rows); `yc` = zero bin of the energy axis, `e1` = damping decrement, `noise` = the normal deviate -/",
           "def stochSub (y yc e1 noise : α) : α := %s\n" % st[0],
           "/-- its clamp `std::max(lo, std::min(y, _ysize - hi))` as (lo, hi) -/",
           "def stochClamp : Nat × Nat := (%d, %d)\n" % (st[1], st[2]),
           "end Inovesa.Gen"]
    return "\n".join(out) + "\n"


if __name__ == "__main__":
    print(generate())
