"""G4: buffer-length arithmetic of main() -> InovesaModel/Gen/Sizes.lean

Extracts from src/main.cpp, in program order, every statement that defines or changes
    spacing_bins, padding, padded_bins, spaced_bins
plus the length handed to the impedance of the wake field (first argument of the first
makeImpedance call), the spacing handed to the wake ElectricField, and the way bucket numbers are
derived from the filling pattern; emits them as one Lean function over exact rationals
(`double` rounding is not modelled: the theorems that use this fragment do not depend on the value
of the products, only on the max/ceil/round structure).

Fail-closed: every write access to one of the tracked variables anywhere in main() must be one of the
handled statements; any other expression form raises Unsupported.
"""
from cxxast import Unsupported, ast_of, strip, source_hash
import cxxast

SRC = "src/main.cpp"
TRACKED = ("spacing_bins", "padding", "padded_bins", "spaced_bins")
NAT_INPUTS = {"ps_bins": "i.psBins", "nbuckets": "i.nbuckets"}
RAT_INPUTS = {"spacing_ps": "i.spacingPs"}


def unwrap(node):
    node = strip(node)
    while node["kind"] in ("ExprWithCleanups", "MaterializeTemporaryExpr", "CXXBindTemporaryExpr", "ParenExpr"):
        node = strip(node["inner"][-1])
    return node


def refname(node):
    node = unwrap(node)
    while node["kind"] in ("ImplicitCastExpr",) and node.get("castKind") in ("LValueToRValue", "NoOp", "IntegralCast",
                                                                            "FunctionToPointerDecay"):
        node = unwrap(node["inner"][-1])
    if node["kind"] == "DeclRefExpr":
        return node["referencedDecl"]["name"]
    return None


def is_float(node):
    return (node.get("type") or {}).get("qualType", "").replace("const ", "") in ("double", "float")


class Tr:
    """expression -> (sort, lean) with sort in {'nat', 'rat'}"""

    def __init__(self):
        self.env = {}      # tracked variable -> sort

    def tr(self, node):
        node = unwrap(node)
        k = node["kind"]
        if k in ("ImplicitCastExpr", "CXXStaticCastExpr", "CXXFunctionalCastExpr", "CStyleCastExpr"):
            ck = node.get("castKind")
            s, e = self.tr(node["inner"][-1])
            if ck in ("LValueToRValue", "NoOp", "IntegralCast", "FloatingCast"):
                return s, e
            if ck == "IntegralToFloating":
                if s != "nat":
                    raise Unsupported("int->float cast of a non-integer")
                return "rat", "((%s : Nat) : Rat)" % e
            if ck == "FloatingToIntegral":
                if s != "rat":
                    raise Unsupported("float->int cast of a non-float")
                return "nat", "(ratToNat %s)" % e
            raise Unsupported("cast kind %s" % ck)
        if k == "DeclRefExpr":
            nm = node["referencedDecl"]["name"]
            if nm in NAT_INPUTS:
                return "nat", NAT_INPUTS[nm]
            if nm in RAT_INPUTS:
                return "rat", RAT_INPUTS[nm]
            if nm in self.env:
                return self.env[nm], nm
            raise Unsupported("reference to %s in a size expression" % nm)
        if k == "IntegerLiteral":
            return "nat", node["value"]
        if k == "FloatingLiteral":
            v = float(node["value"])
            if v != int(v):
                raise Unsupported("non-integral floating literal")
            return "rat", "(%d : Rat)" % int(v)
        if k == "BinaryOperator" and node["opcode"] in ("*", "+", "-"):
            (s1, a), (s2, b) = self.tr(node["inner"][0]), self.tr(node["inner"][1])
            if s1 != s2:
                raise Unsupported("mixed-sort arithmetic")
            return s1, "(%s %s %s)" % (a, node["opcode"], b)     # Nat subtraction truncates; see note in Sizes.lean
        if k == "CallExpr":
            fn = refname(node["inner"][0])
            args = node["inner"][1:]
            if fn in ("round", "ceil") and len(args) == 1:
                s, a = self.tr(args[0])
                if s != "rat":
                    raise Unsupported("%s of a non-float" % fn)
                return "rat", "(%s %s)" % ("ratRound" if fn == "round" else "ratCeil", a)
            if fn == "max" and len(args) == 2:
                (s1, a), (s2, b) = self.tr(args[0]), self.tr(args[1])
                if s1 != s2:
                    raise Unsupported("max of mixed sorts")
                return s1, "(max %s %s)" % (a, b)
            if fn == "upper_power_of_two" and len(args) == 1:
                s, a = self.tr(args[0])
                if s != "nat":
                    raise Unsupported("upper_power_of_two of a non-integer")
                return "nat", "(up2 %s)" % a
            raise Unsupported("call to %s in a size expression" % fn)
        if k == "CXXMemberCallExpr":
            me = strip(node["inner"][0])
            if me.get("kind") == "MemberExpr" and refname(me["inner"][0]) == "opts":
                if me["name"] == "getPadding":
                    return "rat", "i.optPadding"
            if me.get("kind") == "MemberExpr" and me["name"] == "size" and refname(me["inner"][0]) == "filling":
                return "nat", "i.nbuckets"
            raise Unsupported("member call %s in a size expression" % me.get("name"))
        if k == "ConditionalOperator":
            c = self.cond(node["inner"][0])
            (s1, a), (s2, b) = self.tr(node["inner"][1]), self.tr(node["inner"][2])
            if s1 != s2:
                raise Unsupported("conditional of mixed sorts")
            return s1, "(if %s then %s else %s)" % (c, a, b)
        raise Unsupported("size expression node %s" % k)

    def cond(self, node):
        node = unwrap(node)
        if node["kind"] == "ImplicitCastExpr":
            return self.cond(node["inner"][-1])
        if node["kind"] == "CXXMemberCallExpr":
            me = strip(node["inner"][0])
            if me.get("kind") == "MemberExpr" and me["name"] == "getRoundPadding" and refname(me["inner"][0]) == "opts":
                return "i.roundPadding"
        if node["kind"] == "BinaryOperator" and node["opcode"] in (">", "<", ">=", "<=", "=="):
            (s1, a), (s2, b) = self.tr(node["inner"][0]), self.tr(node["inner"][1])
            if s1 != s2:
                raise Unsupported("comparison of mixed sorts")
            op = {"==": "="}.get(node["opcode"], node["opcode"])
            return "(decide (%s %s %s))" % (a, op, b)
        raise Unsupported("condition form in size code")


def walk(node, fn):
    if isinstance(node, dict):
        fn(node)
        for c in node.get("inner", []) or []:
            walk(c, fn)


def generate():
    saved = list(cxxast.CLANG_ARGS)
    try:
        if "-DINOVESA_VERIF=1" not in cxxast.CLANG_ARGS:
            cxxast.CLANG_ARGS.insert(3, "-DINOVESA_VERIF=1")
        docs = ast_of(SRC, "main")
    finally:
        cxxast.CLANG_ARGS[:] = saved
    mains = [d for d in docs if d.get("kind") == "FunctionDecl" and d.get("name") == "main"
             and any(c.get("kind") == "CompoundStmt" for c in d.get("inner", []))]
    if len(mains) != 1:
        raise Unsupported("main() not found")
    body = [c for c in mains[0]["inner"] if c.get("kind") == "CompoundStmt"][0]

    # all write accesses to tracked variables anywhere in main
    writes = []

    def coll(n):
        if n.get("kind") in ("BinaryOperator", "CompoundAssignOperator") and (
                n.get("opcode", "").endswith("=") and n.get("opcode") not in ("==", "!=", "<=", ">=")):
            if refname(n["inner"][0]) in TRACKED:
                writes.append(n["id"])
        if n.get("kind") == "UnaryOperator" and n.get("opcode") in ("++", "--") and refname(n["inner"][0]) in TRACKED:
            writes.append(n["id"])
    walk(body, coll)

    t = Tr()
    lets = []
    handled = set()
    declared = set()

    def assign(node):
        nm = refname(node["inner"][0])
        if node.get("opcode") != "=":
            raise Unsupported("compound assignment to %s" % nm)
        s, e = t.tr(node["inner"][1])
        if nm not in t.env or t.env[nm] != s:
            raise Unsupported("assignment changes the sort of %s" % nm)
        handled.add(node["id"])
        return nm, s, e

    for st in body["inner"]:
        st0 = strip(st)
        if st0["kind"] == "DeclStmt":
            for v in st0["inner"]:
                if v.get("kind") == "VarDecl" and v.get("name") in TRACKED:
                    if v["name"] in declared or "inner" not in v:
                        raise Unsupported("declaration of %s" % v["name"])
                    s, e = t.tr(v["inner"][-1])
                    t.env[v["name"]] = s
                    declared.add(v["name"])
                    lets.append("  let %s : %s := %s" % (v["name"], "Nat" if s == "nat" else "Rat", e))
        elif st0["kind"] == "BinaryOperator" and refname(st0["inner"][0]) in TRACKED:
            nm, s, e = assign(st0)
            lets.append("  let %s : %s := %s" % (nm, "Nat" if s == "nat" else "Rat", e))
        elif st0["kind"] == "IfStmt":
            inner = [c for c in st0["inner"] if c]
            found = []
            walk(inner[1], lambda n: found.append(n) if n.get("id") in writes else None)
            if not found:
                continue
            if len(inner) != 2:
                raise Unsupported("if/else around a size assignment")
            c = t.cond(inner[0])
            stmts = inner[1]["inner"] if inner[1]["kind"] == "CompoundStmt" else [inner[1]]
            for s_ in stmts:
                s0 = strip(s_)
                if s0["kind"] != "BinaryOperator" or refname(s0["inner"][0]) not in TRACKED:
                    raise Unsupported("statement next to a size assignment inside if")
                nm, s, e = assign(s0)
                lets.append("  let %s : %s := if %s then %s else %s" % (nm, "Nat" if s == "nat" else "Rat", c, e, nm))
    missing = [w for w in writes if w not in handled]
    if missing:
        raise Unsupported("%d write(s) to a tracked size variable in an unsupported place" % len(missing))
    if declared != set(TRACKED):
        raise Unsupported("not all of %r are declared at the top level of main" % (TRACKED,))

    # nbuckets = filling.size()
    nb = []
    walk(body, lambda n: nb.append(n) if n.get("kind") == "VarDecl" and n.get("name") == "nbuckets" else None)
    if len(nb) != 1 or Tr().tr(nb[0]["inner"][-1]) != ("nat", "i.nbuckets"):
        raise Unsupported("nbuckets is not filling.size()")

    # bucket numbers: bucketnumbers.push_back(filling.size()-1-i) inside for (i=0; i<filling.size(); i++)
    pushes = []

    def find_push(n):
        if n.get("kind") == "CXXMemberCallExpr":
            me = strip(n["inner"][0])
            if me.get("kind") == "MemberExpr" and me.get("name") == "push_back" and refname(me["inner"][0]) == "bucketnumbers":
                pushes.append(n)
    walk(body, find_push)
    if len(pushes) != 1:
        raise Unsupported("bucketnumbers is filled in %d places" % len(pushes))

    class TrI(Tr):
        def tr(self, node):
            n0 = unwrap(node)
            if n0["kind"] == "DeclRefExpr" and n0["referencedDecl"]["name"] == "i":
                return "nat", "k"
            return Tr.tr(self, node)
    s, bucket_expr = TrI().tr(pushes[0]["inner"][1])
    if s != "nat":
        raise Unsupported("bucket number is not an integer")
    loops = []

    def find_loop(n):
        if n.get("kind") == "ForStmt":
            inside = []
            walk(n, lambda m: inside.append(1) if m.get("id") == pushes[0]["id"] else None)
            if inside:
                loops.append(n)
    walk(body, find_loop)
    if len(loops) != 1:
        raise Unsupported("bucketnumbers loop")
    init, _, cond, inc, _b = loops[0]["inner"]
    c = strip(cond)
    if not (c["kind"] == "BinaryOperator" and c["opcode"] == "<" and refname(c["inner"][0]) == "i"
            and Tr().tr(c["inner"][1]) == ("nat", "i.nbuckets")):
        raise Unsupported("bucketnumbers loop bound is not i < filling.size()")
    iv = strip(init)["inner"][0]
    if iv.get("name") != "i" or unwrap(iv["inner"][-1]).get("value") != "0" and \
            strip(unwrap(iv["inner"][-1]).get("inner", [{}])[-1]).get("value") != "0":
        raise Unsupported("bucketnumbers loop does not start at 0")

    # length handed to the wake impedance, spacing handed to the wake field
    wi = []
    walk(body, lambda n: wi.append(n) if n.get("kind") == "VarDecl" and n.get("name") == "wake_impedance" else None)
    if len(wi) != 1:
        raise Unsupported("wake_impedance declaration")
    calls = []
    walk(wi[0], lambda n: calls.append(n) if n.get("kind") == "CallExpr" and refname(n["inner"][0]) == "makeImpedance" else None)
    if len(calls) != 1:
        raise Unsupported("wake_impedance is not made by one makeImpedance call")
    s, wake_len = t.tr(calls[0]["inner"][1])
    if s != "nat":
        raise Unsupported("impedance length is not an integer")
    wf = []

    def find_wf(n):
        if n.get("kind") == "CXXNewExpr":
            cs = [c for c in n.get("inner", []) if c.get("kind") == "CXXConstructExpr"
                  and "ElectricField" in (c.get("type") or {}).get("qualType", "")]
            wf.extend(cs)
    walk(body, find_wf)
    if len(wf) != 1:
        raise Unsupported("wake ElectricField construction (%d found)" % len(wf))
    args = wf[0]["inner"]
    if refname(args[1]) != "wake_impedance" and "wake_impedance" not in str(args[1]):
        raise Unsupported("wake field does not use wake_impedance")
    if refname(args[2]) != "bucketnumbers":
        raise Unsupported("wake field: bucket argument")
    s, wf_spacing = t.tr(args[3])
    if s != "nat":
        raise Unsupported("wake field spacing is not an integer")

    out = []
    out.append("/- GENERATED by translator/gen_sizes.py from %s (sha256 %s).\n"
               "   Do not edit: overwritten by every check run. -/" % (SRC, source_hash(SRC)))
    out.append("import InovesaModel.Model.SizesBase\nnamespace Inovesa.Gen\nopen Inovesa\n")
    out.append("/-- Buffer lengths as main() computes them (program order, later `let`s shadow earlier ones like the\n"
               "    assignments they stand for).  `up2` = `upper_power_of_two`.  Unsigned subtraction is `Nat`\n"
               "    subtraction (the only instance is `nbuckets - 1` with `nbuckets ≥ 1`). -/")
    out.append("def sizes (i : SizeIn) (up2 : Nat → Nat) : SizeOut :=")
    out += lets
    out.append("  { spacingBins := spacing_bins, paddedBins := padded_bins, spacedBins := spaced_bins,\n"
               "    wakeLength := %s, wakeSpacing := %s }\n" % (wake_len, wf_spacing))
    out.append("/-- bucket number pushed for filling-pattern entry `k` (`k < nbuckets`, only for filled buckets) -/")
    out.append("def bucketNumber (i : SizeIn) (k : Nat) : Nat := %s\n" % bucket_expr)
    out.append("end Inovesa.Gen")
    return "\n".join(out) + "\n"


if __name__ == "__main__":
    print(generate())
