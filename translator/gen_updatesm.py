"""G9f: index arithmetic of KickMap::updateSM (src/SM/KickMap.cpp) -> InovesaModel/Gen/UpdateSM.lean

Extracts: the source position `poffs` (grid centre + displacement), the range test on its integer part (the
fix "converts only in-range source positions"), the stencil index `j0` (unsigned arithmetic, wrap made explicit), its
guard, the fallback entry and the table slot written.  Tied to `smRowOf`/`smRow` (Model/KickMap.lean) in
Props/Tie.lean.  Fail-closed.
"""
from cxxast import Unsupported, ast_of, source_hash
from gen_rf import find
from gen_kickapply import refs, members, unwrap, W32

SRC = "src/SM/KickMap.cpp"
NAMES = {"_meshsize_kd": "kd", "_ip": "ip", "_it": "it", "i": "i", "j1": "j1", "jd": "jd", "j0": "j0"}


def nat(node):
    node = unwrap(node)
    k = node["kind"]
    if k == "IntegerLiteral":
        return node["value"]
    if k == "DeclRefExpr":
        nm = node["referencedDecl"]["name"]
        if nm in NAMES:
            return NAMES[nm]
        raise Unsupported("integer variable %s in updateSM" % nm)
    if k == "MemberExpr":
        if node["name"] in NAMES:
            return NAMES[node["name"]]
        raise Unsupported("member %s in updateSM" % node["name"])
    if k in ("CXXStaticCastExpr", "CXXFunctionalCastExpr", "CStyleCastExpr"):
        return nat(node["inner"][-1])
    if k == "BinaryOperator":
        op = node["opcode"]
        a, b = nat(node["inner"][0]), nat(node["inner"][1])
        if op in ("+", "*", "/"):
            return "(%s %s %s)" % (a, op, b)
        if op == "-":
            return "((%s + %d - %s) %% %d)" % (a, W32, b, W32)     # unsigned subtraction
    raise Unsupported("integer expression %s in updateSM" % k)


def generate():
    docs = [d for d in ast_of(SRC, "KickMap::updateSM") if d.get("kind") == "CXXMethodDecl" and d.get("name") == "updateSM"
            and any(c.get("kind") == "CompoundStmt" for c in d.get("inner", []))]
    if len(docs) != 1:
        raise Unsupported("KickMap::updateSM definition")
    body = docs[0]
    # this fragment extracts the statements it knows; anything ELSE in the function (a further branch, an update of an
    # index or weight after the fact) must make it fail: the statement inventory of updateSM is pinned
    inv = {k: len(find(body, lambda m, k=k: m.get("kind") == k, [])) for k in
           ("IfStmt", "ForStmt", "CompoundAssignOperator", "ConditionalOperator", "CallExpr", "CXXMemberCallExpr", "WhileStmt", "SwitchStmt")}
    inv["assign"] = len(find(body, lambda m: m.get("kind") == "BinaryOperator" and m.get("opcode") == "=", []))
    inv["unary"] = sorted(u.get("opcode") for u in find(body, lambda m: m.get("kind") == "UnaryOperator", []))
    want = {"IfStmt": 3, "ForStmt": 3, "CompoundAssignOperator": 0, "ConditionalOperator": 1, "CallExpr": 2, "CXXMemberCallExpr": 1,
            "WhileStmt": 0, "SwitchStmt": 0, "assign": 8, "unary": ["&", "++", "++", "++"]}
    if inv != want:
        raise Unsupported("statement inventory of KickMap::updateSM changed: %r (expected %r)" % (inv, want))
    decls = {v["name"]: v for v in find(body, lambda m: m.get("kind") == "VarDecl", [])}
    # poffs = _meshsize_kd/2 + _offset[i]
    if "poffs" not in decls:
        raise Unsupported("poffs")
    p = unwrap(decls["poffs"]["inner"][-1])
    if p["kind"] != "BinaryOperator" or p["opcode"] != "+" or "_offset" not in members(p["inner"][1]) or refs(p["inner"][1])[-1:] != ["i"]:
        raise Unsupported("poffs is not <centre> + _offset[i]")
    centre_node = unwrap(p["inner"][0])
    # the centre must be an INTEGER expression converted to float
    if (centre_node.get("type") or {}).get("qualType", "") in ("float", "double", "vfps::meshaxis_t", "const vfps::meshaxis_t"):
        raise Unsupported("grid centre in poffs is computed in floating point")
    centre = nat(centre_node)
    # jd = (qp_int >= 0 && qp_int < _meshsize_kd) ? (meshindex_t)qp_int : (meshindex_t)_meshsize_kd
    assigns = [a for a in find(body, lambda m: m.get("kind") == "BinaryOperator" and m.get("opcode") == "=", [])
               if refs(a["inner"][0]) == ["jd"]]
    if len(assigns) != 1:
        raise Unsupported("assignment to jd")
    c = unwrap(assigns[0]["inner"][1])
    if c["kind"] != "ConditionalOperator":
        raise Unsupported("jd is not assigned from a range test")
    cond, a, b = c["inner"]
    cnd = unwrap(cond)
    if cnd["kind"] != "BinaryOperator" or cnd["opcode"] != "&&":
        raise Unsupported("range test of jd")
    lo, hi = unwrap(cnd["inner"][0]), unwrap(cnd["inner"][1])
    if not (lo["kind"] == "BinaryOperator" and lo["opcode"] == ">=" and refs(lo["inner"][0]) == ["qp_int"]
            and [l["value"] for l in find(lo["inner"][1], lambda m: m.get("kind") == "IntegerLiteral", [])] == ["0"]):
        raise Unsupported("lower range test is not qp_int >= 0")
    if not (hi["kind"] == "BinaryOperator" and hi["opcode"] == "<" and refs(hi["inner"][0]) == ["qp_int"]
            and members(hi["inner"][1]) == ["_meshsize_kd"]):
        raise Unsupported("upper range test is not qp_int < _meshsize_kd")
    if refs(a) != ["qp_int"] or members(b) != ["_meshsize_kd"]:
        raise Unsupported("jd alternatives")
    # qp_int / xip come from modf(poffs, &qp_int)
    modf = [m for m in find(body, lambda m: m.get("kind") == "CallExpr", []) if refs(m["inner"][0])[:1] == ["modf"]]
    if len(modf) != 1 or "poffs" not in refs(modf[0]) or "qp_int" not in refs(modf[0]):
        raise Unsupported("modf(poffs, &qp_int)")
    # if (jd < _meshsize_kd) { calcCoefficiants(smc,xip,_it); for j1<_it: j0 = ...; if (j0 < kd) {index=j0, weight=smc[j1]} else {index=kd/2, weight=0}; _hinfo[i*_ip+j1]=ph[j1] } else {...}
    ifs = [s for s in find(body, lambda m: m.get("kind") == "IfStmt", []) if refs(unwrap([c for c in s["inner"] if c][0])["inner"][0] if unwrap([c for c in s["inner"] if c][0]).get("inner") else {}) == ["jd"]]
    if len(ifs) != 1:
        raise Unsupported("if (jd < _meshsize_kd)")
    cond, then, els = [c for c in ifs[0]["inner"] if c][:3]
    cnd = unwrap(cond)
    if cnd["opcode"] != "<" or members(cnd["inner"][1]) != ["_meshsize_kd"]:
        raise Unsupported("row guard")
    cc = [m for m in find(then, lambda m: m.get("kind") == "CallExpr", []) if refs(m["inner"][0])[:1] == ["calcCoefficiants"]]
    if len(cc) != 1 or "xip" not in refs(cc[0]) or "_it" not in members(cc[0]):
        raise Unsupported("calcCoefficiants(smc, xip, _it)")
    if "j0" not in decls:
        raise Unsupported("j0")
    j0 = nat(decls["j0"]["inner"][-1])
    inner_if = [s for s in find(then, lambda m: m.get("kind") == "IfStmt", [])]
    if len(inner_if) != 1:
        raise Unsupported("entry guard")
    icond, ithen, ielse = [c for c in inner_if[0]["inner"] if c][:3]
    ic = unwrap(icond)
    if ic["opcode"] != "<" or refs(ic["inner"][0]) != ["j0"] or members(ic["inner"][1]) != ["_meshsize_kd"]:
        raise Unsupported("entry guard is not j0 < _meshsize_kd")

    def assigned(block, field):
        out = [a for a in find(block, lambda m: m.get("kind") == "BinaryOperator" and m.get("opcode") == "=", [])
               if members(a["inner"][0])[:1] == [field]]
        if len(out) != 1:
            raise Unsupported("assignment of .%s" % field)
        return out[0]["inner"][1]
    if refs(assigned(ithen, "index")) != ["j0"]:
        raise Unsupported("in-range entry index is not j0")
    w = assigned(ithen, "weight")
    if "smc" not in refs(w) or "j1" not in refs(w):
        raise Unsupported("in-range entry weight is not smc[j1]")
    fb = nat(assigned(ielse, "index"))
    if [l["value"] for l in find(assigned(ielse, "weight"), lambda m: m.get("kind") == "IntegerLiteral", [])] != ["0"]:
        raise Unsupported("out-of-range entry weight is not 0")
    fb2 = nat(assigned(els, "index"))
    if [l["value"] for l in find(assigned(els, "weight"), lambda m: m.get("kind") == "IntegerLiteral", [])] != ["0"]:
        raise Unsupported("outside row weight is not 0")
    # table slot
    slots = [a for a in find(body, lambda m: m.get("kind") == "CXXOperatorCallExpr", [])
             if refs(a["inner"][0])[:1] == ["operator="] and "_hinfo" in members(a["inner"][1])]
    slot_exprs = set()
    for a in slots:
        sub = find(a["inner"][1], lambda m: m.get("kind") == "ArraySubscriptExpr", [])
        slot_exprs.add(nat(sub[0]["inner"][1]))
        if "ph" not in refs(a["inner"][2]) or "j1" not in refs(a["inner"][2]):
            raise Unsupported("table slot is not assigned ph[j1]")
    if len(slot_exprs) != 1:
        raise Unsupported("table slots differ: %r" % slot_exprs)
    out = ["/- GENERATED by translator/gen_updatesm.py from %s (sha256 %s).\n   Do not edit: overwritten by every check run. -/"
           % (SRC, source_hash(SRC)),
           "import InovesaModel.Model.Scalar\nnamespace Inovesa.Gen\nopen Inovesa\n",
           "variable {α : Type} [Arith α] [NatCast α]\n",
           "/-- source position of row `i`: INTEGER grid centre (as `apply` uses it) plus the displacement -/",
           "def updPoffs (kd : Nat) (off : α) : α := ((%s : Nat) : α) + off\n" % centre,
           "/-- the integer part is used as `jd` only inside `[0, kd)`; otherwise `jd = kd` (row of zeros) -/",
           "def updJdOutside (kd : Nat) : Nat := kd\n",
           "/-- stencil index of entry `j1` (unsigned arithmetic), its guard bound, and the index stored for entries and\n"
           "    rows outside the line (their weight is 0) -/",
           "def updJ0 (jd j1 it : Nat) : Nat := %s" % j0,
           "def updGuard (kd : Nat) : Nat := kd",
           "def updFallback (kd : Nat) : Nat := %s" % fb,
           "def updFallbackRow (kd : Nat) : Nat := %s\n" % fb2,
           "/-- table slot written for row `i`, entry `j1` -/",
           "def updSlot (i ip j1 : Nat) : Nat := %s\n" % slot_exprs.pop(),
           "end Inovesa.Gen"]
    return "\n".join(out) + "\n"


if __name__ == "__main__":
    print(generate())
