"""G10: the loops of PhaseSpace (src/PS/PhaseSpace.cpp) -> InovesaModel/Gen/PSLoops.lean

  setSize, the extents of the member arrays (constructor initialiser list), simpsonWeights,
  updateXProjection, updateYProjection, integrate, normalize, createFromProjections, the
  tail of the constructor (which derived members it refreshes, in which order).

For every loop nest: the loop variables with their bounds, the element that is written (array and
index expressions), and the value written as a Lean term over the abstract scalar, with
`std::inner_product(first, last, first2, init)` / `std::accumulate(first, last, init)` unfolded to the
left fold the standard prescribes (`acc = acc + a*b`, `acc = acc + a`).  Arrays become functions of
their indices (`data n x y`, `proj k n i`, `ws i`, `fill n`, `fset n`).  Tied to Model/PhaseSpace.lean
by `rfl` in Props/TiePS.lean.  Fail-closed: any other statement shape raises Unsupported.
"""
from cxxast import Unsupported, ast_of, strip, ExprTranslator, E, source_hash
from gen_rf import find, emit

SRC = "src/PS/PhaseSpace.cpp"

SIZES = {"_nbunches": "nb", "_nmeshcellsX": "nx", "_nmeshcellsY": "ny",
         "_nmeshcells": "nxy", "_totalmeshcells": "nxyb"}
ARRAYS = {"_data": "data", "_projection": "proj", "_ws": "ws", "_filling": "fill", "_filling_set": "fset"}

WRAP = ("ParenExpr", "ConstantExpr", "ExprWithCleanups", "MaterializeTemporaryExpr", "CXXBindTemporaryExpr")
TRANSPARENT_CASTS = ("LValueToRValue", "NoOp", "IntegralCast", "UncheckedDerivedToBase", "FunctionToPointerDecay",
                     "ConstructorConversion")


def unwrap(node):
    while True:
        k = node.get("kind")
        if k in WRAP:
            node = node["inner"][0]
            continue
        if k in ("ImplicitCastExpr", "CXXStaticCastExpr", "CXXFunctionalCastExpr", "CStyleCastExpr") \
                and node.get("castKind") in TRANSPARENT_CASTS:
            node = node["inner"][-1]
            continue
        if k == "CXXConstructExpr" and len([c for c in node.get("inner", []) if c.get("kind") != "CXXDefaultArgExpr"]) == 1:
            node = node["inner"][0]
            continue
        return node


def method(name, kind="CXXMethodDecl"):
    docs = [d for d in ast_of(SRC, name) if d.get("kind") == kind and d.get("name") == name
            and any(c.get("kind") == "CompoundStmt" for c in d.get("inner", []))]
    if len(docs) != 1:
        raise Unsupported("PhaseSpace::%s: %d definitions" % (name, len(docs)))
    return docs[0]


def body(decl):
    return [c for c in decl["inner"] if c.get("kind") == "CompoundStmt"][0]


def stmts(block):
    """statements of a block; a nested bare block `{ ... }` (left over from the OpenCL #if/else) is flattened"""
    out = []
    for s in block.get("inner", []) or []:
        if s.get("kind") == "CompoundStmt":
            out += stmts(s)
        else:
            out.append(s)
    return out


def index_expr(node):
    """integer index/bound expression -> Lean Nat term"""
    n = unwrap(node)
    k = n.get("kind")
    if k == "IntegerLiteral":
        return n["value"]
    if k == "DeclRefExpr":
        nm = n["referencedDecl"]["name"]
        return SIZES.get(nm, nm)
    if k == "MemberExpr":
        nm = n["name"]
        if nm in SIZES:
            return SIZES[nm]
        raise Unsupported("index uses member %s" % nm)
    if k == "BinaryOperator" and n["opcode"] in ("-", "+", "*"):
        return "(%s %s %s)" % (index_expr(n["inner"][0]), n["opcode"], index_expr(n["inner"][1]))
    raise Unsupported("index expression %s" % k)


def aref(node):
    """(`_name`, [index terms]) of an element / sub-array reference built from operator[] chains"""
    n = unwrap(node)
    k = n.get("kind")
    if k == "MemberExpr" and n.get("name") in ARRAYS:
        return n["name"], []
    if k == "DeclRefExpr":
        return n["referencedDecl"]["name"], []
    if k == "CXXOperatorCallExpr":
        callee = unwrap(n["inner"][0])
        if callee.get("kind") != "DeclRefExpr" or callee["referencedDecl"]["name"] != "operator[]":
            raise Unsupported("operator call that is not []")
        nm, idx = aref(n["inner"][1])
        return nm, idx + [index_expr(n["inner"][2])]
    raise Unsupported("array reference %s" % k)


def lean_ref(nm, idx):
    if nm not in ARRAYS:
        raise Unsupported("array %s" % nm)
    return "(" + " ".join([ARRAYS[nm]] + idx) + ")" if idx else ARRAYS[nm]


def for_header(f):
    if f.get("kind") != "ForStmt":
        raise Unsupported("expected a for loop, found %s" % f.get("kind"))
    init, _, cond, inc, blk = f["inner"]
    vd = init["inner"][0]
    if init.get("kind") != "DeclStmt" or vd.get("kind") != "VarDecl":
        raise Unsupported("loop init")
    var = vd["name"]
    lo = index_expr(vd["inner"][0])
    c = unwrap(cond)
    if c.get("kind") != "BinaryOperator" or c["opcode"] != "<" or index_expr(c["inner"][0]) != var:
        raise Unsupported("loop condition is not `%s < bound`" % var)
    hi = index_expr(c["inner"][1])
    i = unwrap(inc)
    if i.get("kind") != "UnaryOperator" or i["opcode"] != "++" or index_expr(i["inner"][0]) != var:
        raise Unsupported("loop increment")
    return var, lo, hi, blk


def nest(f, depth):
    """[(var, lo, hi)] of `depth` perfectly nested loops and the innermost block"""
    loops = []
    blk = None
    for _ in range(depth):
        var, lo, hi, blk = for_header(f)
        loops.append((var, lo, hi))
        inner = stmts(blk) if blk.get("kind") == "CompoundStmt" else [blk]
        f = inner[0] if inner else None
    return loops, blk


def iter_of(node, which):
    """`X.begin()` / `X.end()` -> reference X"""
    n = unwrap(node)
    if n.get("kind") != "CXXMemberCallExpr":
        raise Unsupported("iterator argument %s" % n.get("kind"))
    me = unwrap(n["inner"][0])
    if me.get("kind") != "MemberExpr" or me.get("name") != which:
        raise Unsupported("expected .%s()" % which)
    return aref(me["inner"][0])


def zero_init(node):
    n = unwrap(node)
    if n.get("kind") == "ImplicitCastExpr" and n.get("castKind") == "IntegralToFloating":
        n = unwrap(n["inner"][0])
    if n.get("kind") == "IntegerLiteral" and n["value"] == "0":
        return "(lit (0) 1 0x00000000)"
    raise Unsupported("start value of the fold is not 0")


def std_call(node):
    """std::inner_product(a.begin(), a.end(), w.begin(), 0) / std::accumulate(a.begin(), a.end(), 0)"""
    n = unwrap(node)
    if n.get("kind") != "CallExpr":
        raise Unsupported("expected a call, found %s" % n.get("kind"))
    fn = unwrap(n["inner"][0])
    name = fn.get("referencedDecl", {}).get("name")
    args = n["inner"][1:]
    if name == "inner_product" and len(args) == 4:
        a = iter_of(args[0], "begin")
        if iter_of(args[1], "end") != a:
            raise Unsupported("inner_product over two different ranges")
        w = iter_of(args[2], "begin")
        return "inner_product", a, w, zero_init(args[3])
    if name == "accumulate" and len(args) == 3:
        a = iter_of(args[0], "begin")
        if iter_of(args[1], "end") != a:
            raise Unsupported("accumulate over two different ranges")
        return "accumulate", a, None, zero_init(args[2])
    raise Unsupported("call to %s" % name)


def value_translator():
    def ref(nm, node):
        raise Unsupported("scalar reference %s" % nm)

    def call(node, tr):
        nm, idx = aref(node)
        return E("var", "f32", lean=lean_ref(nm, idx))
    return ExprTranslator(ref, call)


def assign(st, ops=("=",)):
    s = unwrap(st)
    if s.get("kind") == "BinaryOperator" and s["opcode"] == "=" and "=" in ops:
        return "=", s["inner"][0], s["inner"][1]
    if s.get("kind") == "CompoundAssignOperator" and s["opcode"] in ops:
        return s["opcode"], s["inner"][0], s["inner"][1]
    raise Unsupported("expected an assignment (%s), found %s %s" % ("/".join(ops), s.get("kind"), s.get("opcode")))


def strl(xs):
    return "[" + ", ".join('"%s"' % x for x in xs) + "]"


def loopsl(ls):
    return "[" + ", ".join('("%s", "%s", "%s")' % l for l in ls) + "]"


def called(st):
    s = unwrap(st)
    if s.get("kind") == "CXXMemberCallExpr":
        me = unwrap(s["inner"][0])
        if me.get("kind") == "MemberExpr":
            return me["name"]
    return None


# --------------------------------------------------------------------------------------------------

def gen_extents():
    docs = [d for d in ast_of(SRC, "PhaseSpace") if d.get("kind") == "CXXConstructorDecl"
            and any(c.get("kind") == "CompoundStmt" for c in d.get("inner", []))
            and any(c.get("kind") == "CXXCtorInitializer" and c.get("anyInit", {}).get("name") == "_data"
                    for c in d.get("inner", []))]
    if len(docs) != 1:
        raise Unsupported("principal PhaseSpace constructor: %d candidates" % len(docs))
    ctor = docs[0]
    ext = {}
    for ini in ctor["inner"]:
        if ini.get("kind") != "CXXCtorInitializer":
            continue
        nm = ini.get("anyInit", {}).get("name")
        if nm in ("_data", "_projection"):
            # boost::extents[a][b][c]: operator[] chain on `extents`
            chain = find(ini, lambda m: m.get("kind") == "CXXOperatorCallExpr", [])
            if not chain:
                raise Unsupported("extents of %s" % nm)
            top = chain[0]

            def walk(n):
                n = unwrap(n)
                if n.get("kind") == "CXXOperatorCallExpr":
                    return walk(n["inner"][1]) + [index_expr(n["inner"][2])]
                if n.get("kind") == "DeclRefExpr" and n["referencedDecl"]["name"] == "extents":
                    return []
                raise Unsupported("extents expression of %s" % nm)
            ext[nm] = walk(top)
        if nm == "_filling":
            lits = [index_expr(a) for a in find(ini, lambda m: m.get("kind") == "DeclRefExpr"
                                                and m["referencedDecl"]["name"] in SIZES, [])]
            if lits != ["nb"]:
                raise Unsupported("_filling length %r" % lits)
            ext[nm] = lits
    if sorted(ext) != ["_data", "_filling", "_projection"]:
        raise Unsupported("constructor initialisers found: %r" % sorted(ext))
    # constructor body: which derived members are refreshed, in which order, after the data are in place
    calls = [c for c in (called(s) for s in stmts(body(ctor))) if c]
    return ext, calls


def gen_setsize():
    d = method("setSize")
    ifs = [s for s in stmts(body(d)) if s.get("kind") == "IfStmt"]
    if len(ifs) != 1:
        raise Unsupported("setSize: guard")
    then = [c for c in ifs[0]["inner"] if c][1]
    out = {}
    for s in stmts(then):
        op, lhs, rhs = assign(s)
        l = unwrap(lhs)
        nm = l.get("referencedDecl", {}).get("name") or l.get("name")
        r = unwrap(rhs)
        if r.get("kind") == "CXXBoolLiteralExpr":
            continue
        out[nm] = index_expr(rhs)
    want = ["_nbunches", "_nmeshcells", "_nmeshcellsX", "_nmeshcellsY", "_totalmeshcells"]
    if sorted(out) != want:
        raise Unsupported("setSize assigns %r" % sorted(out))
    return out


def gen_simpson():
    d = method("simpsonWeights")
    ss = stmts(body(d))
    loc = {}
    tr_loc = {}

    def ref(nm, node):
        if nm in tr_loc:
            return E("var", "f32", lean=tr_loc[nm])
        raise Unsupported("simpsonWeights: reference to %s" % nm)

    def call(node, tr):
        n = unwrap(node)
        if n.get("kind") == "CXXMemberCallExpr":
            me = unwrap(n["inner"][0])
            if me.get("name") == "getDelta" and index_expr(n["inner"][1]) == "0":
                return E("var", "f32", lean="delta0")
        raise Unsupported("simpsonWeights: call")
    tr = ExprTranslator(ref, call)
    i = 0
    length = None
    while i < len(ss) and ss[i].get("kind") == "DeclStmt":
        vd = ss[i]["inner"][0]
        nm = vd["name"]
        if nm == "rv":
            length = [index_expr(a) for a in find(vd, lambda m: m.get("kind") == "DeclRefExpr"
                                                  and m["referencedDecl"]["name"] in SIZES, [])]
        else:
            loc[nm] = emit(tr.tr(vd["inner"][0]))
            tr_loc[nm] = nm
        i += 1
    if length != ["nx"] or sorted(loc) != ["ca", "dc", "h03"]:
        raise Unsupported("simpsonWeights: declarations %r %r" % (length, sorted(loc)))
    rest = ss[i:]
    if len(rest) != 4 or rest[1].get("kind") != "ForStmt" or rest[3].get("kind") != "ReturnStmt":
        raise Unsupported("simpsonWeights: statement sequence")
    op, l0, r0 = assign(rest[0])
    nm0, idx0 = aref(l0)
    var, lo, hi, blk = for_header(rest[1])
    bs = stmts(blk)
    if len(bs) != 2:
        raise Unsupported("simpsonWeights: loop body")
    op, l1, r1 = assign(bs[0])
    nm1, idx1 = aref(l1)
    op, l2, r2 = assign(bs[1])
    if unwrap(l2).get("referencedDecl", {}).get("name") != "dc":
        raise Unsupported("simpsonWeights: second loop statement does not update dc")
    op, l3, r3 = assign(rest[2])
    nm3, idx3 = aref(l3)
    if (nm0, nm1, nm3) != ("rv", "rv", "rv") or idx1 != [var]:
        raise Unsupported("simpsonWeights: targets")
    return dict(loc=loc, first_idx=idx0[0], first=emit(tr.tr(r0)), lo=lo, hi=hi, mid=emit(tr.tr(r1)),
                dcnext=emit(tr.tr(r2)), last_idx=idx3[0], last=emit(tr.tr(r3)))


def gen_xproj():
    ss = stmts(body(method("updateXProjection")))
    if len(ss) != 1:
        raise Unsupported("updateXProjection: statements")
    loops, blk = nest(ss[0], 2)
    bs = stmts(blk)
    if len(bs) != 1:
        raise Unsupported("updateXProjection: loop body")
    op, lhs, rhs = assign(bs[0])
    return loops, aref(lhs), std_call(rhs)


def gen_yproj():
    ss = stmts(body(method("updateYProjection")))
    if len(ss) != 1:
        raise Unsupported("updateYProjection: statements")
    loops, blk = nest(ss[0], 2)
    bs = stmts(blk)
    if len(bs) != 2:
        raise Unsupported("updateYProjection: loop body")
    op, lhs, rhs = assign(bs[0])
    tgt = aref(lhs)
    init = zero_init(rhs)
    var, lo, hi, iblk = for_header(bs[1])
    ib = stmts(iblk)
    if len(ib) != 1:
        raise Unsupported("updateYProjection: inner loop body")
    op, l2, r2 = assign(ib[0], ops=("+=",))
    if aref(l2) != tgt:
        raise Unsupported("updateYProjection: accumulates into another element")
    term = emit(value_translator().tr(r2))
    return loops, tgt, init, (var, lo, hi), term


def gen_integrate():
    ss = stmts(body(method("integrate")))
    if len(ss) != 2:
        raise Unsupported("integrate: statements")
    loops, blk = nest(ss[0], 1)
    bs = stmts(blk)
    if len(bs) != 1:
        raise Unsupported("integrate: loop body")
    op, lhs, rhs = assign(bs[0])
    op, l2, r2 = assign(ss[1])
    if unwrap(l2).get("name") != "_integral":
        raise Unsupported("integrate: second statement does not set _integral")
    return loops, aref(lhs), std_call(rhs), std_call(r2)


def gen_normalize():
    ss = [s for s in stmts(body(method("normalize"))) if s.get("kind") != "ReturnStmt"]
    if len(ss) != 1:
        raise Unsupported("normalize: statements")
    loops, blk = nest(ss[0], 1)
    bs = stmts(blk)
    if len(bs) != 1 or bs[0].get("kind") != "IfStmt":
        raise Unsupported("normalize: guard")
    parts = [c for c in bs[0]["inner"] if c]
    if len(parts) != 3:
        raise Unsupported("normalize: if without else")
    cond = unwrap(parts[0])
    if cond.get("kind") != "BinaryOperator" or cond["opcode"] != ">":
        raise Unsupported("normalize: guard operator")
    g = aref(cond["inner"][0])
    z = unwrap(cond["inner"][1])
    if z.get("kind") == "ImplicitCastExpr":
        z = unwrap(z["inner"][0])
    if z.get("kind") != "IntegerLiteral" or z["value"] != "0":
        raise Unsupported("normalize: guard is not `> 0`")
    res = []
    for part, ops in ((parts[1], ("*=",)), (parts[2], ("=",))):
        ps = stmts(part)
        if len(ps) != 1:
            raise Unsupported("normalize: branch")
        l2, b2 = nest(ps[0], 2)
        b2s = stmts(b2)
        if len(b2s) != 1:
            raise Unsupported("normalize: branch body")
        op, lhs, rhs = assign(b2s[0], ops=ops)
        if op == "=":
            val = zero_init(rhs)
        else:
            val = emit(value_translator().tr(rhs))
        res.append((l2, aref(lhs), op, val))
    return loops, g, res


def gen_create():
    ss = stmts(body(method("createFromProjections")))
    loops, blk = nest(ss[0], 3)
    bs = stmts(blk)
    if len(bs) != 1:
        raise Unsupported("createFromProjections: loop body")
    op, lhs, rhs = assign(bs[0])
    calls = [called(s) for s in ss[1:]]
    if None in calls:
        raise Unsupported("createFromProjections: trailing statements")
    return loops, aref(lhs), emit(value_translator().tr(rhs)), calls


def fold_term(kind, a, w, init, var, length_of):
    an, ai = a
    if kind == "inner_product":
        wn, wi = w
        return "(List.range %s).foldl (fun acc %s => acc + %s * %s) %s" % (
            length_of, var, lean_ref(an, ai + [var]), lean_ref(wn, wi + [var]), init)
    return "(List.range %s).foldl (fun acc %s => acc + %s) %s" % (length_of, var, lean_ref(an, ai + [var]), init)


def generate():
    ext, ctor_calls = gen_extents()
    ss = gen_setsize()
    sw = gen_simpson()
    xl, xt, xc = gen_xproj()
    yl, yt, yi, yin, yterm = gen_yproj()
    il, it_, ic, iacc = gen_integrate()
    nl, ng, nres = gen_normalize()
    cl, ct, cval, ccalls = gen_create()

    def rowlen(a):
        nm, idx = a
        e = ext[nm]
        if len(idx) != len(e) - 1:
            raise Unsupported("range over %s%r is not one row" % (nm, idx))
        return e[-1]
    if xc[0] != "inner_product" or ic[0] != "inner_product" or iacc[0] != "accumulate":
        raise Unsupported("projection/integral no longer use inner_product/accumulate")
    A = "(data : Nat → Nat → Nat → α) (proj : Nat → Nat → Nat → α) (ws fill fset : Nat → α)"
    out = ["/- GENERATED by translator/gen_psloops.py from %s (sha256 %s).\n   Do not edit: overwritten by every check run. -/"
           % (SRC, source_hash(SRC)),
           "import InovesaModel.Model.Scalar\nset_option linter.unusedVariables false\nnamespace Inovesa.Gen.PS\nopen Inovesa\n",
           "variable {α : Type} [Arith α]\n",
           "/-- `PhaseSpace::setSize(x, b)`: the static sizes -/",
           "def setSizeNx (x b : Nat) : Nat := %s" % ss["_nmeshcellsX"],
           "def setSizeNy (x b : Nat) : Nat := %s" % ss["_nmeshcellsY"],
           "def setSizeNb (x b : Nat) : Nat := %s" % ss["_nbunches"],
           "def setSizeCells (x b : Nat) : Nat := %s" % ss["_nmeshcells"],
           "def setSizeTotal (x b : Nat) : Nat := %s\n" % ss["_totalmeshcells"],
           "/-- extents of the member arrays (constructor initialiser list) -/",
           "def dataExtents (nb nx ny : Nat) : List Nat := [%s]" % ", ".join(ext["_data"]),
           "def projectionExtents (nb nx ny : Nat) : List Nat := [%s]" % ", ".join(ext["_projection"]),
           "def fillingExtents (nb nx ny : Nat) : List Nat := [%s]\n" % ", ".join(ext["_filling"]),
           "/-- member functions the constructor calls after the grid data are in place, in this order -/",
           "def ctorRefreshes : List String := %s\n" % strl(ctor_calls),
           "/-- `PhaseSpace::simpsonWeights`: `rv[first] = …; for x in [lo,hi): rv[x] = mid; dc = next dc; rv[last] = …` -/",
           "def simpsonCa : α := %s" % sw["loc"]["ca"],
           "def simpsonDc0 : α := %s" % sw["loc"]["dc"],
           "def simpsonH03 (delta0 : α) : α := %s" % sw["loc"]["h03"],
           "def simpsonFirstIdx (nx : Nat) : Nat := %s" % sw["first_idx"],
           "def simpsonFirst (h03 ca dc : α) : α := %s" % sw["first"],
           "def simpsonLoopLo (nx : Nat) : Nat := %s" % sw["lo"],
           "def simpsonLoopHi (nx : Nat) : Nat := %s" % sw["hi"],
           "def simpsonMid (h03 ca dc : α) : α := %s" % sw["mid"],
           "def simpsonDcNext (h03 ca dc : α) : α := %s" % sw["dcnext"],
           "def simpsonLastIdx (nx : Nat) : Nat := %s" % sw["last_idx"],
           "def simpsonLast (h03 ca dc : α) : α := %s\n" % sw["last"],
           "/-- `updateXProjection`: loops, written element, value -/",
           "def xprojLoops : List (String × String × String) := %s" % loopsl(xl),
           "def xprojTarget : String × List String := (\"%s\", %s)" % (xt[0], strl(xt[1])),
           "def xprojTargetIdx (%s : Nat) : List Nat := [%s]" % (" ".join(l[0] for l in xl), ", ".join(xt[1])),
           "def xproj (nb nx ny : Nat) %s (%s : Nat) : α :=\n  %s" % (
               A, " ".join(l[0] for l in xl), fold_term(xc[0], xc[1], xc[2], xc[3], "k", rowlen(xc[1]))),
           "def xprojReads (n x k : Nat) : List Nat × List Nat := ([%s], [%s])\n" % (
               ", ".join(xc[1][1] + ["k"]), ", ".join(xc[2][1] + ["k"])),
           "/-- `updateYProjection` -/",
           "def yprojLoops : List (String × String × String) := %s" % loopsl(yl),
           "def yprojTarget : String × List String := (\"%s\", %s)" % (yt[0], strl(yt[1])),
           "def yprojTargetIdx (%s : Nat) : List Nat := [%s]" % (" ".join(l[0] for l in yl), ", ".join(yt[1])),
           "def yprojInit : α := %s" % yi,
           "def yprojInner : String × String × String := (\"%s\", \"%s\", \"%s\")" % yin,
           "def yprojTerm %s (%s %s : Nat) : α := %s" % (A, " ".join(l[0] for l in yl), yin[0], yterm),
           "def yproj (nb nx ny : Nat) %s (%s : Nat) : α :=\n  (List.range %s).foldl (fun acc %s => acc + yprojTerm data proj ws fill fset %s %s) yprojInit\n" % (
               A, " ".join(l[0] for l in yl), yin[2], yin[0], " ".join(l[0] for l in yl), yin[0]),
           "/-- `integrate` -/",
           "def integrateLoops : List (String × String × String) := %s" % loopsl(il),
           "def integrateTarget : String × List String := (\"%s\", %s)" % (it_[0], strl(it_[1])),
           "def filling (nb nx ny : Nat) %s (%s : Nat) : α :=\n  %s" % (
               A, " ".join(l[0] for l in il), fold_term(ic[0], ic[1], ic[2], ic[3], "k", rowlen(ic[1]))),
           "def integral (nb nx ny : Nat) %s : α :=\n  %s\n" % (
               A, fold_term(iacc[0], iacc[1], None, iacc[3], "k", ext[iacc[1][0]][-1])),
           "/-- `normalize`: guard `%s[%s] > 0`; then `%s`, else `%s` -/" % (ng[0], ",".join(ng[1]), nres[0][2], nres[1][2]),
           "def normalizeOuter : List (String × String × String) := %s" % loopsl(nl),
           "def normalizeGuard : String × List String := (\"%s\", %s)" % (ng[0], strl(ng[1])),
           "def normalizeThenLoops : List (String × String × String) := %s" % loopsl(nres[0][0]),
           "def normalizeThenTarget : String × List String := (\"%s\", %s)" % (nres[0][1][0], strl(nres[0][1][1])),
           "def normalizeFactor %s (n x y : Nat) : α := %s" % (A, nres[0][3]),
           "def normalizeElseLoops : List (String × String × String) := %s" % loopsl(nres[1][0]),
           "def normalizeElseTarget : String × List String := (\"%s\", %s)" % (nres[1][1][0], strl(nres[1][1][1])),
           "def normalizeElse : α := %s\n" % nres[1][3],
           "/-- `createFromProjections` -/",
           "def createLoops : List (String × String × String) := %s" % loopsl(cl),
           "def createTarget : String × List String := (\"%s\", %s)" % (ct[0], strl(ct[1])),
           "def createValue %s (n x y : Nat) : α := %s" % (A, cval),
           "def createThen : List String := %s\n" % strl(ccalls),
           "end Inovesa.Gen.PS"]
    return "\n".join(out) + "\n"


if __name__ == "__main__":
    print(generate())
