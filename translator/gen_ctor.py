"""G8: constructor forwarding of the RF maps -> InovesaModel/Gen/Ctors.lean

For DynamicRFKickMap's two constructors (base-class initialiser) and for main()'s four
`new (Dynamic)RFKickMap(...)` expressions: which overload clang selected (identified by its
formal parameter names) and which actual is passed for which formal."""
import os
import re
from cxxast import Unsupported, ast_of, REPO, source_hash, CLANG_ARGS

DYN = "src/SM/DynamicRFKickMap.cpp"
MAIN = "src/main.cpp"


def norm(b):
    return re.sub(r"\s+", "", b.decode("utf-8", "replace"))


def src_of(path):
    with open(os.path.join(REPO, path), "rb") as f:
        return f.read()


def text(src, node):
    r = node.get("range", {})
    b, e = r.get("begin", {}), r.get("end", {})
    bo = b.get("offset", b.get("expansionLoc", {}).get("offset"))
    eo = e.get("offset", e.get("expansionLoc", {}).get("offset"))
    tl = e.get("tokLen", e.get("expansionLoc", {}).get("tokLen", 1))
    if bo is None or eo is None:
        raise Unsupported("expression without source range")
    return norm(src[bo:eo + tl])


def ctor_table(docs):
    """class name -> {signature: [formal names]}"""
    tab = {}
    for d in docs:
        if d.get("kind") == "CXXRecordDecl" and d.get("name") in ("RFKickMap", "DynamicRFKickMap") and d.get("inner"):
            for c in d["inner"]:
                if c.get("kind") == "CXXConstructorDecl" and not c.get("isImplicit"):
                    formals = [p.get("name", "") for p in c.get("inner", []) if p.get("kind") == "ParmVarDecl"]
                    tab.setdefault(d["name"], {})[c["type"]["qualType"]] = formals
    return tab


def find_all(node, kind, out):
    if isinstance(node, dict):
        if node.get("kind") == kind:
            out.append(node)
        for c in node.get("inner", []):
            find_all(c, kind, out)
    return out


def call_of(src, construct, tab, cls):
    sig = construct.get("ctorType", {}).get("qualType")
    if cls not in tab or sig not in tab[cls]:
        raise Unsupported("constructor of %s with signature %s not found among its declarations" % (cls, sig))
    formals = tab[cls][sig]
    args = [a for a in construct.get("inner", [])]
    if len(args) != len(formals):
        raise Unsupported("argument count mismatch for %s" % cls)
    return list(zip(formals, [text(src, a) for a in args]))


def generate():
    docs = ast_of(DYN, "RFKickMap")
    tab = ctor_table(docs)
    if "RFKickMap" not in tab or "DynamicRFKickMap" not in tab:
        raise Unsupported("RFKickMap / DynamicRFKickMap declarations not found")
    src = src_of(DYN)
    calls = []
    for d in docs:
        if d.get("kind") == "CXXConstructorDecl" and d.get("name") == "DynamicRFKickMap" and \
                any(c.get("kind") == "CompoundStmt" for c in d.get("inner", [])):
            formals = [p.get("name", "") for p in d.get("inner", []) if p.get("kind") == "ParmVarDecl"]
            inits = [c for c in d["inner"] if c.get("kind") == "CXXCtorInitializer" and "baseInit" in c]
            if len(inits) != 1:
                raise Unsupported("DynamicRFKickMap constructor without a single base initialiser")
            cons = find_all(inits[0], "CXXConstructExpr", [])
            cons = [c for c in cons if c.get("type", {}).get("qualType", "").endswith("RFKickMap")]
            if not cons:
                raise Unsupported("base initialiser is not a constructor call")
            kind = "lin" if "angle" in formals else ("sin" if "V_RF" in formals else None)
            if kind is None:
                raise Unsupported("DynamicRFKickMap constructor of unknown kind: %r" % formals)
            calls.append(("DynamicRFKickMap." + kind, "RFKickMap", call_of(src, cons[0], tab, "RFKickMap")))
    if sorted(c[0] for c in calls) != ["DynamicRFKickMap.lin", "DynamicRFKickMap.sin"]:
        raise Unsupported("expected one linear and one sinusoidal DynamicRFKickMap constructor")
    # main(): the four constructions
    mdocs = ast_of(MAIN, "main")
    msrc = src_of(MAIN)
    mains = [d for d in mdocs if d.get("kind") == "FunctionDecl" and d.get("name") == "main" and d.get("inner")]
    if len(mains) != 1:
        raise Unsupported("main() not found")
    news = find_all(mains[0], "CXXNewExpr", [])
    seen = {}
    for nw in news:
        ty = nw.get("type", {}).get("qualType", "")
        cls = "DynamicRFKickMap" if "DynamicRFKickMap" in ty else ("RFKickMap" if "RFKickMap" in ty else None)
        if cls is None:
            continue
        cons = find_all(nw, "CXXConstructExpr", [])
        cons = [c for c in cons if c.get("type", {}).get("qualType", "").endswith(cls)]
        if not cons:
            raise Unsupported("new %s without constructor call" % cls)
        pairs = call_of(msrc, cons[0], tab, cls)
        names = [f for f, _ in pairs]
        kind = "lin" if "angle" in names else "sin"
        key = "main.new." + cls + "." + kind
        if key in seen:
            raise Unsupported("main() constructs %s twice" % key)
        seen[key] = True
        calls.append((key, cls, pairs))
    if len(seen) != 4:
        raise Unsupported("main(): expected four RF map constructions, found %r" % sorted(seen))

    def lstr(s):
        return '"' + s.replace("\\", "\\\\").replace('"', '\\"') + '"'
    out = []
    out.append("/- GENERATED by translator/gen_ctor.py from %s (sha256 %s) and %s (sha256 %s).\n"
               "   Do not edit: overwritten by every check run. -/" % (DYN, source_hash(DYN), MAIN, source_hash(MAIN)))
    out.append("namespace Inovesa.Gen\n")
    out.append("/-- one constructor call: who calls, which class is constructed, and (formal parameter of the\n"
               "    overload clang selected, source text of the actual) in order -/")
    out.append("structure CtorCall where\n  site : String\n  cls : String\n  pairs : List (String × String)\n  deriving Repr, DecidableEq\n")
    out.append("def ctorCalls : List CtorCall := [")
    rows = []
    for site, cls, pairs in calls:
        rows.append("  { site := %s, cls := %s, pairs := [%s] }" % (
            lstr(site), lstr(cls), ", ".join("(%s, %s)" % (lstr(f), lstr(a)) for f, a in pairs)))
    out.append(",\n".join(rows))
    out.append("]\n\nend Inovesa.Gen\n")
    return "\n".join(out)


if __name__ == "__main__":
    print(generate())
