"""C06 — wake potential = discrete convolution of the bunch profiles with the impedance."""
import math
import os
import sys

import numpy as np

sys.path.insert(0, os.path.dirname(os.path.dirname(os.path.abspath(__file__))))
import lib  # noqa
import cases as C  # noqa
import corr  # noqa
import efcommon as E  # noqa
from lib import f32, f2h, h2f  # noqa

MODULES = ["InovesaModel.Props.C06", "InovesaModel.Props.TieDrift", "InovesaModel.Props.TieEF", "InovesaModel.Props.TiePhysics", "InovesaModel.Props.TieWake"]
LEVEL = "proof"


def spec_wake(rec, prof, scale):
    n, nb, nmax, spacing, buckets = rec["n"], rec["nb"], rec["nmax"], rec["spacing"], rec["buckets"]
    padded = np.zeros(nmax)
    for b in range(nb):
        o = buckets[b] * spacing
        padded[o:o + n] = prof[b * n:(b + 1) * n]
    F = np.fft.fft(padded)
    X = np.zeros(nmax // 2 + 1, dtype=complex)
    for k in range(nmax // 2):
        X[k] = complex(*rec["z"][k]) * F[k]
    w = np.fft.irfft(X, n=nmax) * nmax
    out = []
    for b in range(nb):
        o = buckets[b] * spacing
        out += list(scale * w[o:o + n])
    return np.array(out), padded, w


def gen(rng, count, sizes, nmaxs):
    recs = []
    for k in range(count):
        n = rng.choice(sizes)
        nb, spacing, buckets, nmax = E.layout(rng, n, nmaxs=nmaxs)
        if k % 8 == 3:
            # a lone bunch in a bucket other than 0 (empty buckets behind it): its window does not start at cell 0
            nb, spacing = 1, rng.choice([n, n + 3])
            buckets = [rng.choice([1, 2])]
            need = buckets[0] * spacing + n
            nmax = rng.choice([m for m in nmaxs if m >= need] or [need + 1])
        z = E.impedance(rng, nmax, passive=rng.random() < 0.5)
        # make the upper half non-zero on purpose: it must not enter
        if rng.random() < 0.5:
            z = [(zz if i <= nmax // 2 else (f32(rng.uniform(-1, 1)), f32(rng.uniform(-1, 1)))) for i, zz in enumerate(z)]
        p0 = E.profile(rng, n, nb)
        p1 = E.profile(rng, n, nb)
        a = f32(rng.uniform(-2, 2))
        p2 = [f32(a * x + y) for x, y in zip(p0, p1)]
        # shifted copy of p0 inside its window (zero margins so that nothing leaves the window)
        d = rng.randint(1, max(1, n // 4))
        base = [0.0] * (n * nb)
        for b in range(nb):
            for x in range(n // 4, n // 2):
                base[b * n + x] = f32(rng.random())
        shifted = [0.0] * (n * nb)
        for b in range(nb):
            for x in range(n - d):
                shifted[b * n + x + d] = base[b * n + x]
        profs = [p0, p1, p2, base, shifted]
        cid = "w%d" % k
        # every second case: position and energy axes with different cell sizes (the scale uses the ENERGY cell)
        box = None
        if k % 2 == 1:
            box = [f32(-6.0), f32(6.0), f32(rng.choice([-12.0, -9.0, -4.0])), f32(rng.choice([12.0, 7.5, 4.0]))]
        recs.append(dict(id=cid, n=n, nb=nb, nmax=nmax, spacing=spacing, buckets=buckets, z=z, profs=profs, a=a, d=d, box=box,
                         optext=E.efcase(cid, n, nb, nmax, spacing, buckets, z, profs,
                                         ["P0", "w", "P1", "w", "P2", "w", "P3", "w", "P4", "w",
                                          # the wake kick map built on this field: its displacements must be the wake
                                          # potentials of every bunch and it must act as the y-kick map of those
                                          "P%d" % rng.randrange(3), "k%d" % rng.choice([1, 2, 3, 4])], box=box)))
    return recs


def oracle(rec, A):
    vals, ops = E.parse_ops(A.get(rec["id"], []))
    if vals is None or len(ops) < 5:
        return "no output"
    scale = h2f(vals[0])
    # scaling: _wakescaling*N = Ib*dt*c/(sigma_z*dE_cell)
    n, nmax = rec["n"], rec["nmax"]
    f_rev, revpart, ib, e0, sd, dt, fcut = [float(x) for x in E.EXTRA]
    delta = 12.0 / (n - 1) if not rec.get("box") else (float(rec["box"][3]) - float(rec["box"][2])) / (n - 1)
    want_scale = ib * dt * 2.99792458e8 / float(f32(1e-3)) / (float(f32(delta)) * sd * e0) / nmax
    if not abs(scale - want_scale) <= 1e-5 * abs(want_scale):
        return "wake scaling %g, expected Ib*dt*c/(sigma_z*dE_cell)/N = %g" % (scale, want_scale)
    wakes = []
    wpads = []
    for op, d in ops:
        if op.startswith("k"):
            ints = [int(x) for x in d.get("ints", [])]
            if len(ints) != 5 or ints[:3] != [0, 0, 0] or ints[3] != rec["nb"] * n or ints[4] != int(op[1:]):
                return ("WakePotentialMap is not the y-kick map of the wake potentials of its field: differing offsets / table "
                        "entries / output cells = %r (rows, interpolation points = %r)" % (ints[:3], ints[3:]))
    ops = [(op, d) for op, d in ops if op == "w"]
    for i, (op, d) in enumerate(ops):
        w = np.array([h2f(x) for x in d["wake"]])
        wp = np.array([h2f(x) for x in d["wpad"]])
        pad = np.array([h2f(x) for x in d["pad"]])
        want, padded, wfull = spec_wake(rec, rec["profs"][i], scale)
        if not np.array_equal(pad, padded.astype(np.float32)):
            j = int(np.nonzero(pad != padded.astype(np.float32))[0][0])
            return "padded train differs from 'profile b at bucket[b]*spacing' at cell %d (%g vs %g)" % (j, pad[j], padded[j])
        tol = 3e-5 * (np.max(np.abs(want)) + np.max(np.abs(scale * wfull))) + 1e-30
        if not np.all(np.abs(w - want) <= tol):
            j = int(np.argmax(np.abs(w - want)))
            return ("wake potential differs from scale*IDFT(Z*DFT(padded train)) read back at the bunch position: "
                    "profile set %d entry %d: %g vs %g" % (i, j, w[j], want[j]))
        wakes.append(w)
        wpads.append(wp)
    # linearity
    lin = rec["a"] * wakes[0] + wakes[1]
    tol = 1e-4 * (np.max(np.abs(lin)) + abs(rec["a"]) * np.max(np.abs(wakes[0])) + np.max(np.abs(wakes[1]))) + 1e-30
    if not np.all(np.abs(wakes[2] - lin) <= tol):
        return "wake potential not linear in the profiles"
    # shift (single transform of the whole train): padded wake moves with the train
    d = rec["d"]
    a, b = wpads[3], wpads[4]
    if not np.all(np.abs(np.roll(a, d) - b) <= 1e-4 * (np.max(np.abs(a)) + 1e-30)):
        return "shifting the profiles by %d cells does not shift the wake by %d cells" % (d, d)
    return None


def explore(chk, harness, count, sizes, nmaxs, tag):
    rng = lib.Rng(chk.seed, "C06/" + tag)
    recs = gen(rng, count, sizes, nmaxs)
    optexts = {r["id"]: r["optext"] for r in recs}
    A, B, mism, drift, san = corr.run_correspondence(chk, harness, optexts, tag)
    fails = [(r, f) for r in recs for f in [oracle(r, A)] if f]
    return recs, optexts, mism, drift, san, fails


def run(chk):
    ok, det = lib.prove(chk, MODULES, min_examples=1)
    harness = lib.build_harness()
    quick = chk.tier == "quick"
    count = 40 if quick else 300
    sizes = [4, 8, 16] if quick else [4, 8, 16, 32]
    nmaxs = E.NMAXS if quick else E.NMAXS + [257, 300]
    recs, optexts, mism, drift, san, fails = explore(chk, harness, count, sizes, nmaxs, "main")
    chk.cov["evaluations"] = len(recs) * 5
    chk.cov["distinct_nontrivial"] = len({r["optext"] for r in recs})
    chk.cov["rule"] = ("random layouts (1-3 bunches, empty buckets, spacings, transform lengths incl. composite/prime), "
                       "random complex impedances (upper half non-zero in half of the cases), five profile sets per case "
                       "(two random, a linear combination, a base and its shifted copy); compared with numpy's double-"
                       "precision DFT spec and with the Lean naive-DFT model; distinct = distinct op text")
    d = {}
    for r in recs:
        for key in ("nmax", "nb", "spacing"):
            d["%s=%s" % (key, r[key])] = d.get("%s=%s" % (key, r[key]), 0) + 1
    chk.cov["distribution"] = d
    chk.cov["correspondence"] = {"cases": len(recs), "mismatches": len(mism), "within_tolerance_not_bitwise": drift}
    chk.cov["samples"] = [{"case": recs[0]["optext"][:200]},
                          {"theorem": "Inovesa.Props.C06.wake_is_spec / wake_linear / wake_shift / pad_places / half_spectrum / wake_scale"}]
    chk.assumptions += [
        "FFTW's r2c/c2r compute the naive sums dftNaive/c2rNaive (library assumption, validated numerically within 2e-5 of the line scale against the Lean model in binary64 and against numpy)",
        "theorems in exact arithmetic over any field; twiddle factors enter through the group law only",
    ]
    if san:
        chk.violation("sanitizer/abort in the implementation: " + san[:300],
                      "# harness aborted\n" + san + "\n" + "".join(optexts.values())[:200000], tag="sanitizer")
    for r, f in fails[:1]:
        chk.violation("C06 violated: " + f, "# C06 oracle failure: %s\n%s" % (f, r["optext"]), tag="oracle_" + r["id"])
    broken = []
    if not ok:
        broken.append("proof obligation: " + str(det.get("broken"))[:1500])
    if mism:
        broken.append("correspondence (model vs implementation): case %s: %s" % mism[0])
    if broken and not fails and not san:
        recs2, opt2, mism2, drift2, san2, fails2 = explore(chk, harness, 300, [4, 8, 16], E.NMAXS, "search")
        chk.cov["search"] = {"cases": len(recs2), "oracle_failures": len(fails2)}
        if fails2:
            r, f = fails2[0]
            chk.violation("C06 violated: %s; broken: %s" % (f, broken[0][:300]),
                          "# C06 oracle failure found by search: %s\n%s" % (f, r["optext"]), tag="search_" + r["id"])
        else:
            txt = "# C06 no longer shown; no failing input found by the search\n# %s\n" % (
                "\n# ".join(b.replace("\n", "\n# ") for b in broken))
            if mism and mism[0][0] in optexts:
                txt += "# first differing correspondence case follows\n" + optexts[mism[0][0]]
            chk.violation("C06 no longer shown: " + broken[0][:400], txt, tag="unproved", found_input=False)


def replay(chk, path):
    harness = lib.build_harness()
    with open(path) as f:
        txt = f.read()
    a, b, rc, err, rc2, err2 = C.run_both(harness, txt, "replay")
    print("\n".join(l[:200] for l in a[:50]))
    chk.cov["evaluations"] = len(C.split_cases(a))
