"""C13 — the configuration file saved next to the results reproduces the run."""
import os
import sys

sys.path.insert(0, os.path.dirname(os.path.dirname(os.path.abspath(__file__))))
import lib  # noqa
import cases as C  # noqa
import optcommon as O  # noqa

MODULES = ["InovesaModel.Props.C13"]
LEVEL = "proof"


def saved_pairs(line):
    out = []
    for t in line.split()[2:]:
        k, v = t.split("=", 1)
        out.append((k, v.replace("~", " ")))
    return out


def num_close(a, b):
    try:
        fa, fb = float(a.replace("f:", "").replace("s:", "")), float(b)
    except ValueError:
        return a.replace("s:", "") == b
    return abs(fa - fb) <= 1e-6 * max(abs(fa), abs(fb)) + 1e-300


def explore(chk, harness, count, tag):
    rng = lib.Rng(chk.seed, "C13/" + tag)
    opts, cg, fg = O.option_table()
    gmap = O.getter_map()
    recs = []
    for k in range(count):
        digits = 5 if k % 3 else rng.choice([8, 9])
        recs.append(O.gen_case(rng, "v%d" % k, opts, cg, fg, digits=digits, save=True,
                               p_opt=rng.choice([0.1, 0.25, 0.5])))
    # the invocations named by the property
    fixed = [
        ("vdef", "opts vdef save\nargv --config /dev/null\nrun\n"),
        ("vcur", "opts vcur save\nargv --config /dev/null -I 0.001 0.0025 0.0005 -o /dev/null\nrun\n"),
        ("vfs", "opts vfs save\nargv --config /dev/null -f 8123.5 --alpha0 0.0071\nrun\n"),
        ("vfr", "opts vfr save\nargv --config /dev/null --run_anyway --verbose\nrun\n"),
        # the synchrotron frequency GIVEN as zero means "use alpha0": alpha0 must survive the round trip
        # doubles that need all 17 significant digits
        ("vp17", "opts vp17 save\nargv --config /dev/null -T 0.30000000000000004 -E 1299999999.9999998 --BeamEnergySpread 0.00047000000000000004\nrun\n"),
        ("vf0", "opts vf0 save\nargv --config /dev/null -f 0 --alpha0 0.0071\nrun\n"),
        ("vf0c", "opts vf0c save\nargv --config @CFG@\ncfg SynchrotronFrequency=0 alpha0=0.0052\nrun\n"),
        ("vprec", "opts vprec save\nargv --config /dev/null -V 1234567.25 -E 1.29999987e9 -P 11.7500005\nrun\n"),
        ("vpar", "opts vpar save\nargv --config @CFG@ -V 2e6\ncfg RFVoltage=5e5 GridSize=64 BunchCurrent=0.002 BunchCurrent=0.004\nrun\n"),
    ]
    for cid, t in fixed:
        recs.append(dict(id=cid, optext=t, chosen={"fixed": 1}, save=True, argv=t.split("\n")[1].split()[1:], cfg=[]))
    txt = "".join(r["optext"] for r in recs)
    a, b, rc, err, rc2, err2 = C.run_both(harness, txt, "C13" + tag)
    A, B = C.split_cases(a), C.split_cases(b)
    mism, fails = [], []
    san = "harness exited with status %d\n%s" % (rc, err[-3000:]) if rc != 0 else ""
    for r in recs:
        la, lb = A.get(r["id"], []), B.get(r["id"], [])
        ta = [l for l in la if l.startswith("txt") and not l.startswith("txt saved")]
        tb = [l for l in lb if l.startswith("txt") and not l.startswith("txt saved")]
        if ta != tb:
            mism.append((r["id"], "outcomes: implementation %s, model %s" % (ta, tb)))
            continue
        ga = [O.parse_get_line(l) for l in la if l.startswith("get")]
        vb = [O.parse_vars_line(l) for l in lb if l.startswith("vars")]
        for x, y in zip(ga, vb):
            d = O.compare_get(x, y, gmap)
            if d:
                mism.append((r["id"], d))
                break
        sa = [l for l in la if l.startswith("txt saved")]
        sb = [l for l in lb if l.startswith("txt saved")]
        if sa and sb:
            pa = saved_pairs(sa[0])
            pb = [(k, v) for k, v in saved_pairs(sb[0]) if k != "config"]
            if [k for k, _ in pa] != [k for k, _ in pb]:
                mism.append((r["id"], "saved keys differ: implementation-only %s, model-only %s" % (
                    sorted(set(k for k, _ in pa) - set(k for k, _ in pb)), sorted(set(k for k, _ in pb) - set(k for k, _ in pa)))))
            else:
                for (k, va), (_, vm) in zip(pa, pb):
                    if not num_close(vm, va):
                        mism.append((r["id"], "saved value of %s: implementation %s, model token %s" % (k, va, vm)))
                        break
        # ORACLE (implementation only): getters after re-parsing the saved file = original getters
        if len(ga) == 2:
            g0, g1 = ga
            fs_set = g0.get("SyncFreq") not in ("00000000", "80000000")
            for k in g0:
                if k == "Alpha0" and fs_set:
                    continue        # alpha0 is written as 0 when the synchrotron frequency overrides it
                if g0[k] != g1.get(k):
                    fails.append((r, "option behind getter %s: original invocation %s, after --config <saved> %s"
                                  % (k, g0[k], g1.get(k))))
                    break
        elif ta and ta[0] == "txt run" and len(ga) < 2:
            fails.append((r, "re-parsing the saved configuration did not run: %s" % ta))
    return recs, mism, san, fails


def run(chk):
    ok, det = lib.prove(chk, MODULES, min_examples=1)
    harness = lib.build_harness()
    quick = chk.tier == "quick"
    count = 120 if quick else 5000
    recs, mism, san, fails = explore(chk, harness, count, "main")
    chk.cov["evaluations"] = len(recs)
    chk.cov["distinct_nontrivial"] = len({r["optext"] for r in recs if r["chosen"]})
    chk.cov["rule"] = ("random option assignments over command line / parent config file / defaults (5-digit and, every "
                       "third case, 8-9-digit values; one or several bunch currents; alpha0 or synchrotron frequency), each "
                       "parsed, saved with the real save(), and re-parsed from the saved file alone; plus six fixed "
                       "invocations named by the property; distinct = distinct op text")
    chk.cov["correspondence"] = {"cases": len(recs), "mismatches": len(mism)}
    chk.cov["samples"] = [{"case": recs[0]["optext"][:300]},
                          {"theorem": "Inovesa.Props.C13.cfg_roundtrip_scalar / saved_vector / alpha0_rule / saved_types_cover / skip_only_compat / save_full_precision (generated save rules)"}]
    chk.assumptions += [
        "print/parse round trip of numbers (ostream with max_digits10, boost::lexical_cast) is a library fact, tested by the oracle with 8-9 digit values, not proved",
        "options not observable through a getter in this build (gui, ForceOpenGLVersion, cldev>0) are outside the comparison; alpha0 is exempt while the synchrotron frequency overrides it (written as 0 by design)",
        "boost semantics as for C20",
    ]
    if san:
        chk.violation("sanitizer/abort in the implementation: " + san[:300], "# harness aborted\n" + san, tag="sanitizer")
    for r, f in fails[:1]:
        chk.violation("C13 violated: " + f, "# C13 oracle failure: %s\n%s" % (f, r["optext"]), tag="oracle_" + r["id"])
    broken = []
    if not ok:
        broken.append("proof obligation: " + str(det.get("broken"))[:1500])
    if mism:
        broken.append("correspondence (model vs implementation): case %s: %s" % mism[0])
    if broken and not fails and not san:
        recs2, mism2, san2, fails2 = explore(chk, harness, 1500, "search")
        chk.cov["search"] = {"cases": len(recs2), "oracle_failures": len(fails2)}
        if fails2:
            r, f = fails2[0]
            chk.violation("C13 violated: %s; broken: %s" % (f, broken[0][:300]),
                          "# C13 oracle failure found by search: %s\n%s" % (f, r["optext"]), tag="search_" + r["id"])
        else:
            byid = {r["id"]: r for r in recs}
            txt = "# C13 no longer shown; no failing input found by the search\n# %s\n" % (
                "\n# ".join(b.replace("\n", "\n# ") for b in broken))
            if mism and mism[0][0] in byid:
                txt += "# first differing correspondence case follows\n" + byid[mism[0][0]]["optext"]
            chk.violation("C13 no longer shown: " + broken[0][:400], txt, tag="unproved", found_input=False)


def replay(chk, path):
    harness = lib.build_harness()
    with open(path) as f:
        txt = f.read()
    a, b, rc, err, rc2, err2 = C.run_both(harness, txt, "replay")
    print("\n".join(l[:300] for l in a[:20]))
    chk.cov["evaluations"] = len(C.split_cases(a))
