"""ElectricField case generation shared by C06, C07, C18."""
import math
import os
import sys

sys.path.insert(0, os.path.dirname(os.path.dirname(os.path.abspath(__file__))))
import lib  # noqa
import cases as C  # noqa
import corr  # noqa
from lib import f32, f2h, h2f  # noqa

EXTRA = [f32(9e6), f32(1e-4), f32(1e-3), f32(1.3e9), f32(4.7e-4), f32(1e-11), f32(2.3e10)]
NMAXS = [16, 24, 30, 31, 64, 100, 127, 128, 256]


def efcase(cid, n, nb, nmax, spacing, buckets, z, profsets, ops, box=None):
    """box = (qmin, qmax, pmin, pmax) of the phase space, default [-6,6]^2"""
    return "ef %s %d %d %d %d\noff %s\nparts %s\nextra %s\ndata %s\nops %s\nrun\n" % (
        cid, n, nb, nmax, spacing, " ".join(f2h(float(b)) for b in buckets),
        " ".join(f2h(x) for zz in z for x in zz), " ".join(f2h(x) for x in list(EXTRA) + list(box or [])),
        " ".join(f2h(x) for ps in profsets for x in ps), " ".join(ops))


def layout(rng, n, nbmax=3, nmaxs=NMAXS):
    nb = rng.choice(list(range(1, nbmax + 1)))
    spacing = rng.choice([n, n + 3, 2 * n]) if nb > 1 or rng.random() < 0.5 else 0
    nbk = nb + rng.randint(0, 2)
    buckets = sorted(rng.sample(range(nbk), nb), reverse=True) if spacing > 0 else [0] * nb
    if spacing == 0 and nb > 1:
        spacing = n
        buckets = sorted(rng.sample(range(nbk), nb), reverse=True)
    need = max(buckets) * spacing + n
    cands = [m for m in nmaxs if m >= need] or [need + rng.randint(0, 5)]
    nmax = rng.choice(cands + [need, need + 1])
    return nb, spacing, buckets, nmax


def impedance(rng, nmax, passive=True):
    z = []
    for i in range(nmax):
        if i <= nmax // 2:
            re = rng.uniform(0, 2) if passive else rng.uniform(-2, 2)
            z.append((f32(re), f32(rng.uniform(-1, 1))))
        else:
            z.append((0.0, 0.0))
    # a short impedance table (file with fewer rows than half the frequency grid, a model that ends below the top
    # frequency): exact zeros from some index below the Nyquist index on, sometimes with a gap further down
    shape = rng.random()
    if shape < 0.25 and nmax >= 8:
        k0 = rng.randint(1, max(1, nmax // 2 - 1))
        z = [(zz if i < k0 else (0.0, 0.0)) for i, zz in enumerate(z)]
    elif shape < 0.35 and nmax >= 12:
        a = rng.randint(1, nmax // 4)
        b = rng.randint(a + 1, nmax // 2)
        z = [((0.0, 0.0) if a <= i < b else zz) for i, zz in enumerate(z)]
    return z


def profile(rng, n, nb, fam=None):
    fam = fam or rng.choice(["gauss", "rand", "impulse"])
    out = []
    for b in range(nb):
        if fam == "gauss":
            m, s = rng.uniform(1, n - 2), rng.uniform(0.7, n / 4)
            out += [f32(math.exp(-((x - m) ** 2) / (2 * s * s))) for x in range(n)]
        elif fam == "rand":
            out += [f32(rng.random()) for _ in range(n)]
        else:
            v = [0.0] * n
            v[rng.randrange(n)] = 1.0
            out += v
    return out


def parse_ops(lines):
    """list of (op, {tag: [hex...]}) in order; plus 'vals' first line"""
    res = []
    vals = None
    cur = None
    for l in lines:
        t = l.split()
        if t[0] == "vals" and vals is None and cur is None:
            vals = t[1:]
        elif t[0] == "ops":
            cur = (t[1], {})
            res.append(cur)
        elif cur is not None:
            cur[1][t[0]] = t[1:]
    return vals, res
