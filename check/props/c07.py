"""C07 — CSR power equals the energy the wake takes from the beam and is never negative."""
import math
import os
import sys

import numpy as np

sys.path.insert(0, os.path.dirname(os.path.dirname(os.path.abspath(__file__))))
import lib  # noqa
import cases as C  # noqa
import corr  # noqa
import efcommon as E  # noqa
from lib import f32, f2h, h2f  # noqa

MODULES = ["InovesaModel.Props.C07", "InovesaModel.Props.TieEF"]
LEVEL = "proof"


def gen(rng, count, sizes, nmaxs):
    recs = []
    for k in range(count):
        n = rng.choice(sizes)
        single = k % 2 == 0
        if single:
            nb, spacing, buckets = 1, 0, [0]
            nmax = rng.choice([m for m in nmaxs if m >= n] + [n, n + 1])
        else:
            nb, spacing, buckets, nmax = E.layout(rng, n, nmaxs=nmaxs)
        z = E.impedance(rng, nmax, passive=True)
        if k % 2 == 1 or rng.random() < 0.3:
            # a table filled over its WHOLE length (an impedance file with more rows than half the frequency grid): the
            # entries above the Nyquist index belong to no frequency the profile can radiate at and must not enter
            z = [(zz if i <= nmax // 2 else (f32(rng.uniform(0.1, 2)), f32(rng.uniform(-1, 1)))) for i, zz in enumerate(z)]
        if rng.random() < 0.3:
            z = [(0.0, zz[1]) if rng.random() < 0.3 else zz for zz in z]
        prof = E.profile(rng, n, nb, rng.choice(["gauss", "rand", "impulse"]))
        if rng.random() < 0.3:
            prof = [f32(x - 0.3) for x in prof]       # signed profiles too
        cid = "q%d" % k
        # every third case: position and energy axes with different cell sizes (the spectrum is normalised with the
        # POSITION cell size squared, the wake with the energy cell size)
        box = None
        if k % 3 == 1:
            box = [f32(rng.choice([-6.0, -8.0])), f32(rng.choice([6.0, 5.0])), f32(rng.choice([-12.0, -4.0])), f32(rng.choice([12.0, 3.0]))]
        recs.append(dict(id=cid, n=n, nb=nb, nmax=nmax, spacing=spacing, buckets=buckets, z=z, prof=prof, single=single, box=box,
                         optext=E.efcase(cid, n, nb, nmax, spacing, buckets, z, [prof], ["P0", "w", "C", "c"], box=box)))
    return recs


def oracle(rec, A):
    vals, ops = E.parse_ops(A.get(rec["id"], []))
    if vals is None or len(ops) < 3:
        return "no output"
    scale = h2f(vals[0])
    n, nb, nmax = rec["n"], rec["nb"], rec["nmax"]
    wake = np.array([h2f(x) for x in ops[0][1]["wake"]], dtype=float)
    spec = np.array([h2f(x) for x in ops[1][1]["spec"]], dtype=float).reshape(nb, nmax)
    powr = np.array([h2f(x) for x in ops[1][1]["pow"]], dtype=float)
    spec_c = np.array([h2f(x) for x in ops[2][1]["spec"]], dtype=float).reshape(nb, nmax)
    pow_c = np.array([h2f(x) for x in ops[2][1]["pow"]], dtype=float)
    # signs: bit patterns, so that -0.0 and tiny negatives are seen
    for tag, arr in (("spectrum", ops[1][1]["spec"]), ("spectrum with cutoff", ops[2][1]["spec"]),
                     ("power", ops[1][1]["pow"]), ("power with cutoff", ops[2][1]["pow"])):
        for i, hx in enumerate(arr):
            v = h2f(hx)
            if v < 0 or math.isnan(v):
                return "%s entry %d is %g for a passive impedance" % (tag, i, v)
    for b in range(nb):
        if not pow_c[b] <= powr[b] * (1 + 1e-6) + 1e-30:
            return "power with cutoff (%g) exceeds power without (%g)" % (pow_c[b], powr[b])
    if rec["single"]:
        # Parseval: P/(df*dq^2) - 1/2 sum rho*W/scale = 1/2 ReZ0 |F0|^2 + ReZ_[N/2] |F_[N/2]|^2
        rho = np.array(rec["prof"], dtype=float)
        padded = np.zeros(nmax)
        padded[:n] = rho
        F = np.fft.fft(padded)
        delta = float(f32(12.0 / (n - 1))) if not rec.get("box") else float(f32((f32(float(rec["box"][1]) - float(rec["box"][0]))) / (n - 1)))
        df = float(f32(f32(1.0 / f32(delta)) / (nmax - 1)))
        renorm = float(f32(delta * delta))
        lhs = powr[0] / (df * renorm)
        pair = 0.5 * float(np.dot(rho, wake)) / scale
        zre = [zz[0] for zz in rec["z"]]
        rest = 0.5 * zre[0] * abs(F[0]) ** 2 + zre[nmax // 2] * abs(F[nmax // 2]) ** 2
        total = sum(zre[k] * abs(F[k]) ** 2 for k in range(nmax // 2 + 1))
        mag = sum(abs(complex(*rec["z"][k])) * abs(F[k]) ** 2 for k in range(nmax // 2 + 1))
        if not abs(lhs - (pair + rest)) <= 2e-4 * (abs(total) + abs(pair) + mag) + 1e-30:
            return ("Parseval: power/(df*dq^2) = %g, but 1/2*sum(rho*W)/scale + zero-frequency/Nyquist terms = %g"
                    % (lhs, pair + rest))
        # intensity = sum of the spectrum * df
        if not abs(powr[0] - df * float(np.sum(spec[0]))) <= 1e-5 * abs(powr[0]) + 1e-30:
            return "power %g is not df * sum(spectrum) = %g" % (powr[0], df * float(np.sum(spec[0])))
    return None


def explore(chk, harness, count, sizes, nmaxs, tag):
    rng = lib.Rng(chk.seed, "C07/" + tag)
    recs = gen(rng, count, sizes, nmaxs)
    optexts = {r["id"]: r["optext"] for r in recs}
    A, B, mism, drift, san = corr.run_correspondence(chk, harness, optexts, tag)
    fails = [(r, f) for r in recs for f in [oracle(r, A)] if f]
    return recs, optexts, mism, drift, san, fails


def run(chk):
    ok, det = lib.prove(chk, MODULES, min_examples=1)
    harness = lib.build_harness()
    quick = chk.tier == "quick"
    count = 60 if quick else 500
    sizes = [4, 8, 16] if quick else [4, 8, 16, 32]
    nmaxs = E.NMAXS if quick else E.NMAXS + [257, 300]
    recs, optexts, mism, drift, san, fails = explore(chk, harness, count, sizes, nmaxs, "main")
    chk.cov["evaluations"] = len(recs)
    chk.cov["distinct_nontrivial"] = len({r["optext"] for r in recs})
    chk.cov["rule"] = ("one field object per case: wakePotential, updateCSR without and with cutoff on the same profile and "
                       "the same random passive impedance (some Re Z = 0); half of the cases single bunch at offset 0 for "
                       "the Parseval identity; signed and non-negative profiles; distinct = distinct op text")
    d = {}
    for r in recs:
        for key in ("nmax", "nb", "single"):
            d["%s=%s" % (key, r[key])] = d.get("%s=%s" % (key, r[key]), 0) + 1
    chk.cov["distribution"] = d
    chk.cov["correspondence"] = {"cases": len(recs), "mismatches": len(mism), "within_tolerance_not_bitwise": drift}
    chk.cov["samples"] = [{"case": recs[0]["optext"][:200]},
                          {"theorem": "Inovesa.Props.C07.parseval_pairing / csr_sum / spectrum_nonneg / power_nonneg / cutoff_le"}]
    chk.assumptions += [
        "non-negativity is proved in an ordered field for ANY forward transform; it transfers to binary32 by monotone rounding (products and sums of non-negative floats are non-negative) - IEEE fact, trusted, tested on bit patterns",
        "cutoff factor 1-exp(-(f/fc)^2) enters as a hypothesis 0 <= f_i <= 1 (true of the real exponential)",
        "FFTW assumption as for C06",
    ]
    if san:
        chk.violation("sanitizer/abort in the implementation: " + san[:300],
                      "# harness aborted\n" + san + "\n" + "".join(optexts.values())[:200000], tag="sanitizer")
    for r, f in fails[:1]:
        chk.violation("C07 violated: " + f, "# C07 oracle failure: %s\n%s" % (f, r["optext"]), tag="oracle_" + r["id"])
    broken = []
    if not ok:
        broken.append("proof obligation: " + str(det.get("broken"))[:1500])
    if mism:
        broken.append("correspondence (model vs implementation): case %s: %s" % mism[0])
    if broken and not fails and not san:
        recs2, opt2, mism2, drift2, san2, fails2 = explore(chk, harness, 400, [4, 8, 16], E.NMAXS, "search")
        chk.cov["search"] = {"cases": len(recs2), "oracle_failures": len(fails2)}
        if fails2:
            r, f = fails2[0]
            chk.violation("C07 violated: %s; broken: %s" % (f, broken[0][:300]),
                          "# C07 oracle failure found by search: %s\n%s" % (f, r["optext"]), tag="search_" + r["id"])
        else:
            txt = "# C07 no longer shown; no failing input found by the search\n# %s\n" % (
                "\n# ".join(b.replace("\n", "\n# ") for b in broken))
            if mism and mism[0][0] in optexts:
                txt += "# first differing correspondence case follows\n" + optexts[mism[0][0]]
            chk.violation("C07 no longer shown: " + broken[0][:400], txt, tag="unproved", found_input=False)


def replay(chk, path):
    harness = lib.build_harness()
    with open(path) as f:
        txt = f.read()
    a, b, rc, err, rc2, err2 = C.run_both(harness, txt, "replay")
    print("\n".join(l[:200] for l in a[:50]))
    chk.cov["evaluations"] = len(C.split_cases(a))
