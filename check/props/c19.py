"""C19 — zero-amplitude RF modulation is the static RF; applied modulation is recorded."""
import math
import os
import shutil
import sys

sys.path.insert(0, os.path.dirname(os.path.dirname(os.path.abspath(__file__))))
import lib  # noqa
import cases as C  # noqa
import corr  # noqa
import prog  # noqa
import progcommon as P  # noqa
from lib import f32, f2h, h2f  # noqa

MODULES = ["InovesaModel.Props.C19", "InovesaModel.Props.C19Rows", "InovesaModel.Props.TieRF", "InovesaModel.Props.TieMain"]
LEVEL = "proof"


def gen(rng, count):
    recs = []
    for k in range(count):
        n = rng.choice([8, 16, 17])
        it = rng.choice([1, 2, 3, 4])
        nb = rng.choice([1, 1, 2])
        lin = k % 3 != 2
        steps = rng.randint(3, 12)
        shx = rng.uniform(-1, 1)
        box = [f32(-6 + shx), f32(6 + shx), f32(-6), f32(6), f32(1.2e-3), f32(6.11e5)]
        if k % 2 == 1:
            # (both RF models: lin = k % 3 != 2) position and energy axes with different cell sizes (a phase is a POSITION offset)
            box[2], box[3] = f32(rng.choice([-3.0, -9.0])), f32(rng.choice([3.0, 12.0]))
        sps = rng.choice([50, 200, 1000])
        angle = f32(2 * math.pi / sps)
        # "ampl"/"phase": one kind of noise only (a map cached on the other quantity goes stale)
        mode = ["zero", "zero", "mod", "noise", "both", "ampl", "phase"][k % 7]
        ps = f32(rng.uniform(0.001, 0.02)) if mode in ("noise", "both", "phase") else 0.0
        as_ = f32(rng.uniform(0.001, 0.01)) if mode in ("noise", "both", "ampl") else 0.0
        if mode in ("ampl", "noise") and k % 2 == 1:
            # amplitude noise so strong that some steps draw a NEGATIVE amplitude (1 + N(0,1)*spread/sqrt(f_rev*dt) < 0):
            # whatever is applied in such a step is what must be recorded for it
            as_ = f32(rng.uniform(0.8, 3.0) * math.sqrt(9e6 / (8e3 * sps)))
        ma = f32(rng.uniform(0.005, 0.05)) if mode in ("mod", "both") else 0.0
        mt = f32(rng.uniform(0.001, 0.1)) if mode in ("mod", "both") else (f32(0.01) if rng.random() < 0.5 else 0.0)
        e = box + [angle, f32(4.5e8), f32(9e6 / (8e3 * sps)), f32(1e6), f32(4.5e4), ps, as_, ma, mt]
        data = C.data_family(rng, n, nb, rng.choice(["gauss", "noise"]), 2)
        ops = []
        na = 0
        while na < steps and len(ops) < 3 * steps:
            o = rng.choice(["a", "a", "a", "f"])
            if o == "a":
                na += 1
            ops.append(o)
        if mode in ("zero", "ampl"):
            ops = ["s"] + ops
        cid = "d%d" % k
        if k == 2:
            # one long history of a pure phase modulation: more steps than any block size one might precompute the queue in
            n, nb, lin, mode, steps = 8, 1, True, "mod", 66000
            ps, as_, ma, mt = 0.0, 0.0, f32(0.05), f32(0.000731)
            e = box + [angle, f32(4.5e8), f32(9e6 / (8e3 * sps)), f32(1e6), f32(4.5e4), ps, as_, ma, mt]
            data = C.data_family(rng, n, nb, "gauss", 2)
            ops = ["A65530", "a", "a", "a", "a", "a", "a", "a", "a", "f"]
        recs.append(dict(id=cid, n=n, nb=nb, lin=lin, steps=steps, mode=mode, ops=ops, modampl=ma, modtime=mt, qmin=box[0], qmax=box[1],
                         optext="dynrf %s %d %d %d %s %d\nextra %s\ndata %s\nops %s\nrun\n" % (
                             cid, n, it, nb, "lin" if lin else "sin", steps, " ".join(f2h(x) for x in e),
                             " ".join(f2h(x) for x in data), " ".join(ops))))
    return recs


def parse(lines):
    """[(op, {tag: [hex]})]"""
    out = []
    cur = None
    for l in lines:
        t = l.split()
        if t[0] == "ops":
            cur = (t[1], {})
            out.append(cur)
        elif cur is not None:
            cur[1][t[0]] = t[1:]
    return out


def oracle(rec, A):
    lines = A.get(rec["id"], [])
    if any(l.startswith("error") for l in lines):
        return "implementation reported: %s" % [l for l in lines if l.startswith("error")][0]
    ops = parse(lines)
    applies = [d for o, d in ops if o == "a"]
    flushed = []
    for o, d in ops:
        if o == "f":
            v = d.get("vals", [])
            flushed += [(v[i], v[i + 1]) for i in range(0, len(v), 2)]
    na = sum(1 if o == "a" else (int(o[1:]) if o.startswith("A") else 0) for o in rec["ops"])
    if len(flushed) != na:
        return "%d kicks applied but %d (phase, amplitude) records handed out over all flushes" % (na, len(flushed))
    if rec["mode"] == "zero":
        st = [d for o, d in ops if o == "s"]
        if st:
            for i, a in enumerate(applies):
                if a["off"] != st[0]["off"]:
                    return "zero-amplitude modulation: displacement field of kick %d differs from the static RF map" % i
            if applies and applies[0]["out"] != st[0]["out"]:
                return "zero-amplitude modulation: kicked grid differs from the static RF map's"
        for ph, am in flushed:
            if h2f(am) != 1.0:
                return "zero-amplitude modulation recorded amplitude %r" % h2f(am)
        if len({ph for ph, am in flushed}) > 1:
            return "zero-amplitude modulation recorded varying phases"
    # the kick of step k is the one recorded for step k.  Both RF models have the form
    # off[x] = ampl * g(x, phase) + const, so two steps with the same recorded phase differ by the ratio of
    # their recorded amplitudes (in differences over x), and a step with the static phase and amplitude a
    # is a times the static map (again in differences over x)
    if len(flushed) == len(applies) and applies and "off" in applies[0]:
        offs = [[h2f(v) for v in a["off"]] for a in applies]
        n = rec["n"]
        span = lambda o: o[0] - o[n - 1]
        by_phase = {}
        for k, (ph, am) in enumerate(flushed):
            by_phase.setdefault(ph, []).append(k)
        for ph, ks in by_phase.items():
            j = ks[0]
            for k in ks[1:]:
                lhs = span(offs[k]) * h2f(flushed[j][1])
                rhs = span(offs[j]) * h2f(flushed[k][1])
                # each entry of a displacement field is a binary32 number that went through a handful of roundings: a span
                # is known to a few ulps of the LARGEST entry, which matters when an amplitude is tiny (strong noise)
                ulps = lambda o: 16 * 2.0 ** -24 * max(abs(v) for v in o)
                slack = ulps(offs[k]) * abs(h2f(flushed[j][1])) + ulps(offs[j]) * abs(h2f(flushed[k][1]))
                if abs(lhs - rhs) > 2e-5 * max(abs(lhs), abs(rhs), 1e-30) + slack:
                    return ("kicks %d and %d are recorded with the same phase and amplitudes %r, %r, but the applied "
                            "displacement fields have slope ratio %r" % (j, k, h2f(flushed[j][1]), h2f(flushed[k][1]),
                                                                         span(offs[k]) / span(offs[j]) if span(offs[j]) else None))
        if rec["lin"] and "qmin" in rec:
            # linear RF model: the field of step k is A_k (x0_k - x), it vanishes where the RF phase is the synchronous one.
            # A recorded phase is an offset along the POSITION axis: between two steps the zero moves by
            # (phase_j - phase_k) / (bl2phase * cell size of the position axis), bl2phase = qscale / c * f_RF * 2 pi
            dxq = (rec["qmax"] - rec["qmin"]) / (n - 1)
            bl2phase = 1.2e-3 / 299792458.0 * 4.5e8 * 2 * math.pi
            zero = {}
            for k, (ph, am) in enumerate(flushed):
                slope = offs[k][0] - offs[k][1]
                if abs(h2f(am)) >= 0.05 and slope != 0.0:
                    zero[k] = (offs[k][0] / slope, h2f(ph))
            ks = sorted(zero)
            for k in ks[1:]:
                j = ks[0]
                want = (zero[j][1] - zero[k][1]) / (bl2phase * dxq)
                got = zero[k][0] - zero[j][0]
                if abs(got - want) > 2e-3 * abs(want) + 2e-3:
                    return ("linear RF model: kicks %d and %d are recorded with phases %r and %r, their fields vanish %r cells apart, "
                            "the phase difference is %r cells of the position axis" % (j, k, zero[j][1], zero[k][1], got, want))
        st = [d for o, d in ops if o == "s"]
        if st and rec["mode"] in ("zero", "ampl") and "off" in st[0]:
            so = [h2f(v) for v in st[0]["off"]]
            for k, (ph, am) in enumerate(flushed):
                want = span(so) * h2f(am)
                u = 16 * 2.0 ** -24
                slack = u * max(abs(v) for v in offs[k]) + u * max(abs(v) for v in so) * abs(h2f(am))
                if abs(span(offs[k]) - want) > 2e-5 * max(abs(want), 1e-30) + slack:
                    return ("kick %d is recorded with the static phase and amplitude %r, but the applied displacement "
                            "field is %r times the static one" % (k, h2f(am), span(offs[k]) / span(so) if span(so) else None))
    if rec["mode"] == "mod" and flushed:
        # pure sinusoidal phase modulation: phase_i - phase_0 = A*sin(2*pi*f*dt*i), amplitude 1
        p0 = h2f(flushed[0][0])
        for i, (ph, am) in enumerate(flushed):
            want = rec["modampl"] * math.sin(2 * math.pi * rec["modtime"] * i)
            # the code evaluates sin(float(2*pi*f*dt) * i) in binary32: the argument carries a relative error of 2^-23
            arg_err = abs(rec["modampl"]) * 2 * math.pi * rec["modtime"] * i * 2.4e-7
            if abs((h2f(ph) - p0) - want) > 1e-5 * max(1e-3, abs(rec["modampl"])) + 4e-7 * abs(p0) + arg_err:
                return "phase modulation entry %d is %g, configured amplitude/frequency give %g" % (i, h2f(ph) - p0, want)
            if h2f(am) != 1.0:
                return "pure phase modulation recorded amplitude %r" % h2f(am)
    return None


def rfkicks_rows(exe, h5, rng):
    """binary: /RFKicks/data holds one row per executed step, for several cadences"""
    fails = []
    for _ in range(2):
        d = prog.scratch()
        try:
            cfg = dict(n=16, N=rng.choice([16, 20]), T=rng.choice([0.25, 0.5]), outstep=rng.choice([0, 1, 2, 3, 7]),
                       h5save=0, cur=[0.001], imp="none", renorm=0, shx=0, shy=0, pad=2, it=4, dt=4)
            lin = rng.random() < 0.5
            extra = ["--RFPhaseModAmplitude", "0.5", "--RFPhaseModFrequency", "12345", "--LinearRF", "1" if lin else "0"]
            r = prog.run_inovesa(exe, P.args_of(cfg, extra=extra), d)
            if r.rc != 0:
                fails.append("dynamic RF run failed: %s" % (r.err or r.out)[-200:])
                continue
            D = prog.dump(h5, os.path.join(d, "a.h5"))
            rows = D["dsets"]["/RFKicks/data"][2][0]
            ls = P.laststep(cfg["N"], cfg["T"])
            if rows != ls:
                fails.append("/RFKicks/data has %d rows after %d executed steps (outstep %d, %s RF)" % (
                    rows, ls, cfg["outstep"], "linear" if lin else "sinusoidal"))
            pop = prog.fvals(D["dsets"]["/BunchPopulation/data"])
            if not all(abs(p - 1.0) < 1e-2 for p in pop):
                fails.append("dynamic %s RF run lost the charge: populations %r" % ("linear" if lin else "sinusoidal", pop[-3:]))
        finally:
            shutil.rmtree(d, ignore_errors=True)
    # an INTERRUPTED run (hook H1: SIGINT at a chosen interrupt point): one row per EXECUTED step, however many were planned
    for _ in range(2):
        d = prog.scratch()
        try:
            cfg = dict(n=16, N=20, T=0.5, outstep=rng.choice([0, 1, 3]), h5save=0, cur=[0.001], imp="none", renorm=0,
                       shx=0, shy=0, pad=2, it=4, dt=4)
            lin = rng.random() < 0.5
            extra = ["--RFPhaseModAmplitude", "0.5", "--RFPhaseModFrequency", "12345", "--LinearRF", "1" if lin else "0"]
            r0 = prog.run_inovesa(exe, P.args_of(cfg, extra=extra), d, trace=True)
            M = len(r0.trace)
            if r0.rc != 0 or M < 20:
                fails.append("dynamic RF run (reference for the interrupted one) failed: %s" % (r0.err or r0.out)[-200:])
                continue
            p = rng.randint(M // 4, (3 * M) // 4)
            os.remove(os.path.join(d, "a.h5"))
            r = prog.run_inovesa(exe, P.args_of(cfg, extra=extra), d, sigint_at=p, trace=True)
            if r.rc != 0 or not os.path.exists(os.path.join(d, "a.h5")):
                fails.append("interrupted dynamic RF run failed (point %d): status %d" % (p, r.rc))
                continue
            D = prog.dump(h5, os.path.join(d, "a.h5"))
            rows = D["dsets"]["/RFKicks/data"][2][0]
            done = sum(1 for t in r.trace if t == "loop:rf-applied")
            if rows != done:
                fails.append("/RFKicks/data has %d rows after a run interrupted at point %d (%s) that applied %d RF kicks "
                             "(outstep %d, %s RF)" % (rows, p, r0.trace[p], done, cfg["outstep"], "linear" if lin else "sinusoidal"))
        finally:
            shutil.rmtree(d, ignore_errors=True)
    return fails


def steps_equivalence(exe, h5, rng, nruns):
    """the modulation increment must follow the time step actually used, however the step count is given"""
    fails = []
    for _ in range(nruns):
        steps = rng.choice([64, 80, 100])
        f, a = P.steps_equivalence(exe, h5, steps, ["-s", "16", "-T", "0.5", "-n", "8", "-G", "0",
                                                    "--RFPhaseModAmplitude", repr(rng.choice([0.3, 1.0])),
                                                    "--RFPhaseModFrequency", repr(rng.choice([20000.0, 45000.0])),
                                                    "--LinearRF", str(rng.choice([0, 1]))],
                                    ["/RFKicks/data", "/Info/AxisValues_t"], 2e-4, rfk_tol=3e-6)
        if f:
            fails.append((f, a, steps))
    return fails


def explore(chk, harness, count, tag):
    rng = lib.Rng(chk.seed, "C19/" + tag)
    recs = gen(rng, count)
    optexts = {r["id"]: r["optext"] for r in recs}
    A, B, mism, drift, san = corr.run_correspondence(chk, harness, optexts, tag)
    mism = [(c, d) for c, d in mism if not any(l.startswith("skip") for l in B.get(c, []))]
    fails = [(r, f) for r in recs for f in [oracle(r, A)] if f]
    return recs, optexts, mism, drift, san, fails, rng


def run(chk):
    ok, det = lib.prove(chk, MODULES, min_examples=1)
    harness = lib.build_harness()
    exe = lib.build_inovesa("plain")
    h5 = lib.build_h5dump()
    quick = chk.tier == "quick"
    count = 60 if quick else 2500
    recs, optexts, mism, drift, san, fails, rng = explore(chk, harness, count, "main")
    binf = rfkicks_rows(exe, h5, rng)
    sef = steps_equivalence(exe, h5, rng, 1 if quick else 6)
    for f, a, steps in sef[:1]:
        chk.violation("C19 violated: recorded modulation depends on how the step count is given: " + f,
                      "# C19: %s\ninovesa %s\n# versus the same command with `-N %d` instead of --StepsPerRevolution\n" % (f, " ".join(a), steps),
                      tag="steps")
    binf = binf + [f for f, a, steps in sef[1:]]
    chk.cov["evaluations"] = len(recs) + 2
    chk.cov["distinct_nontrivial"] = len({r["optext"] for r in recs})
    chk.cov["rule"] = ("DynamicRFKickMap histories: random interleavings of apply/flush over 3-12 step queues, linear and "
                       "sinusoidal model, modes zero amplitude (with a static map as reference) / pure phase modulation / "
                       "noise / both; recorded entries vs displacement fields actually used (model recomputes the field "
                       "from each recorded entry); two binary runs for the /RFKicks rows; distinct = distinct op text")
    d = {}
    for r in recs:
        d["mode=" + r["mode"]] = d.get("mode=" + r["mode"], 0) + 1
        d["lin=%s" % r["lin"]] = d.get("lin=%s" % r["lin"], 0) + 1
    chk.cov["distribution"] = d
    chk.cov["correspondence"] = {"cases": len(recs), "mismatches": len(mism), "bitwise_drift": drift}
    chk.cov["samples"] = [{"case": recs[0]["optext"][:200]},
                          {"theorem": "Inovesa.Props.C19.forwarding_ok (generated constructor calls), zero_mod_is_static, queue bookkeeping over any apply/flush interleaving; C19Rows.rf_rows on the generated main loop"}]
    chk.assumptions += [
        "PRNG draws are inputs (std::mt19937/normal_distribution not modelled): with noise the model takes the recorded entries and checks that the displacement field used at step k is the one of record k",
        "sinusoidal model: class-level correspondence not modelled (per-step sine tables); covered by the zero-amplitude oracle and the binary runs",
    ]
    if san:
        chk.violation("sanitizer/abort in the implementation: " + san[:300],
                      "# harness aborted\n" + san + "\n" + "".join(optexts.values())[:100000], tag="sanitizer")
    for r, f in fails[:1]:
        chk.violation("C19 violated: " + f, "# C19 oracle failure: %s\n%s" % (f, r["optext"]), tag="oracle_" + r["id"])
    for f in binf[:1]:
        chk.violation("C19 violated: " + f, "# C19 binary oracle: %s\n" % f, tag="binary")
    broken = []
    if not ok:
        broken.append("proof obligation: " + str(det.get("broken"))[:1500])
    if mism:
        broken.append("correspondence (model vs implementation): case %s: %s" % mism[0])
    if broken and not fails and not san and not binf and not sef:
        recs2, opt2, mism2, drift2, san2, fails2, _ = explore(chk, harness, 600, "search")
        chk.cov["search"] = {"cases": len(recs2), "oracle_failures": len(fails2)}
        if fails2:
            r, f = fails2[0]
            chk.violation("C19 violated: %s; broken: %s" % (f, broken[0][:300]),
                          "# C19 oracle failure found by search: %s\n%s" % (f, r["optext"]), tag="search_" + r["id"])
        else:
            txt = "# C19 no longer shown; no failing input found by the search\n# %s\n" % (
                "\n# ".join(b.replace("\n", "\n# ") for b in broken))
            if mism and mism[0][0] in optexts:
                txt += "# first differing correspondence case follows\n" + optexts[mism[0][0]]
            chk.violation("C19 no longer shown: " + broken[0][:400], txt, tag="unproved", found_input=False)


def replay(chk, path):
    harness = lib.build_harness()
    with open(path) as f:
        txt = f.read()
    a, b, rc, err, rc2, err2 = C.run_both(harness, txt, "replay")
    print("\n".join(l[:200] for l in a[:40]))
    chk.cov["evaluations"] = len(C.split_cases(a))
