"""Whole-program cases (real main.cpp with hooks, HDF5 results dumped by harness/h5dump)."""
import math
import os
import shutil
import struct
import subprocess
import sys

sys.path.insert(0, os.path.dirname(os.path.dirname(os.path.abspath(__file__))))
import lib  # noqa
import prog  # noqa
import cases as C  # noqa
from lib import f32, h2f  # noqa

C_LIGHT = 2.99792458e8
E_CHARGE = 1.602e-19
EPS0 = 8.854187817e-12
ME = 510998.9

DEFAULTS = dict(alpha0=float(f32(4e-3)), f0=float(f32(9e6)), H=50.0, E0=1.3e9, sE=4.7e-4, V=1e6, fs=0.0,
                pqsize=12.0)


def laststep(steps, rotations):
    return int(math.ceil(float(steps) * float(f32(rotations))))


def gen_config(rng, quick=True, nbmax=3, allow_renorm=True, allow_rfmod=False):
    n = rng.choice([16, 24, 32] if quick else [16, 24, 32, 48])
    N = rng.choice([16, 20, 32, 40])
    T = rng.choice([0.25, 0.5, 0.75, 1.0]) if quick else rng.choice([0.25, 0.5, 1.0, 1.5])
    outstep = rng.choice([0, 1, 2, 3, 5, 7, 100])
    h5save = rng.choice([0, 1, 1, 2, 3])
    nbuckets = rng.choice(list(range(1, nbmax + 1)))
    cur = [rng.choice([0.0005, 0.001, 0.002]) for _ in range(nbuckets)]
    if nbuckets > 1 and rng.random() < 0.4:
        cur[rng.randrange(nbuckets)] = 0.0
    if all(c == 0 for c in cur):
        cur[0] = 0.001
    imp = rng.choice(["pp", "pp", "none", "free", "wall"])
    renorm = rng.choice([0, 0, -1, 1, 3]) if allow_renorm else rng.choice([0, -1])
    shx = rng.choice([0, 0, rng.choice([-2, -1, 1, 2])])
    shy = rng.choice([0, 0, rng.choice([-2, -1, 1, 3])])
    cfg = dict(n=n, N=N, T=T, outstep=outstep, h5save=h5save, cur=cur, imp=imp, renorm=renorm, shx=shx, shy=shy,
               pad=rng.choice([2, 4]), it=rng.choice([2, 3, 4]), dt=rng.choice([3, 4]))
    if allow_rfmod and rng.random() < 0.5:
        # deterministic RF phase modulation (no noise): the dynamic RF map with its per-step queue is in the loop
        cfg["rfmod"] = [rng.choice([0.2, 0.5, 2.0]), rng.choice([8000.0, 45000.0]), rng.choice([0, 1])]
    return cfg


def args_of(cfg, out="a.h5", extra=()):
    a = list(prog.BASE_ARGS)
    a += ["-s", str(cfg["n"]), "-N", str(cfg["N"]), "-T", repr(cfg["T"]), "-n", str(cfg["outstep"]),
          "--SavePhaseSpace", str(cfg["h5save"]), "--padding", str(cfg["pad"]),
          "--RenormalizeCharge", str(cfg["renorm"]), "--InterpolationPoints", str(cfg["it"]),
          "--derivation", str(cfg["dt"]),
          "--PhaseSpaceShiftX", str(cfg["shx"]), "--PhaseSpaceShiftY", str(cfg["shy"])]
    a += ["-I"] + [repr(c) for c in cfg["cur"]]
    if cfg["imp"] == "none":
        a += ["-G", "0"]
    elif cfg["imp"] == "free":
        a += ["-G", "-1"]
    elif cfg["imp"] == "wall":
        a += ["-G", "0.03", "--UseCSR", "0", "--WallConductivity", "3.5e7"]
    if cfg.get("rfmod"):
        a += ["--RFPhaseModAmplitude", repr(cfg["rfmod"][0]), "--RFPhaseModFrequency", repr(cfg["rfmod"][1]),
              "--LinearRF", str(cfg["rfmod"][2])]
    if cfg.get("zoom"):
        a += ["--InitialDistZoom", repr(cfg["zoom"])]
    if cfg.get("volt"):
        a += ["-V", repr(cfg["volt"])]
    if "roundpad" in cfg:
        a += ["--RoundPadding", str(cfg["roundpad"])]
    if out:
        a += ["-o", out]
    return a + list(extra)


def has_wake(cfg):
    return cfg["imp"] != "none"


def nbunches(cfg):
    return sum(1 for c in cfg["cur"] if c > 0)


def model_schedule(cfg, steps_done=None, sig=-1):
    """ask the Lean model (driver `main` case) what the file must contain"""
    ls = laststep(cfg["N"], cfg["T"])
    line = "main m %d %d %d %d %d 1 %d %d\nrun\n" % (ls, cfg["outstep"], cfg["h5save"], cfg["renorm"],
                                                    1 if has_wake(cfg) else 0, 1 if cfg.get("rfmod") else 0, sig)
    path = os.path.join(lib.CACHE, "main_%d.txt" % os.getpid())
    with open(path, "w") as f:
        f.write(line)
    p = subprocess.run([lib.driver_path(), path], stdout=subprocess.PIPE, text=True)
    os.remove(path)
    res = {}
    for l in p.stdout.split("\n"):
        t = l.split()
        if not t or t[0] != "ints":
            continue
        if t[1] == "steps":
            res["steps"] = int(t[2])
            res["markers"] = int(t[4])
        elif t[1] == "t":
            res["t"] = [int(x) for x in t[2:]]
        elif t[1] == "ps":
            res["ps"] = [int(x) for x in t[2:]]
        elif t[1] == "lens":
            res["lens"] = {t[i]: int(t[i + 1]) for i in range(2, len(t), 2)}
    return res


TIME_INDEXED = ["/BunchLength/data", "/BunchPopulation/data", "/BunchPosition/data", "/BunchProfile/data",
                "/CSR/Intensity/data", "/CSR/Spectrum/data", "/EnergyAverage/data", "/EnergyProfile/data",
                "/EnergySpread/data", "/Particles/data"]


def skeleton_check(cfg, D, sched):
    """file skeleton vs the model's prediction; returns None or text"""
    ds = D["dsets"]
    if "/Info/AxisValues_t" not in ds:
        return "results file has no time axis"
    nt = ds["/Info/AxisValues_t"][2][0]
    if nt != len(sched["t"]):
        return "time axis has %d records, model predicts %d (%s)" % (nt, len(sched["t"]), sched["t"])
    tv = prog.fvals(ds["/Info/AxisValues_t"])
    for i, st in enumerate(sched["t"]):
        want = f32(st / float(cfg["N"]))
        if tv[i] != want:
            return "time axis entry %d is %r, expected step %d / %d = %r" % (i, tv[i], st, cfg["N"], want)
    names = list(TIME_INDEXED) + (["/WakePotential/data"] if has_wake(cfg) else [])
    for nme in names:
        if nme not in ds:
            return "dataset %s missing" % nme
        if ds[nme][2][0] != nt:
            return "dataset %s has %d records, time axis %d" % (nme, ds[nme][2][0], nt)
    if not has_wake(cfg) and "/WakePotential/data" in ds and ds["/WakePotential/data"][2][0] != 0:
        return "wake potential recorded without impedance"
    nps = ds["/PhaseSpace/data"][2][0]
    if nps != len(sched["ps"]) or ds["/PhaseSpace/axis0"][2][0] != nps:
        return "phase space: %d records, axis %d, model predicts %d (%s)" % (
            nps, ds["/PhaseSpace/axis0"][2][0], len(sched["ps"]), sched["ps"])
    pv = prog.fvals(ds["/PhaseSpace/axis0"])
    for i, st in enumerate(sched["ps"]):
        if pv[i] != f32(st / float(cfg["N"])):
            return "phase-space axis entry %d is %r, expected step %d" % (i, pv[i], st)
    if ds["/RFKicks/data"][2][0] != sched["lens"]["rfk"]:
        return "RFKicks has %d rows, model %d" % (ds["/RFKicks/data"][2][0], sched["lens"]["rfk"])
    return None


def simpson(n, delta):
    w = [delta / 3.0 * (4.0 if i % 2 == 1 else 2.0) for i in range(n)]
    w[0] = delta / 3.0
    w[-1] = delta / 3.0
    return w


def attr_d(D, key):
    at = D["attrs"].get(key)
    if not at:
        return None
    return prog.avals(at)[0]


def param(D, name, default=None):
    at = D["attrs"].get("/Info/Parameters@" + name)
    if not at:
        return default
    return float(prog.avals(at)[0])


def sync_freq_default():
    """f_s of the default machine as main() computes it (binary64)"""
    f0, E0, H, V = float(f32(9e6)), 1.3e9, 50.0, 1e6
    alpha0 = float(f32(4e-3))
    R = C_LIGHT / (2 * math.pi * f0)
    V0 = E_CHARGE * (E0 / ME) ** 4 / (3 * EPS0 * R)
    Veff = math.sqrt(V * V - V0 * V0)
    return f0 * math.sqrt(alpha0 * H * Veff / (2 * math.pi * E0))


def steps_equivalence(exe, h5, steps, common_args, names, tol, rfk_tol=None):
    """The number of steps per synchrotron period can be given as `-N steps` or as `--StepsPerRevolution r` with
    r*f_rev/f_s = steps ("overwrites StepsPerTs"): every quantity derived from it (time step, rotation angle, damping
    decrement, modulation increment) must come out the same, so the two runs must agree.  Returns None or a text."""
    r = steps * sync_freq_default() / float(f32(9e6))
    outs = []
    for how in (["-N", str(steps)], ["--StepsPerRevolution", repr(r), "-N", "1000"]):
        d = prog.scratch()
        try:
            a = list(prog.BASE_ARGS) + list(common_args) + how + ["-o", "a.h5"]
            run = prog.run_inovesa(exe, a, d)
            if run.rc != 0 or not os.path.exists(os.path.join(d, "a.h5")):
                return "run with %s failed: %s" % (" ".join(how), (run.err or run.out)[-200:]), a
            outs.append((prog.dump(h5, os.path.join(d, "a.h5")), a))
        finally:
            shutil.rmtree(d, ignore_errors=True)
    (D0, a0), (D1, a1) = outs
    for nme in names:
        if nme not in D0["dsets"] or nme not in D1["dsets"]:
            return "dataset %s missing" % nme, a1
        v0, v1 = prog.fvals(D0["dsets"][nme]), prog.fvals(D1["dsets"][nme])
        if len(v0) != len(v1):
            return ("%s has %d values with -N %d and %d with --StepsPerRevolution %r" % (nme, len(v0), steps, len(v1), r)), a1
        t = rfk_tol if (rfk_tol is not None and nme == "/RFKicks/data") else tol
        for i, (x, y) in enumerate(zip(v0, v1)):
            if not abs(x - y) <= t * max(1.0, abs(x)):
                return ("%s entry %d is %r with `-N %d` and %r with the same step given as `--StepsPerRevolution %r`"
                        % (nme, i, x, steps, y, r)), a1
    return None, a1
