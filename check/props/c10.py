"""C10 — each record of the results file describes one instant, consistently."""
import math
import os
import shutil
import sys

import numpy as np

sys.path.insert(0, os.path.dirname(os.path.dirname(os.path.abspath(__file__))))
import lib  # noqa
import prog  # noqa
import progcommon as P  # noqa
from lib import f32  # noqa

MODULES = ["InovesaModel.Props.C10", "InovesaModel.Props.TieMoments", "InovesaModel.Props.TieRuler", "InovesaModel.Props.TieH5", "InovesaModel.Props.TiePS", "InovesaModel.Props.TiePhysics", "InovesaModel.Props.TieH5Shapes", "InovesaModel.Props.TieH5Read"]
LEVEL = "proof"
U = 2.0 ** -24


def arr(D, name):
    ds = D["dsets"][name]
    return np.array(prog.fvals(ds), dtype=float).reshape(ds[2]) if ds[2] and all(ds[2]) else np.zeros(ds[2])


def time_axis_oracle(cfg, D):
    """the time axis lists exactly the output steps (every outstep-th step from 0) plus the final step,
    in synchrotron periods; `steps_executed` is counted from the hook trace of the run"""
    K = D.get("steps_executed")
    if K is None:
        return None
    want = [k for k in range(K) if cfg["outstep"] > 0 and k % cfg["outstep"] == 0] + [K]
    tv = prog.fvals(D["dsets"]["/Info/AxisValues_t"])
    exp = [f32(k / float(cfg["N"])) for k in want]
    if tv != exp:
        return ("time axis is %s but the run executed %d steps with outstep %d: expected %s (steps %s / %d)"
                % (tv[-4:], K, cfg["outstep"], exp[-4:], want[-4:], cfg["N"]))
    pv = prog.fvals(D["dsets"]["/PhaseSpace/axis0"])
    if not pv or pv[-1] != f32(K / float(cfg["N"])):
        return "the last stored phase space is labelled t=%s, the run ended at step %d (t=%r)" % (
            pv[-1:] or None, K, f32(K / float(cfg["N"])))
    return None


def file_oracle(cfg, D):
    """consistency of every record of the dumped file; returns (None | text, key)"""
    ta = time_axis_oracle(cfg, D)
    if ta:
        return ta, None
    ds = D["dsets"]
    n = cfg["n"]
    nb = P.nbunches(cfg)
    # ---------------- machine parameters recorded in the file
    f0 = P.param(D, "RevolutionFrequency")
    H = P.param(D, "HarmonicNumber")
    E0 = P.param(D, "BeamEnergy")
    sE = P.param(D, "BeamEnergySpread")
    V = P.param(D, "AcceleratingVoltage")
    alpha0 = P.param(D, "alpha0")
    fsync = P.param(D, "SynchrotronFrequency")
    Rb = P.param(D, "BendingRadius")
    pq = P.param(D, "PhaseSpaceSize")
    steps = P.param(D, "StepsPerTs")
    shx, shy = P.param(D, "PhaseSpaceShiftX"), P.param(D, "PhaseSpaceShiftY")
    if None in (f0, H, E0, sE, V, alpha0, pq, steps):
        return "machine parameters missing from /Info/Parameters", None
    R = Rb if Rb and Rb > 0 else P.C_LIGHT / (2 * math.pi * f0)
    gamma = E0 / P.ME
    V0 = P.E_CHARGE * gamma ** 4 / (3 * P.EPS0 * R)
    Veff = math.sqrt(V * V - V0 * V0)
    fs = fsync if fsync else f0 * math.sqrt(alpha0 * H * Veff / (2 * math.pi * E0))
    dE = sE * E0
    bl = P.C_LIGHT * dE / H / f0 ** 2 / Veff * fs
    Ib = sum(c for c in cfg["cur"] if c > 0)
    dt = 1.0 / (fs * steps)

    def close(a, b, rel=2e-6):
        return abs(a - b) <= rel * max(abs(a), abs(b)) + 1e-300

    # ---------------- unit factors
    units = [
        ("/Info/AxisValues_z@Meter", bl), ("/Info/AxisValues_z@Second", bl / P.C_LIGHT),
        ("/Info/AxisValues_E@ElectronVolt", dE), ("/Info/AxisValues_t@Second", 1.0 / fs),
        ("/Info/AxisValues_t@Turn", f0 / fs), ("/BunchPopulation/data@Ampere", Ib),
        ("/BunchPopulation/data@Coulomb", Ib / f0), ("/BunchLength/data@Meter", bl),
        ("/BunchLength/data@Second", bl / P.C_LIGHT), ("/BunchPosition/data@Meter", bl),
        ("/EnergySpread/data@ElectronVolt", dE), ("/EnergyAverage/data@ElectronVolt", dE),
        ("/PhaseSpace/axis0@Second", 1.0 / fs), ("/PhaseSpace/axis0@Turn", f0 / fs),
        ("/BunchProfile/data@AmperePerNBL", Ib), ("/BunchProfile/data@CoulombPerNBL", Ib / f0),
    ]
    delta = pq / (n - 1)
    if P.has_wake(cfg):
        units += [("/WakePotential/data@Volt", delta * dE / (f0 * dt)),
                  ("/CSR/Spectrum/data@WattPerHertz", 2 * Ib * Ib / f0),
                  ("/CSR/Intensity/data@Watt", 2 * Ib * Ib / f0 * P.C_LIGHT / bl)]
    for key, want in units:
        got = P.attr_d(D, key)
        if got is None:
            if key.startswith("/CSR") or key.startswith("/Wake"):
                continue
            return "unit attribute %s missing" % key, None
        if not close(got, want, 3e-6):
            return "unit factor %s = %r, machine parameters imply %r" % (key, got, want), None
    # ---------------- axes
    qc, pc = -shx * pq / (n - 1), -shy * pq / (n - 1)
    for name, c0 in (("/Info/AxisValues_z", qc), ("/Info/AxisValues_E", pc)):
        ax = arr(D, name)
        want = np.array([c0 - pq / 2 + i * delta for i in range(n)])
        if not np.all(np.abs(ax - want) <= 8 * U * (pq + abs(c0))):
            i = int(np.argmax(np.abs(ax - want)))
            return "%s[%d] = %r, grid coordinate actually used is %r" % (name, i, ax[i], want[i]), None
    # ---------------- records
    ws = np.array(P.simpson(n, float(f32(delta))))
    tv = arr(D, "/Info/AxisValues_t")
    pst = arr(D, "/PhaseSpace/axis0")
    ps = arr(D, "/PhaseSpace/data")
    prof = arr(D, "/BunchProfile/data")
    eprof = arr(D, "/EnergyProfile/data")
    pop = arr(D, "/BunchPopulation/data")
    pos = arr(D, "/BunchPosition/data")
    length = arr(D, "/BunchLength/data")
    eavg = arr(D, "/EnergyAverage/data")
    espr = arr(D, "/EnergySpread/data")
    qax = arr(D, "/Info/AxisValues_z")
    pax = arr(D, "/Info/AxisValues_E")
    dq = float(f32((qax[-1] - qax[0]) / (n - 1)))
    for i, t in enumerate(tv):
        # moments of the stored profiles
        for b in range(nb):
            f = float(np.dot(prof[i, b], ws))
            if not close(f, pop[i, b], 2e-5):
                return "record %d bunch %d: population %r is not the integral of the stored profile (%r)" % (i, b, pop[i, b], f), None
            if pop[i, b] > 0:
                mq = float(np.dot(prof[i, b], qax)) * dq / pop[i, b]
                vq = float(np.dot(prof[i, b], (qax - pos[i, b]) ** 2)) * dq / pop[i, b]
                if abs(mq - pos[i, b]) > 2e-5 * (abs(mq) + 1):
                    return "record %d bunch %d: position %r is not the first moment of the stored profile (%r)" % (i, b, pos[i, b], mq), None
                if abs(math.sqrt(max(vq, 0)) - length[i, b]) > 2e-5 * (length[i, b] + 1e-3):
                    return "record %d bunch %d: length %r is not the rms of the stored profile (%r)" % (i, b, length[i, b], math.sqrt(max(vq, 0))), None
                me = float(np.dot(eprof[i, b], pax)) * dq / pop[i, b]
                ve = float(np.dot(eprof[i, b], (pax - eavg[i, b]) ** 2)) * dq / pop[i, b]
                if abs(me - eavg[i, b]) > 2e-5 * (abs(me) + 1):
                    return "record %d bunch %d: mean energy %r is not the first moment of the stored energy profile (%r)" % (i, b, eavg[i, b], me), "renorm-output" if cfg["renorm"] > 0 else None
                if abs(math.sqrt(max(ve, 0)) - espr[i, b]) > 2e-5 * (espr[i, b] + 1e-3):
                    return "record %d bunch %d: energy spread %r is not the rms of the stored energy profile (%r)" % (i, b, espr[i, b], math.sqrt(max(ve, 0))), "renorm-output" if cfg["renorm"] > 0 else None
        # projections of the stored phase space (where one was stored for this instant)
        j = [k for k in range(len(pst)) if pst[k] == t]
        if j and not (t == 0 and cfg["h5save"] == 0):
            g = ps[j[-1]]
            for b in range(nb):
                px = g[b] @ ws
                py = ws @ g[b]
                tolx = 16 * n * U * float(np.max(np.abs(g[b]) @ np.abs(ws))) + 1e-30
                if not np.all(np.abs(px - prof[i, b]) <= tolx):
                    k = int(np.argmax(np.abs(px - prof[i, b])))
                    return ("record %d (t=%g) bunch %d: stored bunch profile is not the projection of the stored phase "
                            "space (cell %d: %r vs %r, relative %.2e)" % (i, t, b, k, prof[i, b][k], px[k],
                                                                        abs(px[k] - prof[i, b][k]) / (abs(px[k]) + 1e-30)),
                            "renorm-output" if cfg["renorm"] > 0 else None)
                if not np.all(np.abs(py - eprof[i, b]) <= tolx):
                    k = int(np.argmax(np.abs(py - eprof[i, b])))
                    return "record %d bunch %d: stored energy profile is not the projection of the stored phase space (cell %d: %r vs %r)" % (i, b, k, eprof[i, b][k], py[k]), None
    # ---------------- CSR intensity = sum of the stored spectrum * df
    if "/CSR/Spectrum/data" in ds and ds["/CSR/Spectrum/data"][2][-1] > 1:
        sp = arr(D, "/CSR/Spectrum/data")
        it = arr(D, "/CSR/Intensity/data")
        fax = arr(D, "/Info/AxisValues_f")
        df = fax[1] - fax[0]
        for i in range(len(tv)):
            for b in range(nb):
                s = float(np.sum(sp[i, b])) * df
                # the file holds the first nmax/2 frequencies; the intensity also contains the Nyquist bin
                nyq = 2.0 * df * float(np.max(np.abs(sp[i, b][-2:])))
                if abs(s - it[i, b]) > 2e-3 * max(abs(it[i, b]), abs(s)) + nyq + 1e-30:
                    return "record %d bunch %d: CSR intensity %r is not the sum of the stored spectrum (%r)" % (i, b, it[i, b], s), None
    # ---------------- wake potential = convolution of the stored profile with the stored impedance (single bunch)
    if P.has_wake(cfg) and len(cfg["cur"]) == 1 and "/Impedance/data/real" in ds:
        zr, zi = arr(D, "/Impedance/data/real"), arr(D, "/Impedance/data/imag")
        N = 2 * len(zr)
        wk = arr(D, "/WakePotential/data")
        scale = Ib * dt * P.C_LIGHT / float(f32(bl)) / (float(f32(delta)) * sE * E0) / N
        for i in range(len(tv)):
            padded = np.zeros(N)
            padded[:n] = prof[i, 0]
            F = np.fft.fft(padded)
            X = np.zeros(N // 2 + 1, dtype=complex)
            X[:N // 2] = (zr + 1j * zi)[:N // 2] * F[:N // 2]
            w = np.fft.irfft(X, n=N) * N * scale
            tol = 1e-4 * (np.max(np.abs(w)) + 1e-30)
            if not np.all(np.abs(w[:n] - wk[i, 0]) <= tol):
                k = int(np.argmax(np.abs(w[:n] - wk[i, 0])))
                return ("record %d: stored wake potential is not scale*IDFT(Z*DFT(stored profile)) with the scale implied "
                        "by the machine parameters (cell %d: %r vs %r)" % (i, k, wk[i, 0][k], w[k])), None
    return None, None


def one_run(exe, h5, cfg, keep=False, sig=None):
    d = prog.scratch()
    try:
        extra = []
        if cfg.get("restart_volt"):
            # first a run at ANOTHER RF voltage whose last phase space becomes the start distribution: every scale and unit
            # factor of the second file must belong to the second run's own parameters
            c0 = dict(cfg, volt=cfg["restart_volt"], h5save=1)
            c0.pop("restart_volt")
            r0 = prog.run_inovesa(exe, P.args_of(c0, out="start.h5"), d)
            if r0.rc != 0 or not os.path.exists(os.path.join(d, "start.h5")):
                return None, "first leg of the restart case failed: %s" % (r0.err or r0.out)[-300:]
            extra = ["-i", "start.h5"]
        r = prog.run_inovesa(exe, P.args_of(cfg, extra=extra), d, sigint_at=sig, trace=True)
        if r.rc != 0 or not os.path.exists(os.path.join(d, "a.h5")):
            return None, "program exited with status %d: %s" % (r.rc, (r.err or r.out)[-400:])
        D = prog.dump(h5, os.path.join(d, "a.h5"))
        D["steps_executed"] = sum(1 for t in r.trace if t == "loop:projected")
        return D, None
    finally:
        if not keep:
            shutil.rmtree(d, ignore_errors=True)


def replay_text(cfg, what):
    env = ("INOVESA_VERIF_SIGINT_AT=%d " % cfg["sigint_at"]) if "sigint_at" in cfg else ""
    return "# C10: %s\n# configuration: %r\n# command: %sinovesa-verif %s\n" % (what, cfg, env, " ".join(P.args_of(cfg)))


def renorm_witness():
    """known finding renorm-output: renormalisation at every step, output at every step"""
    return dict(n=16, N=40, T=0.5, outstep=1, h5save=1, cur=[0.002], imp="pp", renorm=1, shx=0, shy=0, pad=2,
                it=4, dt=4, witness=True)


def explore(chk, exe, h5, count, quick, tag):
    rng = lib.Rng(chk.seed, "C10/" + tag)
    cfgs = [P.gen_config(rng, quick) for _ in range(count)] + ([renorm_witness()] if tag == "main" else [])
    mism, fails = [], []
    if tag == "main" and len(cfgs) > 2:
        # one run that starts from the results file of a run at another RF voltage (single bunch, with a wake)
        c = cfgs[1]
        c.update(cur=[0.002], volt=7.0e5, restart_volt=1.4e6, renorm=-1)
        if c["imp"] == "none":
            c["imp"] = "pp"
    if tag == "main" and len(cfgs) > 3:
        # two bunches on an ODD padded length without rounding to a power of two (rows of the CSR spectrum record)
        c = cfgs[2]
        c.update(n=17, pad=3, roundpad=0, cur=[0.002, 0.001], h5save=1)
        if c["imp"] == "none":
            c["imp"] = "pp"
    for cfg in cfgs:
        if rng.random() < 0.6 and not cfg.get("witness"):
            cfg["h5save"] = 1          # store every phase space so that every record can be checked
        # a third of the runs are interrupted (SIGINT through hook H1) at a random point: their files
        # must be just as consistent, with the time axis ending at the step actually reached
        sig = rng.randrange(8, 160) if rng.random() < 0.34 and not cfg.get("witness") else None
        if sig is not None:
            cfg["sigint_at"] = sig
        D, err = one_run(exe, h5, cfg, sig=sig)
        if err:
            fails.append((cfg, err, None))
            continue
        sched = P.model_schedule(cfg, sig=-1 if sig is None else sig)
        sk = P.skeleton_check(cfg, D, sched)
        if sk:
            mism.append((cfg, sk))
        f, key = file_oracle(cfg, D)
        if f:
            fails.append((cfg, f, key))
    return cfgs, mism, fails


def run(chk):
    ok, det = lib.prove(chk, MODULES, min_examples=0)
    exe = lib.build_inovesa("plain")
    h5 = lib.build_h5dump()
    quick = chk.tier == "quick"
    count = 10 if quick else 150
    cfgs, mism, fails = explore(chk, exe, h5, count, quick, "main")
    chk.cov["evaluations"] = len(cfgs)
    chk.cov["distinct_nontrivial"] = len({repr(c) for c in cfgs})
    chk.cov["rule"] = ("runs of the real program (main.cpp of the working tree): grid sizes 16-32(48), 4-40 steps, output "
                       "cadences incl. never/every step, phase-space save cadences, 1-3 buckets with empty ones, grid shifts, "
                       "four impedance choices, renormalisation settings; file skeleton compared with the Lean schedule "
                       "model; every record checked by the file oracle; distinct = distinct configuration")
    d = {}
    for c in cfgs:
        for k in ("imp", "renorm", "outstep", "h5save"):
            d["%s=%s" % (k, c[k])] = d.get("%s=%s" % (k, c[k]), 0) + 1
        d["buckets=%d" % len(c["cur"])] = d.get("buckets=%d" % len(c["cur"]), 0) + 1
    chk.cov["distribution"] = d
    chk.cov["correspondence"] = {"cases": len(cfgs), "mismatches": len(mism), "what": "dataset lengths, time axis, phase-space axis, RFKicks rows vs Model/MainProgram.lean on Gen/MainProgram.lean"}
    chk.cov["samples"] = [{"config": cfgs[0]},
                          {"theorem": "Inovesa.Props.C10.lengths_equal / time_axis / fresh_at_append_partial / wake_csr_of_profile / ps_matches_record on the generated main-loop skeleton"}]
    chk.assumptions += [
        "state-machine theorems over uninterpreted physics (Sem): which cached member is computed from what and appended when; numerics of projections/moments are C09, of the wake C06",
        "unit factors, axes, dataset layout (each bunch's row holds that bunch's data) are decided by the file oracle on the real program, not by a theorem",
        "HDF5 library: hyperslab append of k records appends k records (assumption)",
    ]
    kept = []
    for cfg, f, key in fails:
        if key and chk.known_match(key):
            chk.violation(f, "", key=key)
        else:
            kept.append((cfg, f))
    for cfg, f in kept[:1]:
        chk.violation("C10 violated: " + f, replay_text(cfg, f), tag="oracle")
    broken = []
    if not ok:
        broken.append("proof obligation: " + str(det.get("broken"))[:1500])
    if mism:
        broken.append("correspondence (schedule model vs results file): %s [config %r]" % (mism[0][1], mism[0][0]))
    if broken and not kept:
        cfgs2, mism2, fails2 = explore(chk, exe, h5, 40, True, "search")
        fails2 = [(c, f) for c, f, key in fails2 if not (key and chk.known_match(key))]
        chk.cov["search"] = {"cases": len(cfgs2), "oracle_failures": len(fails2)}
        if fails2:
            cfg, f = fails2[0]
            chk.violation("C10 violated: %s; broken: %s" % (f, broken[0][:300]), replay_text(cfg, f), tag="search")
        else:
            chk.violation("C10 no longer shown: " + broken[0][:400],
                          "# C10 no longer shown; no failing input found by the search\n# %s\n" % (
                              "\n# ".join(b.replace("\n", "\n# ") for b in broken)), tag="unproved", found_input=False)


def replay(chk, path):
    print(open(path).read())
